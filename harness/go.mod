module vharness

go 1.19

require (
	github.com/jmeaster30/vore/libvore v0.0.0
	github.com/jmeaster30/vore/libvore/algo v0.0.0
	github.com/jmeaster30/vore/libvore/ast v0.0.0
	github.com/jmeaster30/vore/libvore/bytecode v0.0.0
	github.com/jmeaster30/vore/libvore/ds v0.0.0
	github.com/jmeaster30/vore/libvore/engine v0.0.0
	github.com/jmeaster30/vore/libvore/files v0.0.0
	github.com/jmeaster30/vore/libvore/testutils v0.0.0
)

replace (
	github.com/jmeaster30/vore/libvore => /repo/libvore
	github.com/jmeaster30/vore/libvore/algo => /repo/libvore/algo
	github.com/jmeaster30/vore/libvore/ast => /repo/libvore/ast
	github.com/jmeaster30/vore/libvore/bytecode => /repo/libvore/bytecode
	github.com/jmeaster30/vore/libvore/ds => /repo/libvore/ds
	github.com/jmeaster30/vore/libvore/engine => /repo/libvore/engine
	github.com/jmeaster30/vore/libvore/files => /repo/libvore/files
	github.com/jmeaster30/vore/libvore/testutils => /repo/libvore/testutils
)
