package main

// Canonical s-expression printers for vore's exported AST, bytecode and match structures.
// The same textual format is produced by the extracted Coq model's driver (ocaml/driver.ml),
// so that the correspondence check can compare strings.

import (
	"encoding/hex"
	"fmt"
	"sort"
	"strconv"
	"strings"

	"github.com/jmeaster30/vore/libvore/ast"
	"github.com/jmeaster30/vore/libvore/bytecode"
	"github.com/jmeaster30/vore/libvore/engine"
)

func hx(s string) string { return "h" + hex.EncodeToString([]byte(s)) }
func bl(b bool) string {
	if b {
		return "t"
	}
	return "f"
}
func it(i int) string { return strconv.Itoa(i) }

func paren(parts ...string) string { return "(" + strings.Join(parts, " ") + ")" }

func exprsSexp(es []ast.AstExpression) string {
	parts := []string{}
	for _, e := range es {
		parts = append(parts, exprSexp(e))
	}
	return paren(parts...)
}

func exprSexp(e ast.AstExpression) string {
	var ie any = e
	switch x := ie.(type) {
	case *ast.AstLoop:
		if x == nil {
			return "(nil-loop)"
		}
		return paren("loop", it(x.Min), it(x.Max), bl(x.Fewest), hx(x.Name), exprSexp(x.Body))
	case *ast.AstBranch:
		if x == nil {
			return "(nil-branch)"
		}
		return paren("branch", litSexp(x.Left), exprSexp(x.Right))
	case *ast.AstDec:
		if x == nil {
			return "(nil-dec)"
		}
		return paren("dec", hx(x.Name), litSexp(x.Body))
	case *ast.AstSub:
		if x == nil {
			return "(nil-sub)"
		}
		return paren("sub", hx(x.Name), exprsSexp(x.Body))
	case *ast.AstList:
		if x == nil {
			return "(nil-list)"
		}
		parts := []string{}
		for _, l := range x.Contents {
			parts = append(parts, listableSexp(l))
		}
		return paren("list", bl(x.Not), paren(parts...))
	case *ast.AstPrimary:
		if x == nil {
			return "(nil-prim)"
		}
		return paren("prim", litSexp(x.Literal))
	case nil:
		return "(nil)"
	}
	return fmt.Sprintf("(unknown-expr %T)", ie)
}

func strSexp(s *ast.AstString) string {
	if s == nil {
		return "(nil-str)"
	}
	return paren("str", bl(s.Not), bl(s.Caseless), hx(s.Value))
}

func classSexp(c *ast.AstCharacterClass) string {
	if c == nil {
		return "(nil-class)"
	}
	return paren("class", bl(c.Not), c.ClassType.String())
}

func litSexp(l ast.AstLiteral) string {
	var il any = l
	switch x := il.(type) {
	case *ast.AstString:
		return strSexp(x)
	case *ast.AstSubExpr:
		if x == nil {
			return "(nil-subexpr)"
		}
		return paren("subexpr", exprsSexp(x.Body))
	case *ast.AstVariable:
		if x == nil {
			return "(nil-var)"
		}
		return paren("var", hx(x.Name))
	case *ast.AstCharacterClass:
		return classSexp(x)
	case nil:
		return "(nil)"
	}
	return fmt.Sprintf("(unknown-lit %T)", il)
}

func listableSexp(l ast.AstListable) string {
	var il any = l
	switch x := il.(type) {
	case *ast.AstString:
		return strSexp(x)
	case *ast.AstCharacterClass:
		return classSexp(x)
	case *ast.AstRange:
		if x == nil || x.From == nil || x.To == nil {
			return "(nil-range)"
		}
		return paren("range", hx(x.From.Value), hx(x.To.Value))
	case nil:
		return "(nil)"
	}
	return fmt.Sprintf("(unknown-listable %T)", il)
}

func atomSexp(a ast.AstAtom) string {
	var ia any = a
	switch x := ia.(type) {
	case *ast.AstString:
		return strSexp(x)
	case *ast.AstVariable:
		if x == nil {
			return "(nil-var)"
		}
		return paren("var", hx(x.Name))
	case nil:
		return "(nil)"
	}
	return fmt.Sprintf("(unknown-atom %T)", ia)
}

func stmtsSexp(ss []ast.AstProcessStatement) string {
	parts := []string{}
	for _, s := range ss {
		parts = append(parts, stmtSexp(s))
	}
	return paren(parts...)
}

func stmtSexp(s ast.AstProcessStatement) string {
	var is any = s
	switch x := is.(type) {
	case *ast.AstProcessSet:
		return paren("pset", hx(x.Name), pexprSexp(x.Expr))
	case *ast.AstProcessReturn:
		return paren("pret", pexprSexp(x.Expr))
	case *ast.AstProcessIf:
		return paren("pif", pexprSexp(x.Condition), stmtsSexp(x.TrueBody), stmtsSexp(x.FalseBody))
	case *ast.AstProcessDebug:
		return paren("pdebug", pexprSexp(x.Expr))
	case *ast.AstProcessLoop:
		return paren("ploop", stmtsSexp(x.Body))
	case ast.AstProcessBreak, *ast.AstProcessBreak:
		return "(pbreak)"
	case ast.AstProcessContinue, *ast.AstProcessContinue:
		return "(pcontinue)"
	case nil:
		return "(nil)"
	}
	return fmt.Sprintf("(unknown-stmt %T)", is)
}

func pexprSexp(e ast.AstProcessExpression) string {
	var ie any = e
	switch x := ie.(type) {
	case ast.AstProcessBinaryExpression:
		return paren("bin", x.Op.PP(), pexprSexp(x.Lhs), pexprSexp(x.Rhs))
	case *ast.AstProcessBinaryExpression:
		return paren("bin", x.Op.PP(), pexprSexp(x.Lhs), pexprSexp(x.Rhs))
	case ast.AstProcessUnaryExpression:
		return paren("un", x.Op.PP(), pexprSexp(x.Expr))
	case *ast.AstProcessUnaryExpression:
		return paren("un", x.Op.PP(), pexprSexp(x.Expr))
	case ast.AstProcessString:
		return paren("pstr", hx(x.Value))
	case ast.AstProcessNumber:
		return paren("pnum", it(x.Value))
	case ast.AstProcessBoolean:
		return paren("pbool", bl(x.Value))
	case ast.AstProcessVariable:
		return paren("pvar", hx(x.Name))
	case nil:
		return "(nil)"
	}
	return fmt.Sprintf("(unknown-pexpr %T)", ie)
}

func cmdSexp(c ast.AstCommand) string {
	var ic any = c
	switch x := ic.(type) {
	case *ast.AstFind:
		if x == nil {
			return "(nil-find)"
		}
		return paren("find", bl(x.All), it(x.Skip), it(x.Take), it(x.Last), exprsSexp(x.Body))
	case *ast.AstReplace:
		if x == nil {
			return "(nil-replace)"
		}
		parts := []string{}
		for _, a := range x.Result {
			parts = append(parts, atomSexp(a))
		}
		return paren("replace", bl(x.All), it(x.Skip), it(x.Take), it(x.Last), exprsSexp(x.Body), paren(parts...))
	case *ast.AstSet:
		if x == nil {
			return "(nil-set)"
		}
		var ib any = x.Body
		switch b := ib.(type) {
		case *ast.AstSetPattern:
			return paren("set", hx(x.Id), paren("pattern", exprsSexp(b.Pattern), stmtsSexp(b.Body)))
		case *ast.AstSetTransform:
			return paren("set", hx(x.Id), paren("transform", stmtsSexp(b.Statements)))
		case *ast.AstSetMatches:
			return paren("set", hx(x.Id), paren("matches", cmdSexp(b.Command)))
		}
		return fmt.Sprintf("(set %s (unknown-body %T))", hx(x.Id), ib)
	case nil:
		return "(nil)"
	}
	return fmt.Sprintf("(unknown-cmd %T)", ic)
}

func astSexp(a *ast.Ast) string {
	parts := []string{}
	for _, c := range a.Commands() {
		parts = append(parts, cmdSexp(c))
	}
	return paren(parts...)
}

// ---------------------------------------------------------------- bytecode

func instrSexp(i bytecode.SearchInstruction) string {
	var ii any = i
	switch x := ii.(type) {
	case bytecode.MatchLiteral:
		return paren("lit", bl(x.Not), bl(x.Caseless), hx(x.ToFind))
	case bytecode.MatchCharClass:
		return paren("class", bl(x.Not), x.Class.String())
	case bytecode.MatchVariable:
		return paren("mvar", hx(x.Name))
	case bytecode.MatchRange:
		return paren("range", bl(x.Not), hx(x.From), hx(x.To))
	case bytecode.CallSubroutine:
		return paren("call", hx(x.Name), it(x.ToPC))
	case bytecode.Branch:
		parts := []string{}
		for _, b := range x.Branches {
			parts = append(parts, it(b))
		}
		return paren("branch", paren(parts...))
	case bytecode.StartNotIn:
		return paren("startnotin", it(x.NextCheckpointPC))
	case bytecode.FailNotIn:
		return "(failnotin)"
	case bytecode.EndNotIn:
		return paren("endnotin", it(x.MaxSize))
	case bytecode.StartLoop:
		return paren("startloop", "L"+strconv.FormatInt(x.Id, 10), it(x.MinLoops), it(x.MaxLoops), bl(x.Fewest), it(x.ExitLoop), hx(x.Name))
	case bytecode.StopLoop:
		return paren("stoploop", "L"+strconv.FormatInt(x.Id, 10), it(x.MinLoops), it(x.MaxLoops), bl(x.Fewest), it(x.StartLoop), hx(x.Name))
	case bytecode.StartVarDec:
		return paren("startvar", hx(x.Name))
	case bytecode.EndVarDec:
		return paren("endvar", hx(x.Name))
	case bytecode.StartSubroutine:
		return paren("startsub", it(x.Id), hx(x.Name), it(x.EndOffset))
	case bytecode.EndSubroutine:
		return paren("endsub", hx(x.Name), stmtsSexp(x.Validate))
	case bytecode.Jump:
		return paren("jump", it(x.NewProgramCounter))
	}
	return fmt.Sprintf("(unknown-instr %T)", ii)
}

func instrsSexp(is []bytecode.SearchInstruction) string {
	parts := []string{}
	for _, i := range is {
		parts = append(parts, instrSexp(i))
	}
	return paren(parts...)
}

func rinstrsSexp(is []bytecode.ReplaceInstruction) string {
	parts := []string{}
	for _, i := range is {
		var ii any = i
		switch x := ii.(type) {
		case bytecode.ReplaceString:
			parts = append(parts, paren("rstr", hx(x.Value)))
		case bytecode.ReplaceVariable:
			parts = append(parts, paren("rvar", hx(x.Name)))
		case bytecode.ReplaceProcess:
			parts = append(parts, paren("rproc", stmtsSexp(x.Process)))
		default:
			parts = append(parts, fmt.Sprintf("(unknown-rinstr %T)", ii))
		}
	}
	return paren(parts...)
}

func bcCmdSexp(c bytecode.Command) string {
	var ic any = c
	switch x := ic.(type) {
	case bytecode.FindCommand:
		return paren("find", bl(x.All), it(x.Skip), it(x.Take), it(x.Last), instrsSexp(x.Body))
	case bytecode.ReplaceCommand:
		return paren("replace", bl(x.All), it(x.Skip), it(x.Take), it(x.Last), instrsSexp(x.Body), rinstrsSexp(x.Replacer))
	case bytecode.SetCommand:
		var ib any = x.Body
		switch b := ib.(type) {
		case *bytecode.SetCommandExpression:
			return paren("set", hx(x.Id), paren("pattern", instrsSexp(b.Instructions), stmtsSexp(b.Validate)))
		case bytecode.SetCommandTransform:
			return paren("set", hx(x.Id), paren("transform", stmtsSexp(b.Statements)))
		case *bytecode.SetCommandMatches:
			return paren("set", hx(x.Id), paren("matches", bcCmdSexp(b.Command)))
		}
		return fmt.Sprintf("(set %s (unknown-body %T))", hx(x.Id), ib)
	}
	return fmt.Sprintf("(unknown-bccmd %T)", ic)
}

func bcSexp(b *bytecode.Bytecode) string {
	parts := []string{}
	for _, c := range b.Bytecode {
		parts = append(parts, bcCmdSexp(c))
	}
	return paren(parts...)
}

// ---------------------------------------------------------------- matches

func valueSexp(v engine.Value) string {
	g := v.ToGo()
	return goValueSexp(g)
}

func goValueSexp(g any) string {
	switch x := g.(type) {
	case string:
		return hx(x)
	case map[string]any:
		keys := []string{}
		for k := range x {
			keys = append(keys, k)
		}
		sort.Strings(keys)
		parts := []string{}
		for _, k := range keys {
			parts = append(parts, paren(hx(k), goValueSexp(x[k])))
		}
		return paren(parts...)
	}
	return fmt.Sprintf("(unknown-value %T)", g)
}

func matchSexp(m engine.Match) string {
	repl := "none"
	if m.Replacement.HasValue() {
		repl = hx(m.Replacement.GetValue())
	}
	vars := "()"
	if m.Variables.Value != nil {
		vars = valueSexp(m.Variables)
	}
	return paren("m", it(m.MatchNumber), it(m.Offset.Start), it(m.Offset.End),
		it(m.Line.Start), it(m.Line.End), it(m.Column.Start), it(m.Column.End),
		hx(m.Value), repl, vars)
}

func matchesSexp(ms engine.Matches) string {
	parts := []string{}
	for _, m := range ms {
		parts = append(parts, matchSexp(m))
	}
	return paren(parts...)
}
