package main

// Correspondence harness: runs vore (built from /repo's current working tree through the replace
// directives in go.mod) on case files and prints canonical observables, one JSON object per case.
//
//   vharness -in cases.jsonl -out results.jsonl [-start k] [-timeout ms] [-maxmem MB]
//
// A watchdog ends the process (exit 3) after recording {"hang":true} / {"oom":true} for the case in
// progress; the caller restarts with -start k+1.  Panics are recovered per case.

import (
	"bufio"
	"encoding/hex"
	"encoding/json"
	"flag"
	"fmt"
	goast "go/ast"
	"go/parser"
	"go/token"
	"os"
	"path/filepath"
	"reflect"
	"regexp"
	"runtime"
	"runtime/debug"
	"strconv"
	"strings"
	"sync"
	"time"
	"unsafe"

	"github.com/jmeaster30/vore/libvore"
	"github.com/jmeaster30/vore/libvore/ast"
	"github.com/jmeaster30/vore/libvore/bytecode"
	"github.com/jmeaster30/vore/libvore/engine"
	"github.com/jmeaster30/vore/libvore/files"
)

type Case map[string]any
type Result map[string]any

var outMu sync.Mutex
var outW *bufio.Writer

func emit(r Result) {
	outMu.Lock()
	defer outMu.Unlock()
	b, err := json.Marshal(r)
	if err != nil {
		b, _ = json.Marshal(Result{"id": r["id"], "harness_error": err.Error()})
	}
	outW.Write(b)
	outW.WriteString("\n")
	outW.Flush()
}

func str(c Case, k string) string {
	v, ok := c[k]
	if !ok || v == nil {
		return ""
	}
	s, _ := v.(string)
	return s
}

func num(c Case, k string, def int) int {
	v, ok := c[k]
	if !ok || v == nil {
		return def
	}
	f, _ := v.(float64)
	return int(f)
}

// texts are passed hex-encoded under "<key>_hex" or verbatim under "<key>"
func bytesArg(c Case, k string) string {
	if h, ok := c[k+"_hex"]; ok {
		b, err := hex.DecodeString(h.(string))
		if err != nil {
			panic("bad hex in case")
		}
		return string(b)
	}
	return str(c, k)
}

func errClass(err error) string {
	switch err.(type) {
	case *ast.LexError:
		return "lex"
	case *ast.ParseError:
		return "parse"
	case *bytecode.GenError:
		return "gen"
	}
	return fmt.Sprintf("%T", err)
}

type compiled struct {
	a  *ast.Ast
	bc *bytecode.Bytecode
}

func compileSrc(src string, r Result) *compiled {
	a, err := ast.ParseReader(strings.NewReader(src))
	if err != nil {
		r["err"] = err.Error()
		r["errclass"] = errClass(err)
		if a != nil {
			r["both"] = true
		}
		return nil
	}
	if a == nil {
		r["neither"] = true
		return nil
	}
	r["ast"] = astSexp(a)
	bc, gerr := bytecode.GenerateBytecode(a)
	if gerr != nil {
		r["err"] = gerr.Error()
		r["errclass"] = errClass(gerr)
		if bc != nil {
			r["both"] = true
		}
		return nil
	}
	if bc == nil {
		r["neither"] = true
		return nil
	}
	r["bc"] = bcSexp(bc)
	return &compiled{a, bc}
}

// the library's public entry points on the same source and texts: libvore.Compile must accept/reject as the pipeline above does (same error class)
// and (*Vore).Run must return what engine.Run returned for the pipeline's bytecode.  The first difference is recorded under "api_diff".
// the bytecode inside a *libvore.Vore (an unexported field; read, never written)
func voreBytecode(v *libvore.Vore) *bytecode.Bytecode {
	f := reflect.ValueOf(v).Elem().FieldByName("bytecode")
	if !f.IsValid() {
		return nil
	}
	return *(**bytecode.Bytecode)(unsafe.Pointer(f.UnsafeAddr()))
}

func apiPass(src string, texts []string, direct []string, r Result) {
	apiPassWith("libvore.Compile", func() (*libvore.Vore, error) { return libvore.Compile(src) }, texts, direct, r)
}

// the same source stored in a file and compiled with libvore.CompileFile
func filePass(src string, texts []string, direct []string, r Result) {
	f, err := os.CreateTemp(".", "src-*.vore")
	if err != nil {
		r["harness_error"] = err.Error()
		return
	}
	name := f.Name()
	f.WriteString(src)
	f.Close()
	defer os.Remove(name)
	r["stage"] = "libvore.CompileFile" // stays in the result only if the call below panics
	apiPassWith("libvore.CompileFile", func() (*libvore.Vore, error) { return libvore.CompileFile(name) }, texts, direct, r)
	delete(r, "stage")
}

func apiPassWith(what string, compile func() (*libvore.Vore, error), texts []string, direct []string, r Result) {
	if _, done := r["api_diff"]; done {
		return
	}
	v, err := compile()
	_, accepted := r["bc"]
	if err != nil || v == nil {
		if accepted {
			r["api_diff"] = fmt.Sprintf("%s rejects (%v) what ParseReader+GenerateBytecode accept", what, err)
		} else if err != nil && errClass(err) != r["errclass"] {
			r["api_diff"] = fmt.Sprintf("%s error class %s, pipeline %v", what, errClass(err), r["errclass"])
		}
		return
	}
	if !accepted {
		r["api_diff"] = what + " accepts what ParseReader+GenerateBytecode reject"
		return
	}
	if bc := voreBytecode(v); bc != nil {
		if got, want := canonIds(bcSexp(bc)), canonIds(r["bc"].(string)); got != want {
			r["api_diff"] = fmt.Sprintf("%s holds bytecode %s, the pipeline generates %s", what, got, want)
			return
		}
	}
	for i, t := range texts {
		if i >= len(direct) {
			break
		}
		if got := matchesSexp(v.Run(t)); got != direct[i] {
			r["api_diff"] = fmt.Sprintf("text %d: (*Vore).Run after %s gives %s, engine.Run on the pipeline's bytecode %s", i, what, got, direct[i])
			r["api_text"] = i
			return
		}
	}
}

func opE2E(c Case, r Result) {
	src := bytesArg(c, "src")
	cp := compileSrc(src, r)
	opE2EBody(c, r, cp)
	if noapi, _ := c["noapi"].(bool); noapi {
		return
	}
	// reached only when the pipeline returned normally (a panic is the case's outcome already)
	texts, direct := []string{}, []string{}
	if cp != nil {
		if ts, ok := c["texts_hex"]; ok {
			for _, t := range ts.([]any) {
				b, _ := hex.DecodeString(t.(string))
				texts = append(texts, string(b))
			}
		} else if _, ok := c["text_hex"]; ok {
			texts = append(texts, bytesArg(c, "text"))
		} else if _, ok := c["text"]; ok {
			texts = append(texts, bytesArg(c, "text"))
		}
		if l, ok := r["matches_list"].([]string); ok {
			direct = l
		} else if m, ok := r["matches"].(string); ok {
			direct = []string{m}
		}
	}
	apiPass(src, texts, direct, r)
	if file, _ := c["file"].(bool); file {
		filePass(src, texts, direct, r)
	}
}

func opE2EBody(c Case, r Result, cp *compiled) {
	if cp == nil {
		return
	}
	if _, ok := c["text"]; !ok {
		if _, ok2 := c["text_hex"]; !ok2 {
			if _, ok3 := c["texts_hex"]; !ok3 {
				return
			}
		}
	}
	if ts, ok := c["texts_hex"]; ok {
		outs := []string{}
		percmd := [][]string{}
		wantPer, _ := c["percmd"].(bool)
		for _, t := range ts.([]any) {
			b, _ := hex.DecodeString(t.(string))
			outs = append(outs, matchesSexp(engine.Run(cp.bc, string(b))))
			r["matches_list"] = outs // kept up to date so that a panic leaves the results so far
			if wantPer {
				// every command alone (with the bytecode the whole source compiled to)
				per := []string{}
				for _, cmd := range cp.bc.Bytecode {
					one := &bytecode.Bytecode{Bytecode: []bytecode.Command{cmd}}
					per = append(per, matchesSexp(engine.Run(one, string(b))))
				}
				percmd = append(percmd, per)
				r["percmd_list"] = percmd
			}
		}
		r["matches_list"] = outs
		return
	}
	text := bytesArg(c, "text")
	ms := engine.Run(cp.bc, text)
	r["matches"] = matchesSexp(ms)
}

// files: {"op":"files","src_hex":..,"files":[["name","hexcontent"],...],"search":["name",...],"mode":"NEW|NOTHING|OVERWRITE"}
// runs RunFiles in a fresh scratch directory and reports the matches (filenames made relative)
// and a snapshot of the directory afterwards.
func opFiles(c Case, r Result) {
	src := bytesArg(c, "src")
	cp := compileSrc(src, r)
	if cp == nil {
		return
	}
	dir, err := os.MkdirTemp("", "vh-files-")
	if err != nil {
		panic(err)
	}
	defer os.RemoveAll(dir)
	for _, f := range c["files"].([]any) {
		pair := f.([]any)
		b, _ := hex.DecodeString(pair[1].(string))
		p := filepath.Join(dir, pair[0].(string))
		os.MkdirAll(filepath.Dir(p), 0o755)
		if err := os.WriteFile(p, b, 0o644); err != nil {
			panic(err)
		}
	}
	names := []string{}
	for _, n := range c["search"].([]any) {
		names = append(names, filepath.Join(dir, n.(string)))
	}
	mode := engine.NEW
	switch str(c, "mode") {
	case "NOTHING":
		mode = engine.NOTHING
	case "OVERWRITE":
		mode = engine.OVERWRITE
	}
	// through the library's entry points when they accept the source (they must: the pipeline did), else on the pipeline's bytecode
	var ms engine.Matches
	if v, err := libvore.Compile(src); err == nil && v != nil {
		ms = v.RunFiles(names, mode, false)
	} else {
		r["api_diff"] = fmt.Sprintf("libvore.Compile rejects (%v) what ParseReader+GenerateBytecode accept", err)
		ms = engine.RunFiles(cp.bc, names, mode, false)
	}
	fnames := []string{}
	for i := range ms {
		rel, _ := filepath.Rel(dir, ms[i].Filename)
		fnames = append(fnames, rel)
	}
	r["matches"] = matchesSexp(ms)
	r["filenames"] = fnames
	snap := map[string]string{}
	filepath.Walk(dir, func(p string, info os.FileInfo, err error) error {
		if err == nil && !info.IsDir() {
			b, _ := os.ReadFile(p)
			rel, _ := filepath.Rel(dir, p)
			snap[rel] = hex.EncodeToString(b)
		}
		return nil
	})
	r["snapshot"] = snap
}

// hist: compile the source twice; run the first program on every text, then again in reverse
// order, then the second program; all three result lists must be identical (C13: runs and
// compilations are independent).
func opHist(c Case, r Result) {
	src := bytesArg(c, "src")
	cp1 := compileSrc(src, r)
	if cp1 == nil {
		return
	}
	// other sources compiled in between (their outcome is irrelevant: they may be rejected)
	if pre, ok := c["between_hex"]; ok {
		for _, p := range pre.([]any) {
			b, _ := hex.DecodeString(p.(string))
			func() {
				defer func() { recover() }()
				compileSrc(string(b), Result{})
			}()
		}
	}
	r2 := Result{}
	cp2 := compileSrc(src, r2)
	if cp2 == nil {
		r["second_compile_failed"] = true
		return
	}
	r["bc2"] = r2["bc"]
	texts := []string{}
	for _, t := range c["texts_hex"].([]any) {
		b, _ := hex.DecodeString(t.(string))
		texts = append(texts, string(b))
	}
	first := make([]string, len(texts))
	again := make([]string, len(texts))
	other := make([]string, len(texts))
	for i, t := range texts {
		first[i] = matchesSexp(engine.Run(cp1.bc, t))
	}
	for i := len(texts) - 1; i >= 0; i-- {
		again[i] = matchesSexp(engine.Run(cp1.bc, texts[i]))
	}
	for i, t := range texts {
		other[i] = matchesSexp(engine.Run(cp2.bc, t))
	}
	r["first"] = first
	r["again"] = again
	r["other"] = other
	r["bc_after"] = bcSexp(cp1.bc)
}

// reader: {"content_hex":..., "reads":[[off,len],...]}: the same reads through files.ReaderFromFile
// (buffered file) and files.ReaderFromString.
func opReader(c Case, r Result) {
	content := bytesArg(c, "content")
	dir, err := os.MkdirTemp("", "vh-reader-")
	if err != nil {
		panic(err)
	}
	defer os.RemoveAll(dir)
	p := filepath.Join(dir, "f.bin")
	if err := os.WriteFile(p, []byte(content), 0o644); err != nil {
		panic(err)
	}
	fr := files.ReaderFromFile(p)
	sr := files.ReaderFromString(content)
	fouts, souts := []string{}, []string{}
	for _, rd := range c["reads"].([]any) {
		pair := rd.([]any)
		off, n := int(pair[0].(float64)), int(pair[1].(float64))
		fouts = append(fouts, hx(fr.ReadAt(n, off)))
		souts = append(souts, hx(sr.ReadAt(n, off)))
		r["file"] = fouts
		r["string"] = souts
	}
	r["file"] = fouts
	r["string"] = souts
	r["size_file"] = fr.Size()
	r["size_string"] = sr.Size()
	fr.Close()
}

// runboth: RunFiles(NOTHING) on a file vs Run on the same bytes
func opRunBoth(c Case, r Result) {
	src := bytesArg(c, "src")
	cp := compileSrc(src, r)
	if cp == nil {
		return
	}
	content := bytesArg(c, "content")
	dir, err := os.MkdirTemp("", "vh-both-")
	if err != nil {
		panic(err)
	}
	defer os.RemoveAll(dir)
	p := filepath.Join(dir, "f.txt")
	if err := os.WriteFile(p, []byte(content), 0o644); err != nil {
		panic(err)
	}
	r["mem"] = matchesSexp(engine.Run(cp.bc, content))
	r["file"] = matchesSexp(engine.RunFiles(cp.bc, []string{p}, engine.NOTHING, false))
}

// glob: {"tree":[["path",isdir],...],"patterns":[...],"absolute":bool}: GetFileList on a scratch tree
func opGlob(c Case, r Result) {
	root, err := os.MkdirTemp("", "vh-glob-")
	if err != nil {
		panic(err)
	}
	defer os.RemoveAll(root)
	for _, e := range c["tree"].([]any) {
		pair := e.([]any)
		p := filepath.Join(root, pair[0].(string))
		if pair[1].(bool) {
			os.MkdirAll(p, 0o755)
		} else {
			os.MkdirAll(filepath.Dir(p), 0o755)
			os.WriteFile(p, []byte("x"), 0o644)
		}
	}
	abs, _ := c["absolute"].(bool)
	outs := [][]string{}
	for _, pt := range c["patterns"].([]any) {
		pat := pt.(string)
		var got []string
		if abs {
			got = files.ParsePath(root + "/" + pat).GetFileList("/nonexistent-start-directory")
		} else {
			got = files.ParsePath(pat).GetFileList(root)
		}
		rel := []string{}
		for _, g := range got {
			rel = append(rel, strings.TrimPrefix(filepath.Clean(g), root)) // "//tmp/x" and "/tmp/x" name the same file
		}
		outs = append(outs, rel)
		r["lists"] = outs
	}
	r["lists"] = outs
}

// conc: goroutines compile sources and run compiled programs (shared and private) at the same
// time; every call must return what it returns when executed alone (C19).  Built with -race the
// detector's reports go to stderr and set the exit status.
func opConc(c Case, r Result) {
	var sources, texts []string
	for _, s := range c["sources_hex"].([]any) {
		b, _ := hex.DecodeString(s.(string))
		sources = append(sources, string(b))
	}
	for _, t := range c["texts_hex"].([]any) {
		b, _ := hex.DecodeString(t.(string))
		texts = append(texts, string(b))
	}
	n := num(c, "goroutines", 8)
	iters := num(c, "iters", 20)
	type exp struct {
		bc      string
		matches []string
		prog    *bytecode.Bytecode
	}
	expected := make([]exp, len(sources))
	canon := func(bc *bytecode.Bytecode) string { return canonIds(bcSexp(bc)) }
	for i, src := range sources {
		a, err := ast.ParseReader(strings.NewReader(src))
		if err != nil {
			expected[i] = exp{bc: "ERR:" + errClass(err)}
			continue
		}
		bc, gerr := bytecode.GenerateBytecode(a)
		if gerr != nil {
			expected[i] = exp{bc: "ERR:" + errClass(gerr)}
			continue
		}
		e := exp{bc: canon(bc), prog: bc}
		for _, t := range texts {
			e.matches = append(e.matches, matchesSexp(engine.Run(bc, t)))
		}
		expected[i] = e
	}
	var mu sync.Mutex
	mismatches := []string{}
	calls := 0
	var wg sync.WaitGroup
	for g := 0; g < n; g++ {
		wg.Add(1)
		go func(g int) {
			defer wg.Done()
			defer func() {
				if p := recover(); p != nil {
					mu.Lock()
					mismatches = append(mismatches, fmt.Sprintf("panic in goroutine %d: %v", g, p))
					mu.Unlock()
				}
			}()
			for it := 0; it < iters; it++ {
				i := (g + it) % len(sources)
				// compile concurrently
				var got string
				var prog *bytecode.Bytecode
				var api *libvore.Vore
				if (g+it)%2 == 0 {
					a, err := ast.ParseReader(strings.NewReader(sources[i]))
					if err != nil {
						got = "ERR:" + errClass(err)
					} else {
						bc, gerr := bytecode.GenerateBytecode(a)
						if gerr != nil {
							got = "ERR:" + errClass(gerr)
						} else {
							got = canon(bc)
							prog = bc
						}
					}
				} else {
					// every other call goes through the library's entry point
					v, err := libvore.Compile(sources[i])
					if err != nil || v == nil {
						got = "ERR:" + errClass(err)
					} else {
						api = v
						prog = voreBytecode(v)
						got = canon(prog)
					}
				}
				local := []string{}
				if got != expected[i].bc {
					local = append(local, fmt.Sprintf("compile of source %d differs: %s vs %s", i, got, expected[i].bc))
				}
				// run the shared program and the private one concurrently
				j := (g*7 + it) % len(sources)
				if expected[j].prog != nil {
					for k, t := range texts {
						if m := matchesSexp(engine.Run(expected[j].prog, t)); m != expected[j].matches[k] {
							local = append(local, fmt.Sprintf("run of shared program %d on text %d differs", j, k))
						}
					}
				}
				if prog != nil && got == expected[i].bc {
					for k, t := range texts {
						var ms engine.Matches
						if api != nil {
							ms = api.Run(t)
						} else {
							ms = engine.Run(prog, t)
						}
						if m := matchesSexp(ms); m != expected[i].matches[k] {
							local = append(local, fmt.Sprintf("run of private program %d on text %d differs", i, k))
						}
					}
				}
				mu.Lock()
				calls += 2 + 2*len(texts)
				if len(mismatches) < 20 {
					mismatches = append(mismatches, local...)
				}
				mu.Unlock()
			}
		}(g)
	}
	wg.Wait()
	r["calls"] = calls
	r["mismatches"] = mismatches
}

var loopIdRe = regexp.MustCompile(`\((start|stop)loop L(-?\d+)`)

func canonIds(bc string) string {
	ids := map[string]int{}
	return loopIdRe.ReplaceAllStringFunc(bc, func(m string) string {
		sub := loopIdRe.FindStringSubmatch(m)
		if _, ok := ids[sub[2]]; !ok {
			ids[sub[2]] = len(ids)
		}
		return fmt.Sprintf("(%sloop L%d", sub[1], ids[sub[2]])
	})
}

// every match rendered on its own (Match.Json, Match.FormattedJson) is the document it is as an element of the list
func singleJson(ms engine.Matches, r Result) {
	var list []any
	if err := json.Unmarshal([]byte(ms.Json()), &list); err != nil || len(list) != len(ms) {
		return // the list rendering itself is judged by the caller
	}
	for i, m := range ms {
		var a, b any
		ea := json.Unmarshal([]byte(m.Json()), &a)
		eb := json.Unmarshal([]byte(m.FormattedJson()), &b)
		if ea != nil || eb != nil || !reflect.DeepEqual(a, list[i]) || !reflect.DeepEqual(b, list[i]) {
			r["single_json_diff"] = fmt.Sprintf("match %d: Match.Json / Match.FormattedJson differ from element %d of Matches.Json (%v %v)", i, i, ea, eb)
			return
		}
	}
}

// json: compact and formatted JSON of the results, per text, next to the in-memory matches
func opJson(c Case, r Result) {
	src := bytesArg(c, "src")
	cp := compileSrc(src, r)
	if cp == nil {
		return
	}
	outs := [][]string{}
	for _, t := range c["texts_hex"].([]any) {
		b, _ := hex.DecodeString(t.(string))
		ms := engine.Run(cp.bc, string(b))
		outs = append(outs, []string{hex.EncodeToString([]byte(ms.Json())), hex.EncodeToString([]byte(ms.FormattedJson())), matchesSexp(ms)})
		r["json"] = outs
		singleJson(ms, r)
	}
	r["json"] = outs
}

// jsonfiles: {"op":"jsonfiles","src_hex":..,"files":[["name","hexcontent"],...],"search":["spelling",...]}
// RunFiles (mode NOTHING) over path SPELLINGS appended verbatim to the scratch directory ("./a.txt", "sub//a.txt", "sub/"),
// reports both JSON renderings and the in-memory Filename of every match
func opJsonFiles(c Case, r Result) {
	src := bytesArg(c, "src")
	cp := compileSrc(src, r)
	if cp == nil {
		return
	}
	dir, err := os.MkdirTemp("", "vh-jf-")
	if err != nil {
		panic(err)
	}
	defer os.RemoveAll(dir)
	for _, f := range c["files"].([]any) {
		pair := f.([]any)
		b, _ := hex.DecodeString(pair[1].(string))
		p := filepath.Join(dir, pair[0].(string))
		os.MkdirAll(filepath.Dir(p), 0o755)
		if err := os.WriteFile(p, b, 0o644); err != nil {
			panic(err)
		}
	}
	names := []string{}
	for _, n := range c["search"].([]any) {
		names = append(names, dir+"/"+n.(string))
	}
	ms := engine.RunFiles(cp.bc, names, engine.NOTHING, false)
	fnames := []string{}
	for i := range ms {
		fnames = append(fnames, hex.EncodeToString([]byte(ms[i].Filename)))
	}
	r["filenames_hex"] = fnames
	r["dir"] = dir
	r["json"] = []string{hex.EncodeToString([]byte(ms.Json())), hex.EncodeToString([]byte(ms.FormattedJson()))}
	singleJson(ms, r)
}

// lex: {"op":"lex","src_hex":..} -> the token stream of the lexer (type, lexeme) or the lex error
func opLex(c Case, r Result) {
	src := bytesArg(c, "src")
	toks, err := ast.VerifLex(strings.NewReader(src))
	if err != nil {
		r["err"] = err.Error()
		r["errclass"] = errClass(err)
		return
	}
	parts := []string{}
	for _, t := range toks {
		if t == nil {
			parts = append(parts, "(nil)")
			continue
		}
		parts = append(parts, paren(t.TokenType.PP(), hx(t.Lexeme)))
	}
	r["tokens"] = paren(parts...)
}

// corpus: {"op":"corpus","dir":"/repo"} -> every Go string literal of the repository's test files that
// looks like a vore program (starts with find/replace/set), with whether it compiles
func opCorpus(c Case, r Result) {
	dir := str(c, "dir")
	seen := map[string]bool{}
	out := [][]string{}
	filepath.Walk(dir, func(path string, info os.FileInfo, err error) error {
		if err != nil || info.IsDir() || !strings.HasSuffix(path, "_test.go") {
			return nil
		}
		fset := token.NewFileSet()
		f, perr := parser.ParseFile(fset, path, nil, 0)
		if perr != nil {
			return nil
		}
		goast.Inspect(f, func(n goast.Node) bool {
			if bl, ok := n.(*goast.BasicLit); ok && bl.Kind == token.STRING {
				v, uerr := strconv.Unquote(bl.Value)
				if uerr != nil || seen[v] {
					return true
				}
				low := strings.ToLower(strings.TrimSpace(v))
				if strings.HasPrefix(low, "find") || strings.HasPrefix(low, "replace") || strings.HasPrefix(low, "set ") {
					seen[v] = true
					okc := "f"
					func() {
						defer func() { recover() }()
						if _, e := ast.ParseReader(strings.NewReader(v)); e == nil {
							okc = "t"
						}
					}()
					out = append(out, []string{hex.EncodeToString([]byte(v)), okc})
				}
			}
			return true
		})
		return nil
	})
	r["programs"] = out
}

var ops = map[string]func(Case, Result){
	"corpus":    opCorpus,
	"lex":       opLex,
	"json":      opJson,
	"jsonfiles": opJsonFiles,
	"conc":      opConc,
	"glob":      opGlob,
	"reader":    opReader,
	"runboth":   opRunBoth,
	"hist":      opHist,
	"e2e":       opE2E,
	"files":     opFiles,
}

func runCase(c Case) (r Result) {
	r = Result{"id": c["id"]}
	defer func() {
		if p := recover(); p != nil {
			r["panic"] = fmt.Sprint(p)
			st := string(debug.Stack())
			if len(st) > 1500 {
				st = st[:1500]
			}
			r["stack"] = st
		}
	}()
	op := str(c, "op")
	f, ok := ops[op]
	if !ok {
		r["harness_error"] = "unknown op " + op
		return
	}
	f(c, r)
	return
}

func main() {
	in := flag.String("in", "", "case file (jsonl)")
	out := flag.String("out", "", "result file (jsonl, appended)")
	start := flag.Int("start", 0, "index of first case to run")
	timeout := flag.Int("timeout", 10000, "per-case wall clock limit, ms")
	maxmem := flag.Int("maxmem", 2048, "heap limit, MB")
	flag.Parse()

	fin, err := os.Open(*in)
	if err != nil {
		fmt.Fprintln(os.Stderr, err)
		os.Exit(2)
	}
	fout, err := os.OpenFile(*out, os.O_WRONLY|os.O_CREATE|os.O_APPEND, 0o644)
	if err != nil {
		fmt.Fprintln(os.Stderr, err)
		os.Exit(2)
	}
	outW = bufio.NewWriter(fout)
	// vore prints debugging lines to stdout (ParsePath, debug statements): keep them away from us
	devnull, _ := os.OpenFile(os.DevNull, os.O_WRONLY, 0)
	os.Stdout = devnull

	sc := bufio.NewScanner(fin)
	sc.Buffer(make([]byte, 1<<20), 1<<28)
	idx := -1
	for sc.Scan() {
		idx++
		if idx < *start {
			continue
		}
		line := sc.Bytes()
		if len(strings.TrimSpace(string(line))) == 0 {
			continue
		}
		var c Case
		if err := json.Unmarshal(line, &c); err != nil {
			emit(Result{"index": idx, "harness_error": "bad json: " + err.Error()})
			continue
		}
		done := make(chan Result, 1)
		go func() { done <- runCase(c) }()
		deadline := time.After(time.Duration(*timeout) * time.Millisecond)
		tick := time.NewTicker(20 * time.Millisecond)
	wait:
		for {
			select {
			case r := <-done:
				r["index"] = idx
				emit(r)
				break wait
			case <-deadline:
				emit(Result{"id": c["id"], "index": idx, "hang": true})
				os.Exit(3)
			case <-tick.C:
				var ms runtime.MemStats
				runtime.ReadMemStats(&ms)
				if ms.HeapAlloc > uint64(*maxmem)<<20 {
					emit(Result{"id": c["id"], "index": idx, "oom": true})
					os.Exit(3)
				}
			}
		}
		tick.Stop()
	}
	outW.Flush()
}
