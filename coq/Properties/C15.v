(* C15 — whitespace, comments and keyword case never change a program's meaning. *)
From Model Require Import Front.
From Spec Require Import StrSpec LayoutSpec.
From Proofs Require Import Layout ParseErase LayoutCase.
Local Open Scope N_scope.

(* A source is a sequence of lexical elements: tokens (punctuation, words, numbers, string literals
   in any documented spelling, regex literals) and separators (maximal blank runs, line comments up
   to the end of the line, block comments).  [valid_stream] only asks what makes the text denote that
   sequence at all: a word is not directly followed by a letter or digit, a number not by a digit,
   `=` `<` `>` not by `=`, `-` not by `-`, a line comment ends at a newline or at the end of input.
   For EVERY such sequence the lexer produces exactly one token per element, then EOF. *)
Theorem C15_one_token_per_element : forall els, valid_stream els ->
  lex (render els) = LexOk (map tok_el els ++ [eof_token]).
Proof. exact lex_layout_lemma. Qed.
Print Assumptions C15_one_token_per_element.

(* Hence: two layouts of the same tokens - ANY separators inserted between ANY two tokens, or none
   where the tokens do not glue - are accepted or rejected alike and parse to the same syntax tree. *)
Theorem C15_layout_invariance : forall els1 els2, valid_stream els1 -> valid_stream els2 ->
  filter (fun e => negb (is_sep e)) els1 = filter (fun e => negb (is_sep e)) els2 ->
  parse_source (render els1) = parse_source (render els2).
Proof. exact layout_invariance_lemma. Qed.
Print Assumptions C15_layout_invariance.

(* The parser reads the lexeme of a token only after checking that it is an identifier, a number, a
   string or a regex literal: the spelling of keywords never reaches the tree. *)
Theorem C15_keyword_spelling_irrelevant : forall ts ts',
  Forall2 (fun a b => ttyp a = ttyp b /\ (matters (ttyp a) = true -> lexeme a = lexeme b)) ts ts' -> parse ts = parse ts'.
Proof. exact keyword_spelling_irrelevant_lemma. Qed.
Print Assumptions C15_keyword_spelling_irrelevant.

(* Layout and keyword case together, through lexer, parser and generator: same acceptance, same
   tree, same bytecode - hence the same results on every input. *)
Theorem C15_layout_and_case_invariance : forall els1 els2, valid_stream els1 -> valid_stream els2 ->
  Forall2 same_token (filter nonsep els1) (filter nonsep els2) ->
  parse_source (render els1) = parse_source (render els2) /\ compile_source (render els1) = compile_source (render els2).
Proof.
  intros els1 els2 H1 H2 Hf. pose proof (layout_case_invariance_lemma els1 els2 H1 H2 Hf) as E.
  split; [exact E|]. unfold compile_source. rewrite E. reflexivity.
Qed.
Print Assumptions C15_layout_and_case_invariance.

(* non-vacuity:  find all 'a'   and   FIND--( c )--all<newline>'a' -- x   are valid streams of the same tokens *)
Definition w_find := [102;105;110;100]. Definition w_FIND := [70;73;78;68]. Definition w_all := [97;108;108].
Definition els_a := [LWord w_find; LBlank [32]; LWord w_all; LBlank [32]; LStr 39 [PRaw 97]].
Definition els_b := [LWord w_FIND; LBlock [32;99;32]; LWord w_all; LBlank [10]; LStr 39 [PRaw 97]; LBlank [32]; LLine [32;120]].

Example C15_witness :
  valid_stream els_a /\ valid_stream els_b /\ Forall2 same_token (filter nonsep els_a) (filter nonsep els_b) /\
  exists p, parse_source (render els_b) = FOk p.
Proof.
  split; [|split; [|split]].
  - cbn. repeat split; try discriminate; try reflexivity; try (repeat constructor; discriminate);
      try (eexists _, _; split; [reflexivity|split; [reflexivity|repeat constructor]]); auto.
  - cbn. repeat split; try discriminate; try reflexivity; try (repeat constructor; discriminate);
      try (eexists _, _; split; [reflexivity|split; [reflexivity|repeat constructor]]); auto.
  - cbn. constructor; [right; exists w_find, w_FIND; repeat split; discriminate|].
    constructor; [left; reflexivity|]. constructor; [left; reflexivity|constructor].
  - vm_compute. eexists. reflexivity.
Qed.
