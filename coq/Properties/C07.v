(* C07 — searching a file gives the same result as searching its bytes in memory. *)
From Model Require Import BufFile.
From Proofs Require Import BufFileCorrect.

(* For EVERY file content (hence every size: 0, 1, around every multiple of the buffer size, and
   larger), every buffer size > 0 and every history of (seek to off; read len) operations - forward,
   one byte back, far back, straddling the window, at and beyond end of file - the buffered reader
   answers exactly what the in-memory reader answers (spec_read: the bytes f[off, off+len), or "" when
   the read is refused), and its refill loop never runs out of fuel (never spins). *)
Theorem C07_reader_refines_file :
  forall bsz f, 0 < bsz -> forall ops,
  rd_run bsz f (rd_new bsz f) ops = Some (map (fun '(off, len) => spec_read f off len) ops).
Proof. exact reader_refines_file_top. Qed.
Print Assumptions C07_reader_refines_file.

(* the window invariant behind it: 0 <= min <= max <= |f|, buffer = f[min, max) *)
Theorem C07_window_invariant :
  forall bsz f, 0 < bsz -> forall r off len, Inv f (rbf r) ->
  exists r', rd_read_at bsz f r off len = Some (spec_read f off len, r') /\ Inv f (rbf r').
Proof. exact read_at_correct. Qed.
Print Assumptions C07_window_invariant.

(* non-vacuity: a 10-byte file through a 4-byte window, reads in both directions *)
Example C07_witness :
  rd_run 4 [1;2;3;4;5;6;7;8;9;10]%N (rd_new 4 [1;2;3;4;5;6;7;8;9;10]%N) [(0, 3); (7, 3); (2, 6); (9, 2); (10, 0); (1, 1)] =
  Some [[1;2;3]; [8;9;10]; [3;4;5;6;7;8]; []; []; [2]]%N.
Proof. vm_compute. reflexivity. Qed.
