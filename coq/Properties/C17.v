(* C17 — JSON output is valid and carries the match data unchanged (the document model; validity
   of Go's encoding/json output itself is observed by the correspondence check). *)
From Model Require Import Json.
From Spec Require JsonParse.
From Proofs Require Import JsonFields.
From Proofs Require JsonRoundTrip VarsShape.
From Model Require Scan.

(* one object per match; under the documented keys it holds the in-memory match: filename,
   matchNumber, offset/line/column as {start,end}, value, variables (nested for named loops), and
   replacement exactly when the match has one (replace commands) *)
Theorem C17_match_json_fields :
  forall fname m,
  match match_json fname m with
  | JObj fs =>
      jlookup fs k_filename = Some (JStr fname) /\
      jlookup fs k_matchNumber = Some (JNum (Z.of_nat (mnum m))) /\
      jlookup fs k_offset = Some (range_json (mstart m) (mend m)) /\
      jlookup fs k_line = Some (range_json (mlstart m) (mlend m)) /\
      jlookup fs k_column = Some (range_json (mcstart m) (mcend m)) /\
      jlookup fs k_value = Some (JStr (mvalue m)) /\
      jlookup fs k_variables = Some (value_json (VMap (mvars m))) /\
      jlookup fs k_replacement = match mrepl m with Some r => Some (JStr r) | None => None end
  | _ => False
  end.
Proof. exact lookup_fields. Qed.
Print Assumptions C17_match_json_fields.

(* what the `variables` member can be, for ARBITRARY bytecode: every match the engine reports carries a variable map with
   no name twice (so the JSON object has one member per variable) whose values are strings or, for named loops, iteration
   tables with exactly the keys "0" .. "k" and variable maps as entries, nested to any depth (VarsShape.wsv) *)
Theorem C17_variables_are_well_formed_objects :
  forall vmfuel prog text all skip take last R,
  Scan.find_matches vmfuel prog text all skip take last = Scan.SOk R ->
  Forall (fun m => NoDup (map fst (Scan.mvars m)) /\ Forall (fun kv => VarsShape.wsv (snd kv)) (Scan.mvars m)) R.
Proof. exact VarsShape.find_matches_vars_shape. Qed.
Print Assumptions C17_variables_are_well_formed_objects.

Theorem C17_one_object_per_match :
  forall fname ms i m, nth_error ms i = Some m ->
  match matches_json fname ms with JArr xs => nth_error xs i = Some (match_json fname m) | _ => False end.
Proof. exact matches_json_nth. Qed.
Print Assumptions C17_one_object_per_match.

(* Validity and faithfulness of BOTH renderings: a plain recursive-descent JSON reader (Spec/JsonParse.v:
   objects, arrays, strings with escapes, integers, blanks between tokens; control characters in
   strings must be escaped) reads the compact rendering and the tab-indented rendering of EVERY
   document back as exactly that document - any nesting, any strings (quotes, backslashes, control
   characters, <>&, bytes >= 0x80), any integers.  In particular the two renderings of a result list
   are the same document, and it is the document of C17_match_json_fields. *)
Theorem C17_compact_parses_back : forall j, JsonParse.jparse (compact j) = Some j.
Proof. exact JsonRoundTrip.compact_parses_lemma. Qed.
Print Assumptions C17_compact_parses_back.

Theorem C17_indented_parses_back : forall j, JsonParse.jparse (indent 0 j) = Some j.
Proof. exact JsonRoundTrip.indent_parses_lemma. Qed.
Print Assumptions C17_indented_parses_back.

(* more generally: the tokens of the compact form with ANY blanks between them *)
Theorem C17_any_layout_parses_back : forall j s, JsonRoundTrip.Renders j s -> JsonParse.jparse s = Some j.
Proof. exact JsonRoundTrip.renders_parse_lemma. Qed.
Print Assumptions C17_any_layout_parses_back.

Example C17_witness :
  compact (JObj [([97]%N, JStr [34; 10; 60]%N); ([98]%N, JArr [JNum (-3); JObj []])]) =
  [123; 34;97;34; 58; 34; 92;34; 92;110; 92;117;48;48;51;99; 34; 44; 34;98;34; 58; 91; 45;51; 44; 123;125; 93; 125]%N.
Proof. vm_compute. reflexivity. Qed.
