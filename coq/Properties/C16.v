(* C16 — string literals denote exactly the bytes their escapes describe. *)
From Model Require Import Front Atoms.
From Spec Require Import StrSpec.
From Proofs Require Import StringLit.
Local Open Scope N_scope.

(* For EVERY sequence of pieces - each a raw character, a named escape \n \t \r \a \b \f \v, a \xHH
   escape, a backslash before any other character, or a \x that is not followed by two hex digits -
   spelling an ASCII string, in EITHER quote style, anywhere in ANY source: the lexer produces one
   STRING token whose lexeme is exactly the denoted bytes, and continues right after the closing
   quote (so an incomplete \x keeps all of its following characters: they are the following pieces). *)
Theorem C16_string_literal_denotes : forall q st pre ps rest,
  str_state q st -> valid q ps (q :: rest) ->
  let src := pre ++ q :: spell_all ps ++ q :: rest in
  lex_loop src (S (S (length src))) SSTART [] (length pre) =
    Some (SSTRING_END, map denote ps, (length pre + length (spell_all ps) + 2)%nat) /\
  finish SSTRING_END (map denote ps) = inl {| ttyp := STRING; lexeme := map denote ps |}.
Proof. exact string_literal_denotes_lemma. Qed.
Print Assumptions C16_string_literal_denotes.

(* the STRING token of `find all <literal>` becomes the literal pattern with exactly those bytes, for every byte string b *)
Theorem C16_literal_reaches_bytecode : forall b fl al,
  parse [ {| ttyp := FIND; lexeme := fl |}; {| ttyp := WS; lexeme := [32] |}; {| ttyp := ALL; lexeme := al |}; {| ttyp := WS; lexeme := [32] |};
          {| ttyp := STRING; lexeme := b |}; {| ttyp := EOF; lexeme := [] |} ]
    = POk [CFind true 0 0 0 (ECons (EPrim (LStr false false b)) ENil)] /\
  compile_ast [CFind true 0 0 0 (ECons (EPrim (LStr false false b)) ENil)] = GOk [BFind true 0 0 0 [IMatchLit false false b]].
Proof. intros b fl al. split; reflexivity. Qed.
Print Assumptions C16_literal_reaches_bytecode.

(* and that pattern matches the text b and nothing else of that length *)
Theorem C16_literal_matches_exactly : forall b t : bytes, b <> [] -> length t = length b ->
  (match_lit t b false false 0 = Some (length b) <-> t = b) /\ (t <> b -> match_lit t b false false 0 = None).
Proof. exact literal_matches_exactly_lemma. Qed.
Print Assumptions C16_literal_matches_exactly.

(* non-vacuity: a tab escape, a hex escape, an escaped q and an incomplete x escape in single quotes, and escaped
   quote, blank and backslash in double quotes satisfy the hypotheses *)
Example C16_witness :
  str_state 39 SSTRING_SINGLE /\
  valid 39 [PRaw 97; PNamed 116; PRaw 98; PHex 52 49; PEsc 113; PBadX; PRaw 90] [39] /\
  map denote [PRaw 97; PNamed 116; PRaw 98; PHex 52 49; PEsc 113; PBadX; PRaw 90] = [97; 9; 98; 65; 113; 120; 90] /\
  str_state 34 SSTRING_DOUBLE /\ valid 34 [PEsc 34; PEsc 32; PEsc 92] [34] /\
  lex ([102;105;110;100;32;97;108;108;32;39] ++ spell_all [PRaw 97; PNamed 116; PBadX; PRaw 90] ++ [39]) =
    LexOk [ {| ttyp := FIND; lexeme := [102;105;110;100] |}; {| ttyp := WS; lexeme := [32] |}; {| ttyp := ALL; lexeme := [97;108;108] |};
            {| ttyp := WS; lexeme := [32] |}; {| ttyp := STRING; lexeme := [97; 9; 120; 90] |}; {| ttyp := EOF; lexeme := [] |} ].
Proof.
  split; [right; split; reflexivity|]. split.
  { cbn. repeat split; try discriminate; try reflexivity; try (cbn; tauto); try (intros H; cbn in H; repeat destruct H as [H|H]; try discriminate; assumption). }
  split; [reflexivity|]. split; [left; split; reflexivity|]. split.
  { cbn. repeat split; try discriminate; try reflexivity; try (intros H; cbn in H; repeat destruct H as [H|H]; try discriminate; assumption). }
  vm_compute. reflexivity.
Qed.
