(* C08 — Compile is total: any source text yields a program or an error value. *)
From Model Require Import Front.
From Proofs Require Import LexTotal RegexTotal ParseTotal FrontTotal.

(* For EVERY sequence of runes given as source, the modelled Compile (lexer state machine, token
   parser, Pratt expression parser, regex-literal sub-parser, semantic checks, generator) ends with a
   program or with one of its error values: it never indexes past the end of the token slice or of a
   regex literal (the Go panics) and none of its loops runs beyond the fuel the model gives it, a
   fuel that is linear in the length of the source (|src|+2 tokens, 4|tokens|+8 nested parser calls,
   4|regex|+8 nested regex-parser calls) - "never loops forever". *)
Theorem C08_compile_total : forall src, compile_source src <> CPanic /\ compile_source src <> CNoReturn.
Proof. exact compile_total_lemma. Qed.
Print Assumptions C08_compile_total.

(* the lexer alone: every rune sequence gives a token list or a lexical error *)
Theorem C08_lex_total : forall src, lex src <> LexHang.
Proof. exact lex_total_lemma. Qed.
Print Assumptions C08_lex_total.

(* what the parser relies on ("a slice that always ends with EOF"): a token list from the lexer ends
   with its only EOF token *)
Theorem C08_tokens_end_with_eof : forall src ts, lex src = LexOk ts ->
  exists body e, ts = body ++ [e] /\ ttyp e = EOF /\ Forall (fun t => ttyp t <> EOF) body.
Proof. exact lex_shape_lemma. Qed.
Print Assumptions C08_tokens_end_with_eof.

(* the regex sub-parser alone: every byte string between @/ and /, every group counter *)
Theorem C08_regex_total : forall re g, parse_regexp re g <> PCrash /\ parse_regexp re g <> PFuel.
Proof.
  intros re g. pose proof (parse_regexp_safe re g) as H.
  destruct (parse_regexp re g); cbn in H; try contradiction; split; discriminate.
Qed.
Print Assumptions C08_regex_total.

(* no program with holes: a syntax tree reaches the generator only from a parse that succeeded as a
   whole (the tree type has no "missing" constructor; an error anywhere discards everything) *)
Theorem C08_no_partial_tree : forall src p, parse_source src = FOk p ->
  exists ts, lex src = LexOk ts /\ parse ts = POk p.
Proof. exact no_partial_tree_lemma. Qed.
Print Assumptions C08_no_partial_tree.

(* non-vacuity: sources that are accepted, a truncated regex literal, a dangling operator, an
   unclosed transform *)
Example C08_witness :
  (exists p, parse_source [102;105;110;100;32;97;108;108;32;39;97;39]%N = FOk p) /\          (* find all 'a' *)
  parse_source [102;105;110;100;32;97;108;108;32;64;47;97;98;99]%N = FLexErr LEUnendingRegexp /\ (* find all @/abc *)
  parse_source [102;105;110;100;32;97;108;108;32;39;97;39;32;45;45]%N <> FCrash /\             (* find all 'a' -- *)
  parse_source [102;105;110;100;32;97;108;108;32;64;47;40;47]%N = FParseErr.                   (* find all @/(/ *)
Proof. vm_compute. repeat split; try discriminate. eexists; reflexivity. Qed.

(* ---- "within bounded time and memory" read as "bounded by the length of the source" is FALSE of the faithful
   model: loop counts are unrolled, so a 24-character source yields 200 instructions (and 2000 for one more character, and so on) (known finding
   K25; on the implementation the same shape with a larger count exhausts memory). ---- *)
Definition k25_source : list N := [102; 105; 110; 100; 32; 97; 108; 108; 32; 101; 120; 97; 99; 116; 108; 121; 32; 50; 48; 48; 32; 39; 97; 39]%N.
(* find all exactly 200 'a' *)
Definition code_size (bc : list bcommand) : nat :=
  fold_right (fun c n => match c with BFind _ _ _ _ body => length body + n | BReplace _ _ _ _ body _ => length body + n | _ => n end) 0%nat bc.
Theorem C08_refuted_code_size_not_bounded_by_source_length :
  exists bc, compile_source k25_source = COk bc /\ (length k25_source = 24)%nat /\ (200 <= code_size bc)%nat.
Proof. eexists. split; [vm_compute; reflexivity|]. split; [reflexivity|]. vm_compute. repeat constructor. Qed.
Print Assumptions C08_refuted_code_size_not_bounded_by_source_length.
