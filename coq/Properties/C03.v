(* C03 — every reported match is a faithful, ordered, located slice of the input.
   Proved for ARBITRARY bytecode (generated or not: named loops, regex literals, replace commands
   included), every text, every window. *)
From Model Require Import Engine.
From Spec Require Import Sem.
From Proofs Require Import RefineBase Faithful VarsSubstring.
From Proofs Require VarsVM.

(* Every core the VM holds - the running one and every checkpoint - has its position inside the
   text, matched text = text[start..pos), and line/column in step (CoreInv); one step preserves it. *)
Theorem C03_step_invariant :
  forall prog text start ln0 cl0, start <= length text ->
  forall c B, CoreInv text start ln0 cl0 c -> Forall (CoreInv text start ln0 cl0) B ->
  StateInv text start ln0 cl0 (step prog text c B).
Proof. exact step_inv. Qed.
Print Assumptions C03_step_invariant.

(* The matches of any command: [chain 0 R] says they are in increasing order, never overlap, and
   each is [located]: Start < End <= |text|, Value = text[Start:End], Line = 1 + newlines before the
   offset and Column = 1-based byte column within that line, at both ends. *)
Theorem C03_matches_located :
  forall text prog vmfuel all skip take last R,
  find_matches vmfuel prog text all skip take last = SOk R -> chain text 0 R.
Proof. exact find_matches_located. Qed.
Print Assumptions C03_matches_located.

(* MatchNumbers of `find all` are 1, 2, 3, ... (windows are sublists of it: C04) *)
Theorem C03_numbers :
  forall vmfuel prog text R, find_matches vmfuel prog text true 0 0 0 = SOk R -> map mnum R = seq 1 (length R).
Proof. exact find_all_numbers. Qed.
Print Assumptions C03_numbers.

(* replace commands report the same matches; only the replacement is added *)
Theorem C03_replace_same_matches :
  forall fname total replacer ms ms', replace_all fname total replacer ms = Ok ms' -> Forall2 same_but_repl ms ms'.
Proof. exact replace_all_same. Qed.
Print Assumptions C03_replace_same_matches.

(* non-vacuity: a two-line text, matches on both lines *)
(* The variables: in the specification (whose first outcome is what the VM reports, C01/C02) every
   string variable of every outcome of an attempt started at [off] is text[a,b) with
   off <= a <= b <= the outcome's end - a substring of the match value text[off,end), lying inside it. *)
Theorem C03_variables_are_substrings :
  forall text start defs r off l, Sem.outs text start defs r (off, []) l -> off <= length text ->
  Forall (fun q => forall n v, alookup (snd q) n = Some (VStr v) ->
                   exists a b, off <= a /\ a <= b /\ b <= fst q /\ v = sub text a b) l.
Proof. exact VarsSubstring.vars_substring_lemma. Qed.
Print Assumptions C03_variables_are_substrings.

(* ... and at the level of the engine, for ARBITRARY bytecode - named loops with their nested per-iteration
   maps included: every string the VM binds anywhere (environment, iteration maps of named loops, at any
   nesting depth) is a substring of the text matched so far; so in every match of every command, on every
   text and window, every string variable at any depth of [mvars] is a substring of [mvalue]
   ([VarsVM.esub m e]: every value of e is a substring of m, maps recursively). *)
Theorem C03_variables_are_substrings_any_bytecode :
  forall vmfuel prog text all skip take last R,
  find_matches vmfuel prog text all skip take last = SOk R ->
  Forall (fun m => VarsVM.esub (mvalue m) (mvars m)) R.
Proof. exact VarsVM.find_matches_vars_substrings. Qed.
Print Assumptions C03_variables_are_substrings_any_bytecode.

(* what [esub] says, spelled out for the two levels a match has in practice *)
Theorem C03_esub_meaning :
  forall m e, VarsVM.esub m e ->
  (forall n s, alookup e n = Some (VStr s) -> exists a b, m = a ++ s ++ b) /\
  (forall n mp k s, alookup e n = Some (VMap mp) -> alookup mp k = Some (VStr s) -> exists a b, m = a ++ s ++ b).
Proof.
  intros m e H. split.
  - intros n s E. exact (VarsVM.esub_lookup m e n (VStr s) H E).
  - intros n mp k s E1 E2. pose proof (VarsVM.esub_lookup m e n (VMap mp) H E1) as Hm. apply VarsVM.vsub_map in Hm.
    exact (VarsVM.esub_lookup m mp k (VStr s) Hm E2).
Qed.
Print Assumptions C03_esub_meaning.

Example C03_witness :
  exists m1 m2, find_matches 100 [IMatchLit false false [98]%N] [97; 98; 10; 98]%N true 0 0 0 = SOk [m1; m2] /\
    (mlstart m2, mcstart m2, mcend m2) = (2, 1, 2) /\ (mstart m1, mend m1) = (1, 2).
Proof. vm_compute. eexists. eexists. repeat split. Qed.

(* non-vacuity of the variables theorem with a named loop: `at least 1 (any = c) named cs` on "ab" reports one
   match whose variables nest two levels deep (cs -> iteration -> c) *)
Definition ex_named : list instr :=
  compile (XLoop 0 1 (-1) false [99;115]%N (XDec [99]%N (XAtom (IMatchClass false CAny)))) 0.
Example C03_named_loop_witness :
  exists m, find_matches 200 ex_named [97; 98]%N true 0 0 0 = SOk [m] /\ mvalue m = [97; 98]%N /\
    mvars m = [([99;115]%N, VMap [([50]%N, VMap []); ([49]%N, VMap [([99]%N, VStr [98]%N)]); ([48]%N, VMap [([99]%N, VStr [97]%N)])])].
Proof. vm_compute. eexists. repeat split. Qed.
