(* C04 — all/skip/take/top/last select windows of one and the same match sequence.
   This file contains only statements closed by [exact] and their assumption audits. *)
From Model Require Import Engine.
From Proofs Require Import Window.

(* For an ARBITRARY attempt function (any program, any engine), on every text: *)
Theorem C04_windows_any_engine :
  forall (attempt : nat -> nat -> nat -> outcome) (text : bytes) (A : list mrec),
    find_with attempt text true 0 0 0 = SOk A ->
    (forall n, find_with attempt text false 0 n 0 = SOk (firstn n A)) /\
    (forall s, find_with attempt text true s 0 0 = SOk (skipn s A)) /\
    (forall s t, find_with attempt text false s t 0 = SOk (firstn t (skipn s A))) /\
    (forall n, 1 <= n -> find_with attempt text true 0 0 n = SOk (skipn (length A - n) A)).
Proof. exact C04_windows. Qed.
Print Assumptions C04_windows_any_engine.

(* The model's findMatches (which find and replace commands both call) with the quadruples the
   parser produces: all = (true,0,0,0), top/take n = (false,0,n,0), skip s = (true,s,0,0),
   skip s take t = (false,s,t,0), last n = (true,0,0,n). *)
Theorem C04_find_matches :
  forall (fuel : nat) (prog : list instr) (text : bytes) (A : list mrec),
    find_matches fuel prog text true 0 0 0 = SOk A ->
    (forall n, find_matches fuel prog text false 0 n 0 = SOk (firstn n A)) /\
    (forall s, find_matches fuel prog text true s 0 0 = SOk (skipn s A)) /\
    (forall s t, find_matches fuel prog text false s t 0 = SOk (firstn t (skipn s A))) /\
    (forall n, 1 <= n -> find_matches fuel prog text true 0 0 n = SOk (skipn (length A - n) A)).
Proof. exact C04_find_matches_lemma. Qed.
Print Assumptions C04_find_matches.

(* replace commands: the matches a replace command rewrites are the same window of the same
   sequence; each is then given its replacement independently of the others *)
Theorem C04_replace :
  forall fuel fname text all sk tk la body replacer,
    run_find fuel fname text (BReplace all sk tk la body replacer) =
    match find_matches fuel body text all sk tk la with
    | SOk W => match replace_all fname (length W) replacer W with
               | Ok W' => ROk W' | Crash w => RCrash w | OutOfFuel => RFuel end
    | SCrash w => RCrash w
    | SFuel => RFuel
    end.
Proof. exact C04_replace_lemma. Qed.
Print Assumptions C04_replace.

(* non-vacuity: 'aa' on "aaaa" has A = [0,2),[2,4) and skip 1 take 1 is the second one *)
Example C04_witness :
  let prog := [IMatchLit false false [97; 97]%N] in
  let text := [97; 97; 97; 97]%N in
  exists m1 m2,
    find_matches 100 prog text true 0 0 0 = SOk [m1; m2] /\
    find_matches 100 prog text false 1 1 0 = SOk [m2] /\ mstart m2 = 2 /\ mnum m2 = 2.
Proof. vm_compute. eexists. eexists. repeat split. Qed.

(* The windows fit together: `top n` and `skip n` split the sequence between them; `skip s take t`
   is `top t` of the `skip s` window; no window is longer than asked; a clause asking for at least
   everything returns everything; `last n` is `skip (|A| - n)`. *)
Theorem C04_windows_compose :
  forall (fuel : nat) (prog : list instr) (text : bytes) (A : list mrec),
    find_matches fuel prog text true 0 0 0 = SOk A ->
    (forall n, exists T S,
        find_matches fuel prog text false 0 n 0 = SOk T /\
        find_matches fuel prog text true n 0 0 = SOk S /\
        T ++ S = A /\ length T = Nat.min n (length A)) /\
    (forall s t, exists S W,
        find_matches fuel prog text true s 0 0 = SOk S /\
        find_matches fuel prog text false s t 0 = SOk W /\
        W = firstn t S /\ length W = Nat.min t (length A - s)) /\
    (forall n, length A <= n ->
        find_matches fuel prog text false 0 n 0 = SOk A /\
        (1 <= n -> find_matches fuel prog text true 0 0 n = SOk A)) /\
    (forall n, 1 <= n -> exists L,
        find_matches fuel prog text true 0 0 n = SOk L /\
        find_matches fuel prog text true (length A - n) 0 0 = SOk L /\
        length L = Nat.min n (length A)).
Proof. exact C04_windows_compose_lemma. Qed.
Print Assumptions C04_windows_compose.
