(* C06 — replace output is the exact splice; each mode touches only the file it may. *)
From Model Require Import Files.
From Proofs Require Import Faithful Splice.

(* spec_splice text 0 ms = gap0 ++ repl0 ++ gap1 ++ repl1 ++ ... ++ tail: every matched span
   substituted by its replacement, every other byte preserved in order.  The copy loop of
   searchReplace (reader offset / writer offset over a growable writer) produces exactly that for
   any ordered, located match list - longer, shorter, empty replacements, zero matches. *)
Theorem C06_splice_correct :
  forall text ms, chain text 0 ms -> splice text ms = spec_splice text 0 ms.
Proof. exact splice_correct. Qed.
Print Assumptions C06_splice_correct.

(* ... and the match lists of the model always satisfy that hypothesis (C03) *)
Theorem C06_replace_output :
  forall fuel fname text all sk tk la body replacer out,
  replace_output fuel fname text (BReplace all sk tk la body replacer) = Some out ->
  exists ms, run_find fuel fname text (BReplace all sk tk la body replacer) = ROk ms /\
             out = spec_splice text 0 ms /\ chain text 0 ms.
Proof. exact replace_output_splice. Qed.
Print Assumptions C06_replace_output.

(* Modes, over the file-system model (Model/Files.v): NOTHING changes no file; find commands change
   no file; NEW changes only <file>.vored and OVERWRITE only the file, to exactly the splice. *)
Theorem C06_modes_effect :
  forall fuel mode fs fname c r fs',
  run_file_cmd fuel mode fs fname c = (r, fs') ->
  (mode = MNothing -> fs' = fs) /\
  ((forall a s t l b rp, c <> BReplace a s t l b rp) -> fs' = fs) /\
  (forall text, alookup fs fname = Some text ->
     forall d, dest mode fname = Some d ->
       (forall k, k <> d -> alookup fs' k = alookup fs k) /\
       (forall a s t l b rp ms, c = BReplace a s t l b rp -> r = ROk ms -> alookup fs' d = Some (splice text ms))).
Proof. exact modes_effect. Qed.
Print Assumptions C06_modes_effect.

Example C06_witness :
  replace_output 100 text_name [98; 97; 110; 97; 110; 97]%N
    (BReplace true 0 0 0 [IMatchLit false false [97]%N] [RString [120; 121]%N]) = Some [98; 120; 121; 110; 120; 121; 110; 120; 121]%N.
Proof. vm_compute. reflexivity. Qed.
