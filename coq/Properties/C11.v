(* C11 — process expressions evaluate as the documented operator table says. *)
From Model Require Import Check.
From Spec Require Import ProcSpec.
From Proofs Require Import ProcTable.

(* For every operator and all operand VALUES whose types form a row of the documented table
   (Spec/ProcSpec.v [table], typed in from docs/language/LanguageDetails.md), the evaluator returns
   exactly what the table's typed operation gives on the coerced operands (left type selects;
   right operand coerced; integer arithmetic in 64 bits, truncating division; numbers compared as
   numbers; booleans ordered false < true), with the result type of the row - or, for / and % with a
   zero divisor, the division-by-zero panic (known finding K23) and nothing else. *)
Theorem C11_eval_binop_table :
  forall op l r t, table op (pv_type l) (pv_type r) = Some t ->
  match spec_binop op l r with
  | Some v => eval_binop op l r = Ok v /\ pv_type v = t
  | None => (op = ODiv \/ op = OMod) /\ get_number r = 0%Z /\ eval_binop op l r = Crash CrDivZero
  end.
Proof. exact eval_binop_table. Qed.
Print Assumptions C11_eval_binop_table.

(* combinations outside the table are the evaluator's "SHOULDN'T GET HERE" (kept away by C12) *)
Theorem C11_outside_table :
  forall op l r, table op (pv_type l) (pv_type r) = None -> eval_binop op l r = Crash CrUndefinedOp.
Proof. exact eval_binop_undefined. Qed.
Print Assumptions C11_outside_table.

(* not / head / tail *)
Theorem C11_unops :
  forall op v, match spec_unop op v with Some w => eval_unop op v = w | None => True end.
Proof. exact eval_unop_table. Qed.
Print Assumptions C11_unops.

(* coercions: decimal rendering and parsing are inverse on int64 *)
Theorem C11_atoi_itoa : forall z, in_int64 z = true -> atoi (itoa_Z z) = Some z.
Proof. exact atoi_itoa. Qed.
Print Assumptions C11_atoi_itoa.

Example C11_witness :
  eval_binop ODEqual (PVNum 1) (PVNum 2) = Ok (PVBool false) /\
  eval_binop OLess (PVBool true) (PVStr [53]%N) = Ok (PVBool false) /\
  eval_binop OMinus (PVStr [55]%N) (PVNum 2) = Ok (PVNum 5) /\
  eval_binop OPlus (PVNum 9223372036854775807) (PVNum 1) = Ok (PVNum (-9223372036854775808)).
Proof. vm_compute. repeat split. Qed.
