(* C11 — process expressions evaluate as the documented operator table says. *)
From Model Require Import Check.
From Spec Require Import ProcSpec.
From Proofs Require Import ProcTable.

(* For every operator and all operand VALUES whose types form a row of the documented table
   (Spec/ProcSpec.v [table], typed in from docs/language/LanguageDetails.md), the evaluator returns
   exactly what the table's typed operation gives on the coerced operands (left type selects;
   right operand coerced; integer arithmetic in 64 bits, truncating division; numbers compared as
   numbers; booleans ordered false < true), with the result type of the row - or, for / and % with a
   zero divisor, the division-by-zero panic (known finding K23) and nothing else. *)
Theorem C11_eval_binop_table :
  forall op l r t, table op (pv_type l) (pv_type r) = Some t ->
  match spec_binop op l r with
  | Some v => eval_binop op l r = Ok v /\ pv_type v = t
  | None => (op = ODiv \/ op = OMod) /\ get_number r = 0%Z /\ eval_binop op l r = Crash CrDivZero
  end.
Proof. exact eval_binop_table. Qed.
Print Assumptions C11_eval_binop_table.

(* combinations outside the table are the evaluator's "SHOULDN'T GET HERE" (kept away by C12) *)
Theorem C11_outside_table :
  forall op l r, table op (pv_type l) (pv_type r) = None -> eval_binop op l r = Crash CrUndefinedOp.
Proof. exact eval_binop_undefined. Qed.
Print Assumptions C11_outside_table.

(* not / head / tail *)
Theorem C11_unops :
  forall op v, match spec_unop op v with Some w => eval_unop op v = w | None => True end.
Proof. exact eval_unop_table. Qed.
Print Assumptions C11_unops.

(* coercions: decimal rendering and parsing are inverse on int64 *)
Theorem C11_atoi_itoa : forall z, in_int64 z = true -> atoi (itoa_Z z) = Some z.
Proof. exact atoi_itoa. Qed.
Print Assumptions C11_atoi_itoa.

Example C11_witness :
  eval_binop ODEqual (PVNum 1) (PVNum 2) = Ok (PVBool false) /\
  eval_binop OLess (PVBool true) (PVStr [53]%N) = Ok (PVBool false) /\
  eval_binop OMinus (PVStr [55]%N) (PVNum 2) = Ok (PVNum 5) /\
  eval_binop OPlus (PVNum 9223372036854775807) (PVNum 1) = Ok (PVNum (-9223372036854775808)).
Proof. vm_compute. repeat split. Qed.

(* ---- precedence and associativity ---- *)
From Model Require Import Parser.
From Spec Require Import ExprSpec.
From Proofs Require Import PrattRoundTrip.

(* Operators bind as documented - and/or weakest, then == !=, then < > <= >=, then + -, then * / %,
   unary not/head/tail tightest - and binary operators associate to the left: for EVERY expression
   tree and EVERY way of writing it in which parentheses stand at least where that reading needs
   them (minimal parenthesisation, full parenthesisation, anything in between, redundant parentheses
   included), the expression parser returns exactly that tree and consumes all tokens. *)
Theorem C11_precedence_roundtrip : forall e k ts, written e 0 k ts ->
  pratt ts (2 * length ts + 2) 0 0 = POk (e, length ts).
Proof. exact pratt_roundtrip_lemma. Qed.
Print Assumptions C11_precedence_roundtrip.

(* non-vacuity: a - b - c is (a - b) - c; a + b * c is a + (b * c); not a and b is (not a) and b *)
Definition tk (t : ttype) (l : bytes) : token := {| ttyp := t; lexeme := l |}.
Example C11_precedence_witness :
  let a := tk IDENTIFIER [97%N] in let b := tk IDENTIFIER [98%N] in let c := tk IDENTIFIER [99%N] in
  written (PEBin OMinus (PEBin OMinus (PEVar [97%N]) (PEVar [98%N])) (PEVar [99%N])) 0 8 [a; tk MINUS []; b; tk MINUS []; c] /\
  pratt [a; tk PLUS []; b; tk MULT []; c] 12 0 0 = POk (PEBin OPlus (PEVar [97%N]) (PEBin OMult (PEVar [98%N]) (PEVar [99%N])), 5) /\
  pratt [tk NOT []; a; tk AND []; b] 10 0 0 = POk (PEBin OAnd (PEUn UNot (PEVar [97%N])) (PEVar [98%N]), 4) /\
  pratt [a; tk MINUS []; tk OPENPAREN []; b; tk MINUS []; c; tk CLOSEPAREN []] 16 0 0 =
    POk (PEBin OMinus (PEVar [97%N]) (PEBin OMinus (PEVar [98%N]) (PEVar [99%N])), 7).
Proof.
  cbv zeta. split; [|vm_compute; repeat split].
  apply (w_bare (PEBin OMinus (PEBin OMinus (PEVar [97%N]) (PEVar [98%N])) (PEVar [99%N])) 0); [cbn; lia|].
  apply (b_bin OMinus (PEBin OMinus (PEVar [97%N]) (PEVar [98%N])) (PEVar [99%N]) 8 100 [tk IDENTIFIER [97%N]; tk MINUS []; tk IDENTIFIER [98%N]] [tk IDENTIFIER [99%N]] (tk MINUS [])); [reflexivity| |].
  - apply (w_bare (PEBin OMinus (PEVar [97%N]) (PEVar [98%N])) 7); [cbn; lia|].
    apply (b_bin OMinus (PEVar [97%N]) (PEVar [98%N]) 100 100 [tk IDENTIFIER [97%N]] [tk IDENTIFIER [98%N]] (tk MINUS [])); [reflexivity| |];
      [apply (w_bare (PEVar [97%N]) 7 [tk IDENTIFIER [97%N]]); [cbn; lia|apply b_atom; cbn; auto]
      |apply (w_bare (PEVar [98%N]) 8 [tk IDENTIFIER [98%N]]); [cbn; lia|apply b_atom; cbn; auto]].
  - apply (w_bare (PEVar [99%N]) 8 [tk IDENTIFIER [99%N]]); [cbn; lia|apply b_atom; cbn; auto].
Qed.
