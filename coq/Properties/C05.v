(* C05 — a replacement is the concatenation of its `with` items for that match. *)
From Model Require Import Files.
From Proofs Require Import Faithful Splice.

(* item_text (Proofs/Splice.v): a string contributes itself; a name contributes the text of the
   capture or built-in of THIS match bound to it (nothing if unbound or a loop's map); a transform
   contributes its result run with this match as `match`.  The replacement is their concatenation,
   in order, and everything else of the match is unchanged. *)
Theorem C05_replacement_concat :
  forall fname total replacer m m',
  replace_match fname total replacer m = Ok m' ->
  exists parts, Forall2 (fun i p => item_text (replacer_vars fname total m) m i = Some p) replacer parts /\
                otext (mrepl m') = concat parts /\ same_but_repl m m'.
Proof. exact replacement_concat. Qed.
Print Assumptions C05_replacement_concat.

(* matches, offsets and variables of a replace command are those of the find command with the
   same body (the same findMatches call), each given its replacement independently *)
Theorem C05_replace_find_same :
  forall fuel fname text all sk tk la body replacer ms',
  run_find fuel fname text (BReplace all sk tk la body replacer) = ROk ms' ->
  exists ms, run_find fuel fname text (BFind all sk tk la body) = ROk ms /\ Forall2 same_but_repl ms ms'.
Proof. exact replace_find_same_lemma. Qed.
Print Assumptions C05_replace_find_same.

Example C05_witness :
  let m := {| mnum := 2; mstart := 3; mend := 5; mlstart := 1; mlend := 1; mcstart := 4; mcend := 6;
              mvalue := [97; 98]%N; mrepl := None; mvars := [([120]%N, VStr [97]%N)] |} in
  exists m', replace_match text_name 3 [RString [60]%N; RVariable [120]%N; RVariable s_value; RVariable [122]%N] m = Ok m' /\
             mrepl m' = Some [60; 97; 97; 98]%N.
Proof. vm_compute. eexists; split; reflexivity. Qed.
