(* C20 — a -files pattern selects exactly the files it describes. *)
From Model Require Import Glob.
From Spec Require Import GlobSpec.
From Proofs Require Import GlobCorrect.
From Proofs Require GlobNoDup.

(* the segment matcher (greedy, backtracking to the last star, as in the Go code) decides exactly
   "`*` = any run of characters, every other character itself", for ALL patterns and names - any
   number of stars - and its loop never runs out of fuel *)
Theorem C20_path_matches_iff : forall name pat, pm name pat = true <-> seg_match pat name.
Proof. exact pm_iff. Qed.
Print Assumptions C20_path_matches_iff.

Theorem C20_path_matches_total : forall name pat, path_matches name pat <> None.
Proof. exact path_matches_total. Qed.
Print Assumptions C20_path_matches_total.

(* For every finite directory tree with unique names per directory and every pattern
   d1/.../dk/last whose directory segments are not made only of stars: the file list is exactly the
   set of regular files whose path matches segment by segment - none missing, none extra, never a
   directory. *)
Theorem C20_file_list_exact :
  forall last ds cs prefix p,
  wf_tree cs -> Forall (fun seg => all_stars seg = false) ds ->
  (In p (get_file_list (ds ++ [last]) cs prefix) <->
   exists dirs name, in_tree cs dirs name /\ Forall2 seg_match ds dirs /\ seg_match last name /\ p = join_path prefix dirs name).
Proof. exact file_list_exact_lemma. Qed.
Print Assumptions C20_file_list_exact.

(* ... and no duplicates: when, as in a real file system, no name contains the separator, no path is listed
   twice (same patterns as above, every tree, every prefix) *)
Theorem C20_file_list_no_duplicates :
  forall last ds cs prefix,
  wf_tree cs -> GlobNoDup.clean_tree cs -> Forall (fun seg => all_stars seg = false) ds ->
  NoDup (get_file_list (ds ++ [last]) cs prefix).
Proof. exact GlobNoDup.file_list_nodup_lemma. Qed.
Print Assumptions C20_file_list_no_duplicates.

(* non-vacuity: *.txt selects a.txt.txt; a*b selects abxb; b*.t does not select ab.t *)
Example C20_witness :
  pm [97;46;116;120;116;46;116;120;116]%N [42;46;116;120;116]%N = true /\
  pm [97;98;120;98]%N [97;42;98]%N = true /\ pm [97;98;46;116]%N [98;42;46;116]%N = false.
Proof. vm_compute. repeat split. Qed.

(* a tree meeting the hypotheses:  a.txt, d/ (b.txt, d/ (c.txt)) - the same names at different levels *)
Definition ex_tree : list node :=
  [NFile [97;46;116;120;116]%N; NDir [100]%N [NFile [98;46;116;120;116]%N; NDir [100]%N [NFile [99;46;116;120;116]%N]]].
Example C20_tree_witness : wf_tree ex_tree /\ GlobNoDup.clean_tree ex_tree /\
  get_file_list [[100; 42]%N; [42; 46; 116; 120; 116]%N] ex_tree [46]%N = [[46; 47; 100; 47; 98; 46; 116; 120; 116]%N].
Proof.
  assert (Hneq : forall a b : bytes, bytes_eqb a b = false -> a <> b) by (intros a b H ->; rewrite bytes_eqb_refl in H; discriminate).
  split; [|split; [|vm_compute; reflexivity]].
  - constructor.
    + cbn. constructor; [intros [H|[]]; discriminate|constructor; [intros []|constructor]].
    + intros d sub [H|[H|[]]]; [discriminate|]. inversion H; subst. constructor.
      * cbn. constructor; [intros [H'|[]]; discriminate|constructor; [intros []|constructor]].
      * intros d' sub' [H'|[H'|[]]]; [discriminate|]. inversion H'; subst. constructor; [cbn; constructor; [intros []|constructor]|intros ? ? [H''|[]]; discriminate].
  - constructor.
    + repeat constructor; cbn; intros H; repeat (destruct H as [H|H]; [discriminate|]); exact H.
    + intros d sub [H|[H|[]]]; [discriminate|]. inversion H; subst. constructor.
      * repeat constructor; cbn; intros H'; repeat (destruct H' as [H'|H']; [discriminate|]); exact H'.
      * intros d' sub' [H'|[H'|[]]]; [discriminate|]. inversion H'; subst. constructor.
        -- repeat constructor; cbn; intros H''; repeat (destruct H'' as [H''|H'']; [discriminate|]); exact H''.
        -- intros ? ? [H''|[]]; discriminate.
Qed.
