(* C20 — a -files pattern selects exactly the files it describes. *)
From Model Require Import Glob.
From Spec Require Import GlobSpec.
From Proofs Require Import GlobCorrect.

(* the segment matcher (greedy, backtracking to the last star, as in the Go code) decides exactly
   "`*` = any run of characters, every other character itself", for ALL patterns and names - any
   number of stars - and its loop never runs out of fuel *)
Theorem C20_path_matches_iff : forall name pat, pm name pat = true <-> seg_match pat name.
Proof. exact pm_iff. Qed.
Print Assumptions C20_path_matches_iff.

Theorem C20_path_matches_total : forall name pat, path_matches name pat <> None.
Proof. exact path_matches_total. Qed.
Print Assumptions C20_path_matches_total.

(* For every finite directory tree with unique names per directory and every pattern
   d1/.../dk/last whose directory segments are not made only of stars: the file list is exactly the
   set of regular files whose path matches segment by segment - none missing, none extra, never a
   directory. *)
Theorem C20_file_list_exact :
  forall last ds cs prefix p,
  wf_tree cs -> Forall (fun seg => all_stars seg = false) ds ->
  (In p (get_file_list (ds ++ [last]) cs prefix) <->
   exists dirs name, in_tree cs dirs name /\ Forall2 seg_match ds dirs /\ seg_match last name /\ p = join_path prefix dirs name).
Proof. exact file_list_exact_lemma. Qed.
Print Assumptions C20_file_list_exact.

(* non-vacuity: *.txt selects a.txt.txt; a*b selects abxb; b*.t does not select ab.t *)
Example C20_witness :
  pm [97;46;116;120;116;46;116;120;116]%N [42;46;116;120;116]%N = true /\
  pm [97;98;120;98]%N [97;42;98]%N = true /\ pm [97;98;46;116]%N [98;42;46;116]%N = false.
Proof. vm_compute. repeat split. Qed.
