(* C10 — a search without unguarded recursion always terminates. *)
From Model Require Import Engine.
From Spec Require Import Sem FindSpec.
From Proofs Require Import RefineBase Refine Attempt FindCorrect Total.
From Proofs Require TotalRec TotalFind.

(* The specification is total on call-free patterns: nullable loop bodies, nested unbounded
   loops and zero-width anchors under `at least 0` included (an iteration that consumed nothing is
   not continued, so |text| - position decreases along every continued iteration). *)
Theorem C10_spec_total :
  forall text start defs r, simple r -> forall s, fst s <= length text -> exists l, outs text start defs r s l.
Proof. exact outs_total. Qed.
Print Assumptions C10_spec_total.

(* Hence the VM's `find all` terminates with a result on every text: there is a step budget F such
   that every run with at least F fuel returns (never "out of fuel"). *)
Theorem C10_find_terminates :
  forall r text, loop_ok r -> simple r ->
  exists F, forall fuel, F <= fuel -> exists M, find_matches fuel (compile r 0) text true 0 0 0 = SOk M.
Proof. exact find_terminates_lemma. Qed.
Print Assumptions C10_find_terminates.

(* With recursion: a call is GUARDED when, inside the subroutine's body, it sits after something all of
   whose outcomes consume input ([consumes]); a recursive call then starts strictly further in the
   text than the call it belongs to.  On every pattern whose calls go to defined subroutines with
   guarded bodies, the specification is total - at every state of every text.  With
   C09_find_returns_when_defined this gives termination of the VM for guarded recursion. *)
Theorem C10_spec_total_guarded_recursion :
  forall text start defs,
  (forall t b p, defs t = Some (b, p) -> p = PNil /\ TotalRec.guarded text start defs b /\ TotalRec.callok defs b) ->
  forall r, TotalRec.callok defs r -> forall s, fst s <= length text -> exists l, outs text start defs r s l.
Proof. exact TotalRec.outs_total_guarded_lemma. Qed.
Print Assumptions C10_spec_total_guarded_recursion.

(* ... and at the level of the engine: for every pattern whose subroutines have guarded bodies, on every
   text, the VM's `find all` returns (for every large enough step budget), and what it returns is the scan
   of the specification - spans, bindings, values and match numbers.  No derivation is assumed: the
   specification's totality supplies it. *)
Theorem C10_find_decided_guarded_recursion :
  forall r text, loop_ok r ->
  (forall start t b p, defs_of r t = Some (b, p) ->
     p = PNil /\ TotalRec.guarded text start (defs_of r) b /\ TotalRec.callok (defs_of r) b) ->
  TotalRec.callok (defs_of r) r ->
  exists S, sscan r text 0 S /\
  exists F, forall fuel, F <= fuel ->
    exists M, find_matches fuel (compile r 0) text true 0 0 0 = SOk M /\
              map span_of M = S /\ Forall (faithful text) M /\ map mnum M = seq 1 (length M).
Proof. exact TotalFind.find_decided_guarded_lemma. Qed.
Print Assumptions C10_find_decided_guarded_recursion.

(* non-vacuity: at least 0 (maybe 'a') — a nullable body under an unbounded loop — on "aa" *)
Definition ex10 : rx :=
  XSeq (XLoop 1 0 (-1) false [] (XLoop 0 0 1 false [] (XAtom (IMatchLit false false [97]%N)))) XEps.
Example C10_witness : simple ex10 /\ loop_ok ex10 /\
  exists M, find_matches 200 (compile ex10 0) [97; 97]%N true 0 0 0 = SOk M /\ length M = 1.
Proof. split; [cbn; auto|]. split; [cbn; intuition discriminate|]. vm_compute. eexists; split; reflexivity. Qed.

(* non-vacuity of the recursion theorem: {'a' maybe s 'b'} = s 'd' - the call of s sits after 'a',
   which consumes - satisfies its hypotheses on every text *)
Definition ex10_body : rx :=
  XSeq (XAtom (IMatchLit false false [97]%N))
  (XSeq (XLoop 0 0 1 false [] (XCall [115]%N 0))
  (XSeq (XAtom (IMatchLit false false [98]%N)) XEps)).
Definition ex10_defs (t : nat) : option (rx * pstmts) := match t with O => Some (ex10_body, PNil) | _ => None end.
Definition ex10_rec : rx := XSeq (XCall [115]%N 0) (XSeq (XAtom (IMatchLit false false [100]%N)) XEps).

Example C10_recursion_witness : forall text start,
  (forall t b p, ex10_defs t = Some (b, p) -> p = PNil /\ TotalRec.guarded text start ex10_defs b /\ TotalRec.callok ex10_defs b) /\
  TotalRec.callok ex10_defs ex10_rec.
Proof.
  intros text start. split.
  - intros [|t] b p H; [|discriminate]. inversion H; subst. split; [reflexivity|]. split.
    + cbn [TotalRec.guarded ex10_body]. split; [exact I|]. right. split; [apply TotalRec.literal_consumes|].
      cbn. repeat split; auto. eexists; reflexivity.
    + cbn. repeat split; auto. eexists; reflexivity.
  - cbn. repeat split; auto. eexists; reflexivity.
Qed.

(* non-vacuity of the engine-level theorem: the whole pattern {'a' maybe s 'b'} = s 'd', subroutine
   defined in place, meets the hypotheses on every text *)
Definition ex10_whole : rx := XSeq (XSub [115]%N ex10_body PNil) (XSeq (XAtom (IMatchLit false false [100]%N)) XEps).

Example C10_engine_witness : forall text,
  loop_ok ex10_whole /\
  (forall start t b p, defs_of ex10_whole t = Some (b, p) ->
     p = PNil /\ TotalRec.guarded text start (defs_of ex10_whole) b /\ TotalRec.callok (defs_of ex10_whole) b) /\
  TotalRec.callok (defs_of ex10_whole) ex10_whole.
Proof.
  intros text. split; [cbn; repeat split; auto|]. split.
  - intros start [|t] b p H; [|discriminate]. inversion H; subst. split; [reflexivity|]. split.
    + cbn [TotalRec.guarded ex10_body]. split; [exact I|]. right. split; [apply TotalRec.literal_consumes|].
      cbn. repeat split; auto. eexists; reflexivity.
    + cbn. repeat split; auto. eexists; reflexivity.
  - cbn. repeat split; auto. eexists; reflexivity.
Qed.
