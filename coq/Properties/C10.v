(* C10 — a search without unguarded recursion always terminates. *)
From Model Require Import Engine.
From Spec Require Import Sem FindSpec.
From Proofs Require Import RefineBase Refine Attempt FindCorrect Total.
From Proofs Require TotalRec TotalFind NamedErase TotalPred.

(* The specification is total on call-free patterns: nullable loop bodies, nested unbounded
   loops and zero-width anchors under `at least 0` included (an iteration that consumed nothing is
   not continued, so |text| - position decreases along every continued iteration). *)
Theorem C10_spec_total :
  forall text start defs r, simple r -> forall s, fst s <= length text -> exists l, outs text start defs r s l.
Proof. exact outs_total. Qed.
Print Assumptions C10_spec_total.

(* Hence the VM's `find all` terminates with a result on every text: there is a step budget F such
   that every run with at least F fuel returns (never "out of fuel"). *)
Theorem C10_find_terminates :
  forall r text, loop_ok r -> simple r ->
  exists F, forall fuel, F <= fuel -> exists M, find_matches fuel (compile r 0) text true 0 0 0 = SOk M.
Proof. exact find_terminates_lemma. Qed.
Print Assumptions C10_find_terminates.

(* With recursion: a call is GUARDED when, inside the subroutine's body, it sits after something all of
   whose outcomes consume input ([consumes]); a recursive call then starts strictly further in the
   text than the call it belongs to.  On every pattern whose calls go to defined subroutines with
   guarded bodies (and whose predicates, if any, return a value on every match text), the specification is total - at every state of every text.  With
   C09_find_returns_when_defined this gives termination of the VM for guarded recursion. *)
Theorem C10_spec_total_guarded_recursion :
  forall text start defs,
  (forall t b p, defs t = Some (b, p) -> TotalRec.pred_returns text start p /\ TotalRec.guarded text start defs b /\ TotalRec.callok text start defs b) ->
  forall r, TotalRec.callok text start defs r -> forall s, fst s <= length text -> exists l, outs text start defs r s l.
Proof. exact TotalRec.outs_total_guarded_lemma. Qed.
Print Assumptions C10_spec_total_guarded_recursion.

(* ... and at the level of the engine: for every pattern whose subroutines have guarded bodies, on every
   text, the VM's `find all` returns (for every large enough step budget), and what it returns is the scan
   of the specification - spans, bindings, values and match numbers.  No derivation is assumed: the
   specification's totality supplies it. *)
Theorem C10_find_decided_guarded_recursion :
  forall r text, loop_ok r ->
  (forall start t b p, defs_of r t = Some (b, p) ->
     TotalRec.pred_returns text start p /\ TotalRec.guarded text start (defs_of r) b /\ TotalRec.callok text start (defs_of r) b) ->
  (forall start, TotalRec.callok text start (defs_of r) r) ->
  exists S, sscan r text 0 S /\
  exists F, forall fuel, F <= fuel ->
    exists M, find_matches fuel (compile r 0) text true 0 0 0 = SOk M /\
              map span_of M = S /\ Forall (faithful text) M /\ map mnum M = seq 1 (length M).
Proof. exact TotalFind.find_decided_guarded_lemma. Qed.
Print Assumptions C10_find_decided_guarded_recursion.

(* Named loops terminate like unnamed ones: for a pattern without back-references whose name-erased form is call-free,
   the VM's `find all` returns on every text (C01_named_loops_same_spans carries the verdict over). *)
Theorem C10_find_terminates_named_loops :
  forall r text, NamedErase.noref r -> NamedErase.lists_plain r ->
  loop_ok (NamedErase.unname r) -> simple (NamedErase.unname r) ->
  exists F, forall fuel, F <= fuel -> exists M, find_matches fuel (compile r 0) text true 0 0 0 = SOk M.
Proof.
  intros r text Hn Hp Hok Hs. destruct (find_terminates_lemma (NamedErase.unname r) text Hok Hs) as (F & HF).
  exists F. intros fuel Hf. destruct (HF fuel Hf) as (M' & HM').
  pose proof (NamedErase.named_loops_same_spans_lemma r text fuel true 0 0 0 Hn Hp) as H. rewrite HM' in H.
  destruct (find_matches fuel (compile r 0) text true 0 0 0) as [M| |]; cbn in H; try contradiction. exists M. reflexivity.
Qed.
Print Assumptions C10_find_terminates_named_loops.

(* Predicates: the totality theorems above ask for predicate-free subroutines.  With predicates the search still
   terminates whenever every predicate's process code returns a value (true or false) on every match text - process
   loops are outside this property: the specification is total on such call-free patterns, and the VM's `find all`
   returns the specification's scan. *)
Theorem C10_find_terminates_with_predicates :
  forall r text, loop_ok r -> (forall start, TotalPred.simple_p text start r) ->
  exists S, sscan r text 0 S /\
  exists F, forall fuel, F <= fuel ->
    exists M, find_matches fuel (compile r 0) text true 0 0 0 = SOk M /\
              map span_of M = S /\ Forall (faithful text) M /\ map mnum M = seq 1 (length M).
Proof. exact TotalPred.find_terminates_pred_lemma. Qed.
Print Assumptions C10_find_terminates_with_predicates.

(* non-vacuity: at least 0 (maybe 'a') — a nullable body under an unbounded loop — on "aa" *)
Definition ex10 : rx :=
  XSeq (XLoop 1 0 (-1) false [] (XLoop 0 0 1 false [] (XAtom (IMatchLit false false [97]%N)))) XEps.
Example C10_witness : simple ex10 /\ loop_ok ex10 /\
  exists M, find_matches 200 (compile ex10 0) [97; 97]%N true 0 0 0 = SOk M /\ length M = 1.
Proof. split; [cbn; auto|]. split; [cbn; intuition discriminate|]. vm_compute. eexists; split; reflexivity. Qed.

(* non-vacuity of the recursion theorem: {'a' maybe s 'b'} = s 'd' - the call of s sits after 'a',
   which consumes - satisfies its hypotheses on every text *)
Definition ex10_body : rx :=
  XSeq (XAtom (IMatchLit false false [97]%N))
  (XSeq (XLoop 0 0 1 false [] (XCall [115]%N 0))
  (XSeq (XAtom (IMatchLit false false [98]%N)) XEps)).
Definition ex10_defs (t : nat) : option (rx * pstmts) := match t with O => Some (ex10_body, PNil) | _ => None end.
Definition ex10_rec : rx := XSeq (XCall [115]%N 0) (XSeq (XAtom (IMatchLit false false [100]%N)) XEps).

Lemma ex10_body_callok text start defs : defs O = Some (ex10_body, PNil) -> TotalRec.callok text start defs ex10_body.
Proof. intros H. cbn [TotalRec.callok ex10_body]. split; [exact I|]. split; [split; [reflexivity|eexists _, _; exact H]|]. split; exact I. Qed.

Lemma ex10_body_guarded text start defs : defs O = Some (ex10_body, PNil) -> TotalRec.guarded text start defs ex10_body.
Proof.
  intros H. cbn [TotalRec.guarded ex10_body]. split; [exact I|]. right. split; [apply TotalRec.literal_consumes|].
  cbn [TotalRec.callok]. split; [split; [reflexivity|eexists _, _; exact H]|]. split; exact I.
Qed.

Example C10_recursion_witness : forall text start,
  (forall t b p, ex10_defs t = Some (b, p) -> TotalRec.pred_returns text start p /\ TotalRec.guarded text start ex10_defs b /\ TotalRec.callok text start ex10_defs b) /\
  TotalRec.callok text start ex10_defs ex10_rec.
Proof.
  intros text start. split.
  - intros [|t] b p H; [|discriminate]. inversion H; subst. split; [apply TotalRec.pred_returns_nil|].
    split; [apply ex10_body_guarded; reflexivity|apply ex10_body_callok; reflexivity].
  - cbn [TotalRec.callok ex10_rec]. split; [eexists _, _; reflexivity|]. split; exact I.
Qed.

(* non-vacuity of the engine-level theorem: the whole pattern {'a' maybe s 'b'} = s 'd', subroutine
   defined in place, meets the hypotheses on every text *)
Definition ex10_whole : rx := XSeq (XSub [115]%N ex10_body PNil) (XSeq (XAtom (IMatchLit false false [100]%N)) XEps).

Example C10_engine_witness : forall text,
  loop_ok ex10_whole /\
  (forall start t b p, defs_of ex10_whole t = Some (b, p) ->
     TotalRec.pred_returns text start p /\ TotalRec.guarded text start (defs_of ex10_whole) b /\ TotalRec.callok text start (defs_of ex10_whole) b) /\
  (forall start, TotalRec.callok text start (defs_of ex10_whole) ex10_whole).
Proof.
  intros text. split; [cbn; repeat split; auto|]. split.
  - intros start [|t] b p H; [|discriminate]. inversion H; subst. split; [apply TotalRec.pred_returns_nil|].
    split; [apply ex10_body_guarded; reflexivity|apply ex10_body_callok; reflexivity].
  - intros start. cbn [TotalRec.callok ex10_whole]. split; [split; [apply TotalRec.pred_returns_nil|apply ex10_body_callok; reflexivity]|]. split; exact I.
Qed.

(* non-vacuity of the predicate theorem: {at least 1 'a'} = p with the predicate  return matchLength > 1  returns on every text *)
Definition ex10_pred : pstmts := PCons (PSReturn (PEBin OGreater (PEVar matchLength_name) (PENum 1))) PNil.
Definition ex10_p : rx := XSeq (XSub [112]%N (XLoop 0 1 (-1) false [] (XAtom (IMatchLit false false [97]%N))) ex10_pred) XEps.
Example C10_predicate_witness : forall text start, loop_ok ex10_p /\ TotalPred.simple_p text start ex10_p.
Proof.
  intros text start. split; [cbn; intuition discriminate|]. cbn [TotalPred.simple_p ex10_p]. split; [|exact I]. split; [|split; [reflexivity|exact I]].
  intros q. unfold pred_holds, ex10_pred. cbn. destruct (Z.of_nat (length (sub text start (fst q))) >? 1)%Z; discriminate.
Qed.
