(* C10 — a search without unguarded recursion always terminates. *)
From Model Require Import Engine.
From Spec Require Import Sem FindSpec.
From Proofs Require Import RefineBase Refine Attempt FindCorrect Total.

(* The specification is total on call-free patterns: nullable loop bodies, nested unbounded
   loops and zero-width anchors under `at least 0` included (an iteration that consumed nothing is
   not continued, so |text| - position decreases along every continued iteration). *)
Theorem C10_spec_total :
  forall text start defs r, simple r -> forall s, fst s <= length text -> exists l, outs text start defs r s l.
Proof. exact outs_total. Qed.
Print Assumptions C10_spec_total.

(* Hence the VM's `find all` terminates with a result on every text: there is a step budget F such
   that every run with at least F fuel returns (never "out of fuel"). *)
Theorem C10_find_terminates :
  forall r text, loop_ok r -> simple r ->
  exists F, forall fuel, F <= fuel -> exists M, find_matches fuel (compile r 0) text true 0 0 0 = SOk M.
Proof. exact find_terminates_lemma. Qed.
Print Assumptions C10_find_terminates.

(* non-vacuity: at least 0 (maybe 'a') — a nullable body under an unbounded loop — on "aa" *)
Definition ex10 : rx :=
  XSeq (XLoop 1 0 (-1) false [] (XLoop 0 0 1 false [] (XAtom (IMatchLit false false [97]%N)))) XEps.
Example C10_witness : simple ex10 /\ loop_ok ex10 /\
  exists M, find_matches 200 (compile ex10 0) [97; 97]%N true 0 0 0 = SOk M /\ length M = 1.
Proof. split; [cbn; auto|]. split; [cbn; intuition discriminate|]. vm_compute. eexists; split; reflexivity. Qed.
