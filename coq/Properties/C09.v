(* C09 — running an accepted program never crashes (search side; process code: see C12). *)
From Model Require Import Engine.
From Spec Require Import Sem FindSpec.
From Proofs Require Import RefineBase RefineExec Refine Attempt FindCorrect Total.

(* Whenever the specification is defined at an offset, the attempt there ends in SUCCESS or FAILED:
   no index/nil/bad-instruction crash of the VM, no exhaustion of fuel. *)
Theorem C09_attempt_no_crash :
  forall r text off ln cl l, loop_ok r -> off <= length text ->
  outs text off (defs_of r) r (off, []) l ->
  exists fuel, forall k,
    (exists c, run (compile r 0) text (fuel + k) (Running (init_core off ln cl) []) = Matched c) \/
    run (compile r 0) text (fuel + k) (Running (init_core off ln cl) []) = NoMatch.
Proof. exact C09_attempt_lemma. Qed.
Print Assumptions C09_attempt_no_crash.

(* For every pattern without calls and predicates the whole `find all` returns a match list on
   every text (empty text, end of text in the middle of any construct, empty captures ...). *)
Theorem C09_find_returns :
  forall r text, loop_ok r -> simple r ->
  exists F, forall fuel, F <= fuel -> exists M, find_matches fuel (compile r 0) text true 0 0 0 = SOk M.
Proof. exact find_terminates_lemma. Qed.
Print Assumptions C09_find_returns.

(* with calls (guarded recursion) and predicates: whenever the specification's scan is defined *)
Theorem C09_find_returns_when_defined :
  forall r text, loop_ok r -> forall S, sscan r text 0 S ->
  exists F, forall fuel, F <= fuel -> exists M, find_matches fuel (compile r 0) text true 0 0 0 = SOk M.
Proof. exact C09_find_defined_lemma. Qed.
Print Assumptions C09_find_returns_when_defined.

(* Unconditionally.  The theorems above hold wherever the specification is defined.  This one assumes nothing about
   the search: for every well-formed resolved pattern - atoms are text-matching instructions, `in` lists are not empty,
   `not in` sizes are not negative, calls go to subroutines of the pattern, predicates do not crash - the compiled code
   never crashes the VM: no command shape, text or step budget makes `find` end in a crash.  Named loops,
   back-references, unguarded (even left-) recursion and non-terminating searches are included: those run out of fuel,
   they do not crash.  (Proof: continuation-passing and step-indexed - a piece of code is safe for n steps if whatever
   follows it is; loops and recursive calls re-enter code with fewer steps left.) *)
From Proofs Require SafeCode.
Theorem C09_well_formed_code_never_crashes :
  forall r text fuel all skip take last w,
  SafeCode.wf (defs_of r) r -> find_matches fuel (compile r 0) text all skip take last <> SCrash w.
Proof. exact SafeCode.find_never_crashes_lemma. Qed.
Print Assumptions C09_well_formed_code_never_crashes.

(* ... and the hypothesis holds of everything the generator resolves: for EVERY source text the parser accepts, every
   pattern the generator resolves from the parsed program is well formed - every call goes to a subroutine that sits, at
   that very program counter, inside the same pattern; `not in` sizes are not negative (the parser builds lists of strings,
   ranges and one-character classes with at least one item) - provided the predicates of stored patterns do not crash
   (the known findings K23 / K24 are exactly programs whose process code does). *)
From Model Require Parser.
From Proofs Require ResolveWf ParseSizesOk ParseListsOk FrontTotal.
Theorem C09_generated_patterns_well_formed :
  forall src cs xs, Parser.parse_source src = Parser.FOk cs -> Forall ResolveWf.preds_ok_c cs ->
  resolve_program cs init_gstate = GOk xs ->
  Forall (fun x => match x with Some r => SafeCode.wf (defs_of r) r | None => True end) xs.
Proof.
  intros src cs xs Hp Hpr Hr. destruct (FrontTotal.no_partial_tree_lemma src cs Hp) as (ts & _ & Hts).
  apply (ResolveWf.resolve_program_wf_lemma cs init_gstate xs); auto.
  - exact (ParseListsOk.parse_lists_ok_lemma ts cs Hts).
  - exact (ParseSizesOk.parse_sizes_ok_lemma ts cs Hts).
  - exact ResolveWf.init_gs2_ok.
Qed.
Print Assumptions C09_generated_patterns_well_formed.

(* Together: for every source text Compile accepts (whose stored predicates, if any, do not crash), for every find or
   replace command of it, every text, every step budget: the search never crashes - whether or not it terminates. *)
Theorem C09_accepted_programs_never_crash :
  forall src cs xs, Parser.parse_source src = Parser.FOk cs -> Forall ResolveWf.preds_ok_c cs ->
  resolve_program cs init_gstate = GOk xs ->
  forall r, In (Some r) xs -> forall text fuel all skip take last w,
  find_matches fuel (compile r 0) text all skip take last <> SCrash w.
Proof.
  intros src cs xs Hp Hpr Hr r Hin text fuel all skip take last w.
  pose proof (C09_generated_patterns_well_formed src cs xs Hp Hpr Hr) as Hall. rewrite Forall_forall in Hall.
  apply SafeCode.find_never_crashes_lemma. exact (Hall (Some r) Hin).
Qed.
Print Assumptions C09_accepted_programs_never_crash.

(* The whole of Run: for every source text Compile accepts (parse_source, then compile_ast), every text and every step
   budget, running all its commands - searches, replacers, transforms - never crashes, PROVIDED the program's process code
   (the predicates of stored patterns and the transforms) does not crash by itself.  Every crash of an accepted program
   comes from its process code; the two refuted statements below are the two ways process code does crash. *)
From Proofs Require RunSafe.
Theorem C09_run_never_crashes_unless_process_code_does :
  forall src cs bcs, Parser.parse_source src = Parser.FOk cs -> Forall RunSafe.procs_ok_c cs -> compile_ast cs = GOk bcs ->
  forall fuel text w, run_commands fuel text bcs <> RCrash w.
Proof. exact RunSafe.run_never_crashes_lemma. Qed.
Print Assumptions C09_run_never_crashes_unless_process_code_does.

(* non-vacuity: {at least 0 ('a' = x) named n  s  x} = s  - a named loop, a left-recursive call without a guard and a
   back-reference: well formed, so it never crashes (it never terminates either) *)
Definition ex9_body : rx :=
  XSeq (XLoop 0 0 (-1) false [110]%N (XDec [120]%N (XAtom (IMatchLit false false [97]%N))))
  (XSeq (XCall [115]%N 0) (XSeq (XRef [120]%N) XEps)).
Definition ex9 : rx := XSeq (XSub [115]%N ex9_body PNil) XEps.
Example C09_wf_witness : SafeCode.wf (defs_of ex9) ex9.
Proof.
  cbn [SafeCode.wf ex9 ex9_body]. split; [|exact I]. split; [apply SafeCode.pred_safe_nil|].
  split; [exact I|]. split; [eexists _, _; reflexivity|]. split; exact I.
Qed.

(* ---- the full statement of C09 is FALSE of the faithful model: the two known findings, as theorems.
   The property says "for every program that Compile accepts and every input ... no panic"; these two accepted
   programs crash (the witnesses are what the check replays on the implementation: K23, K24). ---- *)
From Model Require Front.

Definition k23_source : list N := [115; 101; 116; 32; 102; 32; 116; 111; 32; 116; 114; 97; 110; 115; 102; 111; 114; 109; 32; 114; 101; 116; 117; 114; 110; 32; 49; 32; 47; 32; 48; 32; 101; 110; 100; 32; 114; 101; 112; 108; 97; 99; 101; 32; 97; 108; 108; 32; 39; 97; 39; 32; 119; 105; 116; 104; 32; 102]%N.
(* set f to transform return 1 / 0 end replace all 'a' with f *)
Theorem C09_refuted_division_by_zero :
  exists bc, Front.compile_source k23_source = Front.COk bc /\ run_commands vm_fuel_default [97]%N bc = RCrash CrDivZero.
Proof. eexists. split; [vm_compute; reflexivity|]. vm_compute. reflexivity. Qed.
Print Assumptions C09_refuted_division_by_zero.

Definition k24_source : list N := [115; 101; 116; 32; 102; 32; 116; 111; 32; 116; 114; 97; 110; 115; 102; 111; 114; 109; 32; 105; 102; 32; 109; 97; 116; 99; 104; 32; 61; 61; 32; 39; 97; 39; 32; 116; 104; 101; 110; 32; 115; 101; 116; 32; 120; 32; 116; 111; 32; 116; 114; 117; 101; 32; 101; 108; 115; 101; 32; 115; 101; 116; 32; 120; 32; 116; 111; 32; 39; 113; 39; 32; 101; 110; 100; 32; 114; 101; 116; 117; 114; 110; 32; 120; 32; 45; 32; 49; 32; 101; 110; 100; 32; 114; 101; 112; 108; 97; 99; 101; 32; 97; 108; 108; 32; 97; 110; 121; 32; 119; 105; 116; 104; 32; 102]%N.
(* set f to transform if match == 'a' then set x to true else set x to 'q' end return x - 1 end replace all any with f *)
Theorem C09_refuted_branch_dependent_type :
  exists bc, Front.compile_source k24_source = Front.COk bc /\ run_commands vm_fuel_default [97]%N bc = RCrash CrUndefinedOp.
Proof. eexists. split; [vm_compute; reflexivity|]. vm_compute. reflexivity. Qed.
Print Assumptions C09_refuted_branch_dependent_type.
