(* C09 — running an accepted program never crashes (search side; process code: see C12). *)
From Model Require Import Engine.
From Spec Require Import Sem FindSpec.
From Proofs Require Import RefineBase RefineExec Refine Attempt FindCorrect Total.

(* Whenever the specification is defined at an offset, the attempt there ends in SUCCESS or FAILED:
   no index/nil/bad-instruction crash of the VM, no exhaustion of fuel. *)
Theorem C09_attempt_no_crash :
  forall r text off ln cl l, loop_ok r -> off <= length text ->
  outs text off (defs_of r) r (off, []) l ->
  exists fuel, forall k,
    (exists c, run (compile r 0) text (fuel + k) (Running (init_core off ln cl) []) = Matched c) \/
    run (compile r 0) text (fuel + k) (Running (init_core off ln cl) []) = NoMatch.
Proof. exact C09_attempt_lemma. Qed.
Print Assumptions C09_attempt_no_crash.

(* For every pattern without calls and predicates the whole `find all` returns a match list on
   every text (empty text, end of text in the middle of any construct, empty captures ...). *)
Theorem C09_find_returns :
  forall r text, loop_ok r -> simple r ->
  exists F, forall fuel, F <= fuel -> exists M, find_matches fuel (compile r 0) text true 0 0 0 = SOk M.
Proof. exact find_terminates_lemma. Qed.
Print Assumptions C09_find_returns.

(* with calls (guarded recursion) and predicates: whenever the specification's scan is defined *)
Theorem C09_find_returns_when_defined :
  forall r text, loop_ok r -> forall S, sscan r text 0 S ->
  exists F, forall fuel, F <= fuel -> exists M, find_matches fuel (compile r 0) text true 0 0 0 = SOk M.
Proof. exact C09_find_defined_lemma. Qed.
Print Assumptions C09_find_returns_when_defined.
