(* C18 — the CLI delivers the library's results under every documented flag combination
   (the decision logic; process exit codes, file opening and printing are runtime facts observed
   on the built binary by the correspondence check). *)
From Model Require Import Cli.
From Proofs Require Import CliTable.
From Coq Require Import List.

(* On the FULL cross product of -com/-src x -files x -json x -formatted-json x -json-file x
   -formatted-json-file x replace mode {unset, NEW, NOTHING, OVERWRITE, bogus} x -no-output (1280
   configurations, enumerated by all_flags and proved complete): an invocation is rejected iff it
   is not a documented one; an accepted one runs with the given mode (NEW by default), puts at most
   one document of the requested kind on standard output, none under -no-output, and writes the
   named JSON files exactly when they are named. *)
Theorem C18_cli_table : forall f, requirement f = true.
Proof. exact cli_table_lemma. Qed.
Print Assumptions C18_cli_table.

Theorem C18_cross_product_complete : forall f, In f all_flags.
Proof. exact all_flags_complete. Qed.
Print Assumptions C18_cross_product_complete.

Example C18_witness :
  decide {| f_com := true; f_src := false; f_files := true; f_json := true; f_fjson := false; f_jsonfile := true;
            f_fjsonfile := false; f_mode := MUnset; f_nooutput := false |} =
  Go {| p_mode := RNew; p_stdout := OutJson; p_jsonfile := true; p_fjsonfile := false |}.
Proof. reflexivity. Qed.
