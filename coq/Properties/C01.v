(* C01 — find results equal the backtracking semantics of the pattern as written.
   Only statements closed by [exact], their assumption audits, and non-vacuity examples. *)
From Model Require Import Engine.
From Spec Require Import Sem FindSpec.
From Proofs Require Import RefineBase RefineExec Refine Attempt FindCorrect SemSound Window UnrollSem ResolveOk ParseListsOk FrontTotal.
From Model Require Parser.
From Spec Require Lang.
From Proofs Require LangAtoms LangSound NamedErase.

(* The central refinement: whenever the specification derives the ordered outcome list l for the
   resolved pattern r from state s, the VM running r's code (placed anywhere in any program that
   contains the code of the subroutines the specification may call) reaches exactly the outcomes
   of l, in that order, each at the end of r's code with loop, variable and call stacks restored
   and the bindings of that outcome, then backtracks into the untouched rest of the stack.
   (P is defined in Proofs/Refine.v; steps only follows non-crashing steps.) *)
Theorem C01_vm_refines_sem :
  forall prog text start ln0 cl0 defs, subs_ok prog defs ->
  forall r s l, outs text start defs r s l -> P prog text start ln0 cl0 r s l.
Proof. exact (fun prog text start ln0 cl0 defs H => proj1 (vm_refines_sem_mut prog text start ln0 cl0 defs H)). Qed.
Print Assumptions C01_vm_refines_sem.

(* One attempt of a whole command body: the engine started at offset off ends (for every large
   enough fuel) in SUCCESS with the FIRST outcome in priority order - position, bindings, matched
   text - or in FAILED when the specification has no outcome. *)
Theorem C01_attempt :
  forall r text off ln cl l, loop_ok r -> off <= length text ->
  outs text off (defs_of r) r (off, []) l ->
  exists fuel, forall k,
    match l with
    | [] => run (compile r 0) text (fuel + k) (Running (init_core off ln cl) []) = NoMatch
    | q :: _ => run (compile r 0) text (fuel + k) (Running (init_core off ln cl) []) =
                Matched (ocore text off ln cl (rx_len r) [] [] [] q)
    end.
Proof. exact attempt_refines. Qed.
Print Assumptions C01_attempt.

(* `find all`: the reported matches are exactly the leftmost, non-overlapping, non-empty matches
   of the specification's scan (sscan: at each start offset the first outcome in priority order;
   a non-empty one is reported and the scan resumes at its end, otherwise it moves one byte on),
   with Value = text[Start:End], the bindings of that outcome, and consecutive MatchNumbers. *)
Theorem C01_find_all :
  forall r text, loop_ok r -> forall S, sscan r text 0 S ->
  exists F, forall fuel, F <= fuel ->
    exists M, find_matches fuel (compile r 0) text true 0 0 0 = SOk M /\
              map span_of M = S /\ Forall (faithful text) M /\ map mnum M = seq 1 (length M).
Proof. exact find_correct_lemma. Qed.
Print Assumptions C01_find_all.

(* the executable oracle run by the correspondence check is sound for the relation *)
Theorem C01_oracle_sound :
  forall text start defs fuel r s l, outs_f text start defs fuel r s = Some l -> outs text start defs r s l.
Proof. exact outs_f_sound. Qed.
Print Assumptions C01_oracle_sound.

(* "as written": the generator does not emit `between m and n b` as one loop but as m copies of b
   followed by a loop of 0 .. n-m iterations (nothing when m = n).  In the specification that
   unrolled form means exactly the bounded repetition, for every body whose outcomes always consume
   something (a copy accepts a zero-width iteration, the loop rejects it: the one difference), every
   copy that means the same as b (copies differ in loop ids and offsets only), every text and state. *)
Theorem C01_unrolling_preserves_meaning :
  forall text start defs id id' mn mx fw b b' copies,
  UnrollSem.advances text start defs b -> UnrollSem.defined text start defs b ->
  UnrollSem.sem_eq text start defs b' b -> (mx = -1 \/ Z.of_nat mn <= mx)%Z ->
  length copies = mn -> Forall (fun x => UnrollSem.sem_eq text start defs x b) copies ->
  forall s l, outs text start defs (fold_right XSeq (UnrollSem.loop_tail id' mn mx fw b') copies) s l <->
              outs text start defs (XLoop id mn mx fw [] b) s l.
Proof. exact UnrollSem.unroll_sem_lemma. Qed.
Print Assumptions C01_unrolling_preserves_meaning.

(* The hypothesis [loop_ok] of the theorems above holds for EVERY pattern the generator resolves, in
   every program (any number of commands, stored patterns referenced anywhere): atoms are
   text-matching instructions and every loop id is a fresh number of the generator's supply.  The only
   thing asked of the syntax tree is that `in` lists are not empty, which is all the parser builds. *)
Theorem C01_generated_patterns_well_formed :
  forall cs xs, Forall ResolveOk.lists_ok_c cs -> resolve_program cs init_gstate = GOk xs ->
  Forall (fun x => match x with Some r => loop_ok r | None => True end) xs.
Proof. intros cs xs Hl H. exact (ResolveOk.resolve_program_ok_lemma cs init_gstate xs Hl ResolveOk.init_gs_ok H). Qed.
Print Assumptions C01_generated_patterns_well_formed.

(* ... and the parser (regex sub-parser included) builds only such trees: for EVERY source text, every
   pattern the generator resolves from what the parser returned is well formed. *)
Theorem C01_well_formed_from_any_source :
  forall src cs xs, Parser.parse_source src = Parser.FOk cs -> resolve_program cs init_gstate = GOk xs ->
  Forall (fun x => match x with Some r => loop_ok r | None => True end) xs.
Proof.
  intros src cs xs Hp Hr. apply (ResolveOk.resolve_program_ok_lemma cs init_gstate xs); [|exact ResolveOk.init_gs_ok|exact Hr].
  destruct (FrontTotal.no_partial_tree_lemma src cs Hp) as (ts & _ & Hts). exact (ParseListsOk.parse_lists_ok_lemma ts cs Hts).
Qed.
Print Assumptions C01_well_formed_from_any_source.

(* The specification against the TEXTBOOK meaning of a pattern.  [Lang.lang] is the language a pattern
   denotes - sets of byte strings built by concatenation, union, bounded iteration of non-empty words and
   grammar rules for subroutines, with no positions, priorities or backtracking in it.  For every pattern
   without back-references, predicates, named loops and zero-width atoms ([Lang.pure]: literals, `not "c"`,
   character classes, ranges, in / not in lists, groups, captures, alternations, loops greedy or fewest,
   subroutines and recursion), at every state of every text:
       some outcome ends at p'   <->   p <= p' <= |text|  and  text[p:p'] is in the language.
   Left to right the backtracking semantics is sound, right to left it is complete: the priority order
   loses no way of splitting the text.  With C01_attempt (the VM reports the first outcome) and
   C01_find_all this ties what `find` reports to the textbook semantics. *)
Theorem C01_outcomes_are_the_language :
  forall text start defs, (forall t b p, defs t = Some (b, p) -> p = PNil /\ Lang.pure b) ->
  forall r s l, outs text start defs r s l -> Lang.pure r -> fst s <= length text ->
  forall p', (exists e, In (p', e) l) <-> fst s <= p' /\ p' <= length text /\ Lang.lang defs r (sub text (fst s) p').
Proof. exact LangSound.outs_lang_lemma. Qed.
Print Assumptions C01_outcomes_are_the_language.

(* in particular an attempt fails exactly when no prefix of the rest of the text is a word of the pattern *)
Theorem C01_no_outcome_iff_no_word :
  forall text start defs, (forall t b p, defs t = Some (b, p) -> p = PNil /\ Lang.pure b) ->
  forall r s l, outs text start defs r s l -> Lang.pure r -> fst s <= length text ->
  (l = [] <-> forall p', fst s <= p' -> p' <= length text -> ~ Lang.lang defs r (sub text (fst s) p')).
Proof.
  intros text start defs Hd r s l Ho Hp Hs. pose proof (LangSound.outs_lang_lemma text start defs Hd r s l Ho Hp Hs) as H. split.
  - intros -> p' H1 H2 HL. destruct (proj2 (H p') (conj H1 (conj H2 HL))) as (e & []).
  - intros Hno. destruct l as [|[p' e] l']; [reflexivity|]. exfalso.
    destruct (proj1 (H p') (ex_intro _ e (or_introl eq_refl))) as (H1 & H2 & HL). exact (Hno p' H1 H2 HL).
Qed.
Print Assumptions C01_no_outcome_iff_no_word.

(* the atoms the theorem covers, and the words each reads *)
Theorem C01_local_atoms :
  (forall cl v, Lang.local_atom (IMatchLit false cl v)) /\
  (forall cl c, Lang.local_atom (IMatchLit true cl [c])) /\
  (forall nt lo hi, Lang.local_atom (IMatchRange nt [lo] [hi])) /\
  (forall nt k, In k [CAny; CWhitespace; CDigit; CUpper; CLower; CLetter] -> Lang.local_atom (IMatchClass nt k)) /\
  (forall v w, Lang.atom_word (IMatchLit false false v) w <-> v <> [] /\ w = v) /\
  (forall c w, Lang.atom_word (IMatchLit true false [c]) w <-> exists b, w = [b] /\ b <> c) /\
  (forall lo hi w, Lang.atom_word (IMatchRange false [lo] [hi]) w <-> exists b, w = [b] /\ (lo <= b /\ b <= hi)%N).
Proof.
  split; [exact LangAtoms.lit_local|]. split; [intros cl c; exact (LangAtoms.one_byte_local _ _ (LangAtoms.notlit1_one cl c))|].
  split; [intros nt lo hi; exact (LangAtoms.one_byte_local _ _ (LangAtoms.range1_one nt lo hi))|].
  split.
  { intros nt k Hk. cbn [In] in Hk. destruct Hk as [<-|[<-|[<-|[<-|[<-|[<-|[]]]]]]].
    - destruct nt; [exact (LangAtoms.one_byte_local _ _ LangAtoms.any_not_one)|exact (LangAtoms.one_byte_local _ _ LangAtoms.any_one)].
    - exact (LangAtoms.one_byte_local _ _ (LangAtoms.whitespace_one nt)).
    - exact (LangAtoms.one_byte_local _ _ (LangAtoms.digit_one nt)).
    - exact (LangAtoms.one_byte_local _ _ (LangAtoms.upper_one nt)).
    - exact (LangAtoms.one_byte_local _ _ (LangAtoms.lower_one nt)).
    - exact (LangAtoms.one_byte_local _ _ (LangAtoms.letter_one nt)). }
  split; [exact LangAtoms.lit_word_exact|]. split; [exact LangAtoms.dot_word|exact LangAtoms.range_word].
Qed.
Print Assumptions C01_local_atoms.

(* Named loops.  The refinement theorem above is stated for unnamed loops; naming a loop only changes WHERE captures
   are recorded (the loop's per-iteration maps instead of the environment).  For every pattern without back-references
   (the one construct that reads the environment) the VM runs of the pattern and of the pattern with all loop names
   erased proceed in lock step - same pc, cursor and stacks at every step - so `find` reports the same matches in the
   same order with the same numbers, offsets, lines, columns and values (everything but the variables), and crashes or
   runs out of fuel exactly when the erased pattern does.  Hence everything the theorems of C01, C09 and C10 say about
   positions, termination and crash-freedom of the erased (unnamed) pattern holds of the named one. *)
Theorem C01_named_loops_same_spans :
  forall r text fuel all skip take last,
  NamedErase.noref r -> NamedErase.lists_plain r ->
  NamedErase.sres_sim (find_matches fuel (compile r 0) text all skip take last)
                      (find_matches fuel (compile (NamedErase.unname r) 0) text all skip take last).
Proof. exact NamedErase.named_loops_same_spans_lemma. Qed.
Print Assumptions C01_named_loops_same_spans.

(* non-vacuity: a loop inside an alternation inside a recursive subroutine, on "aabbd":
   {'a' maybe s 'b'} = s 'd'  has the single outcome 5, and the hypotheses of C01_attempt hold *)
Definition ex_rx : rx :=
  XSeq (XSub [115]%N
          (XSeq (XAtom (IMatchLit false false [97]%N))
          (XSeq (XLoop 0 0 1 false [] (XCall [115]%N 0))
          (XSeq (XAtom (IMatchLit false false [98]%N)) XEps))) PNil)
       (XSeq (XAtom (IMatchLit false false [100]%N)) XEps).
Definition ex_text : bytes := [97; 97; 98; 98; 100]%N.

Example C01_witness :
  loop_ok ex_rx /\ outs ex_text 0 (defs_of ex_rx) ex_rx (0, []) [(5, [])].
Proof.
  split.
  - cbn. repeat split; auto.
  - apply (outs_f_sound ex_text 0 (defs_of ex_rx) 40). vm_compute. reflexivity.
Qed.

(* the witness pattern is in the scope of the language theorem, and its subroutine table satisfies the hypothesis *)
Example C01_language_witness :
  Lang.pure ex_rx /\ (forall t b p, defs_of ex_rx t = Some (b, p) -> p = PNil /\ Lang.pure b) /\
  Lang.lang (defs_of ex_rx) ex_rx ex_text.
Proof.
  assert (Hb : Lang.pure (XSeq (XAtom (IMatchLit false false [97]%N))
          (XSeq (XLoop 0 0 1 false [] (XCall [115]%N 0))
          (XSeq (XAtom (IMatchLit false false [98]%N)) XEps)))).
  { cbn [Lang.pure]. split; [apply LangAtoms.lit_local|]. split; [split; [reflexivity|exact I]|]. split; [apply LangAtoms.lit_local|exact I]. }
  split; [cbn [Lang.pure ex_rx]; split; [split; [reflexivity|exact Hb]|split; [apply LangAtoms.lit_local|exact I]]|]. split.
  - intros [|t] b p H; [|discriminate]. inversion H; subst. split; [reflexivity|exact Hb].
  - (* a (a () b) b d *)
    assert (Hw : forall c, Lang.lang (defs_of ex_rx) (XAtom (IMatchLit false false [c])) [c]).
    { intros c. constructor. apply LangAtoms.lit_word_exact. split; [discriminate|reflexivity]. }
    set (body := XSeq (XAtom (IMatchLit false false [97]%N)) (XSeq (XLoop 0 0 1 false [] (XCall [115]%N 0)) (XSeq (XAtom (IMatchLit false false [98]%N)) XEps))).
    assert (Hinner : Lang.lang (defs_of ex_rx) body [97; 98]%N).
    { change [97; 98]%N with ([97]%N ++ (concat [] ++ ([98]%N ++ []))). constructor; [apply Hw|]. constructor; [|constructor; [apply Hw|constructor]].
      constructor; [cbn; lia|reflexivity|constructor]. }
    assert (Houter : Lang.lang (defs_of ex_rx) body [97; 97; 98; 98]%N).
    { change [97; 97; 98; 98]%N with ([97]%N ++ (concat [[97; 98]%N] ++ ([98]%N ++ []))). constructor; [apply Hw|]. constructor; [|constructor; [apply Hw|constructor]].
      constructor; [cbn; lia|reflexivity|]. constructor; [|constructor]. split; [|discriminate]. econstructor; [reflexivity|exact Hinner]. }
    change ex_text with ([97; 97; 98; 98]%N ++ ([100]%N ++ [])). constructor; [constructor; exact Houter|]. constructor; [apply Hw|constructor].
Qed.

(* non-vacuity of the named-loop theorem: at least 1 (any = c) named cs *)
Definition ex_named_rx : rx := XLoop 0 1 (-1) false [99;115]%N (XDec [99]%N (XAtom (IMatchClass false CAny))).
Example C01_named_witness : NamedErase.noref ex_named_rx /\ NamedErase.lists_plain ex_named_rx /\
  NamedErase.unname ex_named_rx = XLoop 0 1 (-1) false [] (XDec [99]%N (XAtom (IMatchClass false CAny))).
Proof. cbn. repeat split. Qed.
