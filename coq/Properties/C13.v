(* C13 — definitions are transparent; commands, runs and compilations are independent. *)
From Model Require Import Engine.
From Spec Require Import Sem FindSpec.
From Proofs Require Import Relocate Transparent.
From Proofs Require ShiftSem.
Local Open Scope nat_scope.

(* relocation: laying a stored pattern out d program counters further equals applying the
   generator's adjust() to each instruction of the stored code (no aliasing, ids move with targets) *)
Theorem C13_gen_relocate :
  forall (d : nat) (r : rx) (o : nat), atoms_fixed r -> compile (Rx.shift d r) (o + d) = map (Gen.adjust d) (compile r o).
Proof. exact gen_relocate_lemma. Qed.
Print Assumptions C13_gen_relocate.

(* ... and the relocated pattern means the same: in the specification, a pattern laid out d program
   counters further has exactly the outcomes it had, when the subroutine table moves with it *)
Theorem C13_relocation_preserves_meaning :
  forall text start d defs defs' r s l, ShiftSem.defs_moved d defs defs' ->
  outs text start defs r s l -> outs text start defs' (Rx.shift d r) s l.
Proof. exact ShiftSem.outs_shift_lemma. Qed.
Print Assumptions C13_relocation_preserves_meaning.

(* loop ids (random numbers in the implementation) carry no meaning: two patterns of the same shape
   mean the same - two compilations of one source cannot differ in what they find *)
Theorem C13_loop_ids_irrelevant :
  forall text start defs a b, ShiftSem.same_shape a b ->
  forall s l, outs text start defs a s l <-> outs text start defs b s l.
Proof. exact ShiftSem.same_shape_sem. Qed.
Print Assumptions C13_loop_ids_irrelevant.

(* an inline subroutine used in place means its body *)
Theorem C13_transparent_inline :
  forall text start defs n b s l, outs text start defs (XSub n b PNil) s l <-> outs text start defs b s l.
Proof. exact transparent_inline. Qed.
Print Assumptions C13_transparent_inline.

(* a call (of an inline subroutine or of a stored pattern already referenced) means the body *)
Theorem C13_transparent_call :
  forall text start defs n t b s l, defs t = Some (b, PNil) ->
  (outs text start defs (XCall n t) s l <-> outs text start defs b s l).
Proof. exact transparent_call. Qed.
Print Assumptions C13_transparent_call.

(* the result of a multi-command program is the concatenation of its commands' results *)
Theorem C13_run_concat :
  forall fuel text cs rs,
  Forall2 (fun c ms => run_find fuel text_name text c = ROk ms) cs rs ->
  run_commands fuel text cs = ROk (concat rs).
Proof. exact run_concat. Qed.
Print Assumptions C13_run_concat.
