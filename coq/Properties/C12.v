(* C12 — Compile rejects exactly the ill-typed process code. *)
From Model Require Import Check.
From Spec Require Import ProcSpec.
From Proofs Require Import ProcTable CheckStmts.

(* Expressions: the checker's answer is the declarative typing over the documented table
   (has_type, Spec/ProcSpec.v): accepted iff well typed, and with that type. *)
Theorem C12_check_expr_iff :
  forall G e, (exists t, has_type G e t) <-> is_error (check_expr (cenv_of G) e) = false.
Proof. exact check_expr_iff. Qed.
Print Assumptions C12_check_expr_iff.

Theorem C12_check_expr_type :
  forall G e t, has_type G e t <-> check_expr (cenv_of G) e = ct t.
Proof. intros G e t. split; [apply check_expr_complete|apply check_expr_sound_typing]. Qed.
Print Assumptions C12_check_expr_type.

(* Statements: the checker accepts a statement (list) exactly when the declarative rules do
   (stmt_ok, Proofs/CheckStmts.v: `if` conditions boolean, a predicate returns a boolean, a transform
   returns a string or number, break/continue only inside `loop` - nested loops included), and
   leaves the same type environment. *)
Theorem C12_check_stmts_iff :
  forall ctx ss i G', is_error (ctyp i) = false ->
  (stmts_ok ctx (cinloop i) (cenvr i) ss G' <->
   (is_error (ctyp (check_program ctx ss i)) = false /\ cenvr (check_program ctx ss i) = G')).
Proof. intros ctx ss i G' Hi. rewrite check_program_list. apply (proj2 (check_stmt_iff ctx)). exact Hi. Qed.
Print Assumptions C12_check_stmts_iff.

(* Soundness: a well-typed expression evaluated in an environment that agrees with the static types
   (a run-time number may stand where a string is expected: matchNumber) yields a value of its type;
   it never meets an undefined operation; the only possible failure is division by zero. *)
Theorem C12_check_sound :
  forall G env e t, has_type G e t -> env_agrees env G ->
  (exists v, eval_expr env e = Ok v /\ agrees v t) \/ eval_expr env e = Crash CrDivZero.
Proof. exact eval_expr_sound. Qed.
Print Assumptions C12_check_sound.

Example C12_witness :
  check_ok CtxTransform (PCons (PSLoop (PCons (PSLoop (PCons PSBreak PNil)) (PCons PSBreak PNil))) (PCons (PSReturn (PEStr [120]%N)) PNil)) = None /\
  check_ok CtxTransform (PCons PSBreak PNil) = Some EBreak /\
  check_ok CtxPredicate (PCons (PSReturn (PEBin OPlus (PEBool true) (PEBool true))) PNil) = Some EOperator.
Proof. vm_compute. repeat split. Qed.
