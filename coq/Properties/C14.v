(* C14 — a regex literal finds what that regular expression finds. *)
From Model Require Import Front.
From Spec Require Import RegexSpec.
From Proofs Require Import RegexTotal RegexRoundTrip.
From Spec Require Sem.
From Proofs Require ResolveShape UnrollSem TotalRec.
From Spec Require Lang RegexLang.
From Proofs Require LangSound RegexLangSound RegexFind ResolveOk.
From Spec Require RegexOrder.
From Proofs Require RegexOrderSound RegexOrderFind RegexOrderFun.
From Coq Require Import Lia.
From Model Require Engine Scan.
From Coq Require Import Arith.
Local Open Scope N_scope.

(* The regular expressions of the supported subset are the trees of Spec/RegexSpec.v: literal and
   escaped characters, `.`, \d \D \s \S, bracket classes with ranges and negation, plain /
   non-capturing / named groups, * + ? {m} {m,} {m,n} and their lazy forms on any atom or group,
   alternation of single items, ^ $, numbered and named back-references, nested without bound.
   [tr_disj] is what each DENOTES as a vore pattern tree: `.` = any character but a newline,
   a class = `in`/`not in` of its characters and ranges, a quantifier = the loop with those bounds
   (lazy = fewest), a|b = a or b, (x) = capture named _N with N counted by opening parenthesis,
   (?<n>x) = capture named n, \N / \k<n> = back-reference to that capture.
   For EVERY well-formed tree, parsing its written form yields exactly that denotation - so by C01
   (the VM finds what the specification of the pattern tree defines) `find all @/re/` finds what the
   denotation finds. *)
Theorem C14_regex_roundtrip : forall (d : rdis) (g : nat), wf_disj d [] ->
  parse_regexp (show_disj d) g = POk (EPrim (LSubExpr (fst (tr_disj d g))), snd (tr_disj d g)).
Proof. exact regex_roundtrip_lemma. Qed.
Print Assumptions C14_regex_roundtrip.

(* What a quantifier means.  The generator does not emit x{m,n} as one loop: it lays out m copies of
   x's pattern and then a loop of 0..n-m further iterations.  For every reference-free x, whatever
   the generator emits for the quantified tree (at any offset, with any loop-id supply) has exactly
   the outcomes of "between m and n repetitions of x's pattern", greedy or lazy - provided x's
   pattern always consumes something (the property's proviso: repeated bodies cannot match the
   empty string) and has a defined meaning. *)
Theorem C14_quantifier_means_bounded_repetition :
  forall text start defs mn mx fw body off g r g' off0 g0 c g0',
  ResolveShape.plain_e body -> gvars g0 = gvars g ->
  resolve_expr (ELoop mn mx fw [] body) off g = GOk (r, g') ->
  resolve_expr body off0 g0 = GOk (c, g0') ->
  UnrollSem.advances text start defs c -> UnrollSem.defined text start defs c -> (mx = -1 \/ Z.of_nat mn <= mx)%Z ->
  forall s l, Sem.outs text start defs r s l <-> Sem.outs text start defs (XLoop 0 mn mx fw [] c) s l.
Proof. exact ResolveShape.quantifier_meaning_lemma. Qed.
Print Assumptions C14_quantifier_means_bounded_repetition.

(* The semantic side.  [RegexLang.rd_lang] is the textbook language of a regular expression: a character
   stands for itself, `.` for any byte but newline, \d \s and bracket classes for one byte of the class,
   a group for the language of its body, x{m,n} (and * + ?) for m..n words of x in a row, a|b for the
   union, juxtaposition for concatenation.  For every regular expression proper ([reg_disj]: no anchors,
   no back-references, ASCII, quantified atoms that cannot match the empty string - the property's
   proviso - and bounds m <= n), whatever the generator resolves from its denotation - unrolled copies,
   capture groups and all - is a pattern in the scope of the language theorem of C01 and denotes exactly
   that language. *)
Theorem C14_regex_denotes_its_language :
  forall defs d, RegexLang.reg_disj d ->
  forall g off gs r gs', resolve_exprs (fst (tr_disj d g)) off gs = GOk (r, gs') ->
  Lang.pure r /\ forall w, Lang.lang defs r w <-> RegexLang.rd_lang d w.
Proof. exact (fun defs => proj2 (proj2 (proj2 (RegexLangSound.regex_lang_mut defs)))). Qed.
Print Assumptions C14_regex_denotes_its_language.

(* End to end in the specification: write the expression down, parse the text, resolve the tree; then at
   every state of every text the outcomes of the resolved pattern end exactly at the p' for which
   text[p:p'] is a word of the expression.  (C01_attempt: the VM reports the first of these outcomes in
   priority order; which one is first - leftmost alternative, greedy longest, lazy shortest - is the order
   of [outs], compared with a conventional engine by the differential check.) *)
Theorem C14_regex_finds_its_language :
  forall text start defs, (forall t b p, defs t = Some (b, p) -> p = PNil /\ Lang.pure b) ->
  forall d g e g' off gs r gs', wf_disj d [] -> RegexLang.reg_disj d ->
  parse_regexp (show_disj d) g = POk (e, g') -> resolve_expr e off gs = GOk (r, gs') ->
  forall s l, Sem.outs text start defs r s l -> (fst s <= length text)%nat ->
  forall p', (exists env, In (p', env) l) <->
             (fst s <= p')%nat /\ (p' <= length text)%nat /\ RegexLang.rd_lang d (sub text (fst s) p').
Proof.
  intros text start defs Hdefs d g e g' off gs r gs' Hwf Hreg Hparse Hres s l Ho Hs p'.
  rewrite (regex_roundtrip_lemma d g Hwf) in Hparse. inversion Hparse; subst e g'. cbn [resolve_expr resolve_lit] in Hres.
  destruct (proj2 (proj2 (proj2 (RegexLangSound.regex_lang_mut defs))) d Hreg g off gs r gs' Hres) as [Hp Hw].
  rewrite (LangSound.outs_lang_lemma text start defs Hdefs r s l Ho Hp Hs p'). rewrite Hw. reflexivity.
Qed.
Print Assumptions C14_regex_finds_its_language.

(* From the written expression to what the engine reports, with nothing assumed about derivations or fuel:
   for every regular expression proper, written down, parsed and resolved as the body of a find command, on
   EVERY text the VM's `find all` returns (for every large enough step budget) a list of consecutively numbered
   matches, each a non-empty located slice of the text that is a word of the expression. *)
Theorem C14_find_all_reports_words :
  forall d g e g' gs rc gs' text,
  wf_disj d [] -> RegexLang.reg_disj d -> ResolveOk.gs_ok gs ->
  parse_regexp (show_disj d) g = POk (e, g') ->
  resolve_exprs (ECons e ENil) 0 gs = GOk (rc, gs') ->
  exists F, forall fuel, (F <= fuel)%nat ->
    exists M, Scan.find_matches fuel (compile rc 0) text true 0 0 0 = Scan.SOk M /\
      map Scan.mnum M = seq 1 (length M) /\
      Forall (fun m => (Scan.mstart m < Scan.mend m)%nat /\ (Scan.mend m <= length text)%nat /\
                       Scan.mvalue m = sub text (Scan.mstart m) (Scan.mend m) /\ RegexLang.rd_lang d (Scan.mvalue m)) M.
Proof. exact RegexFind.regex_find_all_lemma. Qed.
Print Assumptions C14_find_all_reports_words.

(* WHICH of the words is found first.  [RegexOrder.rd_ord text d p l] is the order in which a conventional
   (Perl/PCRE-style) backtracking matcher finds the ways d can match at position p, written on the syntax of
   the expression alone: a concatenation tries, for every end of its first part in order, every end of the
   rest; l|r tries all of l before r; a greedy quantifier iterates once more before it stops, a lazy one
   stops before it iterates, both within their bounds; ^ and $ hold at line boundaries.  For every expression
   of the supported subset WITHOUT BACK-REFERENCES ([oreg_disj]: ASCII characters, `.`, classes, bracket classes
   that list no byte twice, all kinds of groups, ^ $, quantifiers m <= n over atoms that are not nullable -
   the property's proviso) the ordered outcomes of the resolved pattern (C01: the VM reports the first of
   them) end at exactly these positions IN EXACTLY THIS ORDER, from every state of every text, whatever the
   subroutine table. *)
Theorem C14_outcomes_in_backtracking_order :
  forall text start defs d, RegexOrder.oreg_disj d ->
  forall g off gs r gs', resolve_exprs (fst (tr_disj d g)) off gs = GOk (r, gs') ->
  forall s l, (fst s <= length text)%nat -> Sem.outs text start defs r s l -> RegexOrder.rd_ord text d (fst s) (map fst l).
Proof.
  intros text start defs d Hreg g off gs r gs' Hres.
  exact (proj1 (proj2 (proj2 (proj2 (RegexOrderSound.regex_order_mut text start defs))) d Hreg g off gs r gs' Hres)).
Qed.
Print Assumptions C14_outcomes_in_backtracking_order.

(* ... and end to end: for every such expression, written down, parsed and resolved as the body of a find
   command, on EVERY text the VM's `find all` returns (for every large enough step budget) exactly the scan
   [RegexOrder.rscan]: start offsets from the left; at each offset the FIRST end in the backtracking order;
   an empty match is not reported; the search resumes at the end of a reported match, one byte further
   otherwise.  No derivation, fuel or pattern tree appears in the hypotheses. *)
Theorem C14_find_all_is_the_backtracking_scan :
  forall d g e g' gs rc gs' text,
  wf_disj d [] -> RegexOrder.oreg_disj d -> ResolveOk.gs_ok gs ->
  parse_regexp (show_disj d) g = POk (e, g') ->
  resolve_exprs (ECons e ENil) 0 gs = GOk (rc, gs') ->
  exists F, forall fuel, (F <= fuel)%nat ->
    exists M, Scan.find_matches fuel (compile rc 0) text true 0 0 0 = Scan.SOk M /\
      RegexOrder.rscan text d 0 (map (fun m => (Scan.mstart m, Scan.mend m)) M).
Proof. exact RegexOrderFind.regex_find_all_order_lemma. Qed.
Print Assumptions C14_find_all_is_the_backtracking_scan.

(* no end lies before its start, and none AT its start when the expression is (syntactically) not nullable:
   [nn_disj] is the usual non-nullability, the form in which the order theorems take the property's proviso *)
Theorem C14_not_nullable_means_consuming :
  forall text d p l, RegexOrder.rd_ord text d p l ->
  Forall (le p) l /\ (RegexOrder.nn_disj d = true -> Forall (lt p) l).
Proof. intros text d p l H. exact (proj1 (proj2 (proj2 (proj2 (RegexOrderFun.ord_advances_mut text)))) d p l H). Qed.
Print Assumptions C14_not_nullable_means_consuming.

(* the order specification is a function: one list of ends per expression, text and position, one scan per
   text - so the two theorems above determine what is found *)
Theorem C14_backtracking_order_is_functional :
  forall text d, (forall p l1 l2, RegexOrder.rd_ord text d p l1 -> RegexOrder.rd_ord text d p l2 -> l2 = l1) /\
                 (forall off S1 S2, RegexOrder.rscan text d off S1 -> RegexOrder.rscan text d off S2 -> S2 = S1).
Proof.
  intros text d. split.
  - intros p l1 l2 H1 H2. exact (proj1 (proj2 (proj2 (proj2 (RegexOrderFun.ord_fun_mut text)))) d p l1 H1 l2 H2).
  - intros off S1 S2 H1 H2. exact (RegexOrderFun.rscan_fun text d off S1 H1 S2 H2).
Qed.
Print Assumptions C14_backtracking_order_is_functional.


(* every other byte string between @/ and / gives a tree or an error, never a panic or a hang *)
Theorem C14_regex_parser_total : forall re g, parse_regexp re g <> PCrash /\ parse_regexp re g <> PFuel.
Proof.
  intros re g. pose proof (parse_regexp_safe re g) as H.
  destruct (parse_regexp re g); cbn in H; try contradiction; split; discriminate.
Qed.
Print Assumptions C14_regex_parser_total.

(* non-vacuity and group numbering:  ((a)b)\2|c+?  is well formed; the outer group is _1, the inner _2 *)
Definition ex_re : rdis :=
  DCons (PAlt (RQ (RGroup GNum (DCons (POne (RQ (RGroup GNum (DCons (POne (RQ (RChar 97) None)) DNil)) None))
                                (DCons (POne (RQ (RChar 98) None)) DNil))) None)
              (POne (RQ (RBackNum 50) None)))
        (DCons (POne (RQ (RChar 99) (Some (QPlus, true)))) DNil).

Example C14_witness :
  wf_disj ex_re [] /\
  show_disj ex_re = [40;40;97;41;98;41;124;92;50;99;43;63] /\
  fst (tr_disj ex_re 0) =
    ECons (EBranch (LSubExpr (ECons (EPrim (LSubExpr (ECons (EDec [95;49] (LSubExpr
              (ECons (EPrim (LSubExpr (ECons (EDec [95;50] (LSubExpr (ECons (EPrim (LStr false false [97])) ENil))) ENil)))
              (ECons (EPrim (LStr false false [98])) ENil)))) ENil))) ENil))
                   (EPrim (LVar [95;50])))
    (ECons (ELoop 1 (-1) true [] (EPrim (LStr false false [99]))) ENil).
Proof. split; [cbn; repeat split; try reflexivity; try exact I|]. split; reflexivity. Qed.

(* non-vacuity of the quantifier theorem:  a+  (at least 1 'a'): the hypotheses hold on every text *)
Example C14_quantifier_witness : forall text start defs,
  let body := EPrim (LStr false false [97]) in
  ResolveShape.plain_e body /\
  (exists r g', resolve_expr (ELoop 1 (-1) false [] body) 0 init_gstate = GOk (r, g')) /\
  resolve_expr body 0 init_gstate = GOk (XAtom (IMatchLit false false [97]), init_gstate) /\
  UnrollSem.advances text start defs (XAtom (IMatchLit false false [97])) /\
  UnrollSem.defined text start defs (XAtom (IMatchLit false false [97])).
Proof.
  intros text start defs body. split; [exact I|]. split; [eexists _, _; reflexivity|]. split; [reflexivity|]. split.
  - intros s l H. pose proof (TotalRec.literal_consumes text start defs false false [97] s l H) as Hc.
    eapply Forall_impl; [|exact Hc]. cbn. intros q Hq. apply Nat.neq_sym. apply Nat.lt_neq. exact Hq.
  - intros s. eexists. constructor.
Qed.

(* non-vacuity of the language theorems:  (a|b)+c  is well formed and regular, and "abc" is one of its words *)
Definition ex_reg : rdis :=
  DCons (POne (RQ (RGroup GNum (DCons (PAlt (RQ (RChar 97) None) (POne (RQ (RChar 98) None))) DNil)) (Some (QPlus, false))))
        (DCons (POne (RQ (RChar 99) None)) DNil).

Example C14_language_witness :
  wf_disj ex_reg [] /\ RegexLang.reg_disj ex_reg /\ RegexLang.rd_lang ex_reg [97; 98; 99] /\
  exists r g', resolve_exprs (fst (tr_disj ex_reg 0)) 0 init_gstate = GOk (r, g').
Proof.
  assert (Ha : RegexLang.ra_lang (RChar 97) [97]) by constructor.
  assert (Hb : RegexLang.ra_lang (RChar 98) [98]) by constructor.
  set (grp := RGroup GNum (DCons (PAlt (RQ (RChar 97) None) (POne (RQ (RChar 98) None))) DNil)).
  assert (Hga : RegexLang.ra_lang grp [97]).
  { constructor. change [97] with ([97] ++ []). constructor; [|constructor]. apply RegexLang.rl_alt_l. constructor. exact Ha. }
  assert (Hgb : RegexLang.ra_lang grp [98]).
  { constructor. change [98] with ([98] ++ []). constructor; [|constructor]. apply RegexLang.rl_alt_r. constructor. constructor. exact Hb. }
  split; [cbn; repeat split; try reflexivity; try exact I|]. split; [|split].
  - cbn [RegexLang.reg_disj RegexLang.reg_pat RegexLang.reg_lit RegexLang.reg_atom ex_reg]. repeat split; try (apply N.ltb_lt; reflexivity).
    + intros w H. inversion H as [| | | | |? ? ? Hd]; subst. inversion Hd as [|? ? u v Hp Hn]; subst. inversion Hn; subst. rewrite app_nil_r.
      inversion Hp as [|? ? ? Hl|? ? ? Hr]; subst.
      * inversion Hl as [? ? Hx|]; subst. inversion Hx; discriminate.
      * inversion Hr as [? ? Hl| |]; subst. inversion Hl as [? ? Hx|]; subst. inversion Hx; discriminate.
    + exists 1%nat, (-1)%Z. split; [reflexivity|left; reflexivity].
  - change [97; 98; 99] with (concat [[97]; [98]] ++ ([99] ++ [])). constructor; [|constructor; [constructor; constructor; constructor|constructor]].
    constructor. apply (RegexLang.rl_quant grp QPlus false 1 (-1) [[97]; [98]]); [reflexivity|cbn; lia|reflexivity|].
    constructor; [exact Hga|constructor; [exact Hgb|constructor]].
  - vm_compute. eexists _, _. reflexivity.
Qed.

(* ... and the capstone's hypotheses hold for it from the initial generator state *)
Example C14_capstone_witness :
  ResolveOk.gs_ok init_gstate /\
  exists e g' rc gs', parse_regexp (show_disj ex_reg) 0 = POk (e, g') /\ resolve_exprs (ECons e ENil) 0 init_gstate = GOk (rc, gs').
Proof. split; [exact ResolveOk.init_gs_ok|]. vm_compute. eexists _, _, _, _. split; reflexivity. Qed.

(* non-vacuity of the order: on "aaab"  a+  finds the ends 3, 2, 1 in this order and  a+?  the ends 1, 2, 3;
   on "abb"  (?:(?:ab)|a)b?  tries ab.b, ab, a.b, a  - ends 3, 2, 2, 1 *)
Ltac ord1 := cbv [RegexOrder.step1 nth_error RegexOrder.dot_ok RegexOrder.at_bol RegexOrder.at_eol Nat.eqb Nat.sub Nat.add length orb andb N.eqb Pos.eqb];
  first [ apply RegexOrder.ro_nil | apply RegexOrder.ro_bol | apply RegexOrder.ro_eol | apply RegexOrder.re_nil | apply RegexOrder.rqe_nil | apply RegexOrder.ro_char | apply RegexOrder.ro_esc
        | apply RegexOrder.ro_dot | apply RegexOrder.ro_cls | apply RegexOrder.ro_bracket
        | eapply RegexOrder.ro_group | eapply RegexOrder.ro_plain | (eapply RegexOrder.ro_quant; [reflexivity|]) | eapply RegexOrder.ro_one
        | eapply RegexOrder.ro_alt | eapply RegexOrder.ro_cons | eapply RegexOrder.re_cons | eapply RegexOrder.rqe_cons
        | (eapply RegexOrder.rq_must; [cbn; lia| |]) | (eapply RegexOrder.rq_greedy; [cbn; lia|reflexivity| |])
        | (eapply RegexOrder.rq_lazy; [cbn; lia|reflexivity| |]) | (apply RegexOrder.rq_full; [cbn; lia|reflexivity]) ].

Definition ex_plus (lz : bool) : rdis := DCons (POne (RQ (RChar 97) (Some (QPlus, lz)))) DNil.
Definition ex_alt : rdis :=
  DCons (POne (RQ (RGroup GNon (DCons (PAlt (RQ (RGroup GNon (DCons (POne (RQ (RChar 97) None)) (DCons (POne (RQ (RChar 98) None)) DNil))) None)
                                             (POne (RQ (RChar 97) None))) DNil)) None))
        (DCons (POne (RQ (RChar 98) (Some (QOpt, false)))) DNil).

(* ^a+$ : at offset 2 of "a\na" (a line start) it ends at 3 (the end of the text); at offset 1 of "aa\n" (not a line start) nothing *)
Definition ex_anchored : rdis := DCons (POne RBol) (DCons (POne (RQ (RChar 97) (Some (QPlus, false)))) (DCons (POne REol) DNil)).

Example C14_order_witness :
  (exists l, RegexOrder.rd_ord [97; 97; 97; 98] (ex_plus false) 0 l /\ l = [3; 2; 1]%nat) /\
  (exists l, RegexOrder.rd_ord [97; 97; 97; 98] (ex_plus true) 0 l /\ l = [1; 2; 3]%nat) /\
  (exists l, RegexOrder.rd_ord [97; 98; 98] ex_alt 0 l /\ l = [3; 2; 2; 1]%nat) /\
  (exists l, RegexOrder.rd_ord [97; 10; 97] ex_anchored 2 l /\ l = [3]%nat) /\
  (exists l, RegexOrder.rd_ord [97; 97; 10] ex_anchored 1 l /\ l = []) /\
  RegexOrder.oreg_disj ex_reg /\ RegexOrder.oreg_disj ex_alt /\ RegexOrder.oreg_disj ex_anchored /\ RegexOrder.oreg_disj (ex_plus true).
Proof.
  split; [|split; [|split; [|split; [|split]]]].
  - eexists. split; [repeat ord1|cbv; reflexivity].
  - eexists. split; [repeat ord1|cbv; reflexivity].
  - eexists. split; [repeat ord1|cbv; reflexivity].
  - eexists. split; [repeat ord1|cbv; reflexivity].
  - eexists. split; [repeat ord1|cbv; reflexivity].
  - cbn. repeat split; try reflexivity; try (apply N.ltb_lt; reflexivity); try (eexists _, _; split; [reflexivity|]; (left; reflexivity) || (right; cbn; lia)).
Qed.
