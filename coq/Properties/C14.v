(* C14 — a regex literal finds what that regular expression finds. *)
From Model Require Import Front.
From Spec Require Import RegexSpec.
From Proofs Require Import RegexTotal RegexRoundTrip.
From Spec Require Sem.
From Proofs Require ResolveShape UnrollSem TotalRec.
From Coq Require Import Arith.
Local Open Scope N_scope.

(* The regular expressions of the supported subset are the trees of Spec/RegexSpec.v: literal and
   escaped characters, `.`, \d \D \s \S, bracket classes with ranges and negation, plain /
   non-capturing / named groups, * + ? {m} {m,} {m,n} and their lazy forms on any atom or group,
   alternation of single items, ^ $, numbered and named back-references, nested without bound.
   [tr_disj] is what each DENOTES as a vore pattern tree: `.` = any character but a newline,
   a class = `in`/`not in` of its characters and ranges, a quantifier = the loop with those bounds
   (lazy = fewest), a|b = a or b, (x) = capture named _N with N counted by opening parenthesis,
   (?<n>x) = capture named n, \N / \k<n> = back-reference to that capture.
   For EVERY well-formed tree, parsing its written form yields exactly that denotation - so by C01
   (the VM finds what the specification of the pattern tree defines) `find all @/re/` finds what the
   denotation finds. *)
Theorem C14_regex_roundtrip : forall (d : rdis) (g : nat), wf_disj d [] ->
  parse_regexp (show_disj d) g = POk (EPrim (LSubExpr (fst (tr_disj d g))), snd (tr_disj d g)).
Proof. exact regex_roundtrip_lemma. Qed.
Print Assumptions C14_regex_roundtrip.

(* What a quantifier means.  The generator does not emit x{m,n} as one loop: it lays out m copies of
   x's pattern and then a loop of 0..n-m further iterations.  For every reference-free x, whatever
   the generator emits for the quantified tree (at any offset, with any loop-id supply) has exactly
   the outcomes of "between m and n repetitions of x's pattern", greedy or lazy - provided x's
   pattern always consumes something (the property's proviso: repeated bodies cannot match the
   empty string) and has a defined meaning. *)
Theorem C14_quantifier_means_bounded_repetition :
  forall text start defs mn mx fw body off g r g' off0 g0 c g0',
  ResolveShape.plain_e body -> gvars g0 = gvars g ->
  resolve_expr (ELoop mn mx fw [] body) off g = GOk (r, g') ->
  resolve_expr body off0 g0 = GOk (c, g0') ->
  UnrollSem.advances text start defs c -> UnrollSem.defined text start defs c -> (mx = -1 \/ Z.of_nat mn <= mx)%Z ->
  forall s l, Sem.outs text start defs r s l <-> Sem.outs text start defs (XLoop 0 mn mx fw [] c) s l.
Proof. exact ResolveShape.quantifier_meaning_lemma. Qed.
Print Assumptions C14_quantifier_means_bounded_repetition.

(* every other byte string between @/ and / gives a tree or an error, never a panic or a hang *)
Theorem C14_regex_parser_total : forall re g, parse_regexp re g <> PCrash /\ parse_regexp re g <> PFuel.
Proof.
  intros re g. pose proof (parse_regexp_safe re g) as H.
  destruct (parse_regexp re g); cbn in H; try contradiction; split; discriminate.
Qed.
Print Assumptions C14_regex_parser_total.

(* non-vacuity and group numbering:  ((a)b)\2|c+?  is well formed; the outer group is _1, the inner _2 *)
Definition ex_re : rdis :=
  DCons (PAlt (RQ (RGroup GNum (DCons (POne (RQ (RGroup GNum (DCons (POne (RQ (RChar 97) None)) DNil)) None))
                                (DCons (POne (RQ (RChar 98) None)) DNil))) None)
              (POne (RQ (RBackNum 50) None)))
        (DCons (POne (RQ (RChar 99) (Some (QPlus, true)))) DNil).

Example C14_witness :
  wf_disj ex_re [] /\
  show_disj ex_re = [40;40;97;41;98;41;124;92;50;99;43;63] /\
  fst (tr_disj ex_re 0) =
    ECons (EBranch (LSubExpr (ECons (EPrim (LSubExpr (ECons (EDec [95;49] (LSubExpr
              (ECons (EPrim (LSubExpr (ECons (EDec [95;50] (LSubExpr (ECons (EPrim (LStr false false [97])) ENil))) ENil)))
              (ECons (EPrim (LStr false false [98])) ENil)))) ENil))) ENil))
                   (EPrim (LVar [95;50])))
    (ECons (ELoop 1 (-1) true [] (EPrim (LStr false false [99]))) ENil).
Proof. split; [cbn; repeat split; try reflexivity; try exact I|]. split; reflexivity. Qed.

(* non-vacuity of the quantifier theorem:  a+  (at least 1 'a'): the hypotheses hold on every text *)
Example C14_quantifier_witness : forall text start defs,
  let body := EPrim (LStr false false [97]) in
  ResolveShape.plain_e body /\
  (exists r g', resolve_expr (ELoop 1 (-1) false [] body) 0 init_gstate = GOk (r, g')) /\
  resolve_expr body 0 init_gstate = GOk (XAtom (IMatchLit false false [97]), init_gstate) /\
  UnrollSem.advances text start defs (XAtom (IMatchLit false false [97])) /\
  UnrollSem.defined text start defs (XAtom (IMatchLit false false [97])).
Proof.
  intros text start defs body. split; [exact I|]. split; [eexists _, _; reflexivity|]. split; [reflexivity|]. split.
  - intros s l H. pose proof (TotalRec.literal_consumes text start defs false false [97] s l H) as Hc.
    eapply Forall_impl; [|exact Hc]. cbn. intros q Hq. apply Nat.neq_sym. apply Nat.lt_neq. exact Hq.
  - intros s. eexists. constructor.
Qed.
