(* C14 — a regex literal finds what that regular expression finds. *)
From Model Require Import Front.
From Proofs Require Import RegexTotal.

Theorem C14_regex_parser_total : forall re g, parse_regexp re g <> PCrash /\ parse_regexp re g <> PFuel.
Proof.
  intros re g. pose proof (parse_regexp_safe re g) as H.
  destruct (parse_regexp re g); cbn in H; try contradiction; split; discriminate.
Qed.
Print Assumptions C14_regex_parser_total.
