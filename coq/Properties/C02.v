(* C02 — captured variables are exactly the bindings of the successful path. *)
From Model Require Import Engine.
From Spec Require Import Sem FindSpec.
From Proofs Require Import RefineBase RefineExec Refine Attempt FindCorrect Transparent SemSound.
From Proofs Require StackDiscipline VarsShape.
From Model Require Scan.

(* The variables reported with each match are the bindings of the specification's first outcome at
   that offset (sp_env), i.e. those built along the successful derivation only. *)
Theorem C02_vars_of_match :
  forall r text, loop_ok r -> forall S, sscan r text 0 S ->
  exists F, forall fuel, F <= fuel ->
    exists M, find_matches fuel (compile r 0) text true 0 0 0 = SOk M /\
              map (fun m => (mstart m, mend m, mvars m)) M = map (fun s => (sp_start s, sp_end s, sp_env s)) S.
Proof. exact C02_vars_lemma. Qed.
Print Assumptions C02_vars_of_match.

(* In the specification a binding made while an alternative is tried cannot reach the outcomes of
   the next alternative: both are computed from the same starting state. *)
Theorem C02_alternatives_isolated :
  forall text start defs a b s l, outs text start defs (XAlt a b) s l ->
  exists la lb, l = la ++ lb /\ outs text start defs a s la /\ outs text start defs b s lb.
Proof. exact alt_isolated. Qed.
Print Assumptions C02_alternatives_isolated.

(* `B = name` binds exactly the text B consumed on that path (the most recent binding wins) *)
Theorem C02_capture_binds :
  forall text start defs n b s l, outs text start defs (XDec n b) s l ->
  exists la, outs text start defs b s la /\
             l = map (fun q => (fst q, aset (snd q) n (VStr (sub text (fst s) (fst q))))) la.
Proof. exact dec_binds. Qed.
Print Assumptions C02_capture_binds.

(* a back-reference matches exactly the text currently bound to its name *)
Theorem C02_backref_exact :
  forall text n p (e : env) v, alookup e n = Some (VStr v) -> v <> [] ->
  ref_outs text n (p, e) = if bytes_eqb v (read text p (length v)) then [(p + length v, e)] else [].
Proof. exact backref_exact. Qed.
Print Assumptions C02_backref_exact.

(* The mechanism, for ARBITRARY bytecode (named loops and their iteration maps included): one VM step either
   pushes new checkpoints on top of the backtrack stack or resumes a saved core and drops what was above
   it; saved cores are never modified, and a capture (EndVar) writes into the running core only.  So when a
   path is abandoned the VM continues from a core exactly as it was at the choice point: whatever the
   abandoned path bound - in the environment or in a named loop's iteration map - is not there. *)
Theorem C02_checkpoints_immutable :
  forall prog text c B,
  match step prog text c B with
  | Running c' B' => (exists new, B' = new ++ B) \/ (exists pre, B = pre ++ c' :: B')
  | _ => True
  end.
Proof. exact StackDiscipline.step_stack_discipline. Qed.
Print Assumptions C02_checkpoints_immutable.

Theorem C02_capture_writes_running_core_only :
  forall prog text c B n, nth_error prog (pc c) = Some (IEndVar n) ->
  match step prog text c B with Running _ B' => B' = B | _ => True end.
Proof. exact StackDiscipline.endvar_touches_running_core_only. Qed.
Print Assumptions C02_capture_writes_running_core_only.

(* What a variable IS, for ARBITRARY bytecode: in every match of every command, on every text and window, every
   variable is a string or - for a named loop - an iteration table: a map whose keys are exactly the decimal
   numbers 0 .. k, each once, and whose entries are variable maps (no name twice) of the same shape, to any depth.  The engine never binds a
   string where a table entry belongs, never leaves a gap in the numbering, never uses a key that is not an
   iteration number ([VarsShape.wsv]; C17 renders exactly this nest as JSON objects). *)
Theorem C02_variables_have_the_named_loop_shape :
  forall vmfuel prog text all skip take last R,
  Scan.find_matches vmfuel prog text all skip take last = Scan.SOk R ->
  Forall (fun m => NoDup (map fst (Scan.mvars m)) /\ Forall (fun kv => VarsShape.wsv (snd kv)) (Scan.mvars m)) R.
Proof. exact VarsShape.find_matches_vars_shape. Qed.
Print Assumptions C02_variables_have_the_named_loop_shape.

Theorem C02_shape_meaning : forall v, VarsShape.wsv v <->
  match v with
  | VStr _ => True
  | VMap t => exists k, (forall i, (i <= k)%nat -> exists e, alookup t (itoa_nat i) = Some (VMap e) /\ VarsShape.wse e) /\
                        NoDup (map fst t) /\
                        (forall key x, In (key, x) t -> exists i e, (i <= k)%nat /\ key = itoa_nat i /\ x = VMap e /\ VarsShape.wse e)
  end.
Proof. exact VarsShape.wsv_meaning. Qed.
Print Assumptions C02_shape_meaning.

(* non-vacuity: ('a' = x 'b') or ('a' 'c') on "ac": the only outcome has no binding for x *)
Definition ex2 : rx :=
  XAlt (XSeq (XDec [120]%N (XAtom (IMatchLit false false [97]%N))) (XSeq (XAtom (IMatchLit false false [98]%N)) XEps))
       (XSeq (XAtom (IMatchLit false false [97]%N)) (XSeq (XAtom (IMatchLit false false [99]%N)) XEps)).
Example C02_witness : outs [97; 99]%N 0 (defs_of ex2) ex2 (0, []) [(2, [])] /\ loop_ok ex2.
Proof. split; [apply (outs_f_sound _ _ _ 20); vm_compute; reflexivity | cbn; auto]. Qed.
