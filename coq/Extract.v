(* Extraction of the executable model for the correspondence check.
   Only ExtrOcamlBasic: nat, positive, N, Z stay inductive types.  Run coqc from /verif/ocaml. *)
From Coq Require Import ExtrOcamlBasic.
From Model Require Import Engine.
From Spec Require Import FindSpec.
From Model Require Import BufFile Glob Cli Json Parser.
Extraction Language OCaml.
Extraction "model.ml" compile_ast run_commands run_find replace_output canon_env canon_value
  check_ok eval_expr run_program init_pstate transform_env splice itoa_nat itoa_Z atoi
  find_matches exprs_to_list pstmts_to_list vm_fuel_default
  resolve_program init_gstate spec_find_all rd_run rd_new pm get_file_list split_slash decide compact indent matches_json lex parse parse_source.
