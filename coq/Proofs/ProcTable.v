(* C11 / C12: the evaluator computes what the documented table says on every type-correct
   combination; the checker accepts exactly the well-typed expressions; accepted expressions never
   reach an undefined operation. *)
From Model Require Import Check.
From Spec Require Import ProcSpec.
From Coq Require Import Lia.

Lemma eval_binop_table op l r t :
  table op (pv_type l) (pv_type r) = Some t ->
  match spec_binop op l r with
  | Some v => eval_binop op l r = Ok v /\ pv_type v = t
  | None => (op = ODiv \/ op = OMod) /\ get_number r = 0%Z /\ eval_binop op l r = Crash CrDivZero
  end.
Proof.
  intros H. unfold spec_binop. rewrite H.
  destruct l as [ls|ln|lb]; destruct r as [rs|rn|rb]; destruct op; cbn in H; try discriminate; inversion H; subst;
    cbn [pv_type is_arith_noplus str_op bool_op num_op eval_binop get_string get_number get_boolean];
    try (split; reflexivity);
    try (unfold go_quot, go_rem; destruct (Z.eqb _ 0) eqn:E; [apply Z.eqb_eq in E; cbn [get_number]; auto|split; reflexivity]).
Qed.

Lemma eval_binop_undefined op l r :
  table op (pv_type l) (pv_type r) = None -> eval_binop op l r = Crash CrUndefinedOp.
Proof.
  destruct l as [ls|ln|lb]; destruct r as [rs|rn|rb]; destruct op; cbn; intros H; try discriminate; reflexivity.
Qed.

Lemma eval_unop_table op v : match spec_unop op v with Some w => eval_unop op v = w | None => True end.
Proof. destruct op, v; cbn; auto. Qed.

(* ---- the checker computes the declarative typing ---- *)
Definition ct (t : ptype) : ctype := match t with TString => CTString | TNumber => CTNumber | TBoolean => CTBoolean end.
Definition cenv_of (G : tyenv) : tenv := map (fun '(n, t) => (n, ct t)) G.

Lemma alookup_cenv_of G n : alookup (cenv_of G) n = option_map ct (alookup G n).
Proof. induction G as [|[k t] G IH]; cbn; auto. destruct (bytes_eqb k n); auto. Qed.

Lemma check_binop_table op tl tr :
  check_binop op (ct tl) (ct tr) = match table op tl tr with Some t => ct t | None => CTError EOperator end.
Proof. destruct tl, tr, op; reflexivity. Qed.

Lemma ct_not_error t : is_error (ct t) = false.
Proof. destruct t; reflexivity. Qed.

Lemma ct_inj a b : ct a = ct b -> a = b.
Proof. destruct a, b; cbn; congruence. Qed.

Theorem check_expr_complete G e t : has_type G e t -> check_expr (cenv_of G) e = ct t.
Proof.
  induction 1; cbn [check_expr]; auto.
  - rewrite alookup_cenv_of, H. reflexivity.
  - rewrite alookup_cenv_of, H. reflexivity.
  - rewrite IHhas_type1, IHhas_type2, check_binop_table, H1. reflexivity.
  - rewrite IHhas_type. reflexivity.
  - rewrite IHhas_type. reflexivity.
  - rewrite IHhas_type. reflexivity.
Qed.

Lemma check_expr_not_ok E e : check_expr E e <> CTOk.
Proof.
  induction e as [op l IHl r IHr|op a IHa|s|n|b|n]; cbn [check_expr]; try discriminate.
  - destruct (check_expr E l) as [ |ml| | | ]; destruct (check_expr E r) as [ |mr| | | ]; destruct op; cbn; try discriminate; congruence.
  - destruct (check_expr E a) as [ |ma| | | ]; destruct op; cbn; try discriminate; congruence.
  - destruct (alookup E n) as [c|] eqn:Ec; [|discriminate]. intro H. subst c. Abort.

Lemma check_binop_inv op cl cr t : cl <> CTOk -> cr <> CTOk -> check_binop op cl cr = ct t ->
  exists tl tr, cl = ct tl /\ cr = ct tr /\ table op tl tr = Some t.
Proof.
  intros Hl Hr H.
  destruct cl as [ |ml| | | ]; destruct cr as [ |mr| | | ]; try congruence; cbn in H; try (destruct op, t; discriminate).
  all: first
    [ exists TString, TString; solve [repeat split; destruct op, t; cbn in *; try discriminate; reflexivity]
    | exists TString, TNumber; solve [repeat split; destruct op, t; cbn in *; try discriminate; reflexivity]
    | exists TString, TBoolean; solve [repeat split; destruct op, t; cbn in *; try discriminate; reflexivity]
    | exists TNumber, TString; solve [repeat split; destruct op, t; cbn in *; try discriminate; reflexivity]
    | exists TNumber, TNumber; solve [repeat split; destruct op, t; cbn in *; try discriminate; reflexivity]
    | exists TNumber, TBoolean; solve [repeat split; destruct op, t; cbn in *; try discriminate; reflexivity]
    | exists TBoolean, TString; solve [repeat split; destruct op, t; cbn in *; try discriminate; reflexivity]
    | exists TBoolean, TNumber; solve [repeat split; destruct op, t; cbn in *; try discriminate; reflexivity]
    | exists TBoolean, TBoolean; solve [repeat split; destruct op, t; cbn in *; try discriminate; reflexivity] ].
Qed.

(* expressions over an environment of proper types never check to CTOk *)
Lemma check_expr_not_ok G e : check_expr (cenv_of G) e <> CTOk.
Proof.
  induction e as [op l IHl r IHr|op a IHa|s|n|b|n]; cbn [check_expr]; try discriminate.
  - destruct (check_expr (cenv_of G) l) as [ |ml| | | ]; destruct (check_expr (cenv_of G) r) as [ |mr| | | ]; destruct op; cbn; try discriminate; congruence.
  - destruct (check_expr (cenv_of G) a) as [ |ma| | | ]; destruct op; cbn; try discriminate; congruence.
  - rewrite alookup_cenv_of. destruct (alookup G n) as [[]|]; cbn; discriminate.
Qed.

Theorem check_expr_sound_typing G e : forall t, check_expr (cenv_of G) e = ct t -> has_type G e t.
Proof.
  induction e as [op l IHl r IHr|op a IHa|s|n|b|n]; intros t H; cbn [check_expr] in H.
  - destruct (check_binop_inv _ _ _ _ (check_expr_not_ok G l) (check_expr_not_ok G r) H) as (tl & tr & El & Er & Et).
    eapply ht_bin; eauto.
  - destruct (check_expr (cenv_of G) a) as [ |ma| | | ] eqn:Ea; destruct op; cbn in H; destruct t; try discriminate.
    + apply ht_head. apply IHa. reflexivity.
    + apply ht_tail. apply IHa. reflexivity.
    + apply ht_not. apply IHa. reflexivity.
  - destruct t; try discriminate. constructor.
  - destruct t; try discriminate. constructor.
  - destruct t; try discriminate. constructor.
  - rewrite alookup_cenv_of in H. destruct (alookup G n) as [t0|] eqn:E; cbn in H.
    + apply ct_inj in H. subst. apply ht_var_known. exact E.
    + destruct t; try discriminate. apply ht_var_unknown. exact E.
Qed.

(* the checker rejects exactly the ill-typed expressions *)
Theorem check_expr_iff G e :
  (exists t, has_type G e t) <-> is_error (check_expr (cenv_of G) e) = false.
Proof.
  split.
  - intros [t H]. rewrite (check_expr_complete G e t H). apply ct_not_error.
  - intros H. destruct (check_expr (cenv_of G) e) as [ |m| | | ] eqn:E; try discriminate.
    + exfalso. eapply check_expr_not_ok; eauto.
    + exists TString. apply check_expr_sound_typing. exact E.
    + exists TNumber. apply check_expr_sound_typing. exact E.
    + exists TBoolean. apply check_expr_sound_typing. exact E.
Qed.

(* ---- soundness: well-typed expressions never reach an undefined operation ---- *)
(* a run-time number may stand where a string is expected (matchNumber): every string operation is
   defined on numbers too *)
Definition agrees (v : pvalue) (t : ptype) : Prop := pv_type v = t \/ (t = TString /\ pv_type v = TNumber).

Definition env_agrees (env : penv) (G : tyenv) : Prop :=
  forall n, match alookup env n, alookup G n with
            | Some v, Some t => agrees v t
            | Some v, None => agrees v TString
            | None, Some t => t = TString   (* an unset name evaluates to the empty string *)
            | None, None => True
            end.

Lemma binop_agrees op l r tl tr t : agrees l tl -> agrees r tr -> table op tl tr = Some t ->
  (exists v, eval_binop op l r = Ok v /\ agrees v t) \/ eval_binop op l r = Crash CrDivZero.
Proof.
  intros Hl Hr Ht.
  destruct l as [ls|ln|lb]; destruct r as [rs|rn|rb]; destruct tl, tr;
    destruct Hl as [Hl|[Hl1 Hl2]]; destruct Hr as [Hr|[Hr1 Hr2]]; cbn in *; try discriminate;
    destruct op; cbn in Ht; try discriminate; inversion Ht; subst; cbn [eval_binop];
    try (left; eexists; split; [reflexivity|]; unfold agrees; cbn; auto; fail);
    try (destruct (Z.eqb _ 0); [right; reflexivity|left; eexists; split; [reflexivity|unfold agrees; cbn; auto]]).
Qed.

Theorem eval_expr_sound G env e t : has_type G e t -> env_agrees env G ->
  (exists v, eval_expr env e = Ok v /\ agrees v t) \/ eval_expr env e = Crash CrDivZero.
Proof.
  intros Ht Henv. induction Ht; cbn [eval_expr].
  - left. eexists; split; [reflexivity|left; reflexivity].
  - left. eexists; split; [reflexivity|left; reflexivity].
  - left. eexists; split; [reflexivity|left; reflexivity].
  - specialize (Henv n). rewrite H in Henv. destruct (alookup env n) as [v|].
    + left. exists v. split; auto.
    + subst t. left. exists (PVStr []). split; [reflexivity|left; reflexivity].
  - specialize (Henv n). rewrite H in Henv. destruct (alookup env n) as [v|].
    + left. exists v. split; auto.
    + left. exists (PVStr []). split; [reflexivity|left; reflexivity].
  - destruct IHHt1 as [(lv & El & Hl)|El]; [|right; rewrite El; reflexivity]. rewrite El.
    destruct IHHt2 as [(rv & Er & Hr)|Er]; [|right; rewrite Er; reflexivity]. rewrite Er.
    eapply binop_agrees; eauto.
  - destruct IHHt as [(v & E & Hv)|E]; [|right; rewrite E; reflexivity]. rewrite E.
    left. eexists; split; [reflexivity|left; reflexivity].
  - destruct IHHt as [(v & E & Hv)|E]; [|right; rewrite E; reflexivity]. rewrite E.
    left. eexists; split; [reflexivity|left; reflexivity].
  - destruct IHHt as [(v & E & Hv)|E]; [|right; rewrite E; reflexivity]. rewrite E.
    left. eexists; split; [reflexivity|left; reflexivity].
Qed.
