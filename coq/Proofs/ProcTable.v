(* C11 / C12: the evaluator computes what the documented table says on every type-correct
   combination; the checker accepts exactly the well-typed expressions; accepted expressions never
   reach an undefined operation. *)
From Model Require Import Check.
From Spec Require Import ProcSpec.
From Coq Require Import Lia.

Lemma eval_binop_table op l r t :
  table op (pv_type l) (pv_type r) = Some t ->
  match spec_binop op l r with
  | Some v => eval_binop op l r = Ok v /\ pv_type v = t
  | None => (op = ODiv \/ op = OMod) /\ get_number r = 0%Z /\ eval_binop op l r = Crash CrDivZero
  end.
Proof.
  intros H. unfold spec_binop. rewrite H.
  destruct l as [ls|ln|lb]; destruct r as [rs|rn|rb]; destruct op; cbn in H; try discriminate; inversion H; subst;
    cbn [pv_type is_arith_noplus str_op bool_op num_op eval_binop get_string get_number get_boolean];
    try (split; reflexivity);
    try (unfold go_quot, go_rem; destruct (Z.eqb _ 0) eqn:E; [apply Z.eqb_eq in E; cbn [get_number]; auto|split; reflexivity]).
Qed.

Lemma eval_binop_undefined op l r :
  table op (pv_type l) (pv_type r) = None -> eval_binop op l r = Crash CrUndefinedOp.
Proof.
  destruct l as [ls|ln|lb]; destruct r as [rs|rn|rb]; destruct op; cbn; intros H; try discriminate; reflexivity.
Qed.

Lemma eval_unop_table op v : match spec_unop op v with Some w => eval_unop op v = w | None => True end.
Proof. destruct op, v; cbn; auto. Qed.

(* ---- the checker computes the declarative typing ---- *)
Definition ct (t : ptype) : ctype := match t with TString => CTString | TNumber => CTNumber | TBoolean => CTBoolean end.
Definition cenv_of (G : tyenv) : tenv := map (fun '(n, t) => (n, ct t)) G.

Lemma alookup_cenv_of G n : alookup (cenv_of G) n = option_map ct (alookup G n).
Proof. induction G as [|[k t] G IH]; cbn; auto. destruct (bytes_eqb k n); auto. Qed.

Lemma check_binop_table op tl tr :
  check_binop op (ct tl) (ct tr) = match table op tl tr with Some t => ct t | None => CTError EOperator end.
Proof. destruct tl, tr, op; reflexivity. Qed.

Lemma ct_not_error t : is_error (ct t) = false.
Proof. destruct t; reflexivity. Qed.

Lemma ct_inj a b : ct a = ct b -> a = b.
Proof. destruct a, b; cbn; congruence. Qed.

Theorem check_expr_complete G e t : has_type G e t -> check_expr (cenv_of G) e = ct t.
Proof.
  induction 1; cbn [check_expr]; auto.
  - rewrite alookup_cenv_of, H. reflexivity.
  - rewrite alookup_cenv_of, H. reflexivity.
  - rewrite IHhas_type1, IHhas_type2, check_binop_table, H1. reflexivity.
  - rewrite IHhas_type. reflexivity.
  - rewrite IHhas_type. reflexivity.
  - rewrite IHhas_type. reflexivity.
Qed.

Lemma check_expr_not_ok E e : check_expr E e <> CTOk.
Proof.
  induction e as [op l IHl r IHr|op a IHa|s|n|b|n]; cbn [check_expr]; try discriminate.
  - destruct (check_expr E l) as [ |ml| | | ]; destruct (check_expr E r) as [ |mr| | | ]; destruct op; cbn; try discriminate; congruence.
  - destruct (check_expr E a) as [ |ma| | | ]; destruct op; cbn; try discriminate; congruence.
  - destruct (alookup E n) as [c|] eqn:Ec; [|discriminate]. intro H. subst c. Abort.

Lemma check_binop_inv op cl cr t : cl <> CTOk -> cr <> CTOk -> check_binop op cl cr = ct t ->
  exists tl tr, cl = ct tl /\ cr = ct tr /\ table op tl tr = Some t.
Proof.
  intros Hl Hr H.
  destruct cl as [ |ml| | | ]; destruct cr as [ |mr| | | ]; try congruence; cbn in H; try (destruct op, t; discriminate).
  all: first
    [ exists TString, TString; solve [repeat split; destruct op, t; cbn in *; try discriminate; reflexivity]
    | exists TString, TNumber; solve [repeat split; destruct op, t; cbn in *; try discriminate; reflexivity]
    | exists TString, TBoolean; solve [repeat split; destruct op, t; cbn in *; try discriminate; reflexivity]
    | exists TNumber, TString; solve [repeat split; destruct op, t; cbn in *; try discriminate; reflexivity]
    | exists TNumber, TNumber; solve [repeat split; destruct op, t; cbn in *; try discriminate; reflexivity]
    | exists TNumber, TBoolean; solve [repeat split; destruct op, t; cbn in *; try discriminate; reflexivity]
    | exists TBoolean, TString; solve [repeat split; destruct op, t; cbn in *; try discriminate; reflexivity]
    | exists TBoolean, TNumber; solve [repeat split; destruct op, t; cbn in *; try discriminate; reflexivity]
    | exists TBoolean, TBoolean; solve [repeat split; destruct op, t; cbn in *; try discriminate; reflexivity] ].
Qed.

(* expressions over an environment of proper types never check to CTOk *)
Lemma check_expr_not_ok G e : check_expr (cenv_of G) e <> CTOk.
Proof.
  induction e as [op l IHl r IHr|op a IHa|s|n|b|n]; cbn [check_expr]; try discriminate.
  - destruct (check_expr (cenv_of G) l) as [ |ml| | | ]; destruct (check_expr (cenv_of G) r) as [ |mr| | | ]; destruct op; cbn; try discriminate; congruence.
  - destruct (check_expr (cenv_of G) a) as [ |ma| | | ]; destruct op; cbn; try discriminate; congruence.
  - rewrite alookup_cenv_of. destruct (alookup G n) as [[]|]; cbn; discriminate.
Qed.

Theorem check_expr_sound_typing G e : forall t, check_expr (cenv_of G) e = ct t -> has_type G e t.
Proof.
  induction e as [op l IHl r IHr|op a IHa|s|n|b|n]; intros t H; cbn [check_expr] in H.
  - destruct (check_binop_inv _ _ _ _ (check_expr_not_ok G l) (check_expr_not_ok G r) H) as (tl & tr & El & Er & Et).
    eapply ht_bin; eauto.
  - destruct (check_expr (cenv_of G) a) as [ |ma| | | ] eqn:Ea; destruct op; cbn in H; destruct t; try discriminate.
    + apply ht_head. apply IHa. reflexivity.
    + apply ht_tail. apply IHa. reflexivity.
    + apply ht_not. apply IHa. reflexivity.
  - destruct t; try discriminate. constructor.
  - destruct t; try discriminate. constructor.
  - destruct t; try discriminate. constructor.
  - rewrite alookup_cenv_of in H. destruct (alookup G n) as [t0|] eqn:E; cbn in H.
    + apply ct_inj in H. subst. apply ht_var_known. exact E.
    + destruct t; try discriminate. apply ht_var_unknown. exact E.
Qed.

(* the checker rejects exactly the ill-typed expressions *)
Theorem check_expr_iff G e :
  (exists t, has_type G e t) <-> is_error (check_expr (cenv_of G) e) = false.
Proof.
  split.
  - intros [t H]. rewrite (check_expr_complete G e t H). apply ct_not_error.
  - intros H. destruct (check_expr (cenv_of G) e) as [ |m| | | ] eqn:E; try discriminate.
    + exfalso. eapply check_expr_not_ok; eauto.
    + exists TString. apply check_expr_sound_typing. exact E.
    + exists TNumber. apply check_expr_sound_typing. exact E.
    + exists TBoolean. apply check_expr_sound_typing. exact E.
Qed.

(* ---- soundness: well-typed expressions never reach an undefined operation ---- *)
(* a run-time number may stand where a string is expected (matchNumber): every string operation is
   defined on numbers too *)
Definition agrees (v : pvalue) (t : ptype) : Prop := pv_type v = t \/ (t = TString /\ pv_type v = TNumber).

Definition env_agrees (env : penv) (G : tyenv) : Prop :=
  forall n, match alookup env n, alookup G n with
            | Some v, Some t => agrees v t
            | Some v, None => agrees v TString
            | None, Some t => t = TString   (* an unset name evaluates to the empty string *)
            | None, None => True
            end.

Lemma binop_agrees op l r tl tr t : agrees l tl -> agrees r tr -> table op tl tr = Some t ->
  (exists v, eval_binop op l r = Ok v /\ agrees v t) \/ eval_binop op l r = Crash CrDivZero.
Proof.
  intros Hl Hr Ht.
  destruct l as [ls|ln|lb]; destruct r as [rs|rn|rb]; destruct tl, tr;
    destruct Hl as [Hl|[Hl1 Hl2]]; destruct Hr as [Hr|[Hr1 Hr2]]; cbn in *; try discriminate;
    destruct op; cbn in Ht; try discriminate; inversion Ht; subst; cbn [eval_binop];
    try (left; eexists; split; [reflexivity|]; unfold agrees; cbn; auto; fail);
    try (destruct (Z.eqb _ 0); [right; reflexivity|left; eexists; split; [reflexivity|unfold agrees; cbn; auto]]).
Qed.

Theorem eval_expr_sound G env e t : has_type G e t -> env_agrees env G ->
  (exists v, eval_expr env e = Ok v /\ agrees v t) \/ eval_expr env e = Crash CrDivZero.
Proof.
  intros Ht Henv. induction Ht; cbn [eval_expr].
  - left. eexists; split; [reflexivity|left; reflexivity].
  - left. eexists; split; [reflexivity|left; reflexivity].
  - left. eexists; split; [reflexivity|left; reflexivity].
  - specialize (Henv n). rewrite H in Henv. destruct (alookup env n) as [v|].
    + left. exists v. split; auto.
    + subst t. left. exists (PVStr []). split; [reflexivity|left; reflexivity].
  - specialize (Henv n). rewrite H in Henv. destruct (alookup env n) as [v|].
    + left. exists v. split; auto.
    + left. exists (PVStr []). split; [reflexivity|left; reflexivity].
  - destruct IHHt1 as [(lv & El & Hl)|El]; [|right; rewrite El; reflexivity]. rewrite El.
    destruct IHHt2 as [(rv & Er & Hr)|Er]; [|right; rewrite Er; reflexivity]. rewrite Er.
    eapply binop_agrees; eauto.
  - destruct IHHt as [(v & E & Hv)|E]; [|right; rewrite E; reflexivity]. rewrite E.
    left. eexists; split; [reflexivity|left; reflexivity].
  - destruct IHHt as [(v & E & Hv)|E]; [|right; rewrite E; reflexivity]. rewrite E.
    left. eexists; split; [reflexivity|left; reflexivity].
  - destruct IHHt as [(v & E & Hv)|E]; [|right; rewrite E; reflexivity]. rewrite E.
    left. eexists; split; [reflexivity|left; reflexivity].
Qed.

(* ---- decimal rendering and parsing are inverse ---- *)
Local Open Scope Z_scope.

Lemma parse_digits_app a b acc : (forall x, In x a -> is_digit x = true) ->
  parse_digits (a ++ b) acc = parse_digits b (fold_left (fun z d => z * 10 + Z.of_N (d - 48)) a acc).
Proof.
  revert acc. induction a as [|x a IH]; intros acc H; cbn [app parse_digits fold_left]; [reflexivity|].
  rewrite (H x (or_introl eq_refl)). apply IH. intros y Hy. apply H. right. exact Hy.
Qed.

From Coq Require Import ZifyN ZifyNat ZifyBool.
Ltac Zify.zify_post_hook ::= Z.div_mod_to_equations.

Lemma is_digit_of n : is_digit (48 + N.modulo n 10) = true.
Proof. unfold is_digit. assert (N.modulo n 10 < 10)%N by (apply N.mod_lt; discriminate). lia. Qed.


Lemma digits_fuel_parse f : forall n acc a, (n < 10 ^ N.of_nat f)%N ->
  exists k : Z, 0 <= k /\ parse_digits (digits_fuel f n acc) a = parse_digits acc (a * 10 ^ k + Z.of_N n).
Proof.
  induction f as [|f IH]; intros n acc a Hn.
  - cbn in Hn. exists 0. split; [lia|]. cbn [digits_fuel]. assert (n = 0)%N by lia. subst. f_equal; try lia.
  - cbn [digits_fuel]. set (d := (48 + N.modulo n 10)%N). set (q := N.div n 10).
    assert (Hd : is_digit d = true) by apply is_digit_of.
    assert (Hdv : Z.of_N (d - 48) = Z.of_N n mod 10) by (unfold d; lia).
    destruct (N.eqb_spec q 0) as [Eq|Eq].
    + exists 1. split; [lia|]. cbn [parse_digits]. rewrite Hd. f_equal. unfold q in Eq. rewrite Hdv. lia.
    + assert (Hq : (q < 10 ^ N.of_nat f)%N).
      { unfold q. rewrite Nnat.Nat2N.inj_succ, N.pow_succ_r' in Hn. apply N.div_lt_upper_bound; [discriminate|]. lia. }
      destruct (IH q (d :: acc) a Hq) as (k & Hk & E). exists (k + 1). split; [lia|].
      rewrite E. cbn [parse_digits]. rewrite Hd. f_equal. rewrite Hdv, Z.pow_add_r by lia. unfold q. lia.
Qed.

Lemma digits_fuel_head f : forall n acc, f <> O -> exists d rest, digits_fuel f n acc = d :: rest /\ is_digit d = true.
Proof.
  induction f as [|f IH]; intros n acc Hf; [congruence|]. cbn [digits_fuel].
  destruct (N.eqb _ 0).
  - eexists _, _. split; [reflexivity|apply is_digit_of].
  - destruct f as [|f'].
    + cbn [digits_fuel]. eexists _, _. split; [reflexivity|apply is_digit_of].
    + apply IH. discriminate.
Qed.

Lemma log2_fuel p : (Npos p < 10 ^ N.of_nat (S (N.to_nat (N.log2 (Npos p)))))%N.
Proof.
  rewrite Nnat.Nat2N.inj_succ, Nnat.N2Nat.id.
  pose proof (N.log2_spec (Npos p) eq_refl) as [_ H].
  eapply N.lt_le_trans; [exact H|]. apply N.pow_le_mono_l. lia.
Qed.

Lemma atoi_body_pos p : exists d rest, itoa_N (Npos p) = d :: rest /\ is_digit d = true /\ parse_digits (itoa_N (Npos p)) 0 = Some (Zpos p).
Proof.
  unfold itoa_N. destruct (digits_fuel_head (S (N.to_nat (N.log2 (Npos p)))) (Npos p) [] ltac:(discriminate)) as (d & rest & E & Hd).
  exists d, rest. split; [exact E|]. split; [exact Hd|].
  destruct (digits_fuel_parse _ (Npos p) [] 0 (log2_fuel p)) as (k & Hk & Ep). rewrite Ep. cbn [parse_digits]. f_equal; try lia.
Qed.

Theorem atoi_itoa z : in_int64 z = true -> atoi (itoa_Z z) = Some z.
Proof.
  intros Hz. destruct z as [|p|p]; cbn [itoa_Z].
  - reflexivity.
  - destruct (atoi_body_pos p) as (d & rest & E & Hd & Hp). unfold atoi. rewrite E in *.
    assert (d <> 43 /\ d <> 45)%N as [H1 H2] by (unfold is_digit in Hd; lia).
    destruct d as [|dp]; [unfold is_digit in Hd; lia|].
    destruct (N.eqb_spec (Npos dp) 43); [congruence|]. destruct (N.eqb_spec (Npos dp) 45); [congruence|].
    assert (Hb : (match parse_digits (Npos dp :: rest) 0 with
                  | Some v => let z := 1 * v in if in_int64 z then Some z else None | None => None end) = Some (Zpos p)).
    { rewrite Hp. cbn zeta. replace (1 * Z.pos p) with (Z.pos p) by lia. rewrite Hz. reflexivity. }
    repeat match goal with |- context [match ?x with _ => _ end] => is_var x; destruct x end; try exact Hb; try lia.
    all: try exact Hb.
  - destruct (atoi_body_pos p) as (d & rest & E & Hd & Hp). unfold atoi. cbn [N.eqb].
    change (45%N :: itoa_N (N.pos p)) with (45%N :: itoa_N (N.pos p)).
    rewrite E in *. rewrite Hp. cbn zeta. replace (-1 * Z.pos p) with (Z.neg p) by lia. rewrite Hz. reflexivity.
Qed.
