(* C04: all / skip / take / top / last select windows of one and the same match sequence.
   Proved for an ARBITRARY attempt function (the engine run started at an offset). *)
From Model Require Import Scan.
From Coq Require Import Lia.

Section Window.
Variable attempt : nat -> nat -> nat -> outcome.
Variable text : bytes.

Notation scanW := (scan attempt text).

(* the window-independent part of one iteration *)
Inductive kind := KStop (w : sres) | KMatch (c : core) | KFail (o l k : nat).

Definition step_kind (off ln cl : nat) : kind :=
  match attempt off ln cl with
  | Crash_ w => KStop (SCrash w)
  | Fuel_ => KStop SFuel
  | Matched c =>
      if negb (Nat.eqb (length (matched (cur c))) 0) then KMatch c
      else match fail_step text off ln cl with
           | None => KStop (SCrash CrBadInstr)
           | Some (o, l, k) => KFail o l k
           end
  | NoMatch =>
      match fail_step text off ln cl with
      | None => KStop (SCrash CrBadInstr)
      | Some (o, l, k) => KFail o l k
      end
  end.

Lemma scan_iter_kind skip last off ln cl num acc :
  scan_iter attempt text skip last off ln cl num acc =
  match step_kind off ln cl with
  | KStop w => IRStop w
  | KMatch c => IRNext (pos (cur c)) (line (cur c)) (col (cur c)) (S num) (push_match skip last num off ln cl c acc)
  | KFail o l k => IRNext o l k num acc
  end.
Proof.
  unfold scan_iter, step_kind.
  destruct (attempt off ln cl) as [c| |w|]; auto.
  - destruct (negb (Nat.eqb (length (matched (cur c))) 0)); auto.
    destruct (fail_step text off ln cl) as [[[o l] k]|]; auto.
  - destruct (fail_step text off ln cl) as [[[o l] k]|]; auto.
Qed.

Definition kind_ok (off ln cl : nat) : Prop :=
  match step_kind off ln cl with KStop (SOk _) => False | _ => True end.

Lemma step_kind_stop off ln cl w : step_kind off ln cl = KStop w -> forall M, w <> SOk M.
Proof.
  unfold step_kind. intros H M.
  destruct (attempt off ln cl) as [c| |w'|].
  - destruct (negb _); [discriminate|]. destruct (fail_step text off ln cl) as [[[o l] k]|]; inversion H; discriminate.
  - destruct (fail_step text off ln cl) as [[[o l] k]|]; inversion H; discriminate.
  - inversion H; discriminate.
  - inversion H; discriminate.
Qed.

(* the match sequence from a scan state: "find all" with an empty accumulator *)
Definition trace (fuel off ln cl num : nat) : sres := scanW true 0 0 0 fuel off ln cl num [].

Lemma leb_0 n : Nat.leb 0 n = true. Proof. reflexivity. Qed.

(* accumulator-linearity of the all-scan *)
Lemma scan_all_acc fuel : forall off ln cl num acc,
  scanW true 0 0 0 fuel off ln cl num acc =
  match trace fuel off ln cl num with SOk M => SOk (acc ++ M) | e => e end.
Proof.
  unfold trace. induction fuel as [|f IH]; intros off ln cl num acc; cbn [scan]; [reflexivity|].
  cbn [orb]. rewrite !scan_iter_kind.
  destruct (step_kind off ln cl) as [w|c|o l k] eqn:K.
  - pose proof (step_kind_stop _ _ _ _ K) as Hw. destruct w; try reflexivity. exfalso; eapply Hw; reflexivity.
  - unfold push_match. rewrite leb_0. cbn [Nat.eqb app].
    destruct (Nat.leb (length text) (pos (cur c))).
    + reflexivity.
    + rewrite (IH _ _ _ _ (acc ++ [make_match (S num) off ln cl c])).
      rewrite (IH _ _ _ _ [make_match (S num) off ln cl c]).
      destruct (scan attempt text true 0 0 0 f (pos (cur c)) (line (cur c)) (col (cur c)) (S num) []); auto.
      rewrite <- app_assoc. reflexivity.
  - destruct (Nat.leb (length text) o).
    + rewrite app_nil_r. reflexivity.
    + apply IH.
Qed.

(* one unfolding of the trace *)
Lemma trace_S f off ln cl num :
  trace (S f) off ln cl num =
  match step_kind off ln cl with
  | KStop w => w
  | KMatch c =>
      if Nat.leb (length text) (pos (cur c)) then SOk [make_match (S num) off ln cl c]
      else match trace f (pos (cur c)) (line (cur c)) (col (cur c)) (S num) with
           | SOk M => SOk (make_match (S num) off ln cl c :: M)
           | e => e
           end
  | KFail o l k => if Nat.leb (length text) o then SOk [] else trace f o l k num
  end.
Proof.
  unfold trace at 1. cbn [scan orb]. rewrite scan_iter_kind.
  destruct (step_kind off ln cl) as [w|c|o l k]; auto.
  unfold push_match. rewrite leb_0. cbn [Nat.eqb app].
  destruct (Nat.leb (length text) (pos (cur c))); auto.
  rewrite scan_all_acc. reflexivity.
Qed.

(* matches are numbered consecutively *)
Lemma trace_nums fuel : forall off ln cl num M,
  trace fuel off ln cl num = SOk M -> map mnum M = seq (S num) (length M).
Proof.
  induction fuel as [|f IH]; intros off ln cl num M H; [discriminate|].
  rewrite trace_S in H. destruct (step_kind off ln cl) as [w|c|o l k] eqn:K.
  - exfalso. eapply step_kind_stop; eauto.
  - destruct (Nat.leb (length text) (pos (cur c))).
    + inversion H; subst. reflexivity.
    + destruct (trace f (pos (cur c)) (line (cur c)) (col (cur c)) (S num)) as [M'| |] eqn:T; try discriminate.
      inversion H; subst. cbn [map length seq mnum make_match]. f_equal. eapply IH; eauto.
  - destruct (Nat.leb (length text) o).
    + inversion H; subst. reflexivity.
    + eapply IH; eauto.
Qed.

Lemma trace_nums_gt fuel off ln cl num M :
  trace fuel off ln cl num = SOk M -> Forall (fun m => num < mnum m) M.
Proof.
  intros H. apply trace_nums in H. apply Forall_forall. intros m Hm.
  apply (in_map mnum) in Hm. rewrite H in Hm. apply in_seq in Hm. lia.
Qed.

(* ---- skip s (all = true) ---- *)
Lemma scan_skip fuel s : forall off ln cl num acc,
  scanW true s 0 0 fuel off ln cl num acc =
  match trace fuel off ln cl num with
  | SOk M => SOk (acc ++ filter (fun m => Nat.ltb s (mnum m)) M)
  | e => e end.
Proof.
  induction fuel as [|f IH]; intros off ln cl num acc; [reflexivity|].
  rewrite trace_S. cbn [scan orb]. rewrite scan_iter_kind.
  destruct (step_kind off ln cl) as [w|c|o l k] eqn:K.
  - pose proof (step_kind_stop _ _ _ _ K) as Hw. destruct w; try reflexivity. exfalso; eapply Hw; reflexivity.
  - unfold push_match. cbn [Nat.eqb].
    assert (E : Nat.ltb s (S num) = Nat.leb s num).
    { destruct (Nat.ltb_spec s (S num)), (Nat.leb_spec s num); auto; lia. }
    destruct (Nat.leb (length text) (pos (cur c))).
    + cbn [filter mnum make_match]. rewrite E. destruct (Nat.leb s num); [reflexivity | rewrite app_nil_r; reflexivity].
    + rewrite IH.
      destruct (trace f (pos (cur c)) (line (cur c)) (col (cur c)) (S num)) as [M'| |]; auto.
      cbn [filter mnum make_match]. rewrite E. destruct (Nat.leb s num); [rewrite <- app_assoc|]; reflexivity.
  - destruct (Nat.leb (length text) o).
    + rewrite app_nil_r. reflexivity.
    + apply IH.
Qed.

(* ---- skip s take t (all = false) ---- *)
Lemma filter_none {A} (p : A -> bool) l : Forall (fun x => p x = false) l -> filter p l = [].
Proof. induction 1 as [|x l Hx _ IH]; simpl; [reflexivity|]. rewrite Hx. exact IH. Qed.

Lemma scan_take fuel s t : forall off ln cl num acc M,
  trace fuel off ln cl num = SOk M ->
  scanW false s t 0 fuel off ln cl num acc =
  SOk (acc ++ filter (fun m => Nat.ltb s (mnum m) && Nat.leb (mnum m) (s + t)) M).
Proof.
  induction fuel as [|f IH]; intros off ln cl num acc M H; [discriminate|].
  pose proof (trace_nums_gt _ _ _ _ _ _ H) as Hgt.
  rewrite trace_S in H. cbn [scan orb].
  destruct (Nat.ltb_spec num (s + t)) as [Hlt|Hge].
  2:{ rewrite filter_none; [rewrite app_nil_r; reflexivity|].
      eapply Forall_impl; [|exact Hgt]. intros m Hm. cbn beta in *.
      destruct (Nat.leb_spec (mnum m) (s + t)); [lia|]. apply andb_false_r. }
  rewrite scan_iter_kind.
  destruct (step_kind off ln cl) as [w|c|o l k] eqn:K.
  - exfalso. eapply step_kind_stop; eauto.
  - unfold push_match. cbn [Nat.eqb].
    assert (E : (Nat.ltb s (S num) && Nat.leb (S num) (s + t))%bool = Nat.leb s num).
    { destruct (Nat.ltb_spec s (S num)), (Nat.leb_spec s num), (Nat.leb_spec (S num) (s + t)); auto; lia. }
    destruct (Nat.leb (length text) (pos (cur c))).
    + inversion H; subst. cbn [filter mnum make_match]. rewrite E.
      destruct (Nat.leb s num); [reflexivity | rewrite app_nil_r; reflexivity].
    + destruct (trace f (pos (cur c)) (line (cur c)) (col (cur c)) (S num)) as [M'| |] eqn:T; try discriminate.
      inversion H; subst. rewrite (IH _ _ _ _ _ M' T).
      cbn [filter mnum make_match]. rewrite E. destruct (Nat.leb s num); [rewrite <- app_assoc|]; reflexivity.
  - destruct (Nat.leb (length text) o).
    + inversion H; subst. rewrite app_nil_r. reflexivity.
    + apply IH. exact H.
Qed.

(* ---- last n (all = true, n >= 1) ---- *)
Lemma skipn_app_exact {A} (l1 l2 : list A) j : skipn (length l1 + j) (l1 ++ l2) = skipn j l2.
Proof. induction l1 as [|x l1 IH]; simpl; auto. Qed.

Lemma limit_app_limit {A} n (a b : list A) : limit n (limit n a ++ b) = limit n (a ++ b).
Proof.
  unfold limit.
  destruct (Nat.le_gt_cases (length a) n) as [Hle|Hgt].
  - replace (length a - n) with 0 by lia. reflexivity.
  - set (k := length a - n).
    assert (E : length (a ++ b) - n = length (firstn k a) + length b).
    { rewrite app_length, firstn_length. unfold k. lia. }
    rewrite E.
    replace (a ++ b) with (firstn k a ++ (skipn k a ++ b)) by (rewrite app_assoc, firstn_skipn; reflexivity).
    rewrite skipn_app_exact.
    rewrite app_length, skipn_length.
    replace (length a - k + length b - n) with (length b) by (unfold k; lia).
    reflexivity.
Qed.

Lemma limit_short {A} n (a : list A) : length a <= n -> limit n a = a.
Proof. intros H. unfold limit. replace (length a - n) with 0 by lia. reflexivity. Qed.

(* last n, n >= 1: the accumulator always holds the last n matches seen *)
Lemma scan_last fuel n : 1 <= n -> forall off ln cl num acc,
  scanW true 0 0 n fuel off ln cl num acc =
  match trace fuel off ln cl num with
  | SOk M => SOk (match M with [] => acc | _ => limit n (acc ++ M) end)
  | e => e end.
Proof.
  intros Hn. induction fuel as [|f IH]; intros off ln cl num acc; [reflexivity|].
  rewrite trace_S. cbn [scan orb]. rewrite scan_iter_kind.
  assert (En : Nat.eqb n 0 = false) by (destruct n; [lia|reflexivity]).
  destruct (step_kind off ln cl) as [w|c|o l k] eqn:K.
  - pose proof (step_kind_stop _ _ _ _ K) as Hw. destruct w; try reflexivity. exfalso; eapply Hw; reflexivity.
  - unfold push_match. rewrite leb_0, En.
    destruct (Nat.leb (length text) (pos (cur c))).
    + reflexivity.
    + rewrite IH.
      destruct (trace f (pos (cur c)) (line (cur c)) (col (cur c)) (S num)) as [M'| |]; auto.
      f_equal. destruct M' as [|m' M'].
      * reflexivity.
      * rewrite limit_app_limit, <- app_assoc. reflexivity.
  - destruct (Nat.leb (length text) o).
    + reflexivity.
    + apply IH.
Qed.

(* ---- from number filters to list windows ---- *)
Lemma filter_gt_seq {A} (f : A -> nat) s : forall (l : list A) k,
  map f l = seq (S k) (length l) ->
  filter (fun x => Nat.ltb s (f x)) l = skipn (s - k) l.
Proof.
  induction l as [|x l IH]; intros k H.
  - destruct (s - k); reflexivity.
  - cbn [map length seq] in H. injection H as Hx Hl. cbn [filter]. rewrite Hx.
    destruct (Nat.ltb_spec s (S k)) as [Hlt|Hge].
    + replace (s - k) with 0 by lia. cbn [skipn]. f_equal.
      rewrite (IH (S k) Hl). replace (s - S k) with 0 by lia. reflexivity.
    + rewrite (IH (S k) Hl). replace (s - k) with (S (s - S k)) by lia. reflexivity.
Qed.

Lemma filter_le_seq {A} (f : A -> nat) u : forall (l : list A) k,
  map f l = seq (S k) (length l) ->
  filter (fun x => Nat.leb (f x) u) l = firstn (u - k) l.
Proof.
  induction l as [|x l IH]; intros k H.
  - destruct (u - k); reflexivity.
  - cbn [map length seq] in H. injection H as Hx Hl. cbn [filter]. rewrite Hx.
    destruct (Nat.leb_spec (S k) u) as [Hle|Hgt].
    + replace (u - k) with (S (u - S k)) by lia. cbn [firstn]. f_equal. apply IH. exact Hl.
    + replace (u - k) with 0 by lia. cbn [firstn].
      rewrite (IH (S k) Hl). replace (u - S k) with 0 by lia. reflexivity.
Qed.

Lemma map_skipn_seq {A} (f : A -> nat) : forall j (l : list A) k,
  map f l = seq (S k) (length l) -> map f (skipn j l) = seq (S (k + j)) (length (skipn j l)).
Proof.
  induction j as [|j IH]; intros l k H.
  - cbn [skipn]. rewrite Nat.add_0_r. exact H.
  - destruct l as [|x l]; [reflexivity|]. cbn [skipn]. cbn [map length seq] in H. injection H as Hx Hl.
    rewrite (IH l (S k) Hl). f_equal. lia.
Qed.

Lemma filter_and {A} (p q : A -> bool) l : filter (fun x => p x && q x) l = filter q (filter p l).
Proof.
  induction l as [|x l IH]; simpl; auto. destruct (p x); simpl; [destruct (q x); simpl; congruence|exact IH].
Qed.

Lemma filter_window_seq {A} (f : A -> nat) s t (l : list A) :
  map f l = seq 1 (length l) ->
  filter (fun x => Nat.ltb s (f x) && Nat.leb (f x) (s + t)) l = firstn t (skipn s l).
Proof.
  intros H. rewrite (filter_and (fun x => Nat.ltb s (f x)) (fun x => Nat.leb (f x) (s + t))).
  rewrite (filter_gt_seq f s l 0 H). rewrite Nat.sub_0_r.
  pose proof (map_skipn_seq f s l 0 H) as H2. cbn [Nat.add] in H2.
  rewrite (filter_le_seq f (s + t) (skipn s l) s H2). f_equal. lia.
Qed.

(* ---- the window theorems: A = matches of `find all B` ---- *)
Definition find_with (all : bool) (skip take last : nat) : sres :=
  scanW all skip take last (S (length text)) 0 1 1 0 [].

Theorem window_take A n : find_with true 0 0 0 = SOk A -> find_with false 0 n 0 = SOk (firstn n A).
Proof.
  unfold find_with. intros H. rewrite (scan_take _ 0 n _ _ _ _ [] A H). cbn [app].
  rewrite (filter_window_seq mnum 0 n A (trace_nums _ _ _ _ _ _ H)). reflexivity.
Qed.

Theorem window_skip A s : find_with true 0 0 0 = SOk A -> find_with true s 0 0 = SOk (skipn s A).
Proof.
  unfold find_with. intros H. rewrite scan_skip. fold (trace (S (length text)) 0 1 1 0) in H. rewrite H. cbn [app].
  rewrite (filter_gt_seq mnum s A 0 (trace_nums _ _ _ _ _ _ H)), Nat.sub_0_r. reflexivity.
Qed.

Theorem window_skip_take A s t :
  find_with true 0 0 0 = SOk A -> find_with false s t 0 = SOk (firstn t (skipn s A)).
Proof.
  unfold find_with. intros H. rewrite (scan_take _ s t _ _ _ _ [] A H). cbn [app].
  rewrite (filter_window_seq mnum s t A (trace_nums _ _ _ _ _ _ H)). reflexivity.
Qed.

Theorem window_last A n : 1 <= n ->
  find_with true 0 0 0 = SOk A -> find_with true 0 0 n = SOk (skipn (length A - n) A).
Proof.
  unfold find_with. intros Hn H. rewrite (scan_last _ n Hn). fold (trace (S (length text)) 0 1 1 0) in H. rewrite H.
  destruct A; reflexivity.
Qed.

(* every element of a window is an element of A unchanged (including its MatchNumber): the windows
   above are sublists of A itself *)

End Window.

From Model Require Import Engine.

Theorem C04_windows :
  forall (attempt : nat -> nat -> nat -> outcome) (text : bytes) (A : list mrec),
    find_with attempt text true 0 0 0 = SOk A ->
    (forall n, find_with attempt text false 0 n 0 = SOk (firstn n A)) /\
    (forall s, find_with attempt text true s 0 0 = SOk (skipn s A)) /\
    (forall s t, find_with attempt text false s t 0 = SOk (firstn t (skipn s A))) /\
    (forall n, 1 <= n -> find_with attempt text true 0 0 n = SOk (skipn (length A - n) A)).
Proof.
  intros attempt text A H. repeat split; intros.
  - apply window_take; exact H.
  - apply window_skip; exact H.
  - apply window_skip_take; exact H.
  - apply window_last; assumption.
Qed.

Lemma find_matches_find_with fuel prog text all sk tk la :
  find_matches fuel prog text all sk tk la =
  if Nat.eqb (length text) 0 then SOk []
  else if Nat.eqb (length prog) 0 then SOk []
  else find_with (attempt fuel prog text) text all sk tk la.
Proof. reflexivity. Qed.

Theorem C04_find_matches_lemma :
  forall (fuel : nat) (prog : list instr) (text : bytes) (A : list mrec),
    find_matches fuel prog text true 0 0 0 = SOk A ->
    (forall n, find_matches fuel prog text false 0 n 0 = SOk (firstn n A)) /\
    (forall s, find_matches fuel prog text true s 0 0 = SOk (skipn s A)) /\
    (forall s t, find_matches fuel prog text false s t 0 = SOk (firstn t (skipn s A))) /\
    (forall n, 1 <= n -> find_matches fuel prog text true 0 0 n = SOk (skipn (length A - n) A)).
Proof.
  intros fuel prog text A H.
  assert (E : forall all sk tk la, find_matches fuel prog text all sk tk la =
            if (Nat.eqb (length text) 0 || Nat.eqb (length prog) 0)%bool then SOk []
            else find_with (attempt fuel prog text) text all sk tk la).
  { intros. rewrite find_matches_find_with. destruct (Nat.eqb (length text) 0); reflexivity. }
  rewrite E in H.
  destruct (Nat.eqb (length text) 0 || Nat.eqb (length prog) 0)%bool eqn:Z.
  - inversion H; subst. repeat split; intros; rewrite E; rewrite ?Z; rewrite ?skipn_nil, ?firstn_nil; reflexivity.
  - destruct (C04_windows _ _ _ H) as (H1 & H2 & H3 & H4).
    repeat split; intros; rewrite E; rewrite ?Z; auto.
Qed.

Theorem C04_replace_lemma :
  forall fuel fname text all sk tk la body replacer,
    run_find fuel fname text (BReplace all sk tk la body replacer) =
    match find_matches fuel body text all sk tk la with
    | SOk W => match replace_all fname (length W) replacer W with
               | Ok W' => ROk W' | Crash w => RCrash w | OutOfFuel => RFuel end
    | SCrash w => RCrash w
    | SFuel => RFuel
    end.
Proof. reflexivity. Qed.

(* The windows fit together: `top n` and `skip n` split the one sequence between them, a
   `skip s take t` window is what `top t` would select from the `skip s` window, a window never
   selects more than it was asked for, and a clause that asks for at least everything returns
   everything. *)
Theorem C04_windows_compose_lemma :
  forall (fuel : nat) (prog : list instr) (text : bytes) (A : list mrec),
    find_matches fuel prog text true 0 0 0 = SOk A ->
    (forall n, exists T S,
        find_matches fuel prog text false 0 n 0 = SOk T /\
        find_matches fuel prog text true n 0 0 = SOk S /\
        T ++ S = A /\ length T = Nat.min n (length A)) /\
    (forall s t, exists S W,
        find_matches fuel prog text true s 0 0 = SOk S /\
        find_matches fuel prog text false s t 0 = SOk W /\
        W = firstn t S /\ length W = Nat.min t (length A - s)) /\
    (forall n, length A <= n ->
        find_matches fuel prog text false 0 n 0 = SOk A /\
        (1 <= n -> find_matches fuel prog text true 0 0 n = SOk A)) /\
    (forall n, 1 <= n -> exists L,
        find_matches fuel prog text true 0 0 n = SOk L /\
        find_matches fuel prog text true (length A - n) 0 0 = SOk L /\
        length L = Nat.min n (length A)).
Proof.
  intros fuel prog text A H.
  destruct (C04_find_matches_lemma _ _ _ _ H) as (H1 & H2 & H3 & H4).
  repeat split.
  - intro n. exists (firstn n A), (skipn n A). repeat split; auto.
    + apply firstn_skipn.
    + apply firstn_length.
  - intros s t. exists (skipn s A), (firstn t (skipn s A)). repeat split; auto.
    rewrite firstn_length, skipn_length. reflexivity.
  - rewrite H1. rewrite firstn_all2 by assumption. reflexivity.
  - intro Hn. rewrite (H4 _ Hn). replace (length A - n) with 0 by lia. reflexivity.
  - intros n Hn. exists (skipn (length A - n) A). repeat split; auto.
    rewrite skipn_length. lia.
Qed.
