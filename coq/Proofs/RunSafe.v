(* C09 for whole programs: Run never crashes on a program Compile accepts, unless its process code
   (predicates, transforms) does.  Links the generator's two views (gen_program = resolve_program + compile),
   then runs every command: the search by SafeCode / ResolveWf, the replacer by inspection. *)
From Model Require Import Engine Front.
From Spec Require Import Sem FindSpec.
From Proofs Require Import Refine ResolveOk SafeCode ResolveWf ParseListsOk ParseSizesOk FrontTotal.
From Coq Require Import Lia.

(* transforms do not crash, whatever environment they are given *)
Definition trans_safe (body : pstmts) : Prop := forall env w, run_program proc_fuel body (init_pstate env) <> Crash w.

Fixpoint procs_ok_c (c : command) : Prop :=
  match c with
  | CSetPattern _ _ pred => pred_safe pred
  | CSetTransform _ body => trans_safe body
  | CSetMatches _ c' => procs_ok_c c'
  | _ => True
  end.

Lemma procs_preds c : procs_ok_c c -> preds_ok_c c.
Proof. induction c; cbn; auto. Qed.

Definition gt_ok (g : gstate) : Prop := forall n p, alookup (gtrans g) n = Some p -> trans_safe p.

(* a command's code: the compiled resolved pattern; its replacer calls stored transforms only *)
Inductive code_of : bcommand -> option rx -> Prop :=
| co_find all sk tk la r : code_of (BFind all sk tk la (compile r 0)) (Some r)
| co_replace all sk tk la r rep : Forall (fun i => match i with RProcess p => trans_safe p | _ => True end) rep ->
    code_of (BReplace all sk tk la (compile r 0) rep) (Some r)
| co_other bc : (match bc with BFind _ _ _ _ _ | BReplace _ _ _ _ _ _ => False | _ => True end) -> code_of bc None.

Lemma gen_atoms_safe g res : gt_ok g -> Forall (fun i => match i with RProcess p => trans_safe p | _ => True end) (map (fun a => gen_atom a g) res).
Proof.
  intros Hg. induction res as [|a res IH]; cbn [map]; constructor; auto.
  destruct a as [nt cl v|n]; cbn [gen_atom]; [exact I|]. destruct (alookup (gtrans g) n) eqn:E; [eapply Hg; eauto|exact I].
Qed.

Lemma resolve_keeps_trans :
  (forall l off g r g', resolve_lit l off g = GOk (r, g') -> gtrans g' = gtrans g) /\
  (forall e off g r g', resolve_expr e off g = GOk (r, g') -> gtrans g' = gtrans g) /\
  (forall es off g r g', resolve_exprs es off g = GOk (r, g') -> gtrans g' = gtrans g).
Proof.
  apply ast_mut.
  - (* ELoop *)
    intros mn mx fw nm body IH off g r g' H. cbn [resolve_expr] in H.
    set (entry := gvars g) in *.
    set (tail := fun (cur : nat) (g1 : gstate) =>
        if (Nat.eqb (length nm) 0 && Z.eqb (Z.of_nat mn) mx)%bool then GOk (XEps, g1)
        else gbind (resolve_expr body (cur + 1) (set_vars g1 entry)) (fun '(c, g2) =>
               let newmin := if (Nat.eqb (length nm) 0 && Nat.ltb 0 mn)%bool then 0 else mn in
               let newmax := if (Nat.eqb (length nm) 0 && Z.ltb 0 mx)%bool then (mx - Z.of_nat mn)%Z else mx in
               let id := gnext g2 in
               GOk (XLoop id newmin newmax fw nm c, {| gvars := gvars g2; gsubs := gsubs g2; gtrans := gtrans g2; gnext := S id |}))) in *.
    assert (Htail : forall cur g1 r1 g1', tail cur g1 = GOk (r1, g1') -> gtrans g1' = gtrans g1).
    { intros cur g1 r1 g1' Ht. unfold tail in Ht. destruct (Nat.eqb (length nm) 0 && Z.eqb (Z.of_nat mn) mx)%bool; [inversion Ht; reflexivity|].
      destruct (resolve_expr body (cur + 1) (set_vars g1 entry)) as [[c g2]|] eqn:E; [|discriminate]. cbn [gbind] in Ht. inversion Ht; subst. cbn [gtrans].
      apply IH in E. exact E. }
    assert (Hun : forall k cur g1 r1 g1',
              (fix unroll (k : nat) (cur : nat) (g : gstate) (tail : nat -> gstate -> gres (rx * gstate)) : gres (rx * gstate) :=
                 match k with
                 | O => tail cur g
                 | S k' => gbind (resolve_expr body cur (set_vars g entry)) (fun '(c, g1) =>
                           gbind (unroll k' (cur + rx_len c) g1 tail) (fun '(rest, g2) => GOk (XSeq c rest, g2)))
                 end) k cur g1 tail = GOk (r1, g1') -> gtrans g1' = gtrans g1).
    { induction k as [|k IHk]; intros cur g1 r1 g1' Hu; [eapply Htail; eauto|].
      destruct (resolve_expr body cur (set_vars g1 entry)) as [[c g2]|] eqn:E; [|discriminate]. cbn [gbind] in Hu.
      match type of Hu with gbind ?x _ = _ => destruct x as [[rest g3]|] eqn:E2; [|discriminate] end. cbn [gbind] in Hu. inversion Hu; subst.
      apply IH in E. apply IHk in E2. cbn in E. congruence. }
    destruct (Nat.eqb (length nm) 0); [eapply Hun; eauto|eapply Htail; eauto].
  - intros l IHl r IHr off g rx g' H. cbn [resolve_expr] in H.
    destruct (resolve_lit l (off + 1) g) as [[a g1]|] eqn:E1; [|discriminate]. cbn [gbind] in H.
    destruct (resolve_expr r _ g1) as [[b g2]|] eqn:E2; [|discriminate]. cbn [gbind] in H. inversion H; subst.
    apply IHl in E1. apply IHr in E2. congruence.
  - intros n l IHl off g rx g' H. cbn [resolve_expr] in H.
    destruct (resolve_lit l (off + 1) g) as [[b g1]|] eqn:E1; [|discriminate]. cbn [gbind] in H.
    destruct (alookup (gvars g1) n); [discriminate|]. inversion H; subst. apply IHl in E1. exact E1.
  - intros n body IH off g rx g' H. cbn [resolve_expr] in H. destruct (alookup (gvars g) n); [discriminate|].
    match type of H with gbind ?x _ = _ => destruct x as [[b g1]|] eqn:E1; [|discriminate] end. cbn [gbind] in H. inversion H; subst. apply IH in E1. exact E1.
  - intros nt items off g rx g' H. cbn in H. inversion H; reflexivity.
  - intros l IHl off g rx g' H. cbn [resolve_expr] in H. eapply IHl; eauto.
  - intros nt cl v off g r g' H. cbn in H. inversion H; reflexivity.
  - intros body IH off g r g' H. cbn in H. eapply IH; eauto.
  - intros n off g r g' H. cbn [resolve_lit] in H. destruct (alookup (gvars g) n) as [[|pc]|]; [inversion H; reflexivity|inversion H; reflexivity|].
    destruct (alookup (gsubs g) n) as [[b0 v]|]; [|discriminate]. inversion H; reflexivity.
  - intros nt c off g r g' H. cbn in H. inversion H; reflexivity.
  - intros off g rx g' H. cbn in H. inversion H; reflexivity.
  - intros e IHe r IHr off g rx g' H. cbn [resolve_exprs] in H.
    destruct (resolve_expr e off g) as [[a g1]|] eqn:E1; [|discriminate]. cbn [gbind] in H.
    destruct (resolve_exprs r _ g1) as [[b g2]|] eqn:E2; [|discriminate]. cbn [gbind] in H. inversion H; subst.
    apply IHe in E1. apply IHr in E2. congruence.
Qed.

(* the generator's two views agree *)
Lemma gen_command_resolve : forall c g bc g', procs_ok_c c -> gt_ok g -> gen_command c g = GOk (bc, g') ->
  exists x, resolve_command c g = GOk (x, g') /\ code_of bc x /\ gt_ok g'.
Proof.
  induction c as [all sk tk la body|all sk tk la body res|id pat pred|id body|id c IH]; intros g bc g' Hp Hg H; cbn [gen_command resolve_command procs_ok_c] in *; unfold gen_exprs in *.
  - destruct (resolve_exprs body 0 (fresh_vars g)) as [[r g1]|] eqn:E; [|discriminate]. cbn [gbind] in *. inversion H; subst.
    exists (Some r). split; [reflexivity|]. split; [constructor|]. intros n p Hn. rewrite (proj2 (proj2 resolve_keeps_trans) _ _ _ _ _ E) in Hn. eapply Hg; eauto.
  - destruct (resolve_exprs body 0 (fresh_vars g)) as [[r g1]|] eqn:E; [|discriminate]. cbn [gbind] in *. inversion H; subst.
    assert (Hg1 : gt_ok g') by (intros n p Hn; rewrite (proj2 (proj2 resolve_keeps_trans) _ _ _ _ _ E) in Hn; eapply Hg; eauto).
    exists (Some r). split; [reflexivity|]. split; [constructor; apply gen_atoms_safe; exact Hg1|exact Hg1].
  - destruct (resolve_exprs pat 0 (fresh_vars g)) as [[r g1]|] eqn:E; [|discriminate]. cbn [gbind] in *.
    destruct (check_ok CtxPredicate pred); [discriminate|]. inversion H; subst.
    exists None. split; [reflexivity|]. split; [constructor; exact I|]. intros n p Hn. cbn [gtrans] in Hn. rewrite (proj2 (proj2 resolve_keeps_trans) _ _ _ _ _ E) in Hn. eapply Hg; eauto.
  - destruct (check_ok CtxTransform body); [discriminate|]. inversion H; subst.
    exists None. split; [reflexivity|]. split; [constructor; exact I|]. intros n p Hn. cbn [gtrans] in Hn.
    apply alookup_aset_cases in Hn. destruct Hn as [->|Hn]; [exact Hp|eapply Hg; eauto].
  - destruct (gen_command c (fresh_vars g)) as [[bc1 g1]|] eqn:E; [|discriminate]. cbn [gbind] in H. inversion H; subst.
    destruct (IH (fresh_vars g) bc1 g' Hp (fun n p Hn => Hg n p Hn) E) as (x & Hr & _ & Hg1).
    exists None. rewrite Hr. cbn [gbind]. split; [reflexivity|]. split; [constructor; exact I|exact Hg1].
Qed.

Lemma gen_program_resolve : forall cs g bcs, Forall procs_ok_c cs -> gt_ok g -> gen_program cs g = GOk bcs ->
  exists xs, resolve_program cs g = GOk xs /\ Forall2 code_of bcs xs.
Proof.
  induction cs as [|c cs IH]; intros g bcs Hp Hg H; cbn [gen_program resolve_program] in *.
  - inversion H; subst. exists []. split; [reflexivity|constructor].
  - inversion Hp; subst. destruct (gen_command c g) as [[bc g1]|] eqn:E; [|discriminate]. cbn [gbind] in H.
    destruct (gen_program cs g1) as [bcs'|] eqn:E2; [|discriminate]. cbn [gbind] in H. inversion H; subst.
    destruct (gen_command_resolve c g bc g1) as (x & Hr & Hc & Hg1); auto.
    destruct (IH g1 bcs') as (xs & Hrs & Hcs); auto.
    exists (x :: xs). rewrite Hr. cbn [gbind]. rewrite Hrs. cbn [gbind]. split; [reflexivity|constructor; assumption].
Qed.

(* ---- running ---- *)
Lemma exec_replacer_safe vars m rep : Forall (fun i => match i with RProcess p => trans_safe p | _ => True end) rep ->
  forall r w, exec_replacer vars m r rep <> Crash w.
Proof.
  induction 1 as [|i rep Hi _ IH]; intros r w; cbn [exec_replacer]; [discriminate|].
  destruct i as [s|n|p]; cbn [exec_rinstr].
  - apply IH.
  - destruct (alookup vars n) as [[s|mp]|]; apply IH.
  - pose proof (Hi (transform_env vars m)) as Hs. destruct (run_program proc_fuel p _) as [v|c|]; [apply IH|exfalso; exact (Hs c eq_refl)|discriminate].
Qed.

Lemma replace_all_safe fn total rep : Forall (fun i => match i with RProcess p => trans_safe p | _ => True end) rep ->
  forall ms w, replace_all fn total rep ms <> Crash w.
Proof.
  intros Hr. induction ms as [|m ms IH]; intros w; cbn [replace_all]; [discriminate|].
  unfold replace_match. pose proof (exec_replacer_safe (replacer_vars fn total m) m rep Hr None) as Hs.
  destruct (exec_replacer _ m None rep) as [r|c|]; [|exfalso; exact (Hs c eq_refl)|discriminate].
  specialize (IH w). destruct (replace_all fn total rep ms); [discriminate|exact IH|discriminate].
Qed.

Lemma run_find_safe fuel fn text bc x : code_of bc x -> (match x with Some r => wf (defs_of r) r | None => True end) ->
  forall w, run_find fuel fn text bc <> RCrash w.
Proof.
  intros Hc Hw w. destruct Hc as [all sk tk la r|all sk tk la r rep Hrep|bc Hbc]; cbn [run_find].
  - pose proof (find_never_crashes_lemma r text fuel all sk tk la) as Hf. destruct (find_matches _ _ _ _ _ _ _) as [ms|c|]; [discriminate|exfalso; exact (Hf c Hw eq_refl)|discriminate].
  - pose proof (find_never_crashes_lemma r text fuel all sk tk la) as Hf. destruct (find_matches _ _ _ _ _ _ _) as [ms|c|]; [|exfalso; exact (Hf c Hw eq_refl)|discriminate].
    pose proof (replace_all_safe fn (length ms) rep Hrep ms) as Hs. destruct (replace_all _ _ _ ms) as [r'|c|]; [discriminate|exfalso; exact (Hs c eq_refl)|discriminate].
  - destruct bc; try discriminate; contradiction.
Qed.

Lemma run_commands_safe fuel text : forall bcs xs, Forall2 code_of bcs xs ->
  Forall (fun x => match x with Some r => wf (defs_of r) r | None => True end) xs -> forall w, run_commands fuel text bcs <> RCrash w.
Proof.
  induction 1 as [|bc x bcs xs Hc _ IH]; intros Hw w; cbn [run_commands]; [discriminate|].
  inversion Hw; subst. pose proof (run_find_safe fuel text_name text bc x Hc ltac:(assumption)) as Hf.
  destruct (run_find fuel text_name text bc) as [ms|c|]; [|exfalso; exact (Hf c eq_refl)|discriminate].
  specialize (IH ltac:(assumption) w). destruct (run_commands fuel text bcs); [discriminate|exact IH|discriminate].
Qed.

(* C09, whole programs: every crash of Run comes from process code *)
Theorem run_never_crashes_lemma src cs bcs :
  parse_source src = FOk cs -> Forall procs_ok_c cs -> compile_ast cs = GOk bcs ->
  forall fuel text w, run_commands fuel text bcs <> RCrash w.
Proof.
  intros Hp Hpr Hc fuel text w. unfold compile_ast in Hc.
  destruct (gen_program_resolve cs init_gstate bcs Hpr (fun n p H => ltac:(discriminate)) Hc) as (xs & Hr & Hcode).
  destruct (no_partial_tree_lemma src cs Hp) as (ts & _ & Hts).
  apply (run_commands_safe fuel text bcs xs Hcode).
  apply (resolve_program_wf_lemma cs init_gstate xs); auto.
  - exact (parse_lists_ok_lemma ts cs Hts).
  - exact (parse_sizes_ok_lemma ts cs Hts).
  - eapply Forall_impl; [|exact Hpr]. intros c. apply procs_preds.
  - exact init_gs2_ok.
Qed.
