(* C14: the regex sub-parser reads every regular expression of the supported subset as the pattern
   tree that expression denotes (parse after print = translate), with groups numbered by their
   opening parenthesis. *)
From Model Require Import Parser.
From Spec Require Import RegexSpec.
From Proofs Require Import StringLit RegexTotal.
From Coq Require Import Lia ZifyBool ZifyN.
Local Open Scope N_scope.

Definition lit_follow (rest : list N) : Prop :=
  match rest with [] => True | c :: _ => existsb (N.eqb c) [42; 43; 63; 123] = false end.
Definition pat_follow (rest : list N) : Prop :=
  match rest with [] => True | c :: _ => existsb (N.eqb c) [42; 43; 63; 123; 124] = false end.
Definition dis_follow (rest : list N) : Prop :=
  match rest with [] => True | c :: _ => c = 41 end.

Lemma trip4 {A B C} (a a' : A) (b b' : B) (c c' : C) : a = a' -> b = b' -> c = c' -> POk (a, b, c) = POk (a', b', c').
Proof. intros -> -> ->. reflexivity. Qed.

Lemma pok2 {A} (a : A) (b b' : nat) : b = b' -> POk (a, b) = POk (a, b').
Proof. intros ->. reflexivity. Qed.

Lemma rgroup_S (r : bytes) f i g : rgroup r (S f) i g =
  match Parser.rc r i with
  | None => PErr
  | Some c =>
      if N.eqb c 63 then
        match Parser.rc r (S i) with
        | None => PErr
        | Some marker =>
            if N.eqb marker 58 then
              do (es, j, g1) <- rdisj r f (S (S i)) g;
              if rc_is r j 41 then POk (LSubExpr es, S j, g1) else PErr
            else if N.eqb marker 61 then PErr
            else if N.eqb marker 33 then PErr
            else if N.eqb marker 60 then
              match Parser.rc r (S (S i)) with
              | None => PErr
              | Some a =>
                  if N.eqb a 61 then PErr else if N.eqb a 33 then PErr
                  else let '(id, j) := rident r (S (Parser.rlen r)) (S (S i)) [] in
                       if negb (rc_is r j 62) then PErr
                       else do (es, k, g1) <- rdisj r f (S j) g;
                            if rc_is r k 41 then POk (LSubExpr (ECons (EDec id (LSubExpr es)) ENil), S k, g1) else PErr
              end
            else PErr
        end
      else
        let gn := S g in
        do (es, j, g1) <- rdisj r f i gn;
        if rc_is r j 41 then POk (LSubExpr (ECons (EDec (underscore :: itoa_bytes gn) (LSubExpr es)) ENil), S j, g1) else PErr
  end.
Proof. reflexivity. Qed.

Lemma rliteral_S (r : bytes) f i g : rliteral r (S f) i g =
  match Parser.rc r i with
  | None => PErr
  | Some c =>
      if N.eqb c 94 then POk (EPrim (LClass false CLineStart), S i, g)
      else if N.eqb c 36 then POk (EPrim (LClass false CLineEnd), S i, g)
      else if N.eqb c 92 then do (l, j) <- resc r (S i); with_quant r (EPrim l) j g
      else if N.eqb c 40 then do (l, j, g1) <- rgroup r f (S i) g; with_quant r (EPrim l) j g1
      else if N.eqb c 91 then do (e, j) <- rclass r (S i); with_quant r e j g
      else if N.eqb c 46 then with_quant r (EPrim (LStr true false [10%N])) (S i) g
      else with_quant r (EPrim (LStr false false (encode_rune c))) (S i) g
  end.
Proof. reflexivity. Qed.

Lemma rpattern_S (r : bytes) f i g : rpattern r (S f) i g =
  do (start, j, g1) <- rliteral r f i g;
  if rc_is r j 124
  then do (e, k, g2) <- rpattern r f (S j) g1; POk (EBranch (LSubExpr (ECons start ENil)) e, k, g2)
  else POk (start, j, g1).
Proof. reflexivity. Qed.

Lemma rdisj_S (r : bytes) f i g : rdisj r (S f) i g =
  match Parser.rc r i with
  | None => POk (ENil, i, g)
  | Some c =>
      if N.eqb c 41 then POk (ENil, i, g)
      else do (e, j, g1) <- rpattern r f i g;
           do (es, k, g2) <- rdisj r f j g1;
           POk (ECons e es, k, g2)
  end.
Proof. reflexivity. Qed.

Section RoundTrip.
Variable re : bytes.
Notation rlen := (rlen re).
Notation rc := (rc re).

Lemma sk_rc i c tl : skipn i re = c :: tl -> rc i = Some c /\ skipn (S i) re = tl /\ (i < rlen)%nat.
Proof.
  intros H. pose proof (skipn_cons_nth re i c tl H) as Hn. split; [exact Hn|]. split; [eapply skipn_S_tl; eauto|].
  apply nth_error_Some. unfold Parser.rc in *. congruence.
Qed.

Lemma sk_nil i : skipn i re = [] -> rc i = None.
Proof.
  intros H. apply nth_error_None. destruct (Nat.le_gt_cases (length re) i); [assumption|].
  assert (length (skipn i re) = 0)%nat by (rewrite H; reflexivity). rewrite skipn_length in H1. lia.
Qed.

Lemma sk_app i (l rest : list N) : skipn i re = l ++ rest -> skipn (i + length l) re = rest /\ (i + length l <= rlen \/ (l = [] /\ rest = []))%nat.
Proof.
  revert i. induction l as [|x l IH]; intros i H; cbn [app length] in *.
  - rewrite Nat.add_0_r. split; [exact H|]. destruct rest; [right; auto|left]. apply sk_rc in H. lia.
  - destruct (sk_rc _ _ _ H) as (_ & H1 & Hlt). destruct (IH _ H1) as [A B].
    replace (i + S (length l))%nat with (S i + length l)%nat by lia. split; [exact A|]. left. destruct B as [B|[-> ->]]; cbn in *; lia.
Qed.

Lemma rc_is_head i rest b : skipn i re = rest -> rc_is re i b = match rest with c :: _ => N.eqb c b | [] => false end.
Proof.
  intros H. unfold rc_is. destruct rest as [|c tl]; [rewrite (sk_nil _ H); reflexivity|].
  destruct (sk_rc _ _ _ H) as (-> & _). reflexivity.
Qed.

(* ---- numbers ---- *)
Lemma rnum_run : forall ds acc i rest fuel, Forall (fun d => is_digit_r d = true) ds -> skipn i re = ds ++ rest ->
  starts_digit rest = false -> (length ds < fuel)%nat ->
  rnum_digits re fuel i acc = (acc ++ ds, (i + length ds)%nat).
Proof.
  induction ds as [|d ds IH]; intros acc i rest fuel Hall Hs Hr Hf; (destruct fuel; [cbn in Hf; lia|]); cbn [rnum_digits app] in *.
  - rewrite app_nil_r, Nat.add_0_r. destruct rest as [|c tl]; [rewrite (sk_nil _ Hs); reflexivity|].
    destruct (sk_rc _ _ _ Hs) as (-> & _). cbn [starts_digit] in Hr. rewrite Hr. reflexivity.
  - inversion Hall as [|? ? Hd Hall']; subst. destruct (sk_rc _ _ _ Hs) as (-> & Hs' & _).
    assert (N.ltb d 128 = true) by (unfold is_digit_r in Hd; lia). rewrite Hd, H. cbn [andb].
    rewrite (IH _ _ rest fuel Hall' Hs' Hr) by (cbn in Hf; lia). rewrite <- app_assoc. cbn [app length]. f_equal. lia.
Qed.

Lemma rnumber_ok ds v i rest : digits_ok ds -> atoi_int ds = Some v -> skipn i re = ds ++ rest -> starts_digit rest = false ->
  rnumber re i = POk (v, (i + length ds)%nat).
Proof.
  intros (Hne & Hall & _) Hv Hs Hr. unfold rnumber.
  assert (Hlen : (length ds < S rlen)%nat).
  { destruct (sk_app _ _ _ Hs) as [_ [H|[H _]]]; [unfold Parser.rlen in *; lia|congruence]. }
  rewrite (rnum_run ds [] i rest (S rlen) Hall Hs Hr Hlen). cbn [app].
  destruct ds; [congruence|]. rewrite Hv. reflexivity.
Qed.

(* ---- quantifiers ---- *)
Lemma head_follow (c : N) (tl : list N) (b : N) : lit_follow (c :: tl) -> In b [42; 43; 63; 123] -> N.eqb c b = false.
Proof.
  unfold lit_follow. cbn [existsb]. intros H Hin.
  repeat (destruct Hin as [<-|Hin]; [lia|]). contradiction.
Qed.

Lemma rquant_none i rest : skipn i re = rest -> lit_follow rest -> rquant re i = POk (None, i).
Proof.
  intros Hs Hf. unfold rquant. destruct rest as [|c tl]; [rewrite (sk_nil _ Hs); reflexivity|].
  destruct (sk_rc _ _ _ Hs) as (-> & _).
  rewrite (head_follow c tl 42 Hf), (head_follow c tl 43 Hf), (head_follow c tl 63 Hf), (head_follow c tl 123 Hf); cbn; tauto.
Qed.

Lemma lazy_mark e (lz : bool) (rest : list N) : skipn e re = (if lz then [63] else @nil N) ++ rest -> lit_follow rest ->
  rc_is re e 63 = lz /\ skipn (if lz then S e else e) re = rest.
Proof.
  intros Hs Hf. destruct lz; cbn [app] in Hs.
  - destruct (sk_rc _ _ _ Hs) as (A & B & _). unfold rc_is. rewrite A. split; [reflexivity|exact B].
  - split; [|exact Hs]. rewrite (rc_is_head e rest 63 Hs). destruct rest as [|c tl]; [reflexivity|].
    apply (head_follow c tl 63 Hf). cbn; tauto.
Qed.

Lemma rquant_some qq lz mn mx i rest : quant_ok qq -> quant_bounds qq = Some (mn, mx) ->
  skipn i re = show_q (Some (qq, lz)) ++ rest -> lit_follow rest ->
  rquant re i = POk (Some (mn, mx, lz), (i + length (show_q (Some (qq, lz))))%nat).
Proof.
  intros Hok Hb Hs Hf. unfold rquant. cbn [show_q] in *. rewrite <- app_assoc in Hs.
  assert (FIN : forall e n, skipn e re = (if lz then [63] else @nil N) ++ rest -> (e + (if lz then 1 else 0) = n)%nat ->
     POk (Some (mn, mx, rc_is re e 63), if rc_is re e 63 then S e else e) = POk (Some (mn, mx, lz), n)).
  { intros e n He Hn. destruct (lazy_mark e lz rest He Hf) as [-> _]. destruct lz; f_equal; f_equal; lia. }
  destruct qq as [| | |ds|ds|d1 d2]; cbn [show_quant app] in Hs; cbn [show_quant length app]; rewrite ?app_length; cbn [length].
  - destruct (sk_rc _ _ _ Hs) as (-> & Hs1 & _). cbn [N.eqb Pos.eqb]. inversion Hb; subst. apply FIN; [exact Hs1|destruct lz; cbn; lia].
  - destruct (sk_rc _ _ _ Hs) as (-> & Hs1 & _). cbn [N.eqb Pos.eqb]. inversion Hb; subst. apply FIN; [exact Hs1|destruct lz; cbn; lia].
  - destruct (sk_rc _ _ _ Hs) as (-> & Hs1 & _). cbn [N.eqb Pos.eqb]. inversion Hb; subst. apply FIN; [exact Hs1|destruct lz; cbn; lia].
  - destruct (sk_rc _ _ _ Hs) as (-> & Hs1 & _). cbn [N.eqb Pos.eqb]. cbn [quant_ok quant_bounds] in *.
    destruct (atoi_int ds) as [v|] eqn:Ev; [|discriminate]. injection Hb as Hmn Hmx; subst mn mx.
    rewrite <- app_assoc in Hs1. cbn [app] in Hs1.
    rewrite (rnumber_ok ds v (S i) _ Hok Ev Hs1 eq_refl). cbn [pbind].
    destruct (sk_app _ _ _ Hs1) as [Hs2 _]. destruct (sk_rc _ _ _ Hs2) as (-> & Hs3 & _). cbn [N.eqb Pos.eqb].
    apply FIN; [exact Hs3|destruct lz; repeat (rewrite ?app_length; cbn [length app]); lia].
  - destruct (sk_rc _ _ _ Hs) as (-> & Hs1 & _). cbn [N.eqb Pos.eqb]. cbn [quant_ok quant_bounds] in *.
    destruct (atoi_int ds) as [v|] eqn:Ev; [|discriminate]. injection Hb as Hmn Hmx; subst mn mx.
    rewrite <- app_assoc in Hs1. cbn [app] in Hs1.
    rewrite (rnumber_ok ds v (S i) _ Hok Ev Hs1 eq_refl). cbn [pbind].
    destruct (sk_app _ _ _ Hs1) as [Hs2 _]. destruct (sk_rc _ _ _ Hs2) as (-> & Hs3 & _). cbn [N.eqb Pos.eqb].
    destruct (sk_rc _ _ _ Hs3) as (-> & Hs4 & _). cbn [N.eqb Pos.eqb].
    apply FIN; [exact Hs4|destruct lz; repeat (rewrite ?app_length; cbn [length app]); lia].
  - destruct (sk_rc _ _ _ Hs) as (-> & Hs1 & _). cbn [N.eqb Pos.eqb]. cbn [quant_ok quant_bounds] in *. destruct Hok as [Hok1 Hok2].
    destruct (atoi_int d1) as [v1|] eqn:Ev1; [|discriminate]. destruct (atoi_int d2) as [v2|] eqn:Ev2; [|discriminate]. injection Hb as Hmn Hmx; subst mn mx.
    rewrite <- !app_assoc in Hs1. cbn [app] in Hs1. rewrite <- !app_assoc in Hs1. cbn [app] in Hs1.
    rewrite (rnumber_ok d1 v1 (S i) _ Hok1 Ev1 Hs1 eq_refl). cbn [pbind].
    destruct (sk_app _ _ _ Hs1) as [Hs2 _]. destruct (sk_rc _ _ _ Hs2) as (-> & Hs3 & _). cbn [N.eqb Pos.eqb].
    assert (Hd2 : exists x tl, d2 = x :: tl /\ is_digit_r x = true).
    { destruct Hok2 as (Hne & Hall & _). destruct d2 as [|x tl]; [congruence|]. inversion Hall; subst. eauto. }
    destruct Hd2 as (x & tl & -> & Hx). cbn [app] in Hs3. destruct (sk_rc _ _ _ Hs3) as (-> & _ & _).
    assert (N.eqb x 125 = false) by (unfold is_digit_r in Hx; lia). rewrite H.
    change (x :: tl ++ 125 :: (if lz then [63] else []) ++ rest) with ((x :: tl) ++ 125 :: (if lz then [63] else []) ++ rest) in Hs3.
    rewrite (rnumber_ok (x :: tl) v2 (S (S i + length d1))%nat _ Hok2 Ev2 Hs3 eq_refl).
    cbn [pbind]. destruct (sk_app _ _ _ Hs3) as [Hs4 _]. destruct (sk_rc _ _ _ Hs4) as (-> & Hs5 & _). cbn [N.eqb Pos.eqb].
    apply FIN; [exact Hs5|destruct lz; repeat (rewrite ?app_length; cbn [length app]); lia].
Qed.

Lemma with_quant_ok q body j g rest :
  (match q with Some (qq, _) => quant_ok qq | None => True end) -> skipn j re = show_q q ++ rest -> lit_follow rest ->
  with_quant re body j g = POk (apply_q q body, (j + length (show_q q))%nat, g).
Proof.
  intros Hok Hs Hf. unfold with_quant. destruct q as [[qq lz]|].
  - assert (Hb : exists mn mx, quant_bounds qq = Some (mn, mx)).
    { destruct qq; cbn [quant_bounds quant_ok] in *; eauto.
      - destruct Hok as (_ & _ & v & ->). eauto.
      - destruct Hok as (_ & _ & v & ->). eauto.
      - destruct Hok as [(_ & _ & v1 & ->) (_ & _ & v2 & ->)]. eauto. }
    destruct Hb as (mn & mx & Hb). rewrite (rquant_some qq lz mn mx j rest Hok Hb Hs Hf). cbn [pbind apply_q]. rewrite Hb. reflexivity.
  - cbn [show_q app] in Hs. rewrite (rquant_none j rest Hs Hf). cbn [pbind apply_q show_q length]. rewrite Nat.add_0_r. reflexivity.
Qed.


(* ---- identifiers of named groups and references ---- *)
Lemma alnum_enc c : (is_digit_r c || is_letter_r c)%bool = true -> encode_rune c = [c] /\ is_letter_latin1 c = true \/ encode_rune c = [c] /\ is_digit_r c = true.
Proof.
  intros H. assert (c < 128) by (unfold is_digit_r, is_letter_r in H; lia).
  assert (encode_rune c = [c]) by (unfold encode_rune; apply N.ltb_lt in H0; rewrite H0; reflexivity).
  destruct (is_digit_r c) eqn:Ed; [right; auto|left]. split; [assumption|]. cbn [orb] in H. unfold is_letter_latin1. rewrite H. reflexivity.
Qed.

Lemma rident_run : forall id acc i rest fuel, ident_ok id -> skipn i re = id ++ 62 :: rest -> (length id < fuel)%nat ->
  rident re fuel i acc = (acc ++ id, (i + length id)%nat).
Proof.
  induction id as [|c id IH]; intros acc i rest fuel Hok Hs Hf; (destruct fuel; [cbn in Hf; lia|]); cbn [rident app] in *.
  - destruct (sk_rc _ _ _ Hs) as (-> & _). cbn. rewrite app_nil_r, Nat.add_0_r. reflexivity.
  - inversion Hok as [|? ? Hc Hok']; subst. destruct (sk_rc _ _ _ Hs) as (-> & Hs' & _).
    assert (Hgo : (is_digit_r c || is_letter_latin1 c)%bool = true /\ encode_rune c = [c]).
    { destruct (alnum_enc c Hc) as [[A B]|[A B]]; rewrite ?B; split; auto; apply Bool.orb_true_r. }
    destruct Hgo as [-> ->]. rewrite (IH _ _ rest fuel Hok' Hs') by (cbn in Hf; lia).
    rewrite <- app_assoc. cbn [app length]. f_equal. lia.
Qed.

Lemma ident_len i id rest : skipn i re = id ++ rest -> (length id < S rlen)%nat.
Proof. intros H. destruct (sk_app _ _ _ H) as [_ [A|[-> _]]]; [unfold Parser.rlen in *; lia|cbn; lia]. Qed.

(* ---- bracket classes ---- *)
Lemma class_char_facts c : class_char c = true -> c <> 0 /\ c <> 93 /\ c <> 92 /\ c <> 45 /\ c <> 47.
Proof. unfold class_char. cbn [existsb]. intros H. lia. Qed.

Lemma rclass_range_ok it i rest : item_ok it -> skipn i re = show_item it ++ rest ->
  (match rest with c :: _ => c <> 45 | [] => True end) ->
  rclass_range re i = POk (tr_item it, (i + length (show_item it))%nat).
Proof.
  intros Hok Hs Hr. unfold rclass_range, rclass_atom. destruct it as [x|a b]; cbn [show_item app item_ok] in *.
  - destruct (class_char_facts x Hok) as (H0 & H93 & H92 & H45 & _).
    destruct (sk_rc _ _ _ Hs) as (-> & Hs1 & _).
    assert (N.eqb x 92 = false) by lia. assert (N.eqb x 93 = false) by lia. rewrite H, H1. cbn [pbind].
    destruct rest as [|d tl]; [rewrite (sk_nil _ Hs1); apply pok2; cbn; lia|].
    destruct (sk_rc _ _ _ Hs1) as (-> & _). assert (N.eqb d 45 = false) by lia. rewrite H2. apply pok2; cbn; lia.
  - destruct Hok as [Ha Hb]. destruct (class_char_facts a Ha) as (_ & H93 & H92 & _). destruct (class_char_facts b Hb) as (_ & Hb93 & _).
    destruct (sk_rc _ _ _ Hs) as (-> & Hs1 & _). destruct (sk_rc _ _ _ Hs1) as (E1 & Hs2 & _). destruct (sk_rc _ _ _ Hs2) as (E2 & _ & _).
    assert (N.eqb a 92 = false) by lia. assert (N.eqb a 93 = false) by lia. rewrite H, H0. cbn [pbind].
    rewrite E1. cbn [N.eqb Pos.eqb]. rewrite E2. assert (N.eqb b 93 = false) by lia. rewrite H1. cbn [pbind tr_item]. apply pok2; cbn; lia.
Qed.

Lemma rclass_items_ok : forall items i rest fuel, Forall item_ok items -> skipn i re = flat_map show_item items ++ 93 :: rest ->
  (length (flat_map show_item items) < fuel)%nat ->
  rclass_items re fuel i = POk (map tr_item items, (i + length (flat_map show_item items))%nat).
Proof.
  induction items as [|it items IH]; intros i rest fuel Hok Hs Hf; (destruct fuel; [cbn in Hf; lia|]); cbn [rclass_items flat_map app map] in *.
  - destruct (sk_rc _ _ _ Hs) as (-> & _). cbn. rewrite Nat.add_0_r. reflexivity.
  - inversion Hok as [|? ? Hit Hok']; subst. rewrite <- app_assoc in Hs.
    assert (Hfirst : exists c tl, show_item it = c :: tl /\ class_char c = true).
    { destruct it as [x|a b]; cbn [show_item item_ok] in *; [eauto|destruct Hit; eauto]. }
    destruct Hfirst as (c & tl & Ec & Hc). destruct (class_char_facts c Hc) as (_ & H93 & _).
    assert (Hrc : rc i = Some c) by (rewrite Ec in Hs; cbn [app] in Hs; apply sk_rc in Hs; tauto).
    rewrite Hrc. assert (N.eqb c 93 = false) by lia. rewrite H.
    assert (Hnext : match flat_map show_item items ++ 93 :: rest with d :: _ => d <> 45 | [] => True end).
    { destruct items as [|it2 items2]; cbn [flat_map app]; [discriminate|].
      inversion Hok' as [|? ? Hit2 _]; subst.
      destruct it2 as [x|a b]; cbn [show_item app item_ok] in *; [apply class_char_facts in Hit2; tauto|destruct Hit2 as [Ha _]; apply class_char_facts in Ha; tauto]. }
    rewrite (rclass_range_ok it i _ Hit Hs Hnext). cbn [pbind].
    destruct (sk_app _ _ _ Hs) as [Hs' _].
    rewrite (IH _ rest fuel Hok' Hs') by (rewrite app_length in Hf; rewrite Ec in *; cbn [length] in *; lia).
    cbn [pbind]. rewrite app_length. f_equal. f_equal. lia.
Qed.

Lemma rclass_ok neg items i rest : wf_atom (RBracket neg items) ->
  skipn i re = (if neg then [94] else []) ++ flat_map show_item items ++ 93 :: rest ->
  rclass re i = POk (EList neg (map tr_item items), (i + (if neg then 1 else 0) + length (flat_map show_item items) + 1)%nat).
Proof.
  intros (Hne & Hok & Hfirst) Hs. unfold rclass.
  assert (Hi1 : exists i1, i1 = (if neg then S i else i) /\ skipn i1 re = flat_map show_item items ++ 93 :: rest /\
                          rc i <> None /\ (match rc i with Some c0 => N.eqb c0 94 | None => false end) = neg).
  { destruct neg; cbn [app] in Hs.
    - destruct (sk_rc _ _ _ Hs) as (A & B & _). exists (S i). rewrite A. repeat split; auto; discriminate.
    - exists i. split; [reflexivity|]. split; [exact Hs|].
      destruct items as [|it items']; [congruence|]. specialize (Hfirst eq_refl). inversion Hok as [|? ? Hit _]; subst.
      cbn [flat_map] in Hs. rewrite <- app_assoc in Hs.
      destruct it as [x|a b]; cbn [show_item app item_first] in *; destruct (sk_rc _ _ _ Hs) as (A & _); rewrite A; split; try discriminate; lia. }
  destruct Hi1 as (i1 & Ei1 & Hs1 & Hsome & Hneg).
  destruct (rc i) as [c0|] eqn:Ec0; [|congruence]. rewrite Hneg. rewrite <- Ei1.
  assert (Hlt : (i1 < rlen)%nat).
  { destruct (flat_map show_item items ++ 93 :: rest) as [|z zs] eqn:E; [destruct (flat_map show_item items); discriminate|]. apply sk_rc in Hs1. tauto. }
  assert (E1 : (rlen <=? i1)%nat = false) by (apply Nat.leb_gt; exact Hlt). rewrite E1.
  assert (Hlen : (length (flat_map show_item items) < S rlen)%nat).
  { destruct (sk_app _ _ _ Hs1) as [_ [A|[_ A]]]; [unfold Parser.rlen in *; lia|discriminate]. }
  rewrite (rclass_items_ok items i1 rest (S rlen) Hok Hs1 Hlen). cbn [pbind].
  destruct (sk_app _ _ _ Hs1) as [Hs2 _]. destruct (sk_rc _ _ _ Hs2) as (_ & _ & Hlt2).
  assert (E2 : (rlen <=? i1 + length (flat_map show_item items))%nat = false) by (apply Nat.leb_gt; exact Hlt2). rewrite E2.
  assert (Hmap : match map tr_item items with [] => [LiClass true CAny] | _ :: _ => map tr_item items end = map tr_item items).
  { destruct items; [congruence|reflexivity]. }
  rewrite Hmap. apply pok2. subst i1. destruct neg; lia.
Qed.

(* ---- the first character of an item is never a quantifier, a bar or a closing parenthesis ---- *)
Lemma special_facts c : special c = false ->
  c <> 0 /\ c <> 94 /\ c <> 36 /\ c <> 92 /\ c <> 40 /\ c <> 41 /\ c <> 91 /\ c <> 46 /\ c <> 124 /\ c <> 42 /\ c <> 43 /\ c <> 63 /\ c <> 123.
Proof. unfold special. cbn [existsb]. intros H. lia. Qed.

Lemma lit_first l after : wf_lit l after -> exists c tl, show_lit l = c :: tl /\
  existsb (N.eqb c) [42; 43; 63; 123; 124] = false /\ c <> 41.
Proof.
  destruct l as [| |a q]; cbn [show_lit wf_lit]; [intros _; eexists _, _; split; [reflexivity|split; [reflexivity|discriminate]]..|].
  intros (Ha & _ & _). destruct a; cbn [show_atom wf_atom app] in *; try (eexists _, _; split; [reflexivity|split; [reflexivity|discriminate]]).
  apply special_facts in Ha. eexists _, _. split; [reflexivity|]. cbn [existsb]. split; lia.
Qed.

Lemma pat_first p after : wf_pat p after -> exists c tl, show_pat p = c :: tl /\
  existsb (N.eqb c) [42; 43; 63; 123; 124] = false /\ c <> 41.
Proof.
  destruct p as [l|l r]; cbn [show_pat wf_pat].
  - apply lit_first.
  - intros [Hl _]. destruct (lit_first l _ Hl) as (c & tl & E & H). rewrite E. cbn [app]. eauto.
Qed.


(* well-formedness looks at what follows only through its first character *)
Lemma hd_app (l a1 a2 : list N) : hd_error a1 = hd_error a2 -> hd_error (l ++ a1) = hd_error (l ++ a2).
Proof. destruct l; cbn; auto. Qed.

Lemma starts_digit_hd a1 a2 : hd_error a1 = hd_error a2 -> starts_digit a1 = starts_digit a2.
Proof. destruct a1, a2; cbn; intros H; inversion H; reflexivity. Qed.

Lemma wf_ext :
  (forall a : ratom, True) /\
  (forall l a1 a2, hd_error a1 = hd_error a2 -> wf_lit l a1 -> wf_lit l a2) /\
  (forall p a1 a2, hd_error a1 = hd_error a2 -> wf_pat p a1 -> wf_pat p a2) /\
  (forall d a1 a2, hd_error a1 = hd_error a2 -> wf_disj d a1 -> wf_disj d a2).
Proof.
  apply regex_mutind; try (intros; exact I); cbn [wf_lit wf_pat wf_disj]; auto.
  - intros a _ q a1 a2 Hh (H1 & H2 & H3). split; [exact H1|]. split; [exact H2|].
    destruct a; auto. destruct q; auto. rewrite <- (starts_digit_hd _ _ Hh). exact H3.
  - intros l IHl r IHr a1 a2 Hh [H1 H2]. split; [|eapply IHr; eauto].
    eapply IHl; [|exact H1]. cbn. reflexivity.
  - intros p IHp d IHd a1 a2 Hh [H1 H2]. split; [|eapply IHd; eauto].
    eapply IHp; [|exact H1]. apply hd_app. exact Hh.
Qed.

Definition wf_disj_ext := proj2 (proj2 (proj2 wf_ext)).

Definition Pa (a : ratom) : Prop := forall q g i rest fuel,
  wf_lit (RQ a q) rest -> skipn i re = show_lit (RQ a q) ++ rest -> lit_follow rest -> (4 * (rlen - i) + 2 <= fuel)%nat ->
  rliteral re fuel i g = POk (fst (tr_lit (RQ a q) g), (i + length (show_lit (RQ a q)))%nat, snd (tr_lit (RQ a q) g)).
Definition Pl (l : rlit) : Prop := forall g i rest fuel,
  wf_lit l rest -> skipn i re = show_lit l ++ rest -> lit_follow rest -> (4 * (rlen - i) + 2 <= fuel)%nat ->
  rliteral re fuel i g = POk (fst (tr_lit l g), (i + length (show_lit l))%nat, snd (tr_lit l g)).
Definition Pp (p : rpat) : Prop := forall g i rest fuel,
  wf_pat p rest -> skipn i re = show_pat p ++ rest -> pat_follow rest -> (4 * (rlen - i) + 3 <= fuel)%nat ->
  rpattern re fuel i g = POk (fst (tr_pat p g), (i + length (show_pat p))%nat, snd (tr_pat p g)).
Definition Pd (d : rdis) : Prop := forall g i rest fuel,
  wf_disj d rest -> skipn i re = show_disj d ++ rest -> dis_follow rest -> (4 * (rlen - i) + 4 <= fuel)%nat ->
  rdisj re fuel i g = POk (fst (tr_disj d g), (i + length (show_disj d))%nat, snd (tr_disj d g)).

Lemma quant_first_not_digit q rest : (match q with Some (qq, _) => True | None => starts_digit rest = false end) ->
  starts_digit (show_q q ++ rest) = false.
Proof. destruct q as [[qq lz]|]; cbn [show_q app]; [intros _; destruct qq; reflexivity|auto]. Qed.

(* the common end of the atom cases: the quantifier, then the result *)
Lemma finish_atom q body j g rest n e :
  (match q with Some (qq, _) => quant_ok qq | None => True end) -> skipn j re = show_q q ++ rest -> lit_follow rest ->
  e = apply_q q body -> (j + length (show_q q) = n)%nat ->
  with_quant re body j g = POk (e, n, g).
Proof. intros Hok Hs Hf -> <-. apply with_quant_ok with (rest := rest); assumption. Qed.

Lemma resc_plain c i : rc i = Some c -> esc_meaning c = false -> resc re i = POk (LStr false false (encode_rune c), S i).
Proof.
  intros Hr He. unfold resc. rewrite Hr. unfold esc_meaning in He. cbn [existsb] in He.
  assert (H1 : (N.leb 49 c && N.leb c 57)%bool = false) by lia. rewrite H1.
  repeat match goal with |- context[N.eqb c ?k] => let E := fresh in assert (E : N.eqb c k = false) by lia; rewrite E; clear E end.
  reflexivity.
Qed.

Theorem roundtrip_mutual : (forall a, Pa a) /\ (forall l, Pl l) /\ (forall p, Pp p) /\ (forall d, Pd d).
Proof.
  apply regex_mutind.
  - (* RChar *)
    intros c q g i rest fuel (Ha & Hq & _) Hs Hf Hfu. destruct fuel; [lia|]. cbn [rliteral show_lit show_atom] in *.
    rewrite <- app_assoc in Hs. cbn [app] in Hs. destruct (sk_rc _ _ _ Hs) as (-> & Hs1 & _).
    cbn [wf_atom] in Ha. destruct (special_facts c Ha) as (_ & A & B & C & D & _ & E & F & _).
    rewrite (neq_eqb _ _ A), (neq_eqb _ _ B), (neq_eqb _ _ C), (neq_eqb _ _ D), (neq_eqb _ _ E), (neq_eqb _ _ F).
    eapply finish_atom; eauto; cbn [tr_lit tr_atom fst snd length app]; lia.
  - (* REscChar *)
    intros c q g i rest fuel (Ha & Hq & _) Hs Hf Hfu. destruct fuel; [lia|]. cbn [rliteral show_lit show_atom] in *.
    rewrite <- app_assoc in Hs. cbn [app] in Hs. destruct (sk_rc _ _ _ Hs) as (-> & Hs1 & _). destruct (sk_rc _ _ _ Hs1) as (Hc & Hs2 & _).
    cbn [N.eqb Pos.eqb]. rewrite (resc_plain c (S i) Hc Ha). cbn [pbind].
    eapply finish_atom; eauto; cbn [tr_lit tr_atom fst snd length app]; lia.
  - (* RDot *)
    intros q g i rest fuel (Ha & Hq & _) Hs Hf Hfu. destruct fuel; [lia|]. cbn [rliteral show_lit show_atom] in *.
    rewrite <- app_assoc in Hs. cbn [app] in Hs. destruct (sk_rc _ _ _ Hs) as (-> & Hs1 & _). cbn [N.eqb Pos.eqb].
    eapply finish_atom; eauto; cbn [tr_lit tr_atom fst snd length app]; lia.
  - (* RCls *)
    intros neg space q g i rest fuel (Ha & Hq & _) Hs Hf Hfu. destruct fuel; [lia|]. cbn [rliteral show_lit show_atom] in *.
    rewrite <- app_assoc in Hs. cbn [app] in Hs. destruct (sk_rc _ _ _ Hs) as (-> & Hs1 & _). destruct (sk_rc _ _ _ Hs1) as (Hc & Hs2 & _).
    cbn [N.eqb Pos.eqb]. unfold resc. rewrite Hc.
    destruct neg, space; cbn [N.leb N.compare Pos.compare Pos.compare_cont andb N.eqb Pos.eqb pbind];
      (eapply finish_atom; eauto; cbn [tr_lit tr_atom fst snd length app]; lia).
  - (* RBracket *)
    intros neg items q g i rest fuel (Ha & Hq & _) Hs Hf Hfu. destruct fuel; [lia|]. cbn [rliteral show_lit show_atom] in *.
    rewrite <- !app_assoc in Hs. cbn [app] in Hs. destruct (sk_rc _ _ _ Hs) as (-> & Hs1 & _). cbn [N.eqb Pos.eqb].
    rewrite <- !app_assoc in Hs1. cbn [app] in Hs1.
    rewrite (rclass_ok neg items (S i) (show_q q ++ rest) Ha Hs1). cbn [pbind].
    assert (Hs2 : skipn (S i + (if neg then 1 else 0) + length (flat_map show_item items) + 1) re = show_q q ++ rest).
    { destruct (sk_app _ _ _ Hs1) as [A _]. destruct (sk_app _ _ _ A) as [B _]. destruct (sk_rc _ _ _ B) as (_ & C & _).
      destruct neg; cbn [length] in C |- *;
        [replace (S i + 1 + length (flat_map show_item items) + 1)%nat with (S (S i + 1 + length (flat_map show_item items)))%nat by lia
        |replace (S i + 0 + length (flat_map show_item items) + 1)%nat with (S (S i + 0 + length (flat_map show_item items)))%nat by lia];
        exact C. }
    eapply finish_atom; eauto; cbn [tr_lit tr_atom fst snd length app]; try reflexivity.
    repeat (rewrite ?app_length; cbn [length app]). destruct neg; cbn [length]; lia.
  - (* RBackNum *)
    intros d q g i rest fuel (Ha & Hq & Hnd) Hs Hf Hfu. destruct fuel; [lia|]. cbn [rliteral show_lit show_atom] in *.
    rewrite <- app_assoc in Hs. cbn [app] in Hs. destruct (sk_rc _ _ _ Hs) as (-> & Hs1 & _). destruct (sk_rc _ _ _ Hs1) as (Hc & Hs2 & _).
    cbn [N.eqb Pos.eqb]. unfold resc. rewrite Hc. cbn [wf_atom] in Ha.
    assert (Hd' : (N.leb 49 d && N.leb d 57)%bool = true) by lia. rewrite Hd'.
    assert (Hnext : starts_digit (show_q q ++ rest) = false) by (apply quant_first_not_digit; destruct q as [[? ?]|]; auto).
    assert (Hone : match rc (S (S i)) with
                   | None => POk (LVar [underscore; d], S (S i))
                   | Some d0 => if (N.leb 48 d0 && N.leb d0 57)%bool then POk (LVar [underscore; d; d0], S (S (S i))) else POk (LVar [underscore; d], S (S i))
                   end = POk (LVar [underscore; d], S (S i))).
    { destruct (show_q q ++ rest) as [|x tl] eqn:E; [rewrite (sk_nil _ Hs2); reflexivity|].
      destruct (sk_rc _ _ _ Hs2) as (-> & _). cbn [starts_digit] in Hnext. unfold is_digit_r in Hnext.
      assert ((N.leb 48 x && N.leb x 57)%bool = false) by lia. rewrite H. reflexivity. }
    rewrite Hone. cbn [pbind].
    eapply finish_atom; eauto; cbn [tr_lit tr_atom fst snd length app]; lia.
  - (* RBackNum2 *)
    intros d1 d2 q g i rest fuel (Ha & Hq & _) Hs Hf Hfu. destruct fuel; [lia|]. cbn [rliteral show_lit show_atom] in *.
    rewrite <- app_assoc in Hs. cbn [app] in Hs. destruct (sk_rc _ _ _ Hs) as (-> & Hs1 & _). destruct (sk_rc _ _ _ Hs1) as (Hc & Hs2 & _).
    destruct (sk_rc _ _ _ Hs2) as (Hc2 & Hs3 & _).
    cbn [N.eqb Pos.eqb]. unfold resc. rewrite Hc, Hc2. cbn [wf_atom] in Ha. destruct Ha as [A B].
    assert (Hd1 : (N.leb 49 d1 && N.leb d1 57)%bool = true) by lia. assert (Hd2 : (N.leb 48 d2 && N.leb d2 57)%bool = true) by lia.
    rewrite Hd1, Hd2. cbn [pbind].
    eapply finish_atom; eauto; cbn [tr_lit tr_atom fst snd length app]; lia.
  - (* RBackName *)
    intros id q g i rest fuel (Ha & Hq & _) Hs Hf Hfu. destruct fuel; [lia|]. cbn [rliteral show_lit show_atom] in *.
    rewrite <- !app_assoc in Hs. cbn [app] in Hs. destruct (sk_rc _ _ _ Hs) as (-> & Hs1 & _). destruct (sk_rc _ _ _ Hs1) as (Hc & Hs2 & _).
    destruct (sk_rc _ _ _ Hs2) as (Hc2 & Hs3 & _). rewrite <- app_assoc in Hs3. cbn [app] in Hs3.
    cbn [N.eqb Pos.eqb]. unfold resc. rewrite Hc. cbn [N.leb N.compare Pos.compare Pos.compare_cont andb N.eqb Pos.eqb].
    unfold rc_is at 1. rewrite Hc2. cbn [N.eqb Pos.eqb negb].
    rewrite (rident_run id [] (S (S (S i))) _ (S rlen) Ha Hs3 (ident_len _ _ _ Hs3)). cbn [app].
    destruct (sk_app _ _ _ Hs3) as [Hs4 _]. destruct (sk_rc _ _ _ Hs4) as (Hc4 & Hs5 & _).
    unfold rc_is. rewrite Hc4. cbn [N.eqb Pos.eqb pbind].
    eapply finish_atom; eauto; cbn [tr_lit tr_atom fst snd length app]; try reflexivity. repeat (rewrite ?app_length; cbn [length app]). lia.
  - (* RGroup *)
    intros k body IHb q g i rest fuel (Ha & Hq & _) Hs Hf Hfu. destruct fuel as [|[|fuel]]; try lia. rewrite rliteral_S. cbn [show_lit show_atom] in *.
    rewrite <- !app_assoc in Hs. cbn [app] in Hs. destruct (sk_rc _ _ _ Hs) as (-> & Hs1 & Hlt). cbn [N.eqb Pos.eqb].
    cbn [wf_atom] in Ha. destruct Ha as [Hid Hwb].
    assert (Hwb' : forall more, wf_disj body (41 :: more)) by (intros more; eapply wf_disj_ext; [|exact Hwb]; reflexivity).
    rewrite rgroup_S. destruct k as [| |id]; rewrite <- ?app_assoc in Hs1; cbn [app] in Hs1.
    + (* numbered *)
      assert (Hne : exists c tl, show_disj body ++ 41 :: show_q q ++ rest = c :: tl /\ N.eqb c 63 = false).
      { destruct body as [|p d]; cbn [show_disj app]; [eexists _, _; split; reflexivity|].
        cbn [wf_disj] in Hwb. destruct Hwb as [Hp _]. destruct (pat_first p _ Hp) as (c & tl & E & H1 & _).
        rewrite E. cbn [app]. eexists _, _. split; [reflexivity|]. cbn [existsb] in H1. lia. }
      destruct Hne as (c & tl & E & Hc). assert (Hrc : rc (S i) = Some c) by (rewrite E in Hs1; apply sk_rc in Hs1; tauto).
      rewrite Hrc, Hc.
      cbv zeta. rewrite (IHb (S g) (S i) (41 :: show_q q ++ rest) fuel (Hwb' _) Hs1 eq_refl) by lia. cbn [pbind].
      destruct (sk_app _ _ _ Hs1) as [Hs2 _]. destruct (sk_rc _ _ _ Hs2) as (Hc2 & Hs3 & _).
      unfold rc_is. rewrite Hc2. cbn [N.eqb Pos.eqb pbind].
      cbn [tr_lit tr_atom]. cbv zeta. destruct (tr_disj body (S g)) as [es g1]. cbn [fst snd].
      eapply finish_atom; eauto; try reflexivity. repeat (rewrite ?app_length; cbn [length app]). lia.
    + (* non-capturing *)
      destruct (sk_rc _ _ _ Hs1) as (Hc1 & Hs2 & _). destruct (sk_rc _ _ _ Hs2) as (Hc2 & Hs3 & _).
      rewrite Hc1. cbn [N.eqb Pos.eqb]. rewrite Hc2. cbn [N.eqb Pos.eqb].
      rewrite (IHb g (S (S (S i))) (41 :: show_q q ++ rest) fuel (Hwb' _) Hs3 eq_refl) by lia. cbn [pbind].
      destruct (sk_app _ _ _ Hs3) as [Hs4 _]. destruct (sk_rc _ _ _ Hs4) as (Hc4 & Hs5 & _).
      unfold rc_is. rewrite Hc4. cbn [N.eqb Pos.eqb pbind].
      cbn [tr_lit tr_atom]. destruct (tr_disj body g) as [es g1]. cbn [fst snd].
      eapply finish_atom; eauto; try reflexivity. repeat (rewrite ?app_length; cbn [length app]). lia.
    + (* named *)
      destruct (sk_rc _ _ _ Hs1) as (Hc1 & Hs2 & _). destruct (sk_rc _ _ _ Hs2) as (Hc2 & Hs3 & _).
      rewrite <- app_assoc in Hs3. cbn [app] in Hs3.
      rewrite Hc1. cbn [N.eqb Pos.eqb]. rewrite Hc2. cbn [N.eqb Pos.eqb].
      assert (Ha3 : exists a tl, id ++ 62 :: show_disj body ++ 41 :: show_q q ++ rest = a :: tl /\ N.eqb a 61 = false /\ N.eqb a 33 = false).
      { destruct id as [|x id']; cbn [app]; [eexists _, _; split; [reflexivity|split; reflexivity]|].
        inversion Hid as [|? ? Hx _]; subst. eexists _, _. split; [reflexivity|]. unfold is_digit_r, is_letter_r in Hx. split; lia. }
      destruct Ha3 as (a & tl & E & H61 & H33). assert (Hrc : rc (S (S (S i))) = Some a) by (rewrite E in Hs3; apply sk_rc in Hs3; tauto).
      rewrite Hrc, H61, H33.
      rewrite (rident_run id [] (S (S (S i))) _ (S rlen) Hid Hs3 (ident_len _ _ _ Hs3)). cbn [app].
      destruct (sk_app _ _ _ Hs3) as [Hs4 _]. destruct (sk_rc _ _ _ Hs4) as (Hc4 & Hs5 & _).
      unfold rc_is at 1. rewrite Hc4. cbn [N.eqb Pos.eqb negb].
      rewrite (IHb g (S (S (S (S i)) + length id))%nat (41 :: show_q q ++ rest) fuel (Hwb' _) Hs5 eq_refl) by lia. cbn [pbind].
      destruct (sk_app _ _ _ Hs5) as [Hs6 _]. destruct (sk_rc _ _ _ Hs6) as (Hc6 & Hs7 & _).
      unfold rc_is. rewrite Hc6. cbn [N.eqb Pos.eqb pbind].
      cbn [tr_lit tr_atom]. destruct (tr_disj body g) as [es g1]. cbn [fst snd].
      eapply finish_atom; eauto; try reflexivity. repeat (rewrite ?app_length; cbn [length app]). lia.
  - (* RBol *)
    intros g i rest fuel _ Hs _ Hfu. destruct fuel; [lia|]. rewrite rliteral_S. cbn [show_lit app] in *.
    destruct (sk_rc _ _ _ Hs) as (-> & _). cbn [N.eqb Pos.eqb]. apply trip4; [reflexivity|cbn; lia|reflexivity].
  - (* REol *)
    intros g i rest fuel _ Hs _ Hfu. destruct fuel; [lia|]. rewrite rliteral_S. cbn [show_lit app] in *.
    destruct (sk_rc _ _ _ Hs) as (-> & _). cbn [N.eqb Pos.eqb]. apply trip4; [reflexivity|cbn; lia|reflexivity].
  - (* RQ *)
    intros a IHa q. exact (IHa q).
  - (* POne *)
    intros l IHl g i rest fuel Hw Hs Hf Hfu. destruct fuel; [lia|]. rewrite rpattern_S. cbn [show_pat tr_pat wf_pat] in *.
    assert (Hlf : lit_follow rest) by (destruct rest as [|c tl]; [exact I|]; cbn [pat_follow lit_follow existsb] in *; lia).
    rewrite (IHl g i rest fuel Hw Hs Hlf) by lia. cbn [pbind].
    destruct (sk_app _ _ _ Hs) as [Hs1 _]. rewrite (rc_is_head _ rest 124 Hs1).
    destruct rest as [|c tl]; [destruct (tr_lit l g); reflexivity|].
    assert (N.eqb c 124 = false) by (cbn [pat_follow existsb] in Hf; lia). rewrite H. destruct (tr_lit l g); reflexivity.
  - (* PAlt *)
    intros l IHl r IHr g i rest fuel [Hwl Hwr] Hs Hf Hfu. destruct fuel; [lia|]. rewrite rpattern_S. cbn [show_pat tr_pat] in *.
    rewrite <- app_assoc in Hs. cbn [app] in Hs.
    rewrite (IHl g i (124 :: show_pat r ++ rest) fuel Hwl Hs eq_refl) by lia. cbn [pbind].
    destruct (sk_app _ _ _ Hs) as [Hs1 Hle]. destruct (sk_rc _ _ _ Hs1) as (Hc & Hs2 & Hlt).
    destruct (tr_lit l g) as [s g1] eqn:El. cbn [fst snd]. unfold rc_is. rewrite Hc. cbn [N.eqb Pos.eqb].
    rewrite (IHr g1 (S (i + length (show_lit l))) rest fuel Hwr Hs2 Hf) by lia. cbn [pbind].
    destruct (tr_pat r g1) as [e g2]. cbn [fst snd]. apply trip4; [reflexivity| |reflexivity].
    rewrite app_length. cbn [length]. lia.
  - (* DNil *)
    intros g i rest fuel _ Hs Hf Hfu. destruct fuel; [lia|]. rewrite rdisj_S. cbn [show_disj app tr_disj fst snd length] in *.
    rewrite Nat.add_0_r. destruct rest as [|c tl]; [rewrite (sk_nil _ Hs); reflexivity|].
    destruct (sk_rc _ _ _ Hs) as (-> & _). cbn [dis_follow] in Hf. subst c. reflexivity.
  - (* DCons *)
    intros p IHp d IHd g i rest fuel [Hwp Hwd] Hs Hf Hfu. destruct fuel; [lia|]. rewrite rdisj_S. cbn [show_disj tr_disj] in *.
    rewrite <- app_assoc in Hs.
    destruct (pat_first p _ Hwp) as (c & tl & E & Hc1 & Hc41).
    assert (Hrc : rc i = Some c /\ (i < rlen)%nat) by (rewrite E in Hs; cbn [app] in Hs; apply sk_rc in Hs; tauto).
    destruct Hrc as [Hrc Hlt]. rewrite Hrc, (neq_eqb _ _ Hc41).
    assert (Hpf : pat_follow (show_disj d ++ rest)).
    { destruct d as [|p2 d2]; cbn [show_disj app].
      - destruct rest as [|x xs]; [exact I|]. cbn [dis_follow] in Hf. subst x. reflexivity.
      - cbn [wf_disj] in Hwd. destruct Hwd as [Hp2 _]. destruct (pat_first p2 _ Hp2) as (c2 & tl2 & E2 & H2 & _).
        rewrite <- app_assoc. rewrite E2. cbn [app pat_follow]. exact H2. }
    rewrite (IHp g i (show_disj d ++ rest) fuel Hwp Hs Hpf) by lia. cbn [pbind].
    destruct (tr_pat p g) as [e g1] eqn:Ep. cbn [fst snd].
    destruct (sk_app _ _ _ Hs) as [Hs1 _].
    assert (Hpos : (0 < length (show_pat p))%nat) by (rewrite E; cbn; lia).
    rewrite (IHd g1 (i + length (show_pat p))%nat rest fuel Hwd Hs1 Hf) by lia. cbn [pbind].
    destruct (tr_disj d g1) as [es g2]. cbn [fst snd]. apply trip4; [reflexivity| |reflexivity].
    rewrite app_length. lia.
Qed.

End RoundTrip.

(* C14: parsing the written form of a regular expression gives exactly the tree it denotes *)
Theorem regex_roundtrip_lemma (d : rdis) (g : nat) : wf_disj d [] ->
  parse_regexp (show_disj d) g = POk (EPrim (LSubExpr (fst (tr_disj d g))), snd (tr_disj d g)).
Proof.
  intros Hw. unfold parse_regexp.
  pose proof (proj2 (proj2 (proj2 (roundtrip_mutual (show_disj d)))) d g 0%nat [] (regex_fuel (show_disj d))) as H.
  rewrite H; [reflexivity|exact Hw|rewrite app_nil_r; reflexivity|exact I|unfold regex_fuel; lia].
Qed.
