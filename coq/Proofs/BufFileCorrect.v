(* C07: the buffered file reader returns exactly the bytes of the file, for every file size,
   every buffer size > 0 and every history of (seek, read) operations; the refill loop never
   spins. *)
From Model Require Import BufFile.
From Proofs Require Import RefineBase.
From Coq Require Import Lia.

Section Correct.
Variable bsz : nat.
Variable f : bytes.
Hypothesis Hbsz : 0 < bsz.

Notation fsz := (fsz f).

Definition Inv (b : bfile) : Prop := bmin b <= bmax b /\ bmax b <= fsz /\ bbuf b = sub f (bmin b) (bmax b).

(* what the string-backed reader answers: the bytes, or "" when the read is refused *)
Definition spec_read (off len : nat) : bytes :=
  if (Nat.eqb len 0 || Nat.ltb fsz (off + len))%bool then [] else sub f off (off + len).

Lemma file_read_at_sub ns : ns <= fsz ->
  file_read_at f ns bsz = sub f ns (ns + length (file_read_at f ns bsz)) /\ ns + length (file_read_at f ns bsz) <= fsz /\
  length (file_read_at f ns bsz) = Nat.min bsz (fsz - ns).
Proof.
  intros H. unfold file_read_at, sub. rewrite firstn_length, skipn_length. fold fsz.
  replace (ns + Nat.min bsz (fsz - ns) - ns) with (Nat.min bsz (fsz - ns)) by lia.
  split; [|split; [lia|reflexivity]].
  destruct (Nat.le_gt_cases bsz (fsz - ns)).
  - rewrite Nat.min_l by lia. reflexivity.
  - rewrite Nat.min_r by lia. rewrite !firstn_all2; auto; rewrite skipn_length; fold fsz; lia.
Qed.

Lemma recentre_ok new : new < fsz ->
  recentre bsz f new <= new /\ new < recentre bsz f new + Nat.min bsz (fsz - recentre bsz f new) /\ recentre bsz f new <= fsz.
Proof.
  intros Hn. unfold recentre. fold fsz.
  assert (Hd : Nat.div bsz 2 < bsz) by (apply Nat.div_lt; lia).
  destruct (Nat.ltb_spec fsz bsz); [destruct (Nat.leb_spec fsz (new - Nat.div bsz 2))|destruct (Nat.leb_spec (fsz - bsz) (new - Nat.div bsz 2))]; lia.
Qed.

Lemma recentre_le new : recentre bsz f new <= fsz.
Proof.
  unfold recentre. fold fsz.
  destruct (Nat.ltb_spec fsz bsz); [destruct (Nat.leb_spec fsz (new - Nat.div bsz 2))|destruct (Nat.leb_spec (fsz - bsz) (new - Nat.div bsz 2))]; lia.
Qed.

Lemma seek_inv b new : Inv b -> Inv (bf_seek bsz f b new) /\ bcur (bf_seek bsz f b new) = new /\
  (new < fsz -> bmin (bf_seek bsz f b new) <= new /\ new < bmax (bf_seek bsz f b new)).
Proof.
  intros (H1 & H2 & H3). unfold bf_seek.
  destruct (Nat.ltb_spec new (bmin b)); cbn [orb]; [|destruct (Nat.leb_spec (bmax b) new)].
  1,2: (destruct (file_read_at_sub (recentre bsz f new) (recentre_le new)) as (E1 & E2 & E3);
        split; [split; [cbn; lia|split; [cbn; exact E2|cbn; exact E1]]|]; split; [reflexivity|];
        intros Hn; destruct (recentre_ok new Hn) as (R1 & R2 & R3); cbn; rewrite E3; lia).
  split; [split; [exact H1|split; [exact H2|exact H3]]|]. split; [reflexivity|]. cbn. lia.
Qed.

Lemma sub_sub a b c d : a <= b -> c <= d -> a + d <= b -> b <= length f ->
  sub (sub f a b) c d = sub f (a + c) (a + d).
Proof.
  intros H1 H2 H3 H4. unfold sub. rewrite skipn_firstn_comm.
  replace (a + d - (a + c)) with (d - c) by lia.
  rewrite firstn_firstn. rewrite Nat.min_l by lia. f_equal.
  rewrite <- (skipn_add a c). reflexivity.
Qed.

Lemma read_correct : forall fuel b n acc,
  Inv b -> bmin b <= bcur b -> (0 < n -> bcur b < bmax b) -> bcur b + n <= fsz -> n <= S fuel ->
  exists b', bf_read bsz f fuel b n acc = Some (acc ++ sub f (bcur b) (bcur b + n), b') /\ Inv b'.
Proof.
  induction fuel as [|fuel IH]; intros b n acc (H1 & H2 & H3) Hmin Hav Hn Hf; cbn [bf_read].
  - assert (Hcases : n = 0 \/ (n = 1 /\ bcur b < bmax b)) by (destruct n as [|[|]]; [left; reflexivity|right; split; [reflexivity|apply Hav; lia]|lia]).
    assert (Hk : Nat.min (bmax b - bcur b) n = n) by (destruct Hcases as [E|[E Hlt]]; subst n; lia).
    rewrite Hk, Nat.sub_diag. cbn [Nat.eqb].
    assert (Hchunk : sub (bbuf b) (bcur b - bmin b) (bcur b - bmin b + n) = sub f (bcur b) (bcur b + n)).
    { destruct Hcases as [E|[E Hlt]]; subst n.
      - rewrite !Nat.add_0_r, !sub_same. reflexivity.
      - rewrite H3. unfold BufFile.fsz in *.
        rewrite (sub_sub (bmin b) (bmax b) (bcur b - bmin b) (bcur b - bmin b + 1) H1 ltac:(lia) ltac:(lia) H2).
        replace (bmin b + (bcur b - bmin b)) with (bcur b) by lia.
        replace (bmin b + (bcur b - bmin b + 1)) with (bcur b + 1) by lia. reflexivity. }
    rewrite Hchunk. eexists. split; [reflexivity|split; [exact H1|split; [exact H2|exact H3]]].
  - set (k := Nat.min (bmax b - bcur b) n).
    assert (Hchunk : sub (bbuf b) (bcur b - bmin b) (bcur b - bmin b + k) = sub f (bcur b) (bcur b + k)).
    { destruct (Nat.eq_dec n 0) as [En|En].
      - assert (k = 0) by (unfold k; lia). rewrite H, !Nat.add_0_r, !sub_same. reflexivity.
      - assert (Hlt : bcur b < bmax b) by (apply Hav; lia).
        rewrite H3. unfold BufFile.fsz in *.
        rewrite (sub_sub (bmin b) (bmax b) (bcur b - bmin b) (bcur b - bmin b + k) H1 ltac:(lia) ltac:(unfold k; lia) H2).
        replace (bmin b + (bcur b - bmin b)) with (bcur b) by lia.
        replace (bmin b + (bcur b - bmin b + k)) with (bcur b + k) by lia. reflexivity. }
    rewrite Hchunk.
    destruct (Nat.eqb_spec (n - k) 0) as [E|E].
    + assert (k = n) by (unfold k in *; lia). subst k. rewrite H.
      eexists. split; [reflexivity|split; [exact H1|split; [exact H2|exact H3]]].
    + assert (Hkk : k = bmax b - bcur b) by (unfold k in *; lia).
      assert (Hk1 : 0 < n -> 1 <= k) by (intros Hp; specialize (Hav Hp); lia).
      set (b1 := {| bmin := bmin b; bmax := bmax b; bcur := bcur b + k; bbuf := bbuf b |}).
      assert (Hcur1 : bcur b1 = bmax b) by (cbn; lia).
      destruct (seek_inv b1 (bcur b1) (conj H1 (conj H2 H3))) as (Hi & Hc & Hw).
      assert (Hlt : bcur b1 < fsz) by (cbn; lia).
      destruct (Hw Hlt) as [Hw1 Hw2].
      destruct (IH (bf_seek bsz f b1 (bcur b1)) (n - k) (acc ++ sub f (bcur b) (bcur b + k)) Hi) as (b' & E' & Hi').
      * rewrite Hc. exact Hw1.
      * intros _. rewrite Hc. exact Hw2.
      * rewrite Hc. cbn. lia.
      * specialize (Hk1 ltac:(lia)). lia.
      * exists b'. split; [|exact Hi']. rewrite E', Hc. cbn [bcur b1]. rewrite <- app_assoc.
        assert (Hkn : k <= n) by (unfold k; lia).
        assert (Hs : sub f (bcur b) (bcur b + k) ++ sub f (bcur b + k) (bcur b + k + (n - k)) = sub f (bcur b) (bcur b + n)).
        { rewrite sub_app; [|lia|lia]. replace (bcur b + k + (n - k)) with (bcur b + n) by lia. reflexivity. }
        rewrite Hs. reflexivity.
Qed.

Theorem read_at_correct r off len : Inv (rbf r) ->
  exists r', rd_read_at bsz f r off len = Some (spec_read off len, r') /\ Inv (rbf r').
Proof.
  intros Hi. unfold rd_read_at, rd_read, spec_read. cbn [roff rd_seek rbf].
  destruct (seek_inv (rbf r) off Hi) as (Hi' & Hc & Hw).
  destruct (Nat.eqb len 0 || Nat.ltb fsz (off + len))%bool eqn:E.
  - eexists. split; [reflexivity|exact Hi'].
  - apply Bool.orb_false_elim in E. destruct E as [E1 E2].
    apply Nat.eqb_neq in E1. apply Nat.ltb_ge in E2.
    destruct (Hw ltac:(lia)) as [Hw1 Hw2].
    destruct (read_correct (S len) (bf_seek bsz f (rbf r) off) len [] Hi') as (b' & E' & Hb').
    + rewrite Hc. exact Hw1.
    + intros _. rewrite Hc. exact Hw2.
    + rewrite Hc. exact E2.
    + lia.
    + rewrite E', Hc. cbn [app]. eexists. split; [reflexivity|exact Hb'].
Qed.

Lemma new_inv : Inv (bf_new bsz f).
Proof.
  destruct (file_read_at_sub 0 (Nat.le_0_l _)) as (E1 & E2 & E3).
  unfold Inv, bf_new. cbn. split; [lia|]. split; [exact E2|exact E1].
Qed.

(* every history of reads through the buffered file = the same history on the bytes in memory;
   the refill loop never runs out of fuel (never spins) *)
Theorem reader_refines_file_lemma : forall ops r, Inv (rbf r) ->
  rd_run bsz f r ops = Some (map (fun '(off, len) => spec_read off len) ops).
Proof.
  induction ops as [|[off len] ops IH]; intros r Hi; cbn [rd_run map]; [reflexivity|].
  destruct (read_at_correct r off len Hi) as (r' & E & Hi'). rewrite E, (IH r' Hi'). reflexivity.
Qed.

End Correct.

Theorem reader_refines_file_top bsz f : 0 < bsz -> forall ops,
  rd_run bsz f (rd_new bsz f) ops = Some (map (fun '(off, len) => spec_read f off len) ops).
Proof. intros H ops. apply reader_refines_file_lemma; [exact H|]. unfold rd_new. cbn [rbf]. apply new_inv; exact H. Qed.
