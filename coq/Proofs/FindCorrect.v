(* find_correct: the model's `find all` = the specification's leftmost, non-overlapping, non-empty
   scan taking at each start offset the first outcome in priority order. *)
From Model Require Import Engine.
From Spec Require Import Sem FindSpec.
From Proofs Require Import RefineBase RefineExec RefineRange Refine Attempt.
From Coq Require Import Lia.

Section Find.
Variable r : rx.
Variable text : bytes.
Hypothesis Hok : loop_ok r.

Let prog := compile r 0.

Notation outs0 := (fun off => outs text off (defs_of r) r (off, [])).

(* the specification of `find all`, as a relation *)
Inductive sscan : nat -> list span -> Prop :=
| ss_end off : length text <= off -> sscan off []
| ss_hit off l e v rest : off < length text -> outs0 off l -> hd_error l = Some (e, v) -> off < e ->
    sscan e rest -> sscan off ({| sp_start := off; sp_end := e; sp_env := v |} :: rest)
| ss_skip off l rest : off < length text -> outs0 off l ->
    (l = [] \/ exists v l', l = (off, v) :: l') -> sscan (S off) rest -> sscan off rest.

Definition span_of (m : mrec) : span := {| sp_start := mstart m; sp_end := mend m; sp_env := mvars m |}.

Definition faithful (m : mrec) : Prop := mvalue m = sub text (mstart m) (mend m) /\ mrepl m = None.

Lemma fail_step_some off ln cl : off < length text -> exists b, fail_step text off ln cl =
  Some (S off, if N.eqb b nl then S ln else ln, if N.eqb b nl then 1 else S cl).
Proof.
  intros H. unfold fail_step. destruct (nth_error text off) as [b|] eqn:E.
  - exists b. reflexivity.
  - apply nth_error_None in E. lia.
Qed.

Lemma sscan_end e rest : sscan e rest -> length text <= e -> rest = [].
Proof. intros H Hle. inversion H; subst; auto; lia. Qed.

Lemma scan_refines : forall off S, sscan off S ->
  forall ln cl num acc n, off < length text -> length text - off < n ->
  exists F, forall fuel, F <= fuel ->
    exists M, scan (attempt fuel prog text) text true 0 0 0 n off ln cl num acc = SOk (acc ++ M) /\
              map span_of M = S /\ Forall faithful M /\ map mnum M = seq (Datatypes.S num) (length M).
Proof.
  induction 1 as [off Hend|off l e v rest Hlt Ho Hhd He Hrest IH|off l rest Hlt Ho Hl Hrest IH];
    intros ln cl num acc n Hoff Hn.
  - lia.
  - (* a non-empty first outcome *)
    destruct l as [|q l']; [discriminate|]. cbn [hd_error] in Hhd. inversion Hhd; subst q.
    destruct (attempt_refines r text off ln cl _ Hok (Nat.lt_le_incl _ _ Hlt) Ho) as (F0 & HF0).
    assert (Hrng := outs_range text off (defs_of r) _ _ _ off Ho (Nat.le_refl _) (Nat.lt_le_incl _ _ Hlt)).
    inversion Hrng as [|? ? [_ Hele] _]; subst. cbn [fst] in Hele.
    cbn iota in HF0.
    remember (ocore text off ln cl (rx_len r) [] [] [] (e, v)) as c' eqn:Ec in *.
    assert (Hpos : pos (cur c') = e) by (rewrite Ec; apply cursor_at_pos; split; lia).
    assert (Hmat : matched (cur c') = sub text off e) by (rewrite Ec; apply cursor_at_matched).
    assert (Hce : cenv c' = v) by (rewrite Ec; reflexivity).
    assert (Hne : negb (Nat.eqb (length (matched (cur c'))) 0) = true).
    { rewrite Hmat, sub_length by lia. destruct (Nat.eqb_spec (e - off) 0); [lia|reflexivity]. }
    set (m := make_match (Datatypes.S num) off ln cl c').
    destruct n as [|n']; [lia|].
    destruct (Nat.leb_spec (length text) e) as [Hfin|Hmore].
    + (* the match ends the text *)
      assert (Erest : rest = []) by (eapply sscan_end; eauto). rewrite Erest in *. clear Erest.
      exists F0. intros fuel Hfuel. exists [m]. split; [|repeat split].
      * cbn [scan orb]. unfold scan_iter, attempt, prog.
        replace fuel with (F0 + (fuel - F0)) by lia. rewrite (HF0 (fuel - F0)). rewrite Hne.
        unfold push_match. cbn [Nat.leb Nat.eqb]. rewrite Hpos.
        destruct (Nat.leb_spec (length text) e); [reflexivity|lia].
      * cbn [map]. unfold span_of, m, make_match. cbn. rewrite Hpos, Hce. reflexivity.
      * constructor; [|constructor]. unfold faithful, m, make_match. cbn. rewrite Hpos, Hmat. auto.
    + destruct (IH (line (cur c')) (col (cur c')) (Datatypes.S num) (acc ++ [m]) n' Hmore ltac:(lia)) as (F1 & HF1).
      exists (Nat.max F0 F1). intros fuel Hfuel.
      destruct (HF1 fuel ltac:(lia)) as (M & HM & Hsp & Hfa & Hnum).
      exists (m :: M). split; [|repeat split].
      * cbn [scan orb]. unfold scan_iter, attempt, prog.
        replace fuel with (F0 + (fuel - F0)) at 1 by lia. rewrite (HF0 (fuel - F0)). rewrite Hne.
        unfold push_match. cbn [Nat.leb Nat.eqb]. rewrite Hpos.
        destruct (Nat.leb_spec (length text) e); [lia|].
        fold m. unfold attempt, prog in HM. rewrite HM, <- app_assoc. reflexivity.
      * cbn [map]. rewrite Hsp. f_equal. unfold span_of, m, make_match. cbn. rewrite Hpos, Hce. reflexivity.
      * constructor; [|exact Hfa]. unfold faithful, m, make_match. cbn. rewrite Hpos, Hmat. auto.
      * cbn [map length seq]. rewrite Hnum. reflexivity.
  - (* no outcome, or an empty first outcome: move one byte on *)
    destruct (attempt_refines r text off ln cl _ Hok (Nat.lt_le_incl _ _ Hlt) Ho) as (F0 & HF0).
    destruct (fail_step_some off ln cl Hlt) as (b & Hfs).
    destruct n as [|n']; [lia|].
    assert (Hiter : forall fuel, F0 <= fuel ->
              scan_iter (attempt fuel prog text) text 0 0 off ln cl num acc =
              IRNext (Datatypes.S off) (if N.eqb b nl then Datatypes.S ln else ln) (if N.eqb b nl then 1 else Datatypes.S cl) num acc).
    { intros fuel Hfuel. unfold scan_iter, attempt, prog. replace fuel with (F0 + (fuel - F0)) by lia.
      specialize (HF0 (fuel - F0)).
      destruct Hl as [El|(v & l' & El)]; subst l; rewrite HF0.
      - rewrite Hfs. reflexivity.
      - assert (Hm0 : matched (cur (ocore text off ln cl (rx_len r) [] [] [] (off, v))) = []).
        { cbn [ocore cur fst]. rewrite cursor_at_matched. apply sub_same. }
        rewrite Hm0. cbn [length Nat.eqb negb]. rewrite Hfs. reflexivity. }
    destruct (Nat.leb_spec (length text) (Datatypes.S off)) as [Hfin|Hmore].
    + assert (Erest : rest = []) by (eapply sscan_end; eauto). rewrite Erest in *. clear Erest.
      exists F0. intros fuel Hfuel. exists []. rewrite app_nil_r. split; [|repeat split; constructor].
      cbn [scan orb]. rewrite (Hiter fuel Hfuel).
      destruct (Nat.leb_spec (length text) (Datatypes.S off)); [reflexivity|lia].
    + destruct (IH (if N.eqb b nl then Datatypes.S ln else ln) (if N.eqb b nl then 1 else Datatypes.S cl) num acc n' Hmore ltac:(lia)) as (F1 & HF1).
      exists (Nat.max F0 F1). intros fuel Hfuel.
      destruct (HF1 fuel ltac:(lia)) as (M & HM & Hrestm).
      exists M. split; [|exact Hrestm].
      cbn [scan orb]. rewrite (Hiter fuel ltac:(lia)).
      destruct (Nat.leb_spec (length text) (Datatypes.S off)); [lia|]. exact HM.
Qed.

(* an empty body: every first outcome is empty, so the specification reports nothing either *)
Lemma empty_body_first off l : rx_len r = 0 -> off < length text -> outs0 off l ->
  l = [] \/ exists v l', l = (off, v) :: l'.
Proof.
  intros Hz Hlt Ho.
  destruct (attempt_refines r text off 1 1 _ Hok (Nat.lt_le_incl _ _ Hlt) Ho) as (F0 & HF0).
  specialize (HF0 0).
  assert (Hrun : forall n, run (compile r 0) text n (Running (init_core off 1 1) []) = Matched (init_core off 1 1)).
  { intros n. destruct n; cbn [run]; rewrite compile_length, Hz; reflexivity. }
  rewrite Hrun in HF0. destruct l as [|[e v] l']; [left; reflexivity|right].
  assert (Hrng := outs_range text off (defs_of r) _ _ _ off Ho (Nat.le_refl _) (Nat.lt_le_incl _ _ Hlt)).
  inversion Hrng as [|? ? [Hge Hle] _]; subst. cbn [fst] in *.
  assert (Hp : pos (cursor_at text off 1 1 e) = e) by (apply cursor_at_pos; split; lia).
  apply (f_equal (fun o => match o with Matched c => pos (cur c) | _ => 0 end)) in HF0.
  cbn [ocore cur fst init_core pos] in HF0. rewrite Hp in HF0. subst e. eauto.
Qed.

Lemma sscan_no_hits : (forall off l, off < length text -> outs0 off l -> l = [] \/ exists v l', l = (off, v) :: l') ->
  forall off S, sscan off S -> S = [].
Proof.
  intros Hall. induction 1 as [off Hend|off l e v rest Hlt Ho Hhd He Hrest IH|off l rest Hlt Ho Hl Hrest IH]; auto.
  exfalso. destruct (Hall off l Hlt Ho) as [E|(v' & l' & E)]; subst l; cbn [hd_error] in Hhd; [discriminate|].
  inversion Hhd; subst. lia.
Qed.

Theorem find_correct_lemma S : sscan 0 S ->
  exists F, forall fuel, F <= fuel ->
    exists M, find_matches fuel (compile r 0) text true 0 0 0 = SOk M /\
              map span_of M = S /\ Forall faithful M /\ map mnum M = seq 1 (length M).
Proof.
  intros HS. unfold find_matches.
  destruct (Nat.eqb_spec (length text) 0) as [Ht|Ht].
  { exists 0. intros fuel _. exists []. repeat split; try constructor.
    symmetry. eapply sscan_end; eauto. lia. }
  destruct (Nat.eqb_spec (length (compile r 0)) 0) as [Hp|Hp].
  { exists 0. intros fuel _. exists []. repeat split; try constructor.
    symmetry. eapply sscan_no_hits; [|exact HS]. intros off l Hlt Ho.
    apply empty_body_first; auto. rewrite <- (compile_length r 0). exact Hp. }
  destruct (scan_refines 0 S HS 1 1 0 [] (Datatypes.S (length text)) ltac:(lia) ltac:(lia)) as (F & HF).
  exists F. intros fuel Hfuel. destruct (HF fuel Hfuel) as (M & HM & Hrest). exists M. split; [exact HM|exact Hrest].
Qed.

End Find.

Lemma C02_vars_lemma :
  forall r text, loop_ok r -> forall S, sscan r text 0 S ->
  exists F, forall fuel, F <= fuel ->
    exists M, find_matches fuel (compile r 0) text true 0 0 0 = SOk M /\
              map (fun m => (mstart m, mend m, mvars m)) M = map (fun s => (sp_start s, sp_end s, sp_env s)) S.
Proof.
  intros r text Hok S HS. destruct (find_correct_lemma r text Hok S HS) as (F & HF).
  exists F. intros fuel Hf. destruct (HF fuel Hf) as (M & HM & Hsp & _). exists M. split; [exact HM|].
  rewrite <- Hsp, map_map. reflexivity.
Qed.
