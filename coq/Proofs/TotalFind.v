(* C10/C01 for guarded recursion, at the level of the engine: wherever the specification is total
   (an outcome list exists at every start offset), the scan of the specification exists, and so the
   VM's find all returns exactly it.  With [TotalRec] this covers every pattern whose recursive calls
   are guarded. *)
From Model Require Import Engine.
From Spec Require Import Sem FindSpec.
From Proofs Require Import RefineBase RefineRange Refine Attempt FindCorrect Total TotalRec.
From Coq Require Import Lia.
Local Open Scope nat_scope.

Section FindTotalAny.
Variable r : rx.
Variable text : bytes.
Hypothesis Hok : loop_ok r.
Hypothesis Htot : forall off, off <= length text -> exists l, outs text off (defs_of r) r (off, []) l.

Lemma sscan_total_any : forall n off, length text - off < n -> exists S, sscan r text off S.
Proof.
  induction n as [|n IH]; intros off Hn; [lia|].
  destruct (Nat.le_gt_cases (length text) off) as [Hend|Hlt].
  { exists []. constructor. exact Hend. }
  destruct (Htot off ltac:(lia)) as (l & Hl).
  pose proof (outs_range text off (defs_of r) _ _ _ off Hl (Nat.le_refl _) ltac:(cbn; lia)) as Hr.
  destruct l as [|[e v] l'].
  - destruct (IH (S off) ltac:(lia)) as (S1 & H1). exists S1. eapply ss_skip; eauto.
  - inversion Hr as [|? ? [Hge Hle] _]; subst. cbn [fst] in *.
    destruct (Nat.eq_dec e off) as [E|E].
    + subst e. destruct (IH (S off) ltac:(lia)) as (S1 & H1). exists S1. eapply ss_skip; eauto.
    + destruct (IH e ltac:(lia)) as (S1 & H1). exists ({| sp_start := off; sp_end := e; sp_env := v |} :: S1).
      apply (ss_hit r text off _ e v S1 Hlt Hl); [reflexivity|lia|exact H1].
Qed.

(* the engine's find all returns, and what it returns is the scan of the specification *)
Theorem find_decided_lemma :
  exists S, sscan r text 0 S /\
  exists F, forall fuel, F <= fuel ->
    exists M, find_matches fuel (compile r 0) text true 0 0 0 = SOk M /\
              map span_of M = S /\ Forall (faithful text) M /\ map mnum M = seq 1 (length M).
Proof.
  destruct (sscan_total_any (S (length text)) 0 ltac:(lia)) as (S0 & HS).
  exists S0. split; [exact HS|]. exact (find_correct_lemma r text Hok S0 HS).
Qed.

End FindTotalAny.

(* guarded recursion: every subroutine of r has a guarded body (at every start offset), r calls only
   its own subroutines *)
Theorem find_decided_guarded_lemma r text :
  loop_ok r ->
  (forall start t b p, defs_of r t = Some (b, p) -> pred_returns text start p /\ guarded text start (defs_of r) b /\ callok text start (defs_of r) b) ->
  (forall start, callok text start (defs_of r) r) ->
  exists S, sscan r text 0 S /\
  exists F, forall fuel, F <= fuel ->
    exists M, find_matches fuel (compile r 0) text true 0 0 0 = SOk M /\
              map span_of M = S /\ Forall (faithful text) M /\ map mnum M = seq 1 (length M).
Proof.
  intros Hok Hdefs Hc. apply find_decided_lemma; [exact Hok|].
  intros off Hoff. exact (outs_total_guarded_lemma text off (defs_of r) (Hdefs off) r (Hc off) (off, []) Hoff).
Qed.
