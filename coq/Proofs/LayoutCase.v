(* C15: layout and keyword case together, end to end through the lexer and the parser. *)
From Model Require Import Lexer Parser.
From Spec Require Import StrSpec LayoutSpec.
From Proofs Require Import Layout ParseErase.

Definition nonsep (e : lexel) : bool := negb (is_sep e).

(* the same token, or the same keyword in another letter case *)
Definition same_token (e e' : lexel) : Prop :=
  e = e' \/ exists w w', e = LWord w /\ e' = LWord w' /\ map lower_ascii w = map lower_ascii w' /\ word_type w <> IDENTIFIER.

Lemma word_type_matters w : matters (word_type w) = true -> word_type w = IDENTIFIER.
Proof.
  unfold word_type. destruct (alookup keywords (map lower_ascii w)) as [t|] eqn:E; [|reflexivity].
  revert E. unfold keywords. cbn [alookup].
  repeat match goal with |- (if ?c then _ else _) = _ -> _ => destruct c end; intros H; inversion H; subst; cbn; congruence.
Qed.

Lemma filter_idem {A} (f : A -> bool) l : filter f (filter f l) = filter f l.
Proof.
  induction l as [|a l IH]; [reflexivity|]. cbn [filter]. destruct (f a) eqn:E; cbn [filter]; rewrite ?E, IH; reflexivity.
Qed.

Lemma parse_filter ts : parse (filter significant ts) = parse ts.
Proof. unfold parse. rewrite filter_idem. reflexivity. Qed.

Theorem layout_case_invariance_lemma els1 els2 : valid_stream els1 -> valid_stream els2 ->
  Forall2 same_token (filter nonsep els1) (filter nonsep els2) ->
  parse_source (render els1) = parse_source (render els2).
Proof.
  intros H1 H2 Hf. unfold parse_source. rewrite (lex_layout_lemma els1 H1), (lex_layout_lemma els2 H2).
  rewrite <- (parse_filter (map tok_el els1 ++ _)), <- (parse_filter (map tok_el els2 ++ _)).
  rewrite !filter_app, !filter_tokens. fold nonsep.
  rewrite (keyword_spelling_irrelevant_lemma _ (map tok_el (filter nonsep els2) ++ filter significant [eof_token])); [reflexivity|].
  apply Forall2_app.
  - induction Hf as [|e e' l l' He _ IH]; [constructor|]. cbn [map]. constructor; [|exact IH].
    destruct He as [->|(w & w' & -> & -> & Hl & Hk)]; [split; auto|].
    cbn [tok_el ttyp lexeme]. split; [apply keyword_case_lemma; exact Hl|].
    intros Hm. apply word_type_matters in Hm. contradiction.
  - cbn. constructor; [split; auto|constructor].
Qed.
