(* The parser (and the regex sub-parser) never builds a `not in` list of negative size: listables are strings, ranges
   and one-character classes, and a list has at least one item.  (Second hypothesis of the generator's
   well-formedness theorem for C09; same walk over the parser as ParseListsOk.) *)
From Model Require Import Parser Gen.
From Proofs Require Import ResolveOk RegexRoundTrip ParseListsOk ResolveWf.
From Coq Require Import Lia.

Ltac pb X := eapply post_bind with (P := X).
Ltac pany := eapply post_bind; [apply post_any|]; intros ? _.

Definition e3s (r : expr * nat * nat) : Prop := sizes_ok_e (fst (fst r)).
Definition l3s (r : lit * nat * nat) : Prop := sizes_ok_l (fst (fst r)).
Definition es3s (r : exprs * nat * nat) : Prop := sizes_ok_es (fst (fst r)).

Lemma fold_max_ge (ls : list listable) : forall m, (m <= fold_left (fun m l => Z.max m (listable_maxsize l)) ls m)%Z.
Proof. induction ls as [|l ls IH]; intros m; cbn [fold_left]; [lia|]. specialize (IH (Z.max m (listable_maxsize l))). lia. Qed.

Lemma maxsize_cons l ls : (0 <= listable_maxsize l)%Z -> (0 <= list_maxsize (l :: ls))%Z.
Proof. intros H. unfold list_maxsize. cbn [fold_left]. pose proof (fold_max_ge ls (Z.max (-1) (listable_maxsize l))). lia. Qed.

(* ---- regex literals ---- *)
Section Regex.
Variable re : bytes.

Lemma with_quant_sz body j g : sizes_ok_e body -> post (with_quant re body j g) e3s.
Proof.
  intros Hb. unfold with_quant. pany. destruct a as [[[[mn mx] few]|] k]; cbn; exact Hb.
Qed.

Lemma resc_sz i : post (resc re i) (fun r => sizes_ok_l (fst r)).
Proof.
  unfold resc. destruct (rc re i) as [c|]; [|exact I].
  repeat match goal with
         | |- post (if ?c then _ else _) _ => destruct c
         | |- post (match rc re ?x with _ => _ end) _ => destruct (rc re x)
         | |- post (let '(_, _) := ?x in _) _ => destruct x
         | |- post PErr _ => exact I
         end.
  all: cbn; repeat split; try exact I; try discriminate.
Qed.

Lemma rclass_range_sz i : post (rclass_range re i) (fun r => (0 <= listable_maxsize (fst r))%Z).
Proof.
  unfold rclass_range. destruct (rc re i) as [c|]; [|exact I]. destruct (N.eqb c 92); [exact I|].
  eapply post_bind; [apply post_any|]. intros [st j] _. destruct st as [s0|]; [|exact I].
  destruct (rc re j) as [d|]; [|cbn; lia]. destruct (N.eqb d 45); [|cbn; lia].
  eapply post_bind; [apply post_any|]. intros [to k] _. destruct to; cbn; lia.
Qed.

Lemma rclass_items_sz : forall fuel i, post (rclass_items re fuel i) (fun r => Forall (fun l => (0 <= listable_maxsize l)%Z) (fst r)).
Proof.
  induction fuel as [|f IH]; intros i; cbn [rclass_items]; [exact I|].
  destruct (rc re i) as [c|]; [|cbn; constructor]. destruct (N.eqb c 93); [cbn; constructor|].
  pb (fun r : listable * nat => (0 <= listable_maxsize (fst r))%Z); [apply rclass_range_sz|]. intros [l j] Hl.
  pb (fun r : list listable * nat => Forall (fun l => (0 <= listable_maxsize l)%Z) (fst r)); [apply IH|]. intros [ls k] Hls. cbn. constructor; assumption.
Qed.

Lemma rclass_sz i : post (rclass re i) (fun r => sizes_ok_e (fst r)).
Proof.
  unfold rclass. destruct (rc re i) as [c0|]; [|exact I]. destruct (_ <=? _)%nat; [exact I|].
  pb (fun r : list listable * nat => Forall (fun l => (0 <= listable_maxsize l)%Z) (fst r)); [apply rclass_items_sz|]. intros [items j] Hit.
  destruct (_ <=? _)%nat; [exact I|]. cbn [post fst sizes_ok_e]. intros _.
  destruct items as [|l ls]; [cbn; lia|]. cbn [fst] in Hit. inversion Hit; subst. apply maxsize_cons. assumption.
Qed.

Lemma regex_sizes_mut : forall fuel,
  (forall i g, post (rdisj re fuel i g) es3s) /\
  (forall i g, post (rpattern re fuel i g) e3s) /\
  (forall i g, post (rliteral re fuel i g) e3s) /\
  (forall i g, post (rgroup re fuel i g) l3s).
Proof.
  induction fuel as [|f (ID & IP & IL & IG)]; [repeat split; intros; exact I|].
  repeat split; intros i g.
  - rewrite rdisj_S. destruct (Parser.rc re i) as [c|]; [|cbn; exact I]. destruct (N.eqb c 41); [cbn; exact I|].
    pb e3s; [apply IP|]. intros [[e j] g1] He. pb es3s; [apply ID|]. intros [[es k] g2] Hes. cbn. split; assumption.
  - rewrite rpattern_S. pb e3s; [apply IL|]. intros [[st j] g1] Hs. destruct (rc_is re j 124); [|exact Hs].
    pb e3s; [apply IP|]. intros [[e k] g2] He. cbn. split; [split; [exact Hs|exact I]|exact He].
  - rewrite rliteral_S. destruct (Parser.rc re i) as [c|]; [|exact I].
    destruct (N.eqb c 94); [cbn; exact I|]. destruct (N.eqb c 36); [cbn; exact I|].
    destruct (N.eqb c 92). { pb (fun r : lit * nat => sizes_ok_l (fst r)); [apply resc_sz|]. intros [l j] Hl. apply with_quant_sz. exact Hl. }
    destruct (N.eqb c 40). { pb l3s; [apply IG|]. intros [[l j] g1] Hl. apply with_quant_sz. exact Hl. }
    destruct (N.eqb c 91). { pb (fun r : expr * nat => sizes_ok_e (fst r)); [apply rclass_sz|]. intros [e j] He. apply with_quant_sz. exact He. }
    destruct (N.eqb c 46); apply with_quant_sz; exact I.
  - rewrite rgroup_S. destruct (Parser.rc re i) as [c|]; [|exact I]. destruct (N.eqb c 63).
    + destruct (Parser.rc re (S i)) as [marker|]; [|exact I].
      destruct (N.eqb marker 58). { pb es3s; [apply ID|]. intros [[es j] g1] Hes. destruct (rc_is re j 41); [exact Hes|exact I]. }
      destruct (N.eqb marker 61); [exact I|]. destruct (N.eqb marker 33); [exact I|]. destruct (N.eqb marker 60); [|exact I].
      destruct (Parser.rc re (S (S i))) as [a|]; [|exact I]. destruct (N.eqb a 61); [exact I|]. destruct (N.eqb a 33); [exact I|].
      destruct (rident re _ _ _) as [id j]. destruct (negb _); [exact I|].
      pb es3s; [apply ID|]. intros [[es k] g1] Hes. destruct (rc_is re k 41); [|exact I]. cbn. split; [exact Hes|exact I].
    + cbv zeta. pb es3s; [apply ID|]. intros [[es j] g1] Hes. destruct (rc_is re j 41); [|exact I]. cbn. split; [exact Hes|exact I].
Qed.

Lemma parse_regexp_sizes g : post (parse_regexp re g) (fun r => sizes_ok_e (fst r)).
Proof.
  unfold parse_regexp. pb es3s; [apply (proj1 (regex_sizes_mut _))|]. intros [[es j] g1] Hes. exact Hes.
Qed.

End Regex.

(* ---- the token parser ---- *)
Section Parse.
Variable toks : list token.

Lemma plistable_sz i : post (plistable toks i) (fun r => (0 <= listable_maxsize (fst r))%Z).
Proof.
  unfold plistable, pclass, ty. destruct (nth_error toks i) as [tk|]; [|exact I]. cbn [pbind].
  destruct (teq (ttyp tk) STRING).
  { destruct (nth_error toks (S i)) as [tk1|]; [|exact I]. cbn [pbind]. destruct (negb _); [cbn; lia|].
    eapply post_bind; [apply post_any|]. intros _ _. cbn. lia. }
  destruct (teq (ttyp tk) CASELESS). { eapply post_bind; [apply post_any|]. intros _ _. cbn. lia. }
  destruct (ttyp tk); cbn; try exact I; lia.
Qed.

Lemma pin_sz i nt : post (pin toks i nt) (fun r => sizes_ok_e (fst r)).
Proof.
  unfold pin. pb (fun r : listable * nat => (0 <= listable_maxsize (fst r))%Z); [apply plistable_sz|]. intros [l j] Hl.
  eapply post_bind; [apply post_any|]. intros [ls k] _. cbn. intros _. apply maxsize_cons. exact Hl.
Qed.

Lemma expr_sizes_mut : forall fuel,
  (forall i g, post (parse_expr toks fuel i g) e3s) /\
  (forall i g, post (pprim_or_dec toks fuel i g) e3s) /\
  (forall i g, post (por_or toks fuel i g) e3s) /\
  (forall i g, post (plit toks fuel i g) l3s) /\
  (forall stop i g, post (parse_exprs toks fuel stop i g) es3s).
Proof.
  induction fuel as [|f (IE & IPD & IOO & IL & IES)]; [repeat split; intros; exact I|].
  repeat split; intros; cbn [parse_expr pprim_or_dec por_or plit parse_exprs].
  - pany. destruct a; try exact I; try apply IPD.
    + (* REGEXP *) pb (fun r : expr * nat => sizes_ok_e (fst r)); [apply parse_regexp_sizes|]. intros [e g1] He. exact He.
    + (* OPENCURLY *) pb es3s; [apply IES|]. intros [[es j] g1] Hes. pany. pany. pany. exact Hes.
    + (* NOT *) pany. destruct (teq a NOT || teq a IN)%bool eqn:E; destruct (teq a IN).
      all: try (pb (fun r : expr * nat => sizes_ok_e (fst r)); [apply pin_sz|]; intros [e j] He; exact He).
      all: apply IPD.
    + (* AT *) pany. destruct (negb _); [exact I|]. pany. pb e3s; [apply IE|]. intros [[e j] g1] He. pany. destruct a1 as [few j1]. pany. destruct a1 as [nm j2].
      destruct (teq a LEAST); exact He.
    + (* BETWEEN *) pany. pany. pany. pb e3s; [apply IE|]. intros [[e j] g1] He. pany. destruct a2 as [few j1]. pany. destruct a2 as [nm j2]. exact He.
    + (* EXACTLY *) pany. pb e3s; [apply IE|]. intros [[e j] g1] He. pany. destruct a0 as [nm j2]. exact He.
    + (* MAYBE *) pb e3s; [apply IE|]. intros [[e j] g1] He. pany. destruct a as [few j1]. exact He.
    + (* IN *) pb (fun r : expr * nat => sizes_ok_e (fst r)); [apply pin_sz|]. intros [e j] He. exact He.
  - pb l3s; [apply IL|]. intros [[l j] g1] Hl. pany. destruct (teq a EQUAL); [pany; exact Hl|].
    destruct (teq a OR); [|exact Hl]. pb e3s; [apply IOO|]. intros [[r k] g2] Hr. cbn. split; assumption.
  - pb l3s; [apply IL|]. intros [[l j] g1] Hl. pany. destruct (teq a OR); [|exact Hl].
    pb e3s; [apply IOO|]. intros [[r k] g2] Hr. cbn. split; assumption.
  - pany. destruct (teq a STRING); [exact I|]. destruct (teq a CASELESS); [pany; exact I|]. destruct (teq a IDENTIFIER); [exact I|].
    destruct (teq a OPENPAREN). { pb es3s; [apply IES|]. intros [[es j] g1] Hes. pany. exact Hes. }
    destruct (teq a NOT). { pany. destruct (teq a0 STRING); [exact I|]. destruct (is_class_tok a0); [|exact I]. pany. destruct a1. exact I. }
    destruct (is_class_tok a); [|exact I]. pany. destruct a0. exact I.
  - pany. destruct (stop a); [exact I|]. pb e3s; [apply IE|]. intros [[e j] g1] He. pb es3s; [apply IES|]. intros [[es k] g2] Hes. cbn. split; assumption.
Qed.

Definition exprs_sizes fuel := proj2 (proj2 (proj2 (proj2 (expr_sizes_mut fuel)))).

Lemma pcommand_sizes : forall fuel i g, post (pcommand toks fuel i g) (fun r => match fst (fst r) with Some c => sizes_ok_c c | None => True end).
Proof.
  induction fuel as [|f IH]; intros i g; [exact I|]. cbn [pcommand]. pany.
  destruct a; try exact I.
  - (* FIND *) pany. destruct a as [[[[all sk] tk] la] j]. pb es3s; [apply exprs_sizes|]. intros [[es k] g1] Hes. exact Hes.
  - (* REPLACE *) pany. destruct a as [[[[all sk] tk] la] j]. pb es3s; [apply exprs_sizes|]. intros [[es k] g1] Hes. pany. pany. destruct a0 as [ats m]. exact Hes.
  - (* SET *) pany. pany. pany. destruct (teq a1 PATTERN).
    { pb es3s; [apply exprs_sizes|]. intros [[es j] g1] Hes. pany. destruct (negb _); [exact Hes|]. pany. destruct a3 as [ss k]. pany. exact Hes. }
    destruct (teq a1 MATCHES). { pb (fun r : option command * nat * nat => match fst (fst r) with Some c => sizes_ok_c c | None => True end); [apply IH|]. intros [[[c|] j] g1] Hc; [exact Hc|exact I]. }
    destruct (teq a1 TRANSFORM); [|exact I]. pany. pany. destruct a3 as [ss j]. pany. exact I.
Qed.

Lemma pcommands_sizes : forall fuel i g, post (pcommands toks fuel i g) (Forall sizes_ok_c).
Proof.
  induction fuel as [|f IH]; intros i g; [exact I|]. cbn [pcommands]. destruct (_ <? _); [|constructor].
  pb (fun r : option command * nat * nat => match fst (fst r) with Some c => sizes_ok_c c | None => True end); [apply pcommand_sizes|].
  intros [[oc j] g1] Hc. pb (Forall sizes_ok_c); [apply IH|]. intros cs Hcs. destruct oc; [constructor; assumption|exact Hcs].
Qed.

End Parse.

(* every program the parser returns satisfies the hypothesis of C01_generated_patterns_well_formed *)
Theorem parse_sizes_ok_lemma ts cs : parse ts = POk cs -> Forall sizes_ok_c cs.
Proof. intros H. pose proof (pcommands_sizes (filter significant ts) (S (length (filter significant ts))) 0 0) as P. unfold parse in H. rewrite H in P. exact P. Qed.
