(* C09 (closing the hypothesis of the unconditional theorem): every pattern the generator resolves is
   well formed in the sense of SafeCode.wf - in particular every call goes to a subroutine that sits,
   at that very program counter, inside the same pattern - provided `not in` lists have a non-negative
   size and stored predicates do not crash. *)
From Model Require Import Gen Engine.
From Spec Require Import Sem FindSpec.
From Proofs Require Import Refine ResolveOk SafeCode.
From Coq Require Import Lia.

(* ---- calls, subroutine positions, the local part of well-formedness ---- *)
Fixpoint calls_of (r : rx) : list nat :=
  match r with
  | XCall _ t => [t]
  | XSeq a b | XAlt a b => calls_of a ++ calls_of b
  | XLoop _ _ _ _ _ b | XDec _ b | XSub _ b _ => calls_of b
  | _ => []
  end.

Definition spcs (r : rx) (o : nat) : list nat := map fst (subs_of r o).

Fixpoint wfl (r : rx) : Prop :=
  match r with
  | XAtom i => is_atom i
  | XSeq a b | XAlt a b => wfl a /\ wfl b
  | XIn items => items <> [] /\ Forall is_atom items
  | XNotIn items mx => Forall is_atom items /\ (0 <= mx)%Z
  | XLoop _ _ _ _ _ b | XDec _ b => wfl b
  | XSub _ b pred => pred_safe pred /\ wfl b
  | _ => True
  end.

Lemma wf_split sd r : wfl r -> (forall t, In t (calls_of r) -> exists b p, sd t = Some (b, p)) -> wf sd r.
Proof.
  induction r; cbn [wfl calls_of wf]; intros Hl Hc; auto.
  - apply Hc. left. reflexivity.
  - destruct Hl. split; [apply IHr1|apply IHr2]; auto; intros t Ht; apply Hc; apply in_or_app; auto.
  - destruct Hl. split; [apply IHr1|apply IHr2]; auto; intros t Ht; apply Hc; apply in_or_app; auto.
  - destruct Hl. split; auto.
Qed.

Lemma spcs_seq a b o : spcs (XSeq a b) o = spcs a o ++ spcs b (o + rx_len a).
Proof. unfold spcs. cbn [subs_of]. apply map_app. Qed.
Lemma spcs_alt a b o : spcs (XAlt a b) o = spcs a (o + 1) ++ spcs b (o + 2 + rx_len a).
Proof. unfold spcs. cbn [subs_of]. apply map_app. Qed.

Lemma shift_len d r : rx_len (Rx.shift d r) = rx_len r.
Proof. induction r; cbn [Rx.shift rx_len]; auto. Qed.

Lemma spcs_shift d r : forall o, spcs (Rx.shift d r) o = spcs r o.
Proof.
  unfold spcs. induction r; intros o; cbn [Rx.shift subs_of map]; auto.
  - rewrite !map_app, shift_len, IHr1, IHr2. reflexivity.
  - rewrite !map_app, shift_len, IHr1, IHr2. reflexivity.
  - f_equal. apply IHr.
Qed.

Lemma spcs_move r : forall o d, spcs r (o + d) = map (fun t => t + d) (spcs r o).
Proof.
  unfold spcs. induction r; intros o d; cbn [subs_of map]; auto.
  - rewrite !map_app. rewrite <- IHr1, <- IHr2. f_equal. f_equal. f_equal. lia.
  - rewrite !map_app. rewrite <- IHr1, <- IHr2. f_equal; f_equal; f_equal; lia.
  - rewrite <- IHr. f_equal. f_equal. lia.
  - rewrite <- IHr. f_equal. f_equal. lia.
  - cbn [fst]. f_equal. rewrite <- IHr. f_equal. f_equal. lia.
Qed.

Lemma calls_shift d r : calls_of (Rx.shift d r) = map (fun t => t + d) (calls_of r).
Proof. induction r; cbn [Rx.shift calls_of map]; auto; rewrite map_app, IHr1, IHr2; reflexivity. Qed.

Lemma wfl_shift d r : wfl r -> wfl (Rx.shift d r).
Proof. induction r; cbn [Rx.shift wfl]; auto; intros [A B]; split; auto. Qed.

(* ---- the subroutine positions the generator's scope knows ---- *)
Definition vks (vs : list (name * varkind)) : list nat :=
  flat_map (fun nv => match snd nv with VKSub pc => [pc] | VKCapture => [] end) vs.

Lemma vks_aremove vs n t : In t (vks (aremove vs n)) -> In t (vks vs).
Proof.
  induction vs as [|[n' k] vs IH]; cbn [aremove vks flat_map]; auto. fold (vks vs). fold (vks (aremove vs n)).
  destruct (bytes_eqb n' n); [intros H; apply in_or_app; right; auto|].
  cbn [vks flat_map]. fold (vks (aremove vs n)). intros H. apply in_app_or in H. apply in_or_app. destruct H; auto.
Qed.

Lemma vks_aset vs n k t : In t (vks (aset vs n k)) -> (k = VKSub t) \/ In t (vks vs).
Proof.
  unfold aset. cbn [vks flat_map snd]. fold (vks (aremove vs n)). intros H. apply in_app_or in H. destruct H as [H|H].
  - destruct k; [destruct H|]. destruct H as [<-|[]]. left. reflexivity.
  - right. eapply vks_aremove; eauto.
Qed.

Lemma vks_lookup vs n pc : alookup vs n = Some (VKSub pc) -> In pc (vks vs).
Proof.
  induction vs as [|[n' k] vs IH]; cbn [alookup vks flat_map snd]; [discriminate|]. fold (vks vs).
  destruct (bytes_eqb n' n); intros H; apply in_or_app; [left; inversion H; subst; left; reflexivity|right; auto].
Qed.

(* ---- what is asked of the syntax tree and of the stored patterns ---- *)
Fixpoint sizes_ok_e (e : expr) : Prop :=
  match e with
  | ELoop _ _ _ _ b => sizes_ok_e b
  | EBranch l r => sizes_ok_l l /\ sizes_ok_e r
  | EDec _ l => sizes_ok_l l
  | ESub _ b => sizes_ok_es b
  | EList nt items => nt = true -> (0 <= list_maxsize items)%Z
  | EPrim l => sizes_ok_l l
  end
with sizes_ok_l (l : lit) : Prop :=
  match l with LSubExpr b => sizes_ok_es b | _ => True end
with sizes_ok_es (es : exprs) : Prop :=
  match es with ENil => True | ECons e r => sizes_ok_e e /\ sizes_ok_es r end.

Definition closed0 (b : rx) : Prop := forall t, In t (calls_of b) -> In t (spcs b 0).

Definition gs2_ok (g : gstate) : Prop :=
  forall n b p, alookup (gsubs g) n = Some (b, p) -> closed0 b /\ wfl b /\ pred_safe p.

(* calls of r and positions known afterwards: known before (entry scope E), or inside r *)
Definition good2 (E : nat -> Prop) (off : nat) (r : rx) (g g' : gstate) : Prop :=
  (forall t, In t (calls_of r) -> E t \/ In t (spcs r off)) /\
  (forall t, In t (vks (gvars g')) -> E t \/ In t (spcs r off)) /\
  wfl r /\ gsubs g' = gsubs g.

Definition known (g : gstate) (t : nat) : Prop := In t (vks (gvars g)).

Theorem resolve_wf_mut :
  (forall l, lists_ok_l l -> sizes_ok_l l -> forall off g r g', gs2_ok g -> resolve_lit l off g = GOk (r, g') -> good2 (known g) off r g g') /\
  (forall e, lists_ok_e e -> sizes_ok_e e -> forall off g r g', gs2_ok g -> resolve_expr e off g = GOk (r, g') -> good2 (known g) off r g g') /\
  (forall es, lists_ok_es es -> sizes_ok_es es -> forall off g r g', gs2_ok g -> resolve_exprs es off g = GOk (r, g') -> good2 (known g) off r g g').
Proof.
  apply ast_mut.
  - (* ELoop *)
    intros mn mx fw nm body IH Hl Hz off g r g' Hg H. cbn [resolve_expr lists_ok_e sizes_ok_e] in *.
    set (entry := gvars g) in *.
    set (tail := fun (cur : nat) (g1 : gstate) =>
        if (Nat.eqb (length nm) 0 && Z.eqb (Z.of_nat mn) mx)%bool then GOk (XEps, g1)
        else gbind (resolve_expr body (cur + 1) (set_vars g1 entry)) (fun '(c, g2) =>
               let newmin := if (Nat.eqb (length nm) 0 && Nat.ltb 0 mn)%bool then 0 else mn in
               let newmax := if (Nat.eqb (length nm) 0 && Z.ltb 0 mx)%bool then (mx - Z.of_nat mn)%Z else mx in
               let id := gnext g2 in
               GOk (XLoop id newmin newmax fw nm c, {| gvars := gvars g2; gsubs := gsubs g2; gtrans := gtrans g2; gnext := S id |}))) in *.
    set (E0 := fun t => In t (vks entry)).
    (* P: positions of the copies already laid out *)
    assert (Htail : forall (P : nat -> Prop) cur g1 r1 g1', gs2_ok g1 -> (forall t, In t (vks (gvars g1)) -> E0 t \/ P t) ->
              tail cur g1 = GOk (r1, g1') -> good2 (fun t => E0 t \/ P t) cur r1 g1 g1').
    { intros P cur g1 r1 g1' Hg1 Hk Ht. unfold tail in Ht.
      destruct (Nat.eqb (length nm) 0 && Z.eqb (Z.of_nat mn) mx)%bool.
      - inversion Ht; subst. split; [intros t []|]. split; [intros t Hin; left; apply Hk; exact Hin|]. split; [exact I|reflexivity].
      - destruct (resolve_expr body (cur + 1) (set_vars g1 entry)) as [[c g2]|] eqn:E; [|discriminate]. cbn [gbind] in Ht. inversion Ht; subst.
        destruct (IH Hl Hz (cur + 1) (set_vars g1 entry) c g2 (fun n b p Hn => Hg1 n b p Hn) E) as (A & B & C & D). cbn in D.
        unfold known in A, B. cbn [gvars set_vars] in A, B.
        split; [|split; [|split]]; cbn [calls_of wfl gvars gsubs]; auto.
        + intros t Hin. destruct (A t Hin) as [K|K]; [left; left; exact K|right; exact K].
        + intros t Hin. destruct (B t Hin) as [K|K]; [left; left; exact K|right; exact K]. }
    assert (Hun : forall k (P : nat -> Prop) cur g1 r1 g1', gs2_ok g1 -> (forall t, In t (vks (gvars g1)) -> E0 t \/ P t) ->
              (fix unroll (k : nat) (cur : nat) (g : gstate) (tail : nat -> gstate -> gres (rx * gstate)) : gres (rx * gstate) :=
                 match k with
                 | O => tail cur g
                 | S k' => gbind (resolve_expr body cur (set_vars g entry)) (fun '(c, g1) =>
                           gbind (unroll k' (cur + rx_len c) g1 tail) (fun '(rest, g2) => GOk (XSeq c rest, g2)))
                 end) k cur g1 tail = GOk (r1, g1') -> good2 (fun t => E0 t \/ P t) cur r1 g1 g1').
    { induction k as [|k IHk]; intros P cur g1 r1 g1' Hg1 Hk Hu.
      - eapply Htail; eauto.
      - destruct (resolve_expr body cur (set_vars g1 entry)) as [[c g2]|] eqn:E; [|discriminate]. cbn [gbind] in Hu.
        destruct (IH Hl Hz cur (set_vars g1 entry) c g2 (fun n b p Hn => Hg1 n b p Hn) E) as (A & B & C & D). cbn in D.
        unfold known in A, B. cbn [gvars set_vars] in A, B.
        match type of Hu with gbind ?x _ = _ => destruct x as [[rest g3]|] eqn:E2; [|discriminate] end. cbn [gbind] in Hu. inversion Hu; subst.
        assert (Hg2 : gs2_ok g2) by (intros n b p Hn; rewrite D in Hn; eapply Hg1; eauto).
        destruct (IHk (fun t => P t \/ In t (spcs c cur)) (cur + rx_len c) g2 rest g1' Hg2) as (A2 & B2 & C2 & D2); [|exact E2|].
        { intros t Hin. destruct (B t Hin) as [K|K]; [left; exact K|right; right; exact K]. }
        split; [|split; [|split]]; cbn [calls_of wfl]; auto.
        + intros t Hin. rewrite spcs_seq. apply in_app_or in Hin. destruct Hin as [Hin|Hin].
          * destruct (A t Hin) as [K|K]; [left; left; exact K|right; apply in_or_app; left; exact K].
          * destruct (A2 t Hin) as [[K|[K|K]]|K]; [left; left; exact K|left; right; exact K|right; apply in_or_app; left; exact K|right; apply in_or_app; right; exact K].
        + intros t Hin. rewrite spcs_seq. destruct (B2 t Hin) as [[K|[K|K]]|K]; [left; left; exact K|left; right; exact K|right; apply in_or_app; left; exact K|right; apply in_or_app; right; exact K].
        + congruence. }
    assert (Hfin : forall r1 g1', good2 (fun t => E0 t \/ False) off r1 g g1' -> good2 (known g) off r1 g g1').
    { intros r1 g1' (A & B & C & D). split; [|split; [|split]]; auto; intros t Hin; [destruct (A t Hin) as [[K|[]]|K]|destruct (B t Hin) as [[K|[]]|K]]; auto. }
    apply Hfin. destruct (Nat.eqb (length nm) 0); [eapply Hun; eauto|eapply Htail; eauto]; intros t Hin; left; exact Hin.
  - (* EBranch *)
    intros l IHl r IHr [Hl Hr] [Hzl Hzr] off g rx g' Hg H. cbn [resolve_expr] in H.
    destruct (resolve_lit l (off + 1) g) as [[a g1]|] eqn:E1; [|discriminate]. cbn [gbind] in H.
    destruct (resolve_expr r (off + 2 + rx_len a) g1) as [[b g2]|] eqn:E2; [|discriminate]. cbn [gbind] in H. inversion H; subst.
    destruct (IHl Hl Hzl _ _ _ _ Hg E1) as (A & B & C & D).
    assert (Hg1 : gs2_ok g1) by (intros n b0 p Hn; rewrite D in Hn; eapply Hg; eauto).
    destruct (IHr Hr Hzr _ _ _ _ Hg1 E2) as (A2 & B2 & C2 & D2). unfold known in *.
    split; [|split; [|split]]; cbn [calls_of wfl]; auto; [| |congruence].
    + intros t Hin. rewrite spcs_alt. apply in_app_or in Hin. destruct Hin as [Hin|Hin].
      * destruct (A t Hin) as [K|K]; [left; exact K|right; apply in_or_app; left; exact K].
      * destruct (A2 t Hin) as [K|K]; [|right; apply in_or_app; right; exact K].
        destruct (B t K) as [K'|K']; [left; exact K'|right; apply in_or_app; left; exact K'].
    + intros t Hin. rewrite spcs_alt. destruct (B2 t Hin) as [K|K]; [|right; apply in_or_app; right; exact K].
      destruct (B t K) as [K'|K']; [left; exact K'|right; apply in_or_app; left; exact K'].
  - (* EDec *)
    intros n l IHl Hl Hz off g rx g' Hg H. cbn [resolve_expr] in H.
    destruct (resolve_lit l (off + 1) g) as [[b g1]|] eqn:E1; [|discriminate]. cbn [gbind] in H.
    destruct (alookup (gvars g1) n); [discriminate|]. inversion H; subst.
    destruct (IHl Hl Hz _ _ _ _ Hg E1) as (A & B & C & D). unfold known in *.
    split; [|split; [|split]]; cbn [calls_of wfl gvars set_vars gsubs].
    + intros t Hin. exact (A t Hin).
    + intros t Hin. apply vks_aset in Hin. destruct Hin as [Hin|Hin]; [discriminate|]. exact (B t Hin).
    + exact C.
    + exact D.
  - (* ESub *)
    intros n body IH Hl Hz off g rx g' Hg H. cbn [resolve_expr] in H.
    destruct (alookup (gvars g) n); [discriminate|].
    match type of H with gbind ?x _ = _ => destruct x as [[b g1]|] eqn:E1; [|discriminate] end. cbn [gbind] in H. inversion H; subst.
    destruct (IH Hl Hz (off + 1) (set_vars g (aset (gvars g) n (VKSub off))) b g' (fun n0 b0 p Hn => Hg n0 b0 p Hn) E1) as (A & B & C & D). cbn in D.
    unfold known in *. cbn [gvars set_vars] in A, B.
    assert (Hhead : forall t, In t (vks (aset (gvars g) n (VKSub off))) -> In t (vks (gvars g)) \/ In t (spcs (XSub n b PNil) off)).
    { intros t Hin. apply vks_aset in Hin. destruct Hin as [Hin|Hin]; [inversion Hin; subst; right; left; reflexivity|left; exact Hin]. }
    split; [|split; [|split]]; cbn [calls_of wfl].
    + intros t Hin. destruct (A t Hin) as [K|K]; [apply Hhead; exact K|right; right; exact K].
    + intros t Hin. destruct (B t Hin) as [K|K]; [apply Hhead; exact K|right; right; exact K].
    + split; [apply pred_safe_nil|exact C].
    + exact D.
  - (* EList *)
    intros nt items Hl Hz off g rx g' Hg H. cbn [resolve_expr] in H. inversion H; subst. unfold known.
    destruct nt; (split; [intros t []|]; split; [intros t Hin; left; exact Hin|]; split; [|reflexivity]); cbn [wfl].
    + split; [apply listable_atoms|apply Hz; reflexivity].
    + split; [intros E; apply map_eq_nil in E; exact (Hl eq_refl E)|apply listable_atoms].
  - (* EPrim *) intros l IHl Hl Hz off g rx g' Hg H. cbn [resolve_expr] in H. eapply IHl; eauto.
  - (* LStr *) intros nt cl v _ _ off g r g' _ H. cbn in H. inversion H; subst. unfold known. split; [intros t []|]. split; [intros t Hin; left; exact Hin|]. split; [exact I|reflexivity].
  - (* LSubExpr *) intros body IH Hl Hz off g r g' Hg H. cbn in H. eapply IH; eauto.
  - (* LVar *) intros n _ _ off g r g' Hg H. cbn [resolve_lit] in H. unfold known.
    destruct (alookup (gvars g) n) as [[|pc]|] eqn:Ev.
    + inversion H; subst. split; [intros t []|]. split; [intros t Hin; left; exact Hin|]. split; [exact I|reflexivity].
    + inversion H; subst. split; [intros t [<-|[]]; left; eapply vks_lookup; eauto|]. split; [intros t Hin; left; exact Hin|]. split; [exact I|reflexivity].
    + destruct (alookup (gsubs g) n) as [[b0 validate]|] eqn:E; [|discriminate]. inversion H; subst.
      destruct (Hg n b0 validate E) as (Hcl & Hwb & Hps).
      split; [|split; [|split]]; cbn [calls_of wfl gvars set_vars gsubs]; [| | |reflexivity].
      * intros t Hin. right. rewrite calls_shift in Hin. apply in_map_iff in Hin. destruct Hin as (t0 & <- & Ht0).
        right. fold (spcs (Rx.shift (off + 1) b0) (off + 1)). rewrite spcs_shift. replace (off + 1) with (0 + (off + 1)) at 2 by lia. rewrite spcs_move.
        apply in_map_iff. exists t0. split; [reflexivity|apply Hcl; exact Ht0].
      * intros t Hin. apply vks_aset in Hin. destruct Hin as [Hin|Hin]; [inversion Hin; subst; right; left; reflexivity|left; exact Hin].
      * split; [exact Hps|apply wfl_shift; exact Hwb].
  - (* LClass *) intros nt c _ _ off g r g' _ H. cbn in H. inversion H; subst. unfold known. split; [intros t []|]. split; [intros t Hin; left; exact Hin|]. split; [exact I|reflexivity].
  - (* ENil *) intros _ _ off g rx g' Hg H. cbn in H. inversion H; subst. unfold known. split; [intros t []|]. split; [intros t Hin; left; exact Hin|]. split; [exact I|reflexivity].
  - (* ECons *)
    intros e IHe r IHr [He Hr] [Hze Hzr] off g rx g' Hg H. cbn [resolve_exprs] in H.
    destruct (resolve_expr e off g) as [[a g1]|] eqn:E1; [|discriminate]. cbn [gbind] in H.
    destruct (resolve_exprs r (off + rx_len a) g1) as [[b g2]|] eqn:E2; [|discriminate]. cbn [gbind] in H. inversion H; subst.
    destruct (IHe He Hze _ _ _ _ Hg E1) as (A & B & C & D).
    assert (Hg1 : gs2_ok g1) by (intros n b0 p Hn; rewrite D in Hn; eapply Hg; eauto).
    destruct (IHr Hr Hzr _ _ _ _ Hg1 E2) as (A2 & B2 & C2 & D2). unfold known in *.
    split; [|split; [|split]]; cbn [calls_of wfl]; auto; [| |congruence].
    + intros t Hin. rewrite spcs_seq. apply in_app_or in Hin. destruct Hin as [Hin|Hin].
      * destruct (A t Hin) as [K|K]; [left; exact K|right; apply in_or_app; left; exact K].
      * destruct (A2 t Hin) as [K|K]; [|right; apply in_or_app; right; exact K].
        destruct (B t K) as [K'|K']; [left; exact K'|right; apply in_or_app; left; exact K'].
    + intros t Hin. rewrite spcs_seq. destruct (B2 t Hin) as [K|K]; [|right; apply in_or_app; right; exact K].
      destruct (B t K) as [K'|K']; [left; exact K'|right; apply in_or_app; left; exact K'].
Qed.

(* ---- whole programs ---- *)
Fixpoint sizes_ok_c (c : command) : Prop :=
  match c with
  | CFind _ _ _ _ body | CReplace _ _ _ _ body _ => sizes_ok_es body
  | CSetPattern _ pat _ => sizes_ok_es pat
  | CSetTransform _ _ => True
  | CSetMatches _ c' => sizes_ok_c c'
  end.

(* the predicates of stored patterns do not crash (division by zero, undefined operation: the known findings K23, K24 are exactly the programs that fail this) *)
Fixpoint preds_ok_c (c : command) : Prop :=
  match c with
  | CSetPattern _ _ pred => pred_safe pred
  | CSetMatches _ c' => preds_ok_c c'
  | _ => True
  end.

Lemma nlookup_in_fst {A} (l : list (nat * A)) t : In t (map fst l) -> exists v, nlookup l t = Some v.
Proof.
  induction l as [|[k v] l IH]; cbn [map In nlookup fst]; [intros []|].
  destruct (Nat.eqb_spec k t); [intros _; eauto|]. intros [H|H]; [congruence|auto].
Qed.

Lemma closed_wf r : wfl r -> closed0 r -> wf (defs_of r) r.
Proof.
  intros Hl Hc. apply wf_split; [exact Hl|]. intros t Ht. apply Hc in Ht. unfold spcs in Ht.
  destruct (nlookup_in_fst _ _ Ht) as ([b p] & E). exists b, p. exact E.
Qed.

Lemma top_closed es g r g' : lists_ok_es es -> sizes_ok_es es -> gs2_ok g -> resolve_exprs es 0 (fresh_vars g) = GOk (r, g') ->
  closed0 r /\ wfl r /\ gsubs g' = gsubs g.
Proof.
  intros Hl Hz Hg H. destruct (proj2 (proj2 resolve_wf_mut) es Hl Hz 0 (fresh_vars g) r g' (fun n b p Hn => Hg n b p Hn) H) as (A & _ & C & D).
  split; [|split; [exact C|exact D]]. intros t Ht. destruct (A t Ht) as [K|K]; [destruct K|exact K].
Qed.

Lemma resolve_command_wf : forall c g x g', lists_ok_c c -> sizes_ok_c c -> preds_ok_c c -> gs2_ok g -> resolve_command c g = GOk (x, g') ->
  gs2_ok g' /\ match x with Some r => wf (defs_of r) r | None => True end.
Proof.
  induction c as [all sk tk la body|all sk tk la body res|id pat pred|id body|id c IH]; intros g x g' Hl Hz Hp Hg H; cbn [resolve_command lists_ok_c sizes_ok_c preds_ok_c] in *.
  - destruct (resolve_exprs body 0 (fresh_vars g)) as [[r g1]|] eqn:E; [|discriminate]. cbn [gbind] in H. inversion H; subst.
    destruct (top_closed body g r g' Hl Hz Hg E) as (A & C & D).
    split; [intros n b p Hn; rewrite D in Hn; eapply Hg; eauto|apply closed_wf; assumption].
  - destruct (resolve_exprs body 0 (fresh_vars g)) as [[r g1]|] eqn:E; [|discriminate]. cbn [gbind] in H. inversion H; subst.
    destruct (top_closed body g r g' Hl Hz Hg E) as (A & C & D).
    split; [intros n b p Hn; rewrite D in Hn; eapply Hg; eauto|apply closed_wf; assumption].
  - destruct (resolve_exprs pat 0 (fresh_vars g)) as [[r g1]|] eqn:E; [|discriminate]. cbn [gbind] in H. inversion H; subst.
    destruct (top_closed pat g r g1 Hl Hz Hg E) as (A & C & D).
    split; [|exact I]. intros n b p Hn. cbn [gsubs] in Hn. apply alookup_aset_cases in Hn. destruct Hn as [Hn|Hn].
    + inversion Hn; subst. auto.
    + rewrite D in Hn. eapply Hg; eauto.
  - inversion H; subst. split; [exact Hg|exact I].
  - destruct (resolve_command c (fresh_vars g)) as [[y g1]|] eqn:E; [|discriminate]. cbn [gbind] in H. inversion H; subst.
    destruct (IH (fresh_vars g) _ _ Hl Hz Hp (fun n b p Hn => Hg n b p Hn) E) as [A _]. split; [exact A|exact I].
Qed.

Theorem resolve_program_wf_lemma : forall cs g xs, Forall lists_ok_c cs -> Forall sizes_ok_c cs -> Forall preds_ok_c cs -> gs2_ok g ->
  resolve_program cs g = GOk xs -> Forall (fun x => match x with Some r => wf (defs_of r) r | None => True end) xs.
Proof.
  induction cs as [|c cs IH]; intros g xs Hl Hz Hp Hg H; cbn [resolve_program] in H.
  - inversion H; subst. constructor.
  - inversion Hl; subst. inversion Hz; subst. inversion Hp; subst.
    destruct (resolve_command c g) as [[x g1]|] eqn:E; [|discriminate]. cbn [gbind] in H.
    destruct (resolve_program cs g1) as [xs'|] eqn:E2; [|discriminate]. cbn [gbind] in H. inversion H; subst.
    destruct (resolve_command_wf c g x g1) as [Hg1 Hx]; auto. constructor; [exact Hx|eapply IH; eauto].
Qed.

Lemma init_gs2_ok : gs2_ok init_gstate.
Proof. intros n b p H. discriminate. Qed.
