(* Outcomes of the specification stay inside the text and never move backwards. *)
From Model Require Import VM.
From Spec Require Import Sem.
From Proofs Require Import RefineBase.
From Coq Require Import Lia.

Scheme outs_ind' := Induction for outs Sort Prop
  with outs_list_ind' := Induction for outs_list Sort Prop
  with iter_ind' := Induction for iter Sort Prop
  with iters_ind' := Induction for iters Sort Prop.
Combined Scheme outs_mut from outs_ind', outs_list_ind', iter_ind', iters_ind'.

Section Range.
Variable text : bytes.
Variable start : nat.
Variable defs : nat -> option (rx * pstmts).

Definition bnd (m : nat) (q : st) : Prop := m <= fst q /\ fst q <= length text.

Lemma filter_pred_incl pred l l' : filter_pred text start pred l l' -> forall q, In q l' -> In q l.
Proof.
  induction 1 as [|q0 l l' _ _ IH|q0 l l' _ _ IH]; intros q Hq; auto.
  - destruct Hq as [E|Hq]; [left; exact E|right; apply IH; exact Hq].
  - right. apply IH. exact Hq.
Qed.

Lemma Forall_filter_pred (P : st -> Prop) pred l l' : filter_pred text start pred l l' -> Forall P l -> Forall P l'.
Proof.
  intros Hf Hl. apply Forall_forall. intros q Hq. eapply Forall_forall; [exact Hl|]. eapply filter_pred_incl; eauto.
Qed.

Lemma atom_outs_bnd i s m : m <= fst s -> fst s <= length text -> Forall (bnd m) (atom_outs text i s).
Proof.
  intros H1 H2. unfold atom_outs. destruct (atom_pos text i (fst s)) as [p'|] eqn:E; [|constructor].
  apply atom_pos_range in E; auto. constructor; [|constructor]. unfold bnd. simpl. lia.
Qed.

Theorem outs_range_mut :
  (forall r s l, outs text start defs r s l -> forall m, m <= fst s -> fst s <= length text -> Forall (bnd m) l) /\
  (forall b la lb, outs_list text start defs b la lb -> forall m, Forall (bnd m) la -> Forall (bnd m) lb) /\
  (forall id mn mx fw b c s l, iter text start defs id mn mx fw b c s l ->
     forall m, m <= fst s -> fst s <= length text -> Forall (bnd m) l) /\
  (forall id mn mx fw b c s la l, iters text start defs id mn mx fw b c s la l ->
     forall m, m <= fst s -> fst s <= length text -> Forall (bnd m) la -> Forall (bnd m) l).
Proof.
  apply outs_mut.
  - (* eps *) intros s m H1 H2. constructor; [split; assumption|constructor].
  - (* atom *) intros i s m H1 H2. apply atom_outs_bnd; assumption.
  - (* ref *) intros n s m H1 H2. unfold ref_outs.
    destruct (alookup (snd s) n) as [[[|b v]|]|]; try constructor; try (split; assumption); try constructor.
    destruct (match_lit text (b :: v) false false (fst s)) as [p'|] eqn:E; [|constructor].
    apply match_lit_range in E; auto. constructor; [|constructor]. unfold bnd; simpl; lia.
  - (* seq *) intros a b s la lb _ IHa _ IHb m H1 H2. apply IHb. apply IHa; assumption.
  - (* alt *) intros a b s la lb _ IHa _ IHb m H1 H2. apply Forall_app. split; [apply IHa|apply IHb]; assumption.
  - (* in *) intros items s m H1 H2. induction items as [|i items IH]; cbn [flat_map]; [constructor|].
    apply Forall_app. split; [apply atom_outs_bnd; assumption|exact IH].
  - (* not in *) intros items mx s _ m H1 H2. unfold notin_outs.
    destruct (existsb _ _); [constructor|].
    destruct (Nat.eqb _ 0); [constructor|]. constructor; [|constructor].
    pose proof (consume_len_bound text (fst s) (Z.to_nat mx) H2). unfold bnd; simpl; lia.
  - (* loop *) intros id mn mx fw b s l _ IH m H1 H2. apply IH; assumption.
  - (* dec *) intros n b s la _ IH m H1 H2. specialize (IH m H1 H2).
    apply Forall_forall. intros q Hq. apply in_map_iff in Hq. destruct Hq as (q0 & E & Hq0). subst q.
    eapply Forall_forall in IH; [|exact Hq0]. exact IH.
  - (* sub *) intros n b pred s l l' _ IH Hf m H1 H2. eapply Forall_filter_pred; [exact Hf|]. apply IH; assumption.
  - (* call *) intros n t b pred s l l' _ _ IH Hf m H1 H2. eapply Forall_filter_pred; [exact Hf|]. apply IH; assumption.
  - (* outs_list nil *) intros b m _. constructor.
  - (* outs_list cons *) intros b s ss l1 l2 _ IH1 _ IH2 m H. inversion H as [|? ? Hs Hss]; subst.
    apply Forall_app. split; [apply IH1; destruct Hs; assumption|apply IH2; exact Hss].
  - (* iter min *) intros id mn mx fw b c s la l _ _ IHa _ IHs m H1 H2. apply IHs; auto.
  - (* iter greedy *) intros id mn mx b c s la l _ _ _ IHa _ IHs m H1 H2. apply Forall_app. split.
    + apply IHs; auto.
    + constructor; [split; assumption|constructor].
  - (* iter lazy *) intros id mn mx b c s la l _ _ _ IHa _ IHs m H1 H2. constructor; [split; assumption|]. apply IHs; auto.
  - (* iter over *) intros. constructor.
  - (* iters nil *) intros. constructor.
  - (* iters zero *) intros id mn mx fw b c s q qs l _ _ IH m H1 H2 H. inversion H; subst. apply IH; auto.
  - (* iters cons *) intros id mn mx fw b c s q qs l1 l2 _ _ IH1 _ IH2 m H1 H2 H. inversion H as [|? ? Hq Hqs]; subst.
    apply Forall_app. split; [apply IH1; destruct Hq; assumption|apply IH2; auto].
Qed.

Lemma outs_range r s l m : outs text start defs r s l -> m <= fst s -> fst s <= length text -> Forall (bnd m) l.
Proof. intros H. exact (proj1 outs_range_mut r s l H m). Qed.

End Range.
