(* C14 capstone: from the written regular expression to what the engine's `find all` reports.
   The resolved pattern of a regular expression proper is call-free, so the specification is total on it,
   the VM returns its scan, and every reported match is a word of the expression. *)
From Model Require Import Engine.
From Spec Require Import Sem FindSpec Lang RegexSpec RegexLang.
From Proofs Require Import RefineBase RefineRange Refine Attempt FindCorrect Total ResolveOk ResolveShape ParseListsOk
                           LangAtoms LangSound RegexLangSound RegexRoundTrip.
From Coq Require Import Lia.
Local Open Scope nat_scope.

(* no subroutine definitions and no calls *)
Fixpoint flat (r : rx) : Prop :=
  match r with
  | XCall _ _ | XSub _ _ _ => False
  | XSeq a b | XAlt a b => flat a /\ flat b
  | XLoop _ _ _ _ _ b | XDec _ b => flat b
  | _ => True
  end.

Lemma flat_fold copies tl : Forall flat copies -> flat tl -> flat (fold_right XSeq tl copies).
Proof. induction 1; cbn [fold_right flat]; auto. Qed.

Ltac step H x gx E := lazymatch type of H with gbind ?t _ = _ => destruct t as [[x gx]|] eqn:E; [|discriminate]; cbn [gbind] in H end.

Theorem resolve_plain_flat_mut :
  (forall l, plain_l l -> forall off g r g', resolve_lit l off g = GOk (r, g') -> flat r) /\
  (forall e, plain_e e -> forall off g r g', resolve_expr e off g = GOk (r, g') -> flat r) /\
  (forall es, plain_es es -> forall off g r g', resolve_exprs es off g = GOk (r, g') -> flat r).
Proof.
  apply ast_mut.
  - (* ELoop *)
    intros mn mx fw nm body IH Hp off g r g' H. cbn [plain_e] in Hp. destruct nm as [|n nm].
    + destruct (resolve_loop_form _ _ _ _ _ _ _ _ H) as (copies & tl & -> & _ & Hc & Htl). apply flat_fold.
      * eapply Forall_impl; [|exact Hc]. intros c (cur & g1 & g2 & E). eapply IH; eauto.
      * destruct Htl as [[_ ->]|(_ & id & c & (cur & g1 & g2 & E) & ->)]; [exact I|]. cbn [flat]. eapply IH; eauto.
    + cbn [resolve_expr length Nat.eqb andb] in H. step H c g2 E. inversion H; subst. cbn [flat]. eapply IH; eauto.
  - (* EBranch *)
    intros l IHl r0 IHr [Hl Hr] off g r g' H. cbn [resolve_expr] in H. step H a ga Ea. step H b gb Eb. inversion H; subst. cbn [flat]. split; [eapply IHl|eapply IHr]; eauto.
  - (* EDec *)
    intros n l IHl Hl off g r g' H. cbn [resolve_expr plain_e] in *. step H b gb Eb. destruct (alookup (gvars gb) n); [discriminate|]. inversion H; subst. cbn [flat]. eapply IHl; eauto.
  - (* ESub *) intros n body _ [].
  - (* EList *) intros nt items _ off g r g' H. cbn in H. destruct nt; inversion H; subst; exact I.
  - (* EPrim *) intros l IHl Hl off g r g' H. cbn [resolve_expr] in H. eapply IHl; eauto.
  - (* LStr *) intros nt cl v _ off g r g' H. cbn in H. inversion H; subst. exact I.
  - (* LSubExpr *) intros body IH Hl off g r g' H. cbn [resolve_lit] in H. eapply IH; eauto.
  - (* LVar *) intros n [].
  - (* LClass *) intros nt c _ off g r g' H. cbn in H. inversion H; subst. exact I.
  - (* ENil *) intros _ off g r g' H. cbn in H. inversion H; subst. exact I.
  - (* ECons *)
    intros e IHe r0 IHr [He Hr] off g r g' H. cbn [resolve_exprs] in H. step H a ga Ea. step H b gb Eb. inversion H; subst. cbn [flat]. split; [eapply IHe|eapply IHr]; eauto.
Qed.

Lemma flat_simple r : flat r -> pure r -> simple r.
Proof.
  induction r; cbn [flat pure simple]; try tauto.
  all: try (intros _ (_ & H & _); lia).
Qed.

Lemma flat_subs r : flat r -> forall o, subs_of r o = [].
Proof.
  induction r; cbn [flat subs_of]; intros H o; try reflexivity; try contradiction.
  - destruct H as [Ha Hb]. rewrite (IHr1 Ha), (IHr2 Hb). reflexivity.
  - destruct H as [Ha Hb]. rewrite (IHr1 Ha), (IHr2 Hb). reflexivity.
  - apply IHr; exact H.
  - apply IHr; exact H.
Qed.

(* the denotation of a regular expression proper refers to nothing *)
Theorem reg_plain_mut :
  (forall a, reg_atom a -> forall g, plain_e (fst (tr_atom a g))) /\
  (forall l, reg_lit l -> forall g, plain_e (fst (tr_lit l g))) /\
  (forall p, reg_pat p -> forall g, plain_e (fst (tr_pat p g))) /\
  (forall d, reg_disj d -> forall g, plain_es (fst (tr_disj d g))).
Proof.
  apply regex_mutind; try (intros; exact I); try (intros; contradiction).
  - (* RGroup *)
    intros k body IH Hreg g. cbn [reg_atom] in Hreg. destruct k as [| |id]; cbn [tr_atom].
    + specialize (IH Hreg (S g)). destruct (tr_disj body (S g)) as [es g1]. cbn in *. tauto.
    + specialize (IH Hreg g). destruct (tr_disj body g) as [es g1]. cbn in *. tauto.
    + specialize (IH Hreg g). destruct (tr_disj body g) as [es g1]. cbn in *. tauto.
  - (* RQ *)
    intros a IH q Hreg g. cbn [tr_lit]. destruct q as [[qq lz]|]; cbn [reg_lit] in Hreg.
    + destruct Hreg as (Ha & _ & mn & mx & Hq & _). specialize (IH Ha g). destruct (tr_atom a g) as [b g1]. cbn [fst apply_q] in *. rewrite Hq. cbn [plain_e]. exact IH.
    + specialize (IH Hreg g). destruct (tr_atom a g) as [b g1]. cbn [fst apply_q] in *. exact IH.
  - (* POne *) intros l IH Hreg g. cbn [tr_pat]. apply IH. exact Hreg.
  - (* PAlt *)
    intros l IHl p IHp [Hl Hp] g. cbn [tr_pat]. specialize (IHl Hl g). destruct (tr_lit l g) as [s g1]. specialize (IHp Hp g1). destruct (tr_pat p g1) as [e g2].
    cbn in *. tauto.
  - (* DCons *)
    intros p IHp d IHd [Hp Hd] g. cbn [tr_disj]. specialize (IHp Hp g). destruct (tr_pat p g) as [e g1]. specialize (IHd Hd g1). destruct (tr_disj d g1) as [es g2].
    cbn in *. tauto.
Qed.

(* ---- the capstone ---- *)
Theorem regex_find_all_lemma d g e g' gs rc gs' text :
  wf_disj d [] -> reg_disj d -> gs_ok gs ->
  parse_regexp (show_disj d) g = POk (e, g') ->
  resolve_exprs (ECons e ENil) 0 gs = GOk (rc, gs') ->
  exists F, forall fuel, F <= fuel ->
    exists M, find_matches fuel (compile rc 0) text true 0 0 0 = SOk M /\
      map mnum M = seq 1 (length M) /\
      Forall (fun m => mstart m < mend m /\ mend m <= length text /\ mvalue m = sub text (mstart m) (mend m) /\ rd_lang d (mvalue m)) M.
Proof.
  intros Hwf Hreg Hgs Hparse Hres.
  pose proof (parse_regexp_lists (show_disj d) g) as Hlists. rewrite Hparse in Hlists. cbn in Hlists.
  rewrite (regex_roundtrip_lemma d g Hwf) in Hparse. inversion Hparse; subst e g'. clear Hparse.
  (* the command body is the expression's pattern followed by nothing *)
  cbn [resolve_exprs resolve_expr resolve_lit] in Hres. step Hres r g1 Er. inversion Hres; subst rc gs'. clear Hres.
  destruct (proj2 (proj2 (proj2 (regex_lang_mut (defs_of (XSeq r XEps))))) d Hreg g 0 gs r g1 Er) as [Hp Hw].
  assert (Hflat : flat r).
  { eapply (proj2 (proj2 resolve_plain_flat_mut)); [|exact Er]. apply (proj2 (proj2 (proj2 reg_plain_mut))). exact Hreg. }
  assert (Hok : loop_ok (XSeq r XEps)).
  { split; [|exact I]. destruct (proj2 (proj2 resolve_ok_mut) _ Hlists 0 gs r g1 Hgs Er) as [H _]. exact H. }
  assert (Hpure : pure (XSeq r XEps)) by (split; [exact Hp|exact I]).
  assert (Hsimple : simple (XSeq r XEps)) by (split; [apply flat_simple; assumption|exact I]).
  assert (Hdefs : forall t b p, defs_of (XSeq r XEps) t = Some (b, p) -> p = PNil /\ pure b).
  { intros t b p H. unfold defs_of in H. cbn [subs_of] in H. rewrite (flat_subs r Hflat) in H. discriminate. }
  destruct (sscan_total (XSeq r XEps) text Hsimple (S (length text)) 0 ltac:(lia)) as (S0 & HS).
  destruct (find_correct_lemma (XSeq r XEps) text Hok S0 HS) as (F & HF).
  exists F. intros fuel Hfuel. destruct (HF fuel Hfuel) as (M & HM & Hspans & Hfaith & Hnum). exists M. split; [exact HM|]. split; [exact Hnum|].
  (* every span of the scan is a word *)
  assert (Hwords : forall off S, sscan (XSeq r XEps) text off S ->
            Forall (fun sp => sp_start sp < sp_end sp /\ sp_end sp <= length text /\ rd_lang d (sub text (sp_start sp) (sp_end sp))) S).
  { induction 1 as [off Hend|off l e0 v rest Hlt Ho Hhd He Hrest IH|off l rest Hlt Ho Hl Hrest IH]; [constructor| |exact IH].
    constructor; [|exact IH]. cbn [sp_start sp_end].
    destruct l as [|q l']; [discriminate|]. cbn in Hhd. inversion Hhd; subst q.
    destruct (proj1 (outs_lang_lemma text off _ Hdefs _ _ _ Ho Hpure ltac:(cbn; lia) e0) (ex_intro _ v (or_introl eq_refl))) as (H1 & H2 & HL).
    cbn [fst] in *. split; [exact He|]. split; [exact H2|].
    apply lang_seq_inv in HL. destruct HL as (u & w2 & E & Hu & Hw2). apply lang_eps_inv in Hw2. subst w2. rewrite app_nil_r in E. rewrite E. apply Hw. exact Hu. }
  specialize (Hwords 0 S0 HS). rewrite <- Hspans in Hwords. clear HS HF HM.
  revert Hwords Hfaith. clear. induction M as [|m M IH]; intros Hwords Hfaith; [constructor|].
  cbn [map] in Hwords. inversion Hwords as [|? ? (H1 & H2 & H3) Hw']; subst. inversion Hfaith as [|? ? (Hv & _) Hf']; subst.
  constructor; [|apply IH; assumption]. cbn [span_of sp_start sp_end] in *. rewrite Hv. auto.
Qed.
