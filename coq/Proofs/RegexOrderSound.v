(* C14, the order of the alternatives: the ordered outcomes (Spec/Sem.v) of the pattern the generator resolves
   from a regular expression end, IN THE SAME ORDER, at the positions a conventional backtracking engine
   finds (Spec/RegexOrder.v) - so the match `find` reports at a start offset is the one such an engine reports. *)
From Model Require Import Gen Engine.
From Spec Require Import Sem FindSpec Lang RegexSpec RegexLang RegexOrder.
From Proofs Require Import RefineBase RefineRange Total LangAtoms LangSound RegexLangSound RegexFind RegexOrderFun.
From Coq Require Import Lia.
Local Open Scope nat_scope.

Lemma step1_ext text f g p : (forall b, f b = g b) -> step1 text f p = step1 text g p.
Proof. intros H. unfold step1. destruct (nth_error text p) as [b|]; [rewrite H|]; reflexivity. Qed.

Lemma lit1_one c : one_byte (IMatchLit false false [c]) (N.eqb c).
Proof.
  one_byte_tac; [|reflexivity]. rewrite xorb_false_r. unfold compare_bytes. cbn. rewrite Bool.andb_true_r. reflexivity.
Qed.

Lemma item_one c : item_ascii c -> one_byte (instr_of c) (fun b => item_has b c).
Proof.
  destruct c as [x|lo hi]; cbn [item_ascii instr_of tr_item listable_instr item_has].
  - intros H. rewrite (encode_ascii x H). intros text p. rewrite (lit1_one x text p).
    destruct (nth_error text p) as [b|]; [|reflexivity]. rewrite (N.eqb_sym x b). reflexivity.
  - intros [H1 H2]. rewrite (encode_ascii lo H1), (encode_ascii hi H2). intros text p. rewrite (range1_one false lo hi text p).
    destruct (nth_error text p) as [b|]; [|reflexivity]. rewrite xorb_false_r, !bytes_leb1. reflexivity.
Qed.

Section OrderSound.
Variable text : bytes.
Variable start : nat.
Variable defs : nat -> option (rx * pstmts).

Notation T := (length text).
Notation outs := (Sem.outs text start defs).
Notation outs_list := (Sem.outs_list text start defs).
Notation iter := (Sem.iter text start defs).
Notation iters := (Sem.iters text start defs).

(* the outcomes of r, from every state, end where O says, in O's order *)
Definition ordered (r : rx) (O : nat -> list nat -> Prop) : Prop :=
  forall s l, fst s <= T -> outs r s l -> O (fst s) (map fst l).

Lemma atom_outs_one i f s : one_byte i f -> map fst (atom_outs text i s) = step1 text f (fst s).
Proof.
  intros H. unfold atom_outs, step1. rewrite (H text (fst s)). destruct (nth_error text (fst s)) as [b|]; [|reflexivity].
  destruct (f b); reflexivity.
Qed.

Lemma ordered_atom i f (O : nat -> list nat -> Prop) :
  one_byte i f -> (forall p, O p (step1 text f p)) -> ordered (XAtom i) O.
Proof. intros H1 HO s l _ Ho. inversion Ho; subst. rewrite (atom_outs_one i f s H1). apply HO. Qed.

(* a bracket class that lists no byte twice *)
Lemma in_outs_hits items s : Forall item_ascii items ->
  map fst (flat_map (fun i => atom_outs text i s) (map listable_instr (map tr_item items))) =
  match nth_error text (fst s) with Some b => repeat (fst s + 1) (hits b items) | None => [] end.
Proof.
  induction 1 as [|c items Hc Hall IH]; cbn [map flat_map hits].
  - destruct (nth_error text (fst s)); reflexivity.
  - unfold st in *. rewrite map_app, IH. change (listable_instr (tr_item c)) with (instr_of c). rewrite (atom_outs_one _ _ s (item_one c Hc)). unfold step1.
    destruct (nth_error text (fst s)) as [b|]; [|reflexivity]. destruct (item_has b c); reflexivity.
Qed.

Lemma hits_exists b items : existsb (item_has b) items = negb (Nat.eqb (hits b items) 0).
Proof.
  induction items as [|c items IH]; [reflexivity|]. cbn [existsb hits]. rewrite IH. destruct (item_has b c); [reflexivity|]. reflexivity.
Qed.


(* ---- inversion of the outcome relation, by shape ---- *)
Lemma outs_eps_inv s l : outs XEps s l -> l = [s].
Proof. inversion 1; reflexivity. Qed.
Lemma outs_atom_inv i s l : outs (XAtom i) s l -> l = atom_outs text i s.
Proof. inversion 1; reflexivity. Qed.
Lemma outs_seq_inv a b s l : outs (XSeq a b) s l -> exists la, outs a s la /\ outs_list b la l.
Proof. inversion 1; subst. eauto. Qed.
Lemma outs_alt_inv a b s l : outs (XAlt a b) s l -> exists la lb, l = la ++ lb /\ outs a s la /\ outs b s lb.
Proof. inversion 1; subst. eauto. Qed.
Lemma outs_in_inv items s l : outs (XIn items) s l -> l = flat_map (fun i => atom_outs text i s) items.
Proof. inversion 1; reflexivity. Qed.
Lemma outs_notin_inv items mx s l : outs (XNotIn items mx) s l -> l = notin_outs text items mx s.
Proof. inversion 1; reflexivity. Qed.
Lemma outs_dec_inv n b s l : outs (XDec n b) s l -> exists la, l = map (bind text n s) la /\ outs b s la.
Proof. inversion 1; subst. eauto. Qed.
Lemma outs_loop_inv id mn mx fw b s l : outs (XLoop id mn mx fw [] b) s l -> iter id mn mx fw b 0 s l.
Proof. inversion 1; subst. assumption. Qed.

Lemma outs_list_eps la l : outs_list XEps la l -> l = la.
Proof.
  revert l. induction la as [|q la IH]; intros l H; inversion H; subst; [reflexivity|].
  match goal with Ho : outs XEps q _ |- _ => apply outs_eps_inv in Ho; subst end. cbn. f_equal. apply IH. assumption.
Qed.

Lemma outs_seq_eps a s l : outs (XSeq a XEps) s l -> outs a s l.
Proof. intros H. apply outs_seq_inv in H. destruct H as (la & Ha & Hl). apply outs_list_eps in Hl. subst. exact Ha. Qed.

Lemma map_fst_bind n s la : map fst (map (bind text n s) la) = map fst la.
Proof. rewrite map_map. apply map_ext. intros q. reflexivity. Qed.

Lemma ordered_seq_eps a O : ordered a O -> ordered (XSeq a XEps) O.
Proof. intros H s l Hs Ho. apply H; [exact Hs|apply outs_seq_eps; exact Ho]. Qed.

Lemma ordered_dec n b O : ordered b O -> ordered (XSeq (XDec n b) XEps) O.
Proof.
  intros H s l Hs Ho. apply outs_seq_eps in Ho. apply outs_dec_inv in Ho. destruct Ho as (la & -> & Hb).
  rewrite map_fst_bind. apply H; assumption.
Qed.

(* the rest of a row, from every outcome of its head *)
Lemma ordered_each b (O : nat -> list nat -> Prop) (E : list nat -> list nat -> Prop) :
  ordered b O -> E [] [] -> (forall p ps l1 l2, O p l1 -> E ps l2 -> E (p :: ps) (l1 ++ l2)) ->
  forall la lb, Forall (fun q : st => fst q <= T) la -> outs_list b la lb -> E (map fst la) (map fst lb).
Proof.
  intros Hb Hnil Hcons. induction la as [|q la IH]; intros lb Hr H; inversion H; subst; [exact Hnil|].
  inversion Hr; subst. rewrite map_app. cbn [map]. apply Hcons; [apply Hb; assumption|apply IH; assumption].
Qed.

Lemma range_le r s l : outs r s l -> fst s <= T -> Forall (fun q : st => fst s <= fst q /\ fst q <= T) l.
Proof. intros H Hs. exact (outs_range text start defs r s l (fst s) H (Nat.le_refl _) Hs). Qed.

(* ---- one-byte atoms of the translation ---- *)
Lemma consume1 p : consume_len text p 1 = match nth_error text p with Some _ => 1 | None => 0 end.
Proof. unfold consume_len, rd. rewrite read1. destruct (nth_error text p); reflexivity. Qed.

Lemma notin_exists items p : Forall item_ascii items ->
  existsb (fun i => is_some (atom_pos text i p)) (map listable_instr (map tr_item items)) =
  match nth_error text p with Some b => existsb (item_has b) items | None => false end.
Proof.
  induction 1 as [|c items Hc Hall IH]; cbn [map existsb].
  - destruct (nth_error text p); reflexivity.
  - rewrite IH. change (listable_instr (tr_item c)) with (instr_of c). rewrite (item_one c Hc text p).
    destruct (nth_error text p) as [b|]; [|reflexivity]. destruct (item_has b c); reflexivity.
Qed.

(* ---- quantifiers ---- *)
Definition body_ok (a : ratom) (c : rx) : Prop :=
  ordered c (ra_ord text a) /\ forall s la, fst s <= T -> outs c s la -> Forall (fun q : st => fst s < fst q) la.

Lemma iter_stop id mx fw c k q l : within mx k = false -> iter id 0 mx fw c k q l -> l = [].
Proof. intros Hw H. inversion H; subst; try reflexivity; try lia; congruence. Qed.

Lemma iters_stop id mx fw c k s la l : within mx (S k) = false -> iters id 0 mx fw c k s la l -> l = [].
Proof.
  intros Hw. revert l. induction la as [|q la IH]; intros l H; inversion H; subst; [reflexivity|apply IH; assumption|].
  match goal with Hi : iter _ _ _ _ _ (S k) q _ |- _ => apply (iter_stop _ _ _ _ _ _ _ Hw) in Hi; subst end.
  cbn. apply IH. assumption.
Qed.

Lemma tail_ord a mn mx lz id newmax c : body_ok a c -> (forall k, within newmax k = within mx (mn + k)) ->
  forall n s k l, T - fst s < n -> fst s <= T -> within mx (mn + k) = true -> iter id 0 newmax lz c k s l ->
  rq_ord text a mn mx lz (mn + k) (fst s) (map fst l).
Proof.
  intros [Hord Hadv] Hw. induction n as [|n IH]; intros s k l Hn Hs Hin Hi; [lia|].
  assert (Heach : forall fw la l0, outs c s la -> iters id 0 newmax fw c k s la l0 -> fw = lz ->
            within mx (S (mn + k)) = true -> rq_each text a mn mx lz (S (mn + k)) (map fst la) (map fst l0)).
  { intros fw la l0 Hla Hit -> Hnext. pose proof (Hadv s la Hs Hla) as Hlt. pose proof (range_le c s la Hla Hs) as Hr.
    clear Hla. revert l0 Hit. induction la as [|q la IHla]; intros l0 Hit; inversion Hit; subst.
    - constructor.
    - inversion Hlt; subst. lia.
    - inversion Hlt; subst. inversion Hr as [|? ? [Hq1 Hq2] Hr']; subst. rewrite map_app. cbn [map]. constructor.
      + replace (S (mn + k)) with (mn + S k) by lia. apply IH; [lia|exact Hq2|replace (mn + S k) with (S (mn + k)) by lia; exact Hnext|assumption].
      + apply IHla; assumption. }
  inversion Hi; subst.
  - lia.
  - match goal with Hb : outs c s ?la, Hit : iters _ _ _ _ _ _ _ ?la ?l0 |- _ =>
      destruct (within mx (S (mn + k))) eqn:Hnext;
      [rewrite map_app; cbn [map]; apply rq_greedy with (la := map fst la); [lia|exact Hnext|apply Hord; assumption|eapply Heach; eauto]
      |assert (l0 = []) by (eapply iters_stop; [|exact Hit]; rewrite Hw; replace (mn + S k) with (S (mn + k)) by lia; exact Hnext);
       subst; cbn; apply rq_full; [lia|exact Hnext]] end.
  - match goal with Hb : outs c s ?la, Hit : iters _ _ _ _ _ _ _ ?la ?l0 |- _ =>
      destruct (within mx (S (mn + k))) eqn:Hnext;
      [cbn [map]; apply rq_lazy with (la := map fst la); [lia|exact Hnext|apply Hord; assumption|eapply Heach; eauto]
      |assert (l0 = []) by (eapply iters_stop; [|exact Hit]; rewrite Hw; replace (mn + S k) with (S (mn + k)) by lia; exact Hnext);
       subst; cbn; apply rq_full; [lia|exact Hnext]] end.
  - match goal with Hx : within newmax k = false |- _ => rewrite Hw in Hx; congruence end.
Qed.

Lemma copies_ord a mn mx lz tl : 
  (forall s l, fst s <= T -> outs tl s l -> rq_ord text a mn mx lz mn (fst s) (map fst l)) ->
  forall copies, Forall (body_ok a) copies -> forall c, c + length copies = mn ->
  forall s l, fst s <= T -> outs (fold_right XSeq tl copies) s l -> rq_ord text a mn mx lz c (fst s) (map fst l).
Proof.
  intros Htl. induction copies as [|c1 copies IH]; intros Hall c Hc s l Hs Ho; cbn [fold_right length] in *.
  - replace c with mn by lia. apply Htl; assumption.
  - inversion Hall as [|? ? [Hord Hadv] Hall']; subst. apply outs_seq_inv in Ho. destruct Ho as (la & Ha & Hl).
    apply rq_must with (la := map fst la); [lia|apply Hord; assumption|].
    pose proof (range_le c1 s la Ha Hs) as Hr. clear Ha. revert l Hl. induction la as [|q la IHla]; intros l Hl; inversion Hl; subst.
    + constructor.
    + inversion Hr as [|? ? [Hq1 Hq2] Hr']; subst. rewrite map_app. cbn [map]. constructor; [apply IH; [exact Hall'|lia|exact Hq2|assumption]|apply IHla; assumption].
Qed.



(* ---- ^ and $ ---- *)
Lemma read2 p : read text p 2 = match nth_error text p, nth_error text (p + 1) with Some a, Some b => [a; b] | _, _ => [] end.
Proof.
  unfold read. cbn [Nat.eqb]. destruct (Nat.ltb_spec T (p + 2)) as [H|H].
  - assert (E : nth_error text (p + 1) = None) by (apply nth_error_None; lia). rewrite E. destruct (nth_error text p); reflexivity.
  - unfold sub. replace (p + 2 - p) with 2 by lia.
    assert (Hl : length (skipn p text) = T - p) by apply skipn_length.
    assert (Hn : forall k, nth_error text (p + k) = nth_error (skipn p text) k).
    { intros k. rewrite <- (firstn_skipn p text) at 1. rewrite nth_error_app2; rewrite firstn_length; [|lia]. f_equal. lia. }
    rewrite <- (Nat.add_0_r p) at 2. rewrite !Hn.
    destruct (skipn p text) as [|a [|b r]]; cbn [length] in Hl; try lia. reflexivity.
Qed.

Lemma bytes_eqb1 a b : bytes_eqb [a] [b] = N.eqb a b.
Proof. cbn. apply Bool.andb_true_r. Qed.

Lemma bol_outs s : map fst (atom_outs text (IMatchClass false CLineStart) s) = if at_bol text (fst s) then [fst s] else [].
Proof.
  unfold atom_outs, at_bol. cbn [atom_pos match_class]. unfold match_linestart, xorb_not, rd.
  destruct (Nat.eqb (fst s) 0); [reflexivity|]. cbn [orb]. rewrite read1, xorb_false_r.
  destruct (nth_error text (fst s - 1)) as [b|]; [|reflexivity]. rewrite bytes_eqb1. unfold nl. destruct (N.eqb b 10); reflexivity.
Qed.

Lemma eol_outs s : map fst (atom_outs text (IMatchClass false CLineEnd) s) = if at_eol text (fst s) then [fst s] else [].
Proof.
  unfold atom_outs, at_eol. cbn [atom_pos match_class]. unfold match_lineend, at_line_end, xorb_not, rd. rewrite read1, read2, xorb_false_r.
  destruct (nth_error text (fst s)) as [b|] eqn:Eb.
  - rewrite bytes_eqb1. unfold nl, cr.
    assert (Hlt : fst s < T) by (apply nth_error_Some; congruence).
    assert (Hne : Nat.eqb (fst s) T = false) by (apply Nat.eqb_neq; lia).
    unfold size. rewrite Hne.
    destruct (nth_error text (fst s + 1)) as [b2|]; cbn [bytes_eqb orb andb].
    + destruct (N.eqb b 10), (N.eqb b 13), (N.eqb b2 10); reflexivity.
    + destruct (N.eqb b 10), (N.eqb b 13); reflexivity.
  - unfold size. cbn [bytes_eqb orb]. destruct (Nat.eqb (fst s) T); reflexivity.
Qed.

(* ---- the theorem ---- *)
Definition okr (r : rx) (O : nat -> list nat -> Prop) : Prop := ordered r O /\ simple r /\ flat r.

Lemma okr_atom i f (O : nat -> list nat -> Prop) : one_byte i f -> (forall p, O p (step1 text f p)) -> okr (XAtom i) O.
Proof. intros H1 HO. split; [eapply ordered_atom; eauto|split; exact I]. Qed.

Lemma simple_fold copies tl : Forall simple copies -> simple tl -> simple (fold_right XSeq tl copies).
Proof. induction 1; cbn [fold_right simple]; auto. Qed.

Lemma consuming a c : nn_atom a = true -> ordered c (ra_ord text a) ->
  forall s la, fst s <= T -> outs c s la -> Forall (fun q : st => fst s < fst q) la.
Proof.
  intros Hn Hord s la Hs Ho. pose proof (Hord s la Hs Ho) as H. apply (proj1 (ord_advances_mut text)) in H. destruct H as [_ H]. specialize (H Hn).
  rewrite Forall_map in H. exact H.
Qed.

Ltac step H x gx E := lazymatch type of H with gbind ?t _ = _ => destruct t as [[x gx]|] eqn:E; [|discriminate]; cbn [gbind] in H end.

Theorem regex_order_mut :
  (forall a, oreg_atom a -> forall g off gs r gs', resolve_expr (fst (tr_atom a g)) off gs = GOk (r, gs') -> okr r (ra_ord text a)) /\
  (forall l, oreg_lit l -> forall g off gs r gs', resolve_expr (fst (tr_lit l g)) off gs = GOk (r, gs') -> okr r (rl_ord text l)) /\
  (forall p, oreg_pat p -> forall g off gs r gs', resolve_expr (fst (tr_pat p g)) off gs = GOk (r, gs') -> okr r (rp_ord text p)) /\
  (forall d, oreg_disj d -> forall g off gs r gs', resolve_exprs (fst (tr_disj d g)) off gs = GOk (r, gs') -> okr r (rd_ord text d)).
Proof.
  apply regex_mutind.
  - (* RChar *)
    intros c Hc g off gs r gs' H. cbn in H. cbn [oreg_atom] in Hc. rewrite (encode_ascii c Hc) in H. inversion H; subst.
    apply (okr_atom _ _ _ (lit1_one c)). intros p. constructor.
  - (* REscChar *)
    intros c Hc g off gs r gs' H. cbn in H. cbn [oreg_atom] in Hc. rewrite (encode_ascii c Hc) in H. inversion H; subst.
    apply (okr_atom _ _ _ (lit1_one c)). intros p. constructor.
  - (* RDot *)
    intros _ g off gs r gs' H. cbn in H. inversion H; subst.
    apply (okr_atom _ _ _ (notlit1_one false 10%N)). intros p.
    rewrite (step1_ext text _ (dot_ok) p); [constructor|]. intros b. unfold dot_ok, compare_bytes. cbn. rewrite Bool.andb_true_r, (N.eqb_sym b 10). reflexivity.
  - (* RCls *)
    intros neg space _ g off gs r gs' H. cbn in H. inversion H; subst. destruct space.
    + apply (okr_atom _ _ _ (whitespace_one neg)). intros p.
      rewrite (step1_ext text _ (fun b => xorb (cls_has true b) neg) p); [constructor|]. intros b. f_equal. unfold cls_has. cbn.
      rewrite !Bool.andb_true_r, Bool.orb_false_r, !Bool.orb_assoc. reflexivity.
    + apply (okr_atom _ _ _ (digit_one neg)). intros p.
      rewrite (step1_ext text _ (fun b => xorb (cls_has false b) neg) p); [constructor|]. intros b. rewrite !bytes_leb1. reflexivity.
  - (* RBracket *)
    intros neg items (Hne & Hall & Hord) g off gs r gs' H. cbn [tr_atom fst resolve_expr] in H.
    destruct neg; inversion H; subst; clear H.
    + (* [^...] *)
      rewrite (list_maxsize_ascii items Hne Hall). split; [|split; [cbn; lia|exact I]]. intros s l Hs Ho. apply outs_notin_inv in Ho. subst l.
      unfold notin_outs. rewrite (notin_exists items (fst s) Hall). change (Z.to_nat 1) with 1. rewrite consume1.
      assert (E : forall l0, l0 = step1 text (fun b => xorb (existsb (item_has b) items) true) (fst s) -> ra_ord text (RBracket true items) (fst s) l0)
        by (intros l0 ->; constructor).
      apply E. unfold step1. destruct (nth_error text (fst s)) as [b|]; [|reflexivity].
      rewrite xorb_true_r. destruct (existsb (item_has b) items); reflexivity.
    + (* [...] *)
      split; [|split; exact I]. intros s l Hs Ho. apply outs_in_inv in Ho. subst l. rewrite (in_outs_hits items s Hall).
      assert (E : forall l0, l0 = step1 text (fun b => xorb (existsb (item_has b) items) false) (fst s) -> ra_ord text (RBracket false items) (fst s) l0)
        by (intros l0 ->; constructor).
      apply E. unfold step1. destruct (nth_error text (fst s)) as [b|]; [|reflexivity].
      rewrite xorb_false_r, hits_exists. specialize (Hord eq_refl b).
      destruct (hits b items) as [|[|n]]; [reflexivity|reflexivity|lia].
  - (* RBackNum *) intros d [].
  - (* RBackNum2 *) intros d1 d2 [].
  - (* RBackName *) intros id [].
  - (* RGroup *)
    intros k body IH Hreg g off gs r gs' H. cbn [oreg_atom] in Hreg.
    assert (Hgrp : forall rb, okr rb (rd_ord text body) -> okr rb (ra_ord text (RGroup k body))).
    { intros rb (Hb & Hs1 & Hf1). split; [|split; assumption]. intros s l Hs Ho. constructor. apply Hb; assumption. }
    assert (Hdec : forall n rb, okr rb (rd_ord text body) -> okr (XSeq (XDec n rb) XEps) (ra_ord text (RGroup k body))).
    { intros n rb (Hb & Hs1 & Hf1). split; [|split; cbn; auto]. intros s l Hs Ho. constructor. revert s l Hs Ho. apply ordered_dec. exact Hb. }
    destruct k as [| |id]; cbn [tr_atom] in H.
    + destruct (tr_disj body (S g)) as [es g1] eqn:Et. cbn [fst resolve_expr resolve_lit resolve_exprs] in H.
      step H a ga Ea. inversion H; subst. clear H.
      step Ea rb g2 Erb. destruct (alookup (gvars g2) _); [discriminate|]. inversion Ea; subst.
      apply Hdec. specialize (IH Hreg (S g) (off + 1) gs rb g2). rewrite Et in IH. apply IH. exact Erb.
    + destruct (tr_disj body g) as [es g1] eqn:Et. cbn [fst resolve_expr resolve_lit] in H.
      apply Hgrp. specialize (IH Hreg g off gs r gs'). rewrite Et in IH. apply IH. exact H.
    + destruct (tr_disj body g) as [es g1] eqn:Et. cbn [fst resolve_expr resolve_lit resolve_exprs] in H.
      step H a ga Ea. inversion H; subst. clear H.
      step Ea rb g2 Erb. destruct (alookup (gvars g2) _); [discriminate|]. inversion Ea; subst.
      apply Hdec. specialize (IH Hreg g (off + 1) gs rb g2). rewrite Et in IH. apply IH. exact Erb.
  - (* RBol *)
    intros _ g off gs r gs' H. cbn in H. inversion H; subst. split; [|split; exact I].
    intros s l Hs Ho. apply outs_atom_inv in Ho. subst l. rewrite bol_outs. constructor.
  - (* REol *)
    intros _ g off gs r gs' H. cbn in H. inversion H; subst. split; [|split; exact I].
    intros s l Hs Ho. apply outs_atom_inv in Ho. subst l. rewrite eol_outs. constructor.
  - (* RQ *)
    intros a IH q Hreg g off gs r gs' H. cbn [tr_lit] in H. destruct (tr_atom a g) as [b g1] eqn:Et. cbn [fst] in H.
    destruct q as [[qq lz]|]; cbn [oreg_lit apply_q] in *.
    + destruct Hreg as (Ha & Hnn & mn & mx & Hq & Hmx). rewrite Hq in H.
      assert (Hres : forall c, from_body b c -> okr c (ra_ord text a)).
      { intros c (cur & gx & gy & Hc). specialize (IH Ha g cur gx c gy). rewrite Et in IH. apply IH. exact Hc. }
      assert (Hbody : forall c, from_body b c -> body_ok a c).
      { intros c Hc. destruct (Hres c Hc) as (Ho & _ & _). split; [exact Ho|apply (consuming a c Hnn Ho)]. }
      destruct (resolve_loop_form _ _ _ _ _ _ _ _ H) as (copies & tl & -> & Hlen & Hcopies & Htl).
      assert (Hcs : Forall simple copies /\ Forall flat copies).
      { split; apply Forall_forall; intros c Hc; rewrite Forall_forall in Hcopies; destruct (Hres c (Hcopies c Hc)) as (_ & ? & ?); assumption. }
      split; [|split].
      2:{ apply simple_fold; [tauto|]. destruct Htl as [[_ ->]|(_ & id & c & Hc & ->)]; [exact I|]. cbn [simple]. split; [reflexivity|]. destruct (Hres c Hc) as (_ & ? & _). assumption. }
      2:{ apply flat_fold; [tauto|]. destruct Htl as [[_ ->]|(_ & id & c & Hc & ->)]; [exact I|]. cbn [flat]. destruct (Hres c Hc) as (_ & _ & ?). assumption. }
      intros s l Hs Ho. apply (ro_quant text a qq lz mn mx (fst s) _ Hq).
      apply (copies_ord a mn mx lz tl) with (copies := copies); [| |lia|exact Hs|exact Ho].
      * (* the tail *)
        destruct Htl as [[Heq ->]|(Hneq & id & c & Hc & ->)].
        -- intros s0 l0 Hs0 Ho0. apply outs_eps_inv in Ho0. subst l0. cbn [map]. apply rq_full; [lia|].
           unfold within. destruct (Z.eqb_spec mx (-1)); [lia|]. cbn [orb]. apply Z.leb_gt. lia.
        -- intros s0 l0 Hs0 Ho0.
           assert (Hnewmin : (if Nat.ltb 0 mn then 0 else mn) = 0) by (destruct (Nat.ltb_spec 0 mn); lia).
           rewrite Hnewmin in Ho0. apply outs_loop_inv in Ho0.
           set (newmax := if Z.ltb 0 mx then (mx - Z.of_nat mn)%Z else mx) in *.
           assert (Hwithin : forall k, within newmax k = within mx (mn + k)).
           { intros k. unfold within, newmax. destruct Hmx as [->|Hmx']; [reflexivity|].
             destruct (Z.ltb_spec 0 mx) as [Hp|Hp]; [|lia].
             destruct (Z.eqb_spec (mx - Z.of_nat mn) (-1)); [lia|]. destruct (Z.eqb_spec mx (-1)); [lia|]. cbn [orb].
             destruct (Z.leb_spec (Z.of_nat k) (mx - Z.of_nat mn)); destruct (Z.leb_spec (Z.of_nat (mn + k)) mx); try reflexivity; lia. }
           assert (G : rq_ord text a mn mx lz (mn + 0) (fst s0) (map fst l0)); [|rewrite Nat.add_0_r in G; exact G].
           apply (tail_ord a mn mx lz id newmax c (Hbody c Hc) Hwithin (S (T - fst s0))); [lia|exact Hs0| |exact Ho0].
           rewrite Nat.add_0_r. unfold within. destruct Hmx as [->|Hmx']; [reflexivity|]. apply Bool.orb_true_iff. right. apply Z.leb_le. lia.
      * apply Forall_forall. intros c Hc. rewrite Forall_forall in Hcopies. apply Hbody. apply Hcopies. exact Hc.
    + specialize (IH Hreg g off gs r gs'). rewrite Et in IH. destruct (IH H) as (Ho & Hs1 & Hf1). split; [|split; assumption].
      intros s l Hs Hx. constructor. apply Ho; assumption.
  - (* POne *)
    intros l IH Hreg g off gs r gs' H. cbn [tr_pat oreg_pat] in *. destruct (IH Hreg g off gs r gs' H) as (Ho & Hs1 & Hf1). split; [|split; assumption].
    intros s l0 Hs Hx. constructor. apply Ho; assumption.
  - (* PAlt *)
    intros l IHl p IHp [Hl Hp] g off gs r gs' H. cbn [tr_pat] in H.
    destruct (tr_lit l g) as [s0 g1] eqn:El. destruct (tr_pat p g1) as [e g2] eqn:Ep. cbn [fst resolve_expr resolve_lit resolve_exprs] in H.
    step H a ga Ea. step H b gb Eb. inversion H; subst. clear H.
    step Ea rs g3 Ers.
    specialize (IHl Hl g (off + 1) gs rs g3). rewrite El in IHl. destruct (IHl Ers) as (Hol & Hsl & Hfl).
    inversion Ea; subst. clear Ea.
    pose proof (IHp Hp g1) as IHp'. rewrite Ep in IHp'. destruct (IHp' _ _ _ _ Eb) as (Hob & Hsb & Hfb).
    split; [|split; cbn; auto].
    intros s l0 Hs Ho. apply outs_alt_inv in Ho. destruct Ho as (la & lb & -> & Ha & Hb). rewrite map_app. constructor.
    + apply Hol; [exact Hs|apply outs_seq_eps; exact Ha].
    + apply Hob; assumption.
  - (* DNil *)
    intros _ g off gs r gs' H. cbn in H. inversion H; subst. split; [|split; exact I]. intros s l Hs Ho. apply outs_eps_inv in Ho. subst. constructor.
  - (* DCons *)
    intros p IHp d IHd [Hp Hd] g off gs r gs' H. cbn [tr_disj] in H.
    destruct (tr_pat p g) as [e g1] eqn:Ep. destruct (tr_disj d g1) as [es g2] eqn:Ed. cbn [fst resolve_exprs] in H.
    step H a ga Ea. step H b gb Eb. inversion H; subst. clear H.
    specialize (IHp Hp g off gs a ga). rewrite Ep in IHp. destruct (IHp Ea) as (Hoa & Hsa & Hfa).
    pose proof (IHd Hd g1) as IHd'. rewrite Ed in IHd'. destruct (IHd' _ _ _ _ Eb) as (Hob & Hsb & Hfb).
    split; [|split; cbn; auto].
    intros s l Hs Ho. apply outs_seq_inv in Ho. destruct Ho as (la & Ha & Hl).
    apply ro_cons with (la := map fst la); [apply Hoa; assumption|].
    apply (ordered_each b (rd_ord text d) (rd_each text d) Hob); [constructor|intros; constructor; assumption| |exact Hl].
    eapply Forall_impl; [|exact (range_le a s la Ha Hs)]. intros q [_ Hq]. exact Hq.
Qed.

End OrderSound.
