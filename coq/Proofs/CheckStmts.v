(* C12: the statement rules of the checker, declaratively, and their equivalence with
   libvore/bytecode/semanticcheck.go's checkStatement (model: Check.check_stmt). *)
From Model Require Import Check.
From Spec Require Import ProcSpec.
From Proofs Require Import ProcTable.
From Coq Require Import Lia.

(* the types an expression may have *)
Definition is_ty (c : ctype) : Prop := c = CTString \/ c = CTNumber \/ c = CTBoolean.

Section Rules.
Variable ctx : pcontext.

(* stmt_ok inloop G s G' : statement s is accepted in type environment G (inside a loop or not)
   and leaves G'. *)
Inductive stmt_ok : bool -> tenv -> pstmt -> tenv -> Prop :=
| so_set il G n e : is_error (check_expr G e) = false -> stmt_ok il G (PSSet n e) (aset G n (check_expr G e))
| so_ret_pred il G e : ctx = CtxPredicate -> check_expr G e = CTBoolean -> stmt_ok il G (PSReturn e) G
| so_ret_tr il G e : ctx = CtxTransform -> (check_expr G e = CTString \/ check_expr G e = CTNumber) ->
                     stmt_ok il G (PSReturn e) G
| so_if il G c t f G1 G2 : check_expr G c = CTBoolean -> stmts_ok il G t G1 -> stmts_ok il G1 f G2 ->
                           stmt_ok il G (PSIf c t f) G2
| so_debug il G e : is_error (check_expr G e) = false -> stmt_ok il G (PSDebug e) G
| so_loop il G b G1 : stmts_ok true G b G1 -> stmt_ok il G (PSLoop b) G1
| so_break G : stmt_ok true G PSBreak G
| so_continue G : stmt_ok true G PSContinue G
with stmts_ok : bool -> tenv -> pstmts -> tenv -> Prop :=
| sso_nil il G : stmts_ok il G PNil G
| sso_cons il G s r G1 G2 : stmt_ok il G s G1 -> stmts_ok il G1 r G2 -> stmts_ok il G (PCons s r) G2.

Scheme pstmt_ind' := Induction for pstmt Sort Prop
  with pstmts_ind' := Induction for pstmts Sort Prop.
Combined Scheme pstmt_mut from pstmt_ind', pstmts_ind'.

(* the list checker nested inside check_stmt *)
Fixpoint check_list (ss : pstmts) (i : cinfo) : cinfo :=
  match ss with
  | PNil => i
  | PCons s r => let i' := check_stmt ctx s i in if is_error (ctyp i') then i' else check_list r i'
  end.

Lemma check_stmt_unfold s i : check_stmt ctx s i =
  match s with
  | PSSet n e =>
      let t := check_expr (cenvr i) e in
      if is_error t then {| ctyp := t; cenvr := cenvr i; cinloop := cinloop i |}
      else {| ctyp := CTOk; cenvr := aset (cenvr i) n t; cinloop := cinloop i |}
  | PSReturn e =>
      let t := check_expr (cenvr i) e in
      if is_error t then {| ctyp := t; cenvr := cenvr i; cinloop := cinloop i |}
      else
        let t' := match ctx, t with
                  | CtxPredicate, CTBoolean => CTOk
                  | CtxPredicate, _ => CTError EPredicateReturn
                  | CtxTransform, CTString | CtxTransform, CTNumber => CTOk
                  | CtxTransform, _ => CTError ETransformReturn
                  end in
        {| ctyp := t'; cenvr := cenvr i; cinloop := cinloop i |}
  | PSIf c t f =>
      let tc := check_expr (cenvr i) c in
      if is_error tc then {| ctyp := tc; cenvr := cenvr i; cinloop := cinloop i |}
      else match tc with
           | CTBoolean =>
               let i1 := check_list t {| ctyp := tc; cenvr := cenvr i; cinloop := cinloop i |} in
               if is_error (ctyp i1) then i1 else check_list f i1
           | _ => {| ctyp := CTError EIfCondition; cenvr := cenvr i; cinloop := cinloop i |}
           end
  | PSDebug e =>
      let t := check_expr (cenvr i) e in
      if is_error t then {| ctyp := t; cenvr := cenvr i; cinloop := cinloop i |}
      else {| ctyp := CTOk; cenvr := cenvr i; cinloop := cinloop i |}
  | PSLoop b =>
      let i1 := check_list b {| ctyp := ctyp i; cenvr := cenvr i; cinloop := true |} in
      if is_error (ctyp i1) then i1
      else {| ctyp := ctyp i1; cenvr := cenvr i1; cinloop := cinloop i |}
  | PSContinue =>
      if cinloop i then i else {| ctyp := CTError EContinue; cenvr := cenvr i; cinloop := cinloop i |}
  | PSBreak =>
      if cinloop i then i else {| ctyp := CTError EBreak; cenvr := cenvr i; cinloop := cinloop i |}
  end.
Proof. destruct s; reflexivity. Qed.

Definition accepted (i' : cinfo) (il : bool) (G' : tenv) : Prop :=
  is_error (ctyp i') = false /\ cenvr i' = G' /\ cinloop i' = il.

(* an accepted statement leaves the in-loop flag as it found it *)
Lemma flag_preserved :
  (forall s i, is_error (ctyp (check_stmt ctx s i)) = false -> cinloop (check_stmt ctx s i) = cinloop i) /\
  (forall ss i, is_error (ctyp (check_list ss i)) = false -> cinloop (check_list ss i) = cinloop i).
Proof.
  apply pstmt_mut.
  - intros n e i. rewrite check_stmt_unfold. cbn zeta. destruct (is_error (check_expr (cenvr i) e)); intros _; reflexivity.
  - intros e i. rewrite check_stmt_unfold. cbn zeta. destruct (is_error (check_expr (cenvr i) e)); intros _; reflexivity.
  - intros c t IHt f IHf i. rewrite check_stmt_unfold. cbn zeta.
    destruct (is_error (check_expr (cenvr i) c)); [intros _; reflexivity|].
    destruct (check_expr (cenvr i) c); try (intros _; reflexivity).
    set (i0 := {| ctyp := CTBoolean; cenvr := cenvr i; cinloop := cinloop i |}).
    destruct (is_error (ctyp (check_list t i0))) eqn:E1.
    + intros H. congruence.
    + intros H. rewrite (IHf _ H). apply (IHt i0 E1).
  - intros e i. rewrite check_stmt_unfold. cbn zeta. destruct (is_error (check_expr (cenvr i) e)); intros _; reflexivity.
  - intros b IHb i. rewrite check_stmt_unfold. cbn zeta.
    destruct (is_error (ctyp (check_list b _))) eqn:E; [intros H; congruence|intros _; reflexivity].
  - intros i. rewrite check_stmt_unfold. destruct (cinloop i) eqn:E; intros _; cbn; auto.
  - intros i. rewrite check_stmt_unfold. destruct (cinloop i) eqn:E; intros _; cbn; auto.
  - intros i _. reflexivity.
  - intros s IHs r IHr i. cbn [check_list]. destruct (is_error (ctyp (check_stmt ctx s i))) eqn:E.
    + intros H. congruence.
    + intros H. rewrite (IHr _ H). apply IHs. exact E.
Qed.

Theorem check_stmt_iff :
  (forall s i G', is_error (ctyp i) = false ->
     (stmt_ok (cinloop i) (cenvr i) s G' <-> (is_error (ctyp (check_stmt ctx s i)) = false /\ cenvr (check_stmt ctx s i) = G'))) /\
  (forall ss i G', is_error (ctyp i) = false ->
     (stmts_ok (cinloop i) (cenvr i) ss G' <-> (is_error (ctyp (check_list ss i)) = false /\ cenvr (check_list ss i) = G'))).
Proof.
  apply pstmt_mut.
  - (* set *)
    intros n e i G' Hi. rewrite check_stmt_unfold. cbn zeta. split.
    + intros H. inversion H; subst. match goal with E : is_error _ = false |- _ => rewrite E end. cbn. auto.
    + destruct (is_error (check_expr (cenvr i) e)) eqn:E; intros (H1 & H2); cbn in *; [congruence|].
      subst G'. constructor. exact E.
  - (* return *)
    intros e i G' Hi. rewrite check_stmt_unfold. cbn zeta. split.
    + intros H. inversion H; subst.
      * match goal with E : check_expr _ _ = CTBoolean |- _ => rewrite E end. cbn.
        match goal with E : ctx = _ |- _ => rewrite E end. cbn. auto.
      * match goal with E : _ \/ _ |- _ => destruct E as [E|E]; rewrite E end; cbn;
          match goal with E : ctx = _ |- _ => rewrite E end; cbn; auto.
    + destruct (is_error (check_expr (cenvr i) e)) eqn:E; intros (H1 & H2); cbn in *; [congruence|].
      subst G'. destruct ctx eqn:Ec.
      * apply so_ret_pred; auto. destruct (check_expr (cenvr i) e); cbn in *; try discriminate; reflexivity.
      * apply so_ret_tr; auto. destruct (check_expr (cenvr i) e); cbn in *; try discriminate; auto.
  - (* if *)
    intros c t IHt f IHf i G' Hi. rewrite check_stmt_unfold. cbn zeta.
    set (i0 := {| ctyp := CTBoolean; cenvr := cenvr i; cinloop := cinloop i |}).
    split.
    + intros H. inversion H; subst.
      match goal with E : check_expr _ _ = CTBoolean |- _ => rewrite E end. cbn [is_error]. fold i0.
      match goal with Ht : stmts_ok _ _ t ?G1 |- _ => destruct (proj1 (IHt i0 G1 eq_refl) Ht) as (E1 & E2) end.
      rewrite E1.
      assert (Efl : cinloop (check_list t i0) = cinloop i) by (rewrite (proj2 flag_preserved t i0 E1); reflexivity).
      match goal with Hf : stmts_ok _ _ f G' |- _ =>
        rewrite <- Efl, <- E2 in Hf; exact (proj1 (IHf (check_list t i0) G' E1) Hf) end.
    + destruct (is_error (check_expr (cenvr i) c)) eqn:E; [intros (H1 & _); cbn in H1; congruence|].
      destruct (check_expr (cenvr i) c) eqn:Ec; try (intros (H1 & _); cbn in H1; discriminate). fold i0.
      destruct (is_error (ctyp (check_list t i0))) eqn:E1; [intros (H1 & _); congruence|].
      intros HF.
      assert (Efl : cinloop (check_list t i0) = cinloop i) by (rewrite (proj2 flag_preserved t i0 E1); reflexivity).
      eapply so_if; [exact Ec| |].
      * apply (proj2 (IHt i0 (cenvr (check_list t i0)) eq_refl)). auto.
      * pose proof (proj2 (IHf (check_list t i0) G' E1) HF) as H2. rewrite Efl in H2. exact H2.
  - (* debug *)
    intros e i G' Hi. rewrite check_stmt_unfold. cbn zeta. split.
    + intros H. inversion H; subst. match goal with E : is_error _ = false |- _ => rewrite E end. cbn. auto.
    + destruct (is_error (check_expr (cenvr i) e)) eqn:E; intros (H1 & H2); cbn in *; [congruence|].
      subst G'. constructor. exact E.
  - (* loop *)
    intros b IHb i G' Hi. rewrite check_stmt_unfold. cbn zeta.
    set (i0 := {| ctyp := ctyp i; cenvr := cenvr i; cinloop := true |}).
    split.
    + intros H. inversion H; subst.
      match goal with Hb : stmts_ok true _ b G' |- _ => destruct (proj1 (IHb i0 G' Hi) Hb) as (E1 & E2) end.
      rewrite E1. cbn. auto.
    + destruct (is_error (ctyp (check_list b i0))) eqn:E1; [intros (H1 & _); congruence|].
      intros (_ & H2). cbn in H2. apply so_loop. apply (proj2 (IHb i0 G' Hi)). auto.
  - (* continue *)
    intros i G' Hi. rewrite check_stmt_unfold. split.
    + intros H. assert (E : cinloop i = true) by (inversion H; congruence). rewrite E. inversion H; subst; auto.
    + destruct (cinloop i) eqn:E; intros (H1 & H2); cbn in *; [subst; constructor|discriminate].
  - (* break *)
    intros i G' Hi. rewrite check_stmt_unfold. split.
    + intros H. assert (E : cinloop i = true) by (inversion H; congruence). rewrite E. inversion H; subst; auto.
    + destruct (cinloop i) eqn:E; intros (H1 & H2); cbn in *; [subst; constructor|discriminate].
  - (* nil *)
    intros i G' Hi. cbn [check_list]. split.
    + intros H. inversion H; subst. auto.
    + intros (_ & H). subst. constructor.
  - (* cons *)
    intros s IHs r IHr i G' Hi. cbn [check_list]. split.
    + intros H. inversion H; subst.
      match goal with Hs : stmt_ok _ _ s ?G1 |- _ => destruct (proj1 (IHs i G1 Hi) Hs) as (E1 & E2) end.
      rewrite E1.
      assert (Efl : cinloop (check_stmt ctx s i) = cinloop i) by (apply (proj1 flag_preserved); exact E1).
      match goal with Hr : stmts_ok _ _ r G' |- _ => rewrite <- Efl, <- E2 in Hr; exact (proj1 (IHr _ G' E1) Hr) end.
    + destruct (is_error (ctyp (check_stmt ctx s i))) eqn:E1; [intros (H1 & _); congruence|].
      intros HF.
      assert (Efl : cinloop (check_stmt ctx s i) = cinloop i) by (apply (proj1 flag_preserved); exact E1).
      eapply sso_cons.
      * apply (proj2 (IHs i (cenvr (check_stmt ctx s i)) Hi)). auto.
      * pose proof (proj2 (IHr _ G' E1) HF) as H2. rewrite Efl in H2. exact H2.
Qed.

End Rules.

(* the top-level statement list of a transform / predicate is checked like any list *)
Lemma check_program_list ctx ss i : check_program ctx ss i = check_list ctx ss i.
Proof. revert i. induction ss as [|s r IH]; intros i; cbn [check_program check_list]; [reflexivity|]. destruct (is_error _); auto. Qed.
