(* Which atoms are local (their success depends only on the bytes they consume) and which words each
   of them reads - the base cases of the language theorem, in readable form. *)
From Model Require Import VM.
From Spec Require Import Sem Lang.
From Proofs Require Import RefineBase.
From Coq Require Import Lia.
Local Open Scope nat_scope.

Lemma sub_zero_all (w : bytes) : sub w 0 (length w) = w.
Proof. unfold sub. cbn [skipn]. rewrite Nat.sub_0_r. apply firstn_all. Qed.

Lemma read_whole (w : bytes) : w <> [] -> read w 0 (length w) = w.
Proof.
  intros H. unfold read. destruct (Nat.eqb_spec (length w) 0) as [E|E]; [destruct w; [congruence|discriminate]|].
  cbn [Nat.add]. rewrite Nat.ltb_irrefl. apply sub_zero_all.
Qed.

Lemma read_some text p n : read text p n <> [] -> read text p n = sub text p (p + n) /\ p + n <= length text /\ 0 < n.
Proof. intros H. destruct (read_cases text p n) as [E|E]; [congruence|exact E]. Qed.

Lemma sub_nonempty text p p' : p < p' -> p' <= length text -> sub text p p' <> [].
Proof. intros H1 H2 E. apply (f_equal (@length _)) in E. rewrite sub_length in E by lia. cbn in E. lia. Qed.

Lemma read_fit text p n : 0 < n -> p + n <= length text -> read text p n = sub text p (p + n).
Proof.
  intros H1 H2. unfold read. destruct (Nat.eqb_spec n 0); [lia|]. destruct (Nat.ltb_spec (length text) (p + n)); [lia|reflexivity].
Qed.

(* ---- literals ---- *)
Lemma compare_bytes_length a b cl : compare_bytes a b cl = true -> length a = length b.
Proof.
  unfold compare_bytes. destruct cl.
  - revert b. induction a as [|x a IH]; intros [|y b] H; cbn in *; try discriminate; auto. apply andb_prop in H. f_equal. apply IH. tauto.
  - intros H. destruct (bytes_eqb_spec a b); [subst; reflexivity|discriminate].
Qed.

Lemma lit_word cl v w : atom_word (IMatchLit false cl v) w <-> w <> [] /\ compare_bytes v w cl = true.
Proof.
  unfold atom_word. cbn [atom_pos]. unfold match_lit, rd, consume_len, rd. split.
  - intros [Hne H]. split; [exact Hne|].
    destruct (read w 0 (length v)) as [|x xs] eqn:E; [discriminate|].
    assert (Hr : read w 0 (length v) <> []) by (rewrite E; discriminate). apply read_some in Hr. destruct Hr as (Er & Hfit & Hpos).
    rewrite xorb_false_r in H. destruct (compare_bytes v (x :: xs) cl) eqn:Ec; [|discriminate].
    pose proof (compare_bytes_length _ _ _ Ec) as Hl. inversion H as [Hlen]. cbn [Nat.add] in *.
    cbn [length] in Hl. assert (length v = length w) by lia. rewrite H0 in Er, E. rewrite sub_zero_all in Er. rewrite E in Er. rewrite Er in Ec. exact Ec.
  - intros [Hne Hc]. split; [exact Hne|]. pose proof (compare_bytes_length _ _ _ Hc) as Hl. rewrite Hl, (read_whole w Hne).
    destruct w as [|x xs]; [congruence|]. rewrite Hc. reflexivity.
Qed.

Lemma lit_local cl v : local_atom (IMatchLit false cl v).
Proof.
  intros text p p' Hp. split.
  - intros H. cbn [atom_pos] in H. unfold match_lit, rd, consume_len, rd in H.
    destruct (read text p (length v)) as [|x xs] eqn:E; [discriminate|].
    assert (Hr : read text p (length v) <> []) by (rewrite E; discriminate). apply read_some in Hr. destruct Hr as (Er & Hfit & Hpos).
    rewrite xorb_false_r in H. destruct (compare_bytes v (x :: xs) cl) eqn:Ec; [|discriminate].
    pose proof (compare_bytes_length _ _ _ Ec) as Hl. inversion H; subst p'. cbn [length] in Hl. rewrite <- Hl.
    split; [lia|]. split; [lia|]. apply lit_word. rewrite <- Er, E. split; [discriminate|exact Ec].
  - intros (H1 & H2 & Hw). apply lit_word in Hw. destruct Hw as [Hne Hc]. pose proof (compare_bytes_length _ _ _ Hc) as Hl.
    rewrite sub_length in Hl by lia. cbn [atom_pos]. unfold match_lit, rd, consume_len, rd.
    rewrite (read_fit text p (length v)) by lia. replace (p + length v) with p' by lia.
    destruct (sub text p p') as [|x xs] eqn:E; [congruence|]. rewrite Hc. cbn [xorb]. f_equal. cbn [length] in *.
    apply (f_equal (@length _)) in E. rewrite sub_length in E by lia. cbn [length] in E. lia.
Qed.

Lemma lit_word_exact v w : atom_word (IMatchLit false false v) w <-> v <> [] /\ w = v.
Proof.
  rewrite lit_word. unfold compare_bytes. split.
  - intros [Hne H]. destruct (bytes_eqb_spec v w); [subst; auto|discriminate].
  - intros [Hne ->]. split; [exact Hne|apply bytes_eqb_refl].
Qed.

(* ---- atoms that look at exactly one byte ---- *)
Definition one_byte (i : instr) (f : N -> bool) : Prop :=
  forall text p, atom_pos text i p = match nth_error text p with Some b => if f b then Some (p + 1) else None | None => None end.

Lemma read1 text p : read text p 1 = match nth_error text p with Some b => [b] | None => [] end.
Proof.
  unfold read. cbn [Nat.eqb]. destruct (Nat.ltb_spec (length text) (p + 1)) as [H|H].
  - destruct (nth_error text p) eqn:E; [|reflexivity]. assert (p < length text) by (apply nth_error_Some; congruence). lia.
  - unfold sub. replace (p + 1 - p) with 1 by lia. destruct (nth_error text p) as [b|] eqn:E.
    + apply nth_error_split in E. destruct E as (l1 & l2 & -> & <-). rewrite skipn_app, skipn_all, Nat.sub_diag. reflexivity.
    + apply nth_error_None in E. lia.
Qed.

Lemma sub1 text p b : nth_error text p = Some b -> sub text p (p + 1) = [b].
Proof.
  intros E. pose proof (read1 text p) as H. rewrite E in H. rewrite <- H. symmetry. apply read_fit; [lia|].
  assert (p < length text) by (apply nth_error_Some; congruence). lia.
Qed.

Lemma one_byte_word i f w : one_byte i f -> (atom_word i w <-> exists b, w = [b] /\ f b = true).
Proof.
  intros H1. unfold atom_word. rewrite (H1 w 0). split.
  - intros [Hne H]. destruct w as [|b w]; [congruence|]. cbn [nth_error] in H. destruct (f b) eqn:E; [|discriminate].
    inversion H as [Hl]. destruct w; [|discriminate]. eauto.
  - intros (b & -> & Hf). split; [discriminate|]. cbn. rewrite Hf. reflexivity.
Qed.

Lemma one_byte_local i f : one_byte i f -> local_atom i.
Proof.
  intros H1 text p p' Hp. rewrite (one_byte_word i f _ H1), (H1 text p). split.
  - destruct (nth_error text p) as [b|] eqn:E; [|discriminate]. destruct (f b) eqn:Ef; [|discriminate]. intros H. inversion H; subst p'.
    assert (p < length text) by (apply nth_error_Some; congruence). split; [lia|]. split; [lia|]. exists b. split; [apply sub1; exact E|exact Ef].
  - intros (H2 & H3 & b & E & Ef). assert (Hl : length (sub text p p') = 1) by (rewrite E; reflexivity). rewrite sub_length in Hl by lia.
    assert (p' = p + 1) by lia. subst p'. destruct (nth_error text p) as [b'|] eqn:En.
    + rewrite (sub1 _ _ _ En) in E. inversion E; subst. rewrite Ef. reflexivity.
    + apply nth_error_None in En. lia.
Qed.

Ltac one_byte_tac := intros text p; cbn [atom_pos match_class]; unfold match_any, match_options, match_letter, match_range, match_lit, consume_len, rd;
  cbn [length Nat.ltb Nat.leb Nat.sub match_range_from]; unfold consume_len, rd; rewrite ?read1; destruct (nth_error text p) as [b|]; cbn [length].

(* . in a regex, `not "c"` in vore: any byte but c *)
Lemma notlit1_one cl c : one_byte (IMatchLit true cl [c]) (fun b => negb (compare_bytes [c] [b] cl)).
Proof. one_byte_tac; [|reflexivity]. rewrite xorb_true_r. reflexivity. Qed.

Lemma any_one : one_byte (IMatchClass false CAny) (fun _ => true).
Proof. one_byte_tac; reflexivity. Qed.

Lemma any_not_one : one_byte (IMatchClass true CAny) (fun _ => false).
Proof. one_byte_tac; reflexivity. Qed.

Lemma whitespace_one nt : one_byte (IMatchClass nt CWhitespace) (fun b => xorb (existsb (bytes_eqb [b]) ws_options) nt).
Proof. one_byte_tac; reflexivity. Qed.

Lemma letter_one nt : one_byte (IMatchClass nt CLetter) (fun b => xorb (is_alpha b) nt).
Proof. one_byte_tac; reflexivity. Qed.

Lemma range1_one nt lo hi : one_byte (IMatchRange nt [lo] [hi]) (fun b => xorb (bytes_leb [lo] [b] && bytes_leb [b] [hi]) nt).
Proof. one_byte_tac; [|reflexivity]. destruct (xorb _ nt); reflexivity. Qed.

Lemma digit_one nt : one_byte (IMatchClass nt CDigit) (fun b => xorb (bytes_leb [48%N] [b] && bytes_leb [b] [57%N]) nt).
Proof. one_byte_tac; [|reflexivity]. destruct (xorb _ nt); reflexivity. Qed.
Lemma upper_one nt : one_byte (IMatchClass nt CUpper) (fun b => xorb (bytes_leb [65%N] [b] && bytes_leb [b] [90%N]) nt).
Proof. one_byte_tac; [|reflexivity]. destruct (xorb _ nt); reflexivity. Qed.
Lemma lower_one nt : one_byte (IMatchClass nt CLower) (fun b => xorb (bytes_leb [97%N] [b] && bytes_leb [b] [122%N]) nt).
Proof. one_byte_tac; [|reflexivity]. destruct (xorb _ nt); reflexivity. Qed.

Lemma bytes_leb1 a b : bytes_leb [a] [b] = (a <=? b)%N.
Proof. unfold bytes_leb. cbn [bytes_cmp]. unfold N.leb. destruct (N.compare a b); reflexivity. Qed.

(* ---- the words, spelled out ---- *)
Lemma dot_word c w : atom_word (IMatchLit true false [c]) w <-> exists b, w = [b] /\ b <> c.
Proof.
  rewrite (one_byte_word _ _ _ (notlit1_one false c)). split; intros (b & -> & H); exists b; (split; [reflexivity|]).
  - cbn in H. rewrite Bool.andb_true_r in H. destruct (N.eqb_spec c b); [discriminate|congruence].
  - cbn. rewrite Bool.andb_true_r. destruct (N.eqb_spec c b); [congruence|reflexivity].
Qed.

Lemma range_word lo hi w : atom_word (IMatchRange false [lo] [hi]) w <-> exists b, w = [b] /\ (lo <= b /\ b <= hi)%N.
Proof.
  rewrite (one_byte_word _ _ _ (range1_one false lo hi)). split; intros (b & -> & H); exists b; (split; [reflexivity|]).
  - rewrite xorb_false_r, !bytes_leb1 in H. apply andb_prop in H. destruct H as [H1 H2]. apply N.leb_le in H1, H2. auto.
  - rewrite xorb_false_r, !bytes_leb1. destruct H as [H1 H2]. apply N.leb_le in H1, H2. rewrite H1, H2. reflexivity.
Qed.

Lemma digit_word nt w : atom_word (IMatchClass nt CDigit) w <-> exists b, w = [b] /\ xorb ((48 <=? b) && (b <=? 57))%N nt = true.
Proof. rewrite (one_byte_word _ _ _ (digit_one nt)). split; intros (b & -> & H); exists b; (split; [reflexivity|]); rewrite ?bytes_leb1 in *; exact H. Qed.

Lemma whitespace_word nt w : atom_word (IMatchClass nt CWhitespace) w <->
  exists b, w = [b] /\ xorb ((b =? 32) || (b =? 9) || (b =? 10) || (b =? 13))%N nt = true.
Proof.
  rewrite (one_byte_word _ _ _ (whitespace_one nt)). split; intros (b & -> & H); exists b; (split; [reflexivity|]);
    cbn [existsb ws_options bytes_eqb] in *; rewrite ?Bool.andb_true_r, ?Bool.orb_false_r, ?Bool.orb_assoc in *; exact H.
Qed.
