(* C09, unconditionally: the code compiled from a well-formed resolved pattern never crashes the VM -
   on any text, from any start, for any number of steps - whether or not the search terminates and
   whether or not the specification is defined (unguarded recursion, named loops and back-references
   included).  Continuation-passing, step-indexed: a piece of code is safe for n steps if whatever
   follows it is; loops and recursive calls re-enter code with fewer steps left. *)
From Model Require Import Engine.
From Spec Require Import Sem FindSpec.
From Proofs Require Import RefineBase RefineExec Refine Attempt.
From Coq Require Import Lia.

Section SafeCode.
Variable prog : list instr.
Variable text : bytes.
Variable sdefs : nat -> option (rx * pstmts).       (* body and predicate of the subroutine whose StartSub sits at pc t *)

Notation step := (step prog text).
Notation code_at := (code_at prog).

(* no crash within n steps (the run stops when the pc leaves the program) *)
Fixpoint nocrash (n : nat) (s : state) : Prop :=
  match s with
  | Crashed _ => False
  | Running c B =>
      match n with
      | O => True
      | S n' => if Nat.leb (length prog) (pc c) then True else nocrash n' (step c B)
      end
  | _ => True
  end.

Lemma nocrash_S : forall n s, nocrash (S n) s -> nocrash n s.
Proof.
  induction n as [|n IH]; intros s H; destruct s as [c B| | |]; cbn [nocrash] in *; auto.
  destruct (Nat.leb (length prog) (pc c)); auto.
Qed.

Lemma nocrash_le n m s : m <= n -> nocrash n s -> nocrash m s.
Proof. induction 1 as [|n' Hle IH]; auto. intros Hn. apply IH. apply nocrash_S. exact Hn. Qed.

(* every saved core is safe when resumed over what lies below it *)
Fixpoint all_safe (n : nat) (B : list core) : Prop :=
  match B with [] => True | k :: B' => nocrash n (Running k B') /\ all_safe n B' end.

Lemma all_safe_le n m B : m <= n -> all_safe n B -> all_safe m B.
Proof. intros Hle. induction B as [|k B IH]; cbn; auto. intros [H1 H2]. split; [eapply nocrash_le; eauto|auto]. Qed.

Lemma bt_safe n B : all_safe n B -> nocrash n (bt B).
Proof. destruct B as [|k B]; cbn [bt all_safe]; [destruct n; exact (fun _ => I)|tauto]. Qed.

Lemma all_safe_app n B1 B2 : all_safe n B2 -> (forall k B', all_safe n B' -> In k B1 -> nocrash n (Running k B')) -> all_safe n (B1 ++ B2).
Proof.
  intros H2 H1. induction B1 as [|k B1 IH]; cbn [app all_safe]; [exact H2|].
  assert (Hrest : all_safe n (B1 ++ B2)) by (apply IH; intros k' B' HB' Hin; apply H1; [exact HB'|right; exact Hin]).
  split; [apply H1; [exact Hrest|left; reflexivity]|exact Hrest].
Qed.

(* the code at pc p, entered with these variable and call stacks over any safe backtrack stack, is safe for n steps (and for fewer) *)
Definition safe1 (n p : nat) (V : list (name * nat)) (K : list (nat * nat)) : Prop :=
  forall c B, pc c = p -> vars c = V -> calls c = K -> all_safe n B -> nocrash n (Running c B).
Definition SafeK (n p : nat) (V : list (name * nat)) (K : list (nat * nat)) : Prop := forall m, m <= n -> safe1 m p V K.

Lemma SafeK_le n m p V K : m <= n -> SafeK n p V K -> SafeK m p V K.
Proof. intros Hle H k Hk. apply H. lia. Qed.

Lemma enter n c B i : nth_error prog (pc c) = Some i -> nocrash n (step c B) -> nocrash (S n) (Running c B).
Proof.
  intros E H. cbn [nocrash]. destruct (Nat.leb_spec (length prog) (pc c)) as [Hl|Hl]; [exact I|exact H].
Qed.

(* SafeK for one instruction, from what one step does *)
Lemma SafeK_intro n p V K : (forall m c B, S m <= n -> pc c = p -> vars c = V -> calls c = K -> all_safe (S m) B -> nocrash (S m) (Running c B)) -> SafeK n p V K.
Proof.
  intros H m Hm c B H1 H2 H3 HB. destruct m as [|m]; [exact I|]. eapply H; eauto.
Qed.

Lemma set_pc_fields c p : vars (set_pc c p) = vars c /\ calls (set_pc c p) = calls c /\ pc (set_pc c p) = p.
Proof. repeat split. Qed.

(* a predicate's process code may say yes or no, or run out of fuel, but does not crash (division by zero, undefined operation) *)
Definition pred_safe (pred : pstmts) : Prop :=
  forall m w, run_program proc_fuel pred (init_pstate [(match_name, PVStr m); (matchLength_name, PVNum (Z.of_nat (length m)))]) <> Crash w.

Lemma pred_safe_nil : pred_safe PNil.
Proof. intros m w. cbn. discriminate. Qed.

(* ---- well-formed resolved patterns ---- *)
Fixpoint wf (r : rx) : Prop :=
  match r with
  | XAtom i => is_atom i
  | XCall _ t => exists b pred, sdefs t = Some (b, pred)
  | XSeq a b | XAlt a b => wf a /\ wf b
  | XIn items => items <> [] /\ Forall is_atom items
  | XNotIn items mx => Forall is_atom items /\ (0 <= mx)%Z
  | XLoop _ _ _ _ _ b | XDec _ b => wf b
  | XSub _ b pred => pred_safe pred /\ wf b
  | _ => True
  end.

Hypothesis Hsubs : forall t b pred, sdefs t = Some (b, pred) ->
  (exists nm, code_at t (IStartSub t nm (t + 1 + rx_len b) :: compile b (t + 1) ++ [IEndSub nm pred])) /\ wf b /\ pred_safe pred.

Definition Q (n : nat) (r : rx) : Prop :=
  forall o V K, wf r -> code_at o (compile r o) -> top_ne K r o -> SafeK n (o + rx_len r) V K -> SafeK n o V K.

(* ---- single instructions ---- *)
Lemma jump_safe n p e V K : nth_error prog p = Some (IJump e) -> SafeK n e V K -> SafeK n p V K.
Proof.
  intros E HK. apply SafeK_intro. intros m c B Hm Hpc Hv Hk HB. apply (enter m c B (IJump e)); [rewrite Hpc; exact E|].
  unfold VM.step. rewrite Hpc, E. apply (HK m ltac:(lia)); auto. eapply all_safe_le; [|exact HB]. lia.
Qed.

Lemma advance_fields c p' : vars (advance text c p') = vars c /\ calls (advance text c p') = calls c /\ pc (advance text c p') = S (pc c).
Proof. repeat split. Qed.

Lemma atom_safe n p i V K : is_atom i -> nth_error prog p = Some i -> SafeK n (S p) V K -> SafeK n p V K.
Proof.
  intros Hi E HK. apply SafeK_intro. intros m c B Hm Hpc Hv Hk HB. apply (enter m c B i); [rewrite Hpc; exact E|].
  assert (HB' : all_safe m B) by (eapply all_safe_le; [|exact HB]; lia).
  assert (Hres : forall r, nocrash m (atom_result text c B r)).
  { intros [p'|]; cbn [atom_result]; [|apply bt_safe; exact HB']. apply (HK m ltac:(lia)); auto; cbn; congruence. }
  unfold VM.step. rewrite Hpc, E. destruct i; try contradiction; apply Hres.
Qed.

(* an item of an `in` list: the atom, then the jump to the end of the list *)
Lemma item_safe n p i e V K : is_atom i -> nth_error prog p = Some i -> nth_error prog (S p) = Some (IJump e) -> SafeK n e V K -> SafeK n p V K.
Proof. intros Hi E1 E2 HK. apply (atom_safe n p i V K Hi E1). apply (jump_safe n (S p) e V K E2 HK). Qed.

Lemma in_items_safe n e V K : SafeK n e V K -> forall items p, Forall is_atom items ->
  code_at p (flat_map (fun i => [i; IJump e]) items) -> forall q, In q (in_starts items p) -> SafeK n q V K.
Proof.
  intros HK. induction items as [|i items IH]; intros p Hall Hc q Hq; cbn [in_starts] in Hq; [destruct Hq|].
  inversion Hall; subst. cbn [flat_map app] in Hc. apply code_at_cons in Hc. destruct Hc as [E1 Hc]. apply code_at_cons in Hc. destruct Hc as [E2 Hc].
  destruct Hq as [<-|Hq]; [eapply item_safe; eauto|]. apply (IH (p + 2)); auto. replace (p + 2) with (S (S p)) by lia. exact Hc.
Qed.

(* not in: for each item a checkpoint at the next item, the atom, and FAILNOTIN dropping two cores *)
Lemma notin_safe n mx V K : (0 <= mx)%Z -> forall items p, Forall is_atom items ->
  code_at p (notin_code items p ++ [IEndNotIn mx]) -> SafeK n (p + 3 * length items + 1) V K -> SafeK n p V K.
Proof.
  intros Hmx. induction items as [|i items IH]; intros p Hall Hc HK.
  - cbn [notin_code app] in Hc. apply code_at_cons in Hc. destruct Hc as [E _]. cbn [length] in HK. replace (p + 3 * 0 + 1) with (S p) in HK by lia.
    apply SafeK_intro. intros m c B Hm Hpc Hv Hk HB. apply (enter m c B (IEndNotIn mx)); [rewrite Hpc; exact E|].
    assert (HB' : all_safe m B) by (eapply all_safe_le; [|exact HB]; lia).
    unfold VM.step. rewrite Hpc, E. destruct mx as [|q|q]; [| |lia].
    + destruct (Nat.eqb _ 0); [apply bt_safe; exact HB'|]. apply (HK m ltac:(lia)); auto; cbn; congruence.
    + destruct (Nat.eqb _ 0); [apply bt_safe; exact HB'|]. apply (HK m ltac:(lia)); auto; cbn; congruence.
  - inversion Hall as [|? ? Hi Hall']; subst. cbn [notin_code app] in Hc.
    apply code_at_cons in Hc. destruct Hc as [E1 Hc]. apply code_at_cons in Hc. destruct Hc as [E2 Hc]. apply code_at_cons in Hc. destruct Hc as [E3 Hc].
    replace (S (S (S p))) with (p + 3) in Hc by lia.
    assert (Hnext : SafeK n (p + 3) V K).
    { apply IH; auto. cbn [length] in HK. replace (p + 3 + 3 * length items + 1) with (p + 3 * S (length items) + 1) by lia. exact HK. }
    apply SafeK_intro. intros m c B Hm Hpc Hv Hk HB. apply (enter m c B (IStartNotIn (p + 3))); [rewrite Hpc; exact E1|].
    unfold VM.step. rewrite Hpc, E1.
    (* now at the atom, with the checkpoint on top *)
    assert (HB' : all_safe m B) by (eapply all_safe_le; [|exact HB]; lia).
    assert (Hchk : nocrash m (Running (set_pc c (p + 3)) B)) by (apply (Hnext m ltac:(lia)); auto).
    destruct m as [|m]; [exact I|]. apply (enter m _ _ i); [cbn [set_pc pc]; exact E2|].
    assert (HB2 : all_safe m B) by (eapply all_safe_le; [|exact HB']; lia).
    assert (Hres : forall r, nocrash m (atom_result text (set_pc c (S p)) (set_pc c (p + 3) :: B) r)).
    { intros [p'|]; cbn [atom_result].
      - (* the item matched: FAILNOTIN drops this attempt and the checkpoint *)
        destruct m as [|m]; [exact I|]. apply (enter m _ _ IFailNotIn); [cbn; exact E3|].
        unfold VM.step. cbn [advance set_cur set_pc pc]. rewrite E3.
        destruct B as [|c2 B2]; [destruct m; exact I|]. cbn [all_safe] in HB2. destruct HB2 as [H2 _]. eapply nocrash_le; [|exact H2]. lia.
      - cbn [bt]. eapply nocrash_le; [|exact Hchk]. lia. }
    unfold VM.step. cbn [set_pc pc]. rewrite E2. destruct i; try contradiction; apply Hres.
Qed.

Lemma enter_loop_pop id nm c ls e : enter_loop id nm c = Some ls -> pop_loop ls e <> None.
Proof.
  unfold enter_loop. destruct (loops c) as [|l rest].
  - intros H. inversion H; subst. cbn [pop_loop]. destruct (Nat.eqb _ 0); [discriminate|]. destruct (insert_variable _ _ _ _). discriminate.
  - destruct (Nat.eqb (lid l) id && Nat.eqb (llevel l) (length (calls c)))%bool.
    + destruct (Nat.eqb (lstart l) (length (matched (cur c)))); [discriminate|]. intros H. inversion H; subst. cbn [pop_loop lname]. destruct (Nat.eqb _ 0); [discriminate|]. destruct (insert_variable _ _ _ _). discriminate.
    + intros H. inversion H; subst. cbn [pop_loop]. destruct (Nat.eqb _ 0); [discriminate|]. destruct (insert_variable _ _ _ _). discriminate.
Qed.

Lemma endsub_safe n p nm pred id ret V K : pred_safe pred -> nth_error prog p = Some (IEndSub nm pred) -> SafeK n ret V K -> SafeK n p V ((id, ret) :: K).
Proof.
  intros Hps E HK. apply SafeK_intro. intros m c B Hm Hpc Hv Hk HB. eapply (enter m c B); [rewrite Hpc; exact E|].
  assert (HB' : all_safe m B) by (eapply all_safe_le; [|exact HB]; lia).
  assert (Hret : nocrash m (Running {| pc := ret; cur := cur c; loops := loops c; vars := vars c; calls := K; cenv := cenv c |} B)) by (apply (HK m ltac:(lia)); auto).
  unfold VM.step. rewrite Hpc, E, Hk. destruct pred as [|s0 ss]; [exact Hret|].
  pose proof (Hps (matched (cur c))) as Hnc. unfold pred_env.
  destruct (run_program proc_fuel (PCons s0 ss) _) as [v|w|]; [|exfalso; exact (Hnc w eq_refl)|destruct m; exact I].
  destruct (get_boolean v); [exact Hret|apply bt_safe; exact HB'].
Qed.

Lemma endvar_safe n p nm st V K : nth_error prog p = Some (IEndVar nm) -> SafeK n (S p) V K -> SafeK n p ((nm, st) :: V) K.
Proof.
  intros E HK. apply SafeK_intro. intros m c B Hm Hpc Hv Hk HB. apply (enter m c B (IEndVar nm)); [rewrite Hpc; exact E|].
  unfold VM.step. rewrite Hpc, E, Hv. rewrite bytes_eqb_refl. destruct (insert_variable (loops c) (cenv c) nm _) as [ls' e'].
  apply (HK m ltac:(lia)); auto. eapply all_safe_le; [|exact HB]. lia.
Qed.

Lemma nocrash_failed n : nocrash n Failed.
Proof. destruct n; exact I. Qed.

Theorem safe_all : forall n r, Q n r.
Proof.
  induction n as [n IHn] using lt_wf_ind.
  assert (Hred : forall r, (forall o V K, wf r -> code_at o (compile r o) -> top_ne K r o -> SafeK n (o + rx_len r) V K -> safe1 n o V K) -> Q n r).
  { intros r H o V K Hw Hc Ht HK m Hm. destruct (Nat.eq_dec m n) as [->|Hne]; [apply H; auto|].
    exact (IHn m ltac:(lia) r o V K Hw Hc Ht (SafeK_le _ _ _ _ _ Hm HK) m (Nat.le_refl _)). }
  induction r as [ |i|nm|nm t|a IHa b IHb|a IHa b IHb|items|items mx|id mn mx fw nm b IHb|nm b IHb|nm b IHb pred];
    apply Hred; intros o V K Hw Hc Ht HK; cbn [compile rx_len wf] in *.
  - (* eps *) rewrite Nat.add_0_r in HK. exact (HK n (Nat.le_refl _)).
  - (* atom *) apply code_at_cons in Hc. destruct Hc as [E _]. replace (o + 1) with (S o) in HK by lia.
    exact (atom_safe n o i V K Hw E HK n (Nat.le_refl _)).
  - (* back-reference *)
    apply code_at_cons in Hc. destruct Hc as [E _]. replace (o + 1) with (S o) in HK by lia.
    intros c B Hpc Hv Hk HB. destruct n as [|n1]; [exact I|]. apply (enter n1 c B (IMatchVar nm)); [rewrite Hpc; exact E|].
    assert (HB' : all_safe n1 B) by (eapply all_safe_le; [|exact HB]; lia).
    unfold VM.step. rewrite Hpc, E. destruct (alookup (cenv c) nm) as [[[|x v]|mp]|]; try (apply bt_safe; exact HB').
    + apply (HK n1 ltac:(lia)); auto.
    + unfold atom_result. destruct (match_lit _ _ _ _ _); [|apply bt_safe; exact HB']. apply (HK n1 ltac:(lia)); auto; cbn; congruence.
  - (* call *)
    apply code_at_cons in Hc. destruct Hc as [E _]. replace (o + 1) with (S o) in HK by lia.
    destruct Hw as (b & spred & Hd). destruct (Hsubs t b spred Hd) as ((snm & Hcode) & Hwb & Hsp).
    apply code_at_cons in Hcode. destruct Hcode as [Es Hcode]. apply code_at_app in Hcode. destruct Hcode as [Hbody Hend].
    rewrite compile_length in Hend. apply code_at_cons in Hend. destruct Hend as [Ee _].
    intros c B Hpc Hv Hk HB. destruct n as [|n1]; [exact I|]. apply (enter n1 c B (ICall nm t)); [rewrite Hpc; exact E|].
    unfold VM.step. rewrite Hpc, E.
    destruct n1 as [|n2]; [exact I|]. apply (enter n2 _ _ (IStartSub t snm (t + 1 + rx_len b))); [cbn [pc]; exact Es|].
    unfold VM.step. cbn [pc calls]. rewrite Es. rewrite Nat.eqb_refl.
    assert (Hin : SafeK n2 (S t) V ((t, S o) :: K)).
    { replace (S t) with (t + 1) by lia. apply (IHn n2 ltac:(lia) b (t + 1) V ((t, S o) :: K) Hwb); [replace (S t) with (t + 1) in Hbody by lia; exact Hbody|apply top_ne_inner|].
      replace (t + 1 + rx_len b) with (S t + rx_len b) by lia.
      apply (endsub_safe n2 (S t + rx_len b) snm spred t (S o) V K Hsp Ee). eapply SafeK_le; [|exact HK]. lia. }
    apply (Hin n2 (Nat.le_refl _)); cbn; auto; try congruence. eapply all_safe_le; [|exact HB]. lia.
  - (* seq *)
    destruct Hw as [Hwa Hwb]. apply code_at_app in Hc. destruct Hc as [Hca Hcb]. rewrite compile_length in Hcb.
    apply top_ne_seq in Ht. destruct Ht as [Hta Htb].
    apply (IHa o V K Hwa Hca Hta); [|apply Nat.le_refl].
    apply (IHb (o + rx_len a) V K Hwb Hcb Htb). replace (o + rx_len a + rx_len b) with (o + (rx_len a + rx_len b)) by lia. exact HK.
  - (* alt *)
    destruct Hw as [Hwa Hwb]. apply top_ne_alt in Ht. destruct Ht as [Hta Htb].
    apply code_at_cons in Hc. destruct Hc as [E Hc]. apply code_at_app in Hc. destruct Hc as [Hca Hc]. rewrite compile_length in Hc.
    apply code_at_cons in Hc. destruct Hc as [Ej1 Hc]. apply code_at_app in Hc. destruct Hc as [Hcb Hc]. rewrite compile_length in Hc.
    apply code_at_cons in Hc. destruct Hc as [Ej2 _].
    intros c B Hpc Hv Hk HB. destruct n as [|n1]; [exact I|]. eapply (enter n1 c B); [rewrite Hpc; exact E|].
    unfold VM.step. rewrite Hpc, E. cbn [map app].
    assert (HKe : SafeK n1 (o + rx_len a + rx_len b + 3) V K) by (eapply SafeK_le; [|replace (o + rx_len a + rx_len b + 3) with (o + (rx_len a + rx_len b + 3)) by lia; exact HK]; lia).
    assert (Ha : SafeK n1 (o + 1) V K).
    { apply (IHn n1 ltac:(lia) a (o + 1) V K Hwa); [replace (S o) with (o + 1) in Hca by lia; exact Hca|exact Hta|].
      eapply jump_safe; [|exact HKe]. replace (o + 1 + rx_len a) with (S o + rx_len a) by lia. exact Ej1. }
    assert (Hb : SafeK n1 (o + 2 + rx_len a) V K).
    { apply (IHn n1 ltac:(lia) b (o + 2 + rx_len a) V K Hwb); [replace (S (S o + rx_len a)) with (o + 2 + rx_len a) in Hcb by lia; exact Hcb|exact Htb|].
      eapply jump_safe; [|exact HKe]. replace (o + 2 + rx_len a + rx_len b) with (S (S o + rx_len a) + rx_len b) by lia. exact Ej2. }
    assert (HB' : all_safe n1 B) by (eapply all_safe_le; [|exact HB]; lia).
    apply (Ha n1 (Nat.le_refl _)); auto. cbn [all_safe]. split; [|exact HB'].
    replace (o + rx_len a + 2) with (o + 2 + rx_len a) by lia. apply (Hb n1 (Nat.le_refl _)); auto.
  - (* in *)
    destruct Hw as [Hne Hall]. apply code_at_cons in Hc. destruct Hc as [E Hc].
    intros c B Hpc Hv Hk HB. destruct n as [|n1]; [exact I|]. eapply (enter n1 c B); [rewrite Hpc; exact E|].
    unfold VM.step. rewrite Hpc, E.
    assert (HKe : SafeK n1 (o + 1 + 2 * length items) V K) by (eapply SafeK_le; [|replace (o + 1 + 2 * length items) with (o + (1 + 2 * length items)) by lia; exact HK]; lia).
    assert (Hq : forall q, In q (in_starts items (o + 1)) -> SafeK n1 q V K).
    { apply (in_items_safe n1 _ V K HKe items (o + 1) Hall). replace (S o) with (o + 1) in Hc by lia. exact Hc. }
    assert (HB' : all_safe n1 B) by (eapply all_safe_le; [|exact HB]; lia).
    destruct (in_starts items (o + 1)) as [|b0 rest] eqn:Es; [destruct items; [congruence|discriminate]|].
    apply (Hq b0 (or_introl eq_refl) n1 (Nat.le_refl _)); auto.
    apply all_safe_app; [exact HB'|]. intros k B' HB2 Hk2. apply in_map_iff in Hk2. destruct Hk2 as (q & <- & Hq2).
    apply (Hq q (or_intror Hq2) n1 (Nat.le_refl _)); auto.
  - (* not in *)
    destruct Hw as [Hall Hmx]. replace (o + (3 * length items + 1)) with (o + 3 * length items + 1) in HK by lia.
    exact (notin_safe n mx V K Hmx items o Hall Hc HK n (Nat.le_refl _)).
  - (* loop *)
    pose proof Hc as Hc0.
    apply code_at_cons in Hc. destruct Hc as [E Hc]. apply code_at_app in Hc. destruct Hc as [Hcb Hc]. rewrite compile_length in Hc.
    apply code_at_cons in Hc. destruct Hc as [Est _].
    assert (Htb : top_ne K b (o + 1)) by (intros o' x Ho; eapply Ht; cbn [subs_of]; exact Ho).
    intros c B Hpc Hv Hk HB. destruct n as [|n1]; [exact I|].
    assert (Hloop : forall j, j < S n1 -> SafeK j o V K).
    { intros j Hj. apply (IHn j Hj (XLoop id mn mx fw nm b) o V K Hw Hc0 Ht). eapply SafeK_le; [|exact HK]. lia. }
    assert (Hstop : forall j, j <= n1 -> SafeK j (o + 1 + rx_len b) V K).
    { intros j Hj. apply SafeK_intro. intros m c0 B0 Hm Hpc0 Hv0 Hk0 HB0.
      eapply (enter m c0 B0); [rewrite Hpc0; replace (o + 1 + rx_len b) with (S o + rx_len b) by lia; exact Est|].
      unfold VM.step. rewrite Hpc0. replace (o + 1 + rx_len b) with (S o + rx_len b) by lia. rewrite Est.
      apply (Hloop m ltac:(lia) m (Nat.le_refl _)); auto. eapply all_safe_le; [|exact HB0]. lia. }
    assert (Hbody : forall j, j <= n1 -> SafeK j (o + 1) V K).
    { intros j Hj. apply (IHn j ltac:(lia) b (o + 1) V K Hw); [replace (S o) with (o + 1) in Hcb by lia; exact Hcb|exact Htb|apply Hstop; exact Hj]. }
    eapply (enter n1 c B); [rewrite Hpc; exact E|].
    assert (HB' : all_safe n1 B) by (eapply all_safe_le; [|exact HB]; lia).
    assert (HKe : SafeK n1 (S (o + rx_len b + 1)) V K) by (eapply SafeK_le; [|replace (S (o + rx_len b + 1)) with (o + (rx_len b + 2)) by lia; exact HK]; lia).
    unfold VM.step. rewrite Hpc, E.
    destruct (enter_loop id nm c) as [ls|] eqn:Een; [|apply bt_safe; exact HB'].
    destruct (Nat.ltb _ mn).
    { apply (Hbody n1 (Nat.le_refl _) n1 (Nat.le_refl _)); cbn; auto; lia. }
    destruct (within mx _); [|apply bt_safe; exact HB'].
    pose proof (enter_loop_pop id nm c ls (cenv c) Een) as Hpop.
    destruct (pop_loop ls (cenv c)) as [[[l rest] e']|]; [|congruence].
    destruct fw.
    + apply (HKe n1 (Nat.le_refl _)); cbn; auto. split; [|exact HB'].
      apply (Hbody n1 (Nat.le_refl _) n1 (Nat.le_refl _)); cbn; auto; lia.
    + apply (Hbody n1 (Nat.le_refl _) n1 (Nat.le_refl _)); cbn; auto; try lia. split; [|exact HB'].
      apply (HKe n1 (Nat.le_refl _)); cbn; auto.
  - (* capture *)
    apply code_at_cons in Hc. destruct Hc as [E Hc]. apply code_at_app in Hc. destruct Hc as [Hcb Hc]. rewrite compile_length in Hc.
    apply code_at_cons in Hc. destruct Hc as [Eend _].
    assert (Htb : top_ne K b (o + 1)) by (intros o' x Ho; eapply Ht; cbn [subs_of]; exact Ho).
    intros c B Hpc Hv Hk HB. destruct n as [|n1]; [exact I|]. eapply (enter n1 c B); [rewrite Hpc; exact E|].
    unfold VM.step. rewrite Hpc, E.
    assert (Hin : SafeK n1 (o + 1) ((nm, length (matched (cur c))) :: V) K).
    { apply (IHn n1 ltac:(lia) b (o + 1) _ K Hw); [replace (S o) with (o + 1) in Hcb by lia; exact Hcb|exact Htb|].
      apply endvar_safe; [replace (S o + rx_len b) with (o + 1 + rx_len b) in Eend by lia; exact Eend|].
      eapply SafeK_le; [|replace (S (o + 1 + rx_len b)) with (o + (rx_len b + 2)) by lia; exact HK]. lia. }
    apply (Hin n1 (Nat.le_refl _)); cbn; auto; try congruence; try lia. eapply all_safe_le; [|exact HB]. lia.
  - (* subroutine defined in place *)
    destruct Hw as [Hps Hw].
    apply code_at_cons in Hc. destruct Hc as [E Hc]. apply code_at_app in Hc. destruct Hc as [Hcb Hc]. rewrite compile_length in Hc.
    apply code_at_cons in Hc. destruct Hc as [Eend _].
    intros c B Hpc Hv Hk HB. destruct n as [|n1]; [exact I|]. eapply (enter n1 c B); [rewrite Hpc; exact E|].
    unfold VM.step. rewrite Hpc, E.
    assert (Hin : SafeK n1 (o + 1) V ((o, S (o + 1 + rx_len b)) :: K)).
    { apply (IHn n1 ltac:(lia) b (o + 1) V _ Hw); [replace (S o) with (o + 1) in Hcb by lia; exact Hcb|apply top_ne_inner|].
      apply (endsub_safe n1 (o + 1 + rx_len b) nm pred o (S (o + 1 + rx_len b)) V K Hps); [replace (S o + rx_len b) with (o + 1 + rx_len b) in Eend by lia; exact Eend|].
      eapply SafeK_le; [|replace (S (o + 1 + rx_len b)) with (o + (rx_len b + 2)) by lia; exact HK]. lia. }
    assert (HB' : all_safe n1 B) by (eapply all_safe_le; [|exact HB]; lia).
    assert (Hpush : nocrash n1 (Running {| pc := S o; cur := cur c; loops := loops c; vars := vars c; calls := (o, S (o + 1 + rx_len b)) :: calls c; cenv := cenv c |} B)).
    { apply (Hin n1 (Nat.le_refl _)); cbn; auto; try congruence; lia. }
    rewrite Hk. destruct K as [|[i0 r0] K'].
    + rewrite <- Hk. exact Hpush.
    + assert (Hne : i0 <> o) by (apply (Ht o (b, pred)); cbn [subs_of]; left; reflexivity).
      destruct (Nat.eqb_spec i0 o) as [|_]; [congruence|]. rewrite <- Hk. exact Hpush.
Qed.

End SafeCode.

(* ---- a whole command body ---- *)
Lemma nocrash_run prog text : forall n s, nocrash prog text n s -> forall w, run prog text n s <> Crash_ w.
Proof.
  induction n as [|n IH]; intros s H w; destruct s as [c B| | |]; cbn [run nocrash] in *; try discriminate; try contradiction.
  - destruct (Nat.leb _ _); discriminate.
  - destruct (Nat.leb _ _); [discriminate|]. apply IH. exact H.
Qed.

(* every subroutine recorded by subs_of has its code in place, a well-formed body and a predicate that does not crash *)
Lemma subs_of_code_wf (p : list instr) sd : forall x o tg bd pd,
  code_at p o (compile x o) -> wf sd x -> In (tg, (bd, pd)) (subs_of x o) ->
  (exists n, code_at p tg (IStartSub tg n (tg + 1 + rx_len bd) :: compile bd (tg + 1) ++ [IEndSub n pd])) /\ wf sd bd /\ pred_safe pd.
Proof.
  induction x as [ |i|n|n t|a IHa b IHb|a IHa b IHb|items|items mx|id mn mx fw nm b IHb|n b IHb|n b IHb pred];
    intros o tg bd pd Hc Hok Hin; cbn [subs_of] in Hin; try contradiction; cbn [wf] in Hok.
  - cbn [compile] in Hc. apply code_at_app in Hc. destruct Hc as [H1 H2]. rewrite compile_length in H2.
    destruct Hok as [Hoa Hob]. apply in_app_or in Hin. destruct Hin; [eapply IHa|eapply IHb]; eauto.
  - cbn [compile] in Hc. apply code_at_cons in Hc. destruct Hc as [_ Hc].
    apply code_at_app in Hc. destruct Hc as [H1 Hc]. rewrite compile_length in Hc.
    apply code_at_cons in Hc. destruct Hc as [_ Hc]. apply code_at_app in Hc. destruct Hc as [H2 _].
    destruct Hok as [Hoa Hob]. apply in_app_or in Hin. destruct Hin as [Hin|Hin].
    + replace (S o) with (o + 1) in H1 by lia. eapply IHa; eauto.
    + replace (S (S o + rx_len a)) with (o + 2 + rx_len a) in H2 by lia. eapply IHb; eauto.
  - cbn [compile] in Hc. apply code_at_cons in Hc. destruct Hc as [_ Hc]. apply code_at_app in Hc. destruct Hc as [H1 _].
    replace (S o) with (o + 1) in H1 by lia. eapply IHb; eauto.
  - cbn [compile] in Hc. apply code_at_cons in Hc. destruct Hc as [_ Hc]. apply code_at_app in Hc. destruct Hc as [H1 _].
    replace (S o) with (o + 1) in H1 by lia. eapply IHb; eauto.
  - destruct Hok as [Hps Hwb]. destruct Hin as [E|Hin].
    + inversion E; subst. split; [exists n; exact Hc|]. split; assumption.
    + cbn [compile] in Hc. apply code_at_cons in Hc. destruct Hc as [_ Hc]. apply code_at_app in Hc. destruct Hc as [H1 _].
      replace (S o) with (o + 1) in H1 by lia. eapply IHb; eauto.
Qed.

Section Whole.
Variable r : rx.
Variable text : bytes.
Let prog := compile r 0.
Hypothesis Hwf : wf (defs_of r) r.

Lemma whole_subs : forall t b pred, defs_of r t = Some (b, pred) ->
  (exists nm, code_at prog t (IStartSub t nm (t + 1 + rx_len b) :: compile b (t + 1) ++ [IEndSub nm pred])) /\ wf (defs_of r) b /\ pred_safe pred.
Proof.
  intros t b pred H. unfold defs_of in H. apply nlookup_in in H.
  eapply subs_of_code_wf; eauto. intros i x Hi. exact Hi.
Qed.

(* one attempt, from any offset, for any number of steps, never crashes *)
Theorem attempt_never_crashes_lemma fuel off ln cl w : run prog text fuel (Running (init_core off ln cl) []) <> Crash_ w.
Proof.
  apply nocrash_run.
  pose proof (safe_all prog text (defs_of r) whole_subs fuel r 0 [] [] Hwf) as H.
  assert (Hc : code_at prog 0 (compile r 0)) by (intros i x Hi; exact Hi).
  assert (Ht : top_ne [] r 0) by (intros o' x _; exact I).
  assert (HK : SafeK prog text fuel (0 + rx_len r) [] []).
  { intros m _ c B Hpc _ _ _. destruct m as [|m]; [exact I|]. cbn [nocrash]. unfold prog. rewrite compile_length, Hpc. cbn [Nat.add]. rewrite Nat.leb_refl. exact I. }
  apply (H Hc Ht HK fuel (Nat.le_refl _)); auto. exact I.
Qed.

End Whole.

(* the scan never crashes when no attempt does *)
Section ScanSafe.
Variable att : nat -> nat -> nat -> outcome.
Variable text : bytes.
Variables (all : bool) (skip take last : nat).
Hypothesis Hatt : forall off ln cl w, att off ln cl <> Crash_ w.

Lemma scan_never_crashes : forall n off ln cl num acc w, off < length text ->
  scan att text all skip take last n off ln cl num acc <> SCrash w.
Proof.
  induction n as [|n IH]; intros off ln cl num acc w Hoff; cbn [scan]; [discriminate|].
  destruct (all || Nat.ltb num (skip + take))%bool; [|discriminate].
  unfold scan_iter.
  assert (Hfail : match (match fail_step text off ln cl with None => IRStop (SCrash CrBadInstr) | Some (o, l, k) => IRNext o l k num acc end) with
                  | IRStop w0 => w0
                  | IRNext off' ln' cl' num' acc' => if Nat.leb (length text) off' then SOk acc' else scan att text all skip take last n off' ln' cl' num' acc'
                  end <> SCrash w).
  { unfold fail_step. destruct (nth_error text off) as [b|] eqn:E; [|apply nth_error_None in E; lia].
    destruct (Nat.leb_spec (length text) (S off)); [discriminate|]. apply IH. lia. }
  destruct (att off ln cl) as [c| |w0|] eqn:Ea; [| exact Hfail | exfalso; exact (Hatt off ln cl w0 Ea) | discriminate].
  destruct (negb (Nat.eqb (length (matched (cur c))) 0)); [|exact Hfail].
  destruct (Nat.leb_spec (length text) (pos (cur c))); [discriminate|]. apply IH. assumption.
Qed.

End ScanSafe.

(* C09 for every well-formed pattern: no crash, for any command shape, text and step budget *)
Theorem find_never_crashes_lemma r text fuel all skip take last w :
  wf (defs_of r) r -> find_matches fuel (compile r 0) text all skip take last <> SCrash w.
Proof.
  intros Hwf. unfold find_matches. destruct (Nat.eqb_spec (length text) 0); [discriminate|].
  destruct (Nat.eqb (length (compile r 0)) 0); [discriminate|].
  apply scan_never_crashes; [|lia]. intros off ln cl w0. unfold attempt. apply attempt_never_crashes_lemma. exact Hwf.
Qed.
