(* C11 (precedence and associativity): the Pratt parser of transform expressions reads every way of
   writing an expression - minimal parentheses, full parentheses, anything in between - as that
   expression. *)
From Model Require Import Parser.
From Spec Require Import ExprSpec.
From Proofs Require Import ParseTotal.
From Coq Require Import Lia.

Lemma sk_nth {A} : forall i (l : list A) x tl, skipn i l = x :: tl -> nth_error l i = Some x /\ skipn (S i) l = tl /\ i < length l.
Proof.
  induction i as [|i IH]; intros [|a l] x tl H; cbn in *; try discriminate.
  - inversion H; subst. repeat split; lia.
  - destruct (IH _ _ _ H) as (A1 & A2 & A3). repeat split; auto. lia.
Qed.

Lemma sk_end {A} : forall i (l : list A), skipn i l = [] -> nth_error l i = None.
Proof.
  intros i l H. apply nth_error_None. destruct (Nat.le_gt_cases (length l) i); [assumption|].
  assert (length (skipn i l) = 0) by (rewrite H; reflexivity). rewrite skipn_length in H1. lia.
Qed.

Lemma sk_app' {A} : forall (ts : list A) i l rest, skipn i l = ts ++ rest -> skipn (i + length ts) l = rest /\ True.
Proof.
  induction ts as [|x ts IH]; intros i l rest H; cbn [app length] in *.
  - rewrite Nat.add_0_r. split; [exact H|exact I].
  - destruct (sk_nth _ _ _ _ H) as (_ & H1 & Hlt). destruct (IH _ _ _ H1) as [A1 _].
    replace (i + S (length ts)) with (S i + length ts) by lia. split; [exact A1|exact I].
Qed.

Lemma pratt_S et f idx minp : pratt et (S f) idx minp =
  match nth_error et idx with
  | None => match et with [] => PCrash | _ => PErr end
  | Some tk =>
      let t := ttyp tk in
      do (lhs, ti) <-
         (if teq t STRING then POk (PEStr (lexeme tk), S idx)
          else if teq t TRUE then POk (PEBool true, S idx)
          else if teq t FALSE then POk (PEBool false, S idx)
          else if teq t NUMBER then POk (PENum (match atoi_int (lexeme tk) with Some v => Z.of_nat v | None => 0%Z end), S idx)
          else if teq t IDENTIFIER then POk (PEVar (lexeme tk), S idx)
          else if teq t OPENPAREN then
            do (sub, n) <- pratt et f (S idx) 0;
            match nth_error et n with
            | None => PErr
            | Some c => if teq (ttyp c) CLOSEPAREN then POk (sub, S n) else PErr
            end
          else match unop_of t with
               | Some (op, rp) => do (rhs, n) <- pratt et f (S idx) rp; POk (PEUn op rhs, n)
               | None => PErr
               end);
      pratt_loop et f lhs ti minp
  end.
Proof. reflexivity. Qed.

Lemma pratt_loop_S et f lhs ti minp : pratt_loop et (S f) lhs ti minp =
  match nth_error et ti with
  | None => POk (lhs, ti)
  | Some tk =>
      if teq (ttyp tk) CLOSEPAREN then POk (lhs, ti)
      else match binop_of (ttyp tk) with
           | None => PErr
           | Some (op, lp, rp) =>
               if lp <? minp then POk (lhs, ti)
               else do (rhs, n) <- pratt et f (S ti) rp; pratt_loop et f (PEBin op lhs rhs) n minp
           end
  end.
Proof. reflexivity. Qed.

Lemma binop_of_tok op : binop_of (binop_tok op) = Some (op, lp op, rp op).
Proof. destruct op; reflexivity. Qed.

Lemma unop_of_tok op : unop_of (unop_tok op) = Some (op, urp op).
Proof. destruct op; reflexivity. Qed.

(* what may follow an operand: nothing, a closing parenthesis, or a binary operator binding weaker than k *)
Definition follow_ok (k : nat) (rest : list token) : Prop :=
  match rest with
  | [] => True
  | t :: _ => ttyp t = CLOSEPAREN \/ exists op, ttyp t = binop_tok op /\ lp op < k
  end.

Lemma follow_mono k k' rest : k <= k' -> follow_ok k rest -> follow_ok k' rest.
Proof. destruct rest as [|t tl]; cbn; [auto|]. intros Hk [H|(op & H1 & H2)]; [left; auto|right; exists op; split; [auto|lia]]. Qed.

(* with a follower that does not bind at level m, the loop stops at once *)
Lemma loop_stops et f lhs ti m rest : skipn ti et = rest -> follow_ok m rest -> pratt_loop et (S f) lhs ti m = POk (lhs, ti).
Proof.
  intros Hs Hf. rewrite pratt_loop_S. destruct rest as [|t tl]; [rewrite (sk_end _ _ Hs); reflexivity|].
  destruct (sk_nth _ _ _ _ Hs) as (-> & _). cbn [follow_ok] in Hf. destruct Hf as [Hc|(op & Ht & Hl)].
  - rewrite Hc. reflexivity.
  - rewrite Ht. assert (teq (binop_tok op) CLOSEPAREN = false) by (destruct op; reflexivity). rewrite H.
    rewrite binop_of_tok. apply Nat.ltb_lt in Hl. rewrite Hl. reflexivity.
Qed.

Lemma written_bound e b k ts : written e b k ts -> b <= 12 -> b < k.
Proof.
  intros H Hb. destruct H as [e b k ts o c _ _ _|e b ts Hle _]; [lia|].
  destruct e; cbn [top_lp top_rp] in *; unfold rp; lia.
Qed.

Lemma lp_small op : lp op <= 9. Proof. destruct op; cbn; lia. Qed.
Lemma urp_big op : 11 <= urp op <= 12. Proof. destruct op; cbn; lia. Qed.

Definition cps (e : pexpr) (ts : list token) (m : nat) (k : nat) : Prop :=
  forall et idx rest res, skipn idx et = ts ++ rest -> follow_ok k rest ->
    (forall F, 2 * (length et - (idx + length ts)) + 1 <= F -> pratt_loop et F e (idx + length ts) m = POk res) ->
    forall F, 2 * (length et - idx) + 2 <= F -> pratt et F idx m = POk res.

Lemma not_operand_types t : t = OPENPAREN \/ (exists op, t = unop_tok op) ->
  teq t STRING = false /\ teq t TRUE = false /\ teq t FALSE = false /\ teq t NUMBER = false /\ teq t IDENTIFIER = false.
Proof. intros [->|(op & ->)]; [|destruct op]; repeat split; reflexivity. Qed.

Theorem pratt_roundtrip_mutual :
  (forall e b k ts, written e b k ts -> b <= 12 -> forall m, m <= b -> cps e ts m k) /\
  (forall e ts, bare e ts -> forall m, m <= top_lp e -> cps e ts m (top_rp e)).
Proof.
  apply written_mutind.
  - (* parenthesised *)
    intros e b k ts o c Hw IH Ho Hc Hb m Hm et idx rest res Hs Hf Hk F HF.
    destruct F; [lia|]. rewrite pratt_S. cbn [app] in Hs. destruct (sk_nth _ _ _ _ Hs) as (Hn & Hs1 & Hlt). rewrite Hn.
    cbv zeta. rewrite Ho. cbn [teq ttype_beq]. rewrite <- app_assoc in Hs1. cbn [app] in Hs1.
    destruct (sk_app' _ _ _ _ Hs1) as [Hs2 Hle]. destruct (sk_nth _ _ _ _ Hs2) as (Hnc & Hs3 & Hlt2).
    assert (Hinner : pratt et F (S idx) 0 = POk (e, S idx + length ts)).
    { apply (IH ltac:(lia) 0 ltac:(lia) et (S idx) (c :: rest) (e, S idx + length ts) Hs1).
      - cbn. left. exact Hc.
      - intros F' HF'. destruct F'; [lia|]. apply (loop_stops et F' e _ 0 (c :: rest) Hs2). cbn. left. exact Hc.
      - lia. }
    rewrite Hinner. cbn [pbind]. rewrite Hnc, Hc. cbn [teq ttype_beq pbind].
    replace (S (S idx + length ts)) with (idx + length (o :: ts ++ [c])) by (cbn [length]; rewrite app_length; cbn [length]; lia).
    apply Hk. cbn [length]. rewrite app_length. cbn [length]. lia.
  - (* bare at a level it satisfies *)
    intros e b ts Hle Hb IH _ m Hm. apply IH. lia.
  - (* atom *)
    intros e t Ha m Hm et idx rest res Hs Hf Hk F HF.
    destruct F; [lia|]. rewrite pratt_S. cbn [app] in Hs. destruct (sk_nth _ _ _ _ Hs) as (Hn & _ & Hlt). rewrite Hn. cbv zeta.
    assert (Hlhs : (if teq (ttyp t) STRING then POk (PEStr (lexeme t), S idx)
                    else if teq (ttyp t) TRUE then POk (PEBool true, S idx)
                    else if teq (ttyp t) FALSE then POk (PEBool false, S idx)
                    else if teq (ttyp t) NUMBER then POk (PENum (match atoi_int (lexeme t) with Some v => Z.of_nat v | None => 0%Z end), S idx)
                    else if teq (ttyp t) IDENTIFIER then POk (PEVar (lexeme t), S idx)
                    else if teq (ttyp t) OPENPAREN then
                      do (sub, n) <- pratt et F (S idx) 0;
                      match nth_error et n with None => PErr | Some c => if teq (ttyp c) CLOSEPAREN then POk (sub, S n) else PErr end
                    else match unop_of (ttyp t) with
                         | Some (op, rp) => do (rhs, n) <- pratt et F (S idx) rp; POk (PEUn op rhs, n)
                         | None => PErr end) = POk (e, S idx)).
    { destruct e as [| |s|v|[|]|n]; cbn [atom_tok] in Ha; try contradiction.
      - destruct Ha as [-> <-]. reflexivity.
      - destruct Ha as (-> & n & -> & ->). reflexivity.
      - rewrite Ha. reflexivity.
      - rewrite Ha. reflexivity.
      - destruct Ha as [-> <-]. reflexivity. }
    rewrite Hlhs. cbn [pbind]. replace (S idx) with (idx + length [t]) by (cbn; lia). apply Hk. cbn [length]. lia.
  - (* unary *)
    intros op e k ts t Ht Hw IH m Hm et idx rest res Hs Hf Hk F HF.
    destruct F; [lia|]. rewrite pratt_S. cbn [app] in Hs. destruct (sk_nth _ _ _ _ Hs) as (Hn & Hs1 & Hlt). rewrite Hn. cbv zeta.
    rewrite Ht. destruct (not_operand_types (unop_tok op) (or_intror (ex_intro _ op eq_refl))) as (A1 & A2 & A3 & A4 & A5).
    rewrite A1, A2, A3, A4, A5. assert (A6 : teq (unop_tok op) OPENPAREN = false) by (destruct op; reflexivity). rewrite A6.
    rewrite unop_of_tok. pose proof (urp_big op) as Hu.
    destruct (sk_app' _ _ _ _ Hs1) as [Hs2 Hle].
    assert (Hk100 : follow_ok k rest).
    { pose proof (written_bound _ _ _ _ Hw ltac:(lia)) as Hb. eapply follow_mono; [|exact Hf]. cbn [top_rp].
      destruct Hw as [? ? ? ? ? ? _ _ _|e' b' ts' Hle' _]; [lia|]. destruct e'; cbn [top_lp top_rp] in *; try lia. pose proof (lp_small op0). lia. }
    assert (Hinner : pratt et F (S idx) (urp op) = POk (e, S idx + length ts)).
    { apply (IH ltac:(lia) (urp op) ltac:(lia) et (S idx) rest (e, S idx + length ts) Hs1 Hk100).
      - intros F' HF'. destruct F'; [lia|]. apply (loop_stops et F' e _ (urp op) rest Hs2).
        destruct rest as [|h tl]; [exact I|]. cbn [follow_ok] in *. destruct Hf as [Hc|(op2 & H1 & H2)]; [left; exact Hc|right].
        exists op2. split; [exact H1|]. pose proof (lp_small op2). lia.
      - lia. }
    rewrite Hinner. cbn [pbind].
    replace (S idx + length ts) with (idx + length (t :: ts)) by (cbn [length]; lia). apply Hk. cbn [length]. lia.
  - (* binary *)
    intros op l r kl kr tl tr t Ht Hwl IHl Hwr IHr m Hm et idx rest res Hs Hf Hk F HF.
    cbn [top_lp top_rp] in *. pose proof (lp_small op) as Hlp. unfold rp in *.
    rewrite <- app_assoc in Hs. cbn [app] in Hs.
    destruct (sk_app' _ _ _ _ Hs) as [Hs1 Hle1]. destruct (sk_nth _ _ _ _ Hs1) as (Hnt & Hs2 & Hlt1).
    destruct (sk_app' _ _ _ _ Hs2) as [Hs3 Hle3].
    apply (IHl ltac:(lia) m Hm et idx (t :: tr ++ rest) res Hs); [| |exact HF].
    + (* the operator may follow the left operand *)
      cbn [follow_ok]. right. exists op. split; [exact Ht|]. pose proof (written_bound _ _ _ _ Hwl ltac:(lia)). lia.
    + (* the loop takes the operator and the right operand *)
      intros F' HF'. destruct F'; [lia|]. rewrite pratt_loop_S. rewrite Hnt, Ht.
      assert (teq (binop_tok op) CLOSEPAREN = false) by (destruct op; reflexivity). rewrite H.
      rewrite binop_of_tok. unfold rp. assert (Hge : (lp op <? m) = false) by (apply Nat.ltb_ge; exact Hm). rewrite Hge.
      assert (Hkr : follow_ok kr rest).
      { eapply follow_mono; [|exact Hf]. pose proof (written_bound _ _ _ _ Hwr ltac:(lia)). lia. }
      assert (Hinner : pratt et F' (S (idx + length tl)) (S (lp op)) = POk (r, S (idx + length tl) + length tr)).
      { apply (IHr ltac:(lia) (S (lp op)) ltac:(lia) et (S (idx + length tl)) rest (r, S (idx + length tl) + length tr) Hs2 Hkr).
        - intros F'' HF''. destruct F''; [lia|]. apply (loop_stops et F'' r _ (S (lp op)) rest Hs3 Hf).
        - lia. }
      rewrite Hinner. cbn [pbind].
      replace (S (idx + length tl) + length tr) with (idx + length (tl ++ t :: tr)) by (rewrite app_length; cbn [length]; lia).
      apply Hk. rewrite app_length. cbn [length]. lia.
Qed.

(* C11: every way of writing an expression is read as that expression, by the fuel pprocexpr gives *)
Theorem pratt_roundtrip_lemma e k ts : written e 0 k ts ->
  pratt ts (2 * length ts + 2) 0 0 = POk (e, length ts).
Proof.
  intros Hw. apply (proj1 pratt_roundtrip_mutual e 0 k ts Hw ltac:(lia) 0 ltac:(lia) ts 0 [] (e, length ts)).
  - rewrite app_nil_r. reflexivity.
  - exact I.
  - intros F HF. destruct F; [lia|]. cbn [Nat.add]. apply (loop_stops ts F e (length ts) 0 []); [|exact I].
    apply skipn_all.
  - lia.
Qed.
