(* C15: every lexical element - a token in any of its spellings, a blank run, a line comment, a
   block comment - is turned by the lexer into exactly one token, whatever surrounds it; hence the
   significant tokens of a source do not depend on the separators chosen between them. *)
From Model Require Import Lexer Parser.
From Spec Require Import StrSpec LayoutSpec.
From Proofs Require Import StringLit LexTotal.
From Coq Require Import Lia ZifyBool ZifyN.
Local Open Scope N_scope.

Lemma leb_false a b : (a <=? b) = false <-> b < a.
Proof. rewrite N.leb_gt. tauto. Qed.

Ltac ncases :=
  repeat match goal with
         | H : context[?a <=? ?b] |- _ => destruct (N.leb_spec a b)
         | H : context[?a =? ?b] |- _ => destruct (N.eqb_spec a b)
         | |- context[?a <=? ?b] => destruct (N.leb_spec a b)
         | |- context[?a =? ?b] => destruct (N.eqb_spec a b)
         end.

Lemma letter_facts c : is_letter_r c = true -> is_space c = false /\ is_digit_r c = false /\ c <> 0 /\ c < 128 /\ 65 <= c.
Proof. unfold is_letter_r, is_space, is_digit_r. intros H. lia. Qed.

Lemma digit_facts c : is_digit_r c = true -> is_space c = false /\ is_letter_r c = false /\ c <> 0 /\ c < 128 /\ 48 <= c <= 57.
Proof. unfold is_letter_r, is_space, is_digit_r. intros H. lia. Qed.

Lemma space_facts c : is_space c = true -> is_letter_r c = false /\ is_digit_r c = false /\ c <> 0 /\ (c <= 32 \/ 128 <= c).
Proof. unfold is_letter_r, is_space, is_digit_r. intros H. lia. Qed.

Lemma trip3 {A B C} (a a' : A) (b b' : B) (c c' : C) : a = a' -> b = b' -> c = c' -> (a, b, c) = (a', b', c').
Proof. intros -> -> ->. reflexivity. Qed.

Section Layout.
Variable src : list N.

Lemma skipn_nil_rd p : skipn p src = [] -> rd src p = (0, p).
Proof.
  intros H. unfold rd.
  assert (nth_error src p = None).
  { apply nth_error_None. destruct (Nat.le_gt_cases (length src) p); [assumption|].
    assert (length (skipn p src) = 0)%nat by (rewrite H; reflexivity). rewrite skipn_length in H1. lia. }
  rewrite H0. reflexivity.
Qed.

Lemma skipn_app_len p (l rest : list N) : skipn p src = l ++ rest -> skipn (p + length l) src = rest.
Proof.
  revert p. induction l as [|x l IH]; intros p H; cbn [length app] in *.
  - rewrite Nat.add_0_r. exact H.
  - replace (p + S (length l))%nat with (S p + length l)%nat by lia. apply IH. eapply skipn_S_tl; eauto.
Qed.

Lemma skipn_len_le p (l : list N) : skipn p src = l -> (p + length l <= length src \/ l = [])%nat.
Proof.
  intros H. destruct l; [right; reflexivity|left].
  assert (length (skipn p src) = length (n :: l)) by (rewrite H; reflexivity). rewrite skipn_length in H0. cbn [length] in *. lia.
Qed.

Ltac norm := cbn [lstate_eqb negb orb andb]; rewrite ?Bool.andb_false_r, ?Bool.andb_true_r, ?Bool.orb_false_r, ?Bool.orb_true_r; cbn [negb orb andb].

(* ---- the states that wait for one more character ---- *)
Definition continues (st : lstate) (c : N) : bool :=
  match st with
  | SNUMBER => is_digit_r c
  | SIDENTIFIER => is_alnum c
  | SWHITESPACE => is_space c
  | SDASH => c =? 45
  | SEQUAL_1 | SOPERATORSTART => c =? 61
  | _ => true
  end.

Definition waits (st : lstate) : Prop :=
  st = SNUMBER \/ st = SIDENTIFIER \/ st = SWHITESPACE \/ st = SDASH \/ st = SEQUAL_1 \/ st = SOPERATORSTART.

Definition ends (st : lstate) (next : list N) : Prop :=
  match next with [] => True | c :: _ => continues st c = false end.

Lemma step_wait_stop st buf p next : waits st -> skipn p src = next -> ends st next ->
  lex_step src st buf p = Stop st buf p.
Proof.
  intros Hw Hs He. destruct next as [|c tl].
  - unfold lex_step. rewrite (skipn_nil_rd p Hs).
    destruct Hw as [-> | [-> | [-> | [-> | [-> | ->]]]]]; reflexivity.
  - destruct (skipn_cons_rd src _ _ _ Hs) as [Hr _]. cbn [ends] in He. unfold lex_step. rewrite Hr.
    destruct (c =? 0) eqn:E0.
    { destruct Hw as [-> | [-> | [-> | [-> | [-> | ->]]]]]; norm; reflexivity. }
    destruct Hw as [-> | [-> | [-> | [-> | [-> | ->]]]]]; cbn [continues] in He; norm; rewrite ?He.
    + (* SNUMBER *) destruct (is_space c); [reflexivity|]. destruct (is_digit_r c || is_letter_r c)%bool; reflexivity.
    + (* SIDENTIFIER *) unfold is_alnum in He. rewrite He. destruct (is_space c); reflexivity.
    + (* SWHITESPACE *) reflexivity.
    + (* SDASH *) destruct (is_space c); reflexivity.
    + (* SEQUAL_1 *) destruct (is_space c); reflexivity.
    + (* SOPERATORSTART *) destruct (is_space c); reflexivity.
Qed.

Definition runs (st : lstate) : Prop := st = SNUMBER \/ st = SIDENTIFIER \/ st = SWHITESPACE.

Lemma step_run_cont st buf p c : runs st -> rd src p = (c, S p) -> continues st c = true -> c <> 0 ->
  lex_step src st buf p = Cont st (buf ++ encode_rune c) (S p).
Proof.
  intros Hr Hrd Hc H0. unfold lex_step. rewrite Hrd. rewrite (neq_eqb _ _ H0).
  destruct Hr as [-> | [-> | ->]]; cbn [continues] in Hc; norm.
  - destruct (digit_facts c Hc) as (A & B & _). rewrite A, Hc. cbn. reflexivity.
  - unfold is_alnum in Hc. assert (is_space c = false).
    { apply Bool.orb_true_iff in Hc. destruct Hc as [H|H]; [apply digit_facts in H|apply letter_facts in H]; tauto. }
    rewrite H, Hc. cbn. destruct (is_digit_r c); reflexivity.
  - rewrite Hc. reflexivity.
Qed.

Lemma run_loop st : runs st -> forall l buf p rest fuel,
  Forall (fun c => continues st c = true /\ c <> 0) l -> skipn p src = l ++ rest -> ends st rest -> (length l < fuel)%nat ->
  lex_loop src fuel st buf p = Some (st, buf ++ enc_all l, (p + length l)%nat).
Proof.
  intros Hr. induction l as [|c l IH]; intros buf p rest fuel Hall Hs He Hf.
  - destruct fuel; [cbn in Hf; lia|]. cbn [lex_loop].
    assert (Hw : waits st) by (destruct Hr as [-> | [-> | ->]]; unfold waits; tauto).
    rewrite (step_wait_stop st buf p rest Hw Hs He). cbn. rewrite app_nil_r, Nat.add_0_r. reflexivity.
  - destruct fuel; [cbn in Hf; lia|]. cbn [lex_loop]. inversion Hall as [|? ? [Hc H0] Hall']; subst.
    cbn [app] in Hs. destruct (skipn_cons_rd src _ _ _ Hs) as [Hrd Hs'].
    rewrite (step_run_cont st buf p c Hr Hrd Hc H0).
    rewrite (IH _ _ rest fuel Hall' Hs' He) by (cbn in Hf; lia).
    apply some3; [reflexivity|cbn [enc_all flat_map]; rewrite <- app_assoc; reflexivity|cbn [length]; lia].
Qed.


(* ---- leaving the start state ---- *)
Ltac kill_eq H :=
  repeat match goal with
         | |- context[N.eqb ?c ?k] => is_var c;
             let E := fresh "E" in destruct (N.eqb_spec c k) as [E|E]; [exfalso; subst c; vm_compute in H; discriminate H|]
         end.

Lemma start_letter p c : rd src p = (c, S p) -> is_letter_r c = true ->
  lex_step src SSTART [] p = Cont SIDENTIFIER (encode_rune c) (S p).
Proof.
  intros Hr Hl. destruct (letter_facts c Hl) as (A & B & _). unfold lex_step. rewrite Hr. cbn [lstate_eqb andb orb negb].
  kill_eq Hl. cbn [andb orb negb]. rewrite A, B, Hl. reflexivity.
Qed.

Lemma start_digit p c : rd src p = (c, S p) -> is_digit_r c = true ->
  lex_step src SSTART [] p = Cont SNUMBER (encode_rune c) (S p).
Proof.
  intros Hr Hl. destruct (digit_facts c Hl) as (A & B & _). unfold lex_step. rewrite Hr. cbn [lstate_eqb andb orb negb].
  kill_eq Hl. cbn [andb orb negb]. rewrite A, Hl. reflexivity.
Qed.

Lemma start_space p c : rd src p = (c, S p) -> is_space c = true ->
  lex_step src SSTART [] p = Cont SWHITESPACE (encode_rune c) (S p).
Proof.
  intros Hr Hl. unfold lex_step. rewrite Hr. cbn [lstate_eqb andb orb negb].
  kill_eq Hl. cbn [andb orb negb]. rewrite Hl. reflexivity.
Qed.

Lemma enc_ascii_all l : Forall (fun c => c < 128) l -> enc_all l = l.
Proof. induction 1 as [|c l Hc _ IH]; [reflexivity|]. cbn [enc_all flat_map]. rewrite (enc_ascii c Hc). cbn. f_equal. exact IH. Qed.

Lemma alnum_ascii c : is_alnum c = true -> c < 128 /\ c <> 0.
Proof. unfold is_alnum. intros H. apply Bool.orb_true_iff in H. destruct H as [H|H]; [apply digit_facts in H|apply letter_facts in H]; split; try tauto; lia. Qed.

(* a first character followed by a run *)
Lemma first_then_run st (Hr : runs st) p c l rest fuel :
  lex_step src SSTART [] p = Cont st (encode_rune c) (S p) ->
  Forall (fun x => continues st x = true /\ x <> 0) l -> skipn p src = (c :: l) ++ rest -> ends st rest -> (length l + 1 < fuel)%nat ->
  lex_loop src fuel SSTART [] p = Some (st, enc_all (c :: l), (p + length (c :: l))%nat).
Proof.
  intros Hs Hall Hsk He Hf. destruct fuel; [lia|]. cbn [lex_loop]. rewrite Hs.
  cbn [app] in Hsk. destruct (skipn_cons_rd src _ _ _ Hsk) as [_ Hsk'].
  rewrite (run_loop st Hr l _ (S p) rest fuel Hall Hsk' He) by lia.
  apply some3; [reflexivity|reflexivity|cbn [length]; lia].
Qed.

(* ---- punctuation ---- *)
Definition punct_state (k : punct) : lstate :=
  match k with
  | KOpen => SOPENPAREN | KClose => SCLOSEPAREN | KOCurly => SOPENCURLY | KCCurly => SCLOSECURLY | KComma => SCOMMA
  | KPlus | KMult | KDiv | KMod | KLessEq | KGreaterEq => SOPERATOR
  | KEq => SEQUAL_1 | KDEq => SDEQUAL | KNEq => SNEQUAL | KColonEq => SCOLONEQ
  | KLess | KGreater => SOPERATORSTART | KMinus => SDASH
  end.

Lemma punct_finish k : finish (punct_state k) (punct_spell k) = inl (tok_el (LPunct k)).
Proof. destruct k; reflexivity. Qed.

Lemma punct_lex k p rest fuel : skipn p src = punct_spell k ++ rest -> valid_el (LPunct k) rest -> (3 <= fuel)%nat ->
  lex_loop src fuel SSTART [] p = Some (punct_state k, punct_spell k, (p + length (punct_spell k))%nat).
Proof.
  intros Hs Hv Hf. destruct fuel as [|[|[|fuel]]]; try lia. cbn [valid_el] in Hv.
  destruct k; cbn [punct_spell app punct_glue] in Hs, Hv; cbn [punct_spell punct_state length];
    destruct (skipn_cons_rd src _ _ _ Hs) as [Hr1 Hs1];
    try (destruct (skipn_cons_rd src _ _ _ Hs1) as [Hr2 Hs2]);
    cbn [lex_loop]; unfold lex_step at 1; rewrite Hr1; cbn [lstate_eqb andb orb negb N.eqb Pos.eqb encode_rune N.ltb N.compare Pos.compare Pos.compare_cont app];
    try (apply some3; [reflexivity|reflexivity|lia]).
  all: try (unfold lex_step at 1; rewrite Hr2; cbn [lstate_eqb andb orb negb N.eqb Pos.eqb encode_rune N.ltb N.compare Pos.compare Pos.compare_cont app];
            apply some3; [reflexivity|reflexivity|lia]).
  all: match goal with
       | |- context[lex_step src ?st ?b ?q] =>
           rewrite (step_wait_stop st b q rest);
           [apply some3; [reflexivity|reflexivity|lia] | unfold waits; tauto | exact Hs1
           | destruct rest as [|c tl]; [exact I|cbn [ends continues head_not] in *; rewrite N.eqb_sym; exact Hv]]
       end.
Qed.

(* ---- regex literals ---- *)
Lemma regexp_body_run : forall body buf p rest fuel, Forall (fun c => c <> 47 /\ c <> 0) body ->
  skipn p src = body ++ 47 :: rest -> (length body < fuel)%nat ->
  regexp_body src fuel buf p = (SREGEXP, buf ++ enc_all body, (p + length body + 1)%nat).
Proof.
  induction body as [|c body IH]; intros buf p rest fuel Hall Hs Hf; (destruct fuel; [cbn in Hf; lia|]); cbn [regexp_body].
  - cbn [app] in Hs. destruct (skipn_cons_rd src _ _ _ Hs) as [Hr _]. rewrite Hr. cbn [N.eqb Pos.eqb]. apply trip3; [reflexivity|cbn; rewrite app_nil_r; reflexivity|cbn; lia].
  - inversion Hall as [|? ? [H47 H0] Hall']; subst. cbn [app] in Hs. destruct (skipn_cons_rd src _ _ _ Hs) as [Hr Hs'].
    rewrite Hr. rewrite (neq_eqb _ _ H47), (neq_eqb _ _ H0).
    rewrite (IH _ _ rest fuel Hall' Hs') by (cbn in Hf; lia).
    apply trip3; [reflexivity|cbn [enc_all flat_map]; rewrite <- app_assoc; reflexivity|cbn [length]; lia].
Qed.

Lemma regex_lex body p rest fuel : Forall (fun c => c <> 47 /\ c <> 0) body ->
  skipn p src = (64 :: 47 :: body ++ [47]) ++ rest -> (1 <= fuel)%nat ->
  lex_loop src fuel SSTART [] p = Some (SREGEXP, enc_all body, (p + length (spell_el (LRegex body)))%nat).
Proof.
  intros Hall Hs Hf. destruct fuel; [lia|]. cbn [lex_loop app] in *.
  rewrite <- app_assoc in Hs. cbn [app] in Hs.
  destruct (skipn_cons_rd src _ _ _ Hs) as [Hr1 Hs1]. destruct (skipn_cons_rd src _ _ _ Hs1) as [Hr2 Hs2].
  unfold lex_step. rewrite Hr1. cbn [lstate_eqb andb orb negb N.eqb Pos.eqb]. rewrite Hr2. cbn [N.eqb Pos.eqb negb].
  assert (Hlen : (length body < S (length src))%nat).
  { destruct (skipn_len_le (S (S p)) _ Hs2) as [H|H]; [rewrite app_length in H; lia|destruct body; discriminate]. }
  rewrite (regexp_body_run body [] (S (S p)) rest (S (length src)) Hall Hs2 Hlen).
  apply some3; [reflexivity|reflexivity|cbn [spell_el length]; rewrite app_length; cbn [length]; lia].
Qed.

(* ---- block comments ---- *)
Definition in_block (st : lstate) : Prop := st = SBLOCKCOMMENT \/ st = SBLOCKCOMMENTSTARTEND \/ st = SBLOCKCOMMENTENDEND.

Lemma bc_next_in st c : in_block st -> lstate_eqb (bc_next st c) SBLOCKCOMMENTFINAL = true \/ (lstate_eqb (bc_next st c) SBLOCKCOMMENTFINAL = false /\ in_block (bc_next st c)).
Proof.
  intros [-> | [-> | ->]]; cbn [bc_next]; destruct (c =? 41); destruct (c =? 45); unfold in_block; cbn; tauto.
Qed.

Lemma block_step st buf p c : in_block st -> rd src p = (c, S p) -> c <> 0 ->
  lex_step src st buf p =
    if lstate_eqb (bc_next st c) SBLOCKCOMMENTFINAL then Stop SBLOCKCOMMENTFINAL (buf ++ encode_rune c) (S p)
    else Cont (bc_next st c) (buf ++ encode_rune c) (S p).
Proof.
  intros Hin Hr H0. unfold lex_step. rewrite Hr. rewrite (neq_eqb _ _ H0).
  destruct Hin as [-> | [-> | ->]]; cbn [lstate_eqb andb orb negb bc_next]; rewrite ?Bool.andb_false_r;
    destruct (c =? 41) eqn:E41; destruct (c =? 45) eqn:E45; try reflexivity;
    apply N.eqb_eq in E41; apply N.eqb_eq in E45; congruence.
Qed.

Lemma block_run : forall l st buf p n rest fuel, in_block st -> bc_scan st l = Some n -> nonzero l ->
  skipn p src = l ++ rest -> (n < fuel)%nat ->
  lex_loop src fuel st buf p = Some (SBLOCKCOMMENTFINAL, buf ++ enc_all (firstn n l), (p + n)%nat).
Proof.
  induction l as [|c l IH]; intros st buf p n rest fuel Hin Hsc Hnz Hs Hf; cbn [bc_scan] in Hsc; [discriminate|].
  inversion Hnz as [|? ? H0 Hnz']; subst. cbn [app] in Hs. destruct (skipn_cons_rd src _ _ _ Hs) as [Hr Hs'].
  destruct fuel; [lia|]. cbn [lex_loop]. rewrite (block_step st buf p c Hin Hr H0).
  destruct (bc_next_in st c Hin) as [Hfin|[Hnf Hin']].
  - rewrite Hfin in *. inversion Hsc; subst. cbn [firstn enc_all flat_map]. rewrite app_nil_r.
    apply some3; [reflexivity|reflexivity|lia].
  - rewrite Hnf in *.
    destruct (bc_scan (bc_next st c) l) as [m|] eqn:Em; [|discriminate]. inversion Hsc; subst n.
    rewrite (IH _ _ (S p) m rest fuel Hin' Em Hnz' Hs') by lia.
    apply some3; [reflexivity|cbn [firstn enc_all flat_map]; rewrite <- app_assoc; reflexivity|lia].
Qed.

Lemma start_dash p : rd src p = (45, S p) -> lex_step src SSTART [] p = Cont SDASH [45] (S p).
Proof. intros Hr. unfold lex_step. rewrite Hr. reflexivity. Qed.
Lemma dash_dash buf p : rd src p = (45, S p) -> lex_step src SDASH buf p = Cont SCOMMENTSTART (buf ++ [45]) (S p).
Proof. intros Hr. unfold lex_step. rewrite Hr. reflexivity. Qed.
Lemma comment_open buf p : rd src p = (40, S p) -> lex_step src SCOMMENTSTART buf p = Cont SBLOCKCOMMENT (buf ++ [40]) (S p).
Proof. intros Hr. unfold lex_step. rewrite Hr. reflexivity. Qed.

Lemma block_lex body p rest fuel : nonzero body -> bc_scan SBLOCKCOMMENT (body ++ [41; 45; 45]) = Some (length body + 3)%nat ->
  skipn p src = (45 :: 45 :: 40 :: body ++ [41; 45; 45]) ++ rest -> (length body + 6 < fuel)%nat ->
  lex_loop src fuel SSTART [] p = Some (SBLOCKCOMMENTFINAL, enc_all (45 :: 45 :: 40 :: body ++ [41; 45; 45]), (p + length (spell_el (LBlock body)))%nat).
Proof.
  intros Hnz Hsc Hs Hf. cbn [app] in Hs.
  destruct (skipn_cons_rd src _ _ _ Hs) as [Hr1 Hs1]. destruct (skipn_cons_rd src _ _ _ Hs1) as [Hr2 Hs2].
  destruct (skipn_cons_rd src _ _ _ Hs2) as [Hr3 Hs3].
  destruct fuel as [|[|[|fuel]]]; try lia. cbn [lex_loop].
  rewrite (start_dash p Hr1), (dash_dash _ _ Hr2), (comment_open _ _ Hr3).
  assert (Hnz' : nonzero (body ++ [41; 45; 45])).
  { apply Forall_app. split; [exact Hnz|]. repeat constructor; discriminate. }
  rewrite (block_run (body ++ [41; 45; 45]) SBLOCKCOMMENT _ (S (S (S p))) _ rest fuel (or_introl eq_refl) Hsc Hnz' Hs3) by lia.
  apply some3; [reflexivity| |cbn [spell_el length]; rewrite app_length; cbn [length]; lia].
  replace (length body + 3)%nat with (length (body ++ [41; 45; 45])) by (rewrite app_length; cbn; lia).
  rewrite firstn_all. reflexivity.
Qed.

(* ---- line comments ---- *)
Lemma comment_step buf p c : rd src p = (c, S p) -> c <> 0 -> c <> 10 ->
  lex_step src SCOMMENT buf p = Cont SCOMMENT (buf ++ encode_rune c) (S p).
Proof. intros Hr H0 H10. unfold lex_step. rewrite Hr. cbn [lstate_eqb andb orb negb]. rewrite (neq_eqb _ _ H0), (neq_eqb _ _ H10). reflexivity. Qed.

Lemma comment_first buf p c : rd src p = (c, S p) -> c <> 0 -> c <> 10 -> c <> 40 ->
  lex_step src SCOMMENTSTART buf p = Cont SCOMMENT (buf ++ encode_rune c) (S p).
Proof.
  intros Hr H0 H10 H40. unfold lex_step. rewrite Hr. cbn [lstate_eqb andb orb negb].
  rewrite (neq_eqb _ _ H0), (neq_eqb _ _ H10), (neq_eqb _ _ H40). reflexivity.
Qed.

Lemma comment_stop st buf p next : st = SCOMMENT \/ st = SCOMMENTSTART -> skipn p src = next ->
  match next with [] => True | c :: _ => c = 10 end -> lex_step src st buf p = Stop st buf p.
Proof.
  intros Hst Hs Hn. destruct next as [|c tl].
  - unfold lex_step. rewrite (skipn_nil_rd p Hs). destruct Hst as [-> | ->]; reflexivity.
  - subst c. destruct (skipn_cons_rd src _ _ _ Hs) as [Hr _]. unfold lex_step. rewrite Hr. destruct Hst as [-> | ->]; reflexivity.
Qed.

Lemma comment_run : forall l buf p rest fuel, Forall (fun c => c <> 10 /\ c <> 0) l -> skipn p src = l ++ rest ->
  match rest with [] => True | c :: _ => c = 10 end -> (length l < fuel)%nat ->
  lex_loop src fuel SCOMMENT buf p = Some (SCOMMENT, buf ++ enc_all l, (p + length l)%nat).
Proof.
  induction l as [|c l IH]; intros buf p rest fuel Hall Hs Hn Hf; (destruct fuel; [cbn in Hf; lia|]); cbn [lex_loop].
  - rewrite (comment_stop SCOMMENT buf p rest (or_introl eq_refl) Hs Hn). apply some3; [reflexivity|cbn; rewrite app_nil_r; reflexivity|cbn; lia].
  - inversion Hall as [|? ? [H10 H0] Hall']; subst. cbn [app] in Hs. destruct (skipn_cons_rd src _ _ _ Hs) as [Hr Hs'].
    rewrite (comment_step buf p c Hr H0 H10). rewrite (IH _ _ rest fuel Hall' Hs' Hn) by (cbn in Hf; lia).
    apply some3; [reflexivity|cbn [enc_all flat_map]; rewrite <- app_assoc; reflexivity|cbn [length]; lia].
Qed.

Lemma line_lex body p rest fuel : valid_el (LLine body) rest -> skipn p src = (45 :: 45 :: body) ++ rest -> (length body + 3 < fuel)%nat ->
  exists st, (st = SCOMMENT \/ st = SCOMMENTSTART) /\
  lex_loop src fuel SSTART [] p = Some (st, enc_all (45 :: 45 :: body), (p + length (spell_el (LLine body)))%nat).
Proof.
  intros (Hall & H40 & Hn) Hs Hf. cbn [app] in Hs.
  destruct (skipn_cons_rd src _ _ _ Hs) as [Hr1 Hs1]. destruct (skipn_cons_rd src _ _ _ Hs1) as [Hr2 Hs2].
  destruct fuel as [|[|[|fuel]]]; try lia. cbn [lex_loop].
  rewrite (start_dash p Hr1), (dash_dash _ _ Hr2).
  destruct body as [|c body].
  - exists SCOMMENTSTART. split; [tauto|]. cbn [app] in Hs2.
    rewrite (comment_stop SCOMMENTSTART _ _ rest (or_intror eq_refl) Hs2 Hn). apply some3; [reflexivity|reflexivity|cbn [spell_el length]; lia].
  - exists SCOMMENT. split; [tauto|]. inversion Hall as [|? ? [H10 H0] Hall']; subst. cbn [head_not] in H40.
    cbn [app] in Hs2. destruct (skipn_cons_rd src _ _ _ Hs2) as [Hr3 Hs3].
    assert (c <> 40) by (intros ->; discriminate H40).
    rewrite (comment_first _ _ c Hr3 H0 H10 H).
    rewrite (comment_run body _ _ rest fuel Hall' Hs3 Hn) by (cbn in Hf; lia).
    apply some3; [reflexivity|cbn [enc_all flat_map]; change (encode_rune 45) with [45]; rewrite <- !app_assoc; reflexivity|cbn [spell_el length]; lia].
Qed.

End Layout.

(* ---- every element becomes exactly one token ---- *)
Lemma spell_nonempty e next : valid_el e next -> spell_el e <> [].
Proof.
  destruct e as [k|w|ds|q ps|body|ws|body|body]; cbn [valid_el spell_el]; try discriminate.
  - destruct k; discriminate.
  - intros [(c & r & -> & _) _]. discriminate.
  - intros [H _]. exact H.
  - intros [H _]. exact H.
Qed.

Lemma el_lex src e p rest fuel : valid_el e rest -> skipn p src = spell_el e ++ rest ->
  (length (spell_el e) + 1 < fuel)%nat -> (3 <= fuel)%nat ->
  exists st buf, lex_loop src fuel SSTART [] p = Some (st, buf, (p + length (spell_el e))%nat) /\ finish st buf = inl (tok_el e).
Proof.
  intros Hv Hs Hf H3. destruct e as [k|w|ds|q ps|body|ws|body|body]; cbn [spell_el] in *.
  - exists (punct_state k), (punct_spell k). split; [apply (punct_lex src k p rest fuel Hs Hv H3)|apply punct_finish].
  - destruct Hv as [(c & r & -> & Hl & Hr) He].
    exists SIDENTIFIER, (c :: r). split.
    + destruct (skipn_cons_rd src _ _ _ Hs) as [Hrd _].
      rewrite (first_then_run src SIDENTIFIER (or_intror (or_introl eq_refl)) p c r rest fuel (start_letter src p c Hrd Hl)).
      * rewrite enc_ascii_all; [reflexivity|]. constructor; [apply letter_facts in Hl; tauto|].
        eapply Forall_impl; [|exact Hr]. intros x Hx. apply alnum_ascii in Hx. tauto.
      * eapply Forall_impl; [|exact Hr]. intros x Hx. split; [exact Hx|apply alnum_ascii in Hx; tauto].
      * exact Hs.
      * destruct rest; [exact I|exact He].
      * cbn [length] in Hf. lia.
    + cbn [finish tok_el]. unfold word_type. destruct (alookup keywords (map lower_ascii (c :: r))); reflexivity.
  - destruct Hv as (Hne & Hall & He). destruct ds as [|c r]; [congruence|]. inversion Hall as [|? ? Hc Hr]; subst.
    exists SNUMBER, (c :: r). split; [|reflexivity].
    destruct (skipn_cons_rd src _ _ _ Hs) as [Hrd _].
    rewrite (first_then_run src SNUMBER (or_introl eq_refl) p c r rest fuel (start_digit src p c Hrd Hc)).
    + rewrite enc_ascii_all; [reflexivity|]. eapply Forall_impl; [|exact Hall]. intros x Hx. apply digit_facts in Hx. tauto.
    + eapply Forall_impl; [|exact Hr]. intros x Hx. split; [exact Hx|apply digit_facts in Hx; tauto].
    + exact Hs.
    + destruct rest; [exact I|exact He].
    + cbn [length] in Hf. lia.
  - destruct Hv as [Hq Hv]. exists SSTRING_END, (map denote ps). split; [|reflexivity].
    assert (Hst : exists st, str_state q st).
    { destruct Hq as [-> | ->]; [exists SSTRING_DOUBLE; left|exists SSTRING_SINGLE; right]; split; reflexivity. }
    destruct Hst as [st Hst].
    cbn [app] in Hs. rewrite <- app_assoc in Hs. cbn [app] in Hs.
    destruct (skipn_cons_rd src _ _ _ Hs) as [Hrd Hs1].
    destruct fuel; [lia|]. cbn [lex_loop]. rewrite (step_open src q st p Hst Hrd).
    rewrite (string_body src q st Hst ps [] (S p) rest fuel Hv Hs1).
    + apply some3; [reflexivity|reflexivity|cbn [length]; rewrite app_length; cbn [length]; lia].
    + cbn [length] in Hf. rewrite app_length in Hf. cbn [length] in Hf. lia.
  - exists SREGEXP, (enc_all body). split; [|reflexivity]. apply (regex_lex src body p rest fuel Hv Hs). lia.
  - destruct Hv as (Hne & Hall & He). destruct ws as [|c r]; [congruence|]. inversion Hall as [|? ? Hc Hr]; subst.
    exists SWHITESPACE, (enc_all (c :: r)). split; [|reflexivity].
    destruct (skipn_cons_rd src _ _ _ Hs) as [Hrd _].
    rewrite (first_then_run src SWHITESPACE (or_intror (or_intror eq_refl)) p c r rest fuel (start_space src p c Hrd Hc)).
    + reflexivity.
    + eapply Forall_impl; [|exact Hr]. intros x Hx. split; [exact Hx|apply space_facts in Hx; tauto].
    + exact Hs.
    + destruct rest; [exact I|exact He].
    + cbn [length] in Hf. lia.
  - destruct Hv as [Hnz Hsc]. eexists SBLOCKCOMMENTFINAL, _. split; [|reflexivity].
    apply (block_lex src body p rest fuel Hnz Hsc Hs). cbn [length] in Hf. rewrite app_length in Hf. cbn [length] in Hf. lia.
  - destruct (line_lex src body p rest fuel Hv Hs) as (st & Hst & Hl); [cbn [length] in Hf; lia|].
    exists st, (enc_all (45 :: 45 :: body)). split; [exact Hl|]. destruct Hst as [-> | ->]; reflexivity.
Qed.

Lemma tok_el_not_eof e next : valid_el e next -> ttyp (tok_el e) <> EOF.
Proof.
  destruct e as [k|w|ds|q ps|body|ws|body|body]; cbn [tok_el ttyp]; try discriminate.
  - destruct k; discriminate.
  - intros _ H. assert (Hf : finish SIDENTIFIER w = inl {| ttyp := word_type w; lexeme := w |}).
    { cbn [finish]. unfold word_type. destruct (alookup keywords (map lower_ascii w)); reflexivity. }
    pose proof (finish_eof _ _ _ Hf H). discriminate.
Qed.

(* C15, lexer: a source made of valid elements is lexed into exactly one token per element, then EOF *)
Theorem lex_stream_lemma src : forall els p acc fuel, valid_stream els -> skipn p src = render els -> (length els < fuel)%nat ->
  lex_tokens src fuel p acc = LexOk (acc ++ map tok_el els ++ [eof_token]).
Proof.
  induction els as [|e els IH]; intros p acc fuel Hv Hs Hf; (destruct fuel; [cbn in Hf; lia|]); cbn [lex_tokens].
  - cbn [render flat_map] in Hs. cbn [lex_loop]. unfold lex_step. rewrite (skipn_nil_rd src p Hs). cbn. reflexivity.
  - cbn [valid_stream] in Hv. destruct Hv as [Hve Hvs]. cbn [render flat_map] in Hs. fold (render els) in Hs.
    pose proof (spell_nonempty e _ Hve) as Hne.
    assert (Hlen : (p + length (spell_el e) <= length src)%nat).
    { destruct (skipn_len_le src p _ Hs) as [H|H]; [rewrite app_length in H; lia|].
      destruct (spell_el e); [congruence|discriminate]. }
    assert (Hpos : (0 < length (spell_el e))%nat) by (destruct (spell_el e); [congruence|cbn; lia]).
    destruct (el_lex src e p (render els) (S (S (length src))) Hve Hs) as (st & buf & Hl & Hfin); [lia|lia|].
    rewrite Hl, Hfin.
    pose proof (tok_el_not_eof e _ Hve) as Hneof.
    assert (Hnext : lex_tokens src fuel (p + length (spell_el e)) (acc ++ [tok_el e]) = LexOk (acc ++ map tok_el (e :: els) ++ [eof_token])).
    { rewrite (IH _ _ fuel Hvs (skipn_app_len src p _ _ Hs)) by (cbn in Hf; lia). cbn [map]. rewrite <- app_assoc. reflexivity. }
    destruct (ttyp (tok_el e)) eqn:Et; try exact Hnext. congruence.
Qed.

Lemma render_length els : valid_stream els -> (length els <= length (render els))%nat.
Proof.
  induction els as [|e els IH]; intros Hv; [cbn; lia|]. cbn [valid_stream] in Hv. destruct Hv as [He Hv].
  cbn [render flat_map length]. rewrite app_length. fold (render els). specialize (IH Hv).
  pose proof (spell_nonempty e _ He). destruct (spell_el e); [congruence|cbn [length]; lia].
Qed.

Theorem lex_layout_lemma els : valid_stream els -> lex (render els) = LexOk (map tok_el els ++ [eof_token]).
Proof.
  intros Hv. unfold lex. rewrite (lex_stream_lemma (render els) els 0 [] _ Hv eq_refl); [reflexivity|].
  pose proof (render_length els Hv). lia.
Qed.

(* separators are exactly the elements the parser drops *)
Lemma keyword_not_sep w : teq (word_type w) WS = false /\ teq (word_type w) COMMENT = false.
Proof.
  unfold word_type. destruct (alookup keywords (map lower_ascii w)) as [t|] eqn:E; [|split; reflexivity].
  revert E. unfold keywords. cbn [alookup].
  repeat match goal with |- (if ?c then _ else _) = _ -> _ => destruct c end; intros H; inversion H; subst; split; reflexivity.
Qed.

Lemma significant_el e : significant (tok_el e) = negb (is_sep e).
Proof.
  unfold significant. destruct e as [k|w|ds|q ps|body|ws|body|body]; cbn [tok_el ttyp is_sep]; try reflexivity.
  - destruct k; reflexivity.
  - destruct (keyword_not_sep w) as [A B]. rewrite A, B. reflexivity.
Qed.

Lemma filter_tokens els : filter significant (map tok_el els) = map tok_el (filter (fun e => negb (is_sep e)) els).
Proof.
  induction els as [|e els IH]; [reflexivity|]. cbn [map filter]. rewrite significant_el.
  destruct (negb (is_sep e)); cbn [map]; rewrite IH; reflexivity.
Qed.

(* C15: two layouts of the same tokens - any blank runs, line comments and block comments between
   them, or none where the tokens do not glue - are parsed to the same result *)
Theorem layout_invariance_lemma els1 els2 : valid_stream els1 -> valid_stream els2 ->
  filter (fun e => negb (is_sep e)) els1 = filter (fun e => negb (is_sep e)) els2 ->
  parse_source (render els1) = parse_source (render els2).
Proof.
  intros H1 H2 Heq. unfold parse_source. rewrite (lex_layout_lemma els1 H1), (lex_layout_lemma els2 H2).
  unfold parse. rewrite !filter_app, !filter_tokens, Heq. reflexivity.
Qed.

(* keyword case: the token type of a word depends only on its lower-cased letters *)
Theorem keyword_case_lemma w w' : map lower_ascii w = map lower_ascii w' -> word_type w = word_type w'.
Proof. intros H. unfold word_type. rewrite H. reflexivity. Qed.
