(* vm_refines_sem: for every resolved pattern r, every text and every starting state, if the
   specification gives the ordered outcome list l for r, then the VM running the code of r reaches
   exactly those outcomes, in that order, each with the loop/variable/call stacks restored, and
   after the last one backtracks into the untouched rest of the backtrack stack; no step on the
   way crashes. *)
From Model Require Import VM.
From Spec Require Import Sem FindSpec.
From Proofs Require Import RefineBase RefineExec RefineRange.
From Coq Require Import Lia.

(* loop ids at the same call level (bodies of subroutines run one level deeper) *)
Fixpoint ids0 (r : rx) : list nat :=
  match r with
  | XSeq a b | XAlt a b => ids0 a ++ ids0 b
  | XLoop id _ _ _ _ b => id :: ids0 b
  | XDec _ b => ids0 b
  | _ => []
  end.

Definition is_atom (i : instr) : Prop :=
  match i with IMatchLit _ _ _ | IMatchClass _ _ | IMatchRange _ _ _ => True | _ => False end.

(* well-formed resolved patterns: atoms are text-matching instructions, and a loop's id does not
   recur among the loops nested in its body at the same call level *)
Fixpoint loop_ok (r : rx) : Prop :=
  match r with
  | XAtom i => is_atom i
  | XIn items => items <> [] /\ Forall is_atom items
  | XNotIn items _ => Forall is_atom items
  | XSeq a b | XAlt a b => loop_ok a /\ loop_ok b
  | XLoop id _ _ _ _ b => ~ In id (ids0 b) /\ loop_ok b
  | XDec _ b | XSub _ b _ => loop_ok b
  | _ => True
  end.

Section Correct.
Variable prog : list instr.
Variable text : bytes.
Variables start ln0 cl0 : nat.
Variable defs : nat -> option (rx * pstmts).

Notation step := (VM.step prog text).
Notation steps := (steps prog text).
Notation code_at := (code_at prog).
Notation cursor_at := (cursor_at text start ln0 cl0).
Notation inr := (inr text start).
Notation ocore := (ocore text start ln0 cl0).
Notation Run := (RefineExec.Run prog text).
Notation outs := (outs text start defs).
Notation outs_list := (outs_list text start defs).
Notation iter := (iter text start defs).
Notation iters := (iters text start defs).

Definition fresh_at (r : rx) (L : list loopst) (d : nat) :=
  loop_ok r /\ forall i l, In i (ids0 r) -> In l L -> llevel l = d -> lid l <> i.
Definition lvl_ok (L : list loopst) (d : nat) := forall l, In l L -> llevel l <= d.
Definition unnamed (L : list loopst) := forall l, In l L -> lname l = [].
Definition top_ne (K : list (nat * nat)) (r : rx) (o : nat) :=
  forall o' x, In (o', x) (subs_of r o) -> match K with (i, _) :: _ => i <> o' | [] => True end.

(* every subroutine the specification may call has its code in place *)
Definition subs_ok :=
  forall t b pred, defs t = Some (b, pred) ->
    (exists n, code_at t (IStartSub t n (t + 1 + rx_len b) :: compile b (t + 1) ++ [IEndSub n pred])) /\ loop_ok b.
Hypothesis Hsubs : subs_ok.

Fixpoint lv (c : nat) : env :=
  match c with O => [([48%N], VMap [])] | S c' => aset (lv c') (itoa_nat (S c')) (VMap []) end.

Definition frame (id d c p : nat) : loopst :=
  {| lid := id; llevel := d; liter := c; lname := []; lstart := length (matched (cursor_at p)); lvars := lv c |}.

(* ---- side-condition algebra ---- *)
Lemma fresh_seq a b L d : fresh_at (XSeq a b) L d -> fresh_at a L d /\ fresh_at b L d.
Proof.
  unfold fresh_at; cbn [loop_ok ids0]; intros [[Ha Hb] Hd]. split; split; auto.
  - intros; eapply Hd; eauto; apply in_or_app; auto.
  - intros; eapply Hd; eauto; apply in_or_app; auto.
Qed.

Lemma fresh_alt a b L d : fresh_at (XAlt a b) L d -> fresh_at a L d /\ fresh_at b L d.
Proof. exact (fresh_seq a b L d). Qed.

Lemma fresh_dec n b L d : fresh_at (XDec n b) L d -> fresh_at b L d.
Proof. unfold fresh_at; cbn [loop_ok ids0]; auto. Qed.

Lemma fresh_loop_body id mn mx fw nm b L d c p :
  fresh_at (XLoop id mn mx fw nm b) L d ->
  fresh_at b (frame id d c p :: L) d /\ (forall l, In l L -> llevel l = d -> lid l <> id).
Proof.
  unfold fresh_at; cbn [loop_ok ids0]; intros [[Hn Hb] Hd]. split; [split|].
  - exact Hb.
  - intros i l Hi [Heq | Hin] Hl.
    + subst l. cbn [lid frame]. intro E. subst i. contradiction.
    + eapply Hd; eauto. right. exact Hi.
  - intros l Hl Hlv. eapply Hd; eauto. left. reflexivity.
Qed.

Lemma fresh_deeper r L d : loop_ok r -> lvl_ok L d -> fresh_at r L (S d).
Proof. intros Hn Hl. split; auto. intros i l _ Hin Hlv. apply Hl in Hin. lia. Qed.

Lemma lvl_ok_S L d : lvl_ok L d -> lvl_ok L (S d).
Proof. intros H l Hl. apply H in Hl. lia. Qed.

Lemma lvl_ok_cons L d id c p : lvl_ok L d -> lvl_ok (frame id d c p :: L) d.
Proof. intros H l [Heq | Hl]; subst; simpl; auto. Qed.

Lemma unnamed_cons L id d c p : unnamed L -> unnamed (frame id d c p :: L).
Proof. intros H l [Heq | Hl]; subst; simpl; auto. Qed.

Lemma subs_of_ge r : forall o o' x, In (o', x) (subs_of r o) -> o <= o'.
Proof.
  induction r; cbn [subs_of]; intros o o' x H; try contradiction.
  - apply in_app_or in H. destruct H as [H|H]; [apply IHr1 in H | apply IHr2 in H]; lia.
  - apply in_app_or in H. destruct H as [H|H]; [apply IHr1 in H | apply IHr2 in H]; lia.
  - apply IHr in H. lia.
  - apply IHr in H. lia.
  - destruct H as [H|H]; [inversion H; lia | apply IHr in H; lia].
Qed.

Lemma top_ne_seq K a b o : top_ne K (XSeq a b) o -> top_ne K a o /\ top_ne K b (o + rx_len a).
Proof. unfold top_ne; cbn [subs_of]; intros H; split; intros o' x Ho; eapply H; apply in_or_app; eauto. Qed.

Lemma top_ne_alt K a b o : top_ne K (XAlt a b) o -> top_ne K a (o + 1) /\ top_ne K b (o + 2 + rx_len a).
Proof. unfold top_ne; cbn [subs_of]; intros H; split; intros o' x Ho; eapply H; apply in_or_app; eauto. Qed.

Lemma top_ne_inner K r o ret : top_ne ((o, ret) :: K) r (o + 1).
Proof. intros o' x Ho. apply subs_of_ge in Ho. lia. Qed.

(* ---- loop entry ---- *)
Definition enters (id c : nat) (L : list loopst) (k : core) (p : nat) : Prop :=
  (c = 0 /\ loops k = L /\ (forall l, In l L -> llevel l = length (calls k) -> lid l <> id)) \/
  (exists c0 p0, c = S c0 /\ loops k = frame id (length (calls k)) c0 p0 :: L /\ inr p0 /\ p0 <> p).

Lemma enters_enter id c L k p : cur k = cursor_at p -> inr p -> enters id c L k p ->
  enter_loop id [] k = Some (frame id (length (calls k)) c p :: L).
Proof.
  intros Hcur Hp. unfold enters, enter_loop. intros [(Hc & HL & Hn) | (c0 & p0 & Hc & HL & Hp0 & Hne)]; subst.
  - assert (E : fresh_loop id [] k = frame id (length (calls k)) 0 p).
    { unfold fresh_loop, frame. rewrite Hcur. reflexivity. }
    destruct (loops k) as [|l rest] eqn:EL; [rewrite E; reflexivity|].
    destruct (Nat.eqb_spec (lid l) id) as [Eid|]; cbn [andb]; [|rewrite E; reflexivity].
    destruct (Nat.eqb_spec (llevel l) (length (calls k))) as [Elv|]; [|rewrite E; reflexivity].
    exfalso. eapply (Hn l); simpl; auto.
  - rewrite HL. unfold frame. cbn [lid llevel liter lname lstart lvars]. rewrite !Nat.eqb_refl. cbn [andb].
    rewrite Hcur.
    destruct (Nat.eqb_spec (length (matched (cursor_at p0))) (length (matched (cursor_at p)))) as [E|_].
    + exfalso. apply Hne. apply (matched_len_inj text start ln0 cl0); auto.
    + cbn [lv]. reflexivity.
Qed.

Lemma step_loop_enter c B id mn mx fw ex ls : nth_error prog (pc c) = Some (IStartLoop id mn mx fw ex []) ->
  enter_loop id [] c = Some ls ->
  step c B =
    let cnt := match ls with l :: _ => liter l | [] => 0 end in
    if Nat.ltb cnt mn then Running (set_loops c (S (pc c)) ls (cenv c)) B
    else if within mx cnt then
      match pop_loop ls (cenv c) with
      | None => Crashed CrBadInstr
      | Some (l, rest, e') =>
          if fw then Running (set_loops c (S ex) rest e') (set_loops c (S (pc c)) ls (cenv c) :: B)
          else Running (set_loops c (S (pc c)) (l :: rest) e') (set_loops c (S ex) rest e' :: B)
      end
    else bt B.
Proof. intros H1 H2. unfold VM.step. rewrite H1, H2. reflexivity. Qed.

Lemma step_loop_zero c B id mn mx fw ex : nth_error prog (pc c) = Some (IStartLoop id mn mx fw ex []) ->
  enter_loop id [] c = None -> step c B = bt B.
Proof. intros H1 H2. unfold VM.step. rewrite H1, H2. reflexivity. Qed.

Lemma insert_unnamed L e n v : unnamed L -> insert_variable L e n v = (L, aset e n v).
Proof.
  induction L as [|l L IH]; intros H; cbn [insert_variable]; [reflexivity|].
  rewrite (H l (or_introl eq_refl)). cbn [length Nat.eqb]. rewrite IH; [reflexivity|].
  intros l' Hl'. apply H. right. exact Hl'.
Qed.

(* ---- statements of the four mutually proved facts ---- *)
Definition P (r : rx) (s : st) (l : list st) : Prop :=
  forall o c B, code_at o (compile r o) -> pc c = o -> cur c = cursor_at (fst s) -> cenv c = snd s -> inr (fst s) ->
    fresh_at r (loops c) (length (calls c)) -> lvl_ok (loops c) (length (calls c)) -> unnamed (loops c) ->
    top_ne (calls c) r o ->
    Run (Running c B) (ocore (o + rx_len r) (loops c) (vars c) (calls c)) l B.

Definition Q (b : rx) (la lb : list st) : Prop :=
  forall s0 o L V K B, code_at o (compile b o) -> Forall (fun q => inr (fst q)) la ->
    fresh_at b L (length K) -> lvl_ok L (length K) -> unnamed L -> top_ne K b o ->
    Run s0 (ocore o L V K) la B -> Run s0 (ocore (o + rx_len b) L V K) lb B.

Definition PI (id mn : nat) (mx : Z) (fw : bool) (b : rx) (c : nat) (s : st) (l : list st) : Prop :=
  forall o k L B, code_at o (compile (XLoop id mn mx fw [] b) o) ->
    fresh_at (XLoop id mn mx fw [] b) L (length (calls k)) -> lvl_ok L (length (calls k)) -> unnamed L ->
    top_ne (calls k) (XLoop id mn mx fw [] b) o ->
    pc k = o -> cur k = cursor_at (fst s) -> cenv k = snd s -> inr (fst s) -> enters id c L k (fst s) ->
    Run (Running k B) (ocore (o + rx_len (XLoop id mn mx fw [] b)) L (vars k) (calls k)) l B.

Definition R (id mn : nat) (mx : Z) (fw : bool) (b : rx) (c : nat) (s : st) (la l : list st) : Prop :=
  forall s0 o L V K B, code_at o (compile (XLoop id mn mx fw [] b) o) ->
    fresh_at (XLoop id mn mx fw [] b) L (length K) -> lvl_ok L (length K) -> unnamed L ->
    top_ne K (XLoop id mn mx fw [] b) o -> inr (fst s) -> Forall (fun q => inr (fst q)) la ->
    Run s0 (ocore (o + 1 + rx_len b) (frame id (length K) c (fst s) :: L) V K) la B ->
    Run s0 (ocore (o + rx_len (XLoop id mn mx fw [] b)) L V K) l B.

Lemma loop_code id mn mx fw b o : code_at o (compile (XLoop id mn mx fw [] b) o) ->
  nth_error prog o = Some (IStartLoop id mn mx fw (o + rx_len b + 1) []) /\
  code_at (o + 1) (compile b (o + 1)) /\
  nth_error prog (o + 1 + rx_len b) = Some (IStopLoop id mn mx fw o []).
Proof.
  cbn [compile]. intros H. apply code_at_cons in H. destruct H as [H1 H2]. split; auto.
  apply code_at_app in H2. destruct H2 as [H2 H3]. rewrite compile_length in H3.
  replace (S o) with (o + 1) in * by lia.
  split; auto. apply code_at_cons in H3. tauto.
Qed.

Lemma inr_of_bnd (s : st) l : inr (fst s) -> Forall (bnd text (fst s)) l -> Forall (fun q => inr (fst q)) l.
Proof.
  intros [H1 H2] H. eapply Forall_impl; [|exact H]. intros q [Hq1 Hq2]. split; lia.
Qed.

Lemma outs_inr r (s : st) l : outs r s l -> inr (fst s) -> Forall (fun q => inr (fst q)) l.
Proof.
  intros H Hs. apply (inr_of_bnd s); auto. destruct Hs. eapply outs_range; eauto.
Qed.

(* ---- atoms ---- *)
Lemma atom_run c B i p : nth_error prog (pc c) = Some i -> is_atom i -> cur c = cursor_at p -> inr p ->
  steps (Running c B)
        (match atom_pos text i p with
         | Some p' => Running (set_cur c (S (pc c)) (cursor_at p')) B
         | None => bt B end).
Proof.
  intros Hi Ha Hcur Hp. apply step1; [eapply nth_lt; eauto|].
  assert (Hpos : pos (cur c) = p) by (rewrite Hcur; apply cursor_at_pos; exact Hp).
  rewrite (step_atom prog text c B i Hi).
  2:{ destruct i; try contradiction; [left|right; left|right; right]; eauto. }
  rewrite Hpos. destruct (atom_pos text i p) as [p'|] eqn:E; cbn [atom_result]; [|reflexivity].
  destruct Hp as [Hp1 Hp2]. apply atom_pos_range in E; [|exact Hp2].
  unfold advance. rewrite Hpos, Hcur. rewrite (cursor_at_advance text start ln0 cl0 p p') by lia. reflexivity.
Qed.

Lemma step_ref c B n : nth_error prog (pc c) = Some (IMatchVar n) ->
  step c B = match alookup (cenv c) n with
             | None => bt B
             | Some (VMap _) => bt B
             | Some (VStr []) => Running (set_pc c (S (pc c))) B
             | Some (VStr v) => atom_result text c B (match_lit text v false false (pos (cur c)))
             end.
Proof. intros H. unfold VM.step. rewrite H. reflexivity. Qed.

Lemma step_endvar c B n p0 vs : nth_error prog (pc c) = Some (IEndVar n) -> vars c = (n, p0) :: vs -> unnamed (loops c) ->
  step c B = Running {| pc := S (pc c); cur := cur c; loops := loops c; vars := vs; calls := calls c;
                        cenv := aset (cenv c) n (VStr (skipn p0 (matched (cur c)))) |} B.
Proof.
  intros H Hv Hu. unfold VM.step. rewrite H, Hv, bytes_eqb_refl. rewrite insert_unnamed by exact Hu. reflexivity.
Qed.

Lemma step_endsub_pred c B n pred i r K : nth_error prog (pc c) = Some (IEndSub n pred) -> calls c = (i, r) :: K ->
  step c B =
    let ret := {| pc := r; cur := cur c; loops := loops c; vars := vars c; calls := K; cenv := cenv c |} in
    match pred with
    | PNil => Running ret B
    | _ => match run_program proc_fuel pred (init_pstate (VM.pred_env c)) with
           | Ok v => if get_boolean v then Running ret B else bt B
           | Crash w => Crashed w
           | OutOfFuel => NoFuel
           end
    end.
Proof. intros H Hk. unfold VM.step. rewrite H, Hk. reflexivity. Qed.

(* the end of a subroutine body: kept outcomes return, dropped ones backtrack *)
Lemma endsub_keep e n pred L V i r K q B' :
  nth_error prog e = Some (IEndSub n pred) -> pred_holds text start pred q = Some true ->
  steps (Running (ocore e L V ((i, r) :: K) q) B') (Running (ocore r L V K q) B').
Proof.
  intros He Hp. apply step1; [simpl; eapply nth_lt; eauto|].
  rewrite (step_endsub_pred _ B' n pred i r K) by (simpl; auto).
  unfold pred_holds in Hp. cbn zeta. destruct pred as [|s0 ss]; [reflexivity|].
  unfold VM.pred_env, ocore. cbn [cur]. rewrite cursor_at_matched.
  unfold Sem.pred_env in Hp.
  destruct (run_program proc_fuel (PCons s0 ss) _) as [v| |]; try discriminate.
  inversion Hp as [Hv]. rewrite Hv. reflexivity.
Qed.

Lemma endsub_drop e n pred L V i r K q B' :
  nth_error prog e = Some (IEndSub n pred) -> pred_holds text start pred q = Some false ->
  steps (Running (ocore e L V ((i, r) :: K) q) B') (bt B').
Proof.
  intros He Hp. apply step1; [simpl; eapply nth_lt; eauto|].
  rewrite (step_endsub_pred _ B' n pred i r K) by (simpl; auto).
  unfold pred_holds in Hp. cbn zeta. destruct pred as [|s0 ss]; [discriminate|].
  unfold VM.pred_env, ocore. cbn [cur]. rewrite cursor_at_matched.
  unfold Sem.pred_env in Hp.
  destruct (run_program proc_fuel (PCons s0 ss) _) as [v| |]; try discriminate.
  inversion Hp as [Hv]. rewrite Hv. reflexivity.
Qed.

(* ---- in / not in ---- *)
Lemma in_run e L V K (s : st) : inr (fst s) -> forall items a c B,
  code_at a (flat_map (fun i : instr => [i; IJump e]) items) -> Forall is_atom items ->
  cur c = cursor_at (fst s) -> cenv c = snd s -> loops c = L -> vars c = V -> calls c = K ->
  Run (bt (map (set_pc c) (in_starts items a) ++ B)) (ocore e L V K) (flat_map (fun i => atom_outs text i s) items) B.
Proof.
  intros Hs. induction items as [|i items IH]; intros a c B Hc Ha Hcur Henv HL HV HK.
  - cbn [in_starts map app flat_map RefineExec.Run]. apply steps_refl.
  - cbn [in_starts map app flat_map bt]. inversion Ha as [|? ? Hi Hrest]; subst.
    cbn [flat_map app] in Hc. apply code_at_cons in Hc. destruct Hc as [Hci Hc].
    apply code_at_cons in Hc. destruct Hc as [Hcj Hc].
    replace (S (S a)) with (a + 2) in Hc by lia.
    pose proof (atom_run (set_pc c a) (map (set_pc c) (in_starts items (a + 2)) ++ B) i (fst s) Hci Hi Hcur Hs) as Hst.
    unfold atom_outs at 1. destruct (atom_pos text i (fst s)) as [p'|].
    + cbn [app RefineExec.Run]. exists (map (set_pc c) (in_starts items (a + 2))). split.
      * eapply steps_trans; [exact Hst|]. apply step1; [simpl; eapply nth_lt; eauto|].
        rewrite (step_jump prog text _ _ e) by (simpl; exact Hcj).
        unfold ocore, set_pc, set_cur. cbn. rewrite Henv. reflexivity.
      * apply IH; auto.
    + cbn [app]. eapply Run_steps; [exact Hst|]. apply IH; auto.
Qed.

Lemma notin_run mx p : inr p -> forall items a c B,
  code_at a (notin_code items a ++ [IEndNotIn mx]) -> Forall is_atom items -> cur c = cursor_at p ->
  steps (Running (set_pc c a) B)
        (if existsb (fun i => is_some (atom_pos text i p)) items then bt B
         else Running (set_pc c (a + 3 * length items)) B).
Proof.
  intros Hp. induction items as [|i items IH]; intros a c B Hc Ha Hcur.
  - cbn [existsb length]. replace (a + 3 * 0) with a by lia. apply steps_refl.
  - inversion Ha as [|? ? Hi Hrest]; subst.
    cbn [notin_code app] in Hc. apply code_at_cons in Hc. destruct Hc as [Hc1 Hc].
    apply code_at_cons in Hc. destruct Hc as [Hc2 Hc]. apply code_at_cons in Hc. destruct Hc as [Hc3 Hc].
    replace (S (S (S a))) with (a + 3) in Hc by lia.
    eapply steps_trans.
    { apply step1; [simpl; eapply nth_lt; eauto|]. apply (step_startnotin prog text _ _ (a + 3)). simpl. exact Hc1. }
    cbn [pc set_pc].
    pose proof (atom_run (set_pc (set_pc c a) (S a)) (set_pc (set_pc c a) (a + 3) :: B) i p Hc2 Hi Hcur Hp) as Hst.
    eapply steps_trans; [exact Hst|]. cbn [existsb].
    destruct (atom_pos text i p) as [p'|]; cbn [is_some orb].
    + apply step1; [simpl; eapply nth_lt; eauto|].
      rewrite (step_failnotin prog text) by (simpl; exact Hc3). destruct B; reflexivity.
    + cbn [bt]. replace (a + 3 * length (i :: items)) with ((a + 3) + 3 * length items) by (cbn [length]; lia).
      specialize (IH (a + 3) c B Hc Hrest Hcur). exact IH.
Qed.

Lemma ocore_eq oe L V K (s : st) c :
  pc c = oe -> cur c = cursor_at (fst s) -> loops c = L -> vars c = V -> calls c = K -> cenv c = snd s ->
  c = ocore oe L V K s.
Proof. destruct c; unfold ocore; cbn; intros; subst; reflexivity. Qed.

Theorem vm_refines_sem_mut :
  (forall r s l, outs r s l -> P r s l) /\
  (forall b la lb, outs_list b la lb -> Q b la lb) /\
  (forall id mn mx fw b c s l, iter id mn mx fw b c s l -> PI id mn mx fw b c s l) /\
  (forall id mn mx fw b c s la l, iters id mn mx fw b c s la l -> R id mn mx fw b c s la l).
Proof.
  apply outs_mut.
  - (* eps *)
    intros s o c B Hc Hpc Hcur Henv Hin _ _ _ _. cbn [RefineExec.Run rx_len]. exists []. cbn [app].
    split; [|apply steps_refl]. rewrite Nat.add_0_r.
    rewrite <- (ocore_eq o (loops c) (vars c) (calls c) s c); auto. apply steps_refl.
  - (* atom *)
    intros i s o c B Hc Hpc Hcur Henv Hin [Hok _] _ _ _. cbn [compile] in Hc. cbn [loop_ok] in Hok.
    apply code_at_cons in Hc. destruct Hc as [Hi _].
    assert (Hi' : nth_error prog (pc c) = Some i) by (rewrite Hpc; exact Hi).
    pose proof (atom_run c B i (fst s) Hi' Hok Hcur Hin) as Hst.
    unfold atom_outs. destruct (atom_pos text i (fst s)) as [p'|]; cbn [RefineExec.Run].
    + exists []. cbn [app]. split; [|apply steps_refl]. eapply steps_trans; [exact Hst|].
      rewrite <- (ocore_eq (o + rx_len (XAtom i)) (loops c) (vars c) (calls c) (p', snd s) (set_cur c (S (pc c)) (cursor_at p')));
        cbn; auto; try apply steps_refl. lia.
    + exact Hst.
  - (* ref *)
    intros n s o c B Hc Hpc Hcur Henv Hin _ _ _ _. cbn [compile] in Hc.
    apply code_at_cons in Hc. destruct Hc as [Hi _].
    assert (Hi' : nth_error prog (pc c) = Some (IMatchVar n)) by (rewrite Hpc; exact Hi).
    assert (Hpos : pos (cur c) = fst s) by (rewrite Hcur; apply cursor_at_pos; exact Hin).
    unfold ref_outs. rewrite <- Henv.
    assert (Hstep := step_ref c B n Hi').
    destruct (alookup (cenv c) n) as [[[|b0 v]|m]|] eqn:E.
    + cbn [RefineExec.Run]. exists []. cbn [app]. split; [|apply steps_refl].
      apply step1; [eapply nth_lt; eauto|]. rewrite Hstep.
      rewrite <- (ocore_eq (o + rx_len (XRef n)) (loops c) (vars c) (calls c) s (set_pc c (S (pc c)))); cbn; auto. lia.
    + assert (Hst : steps (Running c B)
               (match match_lit text (b0 :: v) false false (fst s) with
                | Some p' => Running (set_cur c (S (pc c)) (cursor_at p')) B | None => bt B end)).
      { apply step1; [eapply nth_lt; eauto|]. rewrite Hstep, Hpos.
        destruct (match_lit text (b0 :: v) false false (fst s)) as [p'|] eqn:EM; cbn [atom_result]; [|reflexivity].
        destruct Hin as [H1 H2]. apply match_lit_range in EM; [|exact H2].
        unfold advance. rewrite Hpos, Hcur. rewrite (cursor_at_advance text start ln0 cl0 (fst s) p') by lia. reflexivity. }
      destruct (match_lit text (b0 :: v) false false (fst s)) as [p'|]; cbn [RefineExec.Run].
      * exists []. cbn [app]. split; [|apply steps_refl]. eapply steps_trans; [exact Hst|].
        rewrite <- (ocore_eq (o + rx_len (XRef n)) (loops c) (vars c) (calls c) (p', cenv c) (set_cur c (S (pc c)) (cursor_at p')));
          cbn; auto; try apply steps_refl. lia.
      * exact Hst.
    + cbn [RefineExec.Run]. apply step1; [eapply nth_lt; eauto|]. rewrite Hstep. reflexivity.
    + cbn [RefineExec.Run]. apply step1; [eapply nth_lt; eauto|]. rewrite Hstep. reflexivity.
  - (* seq *)
    intros a b s la lb Ha IHa _ IHb o c B Hc Hpc Hcur Henv Hin Hf Hlv Hun Ht. cbn [compile] in Hc.
    apply code_at_app in Hc. destruct Hc as [Hca Hcb]. rewrite compile_length in Hcb.
    apply fresh_seq in Hf. destruct Hf as [Hfa Hfb].
    apply top_ne_seq in Ht. destruct Ht as [Hta Htb].
    cbn [rx_len]. rewrite Nat.add_assoc. apply IHb; auto.
    eapply outs_inr; eauto.
  - (* alt *)
    intros a b s la lb _ IHa _ IHb o c B Hc Hpc Hcur Henv Hin Hf Hlv Hun Ht.
    apply fresh_alt in Hf. destruct Hf as [Hfa Hfb].
    apply top_ne_alt in Ht. destruct Ht as [Hta Htb].
    cbn [compile] in Hc. apply code_at_cons in Hc. destruct Hc as [Hbr Hc].
    apply code_at_app in Hc. destruct Hc as [Hca Hc]. rewrite compile_length in Hc.
    apply code_at_cons in Hc. destruct Hc as [Hj1 Hc].
    apply code_at_app in Hc. destruct Hc as [Hcb Hc]. rewrite compile_length in Hc.
    apply code_at_cons in Hc. destruct Hc as [Hj2 _].
    set (e := o + rx_len a + rx_len b + 3) in *.
    assert (Hlen : o + rx_len (XAlt a b) = e) by (cbn [rx_len]; unfold e; lia).
    rewrite Hlen.
    assert (Hbr' : nth_error prog (pc c) = Some (IBranch [o + 1; o + rx_len a + 2])) by (rewrite Hpc; exact Hbr).
    eapply Run_steps.
    { apply step1; [eapply nth_lt; eauto|]. apply (step_branch prog text _ _ _ _ Hbr'). }
    cbn [map].
    apply Run_app with (S0 := [set_pc c (o + rx_len a + 2)]).
    + eapply Run_map_id with (mk1 := ocore (S o + rx_len a) (loops c) (vars c) (calls c)).
      { intros q B'. apply step1; [simpl; eapply nth_lt; eauto|].
        rewrite (step_jump prog text _ _ e) by (simpl; exact Hj1). reflexivity. }
      replace (S o) with (o + 1) in * by lia.
      specialize (IHa (o + 1) (set_pc c (o + 1)) ([set_pc c (o + rx_len a + 2)] ++ B)).
      cbn [set_pc pc cur loops vars calls cenv] in IHa. apply IHa; auto.
    + cbn [bt app]. eapply Run_map_id with (mk1 := ocore (S (S o + rx_len a) + rx_len b) (loops c) (vars c) (calls c)).
      { intros q B'. apply step1; [simpl; eapply nth_lt; eauto|].
        rewrite (step_jump prog text _ _ e) by (simpl; exact Hj2). reflexivity. }
      replace (S (S o + rx_len a)) with (o + 2 + rx_len a) in * by lia.
      specialize (IHb (o + 2 + rx_len a) (set_pc c (o + rx_len a + 2)) B).
      cbn [set_pc pc cur loops vars calls cenv] in IHb. apply IHb; auto. lia.
  - (* in *)
    intros items s o c B Hc Hpc Hcur Henv Hin [Hok _] _ _ _. cbn [loop_ok] in Hok. destruct Hok as [Hne Hat].
    cbn [compile] in Hc. apply code_at_cons in Hc. destruct Hc as [Hbr Hc].
    assert (Hlen : o + rx_len (XIn items) = o + 1 + 2 * length items) by (cbn [rx_len]; lia).
    rewrite Hlen.
    destruct items as [|i0 items0]; [contradiction|].
    assert (Hbr' : nth_error prog (pc c) = Some (IBranch (in_starts (i0 :: items0) (o + 1)))) by (rewrite Hpc; exact Hbr).
    cbn [in_starts] in Hbr'.
    eapply Run_steps.
    { apply step1; [eapply nth_lt; eauto|]. apply (step_branch prog text _ _ _ _ Hbr'). }
    replace (S o) with (o + 1) in Hc by lia.
    pose proof (in_run (o + 1 + 2 * length (i0 :: items0)) (loops c) (vars c) (calls c) s Hin
                  (i0 :: items0) (o + 1) c B Hc Hat Hcur Henv eq_refl eq_refl eq_refl) as HR.
    cbn [in_starts map app bt] in HR. exact HR.
  - (* not in *)
    intros items mx s Hmx o c B Hc Hpc Hcur Henv Hin [Hok _] _ _ _. cbn [loop_ok] in Hok.
    cbn [compile] in Hc.
    assert (Hlen : o + rx_len (XNotIn items mx) = S (o + 3 * length items)) by (cbn [rx_len]; lia).
    rewrite Hlen.
    pose proof (notin_run mx (fst s) Hin items o c B Hc Hok Hcur) as Hst.
    assert (Hc0 : set_pc c o = c) by (destruct c; cbn in *; subst; reflexivity).
    rewrite Hc0 in Hst.
    apply code_at_app in Hc. destruct Hc as [_ Hce]. rewrite notin_code_length in Hce.
    apply code_at_cons in Hce. destruct Hce as [Hend _].
    assert (Hpos : pos (cur c) = fst s) by (rewrite Hcur; apply cursor_at_pos; exact Hin).
    unfold notin_outs.
    destruct (existsb (fun i => is_some (atom_pos text i (fst s))) items).
    + cbn [RefineExec.Run]. exact Hst.
    + assert (Hst2 : steps (Running (set_pc c (o + 3 * length items)) B)
                (let n := consume_len text (fst s) (Z.to_nat mx) in
                 if Nat.eqb n 0 then bt B else Running (set_cur c (S (o + 3 * length items)) (cursor_at (fst s + n))) B)).
      { apply step1; [simpl; eapply nth_lt; eauto|].
        rewrite (step_endnotin prog text _ _ mx) by (simpl; auto). cbn [pc cur set_pc]. rewrite Hpos. cbn zeta.
        destruct (Nat.eqb (consume_len text (fst s) (Z.to_nat mx)) 0); [reflexivity|].
        unfold advance. cbn [pc cur set_pc]. rewrite Hpos, Hcur.
        destruct Hin as [H1 H2].
        rewrite (cursor_at_advance text start ln0 cl0 (fst s) (fst s + consume_len text (fst s) (Z.to_nat mx))) by lia.
        reflexivity. }
      cbn zeta in Hst2.
      destruct (Nat.eqb (consume_len text (fst s) (Z.to_nat mx)) 0); cbn [RefineExec.Run].
      * eapply steps_trans; [exact Hst|exact Hst2].
      * exists []. cbn [app]. split; [|apply steps_refl].
        eapply steps_trans; [exact Hst|]. eapply steps_trans; [exact Hst2|].
        rewrite <- (ocore_eq (S (o + 3 * length items)) (loops c) (vars c) (calls c)
                      (fst s + consume_len text (fst s) (Z.to_nat mx), snd s)
                      (set_cur c (S (o + 3 * length items)) (cursor_at (fst s + consume_len text (fst s) (Z.to_nat mx)))));
          cbn; auto. apply steps_refl.
  - (* loop *)
    intros id mn mx fw b s l _ IH o c B Hc Hpc Hcur Henv Hin Hf Hlv Hun Ht.
    apply IH; auto. left. split; auto. split; auto.
    destruct (fresh_loop_body _ _ _ _ _ _ _ _ 0 0 Hf) as [_ Hn]. exact Hn.
  - (* dec *)
    intros n b s la Hb IHb o c B Hc Hpc Hcur Henv Hin Hf Hlv Hun Ht.
    cbn [compile] in Hc. apply code_at_cons in Hc. destruct Hc as [Hsv Hc].
    apply code_at_app in Hc. destruct Hc as [Hcb Hc]. rewrite compile_length in Hc.
    apply code_at_cons in Hc. destruct Hc as [Hev _].
    apply fresh_dec in Hf.
    replace (S o) with (o + 1) in * by lia.
    assert (Htb : top_ne (calls c) b (o + 1)). { intros o' x Ho. eapply Ht. cbn [subs_of]. exact Ho. }
    assert (Hlen : o + rx_len (XDec n b) = S (o + 1 + rx_len b)) by (cbn [rx_len]; lia).
    rewrite Hlen.
    assert (Hsv' : nth_error prog (pc c) = Some (IStartVar n)) by (rewrite Hpc; exact Hsv).
    eapply Run_steps.
    { apply step1; [eapply nth_lt; eauto|]. apply (step_startvar prog text _ _ _ Hsv'). }
    set (V' := (n, length (matched (cur c))) :: vars c).
    pose proof (outs_inr _ _ _ Hb Hin) as Hla.
    eapply Run_map_in with (mk1 := ocore (o + 1 + rx_len b) (loops c) V' (calls c)).
    { intros q B' Hq. apply step1; [simpl; eapply nth_lt; eauto|].
      rewrite (step_endvar _ B' n (length (matched (cur c))) (vars c)) by (simpl; auto).
      unfold ocore, bind. cbn [pc cur loops vars calls cenv fst snd]. f_equal. f_equal. f_equal. f_equal.
      rewrite Hcur, !cursor_at_matched.
      eapply Forall_forall in Hla; [|exact Hq]. destruct Hin as [H1 H2]. destruct Hla as [H3 H4].
      assert (Hbq := outs_range text start defs _ _ _ (fst s) Hb (Nat.le_refl _) H2).
      eapply Forall_forall in Hbq; [|exact Hq]. destruct Hbq as [H5 _].
      apply skipn_sub_sub; lia. }
    specialize (IHb (o + 1) {| pc := S (pc c); cur := cur c; loops := loops c; vars := V'; calls := calls c; cenv := cenv c |} B).
    cbn [pc cur loops vars calls cenv] in IHb. apply IHb; auto. lia.
  - (* sub *)
    intros n b pred s l l' _ IHb Hfp o c B Hc Hpc Hcur Henv Hin Hf Hlv Hun Ht.
    cbn [compile] in Hc. apply code_at_cons in Hc. destruct Hc as [Hss Hc].
    apply code_at_app in Hc. destruct Hc as [Hcb Hc]. rewrite compile_length in Hc.
    apply code_at_cons in Hc. destruct Hc as [Hes _].
    replace (S o) with (o + 1) in * by lia.
    assert (Hlen : o + rx_len (XSub n b pred) = S (o + 1 + rx_len b)) by (cbn [rx_len]; lia).
    rewrite Hlen.
    assert (Hss' : nth_error prog (pc c) = Some (IStartSub o n (o + 1 + rx_len b))) by (rewrite Hpc; exact Hss).
    assert (Htop : match calls c with (i, _) :: _ => i <> o | [] => True end).
    { eapply Ht. cbn [subs_of]. left. reflexivity. }
    eapply Run_steps.
    { apply step1; [eapply nth_lt; eauto|]. apply (step_startsub_push prog text _ _ _ _ _ Hss' Htop). }
    set (K' := (o, S (o + 1 + rx_len b)) :: calls c).
    eapply Run_filter with (mk1 := ocore (o + 1 + rx_len b) (loops c) (vars c) K'); [exact Hfp| | |].
    { intros q B' Hq. unfold K'. eapply endsub_keep; eauto. }
    { intros q B' Hq. unfold K'. eapply endsub_drop; eauto. }
    specialize (IHb (o + 1) {| pc := S (pc c); cur := cur c; loops := loops c; vars := vars c; calls := K'; cenv := cenv c |} B).
    cbn [pc cur loops vars calls cenv] in IHb. apply IHb; auto.
    + lia.
    + apply fresh_deeper; auto. destruct Hf as [Hn _]. exact Hn.
    + apply lvl_ok_S. exact Hlv.
    + apply top_ne_inner.
  - (* call *)
    intros n t b pred s l l' Hd _ IHb Hfp o c B Hc Hpc Hcur Henv Hin Hf Hlv Hun Ht.
    cbn [compile] in Hc. apply code_at_cons in Hc. destruct Hc as [Hcl _].
    destruct (Hsubs t b pred Hd) as [(n' & Hcode) Hok].
    apply code_at_cons in Hcode. destruct Hcode as [Hss Hcode].
    apply code_at_app in Hcode. destruct Hcode as [Hcb Hcode]. rewrite compile_length in Hcode.
    apply code_at_cons in Hcode. destruct Hcode as [Hes _].
    assert (Hlen : o + rx_len (XCall n t) = S o) by (cbn [rx_len]; lia).
    rewrite Hlen.
    assert (Hcl' : nth_error prog (pc c) = Some (ICall n t)) by (rewrite Hpc; exact Hcl).
    set (K' := (t, S o) :: calls c).
    eapply Run_steps.
    { apply step1; [eapply nth_lt; eauto|]. rewrite (step_call prog text _ _ _ _ Hcl'). rewrite Hpc. reflexivity. }
    eapply Run_steps.
    { apply step1; [simpl; eapply nth_lt; eauto|].
      eapply step_startsub_called; simpl; [exact Hss | reflexivity]. }
    replace (S t) with (t + 1) in * by lia.
    eapply Run_filter with (mk1 := ocore (t + 1 + rx_len b) (loops c) (vars c) K'); [exact Hfp| | |].
    { intros q B' Hq. unfold K'. eapply endsub_keep; eauto. }
    { intros q B' Hq. unfold K'. eapply endsub_drop; eauto. }
    specialize (IHb (t + 1) {| pc := t + 1; cur := cur c; loops := loops c; vars := vars c; calls := K'; cenv := cenv c |} B).
    cbn [pc cur loops vars calls cenv] in IHb.
    unfold set_pc. cbn [pc cur loops vars calls cenv]. replace (S t) with (t + 1) by lia.
    apply IHb; auto.
    + apply fresh_deeper; auto.
    + apply lvl_ok_S. exact Hlv.
    + apply top_ne_inner.
  - (* outs_list nil *)
    intros b s0 o L V K B _ _ _ _ _ _ H. exact H.
  - (* outs_list cons *)
    intros b s ss l1 l2 _ IH1 _ IH2 s0 o L V K B Hc Hall Hf Hlv Hun Ht H.
    inversion Hall as [|? ? Hs Hss]; subst.
    cbn [RefineExec.Run] in H. destruct H as (S' & Hst & Hr).
    eapply Run_steps; [exact Hst|].
    apply Run_app with (S0 := S').
    + specialize (IH1 o (ocore o L V K s) (S' ++ B)). cbn [ocore pc cur loops vars calls cenv] in IH1. apply IH1; auto.
    + apply IH2; auto.
  - (* iter: below min *)
    intros id mn mx fw b c s la l Hlt Hb IHb _ IHs o k L B Hc Hf Hlv Hun Ht Hpc Hcur Henv Hin Hen.
    pose proof (loop_code _ _ _ _ _ _ Hc) as (Hst & Hcb & Hsp).
    pose proof (fresh_loop_body _ _ _ _ _ _ _ _ c (fst s) Hf) as (Hfb & Hnid).
    apply (enters_enter _ _ _ _ _ Hcur Hin) in Hen.
    assert (Hst' : nth_error prog (pc k) = Some (IStartLoop id mn mx fw (o + rx_len b + 1) [])) by (rewrite Hpc; exact Hst).
    eapply Run_steps.
    { apply step1; [eapply nth_lt; eauto|].
      rewrite (step_loop_enter _ _ _ _ _ _ _ _ Hst' Hen). cbn [liter frame].
      destruct (Nat.ltb_spec c mn); [reflexivity|lia]. }
    eapply IHs; eauto.
    { eapply outs_inr; eauto. }
    specialize (IHb (o + 1) (set_loops k (S (pc k)) (frame id (length (calls k)) c (fst s) :: L) (cenv k)) B).
    cbn [set_loops pc cur loops vars calls cenv] in IHb. apply IHb; auto; try lia.
    all: try (apply lvl_ok_cons; solve [auto]).
    all: try (apply unnamed_cons; solve [auto]).
    all: try (intros o' x Ho; eapply Ht; cbn [subs_of]; exact Ho).
  - (* iter: greedy *)
    intros id mn mx b c s la l Hge Hw Hb IHb _ IHs o k L B Hc Hf Hlv Hun Ht Hpc Hcur Henv Hin Hen.
    pose proof (loop_code _ _ _ _ _ _ Hc) as (Hst & Hcb & Hsp).
    pose proof (fresh_loop_body _ _ _ _ _ _ _ _ c (fst s) Hf) as (Hfb & Hnid).
    apply (enters_enter _ _ _ _ _ Hcur Hin) in Hen.
    assert (Hst' : nth_error prog (pc k) = Some (IStartLoop id mn mx false (o + rx_len b + 1) [])) by (rewrite Hpc; exact Hst).
    set (cp := set_loops k (S (o + rx_len b + 1)) L (cenv k)).
    eapply Run_steps.
    { apply step1; [eapply nth_lt; eauto|].
      rewrite (step_loop_enter _ _ _ _ _ _ _ _ Hst' Hen). cbn [liter frame].
      destruct (Nat.ltb_spec c mn); [lia|]. rewrite Hw. cbn [pop_loop lname length Nat.eqb]. reflexivity. }
    apply Run_app with (S0 := [cp]).
    + eapply IHs; eauto.
      { eapply outs_inr; eauto. }
      specialize (IHb (o + 1) (set_loops k (S (pc k)) (frame id (length (calls k)) c (fst s) :: L) (cenv k)) ([cp] ++ B)).
      cbn [set_loops pc cur loops vars calls cenv] in IHb. apply IHb; auto; try lia.
      all: try (apply lvl_ok_cons; solve [auto]).
      all: try (apply unnamed_cons; solve [auto]).
      all: try (intros o' x Ho; eapply Ht; cbn [subs_of]; exact Ho).
    + cbn [bt app RefineExec.Run]. exists []. cbn [app]. split; [|apply steps_refl].
      rewrite <- (ocore_eq (o + rx_len (XLoop id mn mx false [] b)) L (vars k) (calls k) s cp); unfold cp; cbn; auto.
      * apply steps_refl.
      * lia.
  - (* iter: lazy *)
    intros id mn mx b c s la l Hge Hw Hb IHb _ IHs o k L B Hc Hf Hlv Hun Ht Hpc Hcur Henv Hin Hen.
    pose proof (loop_code _ _ _ _ _ _ Hc) as (Hst & Hcb & Hsp).
    pose proof (fresh_loop_body _ _ _ _ _ _ _ _ c (fst s) Hf) as (Hfb & Hnid).
    apply (enters_enter _ _ _ _ _ Hcur Hin) in Hen.
    assert (Hst' : nth_error prog (pc k) = Some (IStartLoop id mn mx true (o + rx_len b + 1) [])) by (rewrite Hpc; exact Hst).
    set (cpb := set_loops k (S (pc k)) (frame id (length (calls k)) c (fst s) :: L) (cenv k)).
    cbn [RefineExec.Run]. exists [cpb]. split.
    { apply step1; [eapply nth_lt; eauto|].
      rewrite (step_loop_enter _ _ _ _ _ _ _ _ Hst' Hen). cbn [liter frame].
      destruct (Nat.ltb_spec c mn); [lia|]. rewrite Hw. cbn [pop_loop lname length Nat.eqb app].
      rewrite <- (ocore_eq (o + rx_len (XLoop id mn mx true [] b)) L (vars k) (calls k) s
                    (set_loops k (S (o + rx_len b + 1)) L (cenv k))); cbn; auto. lia. }
    cbn [bt app].
    eapply IHs; eauto.
    { eapply outs_inr; eauto. }
    specialize (IHb (o + 1) cpb B). unfold cpb in *.
    cbn [set_loops pc cur loops vars calls cenv] in IHb. apply IHb; auto; try lia.
    all: try (apply lvl_ok_cons; solve [auto]).
    all: try (apply unnamed_cons; solve [auto]).
    all: try (intros o' x Ho; eapply Ht; cbn [subs_of]; exact Ho).
  - (* iter: over max *)
    intros id mn mx fw b c s Hge Hw o k L B Hc Hf Hlv Hun Ht Hpc Hcur Henv Hin Hen.
    pose proof (loop_code _ _ _ _ _ _ Hc) as (Hst & Hcb & Hsp).
    apply (enters_enter _ _ _ _ _ Hcur Hin) in Hen.
    assert (Hst' : nth_error prog (pc k) = Some (IStartLoop id mn mx fw (o + rx_len b + 1) [])) by (rewrite Hpc; exact Hst).
    cbn [RefineExec.Run]. apply step1; [eapply nth_lt; eauto|].
    rewrite (step_loop_enter _ _ _ _ _ _ _ _ Hst' Hen). cbn [liter frame].
    destruct (Nat.ltb_spec c mn); [lia|]. rewrite Hw. reflexivity.
  - (* iters nil *)
    intros id mn mx fw b c s s0 o L V K B _ _ _ _ _ _ _ H. exact H.
  - (* iters: zero-width iteration rejected *)
    intros id mn mx fw b c s q qs l Hz _ IH s0 o L V K B Hc Hf Hlv Hun Ht Hin Hall H.
    inversion Hall as [|? ? Hq Hqs]; subst.
    cbn [RefineExec.Run] in H. destruct H as (S' & Hs & Hr).
    pose proof (loop_code _ _ _ _ _ _ Hc) as (Hst & Hcb & Hsp).
    eapply Run_steps; [|eapply IH; eauto].
    eapply steps_trans; [exact Hs|].
    eapply steps_step. { simpl. eapply nth_lt; eauto. }
    rewrite (step_stop prog text _ _ id mn mx fw o []) by (simpl; exact Hsp).
    apply step1. { simpl. eapply nth_lt; eauto. }
    eapply step_loop_zero. { simpl. exact Hst. }
    unfold enter_loop. cbn [set_pc ocore loops calls cur frame lid llevel lstart].
    rewrite !Nat.eqb_refl. cbn [andb]. rewrite Hz, Nat.eqb_refl. reflexivity.
  - (* iters: productive iteration *)
    intros id mn mx fw b c s q qs l1 l2 Hne _ IH1 _ IH2 s0 o L V K B Hc Hf Hlv Hun Ht Hin Hall H.
    inversion Hall as [|? ? Hq Hqs]; subst.
    cbn [RefineExec.Run] in H. destruct H as (S' & Hs & Hr).
    pose proof (loop_code _ _ _ _ _ _ Hc) as (Hst & Hcb & Hsp).
    apply Run_app with (S0 := S'); [|eapply IH2; eauto].
    eapply Run_steps; [exact Hs|].
    eapply Run_steps.
    { apply step1. { simpl. eapply nth_lt; eauto. } apply (step_stop prog text _ _ id mn mx fw o []). simpl. exact Hsp. }
    specialize (IH1 o (set_pc (ocore (o + 1 + rx_len b) (frame id (length K) c (fst s) :: L) V K q) o) L (S' ++ B)).
    cbn [set_pc ocore pc cur loops vars calls cenv] in IH1. apply IH1; auto.
    right. exists c, (fst s). cbn [loops calls]. repeat split; auto; destruct Hin; auto.
Qed.

End Correct.
