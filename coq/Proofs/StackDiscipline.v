(* C02, mechanism, for ARBITRARY bytecode (named loops included): the backtrack stack is only ever
   extended at the top or popped; saved cores are never modified.  So when a path is abandoned the VM
   resumes a core exactly as it was saved - bindings made after the choice point (into the environment
   or into a named loop's iteration map) are not there. *)
From Model Require Import Engine.

Definition stack_step (B : list core) (s : state) : Prop :=
  match s with
  | Running c' B' => (exists new, B' = new ++ B) \/ (exists pre, B = pre ++ c' :: B')
  | _ => True
  end.

Lemma bt_stack B : stack_step B (bt B).
Proof. destruct B as [|c0 B0]; cbn; [exact I|]. right. exists []. reflexivity. Qed.

Lemma keep_stack c' B : stack_step B (Running c' B).
Proof. left. exists []. reflexivity. Qed.

Theorem step_stack_discipline prog text c B : stack_step B (step prog text c B).
Proof.
  unfold step. destruct (nth_error prog (pc c)) as [i|]; [|exact I].
  destruct i.
  - unfold atom_result. destruct (match_lit _ _ _ _ _); [apply keep_stack|apply bt_stack].
  - unfold atom_result. destruct (match_class _ _ _ _); [apply keep_stack|apply bt_stack].
  - destruct (alookup (cenv c) n) as [[[|b v]|m]|]; try apply bt_stack; [apply keep_stack|].
    unfold atom_result. destruct (match_lit _ _ _ _ _); [apply keep_stack|apply bt_stack].
  - unfold atom_result. destruct (match_range _ _ _ _ _); [apply keep_stack|apply bt_stack].
  - apply keep_stack.
  - destruct bs as [|b0 rest]; [exact I|]. left. eexists. reflexivity.
  - left. exists [set_pc c next]. reflexivity.
  - destruct B as [|x [|c2 B']]; try exact I. right. exists [x]. reflexivity.
  - destruct maxsize as [|p|p]; try exact I; (destruct (Nat.eqb _ 0); [apply bt_stack|apply keep_stack]).
  - destruct (enter_loop id nm c) as [ls|]; [|apply bt_stack].
    destruct (Nat.ltb _ mn); [apply keep_stack|].
    destruct (within mx _); [|apply bt_stack].
    destruct (pop_loop ls (cenv c)) as [[[l rest] e']|]; [|exact I].
    destruct fewest; left; eexists [_]; reflexivity.
  - apply keep_stack.
  - apply keep_stack.
  - destruct (vars c) as [|[m st] vs]; [exact I|]. destruct (bytes_eqb m n); [|exact I].
    destruct (insert_variable (loops c) (cenv c) n _) as [ls' e']. apply keep_stack.
  - destruct (calls c) as [|[i0 r0] K]; [apply keep_stack|]. destruct (Nat.eqb i0 id); apply keep_stack.
  - destruct (calls c) as [|[i0 r0] K]; [exact I|]. destruct validate as [|s0 ss]; [apply keep_stack|].
    destruct (run_program _ _ _) as [v| |]; try exact I. destruct (get_boolean v); [apply keep_stack|apply bt_stack].
  - apply keep_stack.
Qed.

(* a capture is written into the running core only *)
Theorem endvar_touches_running_core_only prog text c B n :
  nth_error prog (pc c) = Some (IEndVar n) ->
  match step prog text c B with Running _ B' => B' = B | _ => True end.
Proof.
  intros E. unfold step. rewrite E. destruct (vars c) as [|[m st] vs]; [exact I|]. destruct (bytes_eqb m n); [|exact I].
  destruct (insert_variable (loops c) (cenv c) n _) as [ls' e']. reflexivity.
Qed.
