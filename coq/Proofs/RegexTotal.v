(* C08 (regex literal part): the regex sub-parser never reads past the end of the pattern (the Go
   panic, PCrash in the model) and never needs more than the fuel it is given, for every byte string. *)
From Model Require Import Parser.
From Coq Require Import Lia.

(* a result that is neither the panic nor the fuel exhaustion, and satisfies P when it is a value *)
Definition safe {A} (r : pr A) (P : A -> Prop) : Prop :=
  match r with POk a => P a | PErr => True | PCrash => False | PFuel => False end.

Lemma safe_bind {A B} (m : pr A) (f : A -> pr B) (P : A -> Prop) (Q : B -> Prop) :
  safe m P -> (forall a, P a -> safe (f a) Q) -> safe (pbind m f) Q.
Proof. destruct m; cbn; auto; contradiction. Qed.

Lemma safe_weaken {A} (r : pr A) (P Q : A -> Prop) : safe r P -> (forall a, P a -> Q a) -> safe r Q.
Proof. destruct r; cbn; auto. Qed.

Lemma safe_ok {A} (a : A) (P : A -> Prop) : P a -> safe (POk a) P.
Proof. exact (fun H => H). Qed.

Lemma safe_err {A} (P : A -> Prop) : safe (@PErr A) P.
Proof. exact I. Qed.

Section Regex.
Variable re : bytes.
Notation rlen := (rlen re).
Notation rc := (rc re).

Lemma rc_some i c : rc i = Some c -> i < rlen.
Proof. unfold Parser.rc, Parser.rlen. intros H. apply nth_error_Some. congruence. Qed.

Lemma rc_is_lt i b : rc_is re i b = true -> i < rlen.
Proof. unfold rc_is. destruct (rc i) eqn:E; [intros _; eapply rc_some; eauto|discriminate]. Qed.

Lemma rnum_digits_ge : forall fuel i acc ds j, rnum_digits re fuel i acc = (ds, j) -> i <= j.
Proof.
  induction fuel as [|f IH]; intros i acc ds j H; cbn [rnum_digits] in H; [inversion H; lia|].
  destruct (rc i) as [c|]; [|inversion H; lia].
  destruct (is_digit_r c && N.ltb c 128)%bool; [apply IH in H; lia|inversion H; lia].
Qed.

Lemma rnumber_safe i : safe (rnumber re i) (fun '(_, j) => i <= j).
Proof.
  unfold rnumber. destruct (rnum_digits re (S rlen) i []) as [ds j] eqn:E.
  apply rnum_digits_ge in E. destruct ds; [exact I|]. destruct (atoi_int _); cbn; auto.
Qed.

Lemma rquant_safe i : safe (rquant re i) (fun '(_, j) => i <= j).
Proof.
  unfold rquant. destruct (rc i) as [op|] eqn:Eo; [|cbn; lia].
  assert (Hfin : forall (mn : nat) (mx : Z) e, i <= e -> safe (POk (Some (mn, mx, rc_is re e 63), if rc_is re e 63 then S e else e)) (fun '(_, j) => i <= j)).
  { intros mn mx e He. cbn. destruct (rc_is re e 63); lia. }
  destruct (N.eqb op 42); [apply Hfin; lia|].
  destruct (N.eqb op 43); [apply Hfin; lia|].
  destruct (N.eqb op 63); [apply Hfin; lia|].
  destruct (N.eqb op 123); [|cbn; lia].
  eapply safe_bind; [apply rnumber_safe|]. intros [from idx] Hi.
  destruct (rc idx) as [cb|]; [|exact I].
  destruct (N.eqb cb 44).
  - destruct (rc (S idx)) as [c2|]; [|exact I].
    destruct (N.eqb c2 125); [apply Hfin; lia|].
    eapply safe_bind; [apply rnumber_safe|]. intros [to idx2] Hi2.
    destruct (rc idx2) as [br|]; [|exact I]. destruct (N.eqb br 125); [apply Hfin; lia|exact I].
  - destruct (N.eqb cb 125); [apply Hfin; lia|exact I].
Qed.

Lemma with_quant_safe body j g i : i <= j -> safe (with_quant re body j g) (fun '(_, k, _) => i <= k).
Proof.
  intros H. unfold with_quant. eapply safe_bind; [apply rquant_safe|]. intros [q k] Hk. cbn. lia.
Qed.

Lemma rident_ge : forall fuel i acc id j, rident re fuel i acc = (id, j) -> i <= j.
Proof.
  induction fuel as [|f IH]; intros i acc id j H; cbn [rident] in H; [inversion H; lia|].
  destruct (rc i) as [c|]; [|inversion H; lia].
  destruct (is_digit_r c || is_letter_latin1 c)%bool; [apply IH in H; lia|inversion H; lia].
Qed.

Lemma resc_safe i : safe (resc re i) (fun '(_, j) => i < j).
Proof.
  unfold resc. destruct (rc i) as [c|]; [|exact I].
  repeat match goal with
         | |- safe (if ?c then _ else _) _ => destruct c
         | |- safe (match rc ?x with _ => _ end) _ => destruct (rc x)
         | |- safe (POk _) _ => cbn; lia
         | |- safe PErr _ => exact I
         end.
  destruct (rident re (S rlen) (S (S i)) []) as [id j] eqn:E. apply rident_ge in E.
  destruct (rc_is re j 62); cbn; [lia|exact I].
Qed.

Lemma rclass_atom_safe i : safe (rclass_atom re i) (fun '(o, j) => match o with Some _ => j = S i | None => j = i /\ rc_is re i 93 = true end).
Proof.
  unfold rclass_atom, rc_is. destruct (rc i) as [c|]; [|exact I].
  destruct (N.eqb c 93) eqn:E; cbn; auto.
Qed.

Lemma rclass_range_safe i c : rc i = Some c -> N.eqb c 93 = false -> safe (rclass_range re i) (fun '(_, j) => i < j).
Proof.
  intros Hc Hn. unfold rclass_range. rewrite Hc.
  destruct (N.eqb c 92); [exact I|].
  eapply safe_bind; [apply rclass_atom_safe|]. intros [st j] Hs.
  destruct st as [s|].
  - subst j. destruct (rc (S i)) as [d|]; [|cbn; lia].
    destruct (N.eqb d 45); [|cbn; lia].
    eapply safe_bind; [apply rclass_atom_safe|]. intros [to k] Ht.
    destruct to; [subst k; cbn; lia|cbn; lia].
  - destruct Hs as [_ Hs]. unfold rc_is in Hs. rewrite Hc in Hs. congruence.
Qed.

Lemma rclass_items_safe : forall fuel i, rlen - i < fuel -> safe (rclass_items re fuel i) (fun '(_, j) => i <= j).
Proof.
  induction fuel as [|f IH]; intros i Hf; [lia|]. cbn [rclass_items].
  destruct (rc i) as [c|] eqn:Ec; [|cbn; lia].
  destruct (N.eqb c 93) eqn:E93; [cbn; lia|].
  pose proof (rc_some _ _ Ec) as Hlt.
  eapply safe_bind; [eapply rclass_range_safe; eauto|]. intros [l j] Hj.
  eapply safe_bind; [apply IH; lia|]. intros [ls k] Hk. cbn. lia.
Qed.

Lemma rclass_safe i : safe (rclass re i) (fun '(_, j) => i < j).
Proof.
  unfold rclass. destruct (rc i) as [c0|]; [|exact I].
  destruct (rlen <=? _); [exact I|].
  eapply safe_bind; [apply rclass_items_safe; lia|]. intros [items j] Hj.
  destruct (rlen <=? j); [exact I|]. cbn. destruct (N.eqb c0 94); lia.
Qed.

Definition idx3 {A} (r : A * nat * nat) : nat := snd (fst r).

Lemma regex_mutual : forall fuel,
  (forall i g, 4 * (rlen - i) + 4 <= fuel -> safe (rdisj re fuel i g) (fun r => i <= idx3 r)) /\
  (forall i g, 4 * (rlen - i) + 3 <= fuel -> safe (rpattern re fuel i g) (fun r => i < idx3 r)) /\
  (forall i g, 4 * (rlen - i) + 2 <= fuel -> safe (rliteral re fuel i g) (fun r => i < idx3 r)) /\
  (forall i g, i <= rlen -> 4 * (rlen - i) + 5 <= fuel -> safe (rgroup re fuel i g) (fun r => i < idx3 r)).
Proof.
  induction fuel as [|f (ID & IP & IL & IG)].
  { repeat split; intros; lia. }
  repeat split.
  - intros i g Hf. cbn [rdisj].
    destruct (rc i) as [c|] eqn:Ec; [|cbn; lia].
    pose proof (rc_some _ _ Ec) as Hlt.
    destruct (N.eqb c 41); [cbn; lia|].
    eapply safe_bind; [apply IP; lia|]. intros [[e j] g1] Hj. unfold idx3 in Hj; cbn in Hj.
    eapply safe_bind; [apply ID; lia|]. intros [[es k] g2] Hk. unfold idx3 in *; cbn in *. lia.
  - intros i g Hf. cbn [rpattern].
    eapply safe_bind; [apply IL; lia|]. intros [[st j] g1] Hj. unfold idx3 in Hj; cbn in Hj.
    destruct (rc_is re j 124) eqn:E; [|unfold idx3; cbn; lia].
    apply rc_is_lt in E.
    eapply safe_bind; [apply IP; lia|]. intros [[e k] g2] Hk. unfold idx3 in *; cbn in *. lia.
  - intros i g Hf. cbn [rliteral].
    destruct (rc i) as [c|] eqn:Ec; [|exact I].
    pose proof (rc_some _ _ Ec) as Hlt.
    assert (HW : forall body j g', i < j -> safe (with_quant re body j g') (fun r => i < idx3 r)).
    { intros body j g' Hj. eapply safe_weaken; [apply (with_quant_safe body j g' j); lia|]. intros [[e k] g2]. unfold idx3; cbn. lia. }
    destruct (N.eqb c 94); [unfold idx3; cbn; lia|].
    destruct (N.eqb c 36); [unfold idx3; cbn; lia|].
    destruct (N.eqb c 92).
    { eapply safe_bind; [apply resc_safe|]. intros [l j] Hj. apply HW. lia. }
    destruct (N.eqb c 40).
    { eapply safe_bind; [apply IG; lia|]. intros [[l j] g1] Hj. unfold idx3 in Hj; cbn in Hj. apply HW. lia. }
    destruct (N.eqb c 91).
    { eapply safe_bind; [apply rclass_safe|]. intros [e j] Hj. apply HW. lia. }
    destruct (N.eqb c 46); apply HW; lia.
  - intros i g Hi Hf. cbn [rgroup].
    destruct (rc i) as [c|] eqn:Ec; [|exact I].
    pose proof (rc_some _ _ Ec) as Hlt.
    destruct (N.eqb c 63).
    + destruct (rc (S i)) as [marker|] eqn:Em; [|exact I].
      pose proof (rc_some _ _ Em) as Hlt2.
      destruct (N.eqb marker 58).
      { eapply safe_bind; [apply ID; lia|]. intros [[es j] g1] Hj. unfold idx3 in Hj; cbn in Hj.
        destruct (rc_is re j 41); [unfold idx3; cbn; lia|exact I]. }
      destruct (N.eqb marker 61); [exact I|]. destruct (N.eqb marker 33); [exact I|].
      destruct (N.eqb marker 60); [|exact I].
      destruct (rc (S (S i))) as [a|]; [|exact I].
      destruct (N.eqb a 61); [exact I|]. destruct (N.eqb a 33); [exact I|].
      destruct (rident re (S rlen) (S (S i)) []) as [id j] eqn:Eid. apply rident_ge in Eid.
      destruct (rc_is re j 62) eqn:E62; [|exact I]. cbn [negb]. apply rc_is_lt in E62.
      eapply safe_bind; [apply ID; lia|]. intros [[es k] g1] Hk. unfold idx3 in Hk; cbn in Hk.
      destruct (rc_is re k 41); [unfold idx3; cbn; lia|exact I].
    + eapply safe_bind; [apply ID; lia|]. intros [[es j] g1] Hj. unfold idx3 in Hj; cbn in Hj.
      destruct (rc_is re j 41); [unfold idx3; cbn; lia|exact I].
Qed.

(* the regex literal sub-parser returns a tree or an error, for every pattern and every group counter *)
Theorem parse_regexp_safe g : safe (parse_regexp re g) (fun _ => True).
Proof.
  unfold parse_regexp. eapply safe_bind.
  - apply (proj1 (regex_mutual (regex_fuel re))). unfold regex_fuel. lia.
  - intros [[es j] g1] _. exact I.
Qed.

End Regex.
