(* C08 (lexer part): the token state machine always returns - every token is produced within the
   fuel the model gives it, every non-final token consumes at least one rune, so the token loop
   ends after at most |src|+1 tokens with a token list or a lexical error. *)
From Model Require Import Lexer.
From Coq Require Import Lia.
Local Open Scope N_scope.

Section LexTotal.
Variable src : list N.
Notation len := (length src).

Lemma rd_spec p ch p1 : rd src p = (ch, p1) ->
  (p1 = S p /\ (p < len)%nat /\ nth_error src p = Some ch) \/ (ch = 0 /\ p1 = p /\ (len <= p)%nat).
Proof.
  unfold rd. destruct (nth_error src p) as [c|] eqn:E; intros H; inversion H; subst.
  - left. split; [reflexivity|]. split; [|reflexivity]. apply nth_error_Some. congruence.
  - right. split; [reflexivity|]. split; [reflexivity|]. apply nth_error_None. exact E.
Qed.

Lemma rd_nonzero p ch p1 : rd src p = (ch, p1) -> (ch =? 0) = false -> p1 = S p /\ (p < len)%nat.
Proof.
  intros H Hz. destruct (rd_spec _ _ _ H) as [(A & B & _)|(A & _)]; [auto|]. subst ch. discriminate.
Qed.

Lemma rd_le p ch p1 : rd src p = (ch, p1) -> (p <= len)%nat -> (p <= p1 <= len)%nat.
Proof. intros H Hp. destruct (rd_spec _ _ _ H) as [(A & B & _)|(_ & A & _)]; lia. Qed.

Lemma regexp_body_bounds : forall fuel buf p st b p', regexp_body src fuel buf p = (st, b, p') -> (p <= len)%nat -> (p <= p' <= len)%nat.
Proof.
  induction fuel as [|f IH]; intros buf p st b p' H Hp; cbn [regexp_body] in H.
  - inversion H; subst. lia.
  - destruct (rd src p) as [c p1] eqn:Er. pose proof (rd_le _ _ _ Er Hp) as Hb.
    destruct (c =? 47); [inversion H; subst; lia|].
    destruct (c =? 0); [inversion H; subst; lia|].
    apply IH in H; lia.
Qed.

(* the regex literal loop never runs out of the fuel it is given: with enough fuel it always ends on '/' or on the end of the input *)
Lemma regexp_body_ends : forall fuel buf p st b p', regexp_body src fuel buf p = (st, b, p') -> (len - p < fuel)%nat ->
  st = SREGEXP \/ (st = SREGEXP_BODY /\ exists q, (q < p')%nat /\ rd src q = (0, p') \/ (p' = q /\ rd src q = (0, q))).
Proof.
  induction fuel as [|f IH]; intros buf p st b p' H Hf; [lia|]. cbn [regexp_body] in H.
  destruct (rd src p) as [c p1] eqn:Er.
  destruct (c =? 47) eqn:E47; [inversion H; subst; left; reflexivity|].
  destruct (c =? 0) eqn:E0.
  - inversion H; subst. right. split; [reflexivity|]. apply N.eqb_eq in E0. subst c. exists p.
    destruct (rd_spec _ _ _ Er) as [(A & B & _)|(_ & A & _)]; [left; split; [lia|congruence]|right; subst; auto].
  - destruct (rd_nonzero _ _ _ Er E0) as [A B]. subst p1. apply IH in H; [exact H|lia].
Qed.

Ltac chain H :=
  repeat match type of H with
         | (if ?c then _ else _) = _ => let E := fresh "E" in destruct c eqn:E
         | (let '(_, _) := ?x in _) = _ => let E := fresh "E" in destruct x eqn:E
         end.

(* a continuing step consumed at least one rune *)
Lemma step_cont st buf p st' b' p' : lex_step src st buf p = Cont st' b' p' -> (p < p' <= len)%nat.
Proof.
  unfold lex_step. intros H.
  destruct (rd src p) as [ch p1] eqn:Er.
  destruct (lstate_eqb st SSTART && (ch =? 0))%bool eqn:E1; [discriminate|].
  destruct (ch =? 0) eqn:E0; [discriminate|].
  destruct (rd_nonzero _ _ _ Er E0) as [A B]. subst p1.
  repeat match type of H with
         | (if ?c then _ else _) = _ => let E := fresh "E" in destruct c eqn:E
         | (let '(_, _) := ?x in _) = _ => let E := fresh "E" in destruct x eqn:E
         | Cont _ _ _ = Cont _ _ _ => inversion H; subst; clear H
         | Stop _ _ _ = Cont _ _ _ => discriminate H
         end; try lia;
  repeat match goal with
         | Hr : rd src _ = (_, _) |- _ => apply rd_le in Hr; [|lia]
         end; try lia.
  all: try (unfold peek2_hex in *;
            repeat match goal with
                   | Hq : match nth_error src ?q with _ => _ end = true |- _ => destruct (nth_error src q) eqn:?; try discriminate
                   end;
            repeat match goal with
                   | Hr : rd src _ = (_, _) |- _ => unfold rd in Hr
                   end;
            repeat match goal with
                   | Hn : nth_error src ?q = Some _, Hr : context[nth_error src ?q] |- _ => rewrite Hn in Hr
                   end;
            repeat match goal with
                   | Hr : (_, _) = (_, _) |- _ => inversion Hr; subst; clear Hr
                   end;
            repeat match goal with
                   | Hn : nth_error src ?q = Some _ |- _ =>
                       assert (q < len)%nat by (apply nth_error_Some; congruence); clear Hn
                   end; lia).
Qed.

(* a stopping step either consumed something, or left position and state untouched, or is the end of the input *)
Lemma step_stop st buf p st' b' p' : lex_step src st buf p = Stop st' b' p' -> (p <= len)%nat ->
  (p <= p' <= len)%nat /\ ((st' = st /\ p' = p) \/ (p < p')%nat \/ st' = SEND).
Proof.
  unfold lex_step. intros H Hp.
  destruct (rd src p) as [ch p1] eqn:Er.
  pose proof (rd_le _ _ _ Er Hp) as Hb.
  destruct (lstate_eqb st SSTART && (ch =? 0))%bool eqn:E1; [inversion H; subst; split; [lia|right; right; reflexivity]|].
  destruct (ch =? 0) eqn:E0; [inversion H; subst; split; [lia|left; auto]|].
  destruct (rd_nonzero _ _ _ Er E0) as [A B]. subst p1.
  repeat match type of H with
         | (if ?c then _ else _) = _ => let E := fresh "E" in destruct c eqn:E
         | (let '(_, _) := ?x in _) = _ => let E := fresh "E" in destruct x eqn:E
         | Stop _ _ _ = Stop _ _ _ => inversion H; subst; clear H
         | Cont _ _ _ = Stop _ _ _ => discriminate H
         end; try (split; [lia|]; first [left; split; reflexivity | right; left; lia]).
  all: match goal with
       | Hr : regexp_body src _ _ ?q = _, Hn : rd src ?r = (?c, ?q) |- _ =>
           assert (Hc0 : (c =? 0) = false)
             by (match goal with Hc : negb (c =? 47) = false |- _ =>
                   destruct (c =? 47) eqn:E47; [apply N.eqb_eq in E47; subst c; reflexivity|discriminate Hc] end);
           destruct (rd_nonzero r _ _ Hn Hc0) as [Hq1 Hq2]; subst;
           apply regexp_body_bounds in Hr; [split; [lia|right; left; lia]|lia]
       end.
Qed.

Lemma loop_result : forall fuel st buf p st' b' p', lex_loop src fuel st buf p = Some (st', b', p') -> (p <= len)%nat ->
  (p <= p' <= len)%nat /\ ((st' = st /\ p' = p) \/ (p < p')%nat \/ st' = SEND).
Proof.
  induction fuel as [|f IH]; intros st buf p st' b' p' H Hp; cbn [lex_loop] in H; [discriminate|].
  destruct (lex_step src st buf p) as [s1 b1 p1|s1 b1 p1] eqn:Es.
  - apply step_cont in Es. apply IH in H; [|lia]. destruct H as [H1 H2]. split; [lia|]. right.
    destruct H2 as [[_ H2]|[H2|H2]]; [left; lia|left; lia|right; exact H2].
  - inversion H; subst. eapply step_stop; eassumption.
Qed.

Lemma loop_fuel : forall fuel st buf p, (p <= len)%nat -> (len - p < fuel)%nat -> lex_loop src fuel st buf p <> None.
Proof.
  induction fuel as [|f IH]; intros st buf p Hp Hf; [lia|]. cbn [lex_loop].
  destruct (lex_step src st buf p) as [s1 b1 p1|s1 b1 p1] eqn:Es; [|discriminate].
  apply step_cont in Es. apply IH; lia.
Qed.

Lemma finish_start buf : finish SSTART buf = inr LEUnknownToken.
Proof. reflexivity. Qed.

Lemma finish_eof st buf t : finish st buf = inl t -> ttyp t = EOF -> st = SEND.
Proof.
  destruct st; cbn [finish]; intros H He; try discriminate; try (inversion H; subst; cbn in He; discriminate He); try reflexivity.
  - destruct (alookup keywords (map lower_ascii buf)) as [k|] eqn:Ek; inversion H; subst; cbn in He; [|discriminate He].
    exfalso. revert Ek. unfold keywords. cbn [alookup].
    repeat match goal with |- (if ?c then _ else _) = _ -> _ => destruct c end; intros Hk; congruence.
  - destruct (alookup operators buf) as [k|] eqn:Ek; inversion H; subst. cbn in He. subst k.
    exfalso. revert Ek. unfold operators. cbn [alookup].
    repeat match goal with |- (if ?c then _ else _) = _ -> _ => destruct c end; intros Hk; inversion Hk.
  - destruct (alookup operators buf) as [k|] eqn:Ek; inversion H; subst. cbn in He. subst k.
    exfalso. revert Ek. unfold operators. cbn [alookup].
    repeat match goal with |- (if ?c then _ else _) = _ -> _ => destruct c end; intros Hk; inversion Hk.
Qed.

Lemma tokens_total : forall fuel p acc, (p <= len)%nat -> (len - p < fuel)%nat -> lex_tokens src fuel p acc <> LexHang.
Proof.
  induction fuel as [|f IH]; intros p acc Hp Hf; [lia|]. cbn [lex_tokens].
  destruct (lex_loop src (S (S len)) SSTART [] p) as [[[st buf] p']|] eqn:El.
  2:{ exfalso. revert El. apply loop_fuel; lia. }
  destruct (loop_result _ _ _ _ _ _ _ El Hp) as [Hb Hc].
  destruct (finish st buf) as [t|e] eqn:Ef; [|discriminate].
  destruct (ttyp t) eqn:Et; try discriminate;
    (destruct Hc as [[Hs _]|[Hlt|Hs]];
     [ subst st; rewrite finish_start in Ef; discriminate
     | apply IH; lia
     | subst st; cbn in Ef; inversion Ef; subst t; cbn in Et; discriminate ]).
Qed.

(* C08, lexer: the lexer returns, for every sequence of runes *)
Theorem lex_total_lemma : lex src <> LexHang.
Proof. unfold lex. apply tokens_total; lia. Qed.

(* what it returns when it succeeds ends with the only EOF token (what the parser relies on) *)
Lemma tokens_shape : forall fuel p acc ts, lex_tokens src fuel p acc = LexOk ts -> (p <= len)%nat ->
  exists body e, ts = acc ++ body ++ [e] /\ ttyp e = EOF /\ Forall (fun t => ttyp t <> EOF) body.
Proof.
  induction fuel as [|f IH]; intros p acc ts H Hp; cbn [lex_tokens] in H; [discriminate|].
  destruct (lex_loop src (S (S len)) SSTART [] p) as [[[st buf] p']|] eqn:El; [|discriminate].
  destruct (loop_result _ _ _ _ _ _ _ El Hp) as [Hb _].
  destruct (finish st buf) as [t|e] eqn:Ef; [|discriminate].
  destruct (ttyp t) eqn:Et;
    try (apply IH in H; [|lia]; destruct H as (body & e & E1 & E2 & E3); exists (t :: body), e;
         split; [rewrite E1, <- app_assoc; reflexivity|split; [exact E2|constructor; [congruence|exact E3]]]).
  inversion H; subst. exists [], t. split; [reflexivity|split; [exact Et|constructor]].
Qed.

Theorem lex_shape_lemma ts : lex src = LexOk ts ->
  exists body e, ts = body ++ [e] /\ ttyp e = EOF /\ Forall (fun t => ttyp t <> EOF) body.
Proof. unfold lex. intros H. apply tokens_shape in H; [|lia]. exact H. Qed.

End LexTotal.
