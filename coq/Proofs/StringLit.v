(* C16: the lexer turns every documented spelling of an ASCII string, in either quote style, into
   a STRING token whose lexeme is exactly the denoted bytes. *)
From Model Require Import Lexer Atoms.
From Spec Require Import StrSpec.
From Coq Require Import Lia.
Local Open Scope N_scope.

Lemma skipn_S_tl {A} : forall p (l : list A) x tl, skipn p l = x :: tl -> skipn (S p) l = tl.
Proof.
  induction p as [|p IH]; intros [|a l] x tl H; cbn in *; try discriminate.
  - inversion H; reflexivity.
  - apply IH in H. exact H.
Qed.

Lemma some3 {A B C} (a a' : A) (b b' : B) (c c' : C) : a = a' -> b = b' -> c = c' -> Some (a, b, c) = Some (a', b', c').
Proof. intros -> -> ->. reflexivity. Qed.

Section StringLit.
Variable src : list N.

Lemma skipn_cons_nth p x tl : skipn p src = x :: tl -> nth_error src p = Some x.
Proof.
  intros H.
  { rewrite <- (firstn_skipn p src) at 1. rewrite H.
    assert (Hl : (length (firstn p src) = p)%nat).
    { rewrite firstn_length. apply Nat.min_l. destruct (Nat.le_gt_cases p (length src)) as [|Hg]; [assumption|].
      rewrite skipn_all2 in H by lia. discriminate. }
    rewrite nth_error_app2 by lia. rewrite Hl, Nat.sub_diag. reflexivity. }
Qed.

Lemma skipn_cons_rd p x tl : skipn p src = x :: tl -> rd src p = (x, S p) /\ skipn (S p) src = tl.
Proof.
  intros H. unfold rd. rewrite (skipn_cons_nth _ _ _ H). split; [reflexivity|]. eapply skipn_S_tl; eauto.
Qed.

Definition str_state (q : N) (st : lstate) : Prop := (q = 34 /\ st = SSTRING_DOUBLE) \/ (q = 39 /\ st = SSTRING_SINGLE).
Definition esc_of (st : lstate) : lstate := match st with SSTRING_DOUBLE => SSTRING_D_ESCAPE | _ => SSTRING_S_ESCAPE end.

Ltac norm := cbn [lstate_eqb negb orb andb]; rewrite ?Bool.andb_false_r, ?Bool.andb_true_r, ?Bool.orb_false_r, ?Bool.orb_true_r; cbn [negb orb andb].

Lemma neq_eqb a b : a <> b -> (a =? b) = false.
Proof. intros H. apply N.eqb_neq. exact H. Qed.

Lemma step_raw q st buf p ch : str_state q st -> rd src p = (ch, S p) -> ch <> 0 -> ch <> 92 -> ch <> q ->
  lex_step src st buf p = Cont st (buf ++ encode_rune ch) (S p).
Proof.
  intros [[-> ->]|[-> ->]] Hr H0 H92 Hq; unfold lex_step; rewrite Hr; norm;
    rewrite (neq_eqb _ _ H0), ?(neq_eqb _ _ H92), ?(neq_eqb _ _ Hq); reflexivity.
Qed.

Lemma step_close q st buf p : str_state q st -> rd src p = (q, S p) ->
  lex_step src st buf p = Stop SSTRING_END buf (S p).
Proof. intros [[-> ->]|[-> ->]] Hr; unfold lex_step; rewrite Hr; norm; reflexivity. Qed.

Lemma step_backslash q st buf p : str_state q st -> rd src p = (92, S p) ->
  lex_step src st buf p = Cont (esc_of st) buf (S p).
Proof. intros [[-> ->]|[-> ->]] Hr; unfold lex_step; rewrite Hr; norm; reflexivity. Qed.

Lemma step_escaped q st buf p ch : str_state q st -> rd src p = (ch, S p) -> ch <> 0 -> ch <> 120 ->
  lex_step src (esc_of st) buf p = Cont st (buf ++ encode_rune (escaped_rune ch)) (S p).
Proof.
  intros [[-> ->]|[-> ->]] Hr H0 Hx; unfold lex_step; rewrite Hr; cbn [esc_of]; norm;
    rewrite (neq_eqb _ _ H0), (neq_eqb _ _ Hx); reflexivity.
Qed.

Lemma step_hex q st buf p a b : str_state q st -> rd src p = (120, S p) -> rd src (S p) = (a, S (S p)) -> rd src (S (S p)) = (b, S (S (S p))) ->
  peek2_hex src (S p) = true ->
  lex_step src (esc_of st) buf p = Cont st (buf ++ encode_rune (hexval a * 16 + hexval b)) (S (S (S p))).
Proof.
  intros [[-> ->]|[-> ->]] Hr Ha Hb Hp; unfold lex_step; rewrite Hr; cbn [esc_of]; norm; rewrite Hp, Ha, Hb; reflexivity.
Qed.

Lemma step_badx q st buf p : str_state q st -> rd src p = (120, S p) -> peek2_hex src (S p) = false ->
  lex_step src (esc_of st) buf p = Cont st (buf ++ [120]) (S p).
Proof.
  intros [[-> ->]|[-> ->]] Hr Hp; unfold lex_step; rewrite Hr; cbn [esc_of]; norm; rewrite Hp; reflexivity.
Qed.

Lemma peek2_skipn p : peek2_hex src p = both_hex (skipn p src).
Proof.
  unfold peek2_hex, both_hex. destruct (skipn p src) as [|a [|b tl]] eqn:E.
  - assert (nth_error src p = None).
    { apply nth_error_None. destruct (Nat.le_gt_cases (length src) p); [assumption|].
      assert (length (skipn p src) = 0)%nat by (rewrite E; reflexivity). rewrite skipn_length in H0. lia. }
    rewrite H. reflexivity.
  - destruct (skipn_cons_rd _ _ _ E) as [_ H2]. rewrite (skipn_cons_nth _ _ _ E).
    assert (nth_error src (S p) = None).
    { apply nth_error_None. assert (length (skipn (S p) src) = 0)%nat by (rewrite H2; reflexivity). rewrite skipn_length in H. lia. }
    rewrite H. reflexivity.
  - destruct (skipn_cons_rd _ _ _ E) as [_ H2]. rewrite (skipn_cons_nth _ _ _ E), (skipn_cons_nth _ _ _ H2). reflexivity.
Qed.

Lemma enc_ascii c : c < 128 -> encode_rune c = [c].
Proof. intros H. unfold encode_rune. apply N.ltb_lt in H. rewrite H. reflexivity. Qed.

Lemma named_cases c : In c named_letters -> c <> 0 /\ c <> 120 /\ escaped_rune c = denote (PNamed c) /\ denote (PNamed c) < 128.
Proof.
  intros H. cbn in H. repeat (destruct H as [<-|H]; [repeat split; try discriminate; try reflexivity|]). contradiction.
Qed.

Lemma esc_other c : ~ In c named_letters -> escaped_rune c = c.
Proof.
  intros H. unfold escaped_rune.
  repeat match goal with |- (if ?x =? ?k then _ else _) = _ => destruct (N.eqb_spec x k); [exfalso; apply H; subst; cbn; tauto|] end.
  reflexivity.
Qed.

(* the body of a literal, from just after the opening quote *)
Lemma string_body q st : str_state q st ->
  forall ps buf p rest fuel, valid q ps (q :: rest) -> skipn p src = spell_all ps ++ q :: rest -> (length (spell_all ps) < fuel)%nat ->
  lex_loop src fuel st buf p = Some (SSTRING_END, buf ++ map denote ps, (p + length (spell_all ps) + 1)%nat).
Proof.
  intros Hst. induction ps as [|pc ps IH]; intros buf p rest fuel Hv Hs Hf.
  - cbn in Hs. destruct fuel; [cbn in Hf; lia|]. cbn [lex_loop]. destruct (skipn_cons_rd _ _ _ Hs) as [Hr _].
    rewrite (step_close q st buf p Hst Hr). apply some3; [reflexivity|cbn; rewrite app_nil_r; reflexivity|cbn; lia].
  - cbn [valid] in Hv. destruct Hv as [Hp Hv]. cbn [spell_all flat_map] in Hs, Hf |- *. fold (spell_all ps) in *.
    destruct pc as [c|c|a b|c|]; cbn [spell app] in Hs.
    + destruct Hp as (H0 & H92 & Hq & Hlt). destruct (skipn_cons_rd _ _ _ Hs) as [Hr Hs1].
      destruct fuel; [cbn in Hf; lia|]. cbn [lex_loop]. rewrite (step_raw q st buf p c Hst Hr H0 H92 Hq).
      rewrite (IH _ _ rest fuel Hv Hs1) by (cbn in Hf; lia).
      rewrite (enc_ascii c Hlt). apply some3; [reflexivity|cbn [map denote app]; rewrite <- app_assoc; reflexivity|cbn [length spell app]; rewrite ?app_length; cbn [length]; lia].
    + destruct (named_cases c Hp) as (H0 & Hx & He & Hlt).
      destruct (skipn_cons_rd _ _ _ Hs) as [Hr Hs1]. destruct (skipn_cons_rd _ _ _ Hs1) as [Hr2 Hs2].
      destruct fuel as [|[|fuel]]; [cbn in Hf; lia|cbn in Hf; lia|]. cbn [lex_loop].
      rewrite (step_backslash q st buf p Hst Hr). rewrite (step_escaped q st buf (S p) c Hst Hr2 H0 Hx).
      rewrite (IH _ _ rest fuel Hv Hs2) by (cbn in Hf; lia).
      rewrite He, (enc_ascii _ Hlt). apply some3; [reflexivity|cbn [map app]; rewrite <- app_assoc; reflexivity|cbn [length spell app]; rewrite ?app_length; cbn [length]; lia].
    + destruct Hp as (Ha & Hb & Hpos & Hlt).
      destruct (skipn_cons_rd _ _ _ Hs) as [Hr Hs1]. destruct (skipn_cons_rd _ _ _ Hs1) as [Hr2 Hs2].
      destruct (skipn_cons_rd _ _ _ Hs2) as [Hr3 Hs3]. destruct (skipn_cons_rd _ _ _ Hs3) as [Hr4 Hs4].
      destruct fuel as [|[|fuel]]; [cbn in Hf; lia|cbn in Hf; lia|]. cbn [lex_loop].
      rewrite (step_backslash q st buf p Hst Hr).
      assert (Hpk : peek2_hex src (S (S p)) = true) by (rewrite peek2_skipn, Hs2; cbn; rewrite Ha, Hb; reflexivity).
      rewrite (step_hex q st buf (S p) a b Hst Hr2 Hr3 Hr4 Hpk).
      rewrite (IH _ _ rest fuel Hv Hs4) by (cbn in Hf; lia).
      rewrite (enc_ascii _ Hlt). apply some3; [reflexivity|cbn [map denote app]; rewrite <- app_assoc; reflexivity|cbn [length spell app]; rewrite ?app_length; cbn [length]; lia].
    + destruct Hp as (H0 & Hn & Hx & Hlt).
      destruct (skipn_cons_rd _ _ _ Hs) as [Hr Hs1]. destruct (skipn_cons_rd _ _ _ Hs1) as [Hr2 Hs2].
      destruct fuel as [|[|fuel]]; [cbn in Hf; lia|cbn in Hf; lia|]. cbn [lex_loop].
      rewrite (step_backslash q st buf p Hst Hr). rewrite (step_escaped q st buf (S p) c Hst Hr2 H0 Hx).
      rewrite (IH _ _ rest fuel Hv Hs2) by (cbn in Hf; lia).
      rewrite (esc_other c Hn), (enc_ascii _ Hlt). apply some3; [reflexivity|cbn [map denote app]; rewrite <- app_assoc; reflexivity|cbn [length spell app]; rewrite ?app_length; cbn [length]; lia].
    + destruct (skipn_cons_rd _ _ _ Hs) as [Hr Hs1]. destruct (skipn_cons_rd _ _ _ Hs1) as [Hr2 Hs2].
      destruct fuel as [|[|fuel]]; [cbn in Hf; lia|cbn in Hf; lia|]. cbn [lex_loop].
      rewrite (step_backslash q st buf p Hst Hr).
      assert (Hpk : peek2_hex src (S (S p)) = false) by (rewrite peek2_skipn, Hs2; exact Hp).
      rewrite (step_badx q st buf (S p) Hst Hr2 Hpk).
      rewrite (IH _ _ rest fuel Hv Hs2) by (cbn in Hf; lia).
      apply some3; [reflexivity|cbn [map denote app]; rewrite <- app_assoc; reflexivity|cbn [length spell app]; rewrite ?app_length; cbn [length]; lia].
Qed.

Lemma step_open q st p : str_state q st -> rd src p = (q, S p) -> lex_step src SSTART [] p = Cont st [] (S p).
Proof. intros [[-> ->]|[-> ->]] Hr; unfold lex_step; rewrite Hr; vm_compute; reflexivity. Qed.

End StringLit.

(* C16: a literal written anywhere in a source, in either quote style, with any documented spelling
   of each character, is lexed as ONE STRING token whose lexeme is exactly the denoted byte string,
   and lexing resumes right after the closing quote. *)
Theorem string_literal_denotes_lemma q st pre ps rest :
  str_state q st -> valid q ps (q :: rest) ->
  let src := pre ++ q :: spell_all ps ++ q :: rest in
  lex_loop src (S (S (length src))) SSTART [] (length pre) =
    Some (SSTRING_END, map denote ps, (length pre + length (spell_all ps) + 2)%nat) /\
  finish SSTRING_END (map denote ps) = inl {| ttyp := STRING; lexeme := map denote ps |}.
Proof.
  intros Hst Hv src. split; [|reflexivity].
  remember src as s eqn:Es. unfold src in Es. clear src.
  assert (Hs0 : skipn (length pre) s = q :: spell_all ps ++ q :: rest).
  { subst s. rewrite skipn_app, Nat.sub_diag, skipn_all. reflexivity. }
  destruct (skipn_cons_rd s _ _ _ Hs0) as [Hr Hs1].
  change (lex_loop s (S (S (length s))) SSTART [] (length pre)) with
    (match lex_step s SSTART [] (length pre) with
     | Cont st' b' p' => lex_loop s (S (length s)) st' b' p'
     | Stop st' b' p' => Some (st', b', p')
     end).
  rewrite (step_open s q st _ Hst Hr).
  rewrite (string_body s q st Hst ps [] (S (length pre)) rest (S (length s)) Hv Hs1).
  - apply some3; [reflexivity|reflexivity|lia].
  - subst s. rewrite app_length. cbn [length]. rewrite app_length. cbn [length]. lia.
Qed.

(* and a literal pattern matches the text b and nothing else of that length *)
Theorem literal_matches_exactly_lemma (b t : bytes) : b <> [] -> length t = length b ->
  (match_lit t b false false 0 = Some (length b) <-> t = b) /\ (t <> b -> match_lit t b false false 0 = None).
Proof.
  intros Hb Hl. unfold match_lit, consume_len, Atoms.rd, read.
  destruct (Nat.eqb (length b) 0) eqn:E0; [apply Nat.eqb_eq in E0; destruct b; [congruence|discriminate]|].
  rewrite Hl. cbn [Nat.add]. rewrite Nat.ltb_irrefl.
  assert (Hsub : sub t 0 (length b) = t).
  { unfold sub. cbn [skipn]. rewrite Nat.sub_0_r, <- Hl. apply firstn_all. }
  rewrite Hsub. destruct t as [|x t']; [destruct b; [congruence|discriminate]|].
  unfold compare_bytes. cbn [xorb]. rewrite Bool.xorb_false_r.
  destruct (bytes_eqb_spec b (x :: t')) as [Heq|Hne].
  - subst b. split; [split; auto|congruence].
  - split; [split; [discriminate|congruence]|reflexivity].
Qed.
