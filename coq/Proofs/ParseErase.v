(* C15 (keyword case, parser side): the parser reads the lexeme of a token only where it has just
   checked that the token is an identifier, a number, a string or a regex literal; the spelling of
   every other token (keywords in any letter case, punctuation) never reaches the syntax tree. *)
From Model Require Import Parser.
From Proofs Require Import ParseTotal.
From Coq Require Import Lia.

Definition matters (t : ttype) : bool :=
  match t with IDENTIFIER | NUMBER | STRING | REGEXP => true | _ => false end.

Definition erase (t : token) : token :=
  if matters (ttyp t) then t else {| ttyp := ttyp t; lexeme := [] |}.

Lemma erase_ttyp t : ttyp (erase t) = ttyp t.
Proof. unfold erase. destruct (matters (ttyp t)); reflexivity. Qed.

Lemma erase_lexeme t : matters (ttyp t) = true -> lexeme (erase t) = lexeme t.
Proof. unfold erase. intros ->. reflexivity. Qed.

Lemma pbind_ext {A B} (m : pr A) (f f' : A -> pr B) : (forall a, m = POk a -> f a = f' a) -> pbind m f = pbind m f'.
Proof. destruct m; cbn; auto. Qed.

Section Erase.
Variable toks : list token.
Notation toks' := (map erase toks).

Lemma ty_erase i : ty toks' i = ty toks i.
Proof. unfold ty. rewrite nth_error_map. destruct (nth_error toks i); cbn; [rewrite erase_ttyp|]; reflexivity. Qed.

Lemma lx_erase i t : ty toks i = POk t -> matters t = true -> lx toks' i = lx toks i.
Proof.
  unfold ty, lx. rewrite nth_error_map. destruct (nth_error toks i) as [x|]; cbn; [|reflexivity].
  intros H Hm. inversion H; subst. apply erase_lexeme. exact Hm.
Qed.

Lemma expect_ok i t u : expect toks i t = POk u -> ty toks i = POk t.
Proof.
  unfold expect. destruct (ty toks i) as [t'| | |]; cbn; try discriminate.
  destruct (teq t' t) eqn:E; [|discriminate]. apply teq_true in E. subst. reflexivity.
Qed.

Lemma length_erase : length toks' = length toks.
Proof. apply map_length. Qed.

Lemma expect_erase i t : expect toks' i t = expect toks i t.
Proof. unfold expect. rewrite ty_erase. reflexivity. Qed.

(* the goal is an equation between the same program run on the erased and on the original tokens *)
Ltac guards :=
  repeat match goal with
         | E : teq ?t ?k = true |- _ => apply teq_true in E; try subst t
         | H : expect toks ?i ?t = POk _ |- _ => apply expect_ok in H
         end.

Ltac fixlx :=
  guards;
  repeat match goal with
         | H : ty toks ?i = POk ?t |- context[lx toks' ?i] => rewrite (lx_erase i t H eq_refl)
         end.

Ltac same :=
  rewrite ?ty_erase, ?expect_erase, ?length_erase;
  repeat first
    [ reflexivity
    | match goal with
      | |- pbind ?m _ = pbind ?m _ => apply pbind_ext; let a := fresh "a" in let Ha := fresh "Ha" in intros a Ha
      | |- (let '(_, _) := ?x in _) = _ => destruct x
      | |- (if ?c then _ else _) = (if ?c then _ else _) => let E := fresh "E" in destruct c eqn:E
      end
    | progress (fixlx; rewrite ?ty_erase, ?expect_erase, ?length_erase) ].

Lemma number_at_erase i : number_at toks' i = number_at toks i.
Proof. unfold number_at. same. Qed.

Lemma class_after_erase i a b : class_after toks' i a b = class_after toks i a b.
Proof. unfold class_after. same. Qed.

Lemma pclass_erase i : pclass toks' i = pclass toks i.
Proof. unfold pclass. rewrite ?ty_erase, ?class_after_erase. apply pbind_ext. intros t Ht. destruct t; rewrite ?class_after_erase, ?ty_erase; reflexivity. Qed.

Lemma plistable_erase i : plistable toks' i = plistable toks i.
Proof. unfold plistable. rewrite ?pclass_erase. same. Qed.

Lemma pin_rest_erase : forall fuel j, pin_rest toks' fuel j = pin_rest toks fuel j.
Proof.
  induction fuel as [|f IH]; intros j; [reflexivity|]. cbn [pin_rest]. rewrite ty_erase.
  apply pbind_ext. intros t Ht. destruct (teq t COMMA); [|reflexivity]. rewrite plistable_erase.
  apply pbind_ext. intros [l k] _. rewrite IH. reflexivity.
Qed.

Lemma pin_erase i nt : pin toks' i nt = pin toks i nt.
Proof.
  unfold pin. rewrite plistable_erase, length_erase. apply pbind_ext. intros [l j] _. rewrite pin_rest_erase. reflexivity.
Qed.

Lemma pnamed_erase j : pnamed toks' j = pnamed toks j.
Proof.
  unfold pnamed. rewrite !ty_erase. apply pbind_ext. intros t Ht. destruct (teq t NAMED); [|reflexivity].
  apply pbind_ext. intros t1 Ht1. destruct (teq t1 IDENTIFIER) eqn:E1; cbn [orb].
  - apply teq_true in E1. subst. rewrite (lx_erase _ _ Ht1 eq_refl). reflexivity.
  - destruct (teq t1 STRING) eqn:E2; [|reflexivity]. apply teq_true in E2. subst. rewrite (lx_erase _ _ Ht1 eq_refl). reflexivity.
Qed.

Lemma pfewest_erase j : pfewest toks' j = pfewest toks j.
Proof. unfold pfewest. rewrite ty_erase. reflexivity. Qed.

Lemma pamount_erase i : pamount toks' i = pamount toks i.
Proof. unfold pamount. rewrite ?number_at_erase. same. Qed.

Lemma patom_erase i : patom toks' i = patom toks i.
Proof. unfold patom. same. Qed.

Lemma patoms_erase : forall fuel i, patoms toks' fuel i = patoms toks fuel i.
Proof.
  induction fuel as [|f IH]; intros i; [reflexivity|]. cbn [patoms]. rewrite patom_erase.
  apply pbind_ext. intros [a j] _. rewrite ty_erase. apply pbind_ext. intros t _. destruct (stop_cmd t); [reflexivity|].
  rewrite IH. reflexivity.
Qed.

Ltac step :=
  apply pbind_ext; let a := fresh "a" in let Ha := fresh "Ha" in intros a Ha;
  first [destruct a as [[? ?] ?] | destruct a as [? ?] | idtac].

Lemma expr_erase : forall fuel,
  (forall i g, parse_expr toks' fuel i g = parse_expr toks fuel i g) /\
  (forall i g, pprim_or_dec toks' fuel i g = pprim_or_dec toks fuel i g) /\
  (forall i g, por_or toks' fuel i g = por_or toks fuel i g) /\
  (forall i g, plit toks' fuel i g = plit toks fuel i g) /\
  (forall stop i g, parse_exprs toks' fuel stop i g = parse_exprs toks fuel stop i g).
Proof.
  induction fuel as [|f (IE & IPD & IOO & IL & IES)]; [repeat split; reflexivity|].
  assert (RW : True) by exact I.
  repeat split; intros; cbn [parse_expr pprim_or_dec por_or plit parse_exprs].
  - rewrite ty_erase. apply pbind_ext. intros t Ht.
    destruct t; rewrite ?IE, ?IPD, ?IES, ?number_at_erase, ?pin_erase, ?ty_erase, ?expect_erase; try reflexivity.
    + (* REGEXP *) rewrite (lx_erase _ _ Ht eq_refl). reflexivity.
    + (* OPENCURLY *) step. rewrite ?expect_erase. step. step. step. fixlx. reflexivity.
    + (* AT *) step. destruct (negb (teq a LEAST || teq a MOST)); [reflexivity|].
      rewrite ?number_at_erase. step. step. rewrite ?pfewest_erase. step. rewrite ?pnamed_erase. reflexivity.
    + (* BETWEEN *) step. step. rewrite ?number_at_erase. step. step. rewrite ?pfewest_erase. step. rewrite ?pnamed_erase. reflexivity.
    + (* EXACTLY *) step. step. rewrite ?pnamed_erase. reflexivity.
    + (* MAYBE *) step. rewrite ?pfewest_erase. reflexivity.
  - rewrite IL. step. rewrite ?ty_erase. step. rewrite ?expect_erase, ?IOO.
    destruct (teq a EQUAL); [step; fixlx; reflexivity|]. reflexivity.
  - rewrite IL. step. rewrite ?ty_erase. step. rewrite ?IOO. reflexivity.
  - rewrite ty_erase. step. rewrite ?expect_erase, ?IES, ?ty_erase, ?pclass_erase.
    destruct (teq a STRING) eqn:E1; [fixlx; reflexivity|].
    destruct (teq a CASELESS); [step; fixlx; reflexivity|].
    destruct (teq a IDENTIFIER) eqn:E3; [fixlx; reflexivity|].
    destruct (teq a OPENPAREN); [step; rewrite ?expect_erase; reflexivity|].
    destruct (teq a NOT); [|reflexivity].
    step. destruct (teq a0 STRING) eqn:E5; [fixlx; reflexivity|]. rewrite ?pclass_erase. reflexivity.
  - rewrite ty_erase. step. destruct (stop a); [reflexivity|]. rewrite IE. step. rewrite IES. reflexivity.
Qed.

Definition exprs_erase fuel := proj2 (proj2 (proj2 (proj2 (expr_erase fuel)))).

Lemma expr_tokens_erase : forall l i, expr_tokens (map erase l) i = (map erase (fst (expr_tokens l i)), snd (expr_tokens l i)).
Proof.
  induction l as [|t r IH]; intros i; [reflexivity|]. cbn [map expr_tokens]. rewrite erase_ttyp.
  destruct (is_expr_end (ttyp t)); [reflexivity|]. destruct (teq (ttyp t) WS); [apply IH|].
  rewrite IH. destruct (expr_tokens r (S i)). reflexivity.
Qed.

Lemma pbind_cong {A B} (m m' : pr A) (f f' : A -> pr B) : m = m' -> (forall a, f a = f' a) -> pbind m f = pbind m' f'.
Proof. intros -> H. destruct m'; cbn; auto. Qed.

Lemma pratt_erase et : forall fuel,
  (forall idx minp, pratt (map erase et) fuel idx minp = pratt et fuel idx minp) /\
  (forall lhs ti minp, pratt_loop (map erase et) fuel lhs ti minp = pratt_loop et fuel lhs ti minp).
Proof.
  induction fuel as [|f [IP IL]]; [split; reflexivity|]. split; intros; cbn [pratt pratt_loop]; rewrite nth_error_map.
  - destruct (nth_error et idx) as [tk|] eqn:Etk; cbn [option_map].
    2:{ destruct et; reflexivity. }
    rewrite erase_ttyp. apply pbind_cong.
    + destruct (teq (ttyp tk) STRING) eqn:E1.
      { apply teq_true in E1. rewrite erase_lexeme by (rewrite E1; reflexivity). reflexivity. }
      destruct (teq (ttyp tk) TRUE); [reflexivity|]. destruct (teq (ttyp tk) FALSE); [reflexivity|].
      destruct (teq (ttyp tk) NUMBER) eqn:E2.
      { apply teq_true in E2. rewrite erase_lexeme by (rewrite E2; reflexivity). reflexivity. }
      destruct (teq (ttyp tk) IDENTIFIER) eqn:E3.
      { apply teq_true in E3. rewrite erase_lexeme by (rewrite E3; reflexivity). reflexivity. }
      destruct (teq (ttyp tk) OPENPAREN).
      { rewrite IP. apply pbind_ext. intros [sub n] _. rewrite nth_error_map.
        destruct (nth_error et n); cbn [option_map]; [rewrite erase_ttyp|]; reflexivity. }
      destruct (unop_of (ttyp tk)) as [[op rp]|]; [rewrite IP; reflexivity|reflexivity].
    + intros [lhs ti]. apply IL.
  - destruct (nth_error et ti) as [tk|]; cbn [option_map]; [|reflexivity]. rewrite erase_ttyp.
    destruct (teq (ttyp tk) CLOSEPAREN); [reflexivity|]. destruct (binop_of (ttyp tk)) as [[[op lp] rp]|]; [|reflexivity].
    destruct (lp <? minp); [reflexivity|]. rewrite IP. apply pbind_ext. intros [rhs n] _. apply IL.
Qed.

Lemma skipn_map {A B} (f : A -> B) : forall n l, skipn n (map f l) = map f (skipn n l).
Proof. induction n as [|n IH]; intros [|a l]; cbn; auto. Qed.

Lemma pprocexpr_erase i : pprocexpr toks' i = pprocexpr toks i.
Proof.
  unfold pprocexpr. rewrite skipn_map, expr_tokens_erase.
  destruct (expr_tokens (skipn i toks) i) as [et next]. cbn [fst snd].
  destruct et as [|e0 et']; cbn [map]; [rewrite ty_erase; reflexivity|].
  change (erase e0 :: map erase et') with (map erase (e0 :: et')). rewrite map_length.
  rewrite (proj1 (pratt_erase (e0 :: et') _)). reflexivity.
Qed.

Lemma parse_stmts_S (ts : list token) f i : parse_stmts ts (S f) i =
  if S i <? length ts then
    do (os, j) <- parse_stmt ts f i;
    match os with
    | None => POk (PNil, j)
    | Some s => do (ss, k) <- parse_stmts ts f j; POk (PCons s ss, k)
    end
  else POk (PNil, i).
Proof. reflexivity. Qed.

Lemma parse_stmt_S (ts : list token) f i : parse_stmt ts (S f) i =
  do t <- ty ts i;
  match t with
  | SET => do _ <- expect ts (S i) IDENTIFIER; do _ <- expect ts (S (S i)) TO;
           do (e, j) <- pprocexpr ts (S (S (S i))); POk (Some (PSSet (lx ts (S i)) e), j)
  | IF => do (c, j) <- pprocexpr ts (S i);
          do _ <- expect ts j THEN;
          do (tb, k) <- parse_stmts ts f (S j);
          do tk <- ty ts k;
          do (fb, k2) <- (if teq tk ELSE then parse_stmts ts f (S k) else POk (PNil, k));
          do _ <- expect ts k2 END;
          POk (Some (PSIf c tb fb), S k2)
  | RETURN => do (e, j) <- pprocexpr ts (S i); POk (Some (PSReturn e), j)
  | DEBUG => do (e, j) <- pprocexpr ts (S i); POk (Some (PSDebug e), j)
  | LOOP => do (b, j) <- parse_stmts ts f (S i); do _ <- expect ts j END; POk (Some (PSLoop b), S j)
  | BREAK => POk (Some PSBreak, S i)
  | CONTINUE => POk (Some PSContinue, S i)
  | END | ELSE => POk (None, i)
  | _ => PErr
  end.
Proof. reflexivity. Qed.

Lemma stmt_erase : forall fuel,
  (forall i, parse_stmts toks' fuel i = parse_stmts toks fuel i) /\
  (forall i, parse_stmt toks' fuel i = parse_stmt toks fuel i).
Proof.
  induction fuel as [|f [ISS IS]]; [split; reflexivity|].
  split; intros i.
  - rewrite !parse_stmts_S, length_erase, IS. destruct (S i <? length toks); [|reflexivity].
    step. destruct o; [rewrite ISS|]; reflexivity.
  - rewrite !parse_stmt_S, ty_erase. apply pbind_ext. intros t Ht.
    destruct t; rewrite ?ISS, ?ty_erase, ?pprocexpr_erase, ?expect_erase; try reflexivity.
    + (* SET *) step. step. rewrite ?pprocexpr_erase. fixlx. reflexivity.
    + (* IF *) step. rewrite ?expect_erase. step. rewrite ?ISS. step. rewrite ?ty_erase. step. rewrite ?ISS.
      step. rewrite ?expect_erase. reflexivity.
    + (* LOOP *) step. rewrite ?expect_erase. reflexivity.
Qed.

Lemma sub_fuel_erase : sub_fuel toks' = sub_fuel toks.
Proof. unfold sub_fuel. rewrite length_erase. reflexivity. Qed.

Lemma pcommand_erase : forall fuel i g, pcommand toks' fuel i g = pcommand toks fuel i g.
Proof.
  induction fuel as [|f IH]; intros i g; [reflexivity|]. cbn [pcommand].
  rewrite ty_erase. apply pbind_ext. intros t Ht.
  destruct t; try reflexivity; rewrite ?pamount_erase, ?sub_fuel_erase, ?expect_erase, ?length_erase.
  - (* FIND *) apply pbind_ext. intros [[[[all sk] tk] la] j] _. rewrite exprs_erase. reflexivity.
  - (* REPLACE *) apply pbind_ext. intros [[[[all sk] tk] la] j] _. rewrite exprs_erase.
    apply pbind_ext. intros [[es k] g1] _. rewrite expect_erase. apply pbind_ext. intros u _. rewrite patoms_erase. reflexivity.
  - (* SET *) apply pbind_ext. intros u1 H1. apply pbind_ext. intros u2 _. rewrite ty_erase. apply pbind_ext. intros t3 _.
    apply expect_ok in H1. rewrite (lx_erase _ _ H1 eq_refl).
    destruct (teq t3 PATTERN).
    { rewrite exprs_erase. apply pbind_ext. intros [[es j] g1] _. rewrite ty_erase. apply pbind_ext. intros tj _.
      destruct (negb (teq tj BEGIN)); [reflexivity|]. rewrite (proj1 (stmt_erase _)).
      apply pbind_ext. intros [ss k] _. rewrite expect_erase. reflexivity. }
    destruct (teq t3 MATCHES). { rewrite IH. reflexivity. }
    destruct (teq t3 TRANSFORM); [|reflexivity].
    rewrite ty_erase. apply pbind_ext. intros t4 _. rewrite (proj1 (stmt_erase _)).
    apply pbind_ext. intros [ss j] _. rewrite expect_erase. reflexivity.
Qed.

Lemma pcommands_erase : forall fuel i g, pcommands toks' fuel i g = pcommands toks fuel i g.
Proof.
  induction fuel as [|f IH]; intros i g; [reflexivity|]. cbn [pcommands]. rewrite length_erase.
  destruct (S i <? length toks); [|reflexivity]. rewrite pcommand_erase.
  apply pbind_ext. intros [[oc j] g1] _. rewrite IH. reflexivity.
Qed.

End Erase.

Lemma significant_erase t : significant (erase t) = significant t.
Proof. unfold significant. rewrite erase_ttyp. reflexivity. Qed.

Lemma filter_erase ts : filter significant (map erase ts) = map erase (filter significant ts).
Proof.
  induction ts as [|t ts IH]; [reflexivity|]. cbn [map filter]. rewrite significant_erase.
  destruct (significant t); cbn [map]; rewrite IH; reflexivity.
Qed.

Theorem parse_erase_lemma ts : parse (map erase ts) = parse ts.
Proof. unfold parse. cbv zeta. rewrite filter_erase, map_length. apply pcommands_erase. Qed.

(* two token lists that agree on the types, and on the lexemes of identifiers, numbers, strings and
   regex literals, are parsed to the same result *)
Theorem keyword_spelling_irrelevant_lemma ts ts' :
  Forall2 (fun a b => ttyp a = ttyp b /\ (matters (ttyp a) = true -> lexeme a = lexeme b)) ts ts' -> parse ts = parse ts'.
Proof.
  intros H. rewrite <- (parse_erase_lemma ts), <- (parse_erase_lemma ts'). f_equal.
  induction H as [|a b l l' [Ht Hl] _ IH]; [reflexivity|]. cbn [map]. f_equal; [|exact IH].
  unfold erase. rewrite <- Ht. destruct (matters (ttyp a)) eqn:Em; [|reflexivity].
  destruct a as [ta la], b as [tb lb]. cbn in *. subst tb. rewrite (Hl eq_refl). reflexivity.
Qed.
