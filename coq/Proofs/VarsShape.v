(* C02 / C17 for ARBITRARY bytecode: the SHAPE of the variables of a match.  A variable is a string, or -
   for a named loop - an ITERATION TABLE: its keys are exactly the decimal numbers 0 .. k, every entry is
   a variable map (names -> variables of the same shape), nested to any depth.  Nothing else is ever bound:
   no string where a table entry should be, no gap in the numbering, no key that is not a number. *)
From Model Require Import Engine.
From Proofs Require Import RefineBase VarsVM.
From Coq Require Import Lia.

Inductive wsv : value -> Prop :=
| ws_str s : wsv (VStr s)
| ws_tab t k :
    (forall i, i <= k -> exists e, alookup t (itoa_nat i) = Some (VMap e)) ->
    NoDup (map fst t) ->
    Forall (fun kv => exists i e, i <= k /\ fst kv = itoa_nat i /\ snd kv = VMap e /\ NoDup (map fst e) /\ Forall (fun kv2 => wsv (snd kv2)) e) t ->
    wsv (VMap t).

(* a variable map: no name twice, every value well shaped *)
Definition wse (e : env) : Prop := NoDup (map fst e) /\ Forall (fun kv => wsv (snd kv)) e.

(* an iteration table with entries 0 .. k *)
Definition itab (t : env) (k : nat) : Prop :=
  (forall i, i <= k -> exists e, alookup t (itoa_nat i) = Some (VMap e)) /\ NoDup (map fst t) /\
  Forall (fun kv => exists i e, i <= k /\ fst kv = itoa_nat i /\ snd kv = VMap e /\ wse e) t.

Lemma wsv_tab t : wsv (VMap t) <-> exists k, itab t k.
Proof. split; [inversion 1; subst; eexists; repeat split; eauto|intros (k & H1 & H2 & H3); econstructor; eauto]. Qed.

Lemma in_aremove {A} (m : list (bytes * A)) k x : In x (map fst (aremove m k)) -> In x (map fst m) /\ x <> k.
Proof.
  induction m as [|[k0 v0] m IH]; cbn [aremove map]; [contradiction|]. destruct (bytes_eqb_spec k0 k) as [E|E].
  - intros H. destruct (IH H). split; [right; assumption|assumption].
  - cbn [map fst In]. intros [H|H]; [subst; split; [left; reflexivity|exact E]|destruct (IH H); split; [right; assumption|assumption]].
Qed.

Lemma nodup_aremove {A} (m : list (bytes * A)) k : NoDup (map fst m) -> NoDup (map fst (aremove m k)).
Proof.
  induction m as [|[k0 v0] m IH]; cbn [aremove map]; intros H; [constructor|]. inversion H; subst.
  destruct (bytes_eqb k0 k); [apply IH; assumption|]. cbn [map fst]. constructor; [|apply IH; assumption].
  intros Hin. apply in_aremove in Hin. tauto.
Qed.

Lemma nodup_aset {A} (m : list (bytes * A)) k v : NoDup (map fst m) -> NoDup (map fst (aset m k v)).
Proof.
  intros H. unfold aset. cbn [map fst]. constructor; [|apply nodup_aremove; exact H].
  intros Hin. apply in_aremove in Hin. destruct Hin as [_ Hne]. congruence.
Qed.

Lemma Forall_aremove {A} (P : bytes * A -> Prop) m k : Forall P m -> Forall P (aremove m k).
Proof.
  induction m as [|[k' v] m IH]; intros H; cbn [aremove]; [constructor|]. inversion H; subst.
  destruct (bytes_eqb k' k); [apply IH; assumption|constructor; [assumption|apply IH; assumption]].
Qed.

Lemma wse_nil : wse [].
Proof. split; constructor. Qed.

Lemma wse_aset e k v : wse e -> wsv v -> wse (aset e k v).
Proof. intros [Hn He] Hv. split; [apply nodup_aset; exact Hn|]. unfold aset. constructor; [exact Hv|apply Forall_aremove; exact He]. Qed.

Lemma alookup_aset_eq {A} (m : list (bytes * A)) k k' v : alookup (aset m k v) k' = if bytes_eqb k k' then Some v else alookup m k'.
Proof.
  unfold aset. cbn [alookup]. destruct (bytes_eqb_spec k k') as [E|E]; [reflexivity|].
  induction m as [|[k0 v0] m IH]; cbn [aremove alookup]; [reflexivity|].
  destruct (bytes_eqb_spec k0 k) as [E0|E0].
  - subst k0. destruct (bytes_eqb_spec k k'); [contradiction|exact IH].
  - cbn [alookup]. destruct (bytes_eqb k0 k'); [reflexivity|exact IH].
Qed.

Lemma itab_fresh : itab [(itoa_nat 0, VMap [])] 0.
Proof.
  split; [|split].
  - intros i Hi. assert (i = 0) by lia. subst. exists []. cbn [alookup]. rewrite bytes_eqb_refl. reflexivity.
  - repeat constructor. intros [].
  - constructor; [|constructor]. exists 0, []. repeat split; auto; constructor.
Qed.

Lemma itab_weaken t k : itab t k -> Forall (fun kv => exists i e, i <= S k /\ fst kv = itoa_nat i /\ snd kv = VMap e /\ wse e) t.
Proof. intros (_ & _ & H). eapply Forall_impl; [|exact H]. intros kv (i & e & Hi & R). exists i, e. split; [lia|exact R]. Qed.

Lemma itab_next t k : itab t k -> itab (aset t (itoa_nat (S k)) (VMap [])) (S k).
Proof.
  intros H. pose proof H as (H1 & Hn & H2). split; [|split].
  - intros i Hi. rewrite alookup_aset_eq. destruct (bytes_eqb (itoa_nat (S k)) (itoa_nat i)) eqn:E; [eexists; reflexivity|].
    destruct (Nat.eq_dec i (S k)) as [->|Hne]; [rewrite bytes_eqb_refl in E; discriminate|apply H1; lia].
  - apply nodup_aset. exact Hn.
  - unfold aset. constructor.
    + exists (S k), []. repeat split; auto; constructor.
    + apply Forall_aremove. apply itab_weaken. exact H.
Qed.

(* replace the entry of iteration k (it exists) by another variable map *)
Lemma itab_set t k e : itab t k -> wse e -> itab (aset t (itoa_nat k) (VMap e)) k.
Proof.
  intros (H1 & Hn & H2) He. split; [|split].
  - intros i Hi. rewrite alookup_aset_eq. destruct (bytes_eqb (itoa_nat k) (itoa_nat i)); [eexists; reflexivity|apply H1; exact Hi].
  - apply nodup_aset. exact Hn.
  - unfold aset. constructor; [exists k, e; repeat split; auto; apply He|apply Forall_aremove; exact H2].
Qed.

Lemma alookup_in {A} (m : list (bytes * A)) k v : alookup m k = Some v -> exists k', In (k', v) m.
Proof.
  induction m as [|[k0 v0] m IH]; cbn [alookup]; [discriminate|]. destruct (bytes_eqb k0 k).
  - intros E. inversion E; subst. exists k0. left. reflexivity.
  - intros E. destruct (IH E) as (k' & Hin). exists k'. right. exact Hin.
Qed.

Lemma itab_entry t k key x : itab t k -> alookup t key = Some x -> exists e, x = VMap e /\ wse e.
Proof.
  intros (_ & _ & H2) E. destruct (alookup_in _ _ _ E) as (k' & Hin). rewrite Forall_forall in H2.
  destruct (H2 _ Hin) as (i & e & _ & _ & Hx & He). cbn in Hx. eauto.
Qed.

Lemma wse_lookup e k v : wse e -> alookup e k = Some v -> wsv v.
Proof. intros [_ H] E. destruct (alookup_in _ _ _ E) as (k' & Hin). rewrite Forall_forall in H. exact (H _ Hin). Qed.

(* ---- the loop stack ---- *)
Definition lshape (ls : list loopst) : Prop := Forall (fun l => itab (lvars l) (liter l)) ls.

Lemma insert_iter_shape l n v : itab (lvars l) (liter l) -> wsv v -> itab (lvars (insert_iter l n v)) (liter (insert_iter l n v)).
Proof.
  intros Hl Hv. unfold insert_iter. cbn [lvars liter]. apply itab_set; [exact Hl|]. apply wse_aset; [|exact Hv].
  destruct (alookup (lvars l) (itoa_nat (liter l))) as [[s|mm]|] eqn:E.
  - split; [repeat constructor; intros []|repeat constructor].
  - destruct (itab_entry _ _ _ _ Hl E) as (e & Ee & He). inversion Ee; subst. exact He.
  - exact wse_nil.
Qed.

Lemma insert_variable_shape n v : forall ls e, lshape ls -> wse e -> wsv v ->
  lshape (fst (insert_variable ls e n v)) /\ wse (snd (insert_variable ls e n v)).
Proof.
  induction ls as [|l r IH]; intros e Hls He Hv; cbn [insert_variable].
  - split; [constructor|apply wse_aset; assumption].
  - inversion Hls; subst. destruct (Nat.eqb (length (lname l)) 0).
    + specialize (IH e ltac:(assumption) He Hv). destruct (insert_variable r e n v) as [r' e']. cbn [fst snd] in *. destruct IH. split; [constructor; assumption|assumption].
    + cbn [fst snd]. split; [constructor; [apply insert_iter_shape; assumption|assumption]|exact He].
Qed.

Lemma pop_loop_shape ls e l rest e' : lshape ls -> wse e -> pop_loop ls e = Some (l, rest, e') ->
  itab (lvars l) (liter l) /\ lshape rest /\ wse e'.
Proof.
  intros Hls He H. destruct ls as [|l0 r]; [discriminate|]. cbn [pop_loop] in H. inversion Hls; subst.
  destruct (Nat.eqb (length (lname l0)) 0).
  - inversion H; subst. auto.
  - pose proof (insert_variable_shape (lname l0) (VMap (lvars l0)) r e ltac:(assumption) He ltac:(apply wsv_tab; eexists; eassumption)) as [K1 K2].
    destruct (insert_variable r e (lname l0) (VMap (lvars l0))) as [r' e'']. inversion H; subst. cbn [fst snd] in *. auto.
Qed.

Lemma enter_loop_shape id nm c ls : lshape (loops c) -> enter_loop id nm c = Some ls -> lshape ls.
Proof.
  intros Hls H. unfold enter_loop in H.
  assert (Hfresh : itab (lvars (fresh_loop id nm c)) (liter (fresh_loop id nm c))) by exact itab_fresh.
  destruct (loops c) as [|l rest] eqn:El.
  - inversion H; subst. constructor; [exact Hfresh|constructor].
  - inversion Hls; subst. destruct (Nat.eqb (lid l) id && Nat.eqb (llevel l) (length (calls c)))%bool.
    + destruct (Nat.eqb (lstart l) (length (matched (cur c)))); [discriminate|]. inversion H; subst. constructor; [|assumption].
      cbn [lvars liter]. apply itab_next. assumption.
    + inversion H; subst. constructor; [exact Hfresh|]. constructor; assumption.
Qed.

Section StepShape.
Variable prog : list instr.
Variable text : bytes.

Definition ShapeInv (c : core) : Prop := wse (cenv c) /\ lshape (loops c).
Definition StateShapeInv (s : state) : Prop :=
  match s with Running c B => ShapeInv c /\ Forall ShapeInv B | _ => True end.

Lemma ShapeInv_same c c' : cenv c' = cenv c -> loops c' = loops c -> ShapeInv c -> ShapeInv c'.
Proof. unfold ShapeInv. intros -> ->. auto. Qed.

Lemma bt_shape B : Forall ShapeInv B -> StateShapeInv (bt B).
Proof. intros H. destruct B as [|c B]; cbn; auto. inversion H; auto. Qed.

Lemma atom_result_shape c B r : ShapeInv c -> Forall ShapeInv B -> StateShapeInv (atom_result text c B r).
Proof. intros Hc HB. destruct r as [p'|]; cbn [atom_result]; [split; [eapply ShapeInv_same; [| |exact Hc]; reflexivity|exact HB]|apply bt_shape; exact HB]. Qed.

Theorem step_shape c B : ShapeInv c -> Forall ShapeInv B -> StateShapeInv (step prog text c B).
Proof.
  intros Hc HB. pose proof Hc as [He Hl].
  assert (Hsame : forall c', cenv c' = cenv c -> loops c' = loops c -> ShapeInv c') by (intros; eapply ShapeInv_same; eauto).
  unfold step. destruct (nth_error prog (pc c)) as [i|]; [|exact I].
  destruct i.
  - apply atom_result_shape; auto.
  - apply atom_result_shape; auto.
  - destruct (alookup (cenv c) n) as [[[|b v]|m]|].
    + split; [apply Hsame; reflexivity|exact HB].
    + apply atom_result_shape; auto.
    + apply bt_shape; auto.
    + apply bt_shape; auto.
  - apply atom_result_shape; auto.
  - split; [apply Hsame; reflexivity|exact HB].
  - destruct bs as [|b0 rest]; [exact I|]. split; [apply Hsame; reflexivity|].
    apply Forall_app. split; [|exact HB]. apply Forall_forall. intros x Hx. apply in_map_iff in Hx.
    destruct Hx as (y & E & _). subst x. apply Hsame; reflexivity.
  - split; [apply Hsame; reflexivity|]. constructor; [apply Hsame; reflexivity|exact HB].
  - destruct B as [|x [|c2 B']]; try exact I. inversion HB as [|? ? _ HB2]; subst. inversion HB2; subst. split; auto.
  - destruct maxsize as [|p|p]; try exact I.
    + destruct (Nat.eqb _ 0); [apply bt_shape; auto|]. split; [apply Hsame; reflexivity|exact HB].
    + destruct (Nat.eqb _ 0); [apply bt_shape; auto|]. split; [apply Hsame; reflexivity|exact HB].
  - destruct (enter_loop id nm c) as [ls|] eqn:Een; [|apply bt_shape; auto].
    pose proof (enter_loop_shape id nm c ls Hl Een) as Hls.
    assert (Hset : forall p ls' e', lshape ls' -> wse e' -> ShapeInv (set_loops c p ls' e')).
    { intros p ls' e' H1 H2. unfold ShapeInv. cbn [set_loops cenv loops]. auto. }
    destruct (Nat.ltb _ mn); [split; [apply Hset; assumption|exact HB]|].
    destruct (within mx _); [|apply bt_shape; auto].
    destruct (pop_loop ls (cenv c)) as [[[l rest] e']|] eqn:Epop; [|exact I].
    destruct (pop_loop_shape _ _ _ _ _ Hls He Epop) as (Hlv & Hrest & He').
    destruct fewest.
    + split; [apply Hset; assumption|]. constructor; [apply Hset; assumption|exact HB].
    + split; [apply Hset; [constructor; assumption|assumption]|]. constructor; [apply Hset; assumption|exact HB].
  - split; [apply Hsame; reflexivity|exact HB].
  - split; [apply Hsame; reflexivity|exact HB].
  - destruct (vars c) as [|[m st] vs]; [exact I|]. destruct (bytes_eqb m n); [|exact I].
    pose proof (insert_variable_shape n (VStr (skipn st (matched (cur c)))) (loops c) (cenv c) Hl He (ws_str _)) as [H1 H2].
    destruct (insert_variable (loops c) (cenv c) n _) as [ls' e']. cbn [fst snd] in *.
    split; [|exact HB]. unfold ShapeInv. cbn [cenv loops]. auto.
  - destruct (calls c) as [|[i0 r0] K].
    + split; [apply Hsame; reflexivity|exact HB].
    + destruct (Nat.eqb i0 id); (split; [apply Hsame; reflexivity|exact HB]).
  - destruct (calls c) as [|[i0 r0] K]; [exact I|].
    destruct validate as [|s0 ss].
    + split; [apply Hsame; reflexivity|exact HB].
    + destruct (run_program _ _ _) as [v| |]; try exact I.
      destruct (get_boolean v); [split; [apply Hsame; reflexivity|exact HB]|apply bt_shape; auto].
  - split; [apply Hsame; reflexivity|exact HB].
Qed.

Theorem run_shape fuel : forall s, StateShapeInv s -> forall c, run prog text fuel s = Matched c -> ShapeInv c.
Proof.
  induction fuel as [|f IH]; intros s Hs c H; destruct s as [c0 B| | |]; cbn [run] in H; try discriminate.
  - destruct (Nat.leb _ _); [|discriminate]. inversion H; subst. apply Hs.
  - destruct (Nat.leb _ _); [inversion H; subst; apply Hs|].
    eapply IH; [|exact H]. destruct Hs. apply step_shape; auto.
Qed.

End StepShape.

(* every match of every command, any program, any window, any text *)
Theorem find_matches_vars_shape vmfuel prog text all skip take last R :
  find_matches vmfuel prog text all skip take last = SOk R -> Forall (fun m => wse (mvars m)) R.
Proof.
  unfold find_matches. destruct (Nat.eqb (length text) 0); [intros H; inversion H; constructor|].
  destruct (Nat.eqb (length prog) 0); [intros H; inversion H; constructor|].
  intros H. eapply scan_all; [|exact H|constructor].
  intros off ln cl c num Ha. unfold attempt in Ha. cbn [make_match mvars].
  assert (Hinit : StateShapeInv (Running (init_core off ln cl) [])) by (split; [split; [exact wse_nil|constructor]|constructor]).
  destruct (run_shape prog text vmfuel _ Hinit c Ha) as [He _]. exact He.
Qed.

(* what the shape says, spelled out *)
Theorem wsv_meaning v : wsv v <->
  match v with
  | VStr _ => True
  | VMap t => exists k, (forall i, i <= k -> exists e, alookup t (itoa_nat i) = Some (VMap e) /\ wse e) /\
                        NoDup (map fst t) /\
                        (forall key x, In (key, x) t -> exists i e, i <= k /\ key = itoa_nat i /\ x = VMap e /\ wse e)
  end.
Proof.
  destruct v as [s|t]; [split; [exact (fun _ => I)|intros _; constructor]|]. rewrite wsv_tab. split.
  - intros (k & H1 & Hn & H2). exists k. split; [|split; [exact Hn|]].
    + intros i Hi. destruct (H1 i Hi) as (e & E). exists e. split; [exact E|]. destruct (itab_entry t k _ _ (conj H1 (conj Hn H2)) E) as (e' & Ee & He). inversion Ee; subst. exact He.
    + intros key x Hin. rewrite Forall_forall in H2. destruct (H2 _ Hin) as (i & e & Hi & Hk & Hx & He). cbn in Hk, Hx. eauto 8.
  - intros (k & H1 & Hn & H2). exists k. split; [|split; [exact Hn|]].
    + intros i Hi. destruct (H1 i Hi) as (e & E & _). eauto.
    + apply Forall_forall. intros [key x] Hin. destruct (H2 key x Hin) as (i & e & Hi & Hk & Hx & He). exists i, e. cbn. auto.
Qed.
