(* C08 (parser part): on every token list of the shape the lexer produces (exactly one EOF, at the
   end) the parser never indexes past the end of the slice (PCrash) and never needs more fuel than
   the model gives it (PFuel): it returns a syntax tree or a parse error. *)
From Model Require Import Parser.
From Proofs Require Import RegexTotal.
From Coq Require Import Lia.

Definition idx2 {A} (r : A * nat) : nat := snd r.

Lemma teq_true a b : teq a b = true -> a = b.
Proof. apply internal_ttype_dec_bl. Qed.

Section ParseTotal.
Variable toks : list token.
Variable last : nat.
Hypothesis Hlast : forall i, i <= last -> exists t, nth_error toks i = Some t /\ (ttyp t = EOF <-> i = last).
Hypothesis Hlen : length toks = S last.

Notation ty := (ty toks).
Notation lx := (lx toks).

Lemma ty_safe i : i <= last -> safe (ty i) (fun t => (t <> EOF -> S i <= last) /\ (t = EOF -> i = last)).
Proof.
  intros Hi. destruct (Hlast i Hi) as (t & Ht & He). unfold Parser.ty. rewrite Ht. cbn.
  split; [|apply He]. intros Hne. assert (i <> last) by (intros E; apply Hne; apply He; exact E). lia.
Qed.

Lemma expect_safe i t : i <= last -> t <> EOF -> safe (expect toks i t) (fun _ => S i <= last).
Proof.
  intros Hi Hne. unfold expect. eapply safe_bind; [apply ty_safe; exact Hi|]. intros t' [Ht' _].
  destruct (teq t' t) eqn:E; [|exact I]. apply teq_true in E. subst t'. cbn. auto.
Qed.

Lemma number_at_safe i : i <= last -> safe (number_at toks i) (fun _ => S i <= last).
Proof.
  intros Hi. unfold number_at. eapply safe_bind; [apply ty_safe; exact Hi|]. intros t [Ht _].
  destruct (teq t NUMBER) eqn:E; [|exact I]. apply teq_true in E. subst t.
  destruct (atoi_int _); [|exact I]. cbn. apply Ht. discriminate.
Qed.

Ltac tys := eapply safe_bind; [apply ty_safe; lia|]; let t := fresh "t" in let Ht := fresh "Ht" in let Hte := fresh "Hte" in intros t [Ht Hte].
Ltac exps := eapply safe_bind; [apply expect_safe; [lia|discriminate]|]; let u := fresh "u" in let Hu := fresh "Hu" in intros u Hu; cbv beta in Hu.
Ltac nums := eapply safe_bind; [apply number_at_safe; lia|]; let v := fresh "v" in let Hv := fresh "Hv" in intros v Hv; cbv beta in Hv.
Ltac teqc := match goal with
             | |- context[teq ?a ?b] => let E := fresh "E" in destruct (teq a b) eqn:E; [apply teq_true in E; try subst a|]
             end.
Ltac adv Ht := let H := fresh "Hadv" in assert (H := Ht); specialize (H ltac:(discriminate)).

Lemma class_after_safe i a b : S i <= last -> safe (class_after toks i a b) (fun r => i < idx2 r <= last).
Proof.
  intros Hi. unfold class_after. tys.
  teqc. { adv Ht. unfold idx2; cbn; lia. }
  teqc. { adv Ht. unfold idx2; cbn; lia. }
  exact I.
Qed.

Lemma pclass_safe i : i <= last -> safe (pclass toks i) (fun r => i < idx2 r <= last).
Proof.
  intros Hi. unfold pclass. tys.
  destruct t; try exact I; adv Ht; try (unfold idx2; cbn; lia); try (apply class_after_safe; lia).
  tys. teqc. { adv Ht0. unfold idx2; cbn; lia. }
  teqc. { adv Ht0. unfold idx2; cbn; lia. }
  teqc. { adv Ht0. unfold idx2; cbn; lia. }
  exact I.
Qed.

Lemma plistable_safe i : i <= last -> safe (plistable toks i) (fun r => i < idx2 r <= last).
Proof.
  intros Hi. unfold plistable. tys.
  teqc.
  { adv Ht. tys. destruct (teq t TO) eqn:E; cbn [negb]; [apply teq_true in E; subst t|unfold idx2; cbn; lia].
    adv Ht0. exps. unfold idx2; cbn; lia. }
  teqc. { adv Ht. exps. unfold idx2; cbn; lia. }
  destruct (is_listable_class t) eqn:El; [|exact I].
  eapply safe_bind; [apply pclass_safe; exact Hi|]. intros [c j] Hj. unfold idx2 in *; cbn in *. lia.
Qed.

Lemma pin_rest_safe : forall fuel j, j <= last -> last - j < fuel -> safe (pin_rest toks fuel j) (fun r => j <= idx2 r <= last).
Proof.
  induction fuel as [|f IH]; intros j Hj Hf; [lia|]. cbn [pin_rest]. tys.
  teqc; [|unfold idx2; cbn; lia]. adv Ht.
  eapply safe_bind; [apply plistable_safe; lia|]. intros [l k] Hk. unfold idx2 in Hk; cbn in Hk.
  eapply safe_bind; [apply IH; lia|]. intros [ls m] Hm. unfold idx2 in *; cbn in *. lia.
Qed.

Lemma pin_safe i nt : S i <= last -> safe (pin toks i nt) (fun r => i < idx2 r <= last).
Proof.
  intros Hi. unfold pin.
  eapply safe_bind; [apply plistable_safe; lia|]. intros [l j] Hj. unfold idx2 in Hj; cbn in Hj.
  eapply safe_bind; [apply pin_rest_safe; lia|]. intros [ls k] Hk. unfold idx2 in *; cbn in *. lia.
Qed.

Lemma pnamed_safe j : j <= last -> safe (pnamed toks j) (fun r => j <= idx2 r <= last).
Proof.
  intros Hj. unfold pnamed. tys. teqc; [|unfold idx2; cbn; lia]. adv Ht. tys.
  destruct (teq t IDENTIFIER || teq t STRING)%bool eqn:E; [|exact I].
  assert (t <> EOF) by (intros ->; discriminate). specialize (Ht0 H). unfold idx2; cbn; lia.
Qed.

Lemma pfewest_safe j : j <= last -> safe (pfewest toks j) (fun r => j <= idx2 r <= last).
Proof.
  intros Hj. unfold pfewest. tys. teqc; unfold idx2; cbn; [adv Ht|]; lia.
Qed.

Lemma expr_mutual : forall fuel,
  (forall i g, i <= last -> 4 * (last - i) + 3 <= fuel -> safe (parse_expr toks fuel i g) (fun r => i < idx3 r <= last)) /\
  (forall i g, i <= last -> 4 * (last - i) + 2 <= fuel -> safe (pprim_or_dec toks fuel i g) (fun r => i < idx3 r <= last)) /\
  (forall i g, i <= last -> 4 * (last - i) + 2 <= fuel -> safe (por_or toks fuel i g) (fun r => i < idx3 r <= last)) /\
  (forall i g, i <= last -> 4 * (last - i) + 1 <= fuel -> safe (plit toks fuel i g) (fun r => i < idx3 r <= last)) /\
  (forall stop i g, i <= last -> 4 * (last - i) + 4 <= fuel -> safe (parse_exprs toks fuel stop i g) (fun r => i <= idx3 r <= last)).
Proof.
  induction fuel as [|f (IE & IPD & IOO & IL & IES)].
  { repeat split; intros; lia. }
  repeat split.
  - (* parse_expr *)
    intros i g Hi Hf. cbn [parse_expr]. tys.
    destruct t; try exact I; try (adv Ht; apply IPD; lia).
    + (* REGEXP *) adv Ht.
      eapply safe_bind; [apply parse_regexp_safe|]. intros [e g1] _. unfold idx3; cbn. lia.
    + (* OPENCURLY *) adv Ht.
      eapply safe_bind; [apply IES; lia|]. intros [[es j] g1] Hj. unfold idx3 in Hj; cbn in Hj.
      exps. exps. exps. unfold idx3; cbn. lia.
    + (* NOT *) adv Ht. tys. teqc.
      * adv Ht0. eapply safe_bind; [apply pin_safe; lia|]. intros [e j] Hj. unfold idx2, idx3 in *; cbn in *. lia.
      * apply IPD; lia.
    + (* AT *) adv Ht. tys.
      destruct (teq t LEAST || teq t MOST)%bool eqn:E; cbn [negb]; [|exact I].
      assert (Hne : t <> EOF) by (intros ->; discriminate). specialize (Ht0 Hne).
      nums.
      eapply safe_bind; [apply IE; lia|]. intros [[e j] g1] Hj. unfold idx3 in Hj; cbn in Hj.
      eapply safe_bind; [apply pfewest_safe; lia|]. intros [few j1] Hj1. unfold idx2 in Hj1; cbn in Hj1.
      eapply safe_bind; [apply pnamed_safe; lia|]. intros [nm j2] Hj2. unfold idx2, idx3 in *; cbn in *. lia.
    + (* BETWEEN *) adv Ht. nums. exps. nums.
      eapply safe_bind; [apply IE; lia|]. intros [[e j] g1] Hj. unfold idx3 in Hj; cbn in Hj.
      eapply safe_bind; [apply pfewest_safe; lia|]. intros [few j1] Hj1. unfold idx2 in Hj1; cbn in Hj1.
      eapply safe_bind; [apply pnamed_safe; lia|]. intros [nm j2] Hj2. unfold idx2, idx3 in *; cbn in *. lia.
    + (* EXACTLY *) adv Ht. nums.
      eapply safe_bind; [apply IE; lia|]. intros [[e j] g1] Hj. unfold idx3 in Hj; cbn in Hj.
      eapply safe_bind; [apply pnamed_safe; lia|]. intros [nm j2] Hj2. unfold idx2, idx3 in *; cbn in *. lia.
    + (* MAYBE *) adv Ht.
      eapply safe_bind; [apply IE; lia|]. intros [[e j] g1] Hj. unfold idx3 in Hj; cbn in Hj.
      eapply safe_bind; [apply pfewest_safe; lia|]. intros [few j1] Hj1. unfold idx2, idx3 in *; cbn in *. lia.
    + (* IN *) adv Ht.
      eapply safe_bind; [apply pin_safe; lia|]. intros [e j] Hj. unfold idx2, idx3 in *; cbn in *. lia.
  - (* pprim_or_dec *)
    intros i g Hi Hf. cbn [pprim_or_dec].
    eapply safe_bind; [apply IL; lia|]. intros [[l j] g1] Hj. unfold idx3 in Hj; cbn in Hj.
    tys. teqc. { adv Ht. exps. unfold idx3; cbn; lia. }
    teqc. { adv Ht. eapply safe_bind; [apply IOO; lia|]. intros [[r k] g2] Hk. unfold idx3 in *; cbn in *. lia. }
    unfold idx3; cbn; lia.
  - (* por_or *)
    intros i g Hi Hf. cbn [por_or].
    eapply safe_bind; [apply IL; lia|]. intros [[l j] g1] Hj. unfold idx3 in Hj; cbn in Hj.
    tys. teqc. { adv Ht. eapply safe_bind; [apply IOO; lia|]. intros [[r k] g2] Hk. unfold idx3 in *; cbn in *. lia. }
    unfold idx3; cbn; lia.
  - (* plit *)
    intros i g Hi Hf. cbn [plit]. tys.
    teqc. { adv Ht. unfold idx3; cbn; lia. }
    teqc. { adv Ht. exps. unfold idx3; cbn; lia. }
    teqc. { adv Ht. unfold idx3; cbn; lia. }
    teqc. { adv Ht. eapply safe_bind; [apply IES; lia|]. intros [[es j] g1] Hj. unfold idx3 in Hj; cbn in Hj.
            exps. unfold idx3; cbn; lia. }
    teqc. { adv Ht. tys. teqc. { adv Ht0. unfold idx3; cbn; lia. }
            destruct (is_class_tok t) eqn:Ec; [|exact I].
            eapply safe_bind; [apply pclass_safe; lia|]. intros [c j] Hj. unfold idx2, idx3 in *; cbn in *. lia. }
    destruct (is_class_tok t) eqn:Ec; [|exact I].
    eapply safe_bind; [apply pclass_safe; lia|]. intros [c j] Hj. unfold idx2, idx3 in *; cbn in *. lia.
  - (* parse_exprs *)
    intros stop i g Hi Hf. cbn [parse_exprs]. tys.
    destruct (stop t); [unfold idx3; cbn; lia|].
    eapply safe_bind; [apply IE; lia|]. intros [[e j] g1] Hj. unfold idx3 in Hj; cbn in Hj.
    eapply safe_bind; [apply IES; lia|]. intros [[es k] g2] Hk. unfold idx3 in *; cbn in *. lia.
Qed.

Definition exprs_safe := fun fuel => proj2 (proj2 (proj2 (proj2 (expr_mutual fuel)))).

(* ---- transform expressions ---- *)
Lemma expr_tokens_spec : forall l i et next, expr_tokens l i = (et, next) ->
  i <= next <= i + length l /\ length et <= next - i /\
  (next < i + length l -> exists t, nth_error l (next - i) = Some t /\ is_expr_end (ttyp t) = true) /\
  (next = i + length l -> forall t, In t l -> teq (ttyp t) WS = false -> In t et) /\
  (et <> [] -> i < next).
Proof.
  induction l as [|t r IH]; intros i et next H; cbn [expr_tokens] in H.
  - inversion H; subst. cbn. repeat split; intros; try lia; try contradiction; try congruence.
  - destruct (is_expr_end (ttyp t)) eqn:Ee.
    + inversion H; subst. cbn [length]. split; [lia|]. split; [cbn; lia|]. split; [|split].
      * intros _. exists t. rewrite Nat.sub_diag. cbn. auto.
      * intros Hn. lia.
      * congruence.
    + destruct (teq (ttyp t) WS) eqn:Ew.
      * apply IH in H. destruct H as (H1 & H2 & H3 & H4 & H5). cbn [length]. split; [lia|]. split; [lia|]. split; [|split].
        -- intros Hn. destruct H3 as (x & Hx & Hy); [lia|]. exists x. split; [|exact Hy].
           replace (next - i) with (S (next - S i)) by lia. exact Hx.
        -- intros Hn x [Hx|Hx] Hw; [subst x; congruence|]. apply H4; auto. lia.
        -- intros Hne. specialize (H5 Hne). lia.
      * destruct (expr_tokens r (S i)) as [ts j] eqn:Er. inversion H; subst. apply IH in Er.
        destruct Er as (H1 & H2 & H3 & H4 & H5). cbn [length]. split; [lia|]. split; [lia|]. split; [|split].
        -- intros Hn. destruct H3 as (x & Hx & Hy); [lia|]. exists x. split; [|exact Hy].
           replace (next - i) with (S (next - S i)) by lia. exact Hx.
        -- intros Hn x [Hx|Hx] Hw; [subst x; left; reflexivity|]. right. apply H4; auto. lia.
        -- intros _. lia.
Qed.

Section Pratt.
Variable et : list token.
Hypothesis Hne : et <> [].

(* every token between a and b was used as an operand, operator or parenthesis: none is EOF *)
Definition consumed (a b : nat) : Prop := forall k t, a <= k < b -> nth_error et k = Some t -> ttyp t <> EOF.

Lemma consumed_join a b c : consumed a b -> consumed b c -> consumed a c.
Proof. intros H1 H2 k t Hk Ht. destruct (Nat.lt_ge_cases k b); [eapply H1|eapply H2]; eauto; lia. Qed.

Lemma consumed_one a t : nth_error et a = Some t -> ttyp t <> EOF -> consumed a (S a).
Proof. intros Ht Hn k t' Hk Ht'. assert (k = a) by lia. subst k. congruence. Qed.

Lemma consumed_nil a : consumed a a.
Proof. intros k t Hk. lia. Qed.

Definition pratt_post (lo : nat) (strict : bool) (r : pexpr * nat) : Prop :=
  (if strict then lo < idx2 r else lo <= idx2 r) /\ idx2 r <= length et /\ consumed lo (idx2 r).

Lemma pratt_mutual : forall fuel,
  (forall idx minp, 2 * (length et - idx) + 2 <= fuel -> safe (pratt et fuel idx minp) (pratt_post idx true)) /\
  (forall lhs ti minp, ti <= length et -> 2 * (length et - ti) + 1 <= fuel -> safe (pratt_loop et fuel lhs ti minp) (pratt_post ti false)).
Proof.
  induction fuel as [|f [IP IL]].
  { split; intros; lia. }
  split.
  - intros idx minp Hf. cbn [pratt].
    destruct (nth_error et idx) as [tk|] eqn:Etk.
    2:{ destruct et; [congruence|exact I]. }
    assert (Hidx : idx < length et) by (apply nth_error_Some; congruence).
    assert (ONE : forall e, ttyp tk <> EOF -> safe (POk (e, S idx)) (pratt_post idx true)).
    { intros e Hn. cbn. unfold pratt_post, idx2; cbn. split; [lia|]. split; [lia|]. eapply consumed_one; eauto. }
    eapply safe_bind with (P := pratt_post idx true).
    + teqc. { apply ONE. rewrite E. discriminate. }
      teqc. { apply ONE. rewrite E0. discriminate. }
      teqc. { apply ONE. rewrite E1. discriminate. }
      teqc. { apply ONE. rewrite E2. discriminate. }
      teqc. { apply ONE. rewrite E3. discriminate. }
      teqc.
      { eapply safe_bind; [apply IP; lia|]. intros [sub n] (Hn & Hle & Hc). unfold idx2 in Hn, Hle, Hc; cbn in Hn, Hle, Hc.
        destruct (nth_error et n) as [c|] eqn:Ec; [|exact I].
        assert (n < length et) by (apply nth_error_Some; congruence).
        destruct (teq (ttyp c) CLOSEPAREN) eqn:Ecp; [|exact I]. apply teq_true in Ecp.
        cbn. unfold pratt_post, idx2; cbn. split; [lia|]. split; [lia|].
        eapply consumed_join; [eapply consumed_one; eauto; rewrite E4; discriminate|].
        eapply consumed_join; [exact Hc|]. eapply consumed_one; eauto. rewrite Ecp. discriminate. }
      destruct (unop_of (ttyp tk)) as [[op rp]|] eqn:Eu; [|exact I].
      eapply safe_bind; [apply IP; lia|]. intros [rhs n] (Hn & Hle & Hc). unfold idx2 in Hn, Hle, Hc; cbn in Hn, Hle, Hc.
      cbn. unfold pratt_post, idx2; cbn. split; [lia|]. split; [lia|].
      eapply consumed_join; [eapply consumed_one; eauto|exact Hc].
      destruct (ttyp tk); cbn in Eu; discriminate.
    + intros [lhs ti] (Hti & Hle & Hc). unfold idx2 in Hti, Hle, Hc; cbn in Hti, Hle, Hc.
      eapply safe_weaken; [apply IL; lia|]. intros [e k] (Hk & Hkl & Hck). unfold pratt_post, idx2 in *; cbn in *.
      split; [lia|]. split; [lia|]. eapply consumed_join; eauto.
  - intros lhs ti minp Hti Hf. cbn [pratt_loop].
    assert (NIL : safe (POk (lhs, ti)) (pratt_post ti false)).
    { cbn. unfold pratt_post, idx2; cbn. split; [lia|]. split; [lia|]. apply consumed_nil. }
    destruct (nth_error et ti) as [tk|] eqn:Etk; [|exact NIL].
    assert (Hlt : ti < length et) by (apply nth_error_Some; congruence).
    destruct (teq (ttyp tk) CLOSEPAREN); [exact NIL|].
    destruct (binop_of (ttyp tk)) as [[[op lp] rp]|] eqn:Eb; [|exact I].
    destruct (lp <? minp); [exact NIL|].
    eapply safe_bind; [apply IP; lia|]. intros [rhs n] (Hn & Hle & Hc). unfold idx2 in Hn, Hle, Hc; cbn in Hn, Hle, Hc.
    eapply safe_weaken; [apply IL; lia|]. intros [e k] (Hk & Hkl & Hck). unfold pratt_post, idx2 in *; cbn in *.
    split; [lia|]. split; [lia|].
    eapply consumed_join; [eapply consumed_one; eauto|eapply consumed_join; eauto].
    destruct (ttyp tk); cbn in Eb; discriminate.
Qed.

End Pratt.

Lemma nth_error_skipn {A} : forall n (l : list A) k, nth_error (skipn n l) k = nth_error l (n + k).
Proof. induction n as [|n IH]; intros [|a l] k; cbn; auto. destruct k; reflexivity. Qed.

Lemma in_skipn {A} (x : A) : forall n l, In x (skipn n l) -> In x l.
Proof. induction n as [|n IH]; intros [|a l] H; cbn in *; auto. Qed.

(* a transform expression ends at a statement keyword that is really there *)
Lemma pprocexpr_safe i : i <= last -> safe (pprocexpr toks i) (fun r => i < idx2 r <= last).
Proof.
  intros Hi. unfold pprocexpr.
  destruct (expr_tokens (skipn i toks) i) as [et next] eqn:Ee.
  apply expr_tokens_spec in Ee. destruct Ee as (H1 & H2 & H3 & H4 & H5).
  rewrite skipn_length, Hlen in *.
  destruct et as [|e0 et'] eqn:Eet.
  - eapply safe_bind with (P := fun _ => True); [|intros; exact I].
    destruct (Nat.le_gt_cases next last) as [Hl|Hg]; [eapply safe_weaken; [apply ty_safe; exact Hl|auto]|].
    exfalso. (* the scan reached the end: the EOF token would have been collected *)
    assert (Hn : next = i + (S last - i)) by lia.
    destruct (Hlast last (Nat.le_refl _)) as (te & Hte & Hee).
    assert (Hin : In te (skipn i toks)).
    { apply nth_error_In with (n := last - i). rewrite nth_error_skipn. replace (i + (last - i)) with last by lia. exact Hte. }
    specialize (H4 Hn te Hin). rewrite (proj2 Hee eq_refl) in H4. specialize (H4 eq_refl). contradiction.
  - rewrite <- Eet in *. assert (Hne : et <> []) by (rewrite Eet; discriminate).
    specialize (H5 Hne).
    eapply safe_bind; [apply (proj1 (pratt_mutual et Hne (2 * length et + 2))); lia|].
    intros [e fi] (Hf1 & Hf2 & Hc). unfold idx2 in Hf1, Hf2, Hc; cbn in Hf1, Hf2, Hc.
    destruct (fi <? length et) eqn:Elt; [exact I|]. apply Nat.ltb_ge in Elt.
    cbn. unfold idx2; cbn. split; [lia|].
    destruct (Nat.le_gt_cases next last) as [Hl|Hg]; [exact Hl|]. exfalso.
    assert (Hn : next = i + (S last - i)) by lia.
    destruct (Hlast last (Nat.le_refl _)) as (te & Hte & Hee).
    assert (Hin : In te (skipn i toks)).
    { apply nth_error_In with (n := last - i). rewrite nth_error_skipn. replace (i + (last - i)) with last by lia. exact Hte. }
    specialize (H4 Hn te Hin). rewrite (proj2 Hee eq_refl) in H4. specialize (H4 eq_refl).
    apply In_nth_error in H4. destruct H4 as [k Hk].
    assert (k < length et) by (apply nth_error_Some; congruence).
    apply (Hc k te); [lia|exact Hk|]. apply Hee. reflexivity.
Qed.

Lemma stmt_mutual : forall fuel,
  (forall i, i <= last -> 2 * (last - i) + 2 <= fuel -> safe (parse_stmts toks fuel i) (fun r => i <= idx2 r <= last)) /\
  (forall i, i <= last -> 2 * (last - i) + 1 <= fuel ->
     safe (parse_stmt toks fuel i) (fun r => match fst r with Some _ => i < idx2 r <= last | None => idx2 r = i end)).
Proof.
  induction fuel as [|f [ISS IS]].
  { split; intros; lia. }
  split.
  - intros i Hi Hf. cbn [parse_stmts].
    destruct (S i <? length toks) eqn:El; [|unfold idx2; cbn; lia].
    eapply safe_bind; [apply IS; lia|]. intros [[s|] j] Hj; unfold idx2 in Hj; cbn in Hj.
    + eapply safe_bind; [apply ISS; lia|]. intros [ss k] Hk. unfold idx2 in *; cbn in *. lia.
    + unfold idx2; cbn. lia.
  - intros i Hi Hf. cbn [parse_stmt]. tys.
    destruct t; try exact I; adv Ht; try (unfold idx2; cbn; lia).
    + (* SET *) exps. exps.
      eapply safe_bind; [apply pprocexpr_safe; lia|]. intros [e j] Hj. unfold idx2 in *; cbn in *. lia.
    + (* IF *)
      eapply safe_bind; [apply pprocexpr_safe; lia|]. intros [c j] Hj. unfold idx2 in Hj; cbn in Hj.
      exps.
      eapply safe_bind; [apply ISS; lia|]. intros [tb k] Hk. unfold idx2 in Hk; cbn in Hk.
      tys.
      eapply safe_bind with (P := fun r => k <= idx2 r <= last).
      { teqc; [adv Ht0; eapply safe_weaken; [apply ISS; lia|]; intros [x y]; unfold idx2; cbn; lia|unfold idx2; cbn; lia]. }
      intros [fb k2] Hk2. unfold idx2 in Hk2; cbn in Hk2.
      exps. unfold idx2; cbn. lia.
    + (* DEBUG *)
      eapply safe_bind; [apply pprocexpr_safe; lia|]. intros [e j] Hj. unfold idx2 in *; cbn in *. lia.
    + (* RETURN *)
      eapply safe_bind; [apply pprocexpr_safe; lia|]. intros [e j] Hj. unfold idx2 in *; cbn in *. lia.
    + (* LOOP *)
      eapply safe_bind; [apply ISS; lia|]. intros [b j] Hj. unfold idx2 in Hj; cbn in Hj.
      exps. unfold idx2; cbn. lia.
Qed.

Lemma pamount_safe i : i <= last -> safe (pamount toks i) (fun r => i < idx2 r <= last).
Proof.
  intros Hi. unfold pamount. tys.
  teqc. { adv Ht. unfold idx2; cbn; lia. }
  teqc. { adv Ht. nums. tys. teqc; [adv Ht0; nums|]; unfold idx2; cbn; lia. }
  destruct (teq t TAKE || teq t TOP)%bool eqn:E1.
  { assert (t <> EOF) by (intros ->; discriminate). specialize (Ht H). nums. unfold idx2; cbn; lia. }
  teqc. { adv Ht. nums. unfold idx2; cbn; lia. }
  exact I.
Qed.

Lemma patom_safe i : i <= last -> safe (patom toks i) (fun r => i < idx2 r <= last).
Proof.
  intros Hi. unfold patom. tys.
  teqc. { adv Ht. unfold idx2; cbn; lia. }
  teqc. { adv Ht. exps. unfold idx2; cbn; lia. }
  teqc. { adv Ht. unfold idx2; cbn; lia. }
  exact I.
Qed.

Lemma patoms_safe : forall fuel i, i <= last -> last - i < fuel -> safe (patoms toks fuel i) (fun r => i < idx2 r <= last).
Proof.
  induction fuel as [|f IH]; intros i Hi Hf; [lia|]. cbn [patoms].
  eapply safe_bind; [apply patom_safe; exact Hi|]. intros [a j] Hj. unfold idx2 in Hj; cbn in Hj.
  tys. destruct (stop_cmd t); [unfold idx2; cbn; lia|].
  eapply safe_bind; [apply IH; lia|]. intros [r k] Hk. unfold idx2 in *; cbn in *. lia.
Qed.

Lemma sub_fuel_ok i : 4 * (last - i) + 4 <= sub_fuel toks.
Proof. unfold sub_fuel. rewrite Hlen. lia. Qed.

Lemma stmts_fuel_ok i : 2 * (last - i) + 2 <= sub_fuel toks.
Proof. unfold sub_fuel. rewrite Hlen. lia. Qed.

Lemma pcommand_safe : forall fuel i g, i <= last -> last - i < fuel ->
  safe (pcommand toks fuel i g) (fun r => match fst (fst r) with Some _ => i < idx3 r <= last | None => i = last end).
Proof.
  induction fuel as [|f IH]; intros i g Hi Hf; [lia|]. cbn [pcommand]. tys.
  pose proof sub_fuel_ok as SF. pose proof stmts_fuel_ok as SF2.
  destruct t; try exact I.
  - (* EOF *) unfold idx3; cbn. apply Hte; reflexivity.
  - (* FIND *) adv Ht.
    eapply safe_bind; [apply pamount_safe; lia|]. intros [[[[all sk] tk] la] j] Hj. unfold idx2 in Hj; cbn in Hj.
    eapply safe_bind; [apply exprs_safe; [lia|apply SF]|]. intros [[es k] g1] Hk. unfold idx3 in *; cbn in *. lia.
  - (* REPLACE *) adv Ht.
    eapply safe_bind; [apply pamount_safe; lia|]. intros [[[[all sk] tk] la] j] Hj. unfold idx2 in Hj; cbn in Hj.
    eapply safe_bind; [apply exprs_safe; [lia|apply SF]|]. intros [[es k] g1] Hk. unfold idx3 in Hk; cbn in Hk.
    exps.
    eapply safe_bind; [apply patoms_safe; [lia|rewrite Hlen; lia]|]. intros [ats m] Hm. unfold idx2, idx3 in *; cbn in *. lia.
  - (* SET *) adv Ht. exps. exps. tys.
    teqc.
    { adv Ht0. eapply safe_bind; [apply exprs_safe; [lia|apply SF]|]. intros [[es j] g1] Hj. unfold idx3 in Hj; cbn in Hj.
      tys. destruct (teq t BEGIN) eqn:Eb; cbn [negb]; [|unfold idx3; cbn; lia].
      apply teq_true in Eb; subst t. adv Ht1.
      eapply safe_bind; [apply (proj1 (stmt_mutual (sub_fuel toks))); [lia|apply SF2]|]. intros [ss k] Hk. unfold idx2 in Hk; cbn in Hk.
      exps. unfold idx3; cbn. lia. }
    teqc.
    { adv Ht0. eapply safe_bind; [apply IH; lia|]. intros [[[c|] j] g1] Hj; unfold idx3 in Hj; cbn in Hj; [unfold idx3; cbn; lia|exact I]. }
    teqc; [|exact I].
    adv Ht0. tys.
    eapply safe_bind with (P := fun r => S (S (S (S i))) <= idx2 r <= last).
    { destruct (teq t BEGIN) eqn:Eb.
      - apply teq_true in Eb; subst t. adv Ht1.
        eapply safe_weaken; [apply (proj1 (stmt_mutual (sub_fuel toks))); [lia|apply SF2]|]. intros [x y]; unfold idx2; cbn; lia.
      - eapply safe_weaken; [apply (proj1 (stmt_mutual (sub_fuel toks))); [lia|apply SF2]|]. intros [x y]; unfold idx2; cbn; lia. }
    intros [ss j] Hj. unfold idx2 in Hj; cbn in Hj. exps. unfold idx3; cbn. lia.
Qed.

Lemma pcommands_safe : forall fuel i g, i <= last -> last - i < fuel -> safe (pcommands toks fuel i g) (fun _ => True).
Proof.
  induction fuel as [|f IH]; intros i g Hi Hf; [lia|]. cbn [pcommands].
  destruct (S i <? length toks) eqn:El; [|exact I].
  apply Nat.ltb_lt in El. rewrite Hlen in El.
  eapply safe_bind; [apply pcommand_safe; [lia|rewrite Hlen; lia]|]. intros [[oc j] g1] Hj. unfold idx3 in Hj; cbn in Hj.
  destruct oc as [c|]; [|lia].
  eapply safe_bind; [apply IH; lia|]. intros; exact I.
Qed.

End ParseTotal.

Lemma filter_app_single (f : token -> bool) body e : filter f (body ++ [e]) = filter f body ++ (if f e then [e] else []).
Proof. rewrite filter_app. reflexivity. Qed.

(* C08, parser: on the token list of any source the parser returns a tree or an error *)
Theorem parse_total_lemma ts :
  (exists body e, ts = body ++ [e] /\ ttyp e = EOF /\ Forall (fun t => ttyp t <> EOF) body) ->
  safe (parse ts) (fun _ => True).
Proof.
  intros (body & e & -> & He & Hb). unfold parse.
  rewrite filter_app_single. unfold significant at 2. rewrite He. cbn [teq ttype_beq orb negb].
  set (fb := filter significant body).
  assert (Hfb : Forall (fun t => ttyp t <> EOF) fb).
  { rewrite Forall_forall in *. intros t Ht. apply filter_In in Ht. destruct Ht as [Ht _]. exact (Hb t Ht). }
  apply pcommands_safe with (last := length fb).
  - intros i Hi. destruct (Nat.eq_dec i (length fb)) as [->|Hn].
    + exists e. split; [rewrite nth_error_app2, Nat.sub_diag; [reflexivity|lia]|]. split; auto.
    + assert (Hlt : i < length fb) by lia.
      destruct (nth_error fb i) as [t|] eqn:Et; [|apply nth_error_None in Et; lia].
      exists t. split; [rewrite nth_error_app1; assumption|].
      split; [|intros; lia]. intros Hte. exfalso.
      apply nth_error_In in Et. rewrite Forall_forall in Hfb. exact (Hfb t Et Hte).
  - rewrite app_length. cbn. lia.
  - lia.
  - rewrite app_length. cbn. lia.
Qed.
