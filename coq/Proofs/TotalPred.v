(* C10 with predicates: the specification stays total on call-free patterns whose subroutines carry
   predicates, provided each predicate's process code returns a value on every match text (process
   loops are outside C10).  With TotalFind: the VM's find all returns. *)
From Model Require Import Engine.
From Spec Require Import Sem FindSpec.
From Proofs Require Import RefineBase RefineRange Refine Attempt FindCorrect Total TotalFind.
From Proofs Require TotalRec.
From Coq Require Import Lia.

Section TotalPred.
Variable text : bytes.
Variable start : nat.
Variable defs : nat -> option (rx * pstmts).
Notation outs := (outs text start defs).
Notation T := (length text).

Notation pred_returns := (TotalRec.pred_returns text start).

Fixpoint simple_p (r : rx) : Prop :=
  match r with
  | XCall _ _ => False
  | XSeq a b | XAlt a b => simple_p a /\ simple_p b
  | XNotIn _ mx => (0 <= mx)%Z
  | XLoop _ _ _ _ nm b => nm = [] /\ simple_p b
  | XDec _ b => simple_p b
  | XSub _ b pred => pred_returns pred /\ simple_p b
  | _ => True
  end.

Theorem outs_total_p r : simple_p r -> forall s, fst s <= T -> exists l, outs r s l.
Proof.
  induction r as [ |i|n|n t|a IHa b IHb|a IHa b IHb|items|items mx|id mn mx fw nm b IHb|n b IHb|n b IHb pred];
    intros Hs s Hle; cbn [simple_p] in Hs.
  - eexists; constructor.
  - eexists; constructor.
  - eexists; constructor.
  - contradiction.
  - destruct Hs as [Ha Hb]. destruct (IHa Ha s Hle) as (la & Hla).
    pose proof (outs_range text start defs _ _ _ (fst s) Hla (Nat.le_refl _) Hle) as Hr.
    destruct (outs_list_total text start defs b (IHb Hb) la) as (lb & Hlb).
    { eapply Forall_impl; [|exact Hr]. intros q [_ H]; exact H. }
    exists lb. econstructor; eauto.
  - destruct Hs as [Ha Hb]. destruct (IHa Ha s Hle) as (la & Hla). destruct (IHb Hb s Hle) as (lb & Hlb).
    exists (la ++ lb). constructor; auto.
  - eexists; constructor.
  - eexists; constructor. exact Hs.
  - destruct Hs as [Hnm Hb]. subst nm.
    destruct (iter_total text start defs id mn mx fw b (IHb Hb) (S (T - fst s)) 0 s ltac:(lia) Hle) as (l & Hl).
    exists l. constructor. exact Hl.
  - destruct (IHb Hs s Hle) as (la & Hla). eexists. constructor. eauto.
  - destruct Hs as [Hp Hb]. destruct (IHb Hb s Hle) as (l & Hl). destruct (TotalRec.filter_pred_total text start pred Hp l) as (l' & Hl').
    exists l'. econstructor; eauto.
Qed.

End TotalPred.

Theorem find_terminates_pred_lemma r text :
  loop_ok r -> (forall start, simple_p text start r) ->
  exists S, sscan r text 0 S /\
  exists F, forall fuel, F <= fuel ->
    exists M, find_matches fuel (compile r 0) text true 0 0 0 = SOk M /\
              map span_of M = S /\ Forall (faithful text) M /\ map mnum M = seq 1 (length M).
Proof.
  intros Hok Hs. apply find_decided_lemma; [exact Hok|].
  intros off Hoff. exact (outs_total_p text off (defs_of r) r (Hs off) (off, []) Hoff).
Qed.
