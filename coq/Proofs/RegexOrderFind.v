(* C14 capstone with the ORDER: from the written regular expression to the list `find all` returns - it is
   the scan of Spec/RegexOrder.v: leftmost start offsets first, at each offset the FIRST end a conventional
   backtracking engine finds, empty matches skipped, the search resumed at the end of each reported match. *)
From Model Require Import Engine.
From Spec Require Import Sem FindSpec Lang RegexSpec RegexLang RegexOrder.
From Proofs Require Import RefineBase RefineRange Refine Attempt FindCorrect Total ResolveOk ResolveShape ParseListsOk
                           LangAtoms LangSound RegexLangSound RegexRoundTrip RegexFind RegexOrderSound.
From Coq Require Import Lia.
Local Open Scope nat_scope.

Definition ends_of (S : list span) : list (nat * nat) := map (fun sp => (sp_start sp, sp_end sp)) S.

Lemma sscan_rscan r d text :
  (forall off, ordered text off (defs_of r) r (rd_ord text d)) ->
  forall off S, sscan r text off S -> rscan text d off (ends_of S).
Proof.
  intros Hord. induction 1 as [off Hend|off l e v rest Hlt Ho Hhd He Hrest IH|off l rest Hlt Ho Hl Hrest IH]; cbn [ends_of map].
  - constructor. exact Hend.
  - apply rs_hit with (l := map fst l); [exact Hlt| | |exact He|exact IH].
    + apply (Hord off (off, []) l); [cbn; lia|exact Ho].
    + destruct l as [|q l']; [discriminate|]. cbn in *. inversion Hhd; subst. reflexivity.
  - apply rs_skip with (l := map fst l); [exact Hlt| | |exact IH].
    + apply (Hord off (off, []) l); [cbn; lia|exact Ho].
    + destruct Hl as [->|(v & l' & ->)]; [left; reflexivity|right; reflexivity].
Qed.

Ltac step H x gx E := lazymatch type of H with gbind ?t _ = _ => destruct t as [[x gx]|] eqn:E; [|discriminate]; cbn [gbind] in H end.

Theorem regex_find_all_order_lemma d g e g' gs rc gs' text :
  wf_disj d [] -> oreg_disj d -> gs_ok gs ->
  parse_regexp (show_disj d) g = POk (e, g') ->
  resolve_exprs (ECons e ENil) 0 gs = GOk (rc, gs') ->
  exists F, forall fuel, F <= fuel ->
    exists M, find_matches fuel (compile rc 0) text true 0 0 0 = SOk M /\
      rscan text d 0 (map (fun m => (mstart m, mend m)) M).
Proof.
  intros Hwf Hreg Hgs Hparse Hres.
  pose proof (parse_regexp_lists (show_disj d) g) as Hlists. rewrite Hparse in Hlists. cbn in Hlists.
  rewrite (regex_roundtrip_lemma d g Hwf) in Hparse. inversion Hparse; subst e g'. clear Hparse.
  cbn [resolve_exprs resolve_expr resolve_lit] in Hres. step Hres r g1 Er. inversion Hres; subst rc gs'. clear Hres.
  assert (Hall : forall off, okr text off (defs_of (XSeq r XEps)) r (rd_ord text d)).
  { intros off. exact (proj2 (proj2 (proj2 (regex_order_mut text off (defs_of (XSeq r XEps))))) d Hreg g 0 gs r g1 Er). }
  destruct (Hall 0) as (_ & Hsimple0 & Hflat).
  assert (Hok : loop_ok (XSeq r XEps)).
  { split; [|exact I]. destruct (proj2 (proj2 resolve_ok_mut) _ Hlists 0 gs r g1 Hgs Er) as [H _]. exact H. }
  assert (Hsimple : simple (XSeq r XEps)) by (split; [assumption|exact I]).
  destruct (sscan_total (XSeq r XEps) text Hsimple (S (length text)) 0 ltac:(lia)) as (S0 & HS).
  destruct (find_correct_lemma (XSeq r XEps) text Hok S0 HS) as (F & HF).
  exists F. intros fuel Hfuel. destruct (HF fuel Hfuel) as (M & HM & Hspans & _ & _). exists M. split; [exact HM|].
  assert (Hord : forall off, ordered text off (defs_of (XSeq r XEps)) (XSeq r XEps) (rd_ord text d)).
  { intros off. apply ordered_seq_eps. exact (proj1 (Hall off)). }
  pose proof (sscan_rscan (XSeq r XEps) d text Hord 0 S0 HS) as HR. rewrite <- Hspans in HR. unfold ends_of in HR. rewrite map_map in HR. exact HR.
Qed.
