(* Multi-step execution of the model VM, the [Run] predicate (the VM reaches, in order, one core
   per outcome of the specification and then backtracks into the untouched rest of the stack),
   and one-step lemmas per instruction. *)
From Model Require Import VM.
From Spec Require Import Sem.
From Proofs Require Import RefineBase.
From Coq Require Import Lia.

Section Exec.
Variable prog : list instr.
Variable text : bytes.
Variables start ln0 cl0 : nat.

Notation step := (step prog text).
Notation cursor_at := (cursor_at text start ln0 cl0).

Inductive steps : state -> state -> Prop :=
| steps_refl s : steps s s
| steps_step c B s' : pc c < length prog -> steps (step c B) s' -> steps (Running c B) s'.

Lemma steps_trans s1 s2 s3 : steps s1 s2 -> steps s2 s3 -> steps s1 s3.
Proof. induction 1; auto. intros. econstructor; eauto. Qed.

Lemma step1 c B s' : pc c < length prog -> step c B = s' -> steps (Running c B) s'.
Proof. intros H E. eapply steps_step; [exact H|]. rewrite E. apply steps_refl. Qed.

Definition code_at (o : nat) (code : list instr) :=
  forall i x, nth_error code i = Some x -> nth_error prog (o + i) = Some x.

Lemma code_at_app o c1 c2 : code_at o (c1 ++ c2) -> code_at o c1 /\ code_at (o + length c1) c2.
Proof.
  unfold code_at; intros H; split; intros i x Hi.
  - apply H. rewrite nth_error_app1; auto. apply nth_error_Some. congruence.
  - rewrite <- Nat.add_assoc. apply H. rewrite nth_error_app2 by lia.
    replace (length c1 + i - length c1) with i by lia. auto.
Qed.

Lemma code_at_cons o x c : code_at o (x :: c) -> nth_error prog o = Some x /\ code_at (S o) c.
Proof.
  unfold code_at; intros H; split.
  - specialize (H 0 x eq_refl). rewrite Nat.add_0_r in H. auto.
  - intros i y Hi. specialize (H (S i) y Hi). rewrite <- plus_n_Sm in H. auto.
Qed.

Lemma nth_lt o x : nth_error prog o = Some x -> o < length prog.
Proof. intros H. apply nth_error_Some. congruence. Qed.

Lemma in_code_length e items : length (flat_map (fun i : instr => [i; IJump e]) items) = 2 * length items.
Proof. induction items as [|i items IH]; cbn [flat_map length app]; [reflexivity|]. rewrite IH. lia. Qed.

Lemma notin_code_length items : forall o, length (notin_code items o) = 3 * length items.
Proof. induction items as [|i items IH]; intros o; cbn [notin_code length]; [reflexivity|]. rewrite IH. lia. Qed.

Lemma compile_length r : forall o, length (compile r o) = rx_len r.
Proof.
  induction r; intros o; cbn [compile rx_len].
  - reflexivity.
  - reflexivity.
  - reflexivity.
  - reflexivity.
  - rewrite app_length, IHr1, IHr2. reflexivity.
  - cbn [length]. repeat (rewrite app_length; cbn [length]). rewrite IHr1, IHr2. lia.
  - cbn [length]. rewrite in_code_length. lia.
  - rewrite app_length, notin_code_length. cbn [length]. lia.
  - cbn [length]. rewrite app_length, IHr. cbn [length]. lia.
  - cbn [length]. rewrite app_length, IHr. cbn [length]. lia.
  - cbn [length]. rewrite app_length, IHr. cbn [length]. lia.
Qed.

Definition ocore (oe : nat) (L : list loopst) (V : list (name * nat)) (K : list (nat * nat)) (s : st) : core :=
  {| pc := oe; cur := cursor_at (fst s); loops := L; vars := V; calls := K; cenv := snd s |}.

Fixpoint Run (s : state) (mk : st -> core) (l : list st) (B : list core) : Prop :=
  match l with
  | [] => steps s (bt B)
  | p :: rest => exists S', steps s (Running (mk p) (S' ++ B)) /\ Run (bt (S' ++ B)) mk rest B
  end.

Lemma Run_steps s s' mk l B : steps s s' -> Run s' mk l B -> Run s mk l B.
Proof.
  destruct l; simpl; intros Hs H.
  - eapply steps_trans; eauto.
  - destruct H as (S' & H1 & H2). exists S'. split; auto. eapply steps_trans; eauto.
Qed.

Lemma Run_app mk l1 : forall s S0 l2 B,
  Run s mk l1 (S0 ++ B) -> Run (bt (S0 ++ B)) mk l2 B -> Run s mk (l1 ++ l2) B.
Proof.
  induction l1 as [|p l1 IH]; simpl; intros s S0 l2 B H1 H2.
  - eapply Run_steps; eauto.
  - destruct H1 as (S' & Hs & Hr). exists (S' ++ S0). rewrite <- app_assoc. split; auto.
    eapply IH; eauto.
Qed.

Lemma Run_map mk1 mk2 (f : st -> st) B l :
  (forall a B', steps (Running (mk1 a) B') (Running (mk2 (f a)) B')) ->
  forall s, Run s mk1 l B -> Run s mk2 (map f l) B.
Proof.
  intros Hf. induction l as [|p l IH]; simpl; intros s H; auto.
  destruct H as (S' & Hs & Hr). exists S'. split; auto.
  eapply steps_trans; [exact Hs|]. apply Hf.
Qed.

Lemma Run_map_in mk1 mk2 (f : st -> st) B l :
  (forall a B', In a l -> steps (Running (mk1 a) B') (Running (mk2 (f a)) B')) ->
  forall s, Run s mk1 l B -> Run s mk2 (map f l) B.
Proof.
  induction l as [|p l IH]; simpl; intros Hf s H; auto.
  destruct H as (S' & Hs & Hr). exists S'. split.
  - eapply steps_trans; [exact Hs|]. apply Hf. auto.
  - apply IH; auto.
Qed.

Lemma Run_map_id mk1 mk2 B l :
  (forall a B', steps (Running (mk1 a) B') (Running (mk2 a) B')) ->
  forall s, Run s mk1 l B -> Run s mk2 l B.
Proof. intros Hf s H. rewrite <- (map_id l). eapply Run_map with (f := fun x => x); eauto. Qed.

(* outcomes filtered by a predicate: kept ones step on, dropped ones backtrack *)
Lemma Run_filter mk1 mk2 pred B l l' :
  filter_pred text start pred l l' ->
  (forall a B', pred_holds text start pred a = Some true -> steps (Running (mk1 a) B') (Running (mk2 a) B')) ->
  (forall a B', pred_holds text start pred a = Some false -> steps (Running (mk1 a) B') (bt B')) ->
  forall s, Run s mk1 l B -> Run s mk2 l' B.
Proof.
  intros Hfp Hk Hd. induction Hfp as [|q l l' Hq _ IH|q l l' Hq _ IH]; intros s H.
  - exact H.
  - cbn [Run] in *. destruct H as (S' & Hs & Hr). exists S'. split; [|apply IH; exact Hr].
    eapply steps_trans; [exact Hs|]. apply Hk. exact Hq.
  - cbn [Run] in H. destruct H as (S' & Hs & Hr).
    eapply Run_steps; [|apply IH; exact Hr].
    eapply steps_trans; [exact Hs|]. apply Hd. exact Hq.
Qed.

(* ---------- one-step lemmas ---------- *)
Lemma step_atom c B i : nth_error prog (pc c) = Some i ->
  (exists nt cl v, i = IMatchLit nt cl v) \/ (exists nt k, i = IMatchClass nt k) \/ (exists nt f t, i = IMatchRange nt f t) ->
  step c B = atom_result text c B (atom_pos text i (pos (cur c))).
Proof.
  intros H [(nt & cl & v & E)|[(nt & k & E)|(nt & f & t & E)]]; subst; unfold VM.step; rewrite H; reflexivity.
Qed.

Lemma step_branch c B b0 rest : nth_error prog (pc c) = Some (IBranch (b0 :: rest)) ->
  step c B = Running (set_pc c b0) (map (set_pc c) rest ++ B).
Proof. intros H. unfold VM.step. rewrite H. reflexivity. Qed.

Lemma step_jump c B t : nth_error prog (pc c) = Some (IJump t) -> step c B = Running (set_pc c t) B.
Proof. intros H. unfold VM.step. rewrite H. reflexivity. Qed.

Lemma step_stop c B id mn mx fw t nm : nth_error prog (pc c) = Some (IStopLoop id mn mx fw t nm) ->
  step c B = Running (set_pc c t) B.
Proof. intros H. unfold VM.step. rewrite H. reflexivity. Qed.

Lemma step_startnotin c B nx : nth_error prog (pc c) = Some (IStartNotIn nx) ->
  step c B = Running (set_pc c (S (pc c))) (set_pc c nx :: B).
Proof. intros H. unfold VM.step. rewrite H. reflexivity. Qed.

Lemma step_failnotin c B : nth_error prog (pc c) = Some IFailNotIn ->
  step c B = match B with _ :: c2 :: B' => Running c2 B' | _ => Failed end.
Proof. intros H. unfold VM.step. rewrite H. reflexivity. Qed.

Lemma step_endnotin c B mx : nth_error prog (pc c) = Some (IEndNotIn mx) -> (0 <= mx)%Z ->
  step c B = let n := consume_len text (pos (cur c)) (Z.to_nat mx) in
             if Nat.eqb n 0 then bt B else Running (advance text c (pos (cur c) + n)) B.
Proof. intros H Hm. unfold VM.step. rewrite H. destruct mx; try reflexivity. lia. Qed.

Lemma step_startvar c B n : nth_error prog (pc c) = Some (IStartVar n) ->
  step c B = Running {| pc := S (pc c); cur := cur c; loops := loops c;
                        vars := (n, length (matched (cur c))) :: vars c; calls := calls c; cenv := cenv c |} B.
Proof. intros H. unfold VM.step. rewrite H. reflexivity. Qed.

Lemma step_call c B n t : nth_error prog (pc c) = Some (ICall n t) ->
  step c B = Running {| pc := t; cur := cur c; loops := loops c; vars := vars c;
                        calls := (t, S (pc c)) :: calls c; cenv := cenv c |} B.
Proof. intros H. unfold VM.step. rewrite H. reflexivity. Qed.

Lemma step_startsub_push c B id n eo : nth_error prog (pc c) = Some (IStartSub id n eo) ->
  match calls c with (i, _) :: _ => i <> id | [] => True end ->
  step c B = Running {| pc := S (pc c); cur := cur c; loops := loops c; vars := vars c;
                        calls := (id, S eo) :: calls c; cenv := cenv c |} B.
Proof.
  intros H Hn. unfold VM.step. rewrite H. destruct (calls c) as [|[i r] K]; auto.
  destruct (Nat.eqb_spec i id); [contradiction|auto].
Qed.

Lemma step_startsub_called c B id n eo r K : nth_error prog (pc c) = Some (IStartSub id n eo) ->
  calls c = (id, r) :: K -> step c B = Running (set_pc c (S (pc c))) B.
Proof. intros H Hk. unfold VM.step. rewrite H, Hk, Nat.eqb_refl. reflexivity. Qed.

Lemma step_endsub_nopred c B n i r K : nth_error prog (pc c) = Some (IEndSub n PNil) -> calls c = (i, r) :: K ->
  step c B = Running {| pc := r; cur := cur c; loops := loops c; vars := vars c; calls := K; cenv := cenv c |} B.
Proof. intros H Hk. unfold VM.step. rewrite H, Hk. reflexivity. Qed.

End Exec.
