(* C10 with recursion: the specification is total on patterns whose recursive calls are GUARDED -
   every call sits, inside the subroutine's body, after something all of whose outcomes consume
   input.  A recursive call then starts strictly further in the text than the call it belongs to,
   so |text| - position bounds the recursion. *)
From Model Require Import Engine.
From Spec Require Import Sem FindSpec.
From Proofs Require Import RefineBase RefineRange Refine Total.
From Coq Require Import Lia.
Local Open Scope nat_scope.

Section TotalRec.
Variable text : bytes.
Variable start : nat.
Variable defs : nat -> option (rx * pstmts).

Notation outs := (outs text start defs).
Notation T := (length text).

(* every outcome lies strictly further in the text *)
Definition consumes (a : rx) : Prop := forall s l, outs a s l -> Forall (fun q => fst s < fst q) l.

(* a literal consumes: its only outcome lies length-of-what-was-read further *)
Lemma literal_consumes nt cl v : consumes (XAtom (IMatchLit nt cl v)).
Proof.
  intros s l H. inversion H; subst. unfold atom_outs. cbn [atom_pos]. unfold match_lit.
  destruct (Atoms.rd text (fst s) (length v)) as [|x xs] eqn:E; [constructor|].
  destruct (xorb _ _); [|constructor]. constructor; [|constructor]. cbn [fst].
  unfold consume_len. rewrite E. cbn [length]. lia.
Qed.

(* a predicate's process code returns (true or false) whatever the state it is asked about; PNil always does *)
Definition pred_returns (pred : pstmts) : Prop := forall q, pred_holds text start pred q <> None.

Lemma pred_returns_nil : pred_returns PNil.
Proof. intros q. cbn. discriminate. Qed.

Lemma filter_pred_total pred : pred_returns pred -> forall l, exists l', filter_pred text start pred l l'.
Proof.
  intros Hp. induction l as [|q l (l' & IH)]; [exists []; constructor|].
  destruct (pred_holds text start pred q) as [[|]|] eqn:E.
  - exists (q :: l'). apply fp_keep; assumption.
  - exists l'. apply fp_drop; assumption.
  - exfalso. exact (Hp q E).
Qed.

(* calls only of defined subroutines; unnamed loops; predicates that return *)
Fixpoint callok (r : rx) : Prop :=
  match r with
  | XCall _ t => exists b p, defs t = Some (b, p)
  | XSeq a b | XAlt a b => callok a /\ callok b
  | XNotIn _ mx => (0 <= mx)%Z
  | XLoop _ _ _ _ nm b => nm = [] /\ callok b
  | XDec _ b => callok b
  | XSub _ b pred => pred_returns pred /\ callok b
  | _ => True
  end.

(* guarded: a call occurs only behind something that consumes *)
Fixpoint guarded (r : rx) : Prop :=
  match r with
  | XCall _ _ => False
  | XSeq a b => guarded a /\ (guarded b \/ (consumes a /\ callok b))
  | XAlt a b => guarded a /\ guarded b
  | XNotIn _ mx => (0 <= mx)%Z
  | XLoop _ _ _ _ nm b => nm = [] /\ guarded b
  | XDec _ b => guarded b
  | XSub _ b pred => pred_returns pred /\ guarded b
  | _ => True
  end.

(* every subroutine body is guarded *)
Hypothesis Hdefs : forall t b p, defs t = Some (b, p) -> pred_returns p /\ guarded b /\ callok b.

Definition total_upto (k : nat) (r : rx) : Prop := forall s, fst s <= T -> T - fst s <= k -> exists l, outs r s l.

Lemma outs_list_upto k b : total_upto k b ->
  forall la, Forall (fun q : st => fst q <= T /\ T - fst q <= k) la -> exists lb, outs_list text start defs b la lb.
Proof.
  intros Hb. induction la as [|s la IH]; intros H.
  - exists []. constructor.
  - inversion H as [|? ? [Hs1 Hs2] Hla]; subst. destruct (Hb s Hs1 Hs2) as (l1 & Ho1). destruct (IH Hla) as (l2 & Ho2).
    exists (l1 ++ l2). constructor; auto.
Qed.

Lemma iter_upto k id mn mx fw b : total_upto k b ->
  forall n c s, T - fst s < n -> fst s <= T -> T - fst s <= k -> exists l, iter text start defs id mn mx fw b c s l.
Proof.
  intros Hb. induction n as [|n IH]; intros c s Hn Hs Hk; [lia|].
  destruct (Nat.lt_ge_cases c mn) as [Hlt|Hge]; [|destruct (within mx c) eqn:Hw].
  3:{ exists []. apply it_over; auto. }
  all: destruct (Hb s Hs Hk) as (la & Hla);
    pose proof (outs_range text start defs _ _ _ (fst s) Hla (Nat.le_refl _) Hs) as Hr;
    assert (His : exists l, iters text start defs id mn mx fw b c s la l).
  1,3: (clear Hla; induction la as [|q la IHla]; [exists []; constructor|];
        inversion Hr as [|? ? [Hq1 Hq2] Hr']; subst;
        destruct (IHla Hr') as (l2 & H2);
        destruct (Nat.eq_dec (fst q) (fst s)) as [Ez|Ez];
        [exists l2; apply is_zero; auto|];
        destruct (IH (S c) q ltac:(lia) Hq2 ltac:(lia)) as (l1 & H1);
        exists (l1 ++ l2); apply is_cons; auto).
  - destruct His as (l & His). exists l. eapply it_min; eauto.
  - destruct His as (l & His). destruct fw.
    + exists (s :: l). eapply it_lazy; eauto.
    + exists (l ++ [s]). eapply it_greedy; eauto.
Qed.

Lemma range_upto k r s la : outs r s la -> fst s <= T -> T - fst s <= k -> Forall (fun q : st => fst q <= T /\ T - fst q <= k) la.
Proof.
  intros Ho Hs Hk. pose proof (outs_range text start defs _ _ _ (fst s) Ho (Nat.le_refl _) Hs) as Hr.
  eapply Forall_impl; [|exact Hr]. intros q [H1 H2]. split; [exact H2|lia].
Qed.

(* the cases shared by both inductions: everything but calls and guarded sequences *)
Lemma guarded_upto k : (forall k', k' < k -> forall r, callok r -> total_upto k' r) -> forall r, guarded r -> total_upto k r.
Proof.
  intros HA. induction r as [ |i|n|n t|a IHa b IHb|a IHa b IHb|items|items mx|id mn mx fw nm b IHb|n b IHb|n b IHb pred];
    intros Hg s Hs Hk; cbn [guarded] in Hg.
  - eexists; constructor.
  - eexists; constructor.
  - eexists; constructor.
  - contradiction.
  - destruct Hg as [Ha Hb]. destruct (IHa Ha s Hs Hk) as (la & Hla).
    destruct Hb as [Hb|[Hc Hb]].
    + destruct (outs_list_upto k b (IHb Hb) la (range_upto k _ _ _ Hla Hs Hk)) as (lb & Hlb). exists lb. econstructor; eauto.
    + (* the continuation runs strictly further: recursion allowed *)
      pose proof (Hc s la Hla) as Hadv. pose proof (range_upto k _ _ _ Hla Hs Hk) as Hr.
      destruct k as [|k'].
      * assert (la = []).
        { destruct la as [|q la']; [reflexivity|]. inversion Hadv as [|? ? Ha1 _]; subst. inversion Hr as [|? ? [Hq1 Hq2] _]; subst. lia. }
        subst la. exists []. econstructor; [exact Hla|constructor].
      * assert (Hr' : Forall (fun q : st => fst q <= T /\ T - fst q <= k') la).
        { apply Forall_forall. intros q Hq. rewrite Forall_forall in Hadv, Hr. specialize (Hadv q Hq). destruct (Hr q Hq) as [Hq1 Hq2]. split; [exact Hq1|lia]. }
        destruct (outs_list_upto k' b (HA k' ltac:(lia) b Hb) la Hr') as (lb & Hlb). exists lb. econstructor; eauto.
  - destruct Hg as [Ha Hb]. destruct (IHa Ha s Hs Hk) as (la & Hla). destruct (IHb Hb s Hs Hk) as (lb & Hlb).
    exists (la ++ lb). constructor; auto.
  - eexists; constructor.
  - eexists; constructor. exact Hg.
  - destruct Hg as [Hnm Hb]. subst nm.
    destruct (iter_upto k id mn mx fw b (IHb Hb) (S (T - fst s)) 0 s ltac:(lia) Hs Hk) as (l & Hl).
    exists l. constructor. exact Hl.
  - destruct (IHb Hg s Hs Hk) as (la & Hla). eexists. constructor. eauto.
  - destruct Hg as [Hp Hb]. destruct (IHb Hb s Hs Hk) as (l & Hl). destruct (filter_pred_total pred Hp l) as (l' & Hl').
    exists l'. econstructor; eauto.
Qed.

Lemma callok_upto k : (forall r, guarded r -> total_upto k r) -> forall r, callok r -> total_upto k r.
Proof.
  intros HB. induction r as [ |i|n|n t|a IHa b IHb|a IHa b IHb|items|items mx|id mn mx fw nm b IHb|n b IHb|n b IHb pred];
    intros Hc s Hs Hk; cbn [callok] in Hc.
  - eexists; constructor.
  - eexists; constructor.
  - eexists; constructor.
  - destruct Hc as (b & p & Hd). destruct (Hdefs t b p Hd) as (Hp & Hg & _).
    destruct (HB b Hg s Hs Hk) as (l & Hl). destruct (filter_pred_total p Hp l) as (l' & Hl'). exists l'. eapply o_call; eauto.
  - destruct Hc as [Ha Hb]. destruct (IHa Ha s Hs Hk) as (la & Hla).
    destruct (outs_list_upto k b (IHb Hb) la (range_upto k _ _ _ Hla Hs Hk)) as (lb & Hlb). exists lb. econstructor; eauto.
  - destruct Hc as [Ha Hb]. destruct (IHa Ha s Hs Hk) as (la & Hla). destruct (IHb Hb s Hs Hk) as (lb & Hlb).
    exists (la ++ lb). constructor; auto.
  - eexists; constructor.
  - eexists; constructor. exact Hc.
  - destruct Hc as [Hnm Hb]. subst nm.
    destruct (iter_upto k id mn mx fw b (IHb Hb) (S (T - fst s)) 0 s ltac:(lia) Hs Hk) as (l & Hl).
    exists l. constructor. exact Hl.
  - destruct (IHb Hc s Hs Hk) as (la & Hla). eexists. constructor. eauto.
  - destruct Hc as [Hp Hb]. destruct (IHb Hb s Hs Hk) as (l & Hl). destruct (filter_pred_total pred Hp l) as (l' & Hl').
    exists l'. econstructor; eauto.
Qed.

Lemma total_all : forall k r, callok r -> total_upto k r.
Proof.
  induction k as [k IH] using lt_wf_ind. intros r Hc.
  apply callok_upto; [|exact Hc]. apply guarded_upto. exact IH.
Qed.

(* C10 with guarded recursion: the specification is defined on every pattern whose calls go to
   guarded subroutines, at every state *)
Theorem outs_total_guarded_lemma r : callok r -> forall s, fst s <= T -> exists l, outs r s l.
Proof. intros Hc s Hs. exact (total_all (T - fst s) r Hc s Hs (Nat.le_refl _)). Qed.

End TotalRec.
