(* C08: Compile, as modelled, returns a program or an error for every sequence of runes. *)
From Model Require Import Front.
From Proofs Require Import LexTotal RegexTotal ParseTotal.

Theorem parse_source_total_lemma src : parse_source src <> FCrash /\ parse_source src <> FHang.
Proof.
  unfold parse_source. destruct (lex src) as [ts|e|] eqn:El.
  - pose proof (parse_total_lemma ts (lex_shape_lemma src ts El)) as H.
    destruct (parse ts); cbn in H; try contradiction; split; discriminate.
  - split; discriminate.
  - exfalso. exact (lex_total_lemma src El).
Qed.

Theorem compile_total_lemma src : compile_source src <> CPanic /\ compile_source src <> CNoReturn.
Proof.
  unfold compile_source. destruct (parse_source_total_lemma src) as [H1 H2].
  destruct (parse_source src); try contradiction; try (split; discriminate).
  destruct (compile_ast p); split; discriminate.
Qed.

(* the syntax tree handed to the generator is a complete tree: the type of programs has no hole,
   and a parse that failed anywhere yields no tree at all *)
Theorem no_partial_tree_lemma src p : parse_source src = FOk p ->
  exists ts, lex src = LexOk ts /\ parse ts = POk p.
Proof.
  unfold parse_source. destruct (lex src) as [ts|e|]; try discriminate.
  destruct (parse ts) eqn:Ep; try discriminate. intros H. inversion H; subst. exists ts. auto.
Qed.
