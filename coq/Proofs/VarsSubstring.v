(* C03 (variables): every string variable of an outcome is a piece of the text lying between the
   start of the attempt and the outcome's position - hence a substring of the match value. *)
From Model Require Import VM.
From Spec Require Import Sem.
From Proofs Require Import RefineBase RefineRange.
From Coq Require Import Lia.

Lemma alookup_aset_other' {A} (m : list (bytes * A)) k k' v : k' <> k -> alookup (aset m k v) k' = alookup m k'.
Proof.
  intros Hne. unfold aset. cbn [alookup]. destruct (bytes_eqb_spec k k'); [congruence|].
  induction m as [|[k0 v0] m IH]; cbn [aremove alookup]; [reflexivity|].
  destruct (bytes_eqb_spec k0 k) as [E|E].
  - subst k0. destruct (bytes_eqb_spec k k'); [congruence|exact IH].
  - cbn [alookup]. destruct (bytes_eqb k0 k'); [reflexivity|exact IH].
Qed.

Lemma alookup_aset_same' {A} (m : list (bytes * A)) k v : alookup (aset m k v) k = Some v.
Proof. unfold aset. cbn [alookup]. rewrite bytes_eqb_refl. reflexivity. Qed.

Section Vars.
Variable text : bytes.
Variable start : nat.
Variable defs : nat -> option (rx * pstmts).

(* the string variables of env are pieces text[a,b) with m <= a <= b <= p *)
Definition vs_ok (m p : nat) (env : Value.env) : Prop :=
  forall n v, alookup env n = Some (VStr v) -> exists a b, m <= a /\ a <= b /\ b <= p /\ v = sub text a b.

Definition vok (m : nat) (q : st) : Prop := vs_ok m (fst q) (snd q).

Lemma vs_mono m p p' env : p <= p' -> vs_ok m p env -> vs_ok m p' env.
Proof. intros Hp H n v Hn. destruct (H n v Hn) as (a & b & A & B & C & D). exists a, b. repeat split; auto; lia. Qed.

Lemma keep_env m s l : Forall (bnd text (fst s)) l -> (forall q, In q l -> snd q = snd s) -> vok m s -> Forall (vok m) l.
Proof.
  intros Hb He Hv. apply Forall_forall. intros q Hq. unfold vok. rewrite (He q Hq).
  eapply Forall_forall in Hb; [|exact Hq]. destruct Hb as [Hb _]. eapply vs_mono; [exact Hb|exact Hv].
Qed.

Lemma atom_outs_env i s q : In q (atom_outs text i s) -> snd q = snd s.
Proof. unfold atom_outs. destruct (atom_pos text i (fst s)); cbn; [intros [<-|[]]; reflexivity|contradiction]. Qed.

Theorem vars_substring_mut :
  (forall r s l, outs text start defs r s l -> forall m, m <= fst s -> fst s <= length text -> vok m s -> Forall (vok m) l) /\
  (forall b la lb, outs_list text start defs b la lb -> forall m, Forall (bnd text m) la -> Forall (vok m) la -> Forall (vok m) lb) /\
  (forall id mn mx fw b c s l, iter text start defs id mn mx fw b c s l ->
     forall m, m <= fst s -> fst s <= length text -> vok m s -> Forall (vok m) l) /\
  (forall id mn mx fw b c s la l, iters text start defs id mn mx fw b c s la l ->
     forall m, m <= fst s -> fst s <= length text -> Forall (bnd text m) la -> Forall (vok m) la -> Forall (vok m) l).
Proof.
  apply outs_mut.
  - (* eps *) intros s m _ _ Hv. constructor; [exact Hv|constructor].
  - (* atom *) intros i s m H1 H2 Hv. apply (keep_env m s); [apply atom_outs_bnd; [lia|exact H2]|apply atom_outs_env|exact Hv].
  - (* ref *) intros n s m H1 H2 Hv. apply (keep_env m s); [| |exact Hv].
    + exact (outs_range text start defs (XRef n) s _ (fst s) (o_ref text start defs n s) (le_n _) H2).
    + intros q. unfold ref_outs. destruct (alookup (snd s) n) as [[[|b v]|]|]; cbn; try contradiction; try (intros [<-|[]]; reflexivity).
      destruct (match_lit text (b :: v) false false (fst s)); cbn; [intros [<-|[]]; reflexivity|contradiction].
  - (* seq *) intros a b s la lb Ha IHa _ IHb m H1 H2 Hv. apply IHb; [exact (outs_range text start defs a s la m Ha H1 H2)|apply IHa; assumption].
  - (* alt *) intros a b s la lb _ IHa _ IHb m H1 H2 Hv. apply Forall_app. split; [apply IHa|apply IHb]; assumption.
  - (* in *) intros items s m H1 H2 Hv. apply (keep_env m s); [| |exact Hv].
    + exact (outs_range text start defs (XIn items) s _ (fst s) (o_in text start defs items s) (le_n _) H2).
    + intros q Hq. apply in_flat_map in Hq. destruct Hq as (i & _ & Hq). eapply atom_outs_env; eauto.
  - (* not in *) intros items mx s Hmx m H1 H2 Hv. apply (keep_env m s); [| |exact Hv].
    + exact (outs_range text start defs (XNotIn items mx) s _ (fst s) (o_notin text start defs items mx s Hmx) (le_n _) H2).
    + intros q. unfold notin_outs. destruct (existsb _ _); [contradiction|]. destruct (Nat.eqb _ 0); cbn; [contradiction|intros [<-|[]]; reflexivity].
  - (* loop *) intros id mn mx fw b s l _ IH m H1 H2 Hv. apply IH; assumption.
  - (* dec *) intros n b s la Hb IH m H1 H2 Hv. specialize (IH m H1 H2 Hv).
    pose proof (outs_range text start defs b s la (fst s) Hb (le_n _) H2) as Hr.
    apply Forall_forall. intros q Hq. apply in_map_iff in Hq. destruct Hq as (q0 & E & Hq0). subst q.
    eapply Forall_forall in IH; [|exact Hq0]. eapply Forall_forall in Hr; [|exact Hq0]. destruct Hr as [Hr1 Hr2].
    unfold vok, bind. cbn [fst snd]. intros n' v Hn'.
    destruct (bytes_eqb_spec n' n) as [->|Hne].
    + rewrite alookup_aset_same' in Hn'. inversion Hn'; subst. exists (fst s), (fst q0). repeat split; auto; lia.
    + rewrite alookup_aset_other' in Hn' by exact Hne. exact (IH n' v Hn').
  - (* sub *) intros n b pred s l l' _ IH Hf m H1 H2 Hv. eapply Forall_filter_pred; [exact Hf|]. apply IH; assumption.
  - (* call *) intros n t b pred s l l' _ _ IH Hf m H1 H2 Hv. eapply Forall_filter_pred; [exact Hf|]. apply IH; assumption.
  - (* outs_list nil *) intros b m _ _. constructor.
  - (* outs_list cons *) intros b s ss l1 l2 _ IH1 _ IH2 m Hb Hv. inversion Hb as [|? ? [Hs1 Hs2] Hss]; subst. inversion Hv as [|? ? Hvs Hvss]; subst.
    apply Forall_app. split; [apply IH1; assumption|apply IH2; assumption].
  - (* iter min *) intros id mn mx fw b c s la l _ Hb IHa _ IHs m H1 H2 Hv.
    apply IHs; auto. exact (outs_range text start defs b s la m Hb H1 H2).
  - (* iter greedy *) intros id mn mx b c s la l _ _ Hb IHa _ IHs m H1 H2 Hv. apply Forall_app. split.
    + apply IHs; auto. exact (outs_range text start defs b s la m Hb H1 H2).
    + constructor; [exact Hv|constructor].
  - (* iter lazy *) intros id mn mx b c s la l _ _ Hb IHa _ IHs m H1 H2 Hv. constructor; [exact Hv|].
    apply IHs; auto. exact (outs_range text start defs b s la m Hb H1 H2).
  - (* iter over *) intros. constructor.
  - (* iters nil *) intros. constructor.
  - (* iters zero *) intros id mn mx fw b c s q qs l _ _ IH m H1 H2 Hb Hv. inversion Hb; subst. inversion Hv; subst. apply IH; auto.
  - (* iters cons *) intros id mn mx fw b c s q qs l1 l2 _ _ IH1 _ IH2 m H1 H2 Hb Hv.
    inversion Hb as [|? ? [Hq1 Hq2] Hqs]; subst. inversion Hv as [|? ? Hvq Hvqs]; subst.
    apply Forall_app. split; [apply IH1; assumption|apply IH2; auto].
Qed.

(* an attempt started at [off] with no variables: every string variable of every outcome is
   text[a,b) with off <= a <= b <= end of the match, i.e. a substring of the match value text[off,end) *)
Theorem vars_substring_lemma r off l : outs text start defs r (off, []) l -> off <= length text ->
  Forall (fun q => forall n v, alookup (snd q) n = Some (VStr v) ->
                   exists a b, off <= a /\ a <= b /\ b <= fst q /\ v = sub text a b) l.
Proof.
  intros H Hoff. apply (proj1 vars_substring_mut r (off, []) l H off); cbn; auto.
  intros n v Hn. discriminate.
Qed.

End Vars.
