(* The parser (and the regex sub-parser) never builds an empty `in` list: the one thing the
   well-formedness theorem of the generator asks of a syntax tree. *)
From Model Require Import Parser.
From Proofs Require Import ResolveOk RegexRoundTrip.
From Coq Require Import Lia.

Definition post {A} (r : pr A) (P : A -> Prop) : Prop := match r with POk a => P a | _ => True end.

Lemma post_bind {A B} (m : pr A) (f : A -> pr B) (P : A -> Prop) (Q : B -> Prop) :
  post m P -> (forall a, P a -> post (f a) Q) -> post (pbind m f) Q.
Proof. destruct m; cbn; auto. Qed.

Lemma post_any {A} (m : pr A) : post m (fun _ => True).
Proof. destruct m; exact I. Qed.

Lemma post_weaken {A} (r : pr A) (P Q : A -> Prop) : post r P -> (forall a, P a -> Q a) -> post r Q.
Proof. destruct r; cbn; auto. Qed.

Ltac pb X := eapply post_bind with (P := X).
Ltac pany := eapply post_bind; [apply post_any|]; intros ? _.

Definition e3 (r : expr * nat * nat) : Prop := lists_ok_e (fst (fst r)).
Definition l3 (r : lit * nat * nat) : Prop := lists_ok_l (fst (fst r)).
Definition es3 (r : exprs * nat * nat) : Prop := lists_ok_es (fst (fst r)).

(* ---- regex literals ---- *)
Section Regex.
Variable re : bytes.

Lemma with_quant_ok' body j g : lists_ok_e body -> post (with_quant re body j g) e3.
Proof.
  intros Hb. unfold with_quant. pany. destruct a as [[[[mn mx] few]|] k]; cbn; exact Hb.
Qed.

Lemma resc_ok i : post (resc re i) (fun r => lists_ok_l (fst r)).
Proof.
  unfold resc. destruct (rc re i) as [c|]; [|exact I].
  repeat match goal with
         | |- post (if ?c then _ else _) _ => destruct c
         | |- post (match rc re ?x with _ => _ end) _ => destruct (rc re x)
         | |- post (let '(_, _) := ?x in _) _ => destruct x
         | |- post PErr _ => exact I
         end.
  all: cbn; repeat split; try exact I; try discriminate.
Qed.

Lemma rclass_ok' i : post (rclass re i) (fun r => lists_ok_e (fst r)).
Proof.
  unfold rclass. destruct (rc re i) as [c0|]; [|exact I]. destruct (_ <=? _)%nat; [exact I|].
  pany. destruct a as [items j]. destruct (_ <=? _)%nat; [exact I|]. cbn. intros _. destruct items; discriminate.
Qed.

Lemma regex_lists_mut : forall fuel,
  (forall i g, post (rdisj re fuel i g) es3) /\
  (forall i g, post (rpattern re fuel i g) e3) /\
  (forall i g, post (rliteral re fuel i g) e3) /\
  (forall i g, post (rgroup re fuel i g) l3).
Proof.
  induction fuel as [|f (ID & IP & IL & IG)]; [repeat split; intros; exact I|].
  repeat split; intros i g.
  - rewrite rdisj_S. destruct (Parser.rc re i) as [c|]; [|cbn; exact I]. destruct (N.eqb c 41); [cbn; exact I|].
    pb e3; [apply IP|]. intros [[e j] g1] He. pb es3; [apply ID|]. intros [[es k] g2] Hes. cbn. split; assumption.
  - rewrite rpattern_S. pb e3; [apply IL|]. intros [[st j] g1] Hs. destruct (rc_is re j 124); [|exact Hs].
    pb e3; [apply IP|]. intros [[e k] g2] He. cbn. split; [split; [exact Hs|exact I]|exact He].
  - rewrite rliteral_S. destruct (Parser.rc re i) as [c|]; [|exact I].
    destruct (N.eqb c 94); [cbn; exact I|]. destruct (N.eqb c 36); [cbn; exact I|].
    destruct (N.eqb c 92). { pb (fun r : lit * nat => lists_ok_l (fst r)); [apply resc_ok|]. intros [l j] Hl. apply with_quant_ok'. exact Hl. }
    destruct (N.eqb c 40). { pb l3; [apply IG|]. intros [[l j] g1] Hl. apply with_quant_ok'. exact Hl. }
    destruct (N.eqb c 91). { pb (fun r : expr * nat => lists_ok_e (fst r)); [apply rclass_ok'|]. intros [e j] He. apply with_quant_ok'. exact He. }
    destruct (N.eqb c 46); apply with_quant_ok'; exact I.
  - rewrite rgroup_S. destruct (Parser.rc re i) as [c|]; [|exact I]. destruct (N.eqb c 63).
    + destruct (Parser.rc re (S i)) as [marker|]; [|exact I].
      destruct (N.eqb marker 58). { pb es3; [apply ID|]. intros [[es j] g1] Hes. destruct (rc_is re j 41); [exact Hes|exact I]. }
      destruct (N.eqb marker 61); [exact I|]. destruct (N.eqb marker 33); [exact I|]. destruct (N.eqb marker 60); [|exact I].
      destruct (Parser.rc re (S (S i))) as [a|]; [|exact I]. destruct (N.eqb a 61); [exact I|]. destruct (N.eqb a 33); [exact I|].
      destruct (rident re _ _ _) as [id j]. destruct (negb _); [exact I|].
      pb es3; [apply ID|]. intros [[es k] g1] Hes. destruct (rc_is re k 41); [|exact I]. cbn. split; [exact Hes|exact I].
    + cbv zeta. pb es3; [apply ID|]. intros [[es j] g1] Hes. destruct (rc_is re j 41); [|exact I]. cbn. split; [exact Hes|exact I].
Qed.

Lemma parse_regexp_lists g : post (parse_regexp re g) (fun r => lists_ok_e (fst r)).
Proof.
  unfold parse_regexp. pb es3; [apply (proj1 (regex_lists_mut _))|]. intros [[es j] g1] Hes. exact Hes.
Qed.

End Regex.

(* ---- the token parser ---- *)
Section Parse.
Variable toks : list token.

Lemma pin_ok i nt : post (pin toks i nt) (fun r => lists_ok_e (fst r)).
Proof.
  unfold pin. pany. destruct a as [l j]. pany. destruct a as [ls k]. cbn. intros _. discriminate.
Qed.

Lemma expr_lists_mut : forall fuel,
  (forall i g, post (parse_expr toks fuel i g) e3) /\
  (forall i g, post (pprim_or_dec toks fuel i g) e3) /\
  (forall i g, post (por_or toks fuel i g) e3) /\
  (forall i g, post (plit toks fuel i g) l3) /\
  (forall stop i g, post (parse_exprs toks fuel stop i g) es3).
Proof.
  induction fuel as [|f (IE & IPD & IOO & IL & IES)]; [repeat split; intros; exact I|].
  repeat split; intros; cbn [parse_expr pprim_or_dec por_or plit parse_exprs].
  - pany. destruct a; try exact I; try apply IPD.
    + (* REGEXP *) pb (fun r : expr * nat => lists_ok_e (fst r)); [apply parse_regexp_lists|]. intros [e g1] He. exact He.
    + (* OPENCURLY *) pb es3; [apply IES|]. intros [[es j] g1] Hes. pany. pany. pany. exact Hes.
    + (* NOT *) pany. destruct (teq a NOT || teq a IN)%bool eqn:E; destruct (teq a IN).
      all: try (pb (fun r : expr * nat => lists_ok_e (fst r)); [apply pin_ok|]; intros [e j] He; exact He).
      all: apply IPD.
    + (* AT *) pany. destruct (negb _); [exact I|]. pany. pb e3; [apply IE|]. intros [[e j] g1] He. pany. destruct a1 as [few j1]. pany. destruct a1 as [nm j2].
      destruct (teq a LEAST); exact He.
    + (* BETWEEN *) pany. pany. pany. pb e3; [apply IE|]. intros [[e j] g1] He. pany. destruct a2 as [few j1]. pany. destruct a2 as [nm j2]. exact He.
    + (* EXACTLY *) pany. pb e3; [apply IE|]. intros [[e j] g1] He. pany. destruct a0 as [nm j2]. exact He.
    + (* MAYBE *) pb e3; [apply IE|]. intros [[e j] g1] He. pany. destruct a as [few j1]. exact He.
    + (* IN *) pb (fun r : expr * nat => lists_ok_e (fst r)); [apply pin_ok|]. intros [e j] He. exact He.
  - pb l3; [apply IL|]. intros [[l j] g1] Hl. pany. destruct (teq a EQUAL); [pany; exact Hl|].
    destruct (teq a OR); [|exact Hl]. pb e3; [apply IOO|]. intros [[r k] g2] Hr. cbn. split; assumption.
  - pb l3; [apply IL|]. intros [[l j] g1] Hl. pany. destruct (teq a OR); [|exact Hl].
    pb e3; [apply IOO|]. intros [[r k] g2] Hr. cbn. split; assumption.
  - pany. destruct (teq a STRING); [exact I|]. destruct (teq a CASELESS); [pany; exact I|]. destruct (teq a IDENTIFIER); [exact I|].
    destruct (teq a OPENPAREN). { pb es3; [apply IES|]. intros [[es j] g1] Hes. pany. exact Hes. }
    destruct (teq a NOT). { pany. destruct (teq a0 STRING); [exact I|]. destruct (is_class_tok a0); [|exact I]. pany. destruct a1. exact I. }
    destruct (is_class_tok a); [|exact I]. pany. destruct a0. exact I.
  - pany. destruct (stop a); [exact I|]. pb e3; [apply IE|]. intros [[e j] g1] He. pb es3; [apply IES|]. intros [[es k] g2] Hes. cbn. split; assumption.
Qed.

Definition exprs_lists fuel := proj2 (proj2 (proj2 (proj2 (expr_lists_mut fuel)))).

Lemma pcommand_lists : forall fuel i g, post (pcommand toks fuel i g) (fun r => match fst (fst r) with Some c => lists_ok_c c | None => True end).
Proof.
  induction fuel as [|f IH]; intros i g; [exact I|]. cbn [pcommand]. pany.
  destruct a; try exact I.
  - (* FIND *) pany. destruct a as [[[[all sk] tk] la] j]. pb es3; [apply exprs_lists|]. intros [[es k] g1] Hes. exact Hes.
  - (* REPLACE *) pany. destruct a as [[[[all sk] tk] la] j]. pb es3; [apply exprs_lists|]. intros [[es k] g1] Hes. pany. pany. destruct a0 as [ats m]. exact Hes.
  - (* SET *) pany. pany. pany. destruct (teq a1 PATTERN).
    { pb es3; [apply exprs_lists|]. intros [[es j] g1] Hes. pany. destruct (negb _); [exact Hes|]. pany. destruct a3 as [ss k]. pany. exact Hes. }
    destruct (teq a1 MATCHES). { pb (fun r : option command * nat * nat => match fst (fst r) with Some c => lists_ok_c c | None => True end); [apply IH|]. intros [[[c|] j] g1] Hc; [exact Hc|exact I]. }
    destruct (teq a1 TRANSFORM); [|exact I]. pany. pany. destruct a3 as [ss j]. pany. exact I.
Qed.

Lemma pcommands_lists : forall fuel i g, post (pcommands toks fuel i g) (Forall lists_ok_c).
Proof.
  induction fuel as [|f IH]; intros i g; [exact I|]. cbn [pcommands]. destruct (_ <? _); [|constructor].
  pb (fun r : option command * nat * nat => match fst (fst r) with Some c => lists_ok_c c | None => True end); [apply pcommand_lists|].
  intros [[oc j] g1] Hc. pb (Forall lists_ok_c); [apply IH|]. intros cs Hcs. destruct oc; [constructor; assumption|exact Hcs].
Qed.

End Parse.

(* every program the parser returns satisfies the hypothesis of C01_generated_patterns_well_formed *)
Theorem parse_lists_ok_lemma ts cs : parse ts = POk cs -> Forall lists_ok_c cs.
Proof. intros H. pose proof (pcommands_lists (filter significant ts) (S (length (filter significant ts))) 0 0) as P. unfold parse in H. rewrite H in P. exact P. Qed.
