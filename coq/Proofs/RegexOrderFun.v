(* The order specification of Spec/RegexOrder.v is a FUNCTION: an expression, a text and a position have at
   most one ordered list of ends, and a text has at most one scan - so the theorems "the engine's result is
   a list the specification allows" determine the result. *)
From Spec Require Import RegexSpec RegexLang RegexOrder.
From Model Require Import Rx.
From Coq Require Import Lia.
Local Open Scope nat_scope.

Scheme ra_ord_min := Minimality for ra_ord Sort Prop
  with rl_ord_min := Minimality for rl_ord Sort Prop
  with rp_ord_min := Minimality for rp_ord Sort Prop
  with rd_ord_min := Minimality for rd_ord Sort Prop
  with rd_each_min := Minimality for rd_each Sort Prop
  with rq_ord_min := Minimality for rq_ord Sort Prop
  with rq_each_min := Minimality for rq_each Sort Prop.
Combined Scheme ord_mutind from ra_ord_min, rl_ord_min, rp_ord_min, rd_ord_min, rd_each_min, rq_ord_min, rq_each_min.

Section Fun.
Variable text : bytes.

Ltac same_bounds := match goal with H1 : quant_bounds ?q = Some _, H2 : quant_bounds ?q = Some _ |- _ => rewrite H1 in H2; inversion H2; subst; clear H2 end.

Theorem ord_fun_mut :
  (forall a p l, ra_ord text a p l -> forall l', ra_ord text a p l' -> l' = l) /\
  (forall x p l, rl_ord text x p l -> forall l', rl_ord text x p l' -> l' = l) /\
  (forall x p l, rp_ord text x p l -> forall l', rp_ord text x p l' -> l' = l) /\
  (forall d p l, rd_ord text d p l -> forall l', rd_ord text d p l' -> l' = l) /\
  (forall d ps l, rd_each text d ps l -> forall l', rd_each text d ps l' -> l' = l) /\
  (forall a mn mx lz c p l, rq_ord text a mn mx lz c p l -> forall l', rq_ord text a mn mx lz c p l' -> l' = l) /\
  (forall a mn mx lz c ps l, rq_each text a mn mx lz c ps l -> forall l', rq_each text a mn mx lz c ps l' -> l' = l).
Proof.
  apply ord_mutind.
  - intros c p l' H. inversion H; reflexivity.
  - intros c p l' H. inversion H; reflexivity.
  - intros p l' H. inversion H; reflexivity.
  - intros neg space p l' H. inversion H; reflexivity.
  - intros neg items p l' H. inversion H; reflexivity.
  - intros k body p l _ IH l' H. inversion H; subst. apply IH. assumption.
  - intros p l' H. inversion H; reflexivity.
  - intros p l' H. inversion H; reflexivity.
  - intros a p l _ IH l' H. inversion H; subst. apply IH. assumption.
  - intros a q lz mn mx p l Hq _ IH l' H. inversion H; subst. same_bounds. apply IH. assumption.
  - intros x p r _ IH l' H. inversion H; subst. apply IH. assumption.
  - intros x r p la lb _ IHa _ IHb l' H. inversion H; subst. f_equal; [apply IHa|apply IHb]; assumption.
  - intros p l' H. inversion H; reflexivity.
  - intros x d p la lb _ IHa _ IHb l' H. inversion H; subst.
    match goal with Hx : rp_ord text x p ?la' |- _ => apply IHa in Hx; subst la' end. apply IHb. assumption.
  - intros d l' H. inversion H; reflexivity.
  - intros d p ps l1 l2 _ IH1 _ IH2 l' H. inversion H; subst. f_equal; [apply IH1|apply IH2]; assumption.
  - (* rq_must *)
    intros a mn mx lz c p la l Hc _ IHa _ IHe l' H. inversion H; subst; try lia.
    match goal with Hx : ra_ord text a p ?la' |- _ => apply IHa in Hx; subst la' end. apply IHe. assumption.
  - (* rq_greedy *)
    intros a mn mx c p la l Hc Hw _ IHa _ IHe l' H. inversion H; subst; try lia; try congruence.
    match goal with Hx : ra_ord text a p ?la' |- _ => apply IHa in Hx; subst la' end. f_equal. apply IHe. assumption.
  - (* rq_lazy *)
    intros a mn mx c p la l Hc Hw _ IHa _ IHe l' H. inversion H; subst; try lia; try congruence.
    match goal with Hx : ra_ord text a p ?la' |- _ => apply IHa in Hx; subst la' end. f_equal. apply IHe. assumption.
  - (* rq_full *)
    intros a mn mx lz c p Hc Hw l' H. inversion H; subst; try lia; try congruence; reflexivity.
  - intros a mn mx lz c l' H. inversion H; reflexivity.
  - intros a mn mx lz c p ps l1 l2 _ IH1 _ IH2 l' H. inversion H; subst. f_equal; [apply IH1|apply IH2]; assumption.
Qed.

Theorem rscan_fun d : forall off S1, rscan text d off S1 -> forall S2, rscan text d off S2 -> S2 = S1.
Proof.
  pose proof (proj1 (proj2 (proj2 (proj2 ord_fun_mut)))) as Hfun.
  induction 1 as [off Hend|off l e rest Hlt Ho Hhd He Hrest IH|off l rest Hlt Ho Hl Hrest IH]; intros S2 H2; inversion H2; subst; try lia.
  - reflexivity.
  - match goal with Hx : rd_ord text d off ?l2 |- _ => apply (Hfun d off l Ho) in Hx; subst l2 end.
    match goal with Hx : hd_error l = Some ?e2 |- _ => rewrite Hhd in Hx; inversion Hx; subst e2 end. f_equal. apply IH. assumption.
  - match goal with Hx : rd_ord text d off ?l2 |- _ => apply (Hfun d off l Ho) in Hx; subst l2 end.
    match goal with Hx : l = [] \/ _ |- _ => destruct Hx as [->|Hx]; [discriminate|rewrite Hhd in Hx; inversion Hx; lia] end.
  - match goal with Hx : rd_ord text d off ?l2 |- _ => apply (Hfun d off l Ho) in Hx; subst l2 end.
    match goal with Hx : hd_error l = Some ?e2, Hy : off < ?e2 |- _ => destruct Hl as [->|Hl]; [discriminate|rewrite Hl in Hx; inversion Hx; lia] end.
  - apply IH. assumption.
Qed.

(* no end lies before the start; none AT the start when the expression is not nullable *)
Lemma Forall_le_lt m (l : list nat) : Forall (lt m) l -> Forall (le m) l.
Proof. apply Forall_impl. intros; lia. Qed.

Theorem ord_advances_mut :
  (forall a p l, ra_ord text a p l -> Forall (le p) l /\ (nn_atom a = true -> Forall (lt p) l)) /\
  (forall x p l, rl_ord text x p l -> Forall (le p) l /\ (nn_lit x = true -> Forall (lt p) l)) /\
  (forall x p l, rp_ord text x p l -> Forall (le p) l /\ (nn_pat x = true -> Forall (lt p) l)) /\
  (forall d p l, rd_ord text d p l -> Forall (le p) l /\ (nn_disj d = true -> Forall (lt p) l)) /\
  (forall d ps l, rd_each text d ps l -> forall m, (Forall (le m) ps -> Forall (le m) l) /\ (Forall (lt m) ps -> Forall (lt m) l) /\
                                                   (nn_disj d = true -> Forall (le m) ps -> Forall (lt m) l)) /\
  (forall a mn mx lz c p l, rq_ord text a mn mx lz c p l -> Forall (le p) l /\ (nn_atom a = true -> c < mn -> Forall (lt p) l)) /\
  (forall a mn mx lz c ps l, rq_each text a mn mx lz c ps l -> forall m, (Forall (le m) ps -> Forall (le m) l) /\ (Forall (lt m) ps -> Forall (lt m) l)).
Proof.
  assert (Hstep : forall f p, Forall (lt p) (step1 text f p)).
  { intros f p. unfold step1. destruct (nth_error text p) as [b|]; [|constructor]. destruct (f b); repeat constructor. lia. }
  apply ord_mutind.
  - intros c p. split; [apply Forall_le_lt|intros _]; apply Hstep.
  - intros c p. split; [apply Forall_le_lt|intros _]; apply Hstep.
  - intros p. split; [apply Forall_le_lt|intros _]; apply Hstep.
  - intros neg space p. split; [apply Forall_le_lt|intros _]; apply Hstep.
  - intros neg items p. split; [apply Forall_le_lt|intros _]; apply Hstep.
  - intros k body p l _ IH. exact IH.
  - intros p. split; [destruct (at_bol text p); repeat constructor|discriminate].
  - intros p. split; [destruct (at_eol text p); repeat constructor|discriminate].
  - intros a p l _ IH. exact IH.
  - intros a q lz mn mx p l Hq _ [IH1 IH2]. split; [exact IH1|]. cbn [nn_lit]. rewrite Hq. intros H. apply andb_prop in H. destruct H as [Ha Hm].
    apply IH2; [exact Ha|apply Nat.ltb_lt; exact Hm].
  - intros x p r _ IH. exact IH.
  - intros x r p la lb _ [IHa1 IHa2] _ [IHb1 IHb2]. split; [apply Forall_app; auto|]. cbn [nn_pat]. intros H. apply andb_prop in H. destruct H. apply Forall_app; auto.
  - intros p. split; [repeat constructor|discriminate].
  - intros x d p la lb _ [IHa1 IHa2] _ IHe. destruct (IHe p) as (E1 & E2 & E3). split; [auto|]. cbn [nn_disj]. intros H. apply Bool.orb_true_iff in H. destruct H as [H|H]; auto.
  - intros d m. repeat split; intros; constructor.
  - intros d p ps l1 l2 _ [IH1 IH2] _ IHe m. destruct (IHe m) as (E1 & E2 & E3). repeat split.
    + intros H. inversion H; subst. apply Forall_app. split; [eapply Forall_impl; [|exact IH1]; intros; cbn in *; lia|auto].
    + intros H. inversion H; subst. apply Forall_app. split; [eapply Forall_impl; [|exact IH1]; intros; cbn in *; lia|auto].
    + intros Hn H. inversion H; subst. apply Forall_app. split; [eapply Forall_impl; [|exact (IH2 Hn)]; intros; cbn in *; lia|auto].
  - (* rq_must *)
    intros a mn mx lz c p la l Hc _ [IHa1 IHa2] _ IHe. destruct (IHe p) as [E1 E2]. split; [auto|]. intros Hn _. auto.
  - intros a mn mx c p la l Hc Hw _ [IHa1 IHa2] _ IHe. destruct (IHe p) as [E1 E2]. split; [apply Forall_app; split; [auto|repeat constructor]|intros _ ?; lia].
  - intros a mn mx c p la l Hc Hw _ [IHa1 IHa2] _ IHe. destruct (IHe p) as [E1 E2]. split; [constructor; auto|intros _ ?; lia].
  - intros a mn mx lz c p Hc Hw. split; [repeat constructor|intros _ ?; lia].
  - intros a mn mx lz c m. split; intros; constructor.
  - intros a mn mx lz c p ps l1 l2 _ [IH1 IH2] _ IHe m. destruct (IHe m) as [E1 E2]. split.
    + intros H. inversion H; subst. apply Forall_app. split; [eapply Forall_impl; [|exact IH1]; intros; cbn in *; lia|auto].
    + intros H. inversion H; subst. apply Forall_app. split; [eapply Forall_impl; [|exact IH1]; intros; cbn in *; lia|auto].
Qed.

End Fun.
