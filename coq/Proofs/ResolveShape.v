(* C14 / C01: what the generator emits for a quantified pattern MEANS the bounded repetition.
   Resolving one syntax tree at two places (other offsets, other loop-id supply) gives patterns of
   the same shape; so the unrolled copies of a loop body all mean what the body means, and by
   UnrollSem the unrolled form means  XLoop mn mx body. *)
From Model Require Import Gen.
From Spec Require Import Sem.
From Proofs Require Import Refine ResolveOk ShiftSem UnrollSem.
From Coq Require Import Lia.
Local Open Scope nat_scope.

(* trees without subroutine definitions and without references (back-references, calls, stored patterns) *)
Fixpoint plain_e (e : expr) : Prop :=
  match e with
  | ELoop _ _ _ _ b => plain_e b
  | EBranch l r => plain_l l /\ plain_e r
  | EDec _ l => plain_l l
  | ESub _ _ => False
  | EList _ _ => True
  | EPrim l => plain_l l
  end
with plain_l (l : lit) : Prop :=
  match l with LSubExpr b => plain_es b | LVar _ => False | _ => True end
with plain_es (es : exprs) : Prop :=
  match es with ENil => True | ECons e r => plain_e e /\ plain_es r end.

Definition same_names (g g' : gstate) : Prop := gvars g = gvars g'.

Lemma same_shape_refl : forall r, same_shape r r.
Proof. induction r; cbn; auto. Qed.

Definition shape_res (x y : gres (rx * gstate)) : Prop :=
  match x, y with
  | GOk (r, g1), GOk (r', g1') => same_shape r r' /\ same_names g1 g1'
  | GErr _, GErr _ => True
  | _, _ => False
  end.

Theorem resolve_shape_mut :
  (forall l, plain_l l -> forall off off' g g', same_names g g' -> shape_res (resolve_lit l off g) (resolve_lit l off' g')) /\
  (forall e, plain_e e -> forall off off' g g', same_names g g' -> shape_res (resolve_expr e off g) (resolve_expr e off' g')) /\
  (forall es, plain_es es -> forall off off' g g', same_names g g' -> shape_res (resolve_exprs es off g) (resolve_exprs es off' g')).
Proof.
  apply ast_mut.
  - (* ELoop *)
    intros mn mx fw nm body IH Hp off off' g g' Hn. cbn [resolve_expr plain_e] in *.
    set (entry := gvars g). assert (Hentry : gvars g' = entry) by (symmetry; exact Hn). rewrite Hentry.
    set (tail := fun (cur : nat) (g1 : gstate) =>
        if (Nat.eqb (length nm) 0 && Z.eqb (Z.of_nat mn) mx)%bool then GOk (XEps, g1)
        else gbind (resolve_expr body (cur + 1) (set_vars g1 entry)) (fun '(c, g2) =>
               let newmin := if (Nat.eqb (length nm) 0 && Nat.ltb 0 mn)%bool then 0 else mn in
               let newmax := if (Nat.eqb (length nm) 0 && Z.ltb 0 mx)%bool then (mx - Z.of_nat mn)%Z else mx in
               let id := gnext g2 in
               GOk (XLoop id newmin newmax fw nm c, {| gvars := gvars g2; gsubs := gsubs g2; gtrans := gtrans g2; gnext := S id |}))).
    assert (Htail : forall cur cur' g1 g1', same_names g1 g1' -> shape_res (tail cur g1) (tail cur' g1')).
    { intros cur cur' g1 g1' H1. unfold tail. destruct (Nat.eqb (length nm) 0 && Z.eqb (Z.of_nat mn) mx)%bool; [cbn; auto|].
      pose proof (IH Hp (cur + 1) (cur' + 1) (set_vars g1 entry) (set_vars g1' entry) eq_refl) as R. unfold shape_res in R.
      destruct (resolve_expr body (cur + 1) (set_vars g1 entry)) as [[c g2]|]; destruct (resolve_expr body (cur' + 1) (set_vars g1' entry)) as [[c' g2']|]; try contradiction; cbn [gbind]; [|exact I].
      destruct R as [R1 R2]. cbn. repeat split; auto. }
    assert (Hun : forall k cur cur' g1 g1', same_names g1 g1' ->
              shape_res
                ((fix unroll (k : nat) (cur : nat) (g : gstate) (tail : nat -> gstate -> gres (rx * gstate)) : gres (rx * gstate) :=
                   match k with
                   | O => tail cur g
                   | S k' => gbind (resolve_expr body cur (set_vars g entry)) (fun '(c, g1) =>
                             gbind (unroll k' (cur + rx_len c) g1 tail) (fun '(rest, g2) => GOk (XSeq c rest, g2)))
                   end) k cur g1 tail)
                ((fix unroll (k : nat) (cur : nat) (g : gstate) (tail : nat -> gstate -> gres (rx * gstate)) : gres (rx * gstate) :=
                   match k with
                   | O => tail cur g
                   | S k' => gbind (resolve_expr body cur (set_vars g entry)) (fun '(c, g1) =>
                             gbind (unroll k' (cur + rx_len c) g1 tail) (fun '(rest, g2) => GOk (XSeq c rest, g2)))
                   end) k cur' g1' tail)).
    { induction k as [|k IHk]; intros cur cur' g1 g1' H1; [apply Htail; exact H1|].
      pose proof (IH Hp cur cur' (set_vars g1 entry) (set_vars g1' entry) eq_refl) as R. unfold shape_res in R.
      destruct (resolve_expr body cur (set_vars g1 entry)) as [[c g2]|]; destruct (resolve_expr body cur' (set_vars g1' entry)) as [[c' g2']|]; try contradiction; cbn [gbind]; [|exact I].
      destruct R as [R1 R2]. specialize (IHk (cur + rx_len c) (cur' + rx_len c') g2 g2' R2). unfold shape_res in IHk.
      match goal with |- shape_res (gbind ?x _) (gbind ?y _) => destruct x as [[rest g3]|]; destruct y as [[rest' g3']|]; try contradiction; cbn [gbind]; [|exact I] end.
      destruct IHk as [K1 K2]. cbn. repeat split; auto. }
    destruct (Nat.eqb (length nm) 0); [apply Hun; exact Hn|apply Htail; exact Hn].
  - (* EBranch *)
    intros l IHl r IHr [Hl Hr] off off' g g' Hn. cbn [resolve_expr].
    pose proof (IHl Hl (off + 1) (off' + 1) g g' Hn) as R. unfold shape_res in R.
    destruct (resolve_lit l (off + 1) g) as [[a g1]|]; destruct (resolve_lit l (off' + 1) g') as [[a' g1']|]; try contradiction; cbn [gbind]; [|exact I].
    destruct R as [R1 R2].
    pose proof (IHr Hr (off + 2 + rx_len a) (off' + 2 + rx_len a') g1 g1' R2) as R'. unfold shape_res in R'.
    destruct (resolve_expr r _ g1) as [[b g2]|]; destruct (resolve_expr r _ g1') as [[b' g2']|]; try contradiction; cbn [gbind]; [|exact I].
    destruct R' as [R3 R4]. cbn. repeat split; auto.
  - (* EDec *)
    intros n l IHl Hl off off' g g' Hn. cbn [resolve_expr plain_e] in *.
    pose proof (IHl Hl (off + 1) (off' + 1) g g' Hn) as R. unfold shape_res in R.
    destruct (resolve_lit l (off + 1) g) as [[b g1]|]; destruct (resolve_lit l (off' + 1) g') as [[b' g1']|]; try contradiction; cbn [gbind]; [|exact I].
    destruct R as [R1 R2]. unfold same_names in R2. rewrite <- R2.
    destruct (alookup (gvars g1) n); [exact I|]. cbn. repeat split; auto; unfold same_names; cbn; rewrite ?R2; reflexivity.
  - (* ESub *) intros n body _ H. contradiction.
  - (* EList *) intros nt items _ off off' g g' Hn. cbn. destruct nt; cbn; repeat split; auto.
  - (* EPrim *) intros l IHl Hl off off' g g' Hn. cbn [resolve_expr]. apply IHl; assumption.
  - (* LStr *) intros nt cl v _ off off' g g' Hn. cbn. repeat split; auto.
  - (* LSubExpr *) intros body IH Hl off off' g g' Hn. cbn [resolve_lit]. apply IH; assumption.
  - (* LVar *) intros n H. contradiction.
  - (* LClass *) intros nt c _ off off' g g' Hn. cbn. repeat split; auto.
  - (* ENil *) intros _ off off' g g' Hn. cbn. repeat split; auto.
  - (* ECons *)
    intros e IHe r IHr [He Hr] off off' g g' Hn. cbn [resolve_exprs].
    pose proof (IHe He off off' g g' Hn) as R. unfold shape_res in R.
    destruct (resolve_expr e off g) as [[a g1]|]; destruct (resolve_expr e off' g') as [[a' g1']|]; try contradiction; cbn [gbind]; [|exact I].
    destruct R as [R1 R2].
    pose proof (IHr Hr (off + rx_len a) (off' + rx_len a') g1 g1' R2) as R'. unfold shape_res in R'.
    destruct (resolve_exprs r _ g1) as [[b g2]|]; destruct (resolve_exprs r _ g1') as [[b' g2']|]; try contradiction; cbn [gbind]; [|exact I].
    destruct R' as [R3 R4]. cbn. repeat split; auto.
Qed.

(* ---- the unrolled form the generator emits ---- *)
Section Meaning.
Variable text : bytes.
Variable start : nat.
Variable defs : nat -> option (rx * pstmts).

Lemma shape_sem a b : same_shape a b -> sem_eq text start defs a b.
Proof. intros H s l. apply same_shape_sem. exact H. Qed.

Theorem quantifier_meaning_lemma mn mx fw body off g r g' off0 g0 c g0' :
  plain_e body -> gvars g0 = gvars g ->
  resolve_expr (ELoop mn mx fw [] body) off g = GOk (r, g') ->
  resolve_expr body off0 g0 = GOk (c, g0') ->
  advances text start defs c -> defined text start defs c -> (mx = -1 \/ Z.of_nat mn <= mx)%Z ->
  forall s l, outs text start defs r s l <-> outs text start defs (XLoop 0 mn mx fw [] c) s l.
Proof.
  intros Hp Hg0 Hr Hc Hadv Hdef Hmx. cbn [resolve_expr length Nat.eqb andb] in Hr.
  set (entry := gvars g) in *.
  (* every resolution of the body from the entry names has the shape of c *)
  assert (Hcopy : forall cur g1 ci g2, resolve_expr body cur (set_vars g1 entry) = GOk (ci, g2) -> same_shape ci c).
  { intros cur g1 ci g2 E. pose proof (proj1 (proj2 resolve_shape_mut) body Hp cur off0 (set_vars g1 entry) g0 (eq_sym Hg0)) as R.
    unfold shape_res in R. rewrite E, Hc in R. tauto. }
  set (tail := fun (cur : nat) (g1 : gstate) =>
      if Z.eqb (Z.of_nat mn) mx then GOk (XEps, g1)
      else gbind (resolve_expr body (cur + 1) (set_vars g1 entry)) (fun '(c0, g2) =>
             let newmin := if Nat.ltb 0 mn then 0 else mn in
             let newmax := if Z.ltb 0 mx then (mx - Z.of_nat mn)%Z else mx in
             let id := gnext g2 in
             GOk (XLoop id newmin newmax fw [] c0, {| gvars := gvars g2; gsubs := gsubs g2; gtrans := gtrans g2; gnext := S id |}))) in *.
  assert (Htail : forall cur g1 T gT, tail cur g1 = GOk (T, gT) -> exists id' b', T = loop_tail id' mn mx fw b' /\ same_shape b' c).
  { intros cur g1 T gT Ht. unfold tail, loop_tail in *. destruct (Z.eqb_spec (Z.of_nat mn) mx) as [E|E].
    - inversion Ht; subst. exists 0, c. split; [reflexivity|apply same_shape_refl].
    - destruct (resolve_expr body (cur + 1) (set_vars g1 entry)) as [[c0 g2]|] eqn:E0; [|discriminate]. cbn [gbind] in Ht. inversion Ht; subst.
      exists (gnext g2), c0. split; [|eapply Hcopy; eauto]. f_equal.
      + destruct (Nat.ltb_spec 0 mn); lia.
      + unfold rest_max. destruct (Z.eqb_spec mx (-1)) as [->|Hn]; [reflexivity|]. destruct (Z.ltb_spec 0 mx); lia. }
  assert (Hun : forall k cur g1 r1 g1',
            (fix unroll (k : nat) (cur : nat) (g : gstate) (tail : nat -> gstate -> gres (rx * gstate)) : gres (rx * gstate) :=
               match k with
               | O => tail cur g
               | S k' => gbind (resolve_expr body cur (set_vars g entry)) (fun '(c, g1) =>
                         gbind (unroll k' (cur + rx_len c) g1 tail) (fun '(rest, g2) => GOk (XSeq c rest, g2)))
               end) k cur g1 tail = GOk (r1, g1') ->
            exists copies id' b', r1 = fold_right XSeq (loop_tail id' mn mx fw b') copies /\ length copies = k /\
                                  Forall (fun x => same_shape x c) copies /\ same_shape b' c).
  { induction k as [|k IHk]; intros cur g1 r1 g1' Hu.
    - destruct (Htail _ _ _ _ Hu) as (id' & b' & -> & Hb). exists [], id', b'. repeat split; auto.
    - destruct (resolve_expr body cur (set_vars g1 entry)) as [[ci g2]|] eqn:E; [|discriminate]. cbn [gbind] in Hu.
      match type of Hu with gbind ?x _ = _ => destruct x as [[rest g3]|] eqn:E2; [|discriminate] end. cbn [gbind] in Hu. inversion Hu; subst.
      destruct (IHk _ _ _ _ E2) as (copies & id' & b' & -> & Hl & Hall & Hb).
      exists (ci :: copies), id', b'. repeat split; cbn [fold_right length]; auto. constructor; [eapply Hcopy; eauto|exact Hall]. }
  destruct (Hun _ _ _ _ _ Hr) as (copies & id' & b' & -> & Hl & Hall & Hb).
  intros s l.
  apply (unroll_sem_lemma text start defs 0 id' mn mx fw c b' copies Hadv Hdef (shape_sem _ _ Hb) Hmx Hl).
  eapply Forall_impl; [|exact Hall]. intros x Hx. apply shape_sem. exact Hx.
Qed.

End Meaning.
