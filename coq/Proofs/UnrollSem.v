(* The generator unrolls the mandatory iterations of an unnamed loop: `between m and n b` becomes
   m copies of b followed by a loop of 0 .. n-m iterations (nothing when m = n).  This file proves
   that the unrolled form means the bounded repetition, in the ordered-outcomes semantics, for every
   body whose outcomes always consume something (a zero-width iteration is accepted by a copy but
   rejected by the loop: the one place where the two forms differ). *)
From Model Require Import VM.
From Spec Require Import Sem.
From Proofs Require Import RefineBase RefineRange.
From Coq Require Import Lia.

Section Unroll.
Variable text : bytes.
Variable start : nat.
Variable defs : nat -> option (rx * pstmts).

Notation outs := (outs text start defs).
Notation outs_list := (outs_list text start defs).
Notation iter := (iter text start defs).
Notation iters := (iters text start defs).

Definition sem_eq (a b : rx) : Prop := forall s l, outs a s l <-> outs b s l.
Definition advances (b : rx) : Prop := forall s l, outs b s l -> Forall (fun q => fst q <> fst s) l.
Definition defined (b : rx) : Prop := forall s, exists l, outs b s l.

Definition rest_max (mn : nat) (mx : Z) : Z := if Z.eqb mx (-1) then (-1)%Z else (mx - Z.of_nat mn)%Z.

Lemma within_shift mn mx c : (mx = -1 \/ Z.of_nat mn <= mx)%Z -> within mx (mn + c) = within (rest_max mn mx) c.
Proof.
  intros H. unfold within, rest_max. destruct (Z.eqb_spec mx (-1)) as [->|Hn]; [reflexivity|].
  cbn [orb]. destruct (Z.eqb_spec (mx - Z.of_nat mn) (-1)); [lia|]. cbn [orb].
  destruct (Z.leb_spec (Z.of_nat (mn + c)) mx); destruct (Z.leb_spec (Z.of_nat c) (mx - Z.of_nat mn)); try reflexivity; lia.
Qed.

(* the iterations after the mandatory ones = a loop counted from zero *)
Lemma iter_shift_mut id id' mn mx fw b b' : sem_eq b' b -> (mx = -1 \/ Z.of_nat mn <= mx)%Z ->
  (forall r s l, Sem.outs text start defs r s l -> True) /\
  (forall r la lb, Sem.outs_list text start defs r la lb -> True) /\
  (forall id0 mn0 mx0 fw0 b0 c0 s l, Sem.iter text start defs id0 mn0 mx0 fw0 b0 c0 s l ->
     forall c, id0 = id -> mn0 = mn -> mx0 = mx -> fw0 = fw -> b0 = b -> c0 = mn + c -> iter id' 0 (rest_max mn mx) fw b' c s l) /\
  (forall id0 mn0 mx0 fw0 b0 c0 s la l, Sem.iters text start defs id0 mn0 mx0 fw0 b0 c0 s la l ->
     forall c, id0 = id -> mn0 = mn -> mx0 = mx -> fw0 = fw -> b0 = b -> c0 = mn + c -> iters id' 0 (rest_max mn mx) fw b' c s la l).
Proof.
  intros Heq Hmx. apply outs_mut; try (intros; exact I).
  - intros id0 mn0 mx0 fw0 b0 c0 s la l Hlt _ _ _ _ c -> -> -> -> -> ->. lia.
  - intros id0 mn0 mx0 b0 c0 s la l Hle Hw Ho _ Hi IH c -> -> -> <- -> ->.
    apply it_greedy with (la := la); [lia|rewrite <- within_shift; assumption|apply Heq; exact Ho|apply IH; reflexivity].
  - intros id0 mn0 mx0 b0 c0 s la l Hle Hw Ho _ Hi IH c -> -> -> <- -> ->.
    apply it_lazy with (la := la); [lia|rewrite <- within_shift; assumption|apply Heq; exact Ho|apply IH; reflexivity].
  - intros id0 mn0 mx0 fw0 b0 c0 s Hle Hw c -> -> -> -> -> ->.
    apply it_over; [lia|rewrite <- within_shift; assumption].
  - intros. apply is_nil.
  - intros id0 mn0 mx0 fw0 b0 c0 s q qs l Hz Hi IH c -> -> -> -> -> ->. apply is_zero; [exact Hz|apply IH; reflexivity].
  - intros id0 mn0 mx0 fw0 b0 c0 s q qs l1 l2 Hnz Hit IH1 His IH2 c -> -> -> -> -> ->.
    apply is_cons; [exact Hnz|apply IH1; auto; lia|apply IH2; reflexivity].
Qed.

Lemma iter_unshift_mut id id' mn mx fw b b' : sem_eq b' b -> (mx = -1 \/ Z.of_nat mn <= mx)%Z ->
  (forall r s l, Sem.outs text start defs r s l -> True) /\
  (forall r la lb, Sem.outs_list text start defs r la lb -> True) /\
  (forall id0 mn0 mx0 fw0 b0 c s l, Sem.iter text start defs id0 mn0 mx0 fw0 b0 c s l ->
     id0 = id' -> mn0 = 0 -> mx0 = rest_max mn mx -> fw0 = fw -> b0 = b' -> iter id mn mx fw b (mn + c) s l) /\
  (forall id0 mn0 mx0 fw0 b0 c s la l, Sem.iters text start defs id0 mn0 mx0 fw0 b0 c s la l ->
     id0 = id' -> mn0 = 0 -> mx0 = rest_max mn mx -> fw0 = fw -> b0 = b' -> iters id mn mx fw b (mn + c) s la l).
Proof.
  intros Heq Hmx. apply outs_mut; try (intros; exact I).
  - intros id0 mn0 mx0 fw0 b0 c s la l Hlt _ _ _ _ -> -> -> -> ->. lia.
  - intros id0 mn0 mx0 b0 c s la l Hle Hw Ho _ Hi IH -> -> -> <- ->.
    apply it_greedy with (la := la); [lia|rewrite within_shift; assumption|apply Heq; exact Ho|apply IH; reflexivity].
  - intros id0 mn0 mx0 b0 c s la l Hle Hw Ho _ Hi IH -> -> -> <- ->.
    apply it_lazy with (la := la); [lia|rewrite within_shift; assumption|apply Heq; exact Ho|apply IH; reflexivity].
  - intros id0 mn0 mx0 fw0 b0 c s Hle Hw -> -> -> -> ->.
    apply it_over; [lia|rewrite within_shift; assumption].
  - intros. apply is_nil.
  - intros id0 mn0 mx0 fw0 b0 c s q qs l Hz Hi IH -> -> -> -> ->. apply is_zero; [exact Hz|apply IH; reflexivity].
  - intros id0 mn0 mx0 fw0 b0 c s q qs l1 l2 Hnz Hit IH1 His IH2 -> -> -> -> ->.
    apply is_cons; [exact Hnz|replace (S (mn + c)) with (mn + S c) by lia; apply IH1; reflexivity|apply IH2; reflexivity].
Qed.

(* what the generator emits after the copies *)
Definition loop_tail (id' mn : nat) (mx : Z) (fw : bool) (b' : rx) : rx :=
  if Z.eqb (Z.of_nat mn) mx then XEps else XLoop id' 0 (rest_max mn mx) fw [] b'.

Lemma iters_as_list id mn mx fw b c s (R : rx) : advances b ->
  (forall q l, outs R q l <-> iter id mn mx fw b (S c) q l) ->
  forall la, Forall (fun q => fst q <> fst s) la -> forall l, outs_list R la l <-> iters id mn mx fw b c s la l.
Proof.
  intros Hadv HR. induction la as [|q la IH]; intros Hall l.
  - split; intros H; inversion H; subst; constructor.
  - inversion Hall as [|? ? Hq Hall']; subst. split; intros H.
    + inversion H; subst. apply is_cons; [exact Hq|apply HR; assumption|apply IH; assumption].
    + inversion H; subst; [congruence|]. apply ol_cons; [apply HR; assumption|apply IH; assumption].
Qed.

Lemma iter_beyond id mn mx fw b c q l : (mx <> -1)%Z -> (mx < Z.of_nat c)%Z -> mn <= c -> iter id mn mx fw b c q l -> l = [].
Proof.
  intros H1 H2 H3 H.
  assert (Hw : within mx c = false).
  { unfold within. destruct (Z.eqb_spec mx (-1)); [contradiction|]. cbn [orb]. apply Z.leb_gt. exact H2. }
  inversion H; subst; try lia; try congruence; reflexivity.
Qed.

Lemma iters_nil id mn mx fw b c s la l : (forall q l1, iter id mn mx fw b (S c) q l1 -> l1 = []) -> iters id mn mx fw b c s la l -> l = [].
Proof.
  intros Hq H. induction H as [| |? ? ? ? ? ? ? ? ? ? ? Hnz Hit His IH]; auto.
  rewrite (Hq _ _ Hit), IH; auto.
Qed.

Lemma build_iters_nil id mn mx fw b c s la : (mx <> -1)%Z -> (mx < Z.of_nat (S c))%Z -> mn <= c ->
  Forall (fun q => fst q <> fst s) la -> iters id mn mx fw b c s la [].
Proof.
  intros H1 H2 H3. induction 1 as [|q la Hq _ IH]; [apply is_nil|].
  change (@nil st) with (@nil st ++ []). apply is_cons; [exact Hq| |exact IH].
  apply it_over; [lia|]. unfold within. destruct (Z.eqb_spec mx (-1)); [contradiction|]. cbn [orb]. apply Z.leb_gt. exact H2.
Qed.

Lemma within_self n : within (Z.of_nat n) n = true.
Proof. unfold within. rewrite Z.leb_refl. apply Bool.orb_true_r. Qed.

(* at the maximum count the loop can only be left *)
Lemma exit_at_max id mn fw b s l : advances b -> defined b ->
  (iter id mn (Z.of_nat mn) fw b mn s l <-> l = [s]).
Proof.
  intros Hadv Hdef.
  assert (Hne : (Z.of_nat mn <> -1)%Z) by lia.
  assert (Hbeyond : forall q l1, iter id mn (Z.of_nat mn) fw b (S mn) q l1 -> l1 = []).
  { intros q l1. apply iter_beyond; [exact Hne|lia|lia]. }
  split.
  - intros H. inversion H; subst; try lia.
    + match goal with Hi : iters _ _ _ _ _ _ _ _ ?l0 |- _ => rewrite (iters_nil _ _ _ _ _ _ _ _ _ Hbeyond Hi) end. reflexivity.
    + match goal with Hi : iters _ _ _ _ _ _ _ _ ?l0 |- _ => rewrite (iters_nil _ _ _ _ _ _ _ _ _ Hbeyond Hi) end. reflexivity.
    + rewrite within_self in *. discriminate.
  - intros ->. destruct (Hdef s) as [la Hla]. pose proof (Hadv _ _ Hla) as Hall.
    pose proof (build_iters_nil id mn (Z.of_nat mn) fw b mn s la Hne ltac:(lia) (le_n _) Hall) as Hi.
    destruct fw.
    + apply it_lazy with (la := la); [lia|apply within_self|exact Hla|exact Hi].
    + change [s] with ([] ++ [s]). apply it_greedy with (la := la); [lia|apply within_self|exact Hla|exact Hi].
Qed.

Theorem unroll_iter id id' mn mx fw b b' : advances b -> defined b -> sem_eq b' b -> (mx = -1 \/ Z.of_nat mn <= mx)%Z ->
  forall copies c, c + length copies = mn -> Forall (fun x => sem_eq x b) copies ->
  forall s l, outs (fold_right XSeq (loop_tail id' mn mx fw b') copies) s l <-> iter id mn mx fw b c s l.
Proof.
  intros Hadv Hdef Heq Hmx. induction copies as [|c1 copies IH]; intros c Hc Hall s l; cbn [fold_right length] in *.
  - assert (c = mn) by lia. subst c. unfold loop_tail. destruct (Z.eqb_spec (Z.of_nat mn) mx) as [E|E].
    + subst mx. rewrite exit_at_max by assumption. split; intros H; [inversion H; reflexivity|subst; constructor].
    + split; intros H.
      * inversion H; subst.
        replace mn with (mn + 0) at 2 by lia.
        eapply (proj1 (proj2 (proj2 (iter_unshift_mut id id' mn mx fw b b' Heq Hmx)))); eauto.
      * apply o_loop.
        eapply (proj1 (proj2 (proj2 (iter_shift_mut id id' mn mx fw b b' Heq Hmx)))); eauto; lia.
  - inversion Hall as [|? ? H1 Hall']; subst.
    assert (IH' : forall q lq, outs (fold_right XSeq (loop_tail id' (c + S (length copies)) mx fw b') copies) q lq <->
                              iter id (c + S (length copies)) mx fw b (S c) q lq).
    { intros q lq. apply IH; [lia|exact Hall']. }
    split; intros H.
    + inversion H; subst.
      match goal with Ho : outs c1 s ?la, Hl : outs_list _ ?la l |- _ =>
        apply H1 in Ho; apply it_min with (la := la); [lia|exact Ho|];
        apply (iters_as_list id _ mx fw b c s _ Hadv IH' la (Hadv _ _ Ho)); exact Hl end.
    + inversion H; subst; try lia.
      match goal with Ho : outs b s ?la, Hi : iters _ _ _ _ _ _ _ ?la l |- _ =>
        apply o_seq with (la := la); [apply H1; exact Ho|];
        apply (iters_as_list id _ mx fw b c s _ Hadv IH' la (Hadv _ _ Ho)); exact Hi end.
Qed.

(* the unrolled form of a loop means the loop *)
Theorem unroll_sem_lemma id id' mn mx fw b b' copies :
  advances b -> defined b -> sem_eq b' b -> (mx = -1 \/ Z.of_nat mn <= mx)%Z ->
  length copies = mn -> Forall (fun x => sem_eq x b) copies ->
  forall s l, outs (fold_right XSeq (loop_tail id' mn mx fw b') copies) s l <-> outs (XLoop id mn mx fw [] b) s l.
Proof.
  intros Hadv Hdef Heq Hmx Hlen Hall s l.
  rewrite (unroll_iter id id' mn mx fw b b' Hadv Hdef Heq Hmx copies 0 Hlen Hall s l).
  split; intros H; [apply o_loop; exact H|inversion H; subst; assumption].
Qed.

End Unroll.
