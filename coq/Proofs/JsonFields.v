(* C17: the JSON object of a match carries the match's data under the documented keys. *)
From Model Require Import Json.

Lemma lookup_fields fname m :
  match match_json fname m with
  | JObj fs =>
      jlookup fs k_filename = Some (JStr fname) /\
      jlookup fs k_matchNumber = Some (JNum (Z.of_nat (mnum m))) /\
      jlookup fs k_offset = Some (range_json (mstart m) (mend m)) /\
      jlookup fs k_line = Some (range_json (mlstart m) (mlend m)) /\
      jlookup fs k_column = Some (range_json (mcstart m) (mcend m)) /\
      jlookup fs k_value = Some (JStr (mvalue m)) /\
      jlookup fs k_variables = Some (value_json (VMap (mvars m))) /\
      jlookup fs k_replacement = match mrepl m with Some r => Some (JStr r) | None => None end
  | _ => False
  end.
Proof. unfold match_json. destruct (mrepl m); cbn; repeat split; reflexivity. Qed.

Lemma matches_json_length fname ms : match matches_json fname ms with JArr xs => length xs = length ms | _ => False end.
Proof. unfold matches_json. apply map_length. Qed.

Lemma matches_json_nth fname ms i m : nth_error ms i = Some m ->
  match matches_json fname ms with JArr xs => nth_error xs i = Some (match_json fname m) | _ => False end.
Proof. intros H. unfold matches_json. apply map_nth_error. exact H. Qed.
