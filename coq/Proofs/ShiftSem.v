(* C13 (relocation, semantic side) and C14 (copies of a loop body): in the specification
   - laying a pattern out d program counters further (shift, = adjust on the code by C13_gen_relocate)
     does not change what it means, provided the subroutine table moves with it;
   - loop ids carry no meaning: patterns that differ only in loop ids mean the same. *)
From Model Require Import VM.
From Spec Require Import Sem.
From Proofs Require Import RefineBase RefineRange.
From Coq Require Import Lia.
Local Open Scope nat_scope.

Section Shift.
Variable text : bytes.
Variable start : nat.

(* the subroutine table of the relocated pattern: every entry d further, its body relocated alike *)
Definition defs_moved (d : nat) (defs defs' : nat -> option (rx * pstmts)) : Prop :=
  forall t b p, defs t = Some (b, p) -> defs' (t + d) = Some (Rx.shift d b, p).

Theorem outs_shift_mut d defs defs' : defs_moved d defs defs' ->
  (forall r s l, outs text start defs r s l -> outs text start defs' (Rx.shift d r) s l) /\
  (forall b la lb, outs_list text start defs b la lb -> outs_list text start defs' (Rx.shift d b) la lb) /\
  (forall id mn mx fw b c s l, iter text start defs id mn mx fw b c s l -> iter text start defs' id mn mx fw (Rx.shift d b) c s l) /\
  (forall id mn mx fw b c s la l, iters text start defs id mn mx fw b c s la l -> iters text start defs' id mn mx fw (Rx.shift d b) c s la l).
Proof.
  intros Hm. apply outs_mut; intros; cbn [Rx.shift]; try (econstructor; eauto; fail).
Qed.

Theorem outs_shift_lemma d defs defs' r s l : defs_moved d defs defs' ->
  outs text start defs r s l -> outs text start defs' (Rx.shift d r) s l.
Proof. intros Hm. apply (proj1 (outs_shift_mut d defs defs' Hm)). Qed.

(* ---- loop ids ---- *)
Fixpoint same_shape (a b : rx) : Prop :=
  match a, b with
  | XEps, XEps => True
  | XAtom i, XAtom j => i = j
  | XRef n, XRef m => n = m
  | XCall n t, XCall m u => n = m /\ t = u
  | XSeq a1 a2, XSeq b1 b2 | XAlt a1 a2, XAlt b1 b2 => same_shape a1 b1 /\ same_shape a2 b2
  | XIn x, XIn y => x = y
  | XNotIn x mx, XNotIn y my => x = y /\ mx = my
  | XLoop _ mn mx fw nm a1, XLoop _ mn' mx' fw' nm' b1 => mn = mn' /\ mx = mx' /\ fw = fw' /\ nm = nm' /\ same_shape a1 b1
  | XDec n a1, XDec m b1 => n = m /\ same_shape a1 b1
  | XSub n a1 p, XSub m b1 q => n = m /\ p = q /\ same_shape a1 b1
  | _, _ => False
  end.

Variable defs : nat -> option (rx * pstmts).

Theorem outs_ids_mut :
  (forall r s l, outs text start defs r s l -> forall r', same_shape r r' -> outs text start defs r' s l) /\
  (forall b la lb, outs_list text start defs b la lb -> forall b', same_shape b b' -> outs_list text start defs b' la lb) /\
  (forall id mn mx fw b c s l, iter text start defs id mn mx fw b c s l ->
     forall id' b', same_shape b b' -> iter text start defs id' mn mx fw b' c s l) /\
  (forall id mn mx fw b c s la l, iters text start defs id mn mx fw b c s la l ->
     forall id' b', same_shape b b' -> iters text start defs id' mn mx fw b' c s la l).
Proof.
  apply outs_mut.
  - intros s r' H. destruct r'; try contradiction. constructor.
  - intros i s r' H. destruct r'; try contradiction. cbn in H. subst. constructor.
  - intros n s r' H. destruct r'; try contradiction. cbn in H. subst. constructor.
  - intros a b s la lb _ IHa _ IHb r' H. destruct r'; try contradiction. destruct H as [H1 H2]. econstructor; eauto.
  - intros a b s la lb _ IHa _ IHb r' H. destruct r'; try contradiction. destruct H as [H1 H2]. econstructor; eauto.
  - intros items s r' H. destruct r'; try contradiction. cbn in H. subst. constructor.
  - intros items mx s Hmx r' H. destruct r'; try contradiction. destruct H as [-> ->]. constructor. exact Hmx.
  - intros id mn mx fw b s l _ IH r' H. destruct r'; try contradiction. destruct H as (-> & -> & -> & <- & H). apply o_loop. apply IH. exact H.
  - intros n b s la _ IH r' H. destruct r'; try contradiction. destruct H as [-> H]. constructor. apply IH. exact H.
  - intros n b pred s l l' _ IH Hf r' H. destruct r'; try contradiction. destruct H as (-> & -> & H). econstructor; eauto.
  - intros n t b pred s l l' Hd Hb _ Hf r' H. destruct r'; try contradiction. destruct H as [-> ->]. eapply o_call; eauto.
  - intros b b' H. constructor.
  - intros b s ss l1 l2 _ IH1 _ IH2 b' H. constructor; eauto.
  - intros id mn mx fw b c s la l Hlt _ IHa _ IHs id' b' H. eapply it_min; eauto.
  - intros id mn mx b c s la l Hle Hw _ IHa _ IHs id' b' H. eapply it_greedy; eauto.
  - intros id mn mx b c s la l Hle Hw _ IHa _ IHs id' b' H. eapply it_lazy; eauto.
  - intros id mn mx fw b c s Hle Hw id' b' H. apply it_over; assumption.
  - intros. apply is_nil.
  - intros id mn mx fw b c s q qs l Hz _ IH id' b' H. apply is_zero; eauto.
  - intros id mn mx fw b c s q qs l1 l2 Hnz _ IH1 _ IH2 id' b' H. apply is_cons; eauto.
Qed.

Lemma same_shape_sym : forall a b, same_shape a b -> same_shape b a.
Proof.
  induction a; destruct b; cbn; try tauto; try (intros H; subst; reflexivity).
  - intros [-> ->]. auto.
  - intros [H1 H2]. split; auto.
  - intros [H1 H2]. split; auto.
  - intros [-> ->]. auto.
  - intros (-> & -> & -> & -> & H). repeat split; auto.
  - intros [-> H]. split; auto.
  - intros (-> & -> & H). repeat split; auto.
Qed.

Theorem same_shape_sem a b : same_shape a b -> forall s l, outs text start defs a s l <-> outs text start defs b s l.
Proof.
  intros H s l. split; intros Ho; [eapply (proj1 outs_ids_mut); eauto|eapply (proj1 outs_ids_mut); eauto using same_shape_sym].
Qed.

End Shift.
