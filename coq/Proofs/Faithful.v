(* C03: for ARBITRARY bytecode, every core the VM ever holds (current or saved in the backtrack
   stack) has its cursor in step with the text: position inside the text, matched text =
   text[start..pos), line and column the closed forms of the consumed bytes. *)
From Model Require Import Engine.
From Spec Require Import Sem.
From Proofs Require Import RefineBase Window.
From Coq Require Import Lia.

Section StepInv.
Variable prog : list instr.
Variable text : bytes.
Variables start ln0 cl0 : nat.
Hypothesis Hstart : start <= length text.

Notation cursor_at := (cursor_at text start ln0 cl0).
Notation inr := (inr text start).

Definition CoreInv (c : core) : Prop := inr (pos (cur c)) /\ cur c = cursor_at (pos (cur c)).
Definition StateInv (s : state) : Prop :=
  match s with Running c B => CoreInv c /\ Forall CoreInv B | _ => True end.

Lemma CoreInv_same_cur c c' : cur c' = cur c -> CoreInv c -> CoreInv c'.
Proof. unfold CoreInv. intros E H. rewrite E. exact H. Qed.

Lemma advance_inv c p' : CoreInv c -> pos (cur c) <= p' -> p' <= length text -> CoreInv (advance text c p').
Proof.
  intros [[H1 H2] Hc] Hle Hp'. unfold CoreInv, advance. cbn [cur set_cur].
  assert (E : consume (cur c) (sub text (pos (cur c)) p') = cursor_at p').
  { rewrite Hc at 1. apply cursor_at_advance; lia. }
  rewrite E. rewrite cursor_at_pos by (split; lia). split; [split; lia|reflexivity].
Qed.

Lemma bt_inv B : Forall CoreInv B -> StateInv (bt B).
Proof. intros H. destruct B as [|c B]; cbn; auto. inversion H; auto. Qed.

Lemma atom_result_inv c B r : CoreInv c -> Forall CoreInv B ->
  (forall p', r = Some p' -> pos (cur c) <= p' /\ p' <= length text) ->
  StateInv (atom_result text c B r).
Proof.
  intros Hc HB Hr. destruct r as [p'|]; cbn [atom_result].
  - destruct (Hr p' eq_refl). split; [apply advance_inv; auto|exact HB].
  - apply bt_inv. exact HB.
Qed.

Theorem step_inv c B : CoreInv c -> Forall CoreInv B -> StateInv (step prog text c B).
Proof.
  intros Hc HB. pose proof Hc as [[Hp1 Hp2] _].
  unfold step. destruct (nth_error prog (pc c)) as [i|]; [|exact I].
  destruct i.
  - apply atom_result_inv; auto. intros p' E. eapply match_lit_range; eauto.
  - apply atom_result_inv; auto. intros p' E. apply (atom_pos_range text (IMatchClass not c0)); auto.
  - destruct (alookup (cenv c) n) as [[[|b v]|m]|].
    + split; [eapply CoreInv_same_cur; [|exact Hc]; reflexivity|exact HB].
    + apply atom_result_inv; auto. intros p' E. eapply match_lit_range; eauto.
    + apply bt_inv; auto.
    + apply bt_inv; auto.
  - apply atom_result_inv; auto. intros p' E. apply (atom_pos_range text (IMatchRange not from to)); auto.
  - split; [eapply CoreInv_same_cur; [|exact Hc]; reflexivity|exact HB].
  - destruct bs as [|b0 rest]; [exact I|]. split; [eapply CoreInv_same_cur; [|exact Hc]; reflexivity|].
    apply Forall_app. split; [|exact HB]. apply Forall_forall. intros x Hx. apply in_map_iff in Hx.
    destruct Hx as (y & E & _). subst x. eapply CoreInv_same_cur; [|exact Hc]. reflexivity.
  - split; [eapply CoreInv_same_cur; [|exact Hc]; reflexivity|].
    constructor; [eapply CoreInv_same_cur; [|exact Hc]; reflexivity|exact HB].
  - destruct B as [|x [|c2 B']]; try exact I. inversion HB as [|? ? _ HB2]; subst. inversion HB2; subst. split; auto.
  - destruct maxsize as [|p|p]; try exact I.
    + cbn [Z.to_nat]. unfold consume_len, rd, read. cbn [Nat.eqb length]. apply bt_inv; auto.
    + destruct (Nat.eqb _ 0); [apply bt_inv; auto|]. split; [|exact HB].
      apply advance_inv; auto; [lia|]. apply consume_len_bound. exact Hp2.
  - destruct (enter_loop id nm c) as [ls|]; [|apply bt_inv; auto].
    destruct (Nat.ltb _ mn); [split; [eapply CoreInv_same_cur; [|exact Hc]; reflexivity|exact HB]|].
    destruct (within mx _); [|apply bt_inv; auto].
    destruct (pop_loop ls (cenv c)) as [[[l rest] e']|]; [|exact I].
    destruct fewest; (split; [eapply CoreInv_same_cur; [|exact Hc]; reflexivity|
                              constructor; [eapply CoreInv_same_cur; [|exact Hc]; reflexivity|exact HB]]).
  - split; [eapply CoreInv_same_cur; [|exact Hc]; reflexivity|exact HB].
  - split; [eapply CoreInv_same_cur; [|exact Hc]; reflexivity|exact HB].
  - destruct (vars c) as [|[m st] vs]; [exact I|]. destruct (bytes_eqb m n); [|exact I].
    destruct (insert_variable (loops c) (cenv c) n _) as [ls' e'].
    split; [eapply CoreInv_same_cur; [|exact Hc]; reflexivity|exact HB].
  - destruct (calls c) as [|[i0 r0] K].
    + split; [eapply CoreInv_same_cur; [|exact Hc]; reflexivity|exact HB].
    + destruct (Nat.eqb i0 id); (split; [eapply CoreInv_same_cur; [|exact Hc]; reflexivity|exact HB]).
  - destruct (calls c) as [|[i0 r0] K]; [exact I|].
    destruct validate as [|s0 ss].
    + split; [eapply CoreInv_same_cur; [|exact Hc]; reflexivity|exact HB].
    + destruct (run_program _ _ _) as [v| |]; try exact I.
      destruct (get_boolean v); [split; [eapply CoreInv_same_cur; [|exact Hc]; reflexivity|exact HB]|apply bt_inv; auto].
  - split; [eapply CoreInv_same_cur; [|exact Hc]; reflexivity|exact HB].
Qed.

(* the result of an attempt, for any fuel *)
Theorem run_inv fuel : forall s, StateInv s -> forall c, run prog text fuel s = Matched c -> CoreInv c.
Proof.
  induction fuel as [|f IH]; intros s Hs c H; destruct s as [c0 B| | |]; cbn [run] in H; try discriminate.
  - destruct (Nat.leb _ _); [|discriminate]. inversion H; subst. apply Hs.
  - destruct (Nat.leb _ _); [inversion H; subst; apply Hs|].
    eapply IH; [|exact H]. destruct Hs. apply step_inv; auto.
Qed.

End StepInv.

(* ---------- line / column closed forms and the scan ---------- *)
Definition nl_count (l : bytes) : nat := length (filter (N.eqb nl) l).
Definition col_after (c : nat) (l : bytes) : nat := fold_left (fun c b => if N.eqb b nl then 1 else S c) l c.

Lemma firstn1_skipn {A} (l : list A) : forall off b, nth_error l off = Some b -> firstn 1 (skipn off l) = [b].
Proof.
  induction l as [|x l IH]; intros off b H; destruct off; cbn in *; try discriminate.
  - inversion H. reflexivity.
  - apply IH. exact H.
Qed.

Section ScanInv.
Variable text : bytes.

(* 1-based line of offset p = 1 + newlines before p; 1-based byte column within that line *)
Definition line_of (p : nat) : nat := 1 + nl_count (firstn p text).
Definition col_of (p : nat) : nat := col_after 1 (firstn p text).

Lemma consume_line ch : forall k, line (consume k ch) = line k + nl_count ch.
Proof.
  induction ch as [|b ch IH]; intros k; cbn [consume fold_left]; [unfold nl_count; simpl; lia|].
  fold (consume (consume_byte k b) ch). rewrite IH. unfold nl_count. cbn [filter consume_byte line].
  rewrite (N.eqb_sym nl b). destruct (N.eqb b nl); cbn [length]; lia.
Qed.

Lemma consume_col ch : forall k, col (consume k ch) = col_after (col k) ch.
Proof.
  induction ch as [|b ch IH]; intros k; cbn [consume fold_left col_after]; [reflexivity|].
  fold (consume (consume_byte k b) ch). rewrite IH. reflexivity.
Qed.

Lemma nl_count_app a b : nl_count (a ++ b) = nl_count a + nl_count b.
Proof. unfold nl_count. rewrite filter_app, app_length. reflexivity. Qed.

Lemma col_after_app c a b : col_after c (a ++ b) = col_after (col_after c a) b.
Proof. unfold col_after. apply fold_left_app. Qed.

Lemma firstn_split off e : off <= e -> firstn e text = firstn off text ++ sub text off e.
Proof.
  intros H. pose proof (sub_app text 0 off e (Nat.le_0_l _) H) as E.
  unfold sub in E at 1 3. rewrite !Nat.sub_0_r in E. cbn [skipn] in E. symmetry. exact E.
Qed.

Definition LC (off ln cl : nat) : Prop := ln = line_of off /\ cl = col_of off.

Lemma cursor_LC off ln cl e : LC off ln cl -> off <= e ->
  line (cursor_at text off ln cl e) = line_of e /\ col (cursor_at text off ln cl e) = col_of e.
Proof.
  intros [Hl Hc] Hle. unfold cursor_at. rewrite consume_line, consume_col. cbn [line col cursor0].
  unfold line_of, col_of in *. rewrite (firstn_split off e Hle), nl_count_app, col_after_app. subst ln cl. split; [lia|reflexivity].
Qed.

Lemma fail_step_LC off ln cl o l k : LC off ln cl -> fail_step text off ln cl = Some (o, l, k) ->
  o = S off /\ off < length text /\ LC o l k.
Proof.
  intros [Hl Hc] H. unfold fail_step in H. destruct (nth_error text off) as [b|] eqn:E; [|discriminate].
  inversion H; subst. assert (Hlt : off < length text) by (apply nth_error_Some; congruence).
  split; [reflexivity|]. split; [exact Hlt|].
  assert (Ef : firstn (S off) text = firstn off text ++ [b]).
  { rewrite (firstn_split off (S off)) by lia. f_equal. unfold sub. replace (S off - off) with 1 by lia.
    apply firstn1_skipn. exact E. }
  unfold LC, line_of, col_of. rewrite Ef, nl_count_app, col_after_app.
  assert (E1 : nl_count [b] = if N.eqb b nl then 1 else 0).
  { unfold nl_count. cbn [filter]. rewrite (N.eqb_sym nl b). destruct (N.eqb b nl); reflexivity. }
  rewrite E1. cbn [col_after fold_left].
  destruct (N.eqb b nl); split; lia.
Qed.

(* a faithful, located match *)
Definition located (m : mrec) : Prop :=
  mstart m < mend m /\ mend m <= length text /\ mvalue m = sub text (mstart m) (mend m) /\
  mlstart m = line_of (mstart m) /\ mcstart m = col_of (mstart m) /\
  mlend m = line_of (mend m) /\ mcend m = col_of (mend m).

(* increasing and non-overlapping from a lower bound on *)
Fixpoint chain (lo : nat) (l : list mrec) : Prop :=
  match l with [] => True | m :: r => lo <= mstart m /\ located m /\ chain (mend m) r end.

Lemma chain_weaken lo lo' l : lo' <= lo -> chain lo l -> chain lo' l.
Proof. destruct l; cbn; auto. intros H (H1 & H2 & H3). split; [lia|split; assumption]. Qed.

Lemma chain_skipn k : forall lo l, chain lo l -> chain 0 (skipn k l).
Proof.
  induction k as [|k IH]; intros lo l H; [eapply chain_weaken; [|exact H]; lia|].
  destruct l as [|m r]; [exact I|]. cbn [skipn]. destruct H as (_ & _ & H). eapply IH; eauto.
Qed.

Definition ends_le (l : list mrec) (off : nat) : Prop := forall m, In m l -> mend m <= off.

Lemma chain_snoc : forall l lo m, chain lo l -> ends_le l (mstart m) -> lo <= mstart m -> located m -> chain lo (l ++ [m]).
Proof.
  induction l as [|x l IH]; intros lo m Hc He Hlo Hm; cbn [app chain].
  - split; [exact Hlo|split; [exact Hm|exact I]].
  - destruct Hc as (H1 & H2 & H3). split; [exact H1|split; [exact H2|]]. apply IH; auto.
    + intros y Hy. apply He. right. exact Hy.
    + apply He. left. reflexivity.
Qed.

Lemma In_skipn_in {A} k : forall (l : list A) x, In x (skipn k l) -> In x l.
Proof. induction k as [|k IH]; intros l x H; [exact H|]. destruct l; [exact H|]. right. apply IH. exact H. Qed.

Variable prog : list instr.
Variable vmfuel : nat.
Variables (all : bool) (skip take last : nat).
Notation att := (attempt vmfuel prog text).

Lemma attempt_located off ln cl c num : off < length text -> LC off ln cl -> att off ln cl = Matched c ->
  negb (Nat.eqb (length (matched (cur c))) 0) = true ->
  located (make_match num off ln cl c) /\ off < pos (cur c) /\ pos (cur c) <= length text /\
  LC (pos (cur c)) (line (cur c)) (col (cur c)).
Proof.
  intros Hlt HLC Hrun Hne. unfold attempt in Hrun.
  assert (Hinit : StateInv text off ln cl (Running (init_core off ln cl) [])).
  { split; [|constructor]. split; [split; cbn; lia|]. cbn [init_core cur pos]. unfold cursor_at. rewrite sub_same. reflexivity. }
  pose proof (run_inv prog text off ln cl (Nat.lt_le_incl _ _ Hlt) vmfuel _ Hinit c Hrun) as [[He1 He2] Hcur].
  set (e := pos (cur c)) in *.
  assert (Hm : matched (cur c) = sub text off e) by (rewrite Hcur; apply cursor_at_matched).
  assert (Hgt : off < e).
  { rewrite Hm, sub_length in Hne by lia. destruct (Nat.eqb_spec (e - off) 0); [discriminate|lia]. }
  destruct (cursor_LC off ln cl e HLC He1) as [Hl Hc]. rewrite <- Hcur in Hl, Hc.
  destruct HLC as [HL0 HC0].
  split; [|split; [exact Hgt|split; [exact He2|split; assumption]]].
  unfold located, make_match. cbn. fold e. repeat split; auto.
Qed.

Theorem scan_located : forall n off ln cl num acc R,
  scan att text all skip take last n off ln cl num acc = SOk R ->
  off < length text -> LC off ln cl -> chain 0 acc -> ends_le acc off -> chain 0 R.
Proof.
  induction n as [|n IH]; intros off ln cl num acc R H Hlt HLC Hch Hends; [discriminate|].
  cbn [scan] in H. destruct (all || Nat.ltb num (skip + take))%bool; [|inversion H; subst; exact Hch].
  unfold scan_iter in H.
  assert (Hfail : forall R', match fail_step text off ln cl with
                             | Some (o, l, k) => if Nat.leb (length text) o then SOk acc else scan att text all skip take last n o l k num acc
                             | None => SCrash CrBadInstr end = SOk R' -> chain 0 R').
  { intros R' H'. destruct (fail_step text off ln cl) as [[[o l] k]|] eqn:Ef; [|discriminate].
    destruct (fail_step_LC _ _ _ _ _ _ HLC Ef) as (Eo & _ & HLC').
    destruct (Nat.leb_spec (length text) o); [inversion H'; subst; exact Hch|].
    eapply IH; eauto. intros m Hm. apply Hends in Hm. lia. }
  destruct (att off ln cl) as [c| |w|] eqn:Ea; try discriminate.
  - destruct (negb (Nat.eqb (length (matched (cur c))) 0)) eqn:Hne.
    + destruct (attempt_located off ln cl c (S num) Hlt HLC Ea Hne) as (Hloc & Hgt & Hle & HLC').
      set (m := make_match (S num) off ln cl c) in *.
      assert (Hsnoc : chain 0 (acc ++ [m])).
      { apply chain_snoc; auto; try exact Hends; cbn; lia. }
      assert (Hends' : ends_le (acc ++ [m]) (pos (cur c))).
      { intros x Hx. apply in_app_or in Hx. destruct Hx as [Hx|[Hx|[]]]; [apply Hends in Hx; lia|subst x; cbn; lia]. }
      assert (Hacc' : chain 0 (push_match skip last num off ln cl c acc) /\ ends_le (push_match skip last num off ln cl c acc) (pos (cur c))).
      { unfold push_match. fold m. destruct (Nat.leb skip num).
        - destruct (Nat.eqb last 0); [split; assumption|]. unfold limit. split.
          + eapply chain_skipn; eauto.
          + intros x Hx. apply In_skipn_in in Hx. apply Hends'. exact Hx.
        - split; [exact Hch|]. intros x Hx. apply Hends in Hx. lia. }
      destruct Hacc' as [Hc' He'].
      destruct (Nat.leb_spec (length text) (pos (cur c))); [inversion H; subst; exact Hc'|].
      eapply IH; eauto.
    + apply Hfail. destruct (fail_step text off ln cl) as [[[o l] k]|]; exact H.
  - apply Hfail. destruct (fail_step text off ln cl) as [[[o l] k]|]; exact H.
Qed.

(* C03 for the model's findMatches, any program, any window *)
Theorem find_matches_located R :
  find_matches vmfuel prog text all skip take last = SOk R -> chain 0 R.
Proof.
  unfold find_matches. destruct (Nat.eqb_spec (length text) 0); [intros H; inversion H; exact I|].
  destruct (Nat.eqb (length prog) 0); [intros H; inversion H; exact I|].
  intros H. eapply scan_located; eauto.
  - lia.
  - split; reflexivity.
  - exact I.
  - intros m [].
Qed.

End ScanInv.

(* replace commands: giving every match its replacement changes nothing else *)
Definition same_but_repl (m m' : mrec) : Prop :=
  mnum m' = mnum m /\ mstart m' = mstart m /\ mend m' = mend m /\ mlstart m' = mlstart m /\ mlend m' = mlend m /\
  mcstart m' = mcstart m /\ mcend m' = mcend m /\ mvalue m' = mvalue m /\ mvars m' = mvars m.

Lemma replace_all_same fname total replacer : forall ms ms',
  replace_all fname total replacer ms = Ok ms' -> Forall2 same_but_repl ms ms'.
Proof.
  induction ms as [|m ms IH]; intros ms' H; cbn [replace_all] in H.
  - inversion H. constructor.
  - unfold replace_match in H. destruct (exec_replacer _ m None replacer) as [r| |]; try discriminate.
    destruct (replace_all fname total replacer ms) as [r'| |]; try discriminate. inversion H; subst.
    constructor; [|apply IH; reflexivity]. unfold same_but_repl. cbn. repeat split; reflexivity.
Qed.

Lemma find_all_numbers vmfuel prog text R :
  find_matches vmfuel prog text true 0 0 0 = SOk R -> map mnum R = seq 1 (length R).
Proof.
  unfold find_matches. destruct (Nat.eqb (length text) 0); [intros H; inversion H; reflexivity|].
  destruct (Nat.eqb (length prog) 0); [intros H; inversion H; reflexivity|].
  intros H. eapply trace_nums. exact H.
Qed.
