(* From the step relation to the fuelled [run]; one attempt of a whole command. *)
From Model Require Import VM.
From Spec Require Import Sem FindSpec.
From Proofs Require Import RefineBase RefineExec RefineRange Refine.
From Coq Require Import Lia.

Section Attempt.
Variable r : rx.
Variable text : bytes.

Let prog := compile r 0.

Lemma steps_run s s' : steps prog text s s' -> forall n, exists m, n <= m /\ run prog text m s = run prog text n s'.
Proof.
  induction 1 as [s|c B s' Hpc _ IH]; intros n.
  - exists n. split; [lia|reflexivity].
  - destruct (IH n) as (m & Hm & E). exists (S m). split; [lia|]. cbn [run].
    destruct (Nat.leb_spec (length prog) (pc c)); [lia|]. exact E.
Qed.

Lemma run_mono m : forall s k, run prog text m s <> Fuel_ -> run prog text (m + k) s = run prog text m s.
Proof.
  induction m as [|m IH]; intros s k H.
  - destruct s as [c B| | |]; cbn [run Nat.add] in *; try (destruct k; reflexivity).
    destruct (Nat.leb (length prog) (pc c)) eqn:E; [|congruence].
    destruct k; cbn [run]; rewrite E; reflexivity.
  - destruct s as [c B| | |]; cbn [run Nat.add] in *; auto.
    destruct (Nat.leb (length prog) (pc c)); [reflexivity|]. apply IH. exact H.
Qed.

Lemma nlookup_in {A} (l : list (nat * A)) k v : nlookup l k = Some v -> In (k, v) l.
Proof.
  induction l as [|[k' v'] l IH]; cbn [nlookup]; [discriminate|].
  destruct (Nat.eqb_spec k' k); intros H; [inversion H; subst; left; reflexivity|right; apply IH; exact H].
Qed.

(* every subroutine recorded by subs_of has its code in place and a well-formed body *)
Lemma subs_of_code (p : list instr) : forall x o tg bd pd,
  code_at p o (compile x o) -> loop_ok x -> In (tg, (bd, pd)) (subs_of x o) ->
  (exists n, code_at p tg (IStartSub tg n (tg + 1 + rx_len bd) :: compile bd (tg + 1) ++ [IEndSub n pd])) /\ loop_ok bd.
Proof.
  induction x as [ |i|n|n t|a IHa b IHb|a IHa b IHb|items|items mx|id mn mx fw nm b IHb|n b IHb|n b IHb pred];
    intros o tg bd pd Hc Hok Hin; cbn [subs_of] in Hin; try contradiction.
  - cbn [compile] in Hc. apply code_at_app in Hc. destruct Hc as [H1 H2]. rewrite compile_length in H2.
    destruct Hok as [Hoa Hob]. apply in_app_or in Hin. destruct Hin; [eapply IHa|eapply IHb]; eauto.
  - cbn [compile] in Hc. apply code_at_cons in Hc. destruct Hc as [_ Hc].
    apply code_at_app in Hc. destruct Hc as [H1 Hc]. rewrite compile_length in Hc.
    apply code_at_cons in Hc. destruct Hc as [_ Hc]. apply code_at_app in Hc. destruct Hc as [H2 _].
    destruct Hok as [Hoa Hob]. apply in_app_or in Hin. destruct Hin as [Hin|Hin].
    + replace (S o) with (o + 1) in H1 by lia. eapply IHa; eauto.
    + replace (S (S o + rx_len a)) with (o + 2 + rx_len a) in H2 by lia. eapply IHb; eauto.
  - cbn [compile] in Hc. apply code_at_cons in Hc. destruct Hc as [_ Hc]. apply code_at_app in Hc. destruct Hc as [H1 _].
    destruct Hok as [_ Hob]. replace (S o) with (o + 1) in H1 by lia. eapply IHb; eauto.
  - cbn [compile] in Hc. apply code_at_cons in Hc. destruct Hc as [_ Hc]. apply code_at_app in Hc. destruct Hc as [H1 _].
    replace (S o) with (o + 1) in H1 by lia. eapply IHb; eauto.
  - destruct Hin as [E|Hin].
    + inversion E; subst. split; [|exact Hok]. exists n. exact Hc.
    + cbn [compile] in Hc. apply code_at_cons in Hc. destruct Hc as [_ Hc]. apply code_at_app in Hc. destruct Hc as [H1 _].
      replace (S o) with (o + 1) in H1 by lia. eapply IHb; eauto.
Qed.

Lemma code_at_self : code_at prog 0 (compile r 0).
Proof. intros i x H. exact H. Qed.

Lemma subs_ok_defs_of : loop_ok r -> subs_ok prog (defs_of r).
Proof.
  intros Hok t b pred H. unfold defs_of in H. apply nlookup_in in H.
  eapply subs_of_code; eauto. apply code_at_self.
Qed.

(* One attempt: the VM started at offset [off] ends with the FIRST outcome of the specification
   (stacks empty, bindings = the outcome's), or fails when there is none; it never crashes. *)
Theorem attempt_refines off ln cl l :
  loop_ok r -> off <= length text ->
  outs text off (defs_of r) r (off, []) l ->
  exists fuel, forall k,
    match l with
    | [] => run prog text (fuel + k) (Running (init_core off ln cl) []) = NoMatch
    | q :: _ => run prog text (fuel + k) (Running (init_core off ln cl) []) =
                Matched (ocore text off ln cl (rx_len r) [] [] [] q)
    end.
Proof.
  intros Hok Hoff Ho.
  pose proof (proj1 (vm_refines_sem_mut prog text off ln cl (defs_of r) (subs_ok_defs_of Hok)) r (off, []) l Ho) as HP.
  specialize (HP 0 (init_core off ln cl) [] code_at_self eq_refl).
  assert (Hcur : cur (init_core off ln cl) = cursor_at text off ln cl off).
  { unfold cursor_at. rewrite sub_same. reflexivity. }
  specialize (HP Hcur eq_refl).
  assert (Hin : inr text off off) by (split; lia).
  specialize (HP Hin).
  assert (Hf : fresh_at r [] 0) by (split; [exact Hok|intros i l0 _ []]).
  specialize (HP Hf).
  assert (Hl : lvl_ok [] 0) by (intros l0 []).
  assert (Hu : unnamed []) by (intros l0 []).
  assert (Ht : top_ne [] r 0) by (intros o' x _; exact I).
  specialize (HP Hl Hu Ht). cbn [loops vars calls init_core Nat.add] in HP.
  destruct l as [|q rest]; cbn [RefineExec.Run] in HP.
  - destruct (steps_run _ _ HP 0) as (m & _ & E). exists m. intros k.
    rewrite run_mono; rewrite E; cbn; [reflexivity|discriminate].
  - destruct HP as (S' & Hs & _). destruct (steps_run _ _ Hs 0) as (m & _ & E). exists m. intros k.
    assert (E2 : run prog text 0 (Running (ocore text off ln cl (rx_len r) [] [] [] q) (S' ++ [])) =
                 Matched (ocore text off ln cl (rx_len r) [] [] [] q)).
    { cbn [run]. unfold prog at 1. rewrite compile_length. cbn [ocore pc]. rewrite Nat.leb_refl. reflexivity. }
    rewrite run_mono; rewrite E, E2; [reflexivity|discriminate].
Qed.

End Attempt.
