(* C17: both renderings of a result document - compact and tab-indented - are read back by the JSON
   reader of Spec/JsonParse.v as exactly that document. *)
From Spec Require Import JsonParse.
From Proofs Require Import ProcTable.
From Coq Require Import Lia ZifyBool ZifyN.
Local Open Scope N_scope.

Definition allws (w : bytes) : Prop := Forall (fun c => is_ws c = true) w.

(* a text of a document: the tokens of the compact form, with any blanks between them *)
Inductive Renders : json -> bytes -> Prop :=
| r_num z : Renders (JNum z) (itoa_Z z)
| r_str s : Renders (JStr s) (esc_string s)
| r_obj0 w : allws w -> Renders (JObj []) (123 :: w ++ [125])
| r_obj f fs w body : allws w -> RMembers (f :: fs) body -> Renders (JObj (f :: fs)) (123 :: w ++ body)
| r_arr0 w : allws w -> Renders (JArr []) (91 :: w ++ [93])
| r_arr x xs w body : allws w -> RItems (x :: xs) body -> Renders (JArr (x :: xs)) (91 :: w ++ body)
with RMembers : list (bytes * json) -> bytes -> Prop :=
| rm_last k v w1 w2 w3 sv : allws w1 -> allws w2 -> allws w3 -> Renders v sv ->
    RMembers [(k, v)] (esc_string k ++ w1 ++ 58 :: w2 ++ sv ++ w3 ++ [125])
| rm_cons k v f fs w1 w2 w3 w4 sv rest : allws w1 -> allws w2 -> allws w3 -> allws w4 -> Renders v sv -> RMembers (f :: fs) rest ->
    RMembers ((k, v) :: f :: fs) (esc_string k ++ w1 ++ 58 :: w2 ++ sv ++ w3 ++ 44 :: w4 ++ rest)
with RItems : list json -> bytes -> Prop :=
| ri_last v w2 w3 sv : allws w2 -> allws w3 -> Renders v sv -> RItems [v] (w2 ++ sv ++ w3 ++ [93])
| ri_cons v x xs w2 w3 sv rest : allws w2 -> allws w3 -> Renders v sv -> RItems (x :: xs) rest ->
    RItems (v :: x :: xs) (w2 ++ sv ++ w3 ++ 44 :: rest).

Scheme renders_mut := Induction for Renders Sort Prop
  with rmembers_mut := Induction for RMembers Sort Prop
  with ritems_mut := Induction for RItems Sort Prop.
Combined Scheme renders_mutind from renders_mut, rmembers_mut, ritems_mut.

(* fuel a document needs: one per value, member and item *)
Fixpoint jw (j : json) : nat :=
  match j with
  | JNum _ | JStr _ => 1%nat
  | JObj fs => S ((fix go (fs : list (bytes * json)) : nat := match fs with [] => 0%nat | (_, v) :: r => S (jw v + go r) end) fs)
  | JArr xs => S ((fix go (xs : list json) : nat := match xs with [] => 0%nat | v :: r => S (jw v + go r) end) xs)
  end.
Definition mw (fs : list (bytes * json)) : nat := (fix go (fs : list (bytes * json)) : nat := match fs with [] => 0%nat | (_, v) :: r => S (jw v + go r) end) fs.
Definition iw (xs : list json) : nat := (fix go (xs : list json) : nat := match xs with [] => 0%nat | v :: r => S (jw v + go r) end) xs.

(* ---- blanks ---- *)
Lemma skipws_ws w s : allws w -> skipws (w ++ s) = skipws s.
Proof. induction 1 as [|c w Hc _ IH]; cbn [app skipws]; [reflexivity|]. rewrite Hc. exact IH. Qed.

Lemma skipws_solid c s : is_ws c = false -> skipws (c :: s) = c :: s.
Proof. intros H. cbn [skipws]. rewrite H. reflexivity. Qed.

(* ---- strings ---- *)
Lemma hexv_hexd x : x < 16 -> hexv (hexd x) = Some x.
Proof. intros H. unfold hexv, hexd. destruct (x <? 10) eqn:E. - assert ((48 <=? 48 + x) && (48 + x <=? 57) = true) by lia. rewrite H0. f_equal. lia.
  - assert ((48 <=? 87 + x) && (87 + x <=? 57) = false) by lia. rewrite H0. assert ((97 <=? 87 + x) && (87 + x <=? 102) = true) by lia. rewrite H1. f_equal. lia. Qed.

Lemma pstr_byte b : forall f rest acc, pstr (S f) (esc_byte b ++ rest) acc = pstr f rest (acc ++ [b]).
Proof.
  intros f rest acc. unfold esc_byte.
  destruct (b =? 34) eqn:E34. { apply N.eqb_eq in E34. subst. reflexivity. }
  destruct (b =? 92) eqn:E92. { apply N.eqb_eq in E92. subst. reflexivity. }
  destruct (b =? 10) eqn:E10. { apply N.eqb_eq in E10. subst. reflexivity. }
  destruct (b =? 13) eqn:E13. { apply N.eqb_eq in E13. subst. reflexivity. }
  destruct (b =? 9) eqn:E9. { apply N.eqb_eq in E9. subst. reflexivity. }
  destruct ((b <? 32) || (b =? 60) || (b =? 62) || (b =? 38))%bool eqn:Eu.
  - cbn [app pstr N.eqb Pos.eqb].
    assert (Hb : b < 64) by lia.
    assert (H48 : hexv 48 = Some 0) by reflexivity. rewrite H48.
    rewrite (hexv_hexd (b / 16)) by (apply N.div_lt_upper_bound; lia).
    rewrite (hexv_hexd (b mod 16)) by (apply N.mod_lt; lia).
    f_equal. f_equal. f_equal.
    pose proof (N.div_mod b 16 ltac:(lia)) as Hdm. lia.
  - cbn [app pstr]. rewrite E34, E92. assert (b <? 32 = false) by lia. rewrite H. reflexivity.
Qed.

Lemma pstr_run : forall s f rest acc, (length s < f)%nat ->
  pstr f (flat_map esc_byte s ++ 34 :: rest) acc = Some (acc ++ s, rest).
Proof.
  induction s as [|b s IH]; intros f rest acc Hf; (destruct f; [cbn in Hf; lia|]).
  - cbn. rewrite app_nil_r. reflexivity.
  - cbn [flat_map]. rewrite <- app_assoc. rewrite pstr_byte. rewrite IH by (cbn in Hf; lia). rewrite <- app_assoc. reflexivity.
Qed.

Lemma esc_len s : (length s <= length (flat_map esc_byte s))%nat.
Proof.
  induction s as [|b s IH]; cbn [flat_map length]; [lia|]. rewrite app_length.
  assert (1 <= length (esc_byte b))%nat; [|lia]. unfold esc_byte.
  repeat match goal with |- context[if ?c then _ else _] => destruct c end; cbn; lia.
Qed.

Lemma pstring_ok s rest : pstr (S (length (flat_map esc_byte s ++ 34 :: rest))) (flat_map esc_byte s ++ 34 :: rest) [] = Some (s, rest).
Proof. rewrite pstr_run; [reflexivity|]. rewrite app_length. pose proof (esc_len s). lia. Qed.

(* ---- numbers ---- *)
Definition nodigit (rest : bytes) : Prop := match rest with c :: _ => (48 <=? c) && (c <=? 57) = false | [] => True end.

Lemma pdigits_run : forall ds acc any v rest, parse_digits ds acc = Some v -> (ds <> [] \/ any = true) -> nodigit rest ->
  pdigits (ds ++ rest) acc any = Some (v, rest).
Proof.
  induction ds as [|d ds IH]; intros acc any v rest Hp Hne Hr.
  - cbn in Hp. inversion Hp; subst. destruct Hne as [H|H]; [congruence|]. subst any. cbn [app].
    destruct rest as [|c tl]; [reflexivity|]. cbn [nodigit] in Hr. cbn [pdigits]. rewrite Hr. reflexivity.
  - cbn [parse_digits] in Hp. cbn [app pdigits]. unfold is_digit in Hp.
    destruct ((48 <=? d) && (d <=? 57)) eqn:Ed; [|discriminate].
    apply IH; [exact Hp|right; reflexivity|exact Hr].
Qed.

Lemma itoa_first p : exists d rest, itoa_N (Npos p) = d :: rest /\ (48 <=? d) && (d <=? 57) = true.
Proof. destruct (atoi_body_pos p) as (d & rest & E & Hd & _). exists d, rest. split; [exact E|exact Hd]. Qed.

Lemma pnum_ok z rest : nodigit rest -> pnum (itoa_Z z ++ rest) = Some (z, rest).
Proof.
  intros Hr. destruct z as [|p|p]; cbn [itoa_Z].
  - cbn [app pnum N.eqb Pos.eqb pdigits]. cbn. destruct rest as [|c tl]; [reflexivity|]. cbn [nodigit] in Hr. cbn [pdigits]. rewrite Hr. reflexivity.
  - destruct (atoi_body_pos p) as (d & r & E & Hd & Hp). unfold pnum. rewrite E. cbn [app].
    assert (Hne : (d =? 45) = false) by (unfold is_digit in Hd; lia). rewrite Hne.
    change (d :: r ++ rest) with ((d :: r) ++ rest). rewrite <- E.
    apply pdigits_run; [exact Hp|left; rewrite E; discriminate|exact Hr].
  - destruct (atoi_body_pos p) as (d & r & E & Hd & Hp). cbn [app pnum N.eqb Pos.eqb].
    rewrite (pdigits_run (itoa_N (Npos p)) 0 false (Zpos p) rest Hp ltac:(left; rewrite E; discriminate) Hr). reflexivity.
Qed.

(* ---- first characters ---- *)
Definition starts (s : bytes) (P : N -> Prop) : Prop := exists c tl, s = c :: tl /\ P c.

Definition solid (c : N) : Prop := is_ws c = false /\ (c =? 93) = false /\ (c =? 125) = false.

Lemma itoa_Z_first z : starts (itoa_Z z) (fun c => solid c /\ (c =? 34) = false /\ (c =? 123) = false /\ (c =? 91) = false).
Proof.
  destruct z as [|p|p]; cbn [itoa_Z].
  - exists 48, []. repeat split.
  - destruct (itoa_first p) as (d & r & E & Hd). exists d, r. split; [exact E|]. unfold solid, is_ws. repeat split; lia.
  - exists 45, (itoa_N (Npos p)). repeat split.
Qed.

Lemma renders_first j s : Renders j s -> starts s solid.
Proof.
  intros H. destruct H; try (eexists _, _; split; [reflexivity|repeat split]).
  destruct (itoa_Z_first z) as (c & tl & E & H1 & _). exists c, tl. split; assumption.
Qed.

Lemma nodigit_ws_or w rest c : allws w -> (c = 44 \/ c = 125 \/ c = 93) -> nodigit (w ++ c :: rest).
Proof.
  intros Hw Hc. destruct w as [|x w]; cbn [app nodigit].
  - destruct Hc as [-> | [-> | ->]]; reflexivity.
  - inversion Hw; subst. unfold is_ws in *. lia.
Qed.

Lemma skipws_to w c rest : allws w -> is_ws c = false -> skipws (w ++ c :: rest) = c :: rest.
Proof. intros Hw Hc. rewrite skipws_ws by exact Hw. apply skipws_solid. exact Hc. Qed.

Lemma skipws_idem s : skipws (skipws s) = skipws s.
Proof. induction s as [|c s IH]; [reflexivity|]. cbn [skipws]. destruct (is_ws c) eqn:E; [exact IH|]. cbn [skipws]. rewrite E. reflexivity. Qed.

Lemma pval_skip f s : pval f (skipws s) = pval f s.
Proof. destruct f; [reflexivity|]. cbn [pval]. rewrite skipws_idem. reflexivity. Qed.

Lemma pval_ws f w s : allws w -> pval f (w ++ s) = pval f s.
Proof. intros Hw. rewrite <- (pval_skip f (w ++ s)), skipws_ws by exact Hw. apply pval_skip. Qed.

Lemma pitems_skip f s : pitems f (skipws s) = pitems f s.
Proof. destruct f; [reflexivity|]. cbn [pitems]. rewrite pval_skip. reflexivity. Qed.

Lemma renders_skip j sv more : Renders j sv -> exists c tl, skipws (sv ++ more) = c :: tl /\ sv ++ more = c :: tl /\ solid c.
Proof.
  intros H. destruct (renders_first j sv H) as (c & tl & -> & Hc). exists c, (tl ++ more). cbn [app].
  split; [apply skipws_solid; apply Hc|split; [reflexivity|exact Hc]].
Qed.

(* ---- documents ---- *)
Theorem parse_renders_mut :
  (forall j s, Renders j s -> forall rest fuel, (jw j <= fuel)%nat -> nodigit rest -> pval fuel (s ++ rest) = Some (j, rest)) /\
  (forall fs s, RMembers fs s -> forall rest fuel, (mw fs <= fuel)%nat -> pmembers fuel (s ++ rest) = Some (fs, rest)) /\
  (forall xs s, RItems xs s -> forall rest fuel, (iw xs <= fuel)%nat -> pitems fuel (s ++ rest) = Some (xs, rest)).
Proof.
  apply renders_mutind.
  - (* number *) intros z rest fuel Hf Hr. destruct fuel; [cbn in Hf; lia|]. cbn [pval].
    destruct (itoa_Z_first z) as (c & tl & E & (Hws & _ & _) & H34 & H123 & H91).
    assert (Hsk : skipws (itoa_Z z ++ rest) = c :: tl ++ rest) by (rewrite E; cbn [app]; apply skipws_solid; exact Hws).
    rewrite Hsk, H34, H123, H91. change (c :: tl ++ rest) with ((c :: tl) ++ rest). rewrite <- E. rewrite (pnum_ok z rest Hr). reflexivity.
  - (* string *) intros s rest fuel Hf Hr. destruct fuel; [cbn in Hf; lia|]. cbn [pval]. unfold esc_string. cbn [app skipws is_ws N.eqb Pos.eqb orb].
    rewrite <- app_assoc. cbn [app]. rewrite pstring_ok. reflexivity.
  - (* {} *) intros w Hw rest fuel Hf Hr. destruct fuel; [cbn in Hf; lia|]. cbn [pval app skipws is_ws N.eqb Pos.eqb orb].
    rewrite <- app_assoc. cbn [app]. rewrite (skipws_to w 125 rest Hw eq_refl). reflexivity.
  - (* {members} *) intros f fs w body Hw Hm IH rest fuel Hf Hr. destruct fuel; [cbn in Hf; lia|]. cbn [pval app skipws is_ws N.eqb Pos.eqb orb].
    rewrite <- app_assoc.
    assert (Hb : exists tl, body = 34 :: tl) by (inversion Hm; subst; unfold esc_string; cbn [app]; eexists; reflexivity).
    destruct Hb as (tl & Eb). rewrite Eb. cbn [app]. rewrite (skipws_to w 34 (tl ++ rest) Hw eq_refl). cbn [N.eqb Pos.eqb].
    change (34 :: tl ++ rest) with ((34 :: tl) ++ rest). rewrite <- Eb.
    rewrite IH; [reflexivity|]. cbn [jw] in Hf. unfold mw. lia.
  - (* [] *) intros w Hw rest fuel Hf Hr. destruct fuel; [cbn in Hf; lia|]. cbn [pval app skipws is_ws N.eqb Pos.eqb orb].
    rewrite <- app_assoc. cbn [app]. rewrite (skipws_to w 93 rest Hw eq_refl). reflexivity.
  - (* [items] *) intros x xs w body Hw Hi IH rest fuel Hf Hr. destruct fuel; [cbn in Hf; lia|]. cbn [pval app skipws is_ws N.eqb Pos.eqb orb].
    rewrite <- app_assoc. rewrite skipws_ws by exact Hw.
    assert (Hv : exists w2 sv more v, allws w2 /\ Renders v sv /\ body = w2 ++ sv ++ more).
    { inversion Hi as [v0 w2 w3 sv0 Hw2' Hw3' Hv0 | v0 x0 xs0 w2 w3 sv0 more0 Hw2' Hw3' Hv0 Hi0]; subst;
        [exists w2, sv0, (w3 ++ [93]), x | exists w2, sv0, (w3 ++ 44 :: more0), x]; repeat split; assumption. }
    destruct Hv as (w2 & sv & more & v & Hw2 & Hv & Eb).
    assert (Hsk : exists c tl, skipws (body ++ rest) = c :: tl /\ (c =? 93) = false).
    { rewrite Eb. rewrite <- !app_assoc. rewrite skipws_ws by exact Hw2.
      destruct (renders_skip v sv (more ++ rest) Hv) as (c & tl & E1 & _ & (_ & H93 & _)). exists c, tl. split; assumption. }
    destruct Hsk as (c & tl & Ec & H93). rewrite Ec, H93. rewrite <- Ec. rewrite pitems_skip.
    rewrite IH; [reflexivity|]. cbn [jw] in Hf. unfold iw. lia.
  - (* last member *)
    intros k v w1 w2 w3 sv Hw1 Hw2 Hw3 Hv IHv rest fuel Hf. destruct fuel; [cbn in Hf; lia|]. cbn [pmembers].
    unfold esc_string. cbn [app N.eqb Pos.eqb negb]. repeat (rewrite <- app_assoc; cbn [app]).
    rewrite pstring_ok. rewrite (skipws_to w1 58 _ Hw1 eq_refl). cbn [N.eqb Pos.eqb negb].
    rewrite pval_ws by exact Hw2.
    rewrite (IHv (w3 ++ 125 :: rest) fuel); [|cbn in Hf; lia|apply nodigit_ws_or; [exact Hw3|tauto]].
    rewrite (skipws_to w3 125 rest Hw3 eq_refl). reflexivity.
  - (* member, more follow *)
    intros k v f fs w1 w2 w3 w4 sv more Hw1 Hw2 Hw3 Hw4 Hv IHv Hm IHm rest fuel Hf. destruct fuel; [cbn in Hf; lia|]. cbn [pmembers].
    unfold esc_string. cbn [app N.eqb Pos.eqb negb]. repeat (rewrite <- app_assoc; cbn [app]).
    rewrite pstring_ok. rewrite (skipws_to w1 58 _ Hw1 eq_refl). cbn [N.eqb Pos.eqb negb].
    rewrite pval_ws by exact Hw2.
    rewrite (IHv (w3 ++ 44 :: w4 ++ more ++ rest) fuel); [|cbn [mw] in Hf; lia|apply nodigit_ws_or; [exact Hw3|tauto]].
    rewrite (skipws_to w3 44 _ Hw3 eq_refl). cbn [N.eqb Pos.eqb].
    assert (Hb : exists tl, more = 34 :: tl) by (inversion Hm; subst; unfold esc_string; cbn [app]; eexists; reflexivity).
    destruct Hb as (tl & Eb). rewrite Eb. cbn [app]. rewrite (skipws_to w4 34 _ Hw4 eq_refl).
    change (34 :: tl ++ rest) with ((34 :: tl) ++ rest). rewrite <- Eb.
    rewrite IHm; [reflexivity|]. cbn [mw] in Hf. unfold mw. lia.
  - (* last item *)
    intros v w2 w3 sv Hw2 Hw3 Hv IHv rest fuel Hf. destruct fuel; [cbn in Hf; lia|]. cbn [pitems].
    repeat (rewrite <- app_assoc; cbn [app]). rewrite pval_ws by exact Hw2.
    rewrite (IHv (w3 ++ 93 :: rest) fuel); [|cbn in Hf; lia|apply nodigit_ws_or; [exact Hw3|tauto]].
    rewrite (skipws_to w3 93 rest Hw3 eq_refl). reflexivity.
  - (* item, more follow *)
    intros v x xs w2 w3 sv more Hw2 Hw3 Hv IHv Hi IHi rest fuel Hf. destruct fuel; [cbn in Hf; lia|]. cbn [pitems].
    repeat (rewrite <- app_assoc; cbn [app]). rewrite pval_ws by exact Hw2.
    rewrite (IHv (w3 ++ 44 :: more ++ rest) fuel); [|cbn [iw] in Hf; lia|apply nodigit_ws_or; [exact Hw3|tauto]].
    rewrite (skipws_to w3 44 _ Hw3 eq_refl). cbn [N.eqb Pos.eqb].
    rewrite IHi; [reflexivity|]. cbn [iw] in Hf. unfold iw. lia.
Qed.

(* ---- size ---- *)
Lemma renders_size_mut :
  (forall j s, Renders j s -> (jw j <= length s)%nat) /\
  (forall fs s, RMembers fs s -> (mw fs <= length s)%nat) /\
  (forall xs s, RItems xs s -> (iw xs <= length s)%nat).
Proof.
  apply renders_mutind; intros; cbn [jw mw iw length]; repeat (rewrite ?app_length; cbn [length esc_string]); try lia.
  - destruct (itoa_Z_first z) as (c & tl & -> & _). cbn [length]. lia.
  - fold (mw (f :: fs)). lia.
  - fold (iw (x :: xs)). lia.
  - fold (mw (f :: fs)) in *. lia.
  - fold (iw (x :: xs)) in *. lia.
Qed.

Theorem renders_parse_lemma j s : Renders j s -> jparse s = Some j.
Proof.
  intros H. unfold jparse. pose proof (proj1 renders_size_mut j s H) as Hs.
  pose proof (proj1 parse_renders_mut j s H [] (S (length s)) ltac:(lia) I) as Hp. rewrite app_nil_r in Hp. rewrite Hp. reflexivity.
Qed.

(* ---- the two renderers produce such texts ---- *)
Lemma json_ind2 (P : json -> Prop) :
  (forall z, P (JNum z)) -> (forall s, P (JStr s)) ->
  (forall fs, Forall (fun kv => P (snd kv)) fs -> P (JObj fs)) ->
  (forall xs, Forall P xs -> P (JArr xs)) -> forall j, P j.
Proof.
  intros Hn Hs Ho Ha. fix IH 1. intros [z|s|fs|xs].
  - apply Hn. - apply Hs.
  - apply Ho. induction fs as [|[k v] fs IHfs]; constructor; [apply IH|exact IHfs].
  - apply Ha. induction xs as [|v xs IHxs]; constructor; [apply IH|exact IHxs].
Qed.

Lemma allws_nil : allws []. Proof. constructor. Qed.
Lemma allws_tabs n : allws (tabs n). Proof. unfold tabs. induction n; cbn; constructor; auto. Qed.
Lemma allws_cons c w : is_ws c = true -> allws w -> allws (c :: w). Proof. intros; constructor; auto. Qed.
Lemma allws_app a b : allws a -> allws b -> allws (a ++ b). Proof. intros; apply Forall_app; auto. Qed.

(* compact *)
Fixpoint cmem (fs : list (bytes * json)) : bytes :=
  match fs with
  | [] => [125]
  | [(k, v)] => esc_string k ++ 58 :: compact v ++ [125]
  | (k, v) :: r => esc_string k ++ 58 :: compact v ++ 44 :: cmem r
  end.
Fixpoint citm (xs : list json) : bytes :=
  match xs with
  | [] => [93]
  | [v] => compact v ++ [93]
  | v :: r => compact v ++ 44 :: citm r
  end.

Lemma compact_obj fs : compact (JObj fs) = 123 :: cmem fs.
Proof.
  cbn [compact]. f_equal. induction fs as [|[k v] fs IH]; [reflexivity|].
  destruct fs as [|[k2 v2] fs2].
  - cbn [sep_concat cmem]. repeat (rewrite <- app_assoc; cbn [app]). reflexivity.
  - cbn [sep_concat cmem] in *. repeat (rewrite <- app_assoc; cbn [app]). rewrite <- IH.
    repeat (rewrite <- app_assoc; cbn [app]). reflexivity.
Qed.

Lemma compact_arr xs : compact (JArr xs) = 91 :: citm xs.
Proof.
  cbn [compact]. f_equal. induction xs as [|v xs IH]; [reflexivity|].
  destruct xs as [|v2 xs2].
  - cbn [sep_concat citm]. reflexivity.
  - cbn [sep_concat citm] in *. repeat (rewrite <- app_assoc; cbn [app]). rewrite <- IH. reflexivity.
Qed.

Lemma compact_renders : forall j, Renders j (compact j).
Proof.
  apply json_ind2.
  - intros z. apply r_num.
  - intros s. apply r_str.
  - intros fs Hall. rewrite compact_obj. destruct fs as [|f fs]; [apply (r_obj0 [] allws_nil)|].
    apply (r_obj f fs [] (cmem (f :: fs)) allws_nil).
    revert f Hall. induction fs as [|f2 fs IH]; intros [k v] Hall; inversion Hall as [|? ? Hv Hrest]; subst; cbn [snd] in Hv.
    + cbn [cmem]. apply (rm_last k v [] [] [] (compact v) allws_nil allws_nil allws_nil Hv).
    + change (cmem ((k, v) :: f2 :: fs)) with (esc_string k ++ 58 :: compact v ++ 44 :: cmem (f2 :: fs)).
      apply (rm_cons k v f2 fs [] [] [] [] (compact v) (cmem (f2 :: fs)) allws_nil allws_nil allws_nil allws_nil Hv). apply IH. exact Hrest.
  - intros xs Hall. rewrite compact_arr. destruct xs as [|x xs]; [apply (r_arr0 [] allws_nil)|].
    apply (r_arr x xs [] (citm (x :: xs)) allws_nil).
    revert x Hall. induction xs as [|x2 xs IH]; intros v Hall; inversion Hall as [|? ? Hv Hrest]; subst.
    + cbn [citm]. apply (ri_last v [] [] (compact v) allws_nil allws_nil Hv).
    + change (citm (v :: x2 :: xs)) with (compact v ++ 44 :: citm (x2 :: xs)).
      apply (ri_cons v x2 xs [] [] (compact v) (citm (x2 :: xs)) allws_nil allws_nil Hv). apply IH. exact Hrest.
Qed.

Theorem compact_parses_lemma j : jparse (compact j) = Some j.
Proof. apply renders_parse_lemma. apply compact_renders. Qed.

(* tab-indented *)
Fixpoint imem (lvl : nat) (fs : list (bytes * json)) : bytes :=
  match fs with
  | [] => [125]
  | [(k, v)] => esc_string k ++ 58 :: 32 :: indent (S lvl) v ++ 10 :: tabs lvl ++ [125]
  | (k, v) :: r => esc_string k ++ 58 :: 32 :: indent (S lvl) v ++ 44 :: 10 :: tabs (S lvl) ++ imem lvl r
  end.
Fixpoint iitm (lvl : nat) (xs : list json) : bytes :=
  match xs with
  | [] => [93]
  | [v] => indent (S lvl) v ++ 10 :: tabs lvl ++ [93]
  | v :: r => indent (S lvl) v ++ 44 :: 10 :: tabs (S lvl) ++ iitm lvl r
  end.

Lemma indent_obj lvl f fs : indent lvl (JObj (f :: fs)) = 123 :: 10 :: tabs (S lvl) ++ imem lvl (f :: fs).
Proof.
  cbn [indent app]. f_equal. f_equal. revert f. induction fs as [|[k2 v2] fs IH]; intros [k v].
  - cbn [sep_concat imem]. repeat (rewrite <- app_assoc; cbn [app]). reflexivity.
  - specialize (IH (k2, v2)). cbn [sep_concat imem] in *. repeat (rewrite <- app_assoc; cbn [app]).
    f_equal. f_equal. f_equal. f_equal. f_equal. f_equal. f_equal.
    repeat (rewrite <- app_assoc in IH; cbn [app] in IH). exact IH.
Qed.

Lemma indent_arr lvl x xs : indent lvl (JArr (x :: xs)) = 91 :: 10 :: tabs (S lvl) ++ iitm lvl (x :: xs).
Proof.
  cbn [indent app]. f_equal. f_equal. revert x. induction xs as [|v2 xs IH]; intros v.
  - cbn [sep_concat iitm]. repeat (rewrite <- app_assoc; cbn [app]). reflexivity.
  - specialize (IH v2). cbn [sep_concat iitm] in *. repeat (rewrite <- app_assoc; cbn [app]).
    f_equal. f_equal. f_equal. f_equal.
    repeat (rewrite <- app_assoc in IH; cbn [app] in IH). exact IH.
Qed.

Lemma ws10 : is_ws 10 = true. Proof. reflexivity. Qed.
Lemma ws32 : is_ws 32 = true. Proof. reflexivity. Qed.

Lemma indent_renders : forall j lvl, Renders j (indent lvl j).
Proof.
  apply (json_ind2 (fun j => forall lvl, Renders j (indent lvl j))).
  - intros z lvl. apply r_num.
  - intros s lvl. apply r_str.
  - intros fs Hall lvl. destruct fs as [|f fs]; [apply (r_obj0 [] allws_nil)|]. rewrite indent_obj.
    apply (r_obj f fs (10 :: tabs (S lvl)) (imem lvl (f :: fs)) (allws_cons _ _ ws10 (allws_tabs _))).
    revert f Hall. induction fs as [|f2 fs IH]; intros [k v] Hall; inversion Hall as [|? ? Hv Hrest]; subst; cbn [snd] in Hv.
    + cbn [imem].
      pose proof (rm_last k v [] [32] (10 :: tabs lvl) (indent (S lvl) v) allws_nil (allws_cons _ _ ws32 allws_nil)
                          (allws_cons _ _ ws10 (allws_tabs _)) (Hv (S lvl))) as R.
      repeat (rewrite <- app_assoc in R; cbn [app] in R). exact R.
    + change (imem lvl ((k, v) :: f2 :: fs)) with (esc_string k ++ 58 :: 32 :: indent (S lvl) v ++ 44 :: 10 :: tabs (S lvl) ++ imem lvl (f2 :: fs)).
      pose proof (rm_cons k v f2 fs [] [32] [] (10 :: tabs (S lvl)) (indent (S lvl) v) (imem lvl (f2 :: fs)) allws_nil
                          (allws_cons _ _ ws32 allws_nil) allws_nil (allws_cons _ _ ws10 (allws_tabs _)) (Hv (S lvl)) (IH f2 Hrest)) as R.
      repeat (rewrite <- app_assoc in R; cbn [app] in R). exact R.
  - intros xs Hall lvl. destruct xs as [|x xs]; [apply (r_arr0 [] allws_nil)|]. rewrite indent_arr.
    apply (r_arr x xs (10 :: tabs (S lvl)) (iitm lvl (x :: xs)) (allws_cons _ _ ws10 (allws_tabs _))).
    assert (G : forall pre, allws pre -> RItems (x :: xs) (pre ++ iitm lvl (x :: xs))); [|exact (G [] allws_nil)].
    revert x Hall. induction xs as [|x2 xs IH]; intros v Hall pre Hpre; inversion Hall as [|? ? Hv Hrest]; subst.
    + cbn [iitm].
      pose proof (ri_last v pre (10 :: tabs lvl) (indent (S lvl) v) Hpre (allws_cons _ _ ws10 (allws_tabs _)) (Hv (S lvl))) as R.
      repeat (rewrite <- app_assoc in R; cbn [app] in R). exact R.
    + change (iitm lvl (v :: x2 :: xs)) with (indent (S lvl) v ++ 44 :: 10 :: tabs (S lvl) ++ iitm lvl (x2 :: xs)).
      pose proof (ri_cons v x2 xs pre [] (indent (S lvl) v) _ Hpre allws_nil (Hv (S lvl))
                          (IH x2 Hrest (10 :: tabs (S lvl)) (allws_cons _ _ ws10 (allws_tabs _)))) as R.
      repeat (rewrite <- app_assoc in R; cbn [app] in R). exact R.
Qed.

Theorem indent_parses_lemma j : jparse (indent 0 j) = Some j.
Proof. apply renders_parse_lemma. apply indent_renders. Qed.
