(* C20: "no duplicates".  In a tree whose names are unique per directory and contain no slash, the file
   list never names a path twice (directory segments made only of stars excluded, as in C20). *)
From Model Require Import Glob.
From Spec Require Import GlobSpec.
From Proofs Require Import GlobCorrect.
From Coq Require Import Lia.

(* no name contains the separator (as in a real file system) *)
Inductive clean_tree : list node -> Prop :=
| ct_intro cs : Forall (fun n => ~ In slash (node_name n)) cs -> (forall d sub, In (NDir d sub) cs -> clean_tree sub) -> clean_tree cs.

Lemma nodup_app {A} (a b : list A) : NoDup a -> NoDup b -> (forall x, In x a -> ~ In x b) -> NoDup (a ++ b).
Proof.
  induction a as [|x a IH]; intros Ha Hb Hd; cbn; [exact Hb|]. inversion Ha; subst. constructor.
  - intros Hin. apply in_app_or in Hin. destruct Hin as [Hin|Hin]; [contradiction|]. exact (Hd x (or_introl eq_refl) Hin).
  - apply IH; auto. intros y Hy. apply Hd. right. exact Hy.
Qed.

Lemma nodup_flat_map {A B} (f : A -> list B) l : NoDup l -> (forall x, In x l -> NoDup (f x)) ->
  (forall x y z, In x l -> In y l -> In z (f x) -> In z (f y) -> x = y) -> NoDup (flat_map f l).
Proof.
  induction l as [|x l IH]; intros Hl Hf Hd; cbn [flat_map]; [constructor|]. inversion Hl as [|? ? Hnotin Hl']; subst.
  apply nodup_app.
  - apply Hf. left. reflexivity.
  - apply IH; auto.
    + intros y Hy. apply Hf. right. exact Hy.
    + intros a b z Ha Hb. apply Hd; right; assumption.
  - intros z Hz Hz'. apply in_flat_map in Hz'. destruct Hz' as (y & Hy & Hzy).
    assert (x = y) by (apply (Hd x y z); auto; [left; reflexivity|right; exact Hy]). subst y. contradiction.
Qed.

(* what follows the name in a listed path: nothing, or a separator and more *)
Definition tail_ok (t : bytes) : Prop := t = [] \/ exists t', t = slash :: t'.

Lemma name_tail_inj n1 : forall n2 t1 t2, ~ In slash n1 -> ~ In slash n2 -> tail_ok t1 -> tail_ok t2 ->
  n1 ++ t1 = n2 ++ t2 -> n1 = n2.
Proof.
  induction n1 as [|a n1 IH]; intros [|b n2] t1 t2 H1 H2 T1 T2 E; cbn in E.
  - reflexivity.
  - exfalso. destruct T1 as [->|(t' & ->)]; [discriminate|]. inversion E; subst. apply H2. left. reflexivity.
  - exfalso. destruct T2 as [->|(t' & ->)]; [discriminate|]. inversion E; subst. apply H1. left. reflexivity.
  - inversion E; subst. f_equal. apply (IH n2 t1 t2); auto; intros H; [apply H1|apply H2]; right; exact H.
Qed.

Lemma gfl_nil : forall l pre, get_file_list l [] pre = [].
Proof.
  induction l as [|a [|b l'] IHl]; intros pre0; try reflexivity. rewrite gfl_cons. rewrite IHl. cbn.
  destruct (all_stars a); destruct (has_star a); reflexivity.
Qed.

(* every listed path lies below one entry of the directory searched *)
Lemma gfl_shape last : forall ds cs prefix p, wf_tree cs -> Forall (fun seg => all_stars seg = false) ds ->
  In p (get_file_list (ds ++ [last]) cs prefix) ->
  exists e t, In e cs /\ p = prefix ++ [slash] ++ node_name e ++ t /\ tail_ok t.
Proof.
  induction ds as [|seg ds IH]; intros cs prefix p Hwf Hns Hp.
  - cbn [app get_file_list] in Hp. apply in_flat_map in Hp. destruct Hp as (e & He & Hp).
    destruct (negb (is_dir e) && pm (node_name e) last)%bool; [|destruct Hp]. destruct Hp as [<-|[]].
    exists e, []. rewrite app_nil_r. split; [exact He|]. split; [reflexivity|left; reflexivity].
  - inversion Hns as [|? ? Hseg Hns']; subst. inversion Hwf as [? Hnd Hsubwf]; subst.
    assert (Ecase : ds ++ [last] = hd last ds :: tl (ds ++ [last])) by (destruct ds; reflexivity).
    cbn [app] in Hp. rewrite Ecase, gfl_cons, <- Ecase in Hp. rewrite Hseg in Hp. cbn [app] in Hp.
    assert (Hsub : forall e, In p (get_file_list (ds ++ [last]) (children_of e) (prefix ++ [slash] ++ node_name e)) -> In e cs ->
              exists e0 t, In e0 cs /\ p = prefix ++ [slash] ++ node_name e0 ++ t /\ tail_ok t).
    { intros e Hin He. destruct e as [nm|d sub]; [cbn [children_of] in Hin; rewrite gfl_nil in Hin; destruct Hin|].
      cbn [children_of node_name] in *.
      destruct (IH sub _ p (Hsubwf d sub He) Hns' Hin) as (e' & t' & He' & -> & Ht'). exists (NDir d sub), (slash :: node_name e' ++ t'). split; [exact He|]. split.
      - cbn [node_name app]. rewrite <- !app_assoc. reflexivity.
      - right. eexists. reflexivity. }
    destruct (has_star seg).
    + apply in_flat_map in Hp. destruct Hp as (e & He & Hp). destruct (pm (node_name e) seg); [|destruct Hp]. exact (Hsub e Hp He).
    + destruct (find_child cs seg) as [e|] eqn:Ef; [|destruct Hp]. apply (find_child_spec cs seg Hnd) in Ef. destruct Ef as [Hin Hname].
      apply (Hsub e); [rewrite Hname; exact Hp|exact Hin].
Qed.

Lemma same_name_same_node cs x y : NoDup (map node_name cs) -> In x cs -> In y cs -> node_name x = node_name y -> x = y.
Proof.
  induction cs as [|c cs IH]; intros Hnd Hx Hy E; [destruct Hx|]. inversion Hnd as [|? ? Hnotin Hnd']; subst.
  destruct Hx as [<-|Hx]; destruct Hy as [<-|Hy]; auto.
  - exfalso. apply Hnotin. rewrite E. apply in_map. exact Hy.
  - exfalso. apply Hnotin. rewrite <- E. apply in_map. exact Hx.
Qed.

Theorem file_list_nodup_lemma last : forall ds cs prefix,
  wf_tree cs -> clean_tree cs -> Forall (fun seg => all_stars seg = false) ds ->
  NoDup (get_file_list (ds ++ [last]) cs prefix).
Proof.
  induction ds as [|seg ds IH]; intros cs prefix Hwf Hcl Hns; inversion Hwf as [? Hnd Hsubwf]; subst; inversion Hcl as [? Hnames Hsubcl]; subst.
  - cbn [app get_file_list]. apply nodup_flat_map.
    + eapply NoDup_map_inv; exact Hnd.
    + intros e _. destruct (negb (is_dir e) && pm (node_name e) last)%bool; [constructor; [intros []|constructor]|constructor].
    + intros x y z Hx Hy Hzx Hzy.
      destruct (negb (is_dir x) && pm (node_name x) last)%bool; [|destruct Hzx]. destruct (negb (is_dir y) && pm (node_name y) last)%bool; [|destruct Hzy].
      destruct Hzx as [<-|[]]. destruct Hzy as [Hzy|[]]. apply app_inv_head in Hzy. inversion Hzy as [E].
      apply (same_name_same_node cs); auto.
  - inversion Hns as [|? ? Hseg Hns']; subst.
    assert (Ecase : ds ++ [last] = hd last ds :: tl (ds ++ [last])) by (destruct ds; reflexivity).
    cbn [app]. rewrite Ecase, gfl_cons, <- Ecase. rewrite Hseg. cbn [app].
    assert (Hchild : forall e pre, In e cs -> NoDup (get_file_list (ds ++ [last]) (children_of e) pre)).
    { intros e pre He. destruct e as [nm|d sub]; cbn [children_of]; [rewrite gfl_nil; constructor|]. apply IH; eauto. }
    destruct (has_star seg).
    + apply nodup_flat_map.
      * eapply NoDup_map_inv; exact Hnd.
      * intros e He. destruct (pm (node_name e) seg); [apply Hchild; exact He|constructor].
      * intros x y z Hx Hy Hzx Hzy.
        destruct (pm (node_name x) seg); [|destruct Hzx]. destruct (pm (node_name y) seg); [|destruct Hzy].
        destruct x as [nx|dx subx]; [cbn [children_of] in Hzx; rewrite gfl_nil in Hzx; destruct Hzx|].
        destruct y as [ny|dy suby]; [cbn [children_of] in Hzy; rewrite gfl_nil in Hzy; destruct Hzy|].
        cbn [children_of node_name] in *.
        destruct (gfl_shape last ds subx _ z (Hsubwf dx subx Hx) Hns' Hzx) as (ex & tx & Hex & Ezx & Htx).
        destruct (gfl_shape last ds suby _ z (Hsubwf dy suby Hy) Hns' Hzy) as (ey & ty & Hey & Ezy & Hty).
        rewrite Ezx in Ezy. rewrite <- !app_assoc in Ezy. apply app_inv_head in Ezy. cbn [app] in Ezy. inversion Ezy as [E].
        rewrite Forall_forall in Hnames.
        assert (dx = dy).
        { apply (name_tail_inj dx dy (slash :: node_name ex ++ tx) (slash :: node_name ey ++ ty)).
          - exact (Hnames _ Hx).
          - exact (Hnames _ Hy).
          - right. eexists. reflexivity.
          - right. eexists. reflexivity.
          - exact E. }
        apply (same_name_same_node cs); auto.
    + destruct (find_child cs seg) as [e|] eqn:Ef; [|constructor]. apply (find_child_spec cs seg Hnd) in Ef. destruct Ef as [Hin _]. apply Hchild. exact Hin.
Qed.
