(* C13: relocation.  Laying out a stored pattern shifted by d program counters equals applying the
   generator's adjust() to every instruction of the stored code. *)
From Model Require Import Gen.
From Proofs Require Import RefineExec.
From Coq Require Import Lia.

Lemma rx_len_shift d r : rx_len (shift d r) = rx_len r.
Proof. induction r; cbn [shift rx_len]; auto. Qed.

Lemma in_starts_shift items : forall a d, in_starts items (a + d) = map (fun b => b + d) (in_starts items a).
Proof.
  induction items as [|i items IH]; intros a d; cbn [in_starts map]; [reflexivity|].
  f_equal. replace (a + d + 2) with (a + 2 + d) by lia. apply IH.
Qed.

Definition atomic (i : instr) : Prop := adjust 0 i = i /\ forall d, adjust d i = i.

Lemma notin_code_shift items : Forall (fun i => forall d, adjust d i = i) items -> forall a d,
  notin_code items (a + d) = map (adjust d) (notin_code items a).
Proof.
  induction 1 as [|i items Hi _ IH]; intros a d; cbn [notin_code map]; [reflexivity|].
  cbn [adjust]. rewrite Hi. f_equal; [f_equal; lia|]. f_equal. f_equal.
  replace (a + d + 3) with (a + 3 + d) by lia. apply IH.
Qed.

Lemma in_code_shift e items d : Forall (fun i => forall d, adjust d i = i) items ->
  flat_map (fun i : instr => [i; IJump (e + d)]) items = map (adjust d) (flat_map (fun i : instr => [i; IJump e]) items).
Proof.
  induction 1 as [|i items Hi _ IH]; cbn [flat_map map app]; [reflexivity|].
  rewrite Hi. cbn [adjust]. rewrite IH. reflexivity.
Qed.

(* atoms are not touched by adjust *)
Fixpoint atoms_fixed (r : rx) : Prop :=
  match r with
  | XAtom i => forall d, adjust d i = i
  | XIn items | XNotIn items _ => Forall (fun i => forall d, adjust d i = i) items
  | XSeq a b | XAlt a b => atoms_fixed a /\ atoms_fixed b
  | XLoop _ _ _ _ _ b | XDec _ b | XSub _ b _ => atoms_fixed b
  | _ => True
  end.

Theorem gen_relocate_lemma d : forall r o, atoms_fixed r ->
  compile (shift d r) (o + d) = map (adjust d) (compile r o).
Proof.
  induction r as [ |i|n|n t|a IHa b IHb|a IHa b IHb|items|items mx|id mn mx fw nm b IHb|n b IHb|n b IHb pred];
    intros o Hf; cbn [shift compile map atoms_fixed] in *.
  - reflexivity.
  - rewrite Hf. reflexivity.
  - reflexivity.
  - reflexivity.
  - destruct Hf as [Ha Hb]. rewrite map_app, rx_len_shift. rewrite IHa by exact Ha.
    replace (o + d + rx_len a) with (o + rx_len a + d) by lia. rewrite IHb by exact Hb. reflexivity.
  - destruct Hf as [Ha Hb]. rewrite !rx_len_shift. cbn [adjust map].
    rewrite !map_app. cbn [map adjust].
    replace (o + d + 1) with (o + 1 + d) by lia. rewrite IHa by exact Ha.
    replace (o + d + 2 + rx_len a) with (o + 2 + rx_len a + d) by lia. rewrite IHb by exact Hb.
    repeat (f_equal; try lia).
  - cbn [adjust]. f_equal.
    + f_equal. replace (o + d + 1) with (o + 1 + d) by lia. apply in_starts_shift.
    + replace (o + d + 1 + 2 * length items) with (o + 1 + 2 * length items + d) by lia. apply in_code_shift. exact Hf.
  - rewrite map_app. cbn [map adjust]. rewrite notin_code_shift by exact Hf. reflexivity.
  - rewrite rx_len_shift. cbn [adjust]. rewrite map_app. cbn [map adjust].
    replace (o + d + 1) with (o + 1 + d) by lia. rewrite IHb by exact Hf.
    repeat (f_equal; try lia).
  - rewrite map_app. cbn [map adjust]. replace (o + d + 1) with (o + 1 + d) by lia. rewrite IHb by exact Hf. reflexivity.
  - rewrite rx_len_shift. cbn [adjust]. rewrite map_app. cbn [map adjust].
    replace (o + d + 1) with (o + 1 + d) by lia. rewrite IHb by exact Hf.
    repeat (f_equal; try lia).
Qed.
