(* Groundwork for the refinement theorem: text/cursor arithmetic, range of the atoms, code
   placement, multi-step execution, the [Run] predicate and one-step lemmas per instruction. *)
From Model Require Import VM.
From Spec Require Import Sem.
From Coq Require Import Lia.

(* ---------- lists ---------- *)
Lemma firstn_add {A} n m (l : list A) : firstn (n + m) l = firstn n l ++ firstn m (skipn n l).
Proof. revert l; induction n as [|n IH]; intros l; simpl; auto. destruct l; simpl; [destruct m; reflexivity|]. f_equal. apply IH. Qed.

Lemma skipn_add {A} n m (l : list A) : skipn (n + m) l = skipn m (skipn n l).
Proof. revert l; induction n as [|n IH]; intros l; simpl; auto. destruct l; simpl; [destruct m; reflexivity|]. apply IH. Qed.

Section Text.
Variable text : bytes.

Lemma sub_app a b c : a <= b -> b <= c -> sub text a b ++ sub text b c = sub text a c.
Proof.
  intros H1 H2. unfold sub.
  replace (c - a) with ((b - a) + (c - b)) by lia.
  rewrite firstn_add. f_equal. f_equal.
  replace b with (a + (b - a)) at 1 by lia. apply skipn_add.
Qed.

Lemma sub_length a b : b <= length text -> length (sub text a b) = b - a.
Proof. intros H. unfold sub. rewrite firstn_length, skipn_length. lia. Qed.

Lemma sub_same a : sub text a a = [].
Proof. unfold sub. rewrite Nat.sub_diag. reflexivity. Qed.

Lemma skipn_sub_sub s a b : s <= a -> a <= b -> b <= length text ->
  skipn (length (sub text s a)) (sub text s b) = sub text a b.
Proof.
  intros H1 H2 H3. rewrite <- (sub_app s a b) by lia.
  rewrite skipn_app. rewrite skipn_all. rewrite Nat.sub_diag. reflexivity.
Qed.

(* the reader's bounds rule *)
Lemma read_cases pos n :
  (read text pos n = [] ) \/ (read text pos n = sub text pos (pos + n) /\ pos + n <= length text /\ 0 < n).
Proof.
  unfold read. destruct (Nat.eqb_spec n 0); [left; reflexivity|].
  destruct (Nat.ltb_spec (length text) (pos + n)); [left; reflexivity|]. right. repeat split; lia.
Qed.

Lemma consume_len_cases pos n :
  consume_len text pos n = 0 \/ (consume_len text pos n = n /\ pos + n <= length text /\ read text pos n = sub text pos (pos + n)).
Proof.
  unfold consume_len, rd. destruct (read_cases pos n) as [H|(H & Hle & Hn)]; rewrite H.
  - left; reflexivity.
  - right. rewrite sub_length by lia. repeat split; auto; lia.
Qed.

Lemma consume_len_bound pos n : pos <= length text -> pos + consume_len text pos n <= length text.
Proof. intros H. destruct (consume_len_cases pos n) as [E|(E & Hle & _)]; rewrite E; lia. Qed.

Lemma wholeline_loop_bound fuel : forall p, p <= length text ->
  p <= wholeline_loop text fuel p /\ wholeline_loop text fuel p <= length text.
Proof.
  induction fuel as [|f IH]; intros p Hp; cbn [wholeline_loop]; [lia|].
  pose proof (consume_len_bound p 1 Hp) as Hb.
  destruct (Nat.eqb _ _); [lia|]. destruct (at_line_end _ _); [lia|].
  destruct (IH (p + consume_len text p 1) Hb). lia.
Qed.

Lemma wholeword_loop_bound fuel : forall p, p <= length text ->
  p <= wholeword_loop text fuel p /\ wholeword_loop text fuel p <= length text.
Proof.
  induction fuel as [|f IH]; intros p Hp; cbn [wholeword_loop]; [lia|].
  pose proof (consume_len_bound p 1 Hp) as Hb.
  destruct (Nat.eqb _ _); [lia|]. destruct (_ && _)%bool; [lia|].
  destruct (IH (p + consume_len text p 1) Hb). lia.
Qed.

Lemma match_range_from_bound from to nt p k : p <= length text -> forall i p',
  match_range_from text from to nt p i k = Some p' -> p <= p' /\ p' <= length text.
Proof.
  intros Hp. induction k as [|k IH]; intros i p' H; cbn [match_range_from] in H; [discriminate|].
  pose proof (consume_len_bound p i Hp) as Hb.
  destruct (rd text p i) eqn:E.
  - destruct i; [discriminate|]. eapply IH; eauto.
  - destruct (xorb _ _).
    + inversion H; subst. lia.
    + destruct i; [discriminate|]. eapply IH; eauto.
Qed.

Ltac solve_some H Hp :=
  repeat match type of H with
         | (if ?b then _ else _) = Some _ => destruct b
         | match ?x with _ => _ end = Some _ => destruct x eqn:?
         end;
  try discriminate; try (inversion H; subst; clear H);
  try (pose proof (consume_len_bound _ 1 Hp)); try lia.

Lemma atom_pos_range i p p' : p <= length text -> atom_pos text i p = Some p' -> p <= p' /\ p' <= length text.
Proof.
  intros Hp H. destruct i; cbn [atom_pos] in H; try discriminate.
  - (* literal *)
    unfold match_lit in H. destruct (rd text p (length v)); [discriminate|].
    destruct (xorb _ _); [|discriminate]. inversion H; subst.
    pose proof (consume_len_bound p (length v) Hp). lia.
  - (* class *)
    destruct c; cbn [match_class] in H.
    + unfold match_any in H. destruct not; [discriminate|]. destruct (rd text p 1); [discriminate|].
      inversion H; subst. pose proof (consume_len_bound p 1 Hp). lia.
    + unfold match_options in H. destruct (rd text p 1); [discriminate|]. destruct (xorb _ _); [|discriminate].
      inversion H; subst. pose proof (consume_len_bound p 1 Hp). lia.
    + unfold match_range in H. destruct (Nat.ltb _ _); [discriminate|]. eapply match_range_from_bound; eauto.
    + unfold match_range in H. destruct (Nat.ltb _ _); [discriminate|]. eapply match_range_from_bound; eauto.
    + unfold match_range in H. destruct (Nat.ltb _ _); [discriminate|]. eapply match_range_from_bound; eauto.
    + unfold match_letter in H. destruct (rd text p 1) as [|b [|? ?]]; try discriminate.
      destruct (xorb _ _); [|discriminate]. inversion H; subst. pose proof (consume_len_bound p 1 Hp). lia.
    + unfold match_linestart, xorb_not in H. solve_some H Hp.
    + unfold match_filestart, xorb_not in H. solve_some H Hp.
    + unfold match_wordstart, xorb_not in H. solve_some H Hp.
    + unfold match_lineend, xorb_not in H. solve_some H Hp.
    + unfold match_fileend, xorb_not in H. solve_some H Hp.
    + unfold match_wordend, xorb_not in H. solve_some H Hp.
    + unfold match_wholeline in H.
      destruct (_ || _)%bool; [destruct not; [inversion H; subst; lia|discriminate]|].
      destruct not; [discriminate|]. inversion H; subst. apply wholeline_loop_bound; exact Hp.
    + unfold match_wholefile in H.
      destruct (negb _); [destruct not; [inversion H; subst; lia|discriminate]|].
      destruct not; [discriminate|]. inversion H; subst. pose proof (consume_len_bound p (size text) Hp). lia.
    + unfold match_wholeword in H.
      destruct (_ || _)%bool; [destruct not; [inversion H; subst; lia|discriminate]|].
      destruct not; [discriminate|]. inversion H; subst. apply wholeword_loop_bound; exact Hp.
  - (* range *)
    unfold match_range in H. destruct (Nat.ltb _ _); [discriminate|]. eapply match_range_from_bound; eauto.
Qed.

Lemma match_lit_range v nt cl p p' : p <= length text -> match_lit text v nt cl p = Some p' -> p <= p' /\ p' <= length text.
Proof. intros Hp H. apply (atom_pos_range (IMatchLit nt cl v) p p' Hp). exact H. Qed.

(* ---------- cursor ---------- *)
Variables start ln0 cl0 : nat.

Definition cursor0 : cursor := {| pos := start; matched := []; line := ln0; col := cl0 |}.
Definition cursor_at (p : nat) : cursor := consume cursor0 (sub text start p).

Lemma consume_app k a b : consume k (a ++ b) = consume (consume k a) b.
Proof. unfold consume. apply fold_left_app. Qed.

Lemma consume_pos ch : forall k, pos (consume k ch) = pos k + length ch.
Proof. induction ch as [|x ch IH]; intros k; cbn [consume fold_left length]; [lia|]. fold (consume (consume_byte k x) ch). rewrite IH. simpl. lia. Qed.

Lemma consume_matched ch : forall k, matched (consume k ch) = matched k ++ ch.
Proof.
  induction ch as [|x ch IH]; intros k; cbn [consume fold_left]; [rewrite app_nil_r; reflexivity|].
  fold (consume (consume_byte k x) ch). rewrite IH. simpl. rewrite <- app_assoc. reflexivity.
Qed.

Definition inr (p : nat) : Prop := start <= p /\ p <= length text.

Lemma cursor_at_pos p : inr p -> pos (cursor_at p) = p.
Proof. intros [H1 H2]. unfold cursor_at. rewrite consume_pos, sub_length by lia. simpl. lia. Qed.

Lemma cursor_at_matched p : matched (cursor_at p) = sub text start p.
Proof. unfold cursor_at. rewrite consume_matched. reflexivity. Qed.

Lemma cursor_at_advance p p' : start <= p -> p <= p' -> consume (cursor_at p) (sub text p p') = cursor_at p'.
Proof. intros H1 H2. unfold cursor_at. rewrite <- consume_app, sub_app by lia. reflexivity. Qed.

Lemma matched_len_inj p q : inr p -> inr q ->
  length (matched (cursor_at p)) = length (matched (cursor_at q)) -> p = q.
Proof. intros [? ?] [? ?]. rewrite !cursor_at_matched, !sub_length by lia. lia. Qed.

End Text.
