(* The executable oracle [outs_f] is sound for the relation [outs]. *)
From Spec Require Import Sem.
From Coq Require Import Lia.

Section Sound.
Variable text : bytes.
Variable start : nat.
Variable defs : nat -> option (rx * pstmts).

Notation outs := (outs text start defs).
Notation outs_f := (outs_f text start defs).
Notation iter_f := (iter_f text start defs).

Lemma filter_pred_f_sound pred : forall l l', filter_pred_f text start pred l = Some l' -> filter_pred text start pred l l'.
Proof.
  induction l as [|q l IH]; intros l' H; cbn [filter_pred_f] in H.
  - inversion H. constructor.
  - destruct (pred_holds text start pred q) as [[|]|] eqn:E; try discriminate;
      destruct (filter_pred_f text start pred l) as [r'|]; try discriminate; inversion H; subst.
    + apply fp_keep; auto.
    + apply fp_drop; auto.
Qed.

Lemma flat_opt_outs_list f b :
  (forall s l, outs_f f b s = Some l -> outs b s l) ->
  forall la lb, flat_opt (outs_f f b) la = Some lb -> outs_list text start defs b la lb.
Proof.
  intros Hb. induction la as [|s la IH]; intros lb H; cbn [flat_opt] in H.
  - inversion H. constructor.
  - destruct (outs_f f b s) as [l1|] eqn:E1; [|discriminate].
    destruct (flat_opt (outs_f f b) la) as [l2|]; [|discriminate]. inversion H; subst.
    constructor; auto.
Qed.

Lemma outs_f_S f r s : outs_f (S f) r s =
    match r with
    | XEps => Some [s]
    | XAtom i => Some (atom_outs text i s)
    | XRef n => Some (ref_outs text n s)
    | XSeq a b => match outs_f f a s with Some la => flat_opt (outs_f f b) la | None => None end
    | XAlt a b => match outs_f f a s, outs_f f b s with Some la, Some lb => Some (la ++ lb) | _, _ => None end
    | XIn items => Some (flat_map (fun i => atom_outs text i s) items)
    | XNotIn items mx => if Z.ltb mx 0 then None else Some (notin_outs text items mx s)
    | XLoop id mn mx fw nm b => match nm with [] => iter_f f id mn mx fw b 0 s | _ => None end
    | XDec n b => match outs_f f b s with Some la => Some (map (bind text n s) la) | None => None end
    | XSub n b pred => match outs_f f b s with Some l => filter_pred_f text start pred l | None => None end
    | XCall n t => match defs t with
                   | Some (b, pred) => match outs_f f b s with Some l => filter_pred_f text start pred l | None => None end
                   | None => None
                   end
    end.
Proof. reflexivity. Qed.

Lemma iter_f_S f id mn mx fw b c s : iter_f (S f) id mn mx fw b c s =
      if (Nat.leb mn c && negb (within mx c))%bool then Some []
      else
        match outs_f f b s with
        | None => None
        | Some la =>
            match flat_opt (fun q => if Nat.eqb (fst q) (fst s) then Some [] else iter_f f id mn mx fw b (S c) q) la with
            | None => None
            | Some l =>
                if Nat.ltb c mn then Some l
                else if fw then Some (s :: l) else Some (l ++ [s])
            end
        end.
Proof. reflexivity. Qed.

Theorem outs_f_sound_both : forall fuel,
  (forall r s l, outs_f fuel r s = Some l -> outs r s l) /\
  (forall id mn mx fw b c s l, iter_f fuel id mn mx fw b c s = Some l -> iter text start defs id mn mx fw b c s l).
Proof.
  induction fuel as [|f [IHo IHi]]; [split; intros; discriminate|]. split.
  - intros r s l H. rewrite outs_f_S in H. destruct r as [ |i|n|n t|r1 r2|r1 r2|items|items mx|id mn mx fw nm r|n r|n r pred].
    + inversion H. constructor.
    + inversion H. constructor.
    + inversion H. constructor.
    + destruct (defs t) as [[b pred]|] eqn:Ed; [|discriminate].
      destruct (outs_f f b s) as [l0|] eqn:E; [|discriminate].
      eapply o_call; eauto. apply filter_pred_f_sound. exact H.
    + destruct (outs_f f r1 s) as [la|] eqn:E; [|discriminate].
      eapply o_seq; eauto. eapply flat_opt_outs_list; eauto.
    + destruct (outs_f f r1 s) as [la|] eqn:E1; [|discriminate].
      destruct (outs_f f r2 s) as [lb|] eqn:E2; [|discriminate]. inversion H; subst. constructor; auto.
    + inversion H. constructor.
    + destruct (Z.ltb_spec mx 0); [discriminate|]. inversion H. constructor. lia.
    + destruct nm; [|discriminate]. constructor. apply IHi. exact H.
    + destruct (outs_f f r s) as [la|] eqn:E; [|discriminate]. inversion H; subst. constructor. auto.
    + destruct (outs_f f r s) as [l0|] eqn:E; [|discriminate].
      eapply o_sub; eauto. apply filter_pred_f_sound. exact H.
  - intros id mn mx fw b c s l H. rewrite iter_f_S in H.
    destruct (Nat.leb mn c && negb (within mx c))%bool eqn:Eo.
    { inversion H; subst. apply andb_prop in Eo. destruct Eo as [E1 E2].
      apply Nat.leb_le in E1. apply it_over; auto. destruct (within mx c); [discriminate|reflexivity]. }
    cbv iota in H.
    destruct (outs_f f b s) as [la|] eqn:Eb; [|discriminate].
    destruct (flat_opt (fun q => if Nat.eqb (fst q) (fst s) then Some [] else iter_f f id mn mx fw b (S c) q) la) as [l0|] eqn:Ef; [|discriminate].
    assert (His : iters text start defs id mn mx fw b c s la l0).
    { clear H Eb. revert l0 Ef. induction la as [|q la IHla]; intros l0 Ef; cbn [flat_opt] in Ef.
      - inversion Ef. constructor.
      - destruct (Nat.eqb_spec (fst q) (fst s)) as [Ez|Ez].
        + match type of Ef with match ?X with _ => _ end = _ => destruct X as [l2|] eqn:E2 end; [|discriminate].
          inversion Ef; subst. cbn [app]. apply is_zero; auto.
        + destruct (iter_f f id mn mx fw b (S c) q) as [l1|] eqn:E1; [|discriminate].
          match type of Ef with match ?X with _ => _ end = _ => destruct X as [l2|] eqn:E2 end; [|discriminate].
          inversion Ef; subst. apply is_cons; auto. }
    destruct (Nat.ltb_spec c mn) as [Hlt|Hge].
    + inversion H; subst. eapply it_min; eauto.
    + assert (Hw : within mx c = true).
      { destruct (Nat.leb_spec mn c); [|lia]. cbn [andb] in Eo. destruct (within mx c); [reflexivity|discriminate]. }
      destruct fw; inversion H; subst.
      * eapply it_lazy; eauto.
      * eapply it_greedy; eauto.
Qed.

Theorem outs_f_sound fuel r s l : outs_f fuel r s = Some l -> outs r s l.
Proof. apply (proj1 (outs_f_sound_both fuel)). Qed.

End Sound.
