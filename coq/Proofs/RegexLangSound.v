(* C14, semantic side: the pattern the generator resolves from the denotation of a regular expression
   is in the scope of the language theorem (pure) and denotes exactly the language of the expression. *)
From Model Require Import Gen.
From Spec Require Import Sem Lang RegexSpec RegexLang.
From Proofs Require Import RefineBase LangAtoms LangSound.
From Coq Require Import Lia.
Local Open Scope nat_scope.

(* ---- the shape of what the generator emits for an unnamed loop ---- *)
Definition from_body (body : expr) (c : rx) : Prop := exists cur g1 g2, resolve_expr body cur g1 = GOk (c, g2).

Lemma resolve_loop_form mn mx fw body off g r g' :
  resolve_expr (ELoop mn mx fw [] body) off g = GOk (r, g') ->
  exists copies tl, r = fold_right XSeq tl copies /\ length copies = mn /\ Forall (from_body body) copies /\
    ((Z.of_nat mn = mx /\ tl = XEps) \/
     (Z.of_nat mn <> mx /\ exists id c, from_body body c /\
        tl = XLoop id (if Nat.ltb 0 mn then 0 else mn) (if Z.ltb 0 mx then (mx - Z.of_nat mn)%Z else mx) fw [] c)).
Proof.
  intros Hr. cbn [resolve_expr length Nat.eqb andb] in Hr.
  set (entry := gvars g) in *.
  set (tail := fun (cur : nat) (g1 : gstate) =>
      if Z.eqb (Z.of_nat mn) mx then GOk (XEps, g1)
      else gbind (resolve_expr body (cur + 1) (set_vars g1 entry)) (fun '(c0, g2) =>
             let newmin := if Nat.ltb 0 mn then 0 else mn in
             let newmax := if Z.ltb 0 mx then (mx - Z.of_nat mn)%Z else mx in
             let id := gnext g2 in
             GOk (XLoop id newmin newmax fw [] c0, {| gvars := gvars g2; gsubs := gsubs g2; gtrans := gtrans g2; gnext := S id |}))) in *.
  assert (Htail : forall cur g1 T gT, tail cur g1 = GOk (T, gT) ->
            (Z.of_nat mn = mx /\ T = XEps) \/
            (Z.of_nat mn <> mx /\ exists id c, from_body body c /\
               T = XLoop id (if Nat.ltb 0 mn then 0 else mn) (if Z.ltb 0 mx then (mx - Z.of_nat mn)%Z else mx) fw [] c)).
  { intros cur g1 T gT Ht. unfold tail in Ht. destruct (Z.eqb_spec (Z.of_nat mn) mx) as [E|E].
    - inversion Ht; subst. left. auto.
    - destruct (resolve_expr body (cur + 1) (set_vars g1 entry)) as [[c0 g2]|] eqn:E0; [|discriminate]. cbn [gbind] in Ht. inversion Ht; subst.
      right. split; [exact E|]. exists (gnext g2), c0. split; [|reflexivity]. exists (cur + 1), (set_vars g1 entry), g2. exact E0. }
  assert (Hun : forall k cur g1 r1 g1',
            (fix unroll (k : nat) (cur : nat) (g : gstate) (tail : nat -> gstate -> gres (rx * gstate)) : gres (rx * gstate) :=
               match k with
               | O => tail cur g
               | S k' => gbind (resolve_expr body cur (set_vars g entry)) (fun '(c, g1) =>
                         gbind (unroll k' (cur + rx_len c) g1 tail) (fun '(rest, g2) => GOk (XSeq c rest, g2)))
               end) k cur g1 tail = GOk (r1, g1') ->
            exists copies tl gT cur' gc, r1 = fold_right XSeq tl copies /\ length copies = k /\ Forall (from_body body) copies /\ tail cur' gc = GOk (tl, gT)).
  { induction k as [|k IHk]; intros cur g1 r1 g1' Hu.
    - exists [], r1, g1', cur, g1. repeat split; auto.
    - destruct (resolve_expr body cur (set_vars g1 entry)) as [[ci g2]|] eqn:E; [|discriminate]. cbn [gbind] in Hu.
      match type of Hu with gbind ?x _ = _ => destruct x as [[rest g3]|] eqn:E2; [|discriminate] end. cbn [gbind] in Hu. inversion Hu; subst.
      destruct (IHk _ _ _ _ E2) as (copies & tl & gT & cur' & gc & -> & Hl & Hall & Ht).
      exists (ci :: copies), tl, gT, cur', gc. repeat split; cbn [fold_right length]; auto.
      constructor; [|exact Hall]. exists cur, (set_vars g1 entry), g2. exact E. }
  destruct (Hun _ _ _ _ _ Hr) as (copies & tl & gT & cur' & gc & -> & Hl & Hall & Ht).
  exists copies, tl. repeat split; auto. eapply Htail; eauto.
Qed.

(* ---- the language of a row of patterns ---- *)
Section Rows.
Variable defs : nat -> option (rx * pstmts).
Notation lang := (lang defs).

Lemma lang_fold_seq copies tl w :
  lang (fold_right XSeq tl copies) w <->
  exists ws w2, w = concat ws ++ w2 /\ Forall2 (fun c x => lang c x) copies ws /\ lang tl w2.
Proof.
  revert w. induction copies as [|c copies IH]; intros w; cbn [fold_right].
  - split.
    + intros H. exists [], w. repeat split; auto.
    + intros (ws & w2 & -> & HF & H). inversion HF; subst. exact H.
  - split.
    + intros H. apply lang_seq_inv in H. destruct H as (u & v & -> & Hu & Hv). apply IH in Hv. destruct Hv as (ws & w2 & -> & HF & H2).
      exists (u :: ws), w2. cbn [concat]. rewrite app_assoc. repeat split; auto.
    + intros (ws & w2 & -> & HF & H2). inversion HF as [|? x ? ws' Hc HF']; subst. cbn [concat]. rewrite <- app_assoc.
      constructor; [exact Hc|]. apply IH. exists ws', w2. auto.
Qed.

Lemma pure_fold_seq copies tl : Forall pure copies -> pure tl -> pure (fold_right XSeq tl copies).
Proof. induction 1; cbn [fold_right pure]; auto. Qed.

End Rows.

(* ---- bracket items ---- *)
Definition instr_of (c : citem) : instr := listable_instr (tr_item c).

Lemma encode_ascii c : (c < 128)%N -> encode_rune c = [c].
Proof. intros H. unfold encode_rune. apply N.ltb_lt in H. rewrite H. reflexivity. Qed.

Lemma item_local c : item_ascii c -> local_atom (instr_of c).
Proof.
  destruct c as [x|lo hi]; cbn [item_ascii instr_of tr_item listable_instr].
  - intros H. rewrite (encode_ascii x H). apply lit_local.
  - intros [H1 H2]. rewrite (encode_ascii lo H1), (encode_ascii hi H2). exact (one_byte_local _ _ (range1_one false lo hi)).
Qed.

Lemma item_word c w : item_ascii c -> (atom_word (instr_of c) w <-> exists b, w = [b] /\ item_has b c = true).
Proof.
  destruct c as [x|lo hi]; cbn [item_ascii instr_of tr_item listable_instr item_has].
  - intros H. rewrite (encode_ascii x H), lit_word_exact. split.
    + intros [_ ->]. exists x. split; [reflexivity|apply N.eqb_refl].
    + intros (b & -> & E). apply N.eqb_eq in E. subst. split; [discriminate|reflexivity].
  - intros [H1 H2]. rewrite (encode_ascii lo H1), (encode_ascii hi H2), range_word. split; intros (b & -> & E); exists b; (split; [reflexivity|]).
    + destruct E as [E1 E2]. apply N.leb_le in E1, E2. rewrite E1, E2. reflexivity.
    + apply andb_prop in E. destruct E as [E1 E2]. apply N.leb_le in E1, E2. auto.
Qed.

Lemma list_maxsize_ascii items : items <> [] -> Forall item_ascii items -> list_maxsize (map tr_item items) = 1%Z.
Proof.
  intros Hne Hall. unfold list_maxsize.
  assert (Hone : forall c, item_ascii c -> listable_maxsize (tr_item c) = 1%Z).
  { intros [x|lo hi]; cbn [item_ascii tr_item listable_maxsize]; [intros H; rewrite (encode_ascii x H)|intros [_ H]; rewrite (encode_ascii hi H)]; reflexivity. }
  assert (Hfold : forall l, Forall item_ascii l -> forall m, (m = 1 \/ (m = -1 /\ l <> []))%Z ->
            fold_left (fun (m : Z) (l0 : listable) => Z.max m (listable_maxsize l0)) (map tr_item l) m = 1%Z).
  { induction l as [|c l IH]; intros Hl m Hm; cbn [map fold_left].
    - destruct Hm as [->|[_ H]]; [reflexivity|congruence].
    - inversion Hl; subst. apply IH; [assumption|]. left. rewrite (Hone c) by assumption. destruct Hm as [->|[-> _]]; reflexivity. }
  apply Hfold; auto.
Qed.

Section RegexLang.
Variable defs : nat -> option (rx * pstmts).
Notation lang := (lang defs).

Definition good (r : rx) (L : bytes -> Prop) : Prop := pure r /\ forall w, lang r w <-> L w.

Lemma good_atom i L : local_atom i -> (forall w, atom_word i w <-> L w) -> good (XAtom i) L.
Proof.
  intros Hl Hw. split; [exact Hl|]. intros w. rewrite <- Hw. split; [apply lang_atom_inv|apply l_atom].
Qed.

Lemma rl_quant_inv a q lz w : rl_lang (RQ a (Some (q, lz))) w ->
  exists mn mx ws, quant_bounds q = Some (mn, mx) /\ mn <= length ws /\ within mx (length ws) = true /\ Forall (ra_lang a) ws /\ w = concat ws.
Proof. inversion 1; subst. eexists _, _, _. repeat split; eauto. Qed.

Ltac step H x gx E := lazymatch type of H with gbind ?t _ = _ => destruct t as [[x gx]|] eqn:E; [|discriminate]; cbn [gbind] in H end.

Theorem regex_lang_mut :
  (forall a, reg_atom a -> forall g off gs r gs', resolve_expr (fst (tr_atom a g)) off gs = GOk (r, gs') -> good r (ra_lang a)) /\
  (forall l, reg_lit l -> forall g off gs r gs', resolve_expr (fst (tr_lit l g)) off gs = GOk (r, gs') -> good r (rl_lang l)) /\
  (forall p, reg_pat p -> forall g off gs r gs', resolve_expr (fst (tr_pat p g)) off gs = GOk (r, gs') -> good r (rp_lang p)) /\
  (forall d, reg_disj d -> forall g off gs r gs', resolve_exprs (fst (tr_disj d g)) off gs = GOk (r, gs') -> good r (rd_lang d)).
Proof.
  apply regex_mutind.
  - (* RChar *)
    intros c Hc g off gs r gs' H. cbn in H. cbn [reg_atom] in Hc. rewrite (encode_ascii c Hc) in H. inversion H; subst.
    apply good_atom; [apply lit_local|]. intros w. rewrite lit_word_exact. split.
    + intros [_ ->]. constructor.
    + inversion 1; subst. split; [discriminate|reflexivity].
  - (* REscChar *)
    intros c Hc g off gs r gs' H. cbn in H. cbn [reg_atom] in Hc. rewrite (encode_ascii c Hc) in H. inversion H; subst.
    apply good_atom; [apply lit_local|]. intros w. rewrite lit_word_exact. split.
    + intros [_ ->]. constructor.
    + inversion 1; subst. split; [discriminate|reflexivity].
  - (* RDot *)
    intros _ g off gs r gs' H. cbn in H. inversion H; subst.
    apply good_atom; [exact (one_byte_local _ _ (notlit1_one false 10%N))|]. intros w. rewrite dot_word. split.
    + intros (b & -> & Hb). constructor. exact Hb.
    + inversion 1; subst. eauto.
  - (* RCls *)
    intros neg space _ g off gs r gs' H. cbn in H. inversion H; subst. destruct space.
    + apply good_atom; [exact (one_byte_local _ _ (whitespace_one neg))|]. intros w. rewrite whitespace_word. split.
      * intros (b & -> & Hb). constructor. exact Hb.
      * inversion 1; subst. eauto.
    + apply good_atom; [exact (one_byte_local _ _ (digit_one neg))|]. intros w. rewrite digit_word. split.
      * intros (b & -> & Hb). constructor. exact Hb.
      * inversion 1; subst. eauto.
  - (* RBracket *)
    intros neg items [Hne Hall] g off gs r gs' H. cbn [tr_atom fst resolve_expr] in H.
    assert (Hloc : Forall local_atom (map listable_instr (map tr_item items))).
    { rewrite map_map. apply Forall_forall. intros i Hi. apply in_map_iff in Hi. destruct Hi as (c & <- & Hc). apply item_local. rewrite Forall_forall in Hall. auto. }
    assert (Hin : forall i, In i (map listable_instr (map tr_item items)) <-> exists c, In c items /\ i = instr_of c).
    { intros i. rewrite map_map, in_map_iff. split; intros (c & H1 & H2); exists c; auto. }
    assert (Hex : forall b, existsb (item_has b) items = true <-> exists c, In c items /\ item_has b c = true) by (intros b; apply existsb_exists).
    rewrite Forall_forall in Hall.
    destruct neg; inversion H; subst; clear H.
    + (* [^...] *)
      rewrite (list_maxsize_ascii items Hne ltac:(apply Forall_forall; exact Hall)). split.
      * cbn [pure]. split; [exact Hloc|]. split; [lia|]. intros i u Hi Hu. apply Hin in Hi. destruct Hi as (c & Hc & ->).
        apply (item_word c u (Hall c Hc)) in Hu. destruct Hu as (b & -> & _). cbn. lia.
      * intros w. split.
        -- intros HL. apply lang_notin_inv in HL. destruct HL as (Hlen & Hnil & Hno). destruct w as [|b [|b2 w]]; [congruence| |cbn in Hlen; lia].
           constructor. rewrite xorb_true_r. apply Bool.negb_true_iff. destruct (existsb (item_has b) items) eqn:E; [|reflexivity]. exfalso.
           apply Hex in E. destruct E as (c & Hc & Hb). apply (Hno (instr_of c) [b]); [apply Hin; eauto|apply (item_word c [b] (Hall c Hc)); eauto|exists []; reflexivity].
        -- inversion 1 as [| | | |? ? b Hx|]; subst. rewrite xorb_true_r in Hx. apply Bool.negb_true_iff in Hx. constructor; [reflexivity|discriminate|].
           intros i u Hi Hu (v & Ev). apply Hin in Hi. destruct Hi as (c & Hc & ->). apply (item_word c u (Hall c Hc)) in Hu. destruct Hu as (b' & -> & Hb').
           inversion Ev; subst. assert (existsb (item_has b') items = true) by (apply Hex; eauto). congruence.
    + (* [...] *)
      split; [exact Hloc|]. intros w. split.
      * intros HL. apply lang_in_inv in HL. destruct HL as (i & Hi & Hw). apply Hin in Hi. destruct Hi as (c & Hc & ->).
        apply (item_word c w (Hall c Hc)) in Hw. destruct Hw as (b & -> & Hb). constructor. rewrite xorb_false_r. apply Hex. eauto.
      * inversion 1 as [| | | |? ? b Hx|]; subst. rewrite xorb_false_r in Hx. apply Hex in Hx. destruct Hx as (c & Hc & Hb).
        apply (l_in defs _ (instr_of c)); [apply Hin; eauto|apply (item_word c [b] (Hall c Hc)); eauto].
  - (* RBackNum *) intros d [].
  - (* RBackNum2 *) intros d1 d2 [].
  - (* RBackName *) intros id [].
  - (* RGroup *)
    intros k body IH Hreg g off gs r gs' H. cbn [reg_atom] in Hreg.
    assert (Hgrp : forall rb, good rb (rd_lang body) -> good rb (ra_lang (RGroup k body))).
    { intros rb [Hp Hw]. split; [exact Hp|]. intros w. rewrite Hw. split; [apply rl_group|inversion 1; assumption]. }
    assert (Hdec : forall n rb, good rb (rd_lang body) -> good (XSeq (XDec n rb) XEps) (ra_lang (RGroup k body))).
    { intros n rb [Hp Hw]. split; [cbn [pure]; auto|]. intros w. split.
      - intros HL. apply lang_seq_inv in HL. destruct HL as (u & v & -> & Hu & Hv). apply lang_eps_inv in Hv. subst v. rewrite app_nil_r.
        apply lang_dec_inv in Hu. apply rl_group. apply Hw. exact Hu.
      - inversion 1; subst. rewrite <- (app_nil_r w). constructor; [|constructor]. constructor. apply Hw. assumption. }
    destruct k as [| |id]; cbn [tr_atom] in H.
    + destruct (tr_disj body (S g)) as [es g1] eqn:Et. cbn [fst resolve_expr resolve_lit resolve_exprs] in H.
      step H a ga Ea. inversion H; subst. clear H.
      step Ea rb g2 Erb. destruct (alookup (gvars g2) _); [discriminate|]. inversion Ea; subst.
      apply Hdec. specialize (IH Hreg (S g) (off + 1) gs rb g2). rewrite Et in IH. apply IH. exact Erb.
    + destruct (tr_disj body g) as [es g1] eqn:Et. cbn [fst resolve_expr resolve_lit] in H.
      apply Hgrp. specialize (IH Hreg g off gs r gs'). rewrite Et in IH. apply IH. exact H.
    + destruct (tr_disj body g) as [es g1] eqn:Et. cbn [fst resolve_expr resolve_lit resolve_exprs] in H.
      step H a ga Ea. inversion H; subst. clear H.
      step Ea rb g2 Erb. destruct (alookup (gvars g2) _); [discriminate|]. inversion Ea; subst.
      apply Hdec. specialize (IH Hreg g (off + 1) gs rb g2). rewrite Et in IH. apply IH. exact Erb.
  - (* RBol *) intros [].
  - (* REol *) intros [].
  - (* RQ *)
    intros a IH q Hreg g off gs r gs' H. cbn [tr_lit] in H. destruct (tr_atom a g) as [b g1] eqn:Et. cbn [fst] in H.
    destruct q as [[qq lz]|]; cbn [reg_lit apply_q] in *.
    + destruct Hreg as (Ha & Hne & mn & mx & Hq & Hmx). rewrite Hq in H.
      assert (Hbody : forall c, from_body b c -> good c (ra_lang a)).
      { intros c (cur & gx & gy & Hc). specialize (IH Ha g cur gx c gy). rewrite Et in IH. apply IH. exact Hc. }
      destruct (resolve_loop_form _ _ _ _ _ _ _ _ H) as (copies & tl & -> & Hlen & Hcopies & Htl).
      assert (Hcw0 : forall ws, Forall2 (fun c x => lang c x) copies ws <-> length ws = length copies /\ Forall (ra_lang a) ws).
      { clear Htl H Hlen. induction copies as [|c copies IHc]; intros ws.
        - split; [inversion 1; subst; cbn in *; auto|intros [Hl _]; destruct ws; [constructor|cbn in *; lia]].
        - inversion Hcopies as [|? ? Hc Hcs]; subst. destruct (Hbody c Hc) as [_ Hw]. cbn [length]. split.
          + inversion 1 as [|? x ? ws' H1 H2]; subst. apply (IHc Hcs) in H2. destruct H2 as [H2 H3]. cbn [length]. split; [lia|]. constructor; [apply Hw; exact H1|exact H3].
          + intros [Hl Hall]. destruct ws as [|x ws]; [discriminate|]. inversion Hall; subst. constructor; [apply Hw; assumption|]. apply (IHc Hcs). cbn in Hl. split; [lia|assumption]. }
      assert (Hcw : forall ws, Forall2 (fun c x => lang c x) copies ws <-> length ws = mn /\ Forall (ra_lang a) ws) by (rewrite <- Hlen; exact Hcw0).
      assert (Hpc : Forall pure copies).
      { apply Forall_forall. intros c Hc. rewrite Forall_forall in Hcopies. destruct (Hbody c (Hcopies c Hc)) as [Hp _]. exact Hp. }
      destruct Htl as [[Heq ->]|(Hneq & id & c & Hc & ->)].
      * (* exactly mn *)
        split; [apply pure_fold_seq; [exact Hpc|exact I]|]. intros w. rewrite lang_fold_seq. split.
        -- intros (ws & w2 & -> & HF & H2). apply lang_eps_inv in H2. subst w2. rewrite app_nil_r. apply Hcw in HF. destruct HF as [Hl Hall].
           apply (rl_quant a qq lz mn mx ws Hq); [lia| |exact Hall]. unfold within. rewrite Hl. apply Bool.orb_true_iff. right. apply Z.leb_le. lia.
        -- intros HL. apply rl_quant_inv in HL. destruct HL as (mn' & mx' & ws & Hq' & Hmn & Hw & Hall & ->). rewrite Hq in Hq'. inversion Hq'; subst mn' mx'.
           exists ws, []. rewrite app_nil_r. split; [reflexivity|]. split; [|constructor]. apply Hcw. split; [|exact Hall].
           unfold within in Hw. apply Bool.orb_true_iff in Hw. destruct Hw as [Hw|Hw]; [apply Z.eqb_eq in Hw; lia|apply Z.leb_le in Hw; lia].
      * (* mn copies, then a loop of the rest *)
        destruct (Hbody c Hc) as [Hpb Hwb].
        assert (Hnewmin : (if Nat.ltb 0 mn then 0 else mn) = 0) by (destruct (Nat.ltb_spec 0 mn); lia).
        rewrite Hnewmin.
        set (newmax := if Z.ltb 0 mx then (mx - Z.of_nat mn)%Z else mx).
        assert (Hwithin : forall k, within newmax k = within mx (mn + k)).
        { intros k. unfold within, newmax. destruct Hmx as [->|Hmx]; [reflexivity|].
          destruct (Z.ltb_spec 0 mx) as [Hp|Hp]; [|lia].
          destruct (Z.eqb_spec (mx - Z.of_nat mn) (-1)); [lia|]. destruct (Z.eqb_spec mx (-1)); [lia|]. cbn [orb].
          destruct (Z.leb_spec (Z.of_nat k) (mx - Z.of_nat mn)); destruct (Z.leb_spec (Z.of_nat (mn + k)) mx); try reflexivity; lia. }
        split; [apply pure_fold_seq; [exact Hpc|cbn [pure]; auto]|]. intros w. rewrite lang_fold_seq. split.
        -- intros (ws & w2 & -> & HF & H2). apply Hcw in HF. destruct HF as [Hl Hall]. apply lang_loop_inv in H2.
           destruct H2 as (ws2 & -> & _ & Hw2 & Hall2). rewrite <- concat_app.
           apply (rl_quant a qq lz mn mx (ws ++ ws2) Hq).
           ++ rewrite app_length. unfold bytes in *. lia.
           ++ rewrite app_length. unfold bytes in *. rewrite Hl, <- Hwithin. exact Hw2.
           ++ apply Forall_app. split; [exact Hall|]. eapply Forall_impl; [|exact Hall2]. intros x [Hx _]. apply Hwb. exact Hx.
        -- intros HL. apply rl_quant_inv in HL. destruct HL as (mn' & mx' & ws & Hq' & Hmn & Hw & Hall & ->). rewrite Hq in Hq'. inversion Hq'; subst mn' mx'.
           exists (firstn mn ws), (concat (skipn mn ws)). rewrite <- concat_app, firstn_skipn. split; [reflexivity|].
           assert (Hf : Forall (ra_lang a) (firstn mn ws) /\ Forall (ra_lang a) (skipn mn ws)) by (apply Forall_app; rewrite firstn_skipn; exact Hall).
           split; [apply Hcw; split; [rewrite firstn_length; lia|tauto]|].
           constructor; [lia| |].
           ++ rewrite Hwithin, skipn_length. replace (mn + (length ws - mn)) with (length ws) by lia. exact Hw.
           ++ eapply Forall_impl; [|exact (proj2 Hf)]. intros x Hx. split; [apply Hwb; exact Hx|apply Hne; exact Hx].
    + specialize (IH Hreg g off gs r gs'). rewrite Et in IH. destruct (IH H) as [Hp Hw]. split; [exact Hp|]. intros w. rewrite Hw. split; [apply rl_plain|inversion 1; assumption].
  - (* POne *)
    intros l IH Hreg g off gs r gs' H. cbn [tr_pat reg_pat] in *. destruct (IH Hreg g off gs r gs' H) as [Hp Hw]. split; [exact Hp|].
    intros w. rewrite Hw. split; [apply rl_one|inversion 1; assumption].
  - (* PAlt *)
    intros l IHl p IHp [Hl Hp] g off gs r gs' H. cbn [tr_pat] in H.
    destruct (tr_lit l g) as [s g1] eqn:El. destruct (tr_pat p g1) as [e g2] eqn:Ep. cbn [fst resolve_expr resolve_lit resolve_exprs] in H.
    step H a ga Ea. step H b gb Eb. inversion H; subst. clear H.
    step Ea rs g3 Ers.
    specialize (IHl Hl g (off + 1) gs rs g3). rewrite El in IHl. destruct (IHl Ers) as [Hps Hws].
    inversion Ea; subst. clear Ea.
    pose proof (IHp Hp g1) as IHp'. rewrite Ep in IHp'. destruct (IHp' _ _ _ _ Eb) as [Hpb Hwb].
    split; [cbn [pure]; auto|]. intros w. split.
    + intros HL. apply lang_alt_inv in HL. destruct HL as [HL|HL].
      * apply lang_seq_inv in HL. destruct HL as (u & v & -> & Hu & Hv). apply lang_eps_inv in Hv. subst v. rewrite app_nil_r. apply rl_alt_l. apply Hws. exact Hu.
      * apply rl_alt_r. apply Hwb. exact HL.
    + inversion 1; subst.
      * apply l_alt_l. rewrite <- (app_nil_r w). constructor; [apply Hws; assumption|constructor].
      * apply l_alt_r. apply Hwb. assumption.
  - (* DNil *)
    intros _ g off gs r gs' H. cbn in H. inversion H; subst. split; [exact I|]. intros w. split; [intros HL; apply lang_eps_inv in HL; subst; constructor|inversion 1; constructor].
  - (* DCons *)
    intros p IHp d IHd [Hp Hd] g off gs r gs' H. cbn [tr_disj] in H.
    destruct (tr_pat p g) as [e g1] eqn:Ep. destruct (tr_disj d g1) as [es g2] eqn:Ed. cbn [fst resolve_exprs] in H.
    step H a ga Ea. step H b gb Eb. inversion H; subst. clear H.
    specialize (IHp Hp g off gs a ga). rewrite Ep in IHp. destruct (IHp Ea) as [Hpa Hwa].
    pose proof (IHd Hd g1) as IHd'. rewrite Ed in IHd'. destruct (IHd' _ _ _ _ Eb) as [Hpb Hwb].
    split; [cbn [pure]; auto|]. intros w. split.
    + intros HL. apply lang_seq_inv in HL. destruct HL as (u & v & -> & Hu & Hv). constructor; [apply Hwa; exact Hu|apply Hwb; exact Hv].
    + inversion 1; subst. constructor; [apply Hwa; assumption|apply Hwb; assumption].
Qed.

End RegexLang.
