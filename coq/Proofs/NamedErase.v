(* Named loops and match positions.  Naming a loop changes where captures are recorded (in the loop's
   per-iteration maps instead of the environment) and nothing else: for bytecode without back-references
   (the only instruction that reads the environment), the VM run of a program and of the same program
   with all loop names erased proceed in lock step - same pc, same cursor, same stacks - so they report
   the same matches up to the variables. *)
From Model Require Import Engine.
From Coq Require Import Lia.

Definition erase_instr (i : instr) : instr :=
  match i with
  | IStartLoop id mn mx fw ex _ => IStartLoop id mn mx fw ex []
  | IStopLoop id mn mx fw st _ => IStopLoop id mn mx fw st []
  | _ => i
  end.

Definition no_backref (prog : list instr) : Prop := Forall (fun i => match i with IMatchVar _ => False | _ => True end) prog.

(* loop frames agree on everything the control flow reads *)
Definition lsim (l l' : loopst) : Prop :=
  lid l = lid l' /\ llevel l = llevel l' /\ liter l = liter l' /\ lstart l = lstart l'.

Definition csim (c c' : core) : Prop :=
  pc c = pc c' /\ cur c = cur c' /\ vars c = vars c' /\ calls c = calls c' /\ Forall2 lsim (loops c) (loops c').

Definition ssim (s s' : state) : Prop :=
  match s, s' with
  | Running c B, Running c' B' => csim c c' /\ Forall2 csim B B'
  | Failed, Failed => True
  | Crashed w, Crashed w' => w = w'
  | NoFuel, NoFuel => True
  | _, _ => False
  end.

Lemma bt_sim B B' : Forall2 csim B B' -> ssim (bt B) (bt B').
Proof. intros H. destruct H; cbn; auto. Qed.

Lemma lsim_refl l : lsim l l.
Proof. unfold lsim. auto. Qed.
Lemma lsim_sym l l' : lsim l l' -> lsim l' l.
Proof. unfold lsim. intuition congruence. Qed.
Lemma lsim_trans a b c : lsim a b -> lsim b c -> lsim a c.
Proof. unfold lsim. intuition congruence. Qed.

Lemma F2_refl ls : Forall2 lsim ls ls.
Proof. induction ls; constructor; auto using lsim_refl. Qed.
Lemma F2_sym ls ls' : Forall2 lsim ls ls' -> Forall2 lsim ls' ls.
Proof. induction 1; constructor; auto using lsim_sym. Qed.
Lemma F2_trans a b c : Forall2 lsim a b -> Forall2 lsim b c -> Forall2 lsim a c.
Proof. intros H. revert c. induction H; intros c' H'; inversion H'; subst; constructor; eauto using lsim_trans. Qed.

(* recording a variable changes no control field of any frame *)
Lemma insert_variable_keeps n v : forall ls e, Forall2 lsim ls (fst (insert_variable ls e n v)).
Proof.
  induction ls as [|l r IH]; intros e; cbn [insert_variable]; [constructor|].
  destruct (Nat.eqb (length (lname l)) 0).
  - specialize (IH e). destruct (insert_variable r e n v) as [r1 e1]. cbn [fst] in *. constructor; [apply lsim_refl|exact IH].
  - cbn [fst]. constructor; [unfold lsim, insert_iter; cbn; auto|apply F2_refl].
Qed.

Lemma insert_variable_sim n v v' ls ls' e e' : Forall2 lsim ls ls' ->
  Forall2 lsim (fst (insert_variable ls e n v)) (fst (insert_variable ls' e' n v')).
Proof.
  intros H. eapply F2_trans; [apply F2_sym; apply insert_variable_keeps|]. eapply F2_trans; [exact H|apply insert_variable_keeps].
Qed.

Lemma pop_loop_sim ls ls' e e' : Forall2 lsim ls ls' ->
  match pop_loop ls e, pop_loop ls' e' with
  | Some (l, rest, _), Some (l', rest', _) => lsim l l' /\ Forall2 lsim rest rest'
  | None, None => True
  | _, _ => False
  end.
Proof.
  intros H. destruct H as [|l l' r r' Hl Hr]; cbn [pop_loop]; [exact I|].
  assert (Ha : forall (x : loopst) (rr : list loopst) (ee : env), exists rest e2, (if Nat.eqb (length (lname x)) 0 then Some (x, rr, ee)
              else let '(r1, e1) := insert_variable rr ee (lname x) (VMap (lvars x)) in Some (x, r1, e1)) = Some (x, rest, e2) /\ Forall2 lsim rr rest).
  { intros x rr ee. destruct (Nat.eqb (length (lname x)) 0); [exists rr, ee; split; [reflexivity|apply F2_refl]|].
    pose proof (insert_variable_keeps (lname x) (VMap (lvars x)) rr ee) as K. destruct (insert_variable rr ee (lname x) (VMap (lvars x))) as [r1 e1].
    exists r1, e1. split; [reflexivity|exact K]. }
  destruct (Ha l r e) as (rest & e2 & -> & K). destruct (Ha l' r' e') as (rest' & e2' & -> & K').
  split; [exact Hl|]. eapply F2_trans; [apply F2_sym; exact K|]. eapply F2_trans; [exact Hr|exact K'].
Qed.

Lemma enter_loop_sim id nm nm' c c' : csim c c' ->
  match enter_loop id nm c, enter_loop id nm' c' with
  | Some ls, Some ls' => Forall2 lsim ls ls' /\ match ls, ls' with l :: _, l' :: _ => liter l = liter l' | [], [] => True | _, _ => False end
  | None, None => True
  | _, _ => False
  end.
Proof.
  intros (Hpc & Hcur & Hv & Hk & Hl). unfold enter_loop. rewrite <- Hk, <- Hcur.
  assert (Hfresh : lsim (fresh_loop id nm c) (fresh_loop id nm' c')) by (unfold lsim, fresh_loop; cbn; rewrite Hk, Hcur; auto).
  destruct Hl as [|l l' r r' (A & B & C & D) Hr].
  - split; [constructor; [exact Hfresh|constructor]|reflexivity].
  - rewrite <- A, <- B, <- D.
    destruct (Nat.eqb (lid l) id && Nat.eqb (llevel l) (length (calls c)))%bool.
    + destruct (Nat.eqb (lstart l) (length (matched (cur c)))); [exact I|]. split; [|cbn; congruence].
      constructor; [unfold lsim; cbn; repeat split; congruence|exact Hr].
    + split; [|reflexivity]. constructor; [exact Hfresh|]. constructor; [unfold lsim; auto|exact Hr].
Qed.

Section Sim.
Variable prog : list instr.
Variable text : bytes.
Hypothesis Hnb : no_backref prog.
Let prog' := map erase_instr prog.

Lemma csim_same c c' k k' : csim c c' -> pc k = pc k' -> cur k = cur k' -> vars k = vars k' -> calls k = calls k' -> Forall2 lsim (loops k) (loops k') -> csim k k'.
Proof. unfold csim. auto. Qed.

Ltac same := unfold csim in *; cbn; intuition congruence.

Theorem step_sim c c' B B' : csim c c' -> Forall2 csim B B' -> ssim (step prog text c B) (step prog' text c' B').
Proof.
  intros Hc HB. pose proof Hc as (Hpc & Hcur & Hv & Hk & Hl).
  unfold step, prog'. rewrite nth_error_map, <- Hpc.
  destruct (nth_error prog (pc c)) as [i|] eqn:Ei; cbn [option_map]; [|reflexivity].
  assert (Hi : match i with IMatchVar _ => False | _ => True end).
  { unfold no_backref in Hnb. rewrite Forall_forall in Hnb. apply Hnb. eapply nth_error_In; eauto. }
  assert (Hadv : forall p', csim (advance text c p') (advance text c' p')).
  { intros p'. unfold advance, set_cur, csim. cbn. rewrite Hpc, Hcur. repeat split; auto. }
  assert (Hatom : forall r, ssim (atom_result text c B r) (atom_result text c' B' r)).
  { intros [p'|]; cbn [atom_result]; [split; [apply Hadv|exact HB]|apply bt_sim; exact HB]. }
  assert (Hset : forall p, csim (set_pc c p) (set_pc c' p)) by (intros p; same).
  destruct i; cbn [erase_instr]; try rewrite <- Hcur.
  - apply Hatom.
  - apply Hatom.
  - contradiction.
  - apply Hatom.
  - split; [same|exact HB].
  - destruct bs as [|b0 rest]; [reflexivity|]. split; [apply Hset|]. apply Forall2_app; [|exact HB].
    clear Ei. induction rest; cbn; constructor; auto.
  - split; [apply Hset|]. constructor; [apply Hset|exact HB].
  - inversion HB as [|x x' t t' Hx Ht]; subst; [exact I|]. inversion Ht as [|y y' u u' Hy Hu]; subst; [exact I|]. split; assumption.
  - destruct maxsize as [|p|p]; try reflexivity; (destruct (Nat.eqb _ 0); [apply bt_sim; exact HB|split; [apply Hadv|exact HB]]).
  - pose proof (enter_loop_sim id nm [] c c' Hc) as He.
    destruct (enter_loop id nm c) as [ls|]; destruct (enter_loop id [] c') as [ls'|]; try contradiction; [|apply bt_sim; exact HB].
    destruct He as [Hls Hit].
    assert (Hcnt : match ls with l :: _ => liter l | [] => 0 end = match ls' with l :: _ => liter l | [] => 0 end).
    { destruct ls; destruct ls'; try contradiction; auto. }
    rewrite <- Hcnt.
    assert (Hsl : forall p l1 l2 e1 e2, Forall2 lsim l1 l2 -> csim (set_loops c p l1 e1) (set_loops c' p l2 e2)) by (intros; same).
    destruct (Nat.ltb _ mn); [split; [apply Hsl; exact Hls|exact HB]|].
    destruct (within mx _); [|apply bt_sim; exact HB].
    pose proof (pop_loop_sim ls ls' (cenv c) (cenv c') Hls) as Hp.
    destruct (pop_loop ls (cenv c)) as [[[l rest] e1]|]; destruct (pop_loop ls' (cenv c')) as [[[l' rest'] e1']|]; try contradiction; [|reflexivity].
    destruct Hp as [Hll Hrr].
    destruct fewest.
    + split; [apply Hsl; exact Hrr|]. constructor; [apply Hsl; exact Hls|exact HB].
    + split; [apply Hsl; constructor; assumption|]. constructor; [apply Hsl; exact Hrr|exact HB].
  - split; [apply Hset|exact HB].
  - split; [same|exact HB].
  - rewrite <- Hv. destruct (vars c) as [|[m st] vs]; [reflexivity|]. destruct (bytes_eqb m n); [|reflexivity].
    pose proof (insert_variable_sim n (VStr (skipn st (matched (cur c)))) (VStr (skipn st (matched (cur c)))) (loops c) (loops c') (cenv c) (cenv c') Hl) as Hiv.
    destruct (insert_variable (loops c) (cenv c) n _) as [ls1 e1]. destruct (insert_variable (loops c') (cenv c') n _) as [ls1' e1']. cbn [fst] in Hiv.
    split; [unfold csim; cbn; repeat split; auto|exact HB].
  - rewrite <- Hk. destruct (calls c) as [|[i0 r0] K]; [split; [same|exact HB]|]. destruct (Nat.eqb i0 id); (split; [same|exact HB]).
  - rewrite <- Hk. destruct (calls c) as [|[i0 r0] K]; [reflexivity|].
    assert (Hpe : pred_env c = pred_env c') by (unfold pred_env; rewrite Hcur; reflexivity).
    destruct validate as [|s0 ss]; [split; [same|exact HB]|]. rewrite <- Hpe.
    destruct (run_program _ _ _) as [v| |]; try reflexivity. destruct (get_boolean v); [split; [same|exact HB]|apply bt_sim; exact HB].
  - split; [apply Hset|exact HB].
Qed.

Definition osim (o o' : outcome) : Prop :=
  match o, o' with
  | Matched c, Matched c' => cur c = cur c'
  | NoMatch, NoMatch => True
  | Crash_ w, Crash_ w' => w = w'
  | Fuel_, Fuel_ => True
  | _, _ => False
  end.

Theorem run_sim fuel : forall s s', ssim s s' -> osim (run prog text fuel s) (run prog' text fuel s').
Proof.
  induction fuel as [|f IH]; intros s s' H; destruct s as [c B| | |]; destruct s' as [c' B'| | |]; cbn [ssim] in H; try contradiction; cbn [run osim]; auto.
  - destruct H as [(Hpc & Hcur & _) _]. unfold prog'. rewrite map_length, <- Hpc. destruct (Nat.leb _ _); cbn; auto.
  - destruct H as [Hc HB]. pose proof Hc as (Hpc & Hcur & _). unfold prog' at 1. rewrite map_length, <- Hpc.
    destruct (Nat.leb _ _); [cbn; exact Hcur|]. apply IH. apply step_sim; assumption.
Qed.

End Sim.

(* ---- the scan: same matches up to the variables ---- *)
Definition strip (m : mrec) : mrec :=
  {| mnum := mnum m; mstart := mstart m; mend := mend m; mlstart := mlstart m; mlend := mlend m;
     mcstart := mcstart m; mcend := mcend m; mvalue := mvalue m; mrepl := mrepl m; mvars := [] |}.

Definition sres_sim (a b : sres) : Prop :=
  match a, b with
  | SOk R, SOk R' => map strip R = map strip R'
  | SCrash w, SCrash w' => w = w'
  | SFuel, SFuel => True
  | _, _ => False
  end.

Section ScanSim.
Variables att att' : nat -> nat -> nat -> outcome.
Variable text : bytes.
Variables (all : bool) (skip take last : nat).
Hypothesis Hatt : forall off ln cl, osim (att off ln cl) (att' off ln cl).

Lemma map_strip_length R R' : map strip R = map strip R' -> length R = length R'.
Proof. intros H. apply (f_equal (@length _)) in H. rewrite !map_length in H. exact H. Qed.

Lemma map_strip_skipn k : forall R R', map strip R = map strip R' -> map strip (skipn k R) = map strip (skipn k R').
Proof.
  induction k as [|k IH]; intros R R' H; [exact H|]. destruct R; destruct R'; try discriminate; [reflexivity|].
  cbn [skipn]. apply IH. cbn [map] in H. apply (f_equal (@tl _)) in H. exact H.
Qed.

Theorem scan_sim : forall n off ln cl num acc acc', map strip acc = map strip acc' ->
  sres_sim (scan att text all skip take last n off ln cl num acc) (scan att' text all skip take last n off ln cl num acc').
Proof.
  induction n as [|n IH]; intros off ln cl num acc acc' Hacc; cbn [scan]; [exact I|].
  destruct (all || Nat.ltb num (skip + take))%bool; [|exact Hacc].
  unfold scan_iter. pose proof (Hatt off ln cl) as Ho.
  assert (Hfail : sres_sim
            match (match fail_step text off ln cl with None => IRStop (SCrash CrBadInstr) | Some (o, l, k) => IRNext o l k num acc end) with
            | IRStop w => w
            | IRNext off' ln' cl' num' acc0 => if Nat.leb (length text) off' then SOk acc0 else scan att text all skip take last n off' ln' cl' num' acc0
            end
            match (match fail_step text off ln cl with None => IRStop (SCrash CrBadInstr) | Some (o, l, k) => IRNext o l k num acc' end) with
            | IRStop w => w
            | IRNext off' ln' cl' num' acc0 => if Nat.leb (length text) off' then SOk acc0 else scan att' text all skip take last n off' ln' cl' num' acc0
            end).
  { destruct (fail_step text off ln cl) as [[[o l] k]|]; [|reflexivity]. destruct (Nat.leb (length text) o); [exact Hacc|apply IH; exact Hacc]. }
  destruct (att off ln cl) as [c| |w|]; destruct (att' off ln cl) as [c'| |w'|]; cbn [osim] in Ho; try contradiction; try exact Hfail; try exact I.
  - rewrite <- Ho. destruct (negb (Nat.eqb (length (matched (cur c))) 0)); [|exact Hfail].
    assert (Hpush : map strip (push_match skip last num off ln cl c acc) = map strip (push_match skip last num off ln cl c' acc')).
    { unfold push_match. destruct (Nat.leb skip num); [|exact Hacc].
      assert (Hsn : map strip (acc ++ [make_match (S num) off ln cl c]) = map strip (acc' ++ [make_match (S num) off ln cl c'])).
      { rewrite !map_app, Hacc. f_equal. cbn. unfold strip, make_match. cbn. rewrite Ho. reflexivity. }
      destruct (Nat.eqb last 0); [exact Hsn|]. unfold limit. rewrite (map_strip_length _ _ Hsn). apply map_strip_skipn. exact Hsn. }
    destruct (Nat.leb (length text) (pos (cur c))); [exact Hpush|apply IH; exact Hpush].
  - subst. reflexivity.
Qed.

End ScanSim.

(* ---- erasing the names of a pattern ---- *)
Fixpoint unname (r : rx) : rx :=
  match r with
  | XSeq a b => XSeq (unname a) (unname b)
  | XAlt a b => XAlt (unname a) (unname b)
  | XLoop id mn mx fw _ b => XLoop id mn mx fw [] (unname b)
  | XDec n b => XDec n (unname b)
  | XSub n b p => XSub n (unname b) p
  | _ => r
  end.

Fixpoint noref (r : rx) : Prop :=
  match r with
  | XRef _ => False
  | XSeq a b | XAlt a b => noref a /\ noref b
  | XLoop _ _ _ _ _ b | XDec _ b | XSub _ b _ => noref b
  | XIn items | XNotIn items _ => Forall (fun i => match i with IMatchVar _ => False | _ => True end) items
  | XAtom i => match i with IMatchVar _ => False | _ => True end
  | _ => True
  end.

Lemma unname_len r : rx_len (unname r) = rx_len r.
Proof. induction r; cbn [unname rx_len]; auto. Qed.

Lemma notin_code_erase items : (forall i, In i items -> erase_instr i = i) -> forall o, map erase_instr (notin_code items o) = notin_code items o.
Proof.
  intros H. induction items as [|i r IH]; intros o; cbn [notin_code map]; [reflexivity|].
  cbn [erase_instr]. rewrite (H i (or_introl eq_refl)), IH; [reflexivity|]. intros j Hj. apply H. right. exact Hj.
Qed.

(* instructions found in in / not in lists are text-matching instructions: erasing changes nothing; we ask it of the pattern *)
Fixpoint lists_plain (r : rx) : Prop :=
  match r with
  | XSeq a b | XAlt a b => lists_plain a /\ lists_plain b
  | XLoop _ _ _ _ _ b | XDec _ b | XSub _ b _ => lists_plain b
  | XIn items | XNotIn items _ => forall i, In i items -> erase_instr i = i
  | XAtom i => erase_instr i = i
  | _ => True
  end.

Lemma compile_unname : forall r o, lists_plain r -> compile (unname r) o = map erase_instr (compile r o).
Proof.
  induction r; intros o Hp; cbn [unname compile map lists_plain] in *; try reflexivity.
  - rewrite Hp. reflexivity.
  - destruct Hp as [Ha Hb]. rewrite map_app, unname_len, IHr1, IHr2; auto.
  - destruct Hp as [Ha Hb]. rewrite !unname_len. cbn [erase_instr]. rewrite !map_app. cbn [map erase_instr].
    rewrite IHr1, IHr2; auto.
  - cbn [erase_instr]. f_equal. generalize (o + 1 + 2 * length items). intros e. induction items as [|i r IH]; [reflexivity|]. cbn [flat_map map app erase_instr].
    rewrite (Hp i (or_introl eq_refl)). f_equal. f_equal. apply IH. intros j Hj. apply Hp. right. exact Hj.
  - rewrite map_app. cbn [map erase_instr]. rewrite notin_code_erase; [reflexivity|exact Hp].
  - rewrite unname_len. cbn [erase_instr]. f_equal. rewrite map_app. cbn [map erase_instr]. rewrite IHr; auto.
  - cbn [erase_instr]. f_equal. rewrite map_app. cbn [map erase_instr]. rewrite IHr; auto.
  - rewrite unname_len. cbn [erase_instr]. f_equal. rewrite map_app. cbn [map erase_instr]. rewrite IHr; auto.
Qed.

Lemma noref_no_backref : forall r o, noref r -> no_backref (compile r o).
Proof.
  unfold no_backref. induction r; intros o H; cbn [compile noref] in *; try (repeat constructor; fail).
  - constructor; [exact H|constructor].
  - contradiction.
  - destruct H. apply Forall_app. split; auto.
  - destruct H. constructor; [exact I|]. apply Forall_app. split; [auto|]. constructor; [exact I|]. apply Forall_app. split; [auto|repeat constructor].
  - constructor; [exact I|]. generalize (o + 1 + 2 * length items). intros e. induction items as [|i r IH]; [constructor|]. inversion H; subst. cbn [flat_map app]. constructor; [assumption|]. constructor; [exact I|]. apply IH. assumption.
  - apply Forall_app. split; [|repeat constructor]. revert o. induction items as [|i r IH]; intros o; [constructor|]. inversion H; subst. cbn [notin_code].
    constructor; [exact I|]. constructor; [assumption|]. constructor; [exact I|]. apply IH. assumption.
  - constructor; [exact I|]. apply Forall_app. split; [auto|repeat constructor].
  - constructor; [exact I|]. apply Forall_app. split; [auto|repeat constructor].
  - constructor; [exact I|]. apply Forall_app. split; [auto|repeat constructor].
Qed.

(* naming loops changes no match position: same matches, same order, same numbers, lines and columns, same crash or fuel verdict *)
Theorem named_loops_same_spans_lemma r text fuel all skip take last :
  noref r -> lists_plain r ->
  sres_sim (find_matches fuel (compile r 0) text all skip take last) (find_matches fuel (compile (unname r) 0) text all skip take last).
Proof.
  intros Hn Hp. rewrite (compile_unname r 0 Hp). unfold find_matches. rewrite map_length.
  destruct (Nat.eqb (length text) 0); [reflexivity|]. destruct (Nat.eqb (length (compile r 0)) 0); [reflexivity|].
  apply scan_sim; [|reflexivity]. intros off ln cl. unfold attempt. apply run_sim.
  - apply noref_no_backref. exact Hn.
  - split; [|constructor]. unfold csim. cbn. repeat split; auto.
Qed.
