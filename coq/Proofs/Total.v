(* C10: the specification is total on patterns without calls (no recursion): every loop iteration
   that is continued has consumed at least one byte, so the measure |text| - position decreases. *)
From Model Require Import Engine.
From Spec Require Import Sem FindSpec.
From Proofs Require Import RefineBase RefineRange Refine Attempt FindCorrect.
From Coq Require Import Lia.

(* call-free patterns with unnamed loops, well-formed not-in and no predicates *)
Fixpoint simple (r : rx) : Prop :=
  match r with
  | XCall _ _ => False
  | XSeq a b | XAlt a b => simple a /\ simple b
  | XNotIn _ mx => (0 <= mx)%Z
  | XLoop _ _ _ _ nm b => nm = [] /\ simple b
  | XDec _ b => simple b
  | XSub _ b pred => pred = PNil /\ simple b
  | _ => True
  end.

Section Total.
Variable text : bytes.
Variable start : nat.
Variable defs : nat -> option (rx * pstmts).

Notation outs := (outs text start defs).
Notation T := (length text).

Lemma filter_pred_nil l : filter_pred text start PNil l l.
Proof. induction l; constructor; auto. Qed.

Lemma outs_list_total b : (forall s, fst s <= T -> exists l, outs b s l) ->
  forall la, Forall (fun q : st => fst q <= T) la -> exists lb, outs_list text start defs b la lb.
Proof.
  intros Hb. induction la as [|s la IH]; intros H.
  - exists []. constructor.
  - inversion H as [|? ? Hs Hla]; subst. destruct (Hb s Hs) as (l1 & Ho1). destruct (IH Hla) as (l2 & Ho2).
    exists (l1 ++ l2). constructor; auto.
Qed.

Lemma iter_total id mn mx fw b : (forall s, fst s <= T -> exists l, outs b s l) ->
  forall n c s, T - fst s < n -> fst s <= T -> exists l, iter text start defs id mn mx fw b c s l.
Proof.
  intros Hb. induction n as [|n IH]; intros c s Hn Hs; [lia|].
  destruct (Nat.lt_ge_cases c mn) as [Hlt|Hge]; [|destruct (within mx c) eqn:Hw].
  3:{ exists []. apply it_over; auto. }
  all: destruct (Hb s Hs) as (la & Hla);
    pose proof (outs_range text start defs _ _ _ (fst s) Hla (Nat.le_refl _) Hs) as Hr;
    assert (His : exists l, iters text start defs id mn mx fw b c s la l).
  1,3: (clear Hla; induction la as [|q la IHla]; [exists []; constructor|];
        inversion Hr as [|? ? [Hq1 Hq2] Hr']; subst;
        destruct (IHla Hr') as (l2 & H2);
        destruct (Nat.eq_dec (fst q) (fst s)) as [Ez|Ez];
        [exists l2; apply is_zero; auto|];
        destruct (IH (S c) q ltac:(lia) Hq2) as (l1 & H1);
        exists (l1 ++ l2); apply is_cons; auto).
  - destruct His as (l & His). exists l. eapply it_min; eauto.
  - destruct His as (l & His). destruct fw.
    + exists (s :: l). eapply it_lazy; eauto.
    + exists (l ++ [s]). eapply it_greedy; eauto.
Qed.

Theorem outs_total r : simple r -> forall s, fst s <= T -> exists l, outs r s l.
Proof.
  induction r as [ |i|n|n t|a IHa b IHb|a IHa b IHb|items|items mx|id mn mx fw nm b IHb|n b IHb|n b IHb pred];
    intros Hs s Hle; cbn [simple] in Hs.
  - eexists; constructor.
  - eexists; constructor.
  - eexists; constructor.
  - contradiction.
  - destruct Hs as [Ha Hb]. destruct (IHa Ha s Hle) as (la & Hla).
    pose proof (outs_range text start defs _ _ _ (fst s) Hla (Nat.le_refl _) Hle) as Hr.
    destruct (outs_list_total b (IHb Hb) la) as (lb & Hlb).
    { eapply Forall_impl; [|exact Hr]. intros q [_ H]; exact H. }
    exists lb. econstructor; eauto.
  - destruct Hs as [Ha Hb]. destruct (IHa Ha s Hle) as (la & Hla). destruct (IHb Hb s Hle) as (lb & Hlb).
    exists (la ++ lb). constructor; auto.
  - eexists; constructor.
  - eexists; constructor. exact Hs.
  - destruct Hs as [Hnm Hb]. subst nm.
    destruct (iter_total id mn mx fw b (IHb Hb) (S (T - fst s)) 0 s ltac:(lia) Hle) as (l & Hl).
    exists l. constructor. exact Hl.
  - destruct (IHb Hs s Hle) as (la & Hla). eexists. constructor. eauto.
  - destruct Hs as [Hp Hb]. subst pred. destruct (IHb Hb s Hle) as (l & Hl).
    exists l. econstructor; eauto. apply filter_pred_nil.
Qed.

End Total.

Section FindTotal.
Variable r : rx.
Variable text : bytes.
Hypothesis Hok : loop_ok r.
Hypothesis Hsimple : simple r.

Lemma sscan_total : forall n off, length text - off < n -> exists S, sscan r text off S.
Proof.
  induction n as [|n IH]; intros off Hn; [lia|].
  destruct (Nat.le_gt_cases (length text) off) as [Hend|Hlt].
  { exists []. constructor. exact Hend. }
  destruct (outs_total text off (defs_of r) r Hsimple (off, []) ltac:(cbn; lia)) as (l & Hl).
  pose proof (outs_range text off (defs_of r) _ _ _ off Hl (Nat.le_refl _) ltac:(cbn; lia)) as Hr.
  destruct l as [|[e v] l'].
  - destruct (IH (S off) ltac:(lia)) as (S1 & H1). exists S1. eapply ss_skip; eauto.
  - inversion Hr as [|? ? [Hge Hle] _]; subst. cbn [fst] in *.
    destruct (Nat.eq_dec e off) as [E|E].
    + subst e. destruct (IH (S off) ltac:(lia)) as (S1 & H1). exists S1. eapply ss_skip; eauto.
    + destruct (IH e ltac:(lia)) as (S1 & H1). exists ({| sp_start := off; sp_end := e; sp_env := v |} :: S1).
      apply (ss_hit r text off _ e v S1 Hlt Hl); [reflexivity|lia|exact H1].
Qed.

(* the model's find all terminates with a result (never out of fuel, never a crash) *)
Theorem find_terminates_lemma :
  exists F, forall fuel, F <= fuel -> exists M, find_matches fuel (compile r 0) text true 0 0 0 = SOk M.
Proof.
  destruct (sscan_total (S (length text)) 0 ltac:(lia)) as (S0 & HS).
  destruct (find_correct_lemma r text Hok S0 HS) as (F & HF).
  exists F. intros fuel Hf. destruct (HF fuel Hf) as (M & HM & _). exists M. exact HM.
Qed.

End FindTotal.

Lemma C09_attempt_lemma :
  forall r text off ln cl l, loop_ok r -> off <= length text ->
  outs text off (defs_of r) r (off, []) l ->
  exists fuel, forall k,
    (exists c, run (compile r 0) text (fuel + k) (Running (init_core off ln cl) []) = Matched c) \/
    run (compile r 0) text (fuel + k) (Running (init_core off ln cl) []) = NoMatch.
Proof.
  intros r text off ln cl l Hok Hoff Ho. destruct (attempt_refines r text off ln cl l Hok Hoff Ho) as (F & HF).
  exists F. intros k. specialize (HF k). destruct l; [right; exact HF|left; eexists; exact HF].
Qed.

Lemma C09_find_defined_lemma :
  forall r text, loop_ok r -> forall S, sscan r text 0 S ->
  exists F, forall fuel, F <= fuel -> exists M, find_matches fuel (compile r 0) text true 0 0 0 = SOk M.
Proof.
  intros r text Hok S HS. destruct (find_correct_lemma r text Hok S HS) as (F & HF).
  exists F. intros fuel Hf. destruct (HF fuel Hf) as (M & HM & _). exists M. exact HM.
Qed.
