(* C03 for ARBITRARY bytecode, named loops included: every string the VM ever binds - in the
   environment, in the iteration maps of named loops, at any nesting depth - is a substring of the
   text matched so far; hence every string variable of a reported match is a substring of its Value. *)
From Model Require Import Engine.
From Proofs Require Import RefineBase.
From Coq Require Import Lia.

Definition substr (w m : bytes) : Prop := exists a b, m = a ++ w ++ b.

Fixpoint vsub (m : bytes) (v : value) {struct v} : Prop :=
  match v with
  | VStr s => substr s m
  | VMap l => (fix all (l : list (bytes * value)) : Prop :=
                 match l with [] => True | kv :: r => (match kv with (_, v') => vsub m v' end) /\ all r end) l
  end.

Definition esub (m : bytes) (e : env) : Prop := Forall (fun kv => vsub m (snd kv)) e.

Lemma vsub_map m l : vsub m (VMap l) <-> esub m l.
Proof.
  unfold esub. induction l as [|[k v] l IH]; cbn [vsub].
  - split; [constructor|exact (fun _ => I)].
  - split.
    + intros [H1 H2]. constructor; [exact H1|apply IH; exact H2].
    + intros H. inversion H; subst. split; [assumption|apply IH; assumption].
Qed.

Section ValInd.
Variable P : value -> Prop.
Hypothesis Hs : forall s, P (VStr s).
Hypothesis Hm : forall m, Forall (fun kv => P (snd kv)) m -> P (VMap m).
Fixpoint value_ind' (v : value) : P v :=
  match v with
  | VStr s => Hs s
  | VMap m => Hm m ((fix go (l : list (bytes * value)) : Forall (fun kv => P (snd kv)) l :=
                       match l with
                       | [] => Forall_nil _
                       | kv :: r => Forall_cons kv (match kv as p return P (snd p) with (_, v') => value_ind' v' end) (go r)
                       end) m)
  end.
End ValInd.

Lemma substr_mono w m x : substr w m -> substr w (m ++ x).
Proof. intros (a & b & ->). exists a, (b ++ x). rewrite <- !app_assoc. reflexivity. Qed.

Lemma vsub_mono x : forall v m, vsub m v -> vsub (m ++ x) v.
Proof.
  induction v as [s|l IH] using value_ind'; intros m H.
  - apply substr_mono. exact H.
  - apply vsub_map. apply vsub_map in H. unfold esub in *. rewrite Forall_forall in *. intros kv Hkv. apply (IH kv Hkv). apply H. exact Hkv.
Qed.

Lemma esub_mono x m e : esub m e -> esub (m ++ x) e.
Proof. intros H. eapply Forall_impl; [|exact H]. intros kv. apply vsub_mono. Qed.

Lemma esub_aremove m e k : esub m e -> esub m (aremove e k).
Proof.
  induction e as [|[k' v] e IH]; intros H; cbn [aremove]; [constructor|]. inversion H; subst.
  destruct (bytes_eqb k' k); [apply IH; assumption|constructor; [assumption|apply IH; assumption]].
Qed.

Lemma esub_aset m e k v : esub m e -> vsub m v -> esub m (aset e k v).
Proof. intros He Hv. unfold aset. constructor; [exact Hv|apply esub_aremove; exact He]. Qed.

Lemma esub_lookup m e k v : esub m e -> alookup e k = Some v -> vsub m v.
Proof.
  induction e as [|[k' v'] e IH]; intros H E; cbn [alookup] in E; [discriminate|]. inversion H; subst.
  destruct (bytes_eqb k' k); [inversion E; subst; assumption|apply IH; assumption].
Qed.

Definition lsub (m : bytes) (ls : list loopst) : Prop := Forall (fun l => esub m (lvars l)) ls.

Lemma insert_iter_ok m l n v : esub m (lvars l) -> vsub m v -> esub m (lvars (insert_iter l n v)).
Proof.
  intros Hl Hv. unfold insert_iter. cbn [lvars]. apply esub_aset; [exact Hl|]. apply vsub_map. apply esub_aset; [|exact Hv].
  destruct (alookup (lvars l) (itoa_nat (liter l))) as [[s|mm]|] eqn:E.
  - constructor; [|constructor]. exact (esub_lookup _ _ _ _ Hl E).
  - apply vsub_map. exact (esub_lookup _ _ _ _ Hl E).
  - constructor.
Qed.

Lemma insert_variable_ok m n v : forall ls e, lsub m ls -> esub m e -> vsub m v ->
  lsub m (fst (insert_variable ls e n v)) /\ esub m (snd (insert_variable ls e n v)).
Proof.
  induction ls as [|l r IH]; intros e Hls He Hv; cbn [insert_variable].
  - split; [constructor|apply esub_aset; assumption].
  - inversion Hls; subst. destruct (Nat.eqb (length (lname l)) 0).
    + specialize (IH e ltac:(assumption) He Hv). destruct (insert_variable r e n v) as [r' e']. cbn [fst snd] in *. destruct IH. split; [constructor; assumption|assumption].
    + cbn [fst snd]. split; [constructor; [apply insert_iter_ok; assumption|assumption]|exact He].
Qed.

Lemma pop_loop_ok m ls e l rest e' : lsub m ls -> esub m e -> pop_loop ls e = Some (l, rest, e') ->
  esub m (lvars l) /\ lsub m rest /\ esub m e'.
Proof.
  intros Hls He H. destruct ls as [|l0 r]; [discriminate|]. cbn [pop_loop] in H. inversion Hls; subst.
  destruct (Nat.eqb (length (lname l0)) 0).
  - inversion H; subst. auto.
  - pose proof (insert_variable_ok m (lname l0) (VMap (lvars l0)) r e ltac:(assumption) He ltac:(apply vsub_map; assumption)) as [K1 K2].
    destruct (insert_variable r e (lname l0) (VMap (lvars l0))) as [r' e'']. inversion H; subst. cbn [fst snd] in *. auto.
Qed.

Lemma enter_loop_ok id nm c ls : lsub (matched (cur c)) (loops c) -> enter_loop id nm c = Some ls -> lsub (matched (cur c)) ls.
Proof.
  intros Hls H. unfold enter_loop in H.
  assert (Hfresh : esub (matched (cur c)) (lvars (fresh_loop id nm c))).
  { cbn. constructor; [|constructor]. cbn. exact I. }
  destruct (loops c) as [|l rest] eqn:El.
  - inversion H; subst. constructor; [exact Hfresh|constructor].
  - inversion Hls; subst. destruct (Nat.eqb (lid l) id && Nat.eqb (llevel l) (length (calls c)))%bool.
    + destruct (Nat.eqb (lstart l) (length (matched (cur c)))); [discriminate|]. inversion H; subst. constructor; [|assumption].
      cbn [lvars]. apply esub_aset; [assumption|]. cbn. exact I.
    + inversion H; subst. constructor; [exact Hfresh|]. constructor; assumption.
Qed.

Section StepVars.
Variable prog : list instr.
Variable text : bytes.

Definition VarInv (c : core) : Prop := esub (matched (cur c)) (cenv c) /\ lsub (matched (cur c)) (loops c).
Definition StateVarInv (s : state) : Prop :=
  match s with Running c B => VarInv c /\ Forall VarInv B | _ => True end.

Lemma VarInv_same c c' : cur c' = cur c -> cenv c' = cenv c -> loops c' = loops c -> VarInv c -> VarInv c'.
Proof. unfold VarInv. intros -> -> ->. auto. Qed.

Lemma lsub_mono x m ls : lsub m ls -> lsub (m ++ x) ls.
Proof. intros H. eapply Forall_impl; [|exact H]. intros l. apply esub_mono. Qed.

Lemma advance_vars c p' : VarInv c -> VarInv (advance text c p').
Proof.
  intros [H1 H2]. unfold VarInv, advance. cbn [cur set_cur cenv loops]. rewrite consume_matched.
  split; [apply esub_mono|apply lsub_mono]; assumption.
Qed.

Lemma bt_vars B : Forall VarInv B -> StateVarInv (bt B).
Proof. intros H. destruct B as [|c B]; cbn; auto. inversion H; auto. Qed.

Lemma atom_result_vars c B r : VarInv c -> Forall VarInv B -> StateVarInv (atom_result text c B r).
Proof. intros Hc HB. destruct r as [p'|]; cbn [atom_result]; [split; [apply advance_vars; exact Hc|exact HB]|apply bt_vars; exact HB]. Qed.

Lemma substr_skipn st m : substr (skipn st m) m.
Proof. exists (firstn st m), []. rewrite app_nil_r. symmetry. apply firstn_skipn. Qed.

Theorem step_vars c B : VarInv c -> Forall VarInv B -> StateVarInv (step prog text c B).
Proof.
  intros Hc HB. pose proof Hc as [He Hl].
  assert (Hsame : forall c', cur c' = cur c -> cenv c' = cenv c -> loops c' = loops c -> VarInv c') by (intros; eapply VarInv_same; eauto).
  unfold step. destruct (nth_error prog (pc c)) as [i|]; [|exact I].
  destruct i.
  - apply atom_result_vars; auto.
  - apply atom_result_vars; auto.
  - destruct (alookup (cenv c) n) as [[[|b v]|m]|].
    + split; [apply Hsame; reflexivity|exact HB].
    + apply atom_result_vars; auto.
    + apply bt_vars; auto.
    + apply bt_vars; auto.
  - apply atom_result_vars; auto.
  - split; [apply Hsame; reflexivity|exact HB].
  - destruct bs as [|b0 rest]; [exact I|]. split; [apply Hsame; reflexivity|].
    apply Forall_app. split; [|exact HB]. apply Forall_forall. intros x Hx. apply in_map_iff in Hx.
    destruct Hx as (y & E & _). subst x. apply Hsame; reflexivity.
  - split; [apply Hsame; reflexivity|]. constructor; [apply Hsame; reflexivity|exact HB].
  - destruct B as [|x [|c2 B']]; try exact I. inversion HB as [|? ? _ HB2]; subst. inversion HB2; subst. split; auto.
  - destruct maxsize as [|p|p]; try exact I.
    + destruct (Nat.eqb _ 0); [apply bt_vars; auto|]. split; [apply advance_vars; exact Hc|exact HB].
    + destruct (Nat.eqb _ 0); [apply bt_vars; auto|]. split; [apply advance_vars; exact Hc|exact HB].
  - destruct (enter_loop id nm c) as [ls|] eqn:Een; [|apply bt_vars; auto].
    pose proof (enter_loop_ok id nm c ls Hl Een) as Hls.
    assert (Hset : forall p ls' e', lsub (matched (cur c)) ls' -> esub (matched (cur c)) e' -> VarInv (set_loops c p ls' e')).
    { intros p ls' e' H1 H2. unfold VarInv. cbn [set_loops cur cenv loops]. auto. }
    destruct (Nat.ltb _ mn); [split; [apply Hset; assumption|exact HB]|].
    destruct (within mx _); [|apply bt_vars; auto].
    destruct (pop_loop ls (cenv c)) as [[[l rest] e']|] eqn:Epop; [|exact I].
    destruct (pop_loop_ok _ _ _ _ _ _ Hls He Epop) as (Hlv & Hrest & He').
    destruct fewest.
    + split; [apply Hset; assumption|]. constructor; [apply Hset; assumption|exact HB].
    + split; [apply Hset; [constructor; assumption|assumption]|]. constructor; [apply Hset; assumption|exact HB].
  - split; [apply Hsame; reflexivity|exact HB].
  - split; [apply Hsame; reflexivity|exact HB].
  - destruct (vars c) as [|[m st] vs]; [exact I|]. destruct (bytes_eqb m n); [|exact I].
    pose proof (insert_variable_ok (matched (cur c)) n (VStr (skipn st (matched (cur c)))) (loops c) (cenv c) Hl He (substr_skipn _ _)) as [H1 H2].
    destruct (insert_variable (loops c) (cenv c) n _) as [ls' e']. cbn [fst snd] in *.
    split; [|exact HB]. unfold VarInv. cbn [cur cenv loops]. auto.
  - destruct (calls c) as [|[i0 r0] K].
    + split; [apply Hsame; reflexivity|exact HB].
    + destruct (Nat.eqb i0 id); (split; [apply Hsame; reflexivity|exact HB]).
  - destruct (calls c) as [|[i0 r0] K]; [exact I|].
    destruct validate as [|s0 ss].
    + split; [apply Hsame; reflexivity|exact HB].
    + destruct (run_program _ _ _) as [v| |]; try exact I.
      destruct (get_boolean v); [split; [apply Hsame; reflexivity|exact HB]|apply bt_vars; auto].
  - split; [apply Hsame; reflexivity|exact HB].
Qed.

Theorem run_vars fuel : forall s, StateVarInv s -> forall c, run prog text fuel s = Matched c -> VarInv c.
Proof.
  induction fuel as [|f IH]; intros s Hs c H; destruct s as [c0 B| | |]; cbn [run] in H; try discriminate.
  - destruct (Nat.leb _ _); [|discriminate]. inversion H; subst. apply Hs.
  - destruct (Nat.leb _ _); [inversion H; subst; apply Hs|].
    eapply IH; [|exact H]. destruct Hs. apply step_vars; auto.
Qed.

End StepVars.

(* ---- every match of a scan, for any attempt function ---- *)
Section ScanAll.
Variable att : nat -> nat -> nat -> outcome.
Variable text : bytes.
Variables (all : bool) (skip take last : nat).
Variable Q : mrec -> Prop.
Hypothesis HQ : forall off ln cl c num, att off ln cl = Matched c -> Q (make_match num off ln cl c).

Lemma Forall_skipn {A} (P : A -> Prop) k : forall l, Forall P l -> Forall P (skipn k l).
Proof. induction k as [|k IH]; intros l H; [exact H|]. destruct l; [constructor|]. inversion H; subst. apply IH. assumption. Qed.

Theorem scan_all : forall n off ln cl num acc R,
  scan att text all skip take last n off ln cl num acc = SOk R -> Forall Q acc -> Forall Q R.
Proof.
  induction n as [|n IH]; intros off ln cl num acc R H Hacc; [discriminate|].
  cbn [scan] in H. destruct (all || Nat.ltb num (skip + take))%bool; [|inversion H; subst; exact Hacc].
  unfold scan_iter in H.
  assert (Hfail : forall R', match fail_step text off ln cl with
                             | Some (o, l, k) => if Nat.leb (length text) o then SOk acc else scan att text all skip take last n o l k num acc
                             | None => SCrash CrBadInstr end = SOk R' -> Forall Q R').
  { intros R' H'. destruct (fail_step text off ln cl) as [[[o l] k]|]; [|discriminate].
    destruct (Nat.leb (length text) o); [inversion H'; subst; exact Hacc|]. eapply IH; eauto. }
  destruct (att off ln cl) as [c| |w|] eqn:Ea; try discriminate.
  - destruct (negb (Nat.eqb (length (matched (cur c))) 0)).
    + assert (Hacc' : Forall Q (push_match skip last num off ln cl c acc)).
      { unfold push_match. destruct (Nat.leb skip num); [|exact Hacc].
        assert (Forall Q (acc ++ [make_match (S num) off ln cl c])) by (apply Forall_app; split; [exact Hacc|constructor; [eapply HQ; eauto|constructor]]).
        destruct (Nat.eqb last 0); [assumption|]. unfold limit. apply Forall_skipn. assumption. }
      destruct (Nat.leb (length text) (pos (cur c))); [inversion H; subst; exact Hacc'|]. eapply IH; eauto.
    + apply Hfail. destruct (fail_step text off ln cl) as [[[o l] k]|]; exact H.
  - apply Hfail. destruct (fail_step text off ln cl) as [[[o l] k]|]; exact H.
Qed.

End ScanAll.

(* C03, last clause, at the level of the engine: any program, any window, any text *)
Theorem find_matches_vars_substrings vmfuel prog text all skip take last R :
  find_matches vmfuel prog text all skip take last = SOk R -> Forall (fun m => esub (mvalue m) (mvars m)) R.
Proof.
  unfold find_matches. destruct (Nat.eqb (length text) 0); [intros H; inversion H; constructor|].
  destruct (Nat.eqb (length prog) 0); [intros H; inversion H; constructor|].
  intros H. eapply scan_all; [|exact H|constructor].
  intros off ln cl c num Ha. unfold attempt in Ha. cbn [make_match mvalue mvars].
  assert (Hinit : StateVarInv (Running (init_core off ln cl) [])) by (split; [split; constructor|constructor]).
  destruct (run_vars prog text vmfuel _ Hinit c Ha) as [He _]. exact He.
Qed.
