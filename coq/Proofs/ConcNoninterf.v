(* C19 (the part that is logic): threads whose footprints are disjoint - nobody writes what another
   reads or writes, except mutex-protected locations used only inside critical sections that reset
   them first - compute, in EVERY interleaving, exactly what they compute alone. *)
From Model Require Import Conc.

Section NI.
Variable sync : loc -> bool.

Notation solo := (solo sync).
Notation act := (act sync).
Notation within := (within sync).

(* two stores agree on what a thread may look at *)
Definition agree (R W : loc -> bool) (s t : store) : Prop :=
  forall l, sync l = false -> (R l = true \/ W l = true) -> s l = t l.

(* agreement (incl. on synchronised locations when inside a critical section) is enough for equal results *)
Lemma solo_agree R W : forall p incrit s t, within R W incrit p ->
  agree R W s t -> (incrit = true -> forall l, sync l = true -> s l = t l) ->
  fst (solo p s) = fst (solo p t) /\ agree R W (snd (solo p s)) (snd (solo p t)) /\
  (incrit = true -> forall l, sync l = true -> snd (solo p s) l = snd (solo p t) l).
Proof.
  induction p as [r|l k IH|l v k IH|body IHb k IHk]; intros incrit s t Hw Ha Hs; cbn [solo within] in *.
  - auto.
  - destruct Hw as (Hl & Hns & Hk).
    assert (E : s l = t l).
    { destruct (sync l) eqn:Esl.
      - destruct incrit; [apply Hs; auto|]. specialize (Hns eq_refl). discriminate.
      - apply Ha; auto. destruct Hl as [H|[H|[_ H]]]; auto. congruence. }
    rewrite E. apply (IH (t l) incrit); auto.
  - destruct Hw as (Hl & Hns & Hk). apply (IH incrit); auto.
    + intros x Hx Hrw. unfold upd. destruct (Nat.eqb x l); auto.
    + intros Hi x Hx. unfold upd. destruct (Nat.eqb x l); auto.
  - destruct Hw as (Hi & Hb & Hk). subst incrit.
    assert (Har : agree R W (reset sync s) (reset sync t)).
    { intros x Hx Hrw. unfold reset. rewrite Hx. apply Ha; auto. }
    assert (Hsr : true = true -> forall x, sync x = true -> reset sync s x = reset sync t x).
    { intros _ x Hx. unfold reset. rewrite Hx. reflexivity. }
    destruct (IHb true (reset sync s) (reset sync t) Hb Har Hsr) as (E1 & E2 & E3).
    destruct (solo body (reset sync s)) as [r1 s1]. destruct (solo body (reset sync t)) as [r2 s2]. cbn [fst snd] in *. subst r2.
    apply (IHk r1 false); auto; try discriminate.
Qed.

(* a thread's atomic action keeps every OTHER thread's view unchanged when the writer's footprint
   is disjoint from that thread's footprint *)
Definition disjoint (W1 R2 W2 : loc -> bool) : Prop := forall l, W1 l = true -> R2 l = false /\ W2 l = false.

Lemma solo_frame R W : forall p incrit s, within R W incrit p ->
  forall l, sync l = false -> W l = false -> snd (solo p s) l = s l.
Proof.
  induction p as [r|l0 k IH|l0 v k IH|body IHb k IHk]; intros incrit s Hw l Hsl Hwl; cbn [solo within] in *.
  - reflexivity.
  - destruct Hw as (_ & _ & Hk). eapply IH; eauto.
  - destruct Hw as (Hl & _ & Hk). rewrite (IH incrit _ Hk l Hsl Hwl). unfold upd.
    destruct (Nat.eqb_spec l l0); [|reflexivity]. subst l0. destruct Hl as [H|[_ H]]; congruence.
  - destruct Hw as (_ & Hb & Hk).
    destruct (solo body (reset sync s)) as [r1 s1] eqn:E.
    rewrite (IHk r1 false s1 (Hk r1) l Hsl Hwl).
    change s1 with (snd (r1, s1)). rewrite <- E. rewrite (IHb true _ Hb l Hsl Hwl). unfold reset. rewrite Hsl. reflexivity.
Qed.

Lemma act_frame R W p s : within R W false p ->
  forall l, sync l = false -> W l = false -> snd (act p s) l = s l.
Proof.
  intros Hw l Hsl Hwl. destruct p as [r|l0 k|l0 v k|body k]; cbn [act within] in *; try reflexivity.
  - destruct Hw as (Hl & _ & _). unfold upd. cbn. destruct (Nat.eqb_spec l l0); [|reflexivity]. subst. destruct Hl as [H|[H _]]; congruence.
  - destruct Hw as (_ & Hb & _). destruct (solo body (reset sync s)) as [r1 s1] eqn:E. cbn [snd].
    change s1 with (snd (r1, s1)). rewrite <- E. rewrite (solo_frame R W body true _ Hb l Hsl Hwl). unfold reset. rewrite Hsl. reflexivity.
Qed.

(* the rest of a thread after one of its own actions, on its own view, continues the solo run *)
Lemma act_solo R W p s t : within R W false p -> agree R W s t ->
  within R W false (fst (act p s)) /\
  fst (solo (fst (act p s)) (snd (act p s))) = fst (solo p t) /\
  agree R W (snd (solo (fst (act p s)) (snd (act p s)))) (snd (solo p t)).
Proof.
  intros Hw Ha.
  assert (Hs0 : false = true -> forall l, sync l = true -> s l = t l) by discriminate.
  destruct p as [r|l k|l v k|body k]; cbn [act fst snd].
  - split; [exact Hw|]. destruct (solo_agree R W (Done r) false s t Hw Ha Hs0) as (A & B & _). auto.
  - cbn [within] in Hw. destruct Hw as (Hl & Hns & Hk). split; [apply Hk|].
    destruct (solo_agree R W (Read l k) false s t) as (A & B & _); cbn [within]; auto.
  - cbn [within] in Hw. destruct Hw as (Hl & Hns & Hk). split; [exact Hk|].
    destruct (solo_agree R W (Write l v k) false s t) as (A & B & _); cbn [within]; auto.
  - pose proof Hw as Hw'. cbn [within] in Hw. destruct Hw as (_ & Hb & Hk).
    destruct (solo_agree R W (Crit body k) false s t Hw' Ha Hs0) as (A & B & _). cbn [solo] in A, B.
    destruct (solo body (reset sync s)) as [r1 s1]. cbn [fst snd]. split; [apply Hk|]. auto.
Qed.

Variable fps : list ((loc -> bool) * (loc -> bool)).      (* footprint (reads, writes) of every thread *)
Variable res : list Z.                                    (* what every thread computes alone *)

Hypothesis pairwise : forall i j Ri Wi Rj Wj, i <> j ->
  nth_error fps i = Some (Ri, Wi) -> nth_error fps j = Some (Rj, Wj) -> disjoint Wi Rj Wj.

Definition Inv (ts : list prog) (s : store) : Prop :=
  forall i p, nth_error ts i = Some p ->
    exists R W r, nth_error fps i = Some (R, W) /\ nth_error res i = Some r /\ within R W false p /\ fst (solo p s) = r.

Lemma nth_set_nth_same {A} : forall (l : list A) i x y, nth_error l i = Some y -> nth_error (set_nth l i x) i = Some x.
Proof. induction l as [|a l IH]; intros [|i] x y H; cbn in *; try discriminate; auto. eapply IH; eauto. Qed.

Lemma nth_set_nth_other {A} : forall (l : list A) i j x, i <> j -> nth_error (set_nth l i x) j = nth_error l j.
Proof.
  induction l as [|a l IH]; intros [|i] [|j] x H; cbn; auto; try congruence.
Qed.

Lemma agree_refl R W s : agree R W s s.
Proof. intros l _ _. reflexivity. Qed.

Lemma step_inv ts s i p : Inv ts s -> nth_error ts i = Some p ->
  Inv (set_nth ts i (fst (act p s))) (snd (act p s)).
Proof.
  intros HI Hp j q Hq.
  destruct (HI i p Hp) as (Ri & Wi & ri & Hfi & Hri & Hwi & Hsi).
  destruct (Nat.eq_dec i j) as [E|E].
  - subst j. rewrite (nth_set_nth_same ts i _ p Hp) in Hq. inversion Hq; subst q.
    exists Ri, Wi, ri. split; [exact Hfi|]. split; [exact Hri|].
    destruct (act_solo Ri Wi p s s Hwi (agree_refl Ri Wi s)) as (A & B & _). split; [exact A|]. rewrite B. exact Hsi.
  - rewrite (nth_set_nth_other ts i j _ E) in Hq.
    destruct (HI j q Hq) as (Rj & Wj & rj & Hfj & Hrj & Hwj & Hsj).
    exists Rj, Wj, rj. split; [exact Hfj|]. split; [exact Hrj|]. split; [exact Hwj|].
    rewrite <- Hsj.
    assert (Hag : agree Rj Wj (snd (act p s)) s).
    { intros l Hsl Hrw. apply (act_frame Ri Wi p s Hwi l Hsl).
      destruct (Wi l) eqn:Ew; [|reflexivity]. destruct (pairwise i j Ri Wi Rj Wj E Hfi Hfj l Ew) as [H1 H2].
      destruct Hrw; congruence. }
    apply (solo_agree Rj Wj q false (snd (act p s)) s Hwj Hag). discriminate.
Qed.

(* in every interleaving every thread keeps computing what it computes alone *)
Theorem noninterference_lemma : forall sched ts s, Inv ts s ->
  Inv (fst (run_sched sync sched ts s)) (snd (run_sched sync sched ts s)).
Proof.
  induction sched as [|i sched IH]; intros ts s HI; cbn [run_sched]; [exact HI|].
  destruct (nth_error ts i) as [p|] eqn:Ep; [|apply IH; exact HI].
  destruct (act p s) as [p' s'] eqn:Ea. apply IH.
  replace p' with (fst (act p s)) by (rewrite Ea; reflexivity).
  replace s' with (snd (act p s)) by (rewrite Ea; reflexivity).
  apply step_inv; assumption.
Qed.

Corollary results_as_alone sched ts s i r : Inv ts s ->
  nth_error (fst (run_sched sync sched ts s)) i = Some (Done r) -> nth_error res i = Some r.
Proof.
  intros HI Hd. destruct (noninterference_lemma sched ts s HI i (Done r) Hd) as (R & W & r' & _ & Hr & _ & E).
  cbn in E. subst r'. exact Hr.
Qed.

(* no two threads ever touch one unsynchronised location with one of them writing *)
Corollary no_conflict i j Ri Wi Rj Wj l : i <> j ->
  nth_error fps i = Some (Ri, Wi) -> nth_error fps j = Some (Rj, Wj) ->
  Wi l = true -> Rj l = false /\ Wj l = false.
Proof. intros Hij Hi Hj Hw. exact (pairwise i j Ri Wi Rj Wj Hij Hi Hj l Hw). Qed.

End NI.
