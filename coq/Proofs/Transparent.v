(* C02 / C13: facts about the specification itself: transparency of definitions, isolation of
   alternatives, exactness of back-references; and independence of commands in the model. *)
From Model Require Import Engine.
From Spec Require Import Sem FindSpec.
From Proofs Require Import RefineBase Total.
From Coq Require Import Lia.

Section Transparent.
Variable text : bytes.
Variable start : nat.
Variable defs : nat -> option (rx * pstmts).
Notation outs := (outs text start defs).

Lemma filter_pred_nil_inv l l' : filter_pred text start PNil l l' -> l' = l.
Proof.
  induction 1 as [|q l l' Hq _ IH|q l l' Hq _ IH]; auto.
  - f_equal. exact IH.
  - cbn in Hq. discriminate.
Qed.

(* {B} = s used in place means B *)
Theorem transparent_inline n b s l : outs (XSub n b PNil) s l <-> outs b s l.
Proof.
  split; intros H.
  - inversion H; subst. match goal with Hf : filter_pred _ _ PNil _ _ |- _ => apply filter_pred_nil_inv in Hf; subst end. assumption.
  - econstructor; [exact H|]. apply filter_pred_nil.
Qed.

(* a call of s means the body of s *)
Theorem transparent_call n t b s l : defs t = Some (b, PNil) -> (outs (XCall n t) s l <-> outs b s l).
Proof.
  intros Hd. split; intros H.
  - inversion H; subst. match goal with Hd' : defs t = Some _ |- _ => rewrite Hd in Hd'; inversion Hd'; subst end.
    match goal with Hf : filter_pred _ _ PNil _ _ |- _ => apply filter_pred_nil_inv in Hf; subst end. assumption.
  - econstructor; [exact Hd|exact H|]. apply filter_pred_nil.
Qed.

(* bindings made while trying the first alternative never reach the outcomes of the second *)
Theorem alt_isolated a b s l : outs (XAlt a b) s l -> exists la lb, l = la ++ lb /\ outs a s la /\ outs b s lb.
Proof. intros H. inversion H; subst. eauto. Qed.

(* a capture binds exactly the text consumed by its body on that path *)
Theorem dec_binds n b s l : outs (XDec n b) s l ->
  exists la, outs b s la /\ l = map (fun q => (fst q, aset (snd q) n (VStr (sub text (fst s) (fst q))))) la.
Proof. intros H. inversion H; subst. eexists; split; eauto. Qed.

End Transparent.

(* a back-reference matches exactly the text bound to its name *)
Theorem backref_exact text n p (e : env) v : alookup e n = Some (VStr v) -> v <> [] ->
  ref_outs text n (p, e) = if bytes_eqb v (read text p (length v)) then [(p + length v, e)] else [].
Proof.
  intros He Hv. unfold ref_outs. cbn [fst snd]. rewrite He. destruct v as [|b v]; [contradiction|].
  unfold match_lit, rd. destruct (read text p (length (b :: v))) as [|c comp] eqn:Er.
  - reflexivity.
  - cbn [xorb compare_bytes]. rewrite Bool.xorb_false_r.
    destruct (bytes_eqb_spec (b :: v) (c :: comp)) as [E|E]; [|reflexivity].
    unfold consume_len, rd. rewrite Er, <- E. reflexivity.
Qed.

(* ---- independence of commands and runs (model) ---- *)
Lemma run_commands_cons fuel text c cs :
  run_commands fuel text (c :: cs) =
  match run_find fuel text_name text c with
  | ROk ms => match run_commands fuel text cs with ROk ms' => ROk (ms ++ ms') | x => x end
  | x => x
  end.
Proof. reflexivity. Qed.

(* the result of a multi-command program is the concatenation of the results of its commands *)
Theorem run_concat fuel text : forall cs rs,
  Forall2 (fun c ms => run_find fuel text_name text c = ROk ms) cs rs ->
  run_commands fuel text cs = ROk (concat rs).
Proof.
  induction 1 as [|c ms cs rs Hc _ IH]; [reflexivity|].
  rewrite run_commands_cons, Hc, IH. reflexivity.
Qed.
