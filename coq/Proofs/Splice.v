(* C05 / C06: a replacement is the concatenation of its items; the written text is the exact
   splice; each mode touches only the file it may. *)
From Model Require Import Files.
From Proofs Require Import RefineBase Faithful.
From Coq Require Import Lia.

(* ---------- C05 ---------- *)
(* what one `with` item contributes for match m (None = the transform crashed / ran out of fuel) *)
Definition item_text (vars : env) (m : mrec) (i : rinstr) : option bytes :=
  match i with
  | RString s => Some s
  | RVariable n => match alookup vars n with Some (VStr s) => Some s | _ => Some [] end
  | RProcess p => match run_program proc_fuel p (init_pstate (transform_env vars m)) with
                  | Ok v => Some (get_string v)
                  | _ => None
                  end
  end.

Definition otext (r : option bytes) : bytes := match r with Some s => s | None => [] end.

Lemma exec_replacer_concat vars m : forall is r r',
  exec_replacer vars m r is = Ok r' ->
  exists parts, Forall2 (fun i p => item_text vars m i = Some p) is parts /\ otext r' = otext r ++ concat parts.
Proof.
  induction is as [|i is IH]; intros r r' H; cbn [exec_replacer] in H.
  - inversion H; subst. exists []. split; [constructor|]. cbn. rewrite app_nil_r. reflexivity.
  - destruct (exec_rinstr vars m r i) as [r1| |] eqn:E; try discriminate.
    destruct (IH r1 r' H) as (parts & Hp & Ht).
    assert (exists p, item_text vars m i = Some p /\ otext r1 = otext r ++ p) as (p & Hi & Hr1).
    { destruct i as [s|n|pr]; cbn [exec_rinstr item_text] in *.
      - inversion E; subst. exists s. split; [reflexivity|]. destruct r; reflexivity.
      - destruct (alookup vars n) as [[s|mm]|]; inversion E; subst.
        + exists s. split; [reflexivity|]. destruct r; reflexivity.
        + exists []. split; [reflexivity|]. rewrite app_nil_r. reflexivity.
        + exists []. split; [reflexivity|]. rewrite app_nil_r. reflexivity.
      - destruct (run_program proc_fuel pr _) as [v| |]; try discriminate. inversion E; subst.
        exists (get_string v). split; [reflexivity|]. destruct r; reflexivity. }
    exists (p :: parts). split; [constructor; auto|]. rewrite Ht, Hr1. cbn [concat]. rewrite <- app_assoc. reflexivity.
Qed.

Theorem replacement_concat fname total replacer m m' :
  replace_match fname total replacer m = Ok m' ->
  exists parts, Forall2 (fun i p => item_text (replacer_vars fname total m) m i = Some p) replacer parts /\
                otext (mrepl m') = concat parts /\ same_but_repl m m'.
Proof.
  unfold replace_match. intros H.
  destruct (exec_replacer (replacer_vars fname total m) m None replacer) as [r| |] eqn:E; try discriminate.
  inversion H; subst. destruct (exec_replacer_concat _ _ _ _ _ E) as (parts & Hp & Ht).
  exists parts. split; [exact Hp|]. split; [exact Ht|]. unfold same_but_repl. cbn. repeat split; reflexivity.
Qed.

(* ---------- C06 ---------- *)
(* the text a replace command must write: gaps preserved, matched spans substituted *)
Fixpoint spec_splice (text : bytes) (pos : nat) (ms : list mrec) : bytes :=
  match ms with
  | [] => skipn pos text
  | m :: r => sub text pos (mstart m) ++ repl_text m ++ spec_splice text (mend m) r
  end.

Lemma write_at_end w data : write_at w (length w) data = w ++ data.
Proof.
  unfold write_at. destruct data as [|b d]; [rewrite app_nil_r; reflexivity|].
  rewrite Nat.sub_diag. cbn [repeat]. rewrite app_nil_r, firstn_all.
  rewrite skipn_all2 by (cbn [length]; lia). rewrite app_nil_r. reflexivity.
Qed.

Lemma read_sub text a b : a <= b -> b <= length text -> read text a (b - a) = sub text a b.
Proof.
  intros H1 H2. unfold read. destruct (Nat.eqb_spec (b - a) 0) as [E|E].
  - replace b with a by lia. rewrite sub_same. reflexivity.
  - destruct (Nat.ltb_spec (length text) (a + (b - a))); [lia|]. replace (a + (b - a)) with b by lia. reflexivity.
Qed.

Lemma sub_to_end text ro : ro <= length text -> sub text ro (length text) = skipn ro text.
Proof. intros H. unfold sub. apply firstn_all2. rewrite skipn_length. lia. Qed.

Lemma splice_fold text : forall ms lo w,
  chain text lo ms -> lo <= length text ->
  exists ro w', fold_left (splice_step text) ms (lo, length w, w) = (ro, length w', w') /\
                ro <= length text /\ w' ++ skipn ro text = w ++ spec_splice text lo ms.
Proof.
  induction ms as [|m r IH]; intros lo w Hch Hlo.
  - exists lo, w. cbn [fold_left spec_splice]. auto.
  - destruct Hch as (Hlo' & Hloc & Hrest).
    destruct Hloc as (Hse & Hel & Hval & _).
    cbn [fold_left]. unfold splice_step at 2.
    rewrite (read_sub text lo (mstart m)) by lia.
    rewrite write_at_end.
    assert (Hlen1 : length w + (mstart m - lo) = length (w ++ sub text lo (mstart m))).
    { rewrite app_length, sub_length by lia. reflexivity. }
    rewrite Hlen1, write_at_end.
    assert (Hv : length (mvalue m) = mend m - mstart m) by (rewrite Hval, sub_length by lia; reflexivity).
    replace (lo + (mstart m - lo) + length (mvalue m)) with (mend m) by lia.
    replace (length (w ++ sub text lo (mstart m)) + length (repl_text m))
      with (length ((w ++ sub text lo (mstart m)) ++ repl_text m)) by (rewrite (app_length (w ++ _)); reflexivity).
    destruct (IH (mend m) ((w ++ sub text lo (mstart m)) ++ repl_text m) Hrest Hel) as (ro & w' & Hf & Hro & Hw).
    exists ro, w'. split; [exact Hf|]. split; [exact Hro|].
    rewrite Hw. cbn [spec_splice]. rewrite <- !app_assoc. reflexivity.
Qed.

(* the written text is the exact splice, whatever the relative lengths *)
Theorem splice_correct text ms : chain text 0 ms -> splice text ms = spec_splice text 0 ms.
Proof.
  intros Hch. unfold splice.
  destruct (splice_fold text ms 0 [] Hch (Nat.le_0_l _)) as (ro & w' & Hf & Hro & Hw).
  cbn [length] in Hf. rewrite Hf. cbn [app] in Hw.
  destruct (Nat.ltb_spec ro (length text)) as [Hlt|Hge].
  - rewrite (read_sub text ro (length text)) by lia. rewrite write_at_end, sub_to_end by lia. exact Hw.
  - rewrite skipn_all2 in Hw by lia. rewrite app_nil_r in Hw. exact Hw.
Qed.

(* end to end for the model: whatever a replace command finds, what it writes is the exact splice *)
Theorem replace_output_splice fuel fname text all sk tk la body replacer out :
  replace_output fuel fname text (BReplace all sk tk la body replacer) = Some out ->
  exists ms, run_find fuel fname text (BReplace all sk tk la body replacer) = ROk ms /\
             out = spec_splice text 0 ms /\ chain text 0 ms.
Proof.
  unfold replace_output. destruct (run_find fuel fname text (BReplace all sk tk la body replacer)) as [ms| |] eqn:E; try discriminate.
  intros H. inversion H; subst. exists ms. split; [reflexivity|].
  assert (Hch : chain text 0 ms).
  { cbn [run_find] in E. destruct (find_matches fuel body text all sk tk la) as [W| |] eqn:EW; try discriminate.
    pose proof (find_matches_located text body fuel all sk tk la W EW) as HW.
    destruct (replace_all fname (length W) replacer W) as [W'| |] eqn:ER; try discriminate. inversion E; subst.
    apply replace_all_same in ER. clear EW E H. revert HW. generalize 0.
    induction ER as [|m m' W ms Hm _ IH]; intros lo HW; [exact I|].
    destruct HW as (H1 & H2 & H3). destruct Hm as (E1 & E2 & E3 & E4 & E5 & E6 & E7 & E8 & E9).
    cbn [chain]. unfold located in *. rewrite E2, E3, E4, E5, E6, E7, E8.
    split; [exact H1|]. split; [exact H2|]. apply IH. exact H3. }
  split; [apply splice_correct; exact Hch|exact Hch].
Qed.

(* ---------- modes ---------- *)
Lemma alookup_aset_other {A} (m : list (bytes * A)) k k' v : k' <> k -> alookup (aset m k v) k' = alookup m k'.
Proof.
  intros Hne. unfold aset. cbn [alookup]. destruct (bytes_eqb_spec k k'); [congruence|].
  induction m as [|[k0 v0] m IH]; cbn [aremove alookup]; [reflexivity|].
  destruct (bytes_eqb_spec k0 k) as [E|E].
  - subst k0. destruct (bytes_eqb_spec k k'); [congruence|exact IH].
  - cbn [alookup]. destruct (bytes_eqb k0 k'); [reflexivity|exact IH].
Qed.

Lemma alookup_aset_same {A} (m : list (bytes * A)) k v : alookup (aset m k v) k = Some v.
Proof. unfold aset. cbn [alookup]. rewrite bytes_eqb_refl. reflexivity. Qed.

(* one command on one file: NOTHING changes nothing; find changes nothing; NEW changes only
   <file>.vored, OVERWRITE only the file itself, and to exactly the splice *)
Theorem modes_effect fuel mode fs fname c r fs' :
  run_file_cmd fuel mode fs fname c = (r, fs') ->
  (mode = MNothing -> fs' = fs) /\
  ((forall a s t l b rp, c <> BReplace a s t l b rp) -> fs' = fs) /\
  (forall text, alookup fs fname = Some text ->
     forall d, dest mode fname = Some d ->
       (forall k, k <> d -> alookup fs' k = alookup fs k) /\
       (forall a s t l b rp ms, c = BReplace a s t l b rp -> r = ROk ms -> alookup fs' d = Some (splice text ms))).
Proof.
  unfold run_file_cmd. intros H.
  destruct (alookup fs fname) as [text|] eqn:Ef.
  2:{ inversion H; subst. split; [auto|]. split; [auto|]. intros text Hc. discriminate. }
  split; [|split].
  - intros Hm. subst mode. destruct c; try (inversion H; reflexivity).
    destruct (run_find fuel fname text _); inversion H; reflexivity.
  - intros Hnr. destruct c; try (inversion H; reflexivity). exfalso. eapply Hnr. reflexivity.
  - intros text' Et d Hd. inversion Et; subst text'. split.
    + intros k Hk. destruct c; try (inversion H; reflexivity).
      destruct (run_find fuel fname text _); try (inversion H; reflexivity).
      rewrite Hd in H. inversion H; subst. apply alookup_aset_other. exact Hk.
    + intros a s t l b rp ms Hc Hr. subst c. destruct (run_find fuel fname text _) as [ms0|w|] eqn:E.
      * rewrite Hd in H. inversion H as [[Er Efs]]. rewrite <- Er in Hr. inversion Hr; subst ms0. apply alookup_aset_same.
      * inversion H as [[Er Efs]]. rewrite <- Er in Hr. discriminate.
      * inversion H as [[Er Efs]]. rewrite <- Er in Hr. discriminate.
Qed.

Lemma replace_find_same_lemma :
  forall fuel fname text all sk tk la body replacer ms',
  run_find fuel fname text (BReplace all sk tk la body replacer) = ROk ms' ->
  exists ms, run_find fuel fname text (BFind all sk tk la body) = ROk ms /\ Forall2 same_but_repl ms ms'.
Proof.
  intros fuel fname text all sk tk la body replacer ms' H. cbn [run_find] in *.
  destruct (find_matches fuel body text all sk tk la) as [W| |]; try discriminate.
  destruct (replace_all fname (length W) replacer W) as [W'| |] eqn:E; try discriminate.
  inversion H; subst. exists W. split; [reflexivity|]. eapply replace_all_same; eauto.
Qed.
