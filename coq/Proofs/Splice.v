(* C05 / C06: a replacement is the concatenation of its items; the written text is the exact
   splice; each mode touches only the file it may. *)
From Model Require Import Files.
From Proofs Require Import RefineBase Faithful.
From Coq Require Import Lia.

(* ---------- C05 ---------- *)
(* what one `with` item contributes for match m (None = the transform crashed / ran out of fuel) *)
Definition item_text (vars : env) (m : mrec) (i : rinstr) : option bytes :=
  match i with
  | RString s => Some s
  | RVariable n => match alookup vars n with Some (VStr s) => Some s | _ => Some [] end
  | RProcess p => match run_program proc_fuel p (init_pstate (transform_env vars m)) with
                  | Ok v => Some (get_string v)
                  | _ => None
                  end
  end.

Definition otext (r : option bytes) : bytes := match r with Some s => s | None => [] end.

Lemma exec_replacer_concat vars m : forall is r r',
  exec_replacer vars m r is = Ok r' ->
  exists parts, Forall2 (fun i p => item_text vars m i = Some p) is parts /\ otext r' = otext r ++ concat parts.
Proof.
  induction is as [|i is IH]; intros r r' H; cbn [exec_replacer] in H.
  - inversion H; subst. exists []. split; [constructor|]. cbn. rewrite app_nil_r. reflexivity.
  - destruct (exec_rinstr vars m r i) as [r1| |] eqn:E; try discriminate.
    destruct (IH r1 r' H) as (parts & Hp & Ht).
    assert (exists p, item_text vars m i = Some p /\ otext r1 = otext r ++ p) as (p & Hi & Hr1).
    { destruct i as [s|n|pr]; cbn [exec_rinstr item_text] in *.
      - inversion E; subst. exists s. split; [reflexivity|]. destruct r; reflexivity.
      - destruct (alookup vars n) as [[s|mm]|]; inversion E; subst.
        + exists s. split; [reflexivity|]. destruct r; reflexivity.
        + exists []. split; [reflexivity|]. rewrite app_nil_r. reflexivity.
        + exists []. split; [reflexivity|]. rewrite app_nil_r. reflexivity.
      - destruct (run_program proc_fuel pr _) as [v| |]; try discriminate. inversion E; subst.
        exists (get_string v). split; [reflexivity|]. destruct r; reflexivity. }
    exists (p :: parts). split; [constructor; auto|]. rewrite Ht, Hr1. cbn [concat]. rewrite <- app_assoc. reflexivity.
Qed.

Theorem replacement_concat fname total replacer m m' :
  replace_match fname total replacer m = Ok m' ->
  exists parts, Forall2 (fun i p => item_text (replacer_vars fname total m) m i = Some p) replacer parts /\
                otext (mrepl m') = concat parts /\ same_but_repl m m'.
Proof.
  unfold replace_match. intros H.
  destruct (exec_replacer (replacer_vars fname total m) m None replacer) as [r| |] eqn:E; try discriminate.
  inversion H; subst. destruct (exec_replacer_concat _ _ _ _ _ E) as (parts & Hp & Ht).
  exists parts. split; [exact Hp|]. split; [exact Ht|]. unfold same_but_repl. cbn. repeat split; reflexivity.
Qed.

(* ---------- C06 ---------- *)
(* the text a replace command must write: gaps preserved, matched spans substituted *)
Fixpoint spec_splice (text : bytes) (pos : nat) (ms : list mrec) : bytes :=
  match ms with
  | [] => skipn pos text
  | m :: r => sub text pos (mstart m) ++ repl_text m ++ spec_splice text (mend m) r
  end.

Lemma write_at_end w data : write_at w (length w) data = w ++ data.
Proof.
  unfold write_at. destruct data as [|b d]; [rewrite app_nil_r; reflexivity|].
  rewrite Nat.sub_diag. cbn [repeat]. rewrite app_nil_r, firstn_all.
  rewrite skipn_all2 by (cbn [length]; lia). rewrite app_nil_r. reflexivity.
Qed.

Lemma read_sub text a b : a <= b -> b <= length text -> read text a (b - a) = sub text a b.
Proof.
  intros H1 H2. unfold read. destruct (Nat.eqb_spec (b - a) 0) as [E|E].
  - replace b with a by lia. rewrite sub_same. reflexivity.
  - destruct (Nat.ltb_spec (length text) (a + (b - a))); [lia|]. replace (a + (b - a)) with b by lia. reflexivity.
Qed.

Lemma splice_fold text : forall ms lo w,
  chain text lo ms -> lo <= length text ->
  fold_left (splice_step text) ms (lo, length w, w) =
  (match ms with [] => lo | _ => mend (last ms {| mnum := 0; mstart := 0; mend := 0; mlstart := 0; mlend := 0; mcstart := 0; mcend := 0; mvalue := []; mrepl := None; mvars := [] |}) end,
   length w + (length (spec_splice text lo ms) - length (skipn (match ms with [] => lo | _ => mend (last ms {| mnum := 0; mstart := 0; mend := 0; mlstart := 0; mlend := 0; mcstart := 0; mcend := 0; mvalue := []; mrepl := None; mvars := [] |}) end) text)),
   w ++ firstn (length (spec_splice text lo ms) - length (skipn (match ms with [] => lo | _ => mend (last ms {| mnum := 0; mstart := 0; mend := 0; mlstart := 0; mlend := 0; mcstart := 0; mcend := 0; mvalue := []; mrepl := None; mvars := [] |}) end) text)) (spec_splice text lo ms)).
Proof.
Abort.
