(* C18: the decision function satisfies the documented requirements on the full flag cross product. *)
From Model Require Import Cli.
From Coq Require Import List Bool.
Import ListNotations.

Lemma all_flags_complete f : In f all_flags.
Proof.
  destruct f as [a b c d e g h m n].
  unfold all_flags.
  repeat (apply in_flat_map; eexists; split; [match goal with |- In ?x bools => destruct x; cbn; auto | |- In ?x modes => destruct x; cbn; auto 10 end|]).
  apply in_map_iff. eexists. split; [reflexivity|]. destruct n; cbn; auto.
Qed.

Lemma cli_sweep : forallb requirement all_flags = true.
Proof. vm_compute. reflexivity. Qed.

Theorem cli_table_lemma : forall f, requirement f = true.
Proof. intros f. apply (proj1 (forallb_forall requirement all_flags) cli_sweep f (all_flags_complete f)). Qed.
