(* C01 (closing a hypothesis): every resolved pattern the generator produces is well formed in the
   sense the refinement theorem needs ([loop_ok]: atoms are text-matching instructions, `in` lists
   are non-empty, and a loop's id - a fresh number from the generator's supply - does not recur
   among the loops of its body). *)
From Model Require Import Gen.
From Proofs Require Import Refine.
From Coq Require Import Lia.

Scheme expr_ind' := Induction for expr Sort Prop
  with lit_ind' := Induction for lit Sort Prop
  with exprs_ind' := Induction for exprs Sort Prop.
Combined Scheme ast_mut from lit_ind', expr_ind', exprs_ind'.

(* the one thing asked of the syntax tree: an `in` list has at least one item (the parser builds no other) *)
Fixpoint lists_ok_e (e : expr) : Prop :=
  match e with
  | ELoop _ _ _ _ b => lists_ok_e b
  | EBranch l r => lists_ok_l l /\ lists_ok_e r
  | EDec _ l => lists_ok_l l
  | ESub _ b => lists_ok_es b
  | EList nt items => nt = false -> items <> []
  | EPrim l => lists_ok_l l
  end
with lists_ok_l (l : lit) : Prop :=
  match l with LSubExpr b => lists_ok_es b | _ => True end
with lists_ok_es (es : exprs) : Prop :=
  match es with ENil => True | ECons e r => lists_ok_e e /\ lists_ok_es r end.

Definition ids_lt (r : rx) (k : nat) : Prop := Forall (fun i => i < k) (ids0 r).

(* stored patterns are well formed *)
Definition gs_ok (g : gstate) : Prop := forall n b p, alookup (gsubs g) n = Some (b, p) -> loop_ok b.

Lemma ids0_shift d r : ids0 (shift d r) = ids0 r.
Proof. induction r; cbn [shift ids0]; try reflexivity; try congruence; rewrite IHr1, IHr2; reflexivity. Qed.

Lemma loop_ok_shift d r : loop_ok r -> loop_ok (shift d r).
Proof.
  induction r; cbn [shift loop_ok]; auto.
  - intros [A B]; split; auto.
  - intros [A B]; split; auto.
  - intros [A B]. rewrite ids0_shift. split; auto.
Qed.

Lemma ids_lt_mono r k k' : k <= k' -> ids_lt r k -> ids_lt r k'.
Proof. intros Hk H. eapply Forall_impl; [|exact H]. cbn. intros; lia. Qed.

Lemma listable_atoms items : Forall is_atom (map listable_instr items).
Proof. induction items as [|l items IH]; cbn; constructor; auto. destruct l; exact I. Qed.

Definition good (g : gstate) (r : rx) (g' : gstate) : Prop :=
  loop_ok r /\ ids_lt r (gnext g') /\ gnext g <= gnext g' /\ gsubs g' = gsubs g.

Lemma set_vars_next g v : gnext (set_vars g v) = gnext g /\ gsubs (set_vars g v) = gsubs g.
Proof. split; reflexivity. Qed.

Theorem resolve_ok_mut :
  (forall l, lists_ok_l l -> forall off g r g', gs_ok g -> resolve_lit l off g = GOk (r, g') -> good g r g') /\
  (forall e, lists_ok_e e -> forall off g r g', gs_ok g -> resolve_expr e off g = GOk (r, g') -> good g r g') /\
  (forall es, lists_ok_es es -> forall off g r g', gs_ok g -> resolve_exprs es off g = GOk (r, g') -> good g r g').
Proof.
  apply ast_mut.
  - (* ELoop *)
    intros mn mx fw nm body IH Hl off g r g' Hg H. cbn [resolve_expr lists_ok_e] in *.
    set (entry := gvars g) in *.
    set (tail := fun (cur : nat) (g1 : gstate) =>
        if (Nat.eqb (length nm) 0 && Z.eqb (Z.of_nat mn) mx)%bool then GOk (XEps, g1)
        else gbind (resolve_expr body (cur + 1) (set_vars g1 entry)) (fun '(c, g2) =>
               let newmin := if (Nat.eqb (length nm) 0 && Nat.ltb 0 mn)%bool then 0 else mn in
               let newmax := if (Nat.eqb (length nm) 0 && Z.ltb 0 mx)%bool then (mx - Z.of_nat mn)%Z else mx in
               let id := gnext g2 in
               GOk (XLoop id newmin newmax fw nm c, {| gvars := gvars g2; gsubs := gsubs g2; gtrans := gtrans g2; gnext := S id |}))) in *.
    assert (Htail : forall cur g1 r1 g1', gs_ok g1 -> tail cur g1 = GOk (r1, g1') -> good g1 r1 g1').
    { intros cur g1 r1 g1' Hg1 Ht. unfold tail in Ht.
      destruct (Nat.eqb (length nm) 0 && Z.eqb (Z.of_nat mn) mx)%bool.
      - inversion Ht; subst. repeat split; try constructor; auto.
      - destruct (resolve_expr body (cur + 1) (set_vars g1 entry)) as [[c g2]|] eqn:E; [|discriminate]. cbn [gbind] in Ht.
        inversion Ht; subst. destruct (IH Hl (cur + 1) (set_vars g1 entry) c g2 (fun n b p Hn => Hg1 n b p Hn) E) as (A & B & C & D). cbn in C, D.
        repeat split; cbn [loop_ok ids0 gnext gsubs]; auto.
        + intros Hin. unfold ids_lt in B. rewrite Forall_forall in B. specialize (B _ Hin). lia.
        + unfold ids_lt. cbn [ids0]. constructor; [lia|]. eapply ids_lt_mono; [|exact B]. lia. }
    assert (Hun : forall k cur g1 r1 g1', gs_ok g1 ->
              (fix unroll (k : nat) (cur : nat) (g : gstate) (tail : nat -> gstate -> gres (rx * gstate)) : gres (rx * gstate) :=
                 match k with
                 | O => tail cur g
                 | S k' => gbind (resolve_expr body cur (set_vars g entry)) (fun '(c, g1) =>
                           gbind (unroll k' (cur + rx_len c) g1 tail) (fun '(rest, g2) => GOk (XSeq c rest, g2)))
                 end) k cur g1 tail = GOk (r1, g1') -> good g1 r1 g1').
    { induction k as [|k IHk]; intros cur g1 r1 g1' Hg1 Hu.
      - eapply Htail; eauto.
      - destruct (resolve_expr body cur (set_vars g1 entry)) as [[c g2]|] eqn:E; [|discriminate]. cbn [gbind] in Hu.
        destruct (IH Hl cur (set_vars g1 entry) c g2 (fun n b p Hn => Hg1 n b p Hn) E) as (A & B & C & D). cbn in C, D.
        match type of Hu with gbind ?x _ = _ => destruct x as [[rest g3]|] eqn:E2; [|discriminate] end. cbn [gbind] in Hu. inversion Hu; subst.
        assert (Hg2 : gs_ok g2) by (intros n b p Hn; rewrite D in Hn; eapply Hg1; eauto).
        destruct (IHk _ _ _ _ Hg2 E2) as (A2 & B2 & C2 & D2).
        repeat split; cbn [loop_ok ids0]; auto.
        + apply Forall_app. split; [eapply ids_lt_mono; [|exact B]; lia|exact B2].
        + lia.
        + congruence. }
    destruct (Nat.eqb (length nm) 0); [eapply Hun; eauto|eapply Htail; eauto].
  - (* EBranch *)
    intros l IHl r IHr [Hl Hr] off g rx g' Hg H. cbn [resolve_expr] in H.
    destruct (resolve_lit l (off + 1) g) as [[a g1]|] eqn:E1; [|discriminate]. cbn [gbind] in H.
    destruct (resolve_expr r (off + 2 + rx_len a) g1) as [[b g2]|] eqn:E2; [|discriminate]. cbn [gbind] in H. inversion H; subst.
    destruct (IHl Hl _ _ _ _ Hg E1) as (A & B & C & D).
    assert (Hg1 : gs_ok g1) by (intros n b0 p Hn; rewrite D in Hn; eapply Hg; eauto).
    destruct (IHr Hr _ _ _ _ Hg1 E2) as (A2 & B2 & C2 & D2).
    repeat split; cbn [loop_ok ids0]; auto; [apply Forall_app; split; [eapply ids_lt_mono; [|exact B]; lia|exact B2]|lia|congruence].
  - (* EDec *)
    intros n l IHl Hl off g rx g' Hg H. cbn [resolve_expr] in H.
    destruct (resolve_lit l (off + 1) g) as [[b g1]|] eqn:E1; [|discriminate]. cbn [gbind] in H.
    destruct (alookup (gvars g1) n); [discriminate|]. inversion H; subst.
    destruct (IHl Hl _ _ _ _ Hg E1) as (A & B & C & D). repeat split; cbn [loop_ok ids0]; auto.
  - (* ESub *)
    intros n body IH Hl off g rx g' Hg H. cbn [resolve_expr] in H.
    destruct (alookup (gvars g) n); [discriminate|].
    match type of H with gbind ?x _ = _ => destruct x as [[b g1]|] eqn:E1; [|discriminate] end. cbn [gbind] in H. inversion H; subst.
    destruct (IH Hl (off + 1) (set_vars g (aset (gvars g) n (VKSub off))) b g' (fun n0 b0 p Hn => Hg n0 b0 p Hn) E1) as (A & B & C & D). cbn in C, D.
    repeat split; cbn [loop_ok ids0]; auto. constructor.
  - (* EList *)
    intros nt items Hl off g rx g' Hg H. cbn [resolve_expr] in H. inversion H; subst.
    destruct nt; repeat split; cbn [loop_ok ids0]; try constructor; auto using listable_atoms.
    intros E. apply map_eq_nil in E. exact (Hl eq_refl E).
  - (* EPrim *) intros l IHl Hl off g rx g' Hg H. cbn [resolve_expr] in H. eapply IHl; eauto.
  - (* LStr *) intros nt cl v _ off g r g' _ H. cbn in H. inversion H; subst. repeat split; try constructor; auto.
  - (* LSubExpr *) intros body IH Hl off g r g' Hg H. cbn in H. eapply IH; eauto.
  - (* LVar *) intros n _ off g r g' Hg H. cbn [resolve_lit] in H.
    destruct (alookup (gvars g) n) as [[|pc]|].
    + inversion H; subst. repeat split; try constructor; auto.
    + inversion H; subst. repeat split; try constructor; auto.
    + destruct (alookup (gsubs g) n) as [[b0 validate]|] eqn:E; [|discriminate]. inversion H; subst.
      repeat split; cbn [loop_ok ids0]; try constructor; auto. apply loop_ok_shift. eapply Hg; eauto.
  - (* LClass *) intros nt c _ off g r g' _ H. cbn in H. inversion H; subst. repeat split; try constructor; auto.
  - (* ENil *) intros _ off g rx g' Hg H. cbn in H. inversion H; subst. repeat split; try constructor; auto.
  - (* ECons *)
    intros e IHe r IHr [He Hr] off g rx g' Hg H. cbn [resolve_exprs] in H.
    destruct (resolve_expr e off g) as [[a g1]|] eqn:E1; [|discriminate]. cbn [gbind] in H.
    destruct (resolve_exprs r (off + rx_len a) g1) as [[b g2]|] eqn:E2; [|discriminate]. cbn [gbind] in H. inversion H; subst.
    destruct (IHe He _ _ _ _ Hg E1) as (A & B & C & D).
    assert (Hg1 : gs_ok g1) by (intros n b0 p Hn; rewrite D in Hn; eapply Hg; eauto).
    destruct (IHr Hr _ _ _ _ Hg1 E2) as (A2 & B2 & C2 & D2).
    repeat split; cbn [loop_ok ids0]; auto; [apply Forall_app; split; [eapply ids_lt_mono; [|exact B]; lia|exact B2]|lia|congruence].
Qed.

(* ---- whole programs ---- *)
Fixpoint lists_ok_c (c : command) : Prop :=
  match c with
  | CFind _ _ _ _ body | CReplace _ _ _ _ body _ => lists_ok_es body
  | CSetPattern _ pat _ => lists_ok_es pat
  | CSetTransform _ _ => True
  | CSetMatches _ c' => lists_ok_c c'
  end.

Lemma alookup_aset_cases {A} (m : list (bytes * A)) k k' v w : alookup (aset m k v) k' = Some w -> w = v \/ alookup m k' = Some w.
Proof.
  unfold aset. cbn [alookup]. destruct (bytes_eqb k k') eqn:E; [intros H; inversion H; auto|].
  intros H. right. revert H. induction m as [|[k0 v0] m IH]; cbn [aremove alookup]; [auto|].
  destruct (bytes_eqb k0 k) eqn:E0.
  - intros H. destruct (bytes_eqb_spec k0 k); [|discriminate]. subst k0. rewrite E. apply IH. exact H.
  - cbn [alookup]. destruct (bytes_eqb k0 k'); [auto|exact IH].
Qed.

Lemma resolve_command_ok : forall c g x g', lists_ok_c c -> gs_ok g -> resolve_command c g = GOk (x, g') ->
  gs_ok g' /\ match x with Some r => loop_ok r | None => True end.
Proof.
  induction c as [all sk tk la body|all sk tk la body res|id pat pred|id body|id c IH]; intros g x g' Hl Hg H; cbn [resolve_command lists_ok_c] in *.
  - destruct (resolve_exprs body 0 (fresh_vars g)) as [[r g1]|] eqn:E; [|discriminate]. cbn [gbind] in H. inversion H; subst.
    destruct (proj2 (proj2 resolve_ok_mut) body Hl 0 (fresh_vars g) _ _ (fun n b p Hn => Hg n b p Hn) E) as (A & _ & _ & D). cbn in D.
    split; [intros n b p Hn; rewrite D in Hn; eapply Hg; eauto|exact A].
  - destruct (resolve_exprs body 0 (fresh_vars g)) as [[r g1]|] eqn:E; [|discriminate]. cbn [gbind] in H. inversion H; subst.
    destruct (proj2 (proj2 resolve_ok_mut) body Hl 0 (fresh_vars g) _ _ (fun n b p Hn => Hg n b p Hn) E) as (A & _ & _ & D). cbn in D.
    split; [intros n b p Hn; rewrite D in Hn; eapply Hg; eauto|exact A].
  - destruct (resolve_exprs pat 0 (fresh_vars g)) as [[r g1]|] eqn:E; [|discriminate]. cbn [gbind] in H. inversion H; subst.
    destruct (proj2 (proj2 resolve_ok_mut) pat Hl 0 (fresh_vars g) _ _ (fun n b p Hn => Hg n b p Hn) E) as (A & _ & _ & D). cbn in D.
    split; [|exact I]. intros n b p Hn. cbn [gsubs] in Hn. apply alookup_aset_cases in Hn. destruct Hn as [Hn|Hn].
    + inversion Hn; subst. exact A.
    + rewrite D in Hn. eapply Hg; eauto.
  - inversion H; subst. split; [exact Hg|exact I].
  - destruct (resolve_command c (fresh_vars g)) as [[y g1]|] eqn:E; [|discriminate]. cbn [gbind] in H. inversion H; subst.
    destruct (IH (fresh_vars g) _ _ Hl (fun n b p Hn => Hg n b p Hn) E) as [A _]. split; [exact A|exact I].
Qed.

(* every command body the generator resolves, in every program, is well formed *)
Theorem resolve_program_ok_lemma : forall cs g xs, Forall lists_ok_c cs -> gs_ok g -> resolve_program cs g = GOk xs ->
  Forall (fun x => match x with Some r => loop_ok r | None => True end) xs.
Proof.
  induction cs as [|c cs IH]; intros g xs Hl Hg H; cbn [resolve_program] in H.
  - inversion H; subst. constructor.
  - inversion Hl as [|? ? Hc Hcs]; subst.
    destruct (resolve_command c g) as [[x g1]|] eqn:E; [|discriminate]. cbn [gbind] in H.
    destruct (resolve_program cs g1) as [xs'|] eqn:E2; [|discriminate]. cbn [gbind] in H. inversion H; subst.
    destruct (resolve_command_ok c g x g1 Hc Hg E) as [Hg1 Hx]. constructor; [exact Hx|eapply IH; eauto].
Qed.

Lemma init_gs_ok : gs_ok init_gstate.
Proof. intros n b p H. discriminate. Qed.
