(* C20: the segment matcher decides exactly seg_match, for all patterns and names (any number of
   stars), and never runs out of fuel. *)
From Model Require Import Glob.
From Spec Require Import GlobSpec.
From Proofs Require Import RefineBase.
From Coq Require Import Lia.

Lemma seg_nil_inv t : seg_match [] t -> t = [].
Proof. intros H. inversion H. reflexivity. Qed.

Lemma seg_char_inv c p t : c <> star -> seg_match (c :: p) t -> exists t', t = c :: t' /\ seg_match p t'.
Proof. intros Hc H. inversion H; subst; try congruence. eauto. Qed.

Lemma seg_star_iff p t : seg_match (star :: p) t <-> exists k, k <= length t /\ seg_match p (skipn k t).
Proof.
  split.
  - intros H. remember (star :: p) as q eqn:Eq. induction H as [|c p0 t0 Hc H IH|p0 t0 H IH|p0 c t0 H IH]; try discriminate.
    + inversion Eq; subst. congruence.
    + inversion Eq; subst. exists 0. split; [lia|exact H].
    + inversion Eq; subst. destruct (IH eq_refl) as (k & Hk & Hm). exists (S k). split; [cbn; lia|exact Hm].
  - intros (k & Hk & H). revert t Hk H. induction k as [|k IH]; intros t Hk H.
    + apply sm_star0. exact H.
    + destruct t as [|c t]; [cbn in Hk; lia|]. apply sm_star1. apply IH; [cbn in Hk; lia|exact H].
Qed.

Definition lits (l : bytes) : Prop := Forall (fun c => c <> star) l.

Lemma seg_lits_inv l : lits l -> forall q x, seg_match (l ++ q) x -> exists y, x = l ++ y /\ seg_match q y.
Proof.
  induction 1 as [|c l Hc _ IH]; intros q x H; cbn [app] in *.
  - exists x. auto.
  - destruct (seg_char_inv c (l ++ q) x Hc H) as (t' & E & H'). subst x.
    destruct (IH q t' H') as (y & E & Hy). subst t'. exists y. auto.
Qed.

Lemma skipn_nth {A} (l : list A) n x : nth_error l n = Some x -> skipn n l = x :: skipn (S n) l.
Proof. revert n. induction l as [|a l IH]; intros [|n] H; cbn in *; try discriminate; [inversion H; reflexivity|apply IH; exact H]. Qed.

Lemma skipn_none {A} (l : list A) n : nth_error l n = None -> skipn n l = [].
Proof. intros H. apply skipn_all2. apply nth_error_None. exact H. Qed.

Section Glob.
Variables T P : bytes.       (* target (file name) and pattern *)

Definition rest (mi ti : nat) : Prop := seg_match (skipn mi P) (skipn ti T).

Definition alt (so : option (nat * nat)) : Prop :=
  match so with
  | None => False
  | Some (si, st) => exists t', st < t' /\ t' <= length T /\ rest (S si) t'
  end.

Definition good (s : gstate) : Prop :=
  gti s <= length T /\ gmi s <= length P /\
  match gstar s with
  | None => True
  | Some (si, st) => nth_error P si = Some star /\ si < gmi s /\ gti s = st + (gmi s - S si) /\ lits (sub P (S si) (gmi s))
  end.

Definition sem (s : gstate) : Prop := rest (gmi s) (gti s) \/ alt (gstar s).

(* a star can always swallow more *)
Lemma star_monotone p ti t' : ti <= t' -> seg_match (star :: p) (skipn t' T) -> seg_match (star :: p) (skipn ti T).
Proof.
  intros Hle H. replace t' with (ti + (t' - ti)) in H by lia. remember (t' - ti) as d eqn:Ed. clear Ed Hle t'.
  revert ti H. induction d as [|d IH]; intros ti H.
  - rewrite Nat.add_0_r in H. exact H.
  - replace (ti + S d) with (S ti + d) in H by lia. apply IH in H.
    destruct (nth_error T ti) as [c|] eqn:E.
    + rewrite (skipn_nth T ti c E). apply sm_star1. exact H.
    + rewrite (skipn_none T ti E). rewrite (skipn_none T (S ti)) in H; [exact H|].
      apply nth_error_None. apply nth_error_None in E. lia.
Qed.

(* alternatives of an earlier star are subsumed once a later star is reached *)
Lemma alt_subsumed s : good s -> nth_error P (gmi s) = Some star -> alt (gstar s) -> rest (gmi s) (gti s).
Proof.
  intros (Hti & Hmi & Hg) Hstar Ha. destruct (gstar s) as [[si st]|]; [|contradiction].
  destruct Hg as (Hsi & Hlt & Heq & Hl). destruct Ha as (t' & Ht1 & Ht2 & Hr).
  unfold rest in *. rewrite (skipn_nth P (gmi s) star Hstar).
  assert (Esplit : skipn (S si) P = sub P (S si) (gmi s) ++ skipn (gmi s) P).
  { unfold sub. rewrite <- (firstn_skipn (gmi s - S si) (skipn (S si) P)) at 1. f_equal.
    rewrite <- skipn_add. f_equal. lia. }
  rewrite Esplit in Hr. destruct (seg_lits_inv _ Hl _ _ Hr) as (y & Ey & Hy).
  rewrite (skipn_nth P (gmi s) star Hstar) in Hy.
  assert (Ey2 : y = skipn (t' + (gmi s - S si)) T).
  { rewrite skipn_add. rewrite Ey. rewrite skipn_app.
    assert (Hlen : length (sub P (S si) (gmi s)) = gmi s - S si).
    { apply sub_length. assert (gmi s < length P) by (apply nth_error_Some; congruence). lia. }
    rewrite Hlen. rewrite skipn_all2 by lia. rewrite Nat.sub_diag. reflexivity. }
  subst y. eapply star_monotone; [|exact Hy]. lia.
Qed.

Lemma nth_is_true l i b : nth_is l i b = true <-> nth_error l i = Some b.
Proof.
  unfold nth_is. destruct (nth_error l i) as [x|]; split; intros H; try discriminate.
  - apply N.eqb_eq in H. subst. reflexivity.
  - inversion H. apply N.eqb_refl.
Qed.

Lemma sub_snoc (l : bytes) a b x : a <= b -> nth_error l b = Some x -> sub l a (S b) = sub l a b ++ [x].
Proof.
  intros Hab Hx. rewrite <- (sub_app l a b (S b)) by lia. f_equal.
  unfold sub. replace (S b - b) with 1 by lia. rewrite (skipn_nth l b x Hx). reflexivity.
Qed.

(* the current alignment cannot succeed when the loop takes neither of its first two branches *)
Lemma rest_mismatch s : gti s < length T -> nth_is P (gmi s) star = false -> nth_same P (gmi s) T (gti s) = false ->
  ~ rest (gmi s) (gti s).
Proof.
  intros Hlt H1 H2 Hr. unfold rest in Hr.
  destruct (nth_error T (gti s)) as [y|] eqn:Ey; [|apply nth_error_None in Ey; lia].
  rewrite (skipn_nth T (gti s) y Ey) in Hr.
  destruct (nth_error P (gmi s)) as [x|] eqn:Ex.
  - rewrite (skipn_nth P (gmi s) x Ex) in Hr.
    assert (Hx : x <> star). { intro E. subst x. apply nth_is_true in Ex. congruence. }
    destruct (seg_char_inv x _ _ Hx Hr) as (t' & E & _). inversion E; subst.
    unfold nth_same in H2. rewrite Ex, Ey, N.eqb_refl in H2. discriminate.
  - rewrite (skipn_none P (gmi s) Ex) in Hr. apply seg_nil_inv in Hr. discriminate.
Qed.

Theorem step_sem s : good s -> gti s < length T ->
  match glob_step T P s with
  | Some s' => good s' /\ (sem s <-> sem s')
  | None => ~ sem s
  end.
Proof.
  intros Hg Hlt. pose proof Hg as (Hti & Hmi & Hso). unfold glob_step.
  destruct (nth_is P (gmi s) star) eqn:E1.
  - (* a star: remember it, alternatives of the previous one are subsumed *)
    apply nth_is_true in E1.
    assert (Hmlt : gmi s < length P) by (apply nth_error_Some; congruence).
    split.
    + unfold good. cbn [gti gmi gstar]. split; [exact Hti|]. split; [lia|]. split; [exact E1|]. split; [lia|]. split; [lia|].
      rewrite sub_same. constructor.
    + unfold sem. cbn [gti gmi gstar].
      assert (Hr : rest (gmi s) (gti s) <-> rest (S (gmi s)) (gti s) \/ alt (Some (gmi s, gti s))).
      { unfold rest at 1. rewrite (skipn_nth P (gmi s) star E1), seg_star_iff. split.
        - intros (k & Hk & Hm). rewrite <- skipn_add in Hm. rewrite skipn_length in Hk. destruct k as [|k].
          + left. rewrite Nat.add_0_r in Hm. exact Hm.
          + right. exists (gti s + S k). split; [lia|]. split; [lia|exact Hm].
        - intros [Hm|(t' & H1 & H2 & Hm)].
          + exists 0. split; [lia|exact Hm].
          + exists (t' - gti s). rewrite skipn_length. split; [lia|]. rewrite <- skipn_add. replace (gti s + (t' - gti s)) with t' by lia. exact Hm. }
      split.
      * intros [H|H]; [apply Hr; exact H|apply Hr; apply (alt_subsumed s Hg E1 H)].
      * intros H. left. apply Hr. exact H.
  - destruct (nth_same P (gmi s) T (gti s)) eqn:E2.
    + (* the characters agree *)
      unfold nth_same in E2. destruct (nth_error P (gmi s)) as [x|] eqn:Ex; [|discriminate].
      destruct (nth_error T (gti s)) as [y|] eqn:Ey; [|discriminate]. apply N.eqb_eq in E2. subst y.
      assert (Hx : x <> star). { intro E. subst x. apply nth_is_true in Ex. congruence. }
      assert (Hmlt : gmi s < length P) by (apply nth_error_Some; congruence).
      split.
      * unfold good. cbn [gti gmi gstar]. split; [lia|]. split; [lia|].
        destruct (gstar s) as [[si st]|]; [|exact I]. destruct Hso as (H1 & H2 & H3 & H4).
        split; [exact H1|]. split; [lia|]. split; [lia|].
        rewrite (sub_snoc P (S si) (gmi s) x) by (auto; lia). apply Forall_app. split; [exact H4|constructor; [exact Hx|constructor]].
      * unfold sem. cbn [gti gmi gstar]. unfold rest.
        rewrite (skipn_nth P (gmi s) x Ex), (skipn_nth T (gti s) x Ey).
        split; intros [H|H]; auto; left.
        -- destruct (seg_char_inv x _ _ Hx H) as (t' & E & Hm). inversion E; subst. exact Hm.
        -- apply sm_char; auto.
    + pose proof (rest_mismatch s Hlt E1 E2) as Hnr.
      destruct (gstar s) as [[si st]|] eqn:Es.
      * (* let the last star swallow one more character *)
        destruct Hso as (H1 & H2 & H3 & H4). split.
        -- unfold good. cbn [gti gmi gstar]. split; [lia|]. split; [lia|]. split; [exact H1|]. split; [lia|]. split; [lia|].
           rewrite sub_same. constructor.
        -- unfold sem. rewrite Es. cbn [gti gmi gstar alt]. split.
           ++ intros [H|(t' & Ha & Hb & Hm)]; [contradiction|].
              destruct (Nat.eq_dec t' (S st)) as [E|E]; [left; subst; exact Hm|right; exists t'; split; [lia|split; [lia|exact Hm]]].
           ++ intros [H|(t' & Ha & Hb & Hm)]; right; [exists (S st); split; [lia|split; [lia|exact H]]|exists t'; split; [lia|split; [lia|exact Hm]]].
      * intros [H|H]; [contradiction|]. rewrite Es in H. exact H.
Qed.

Lemma loop_sem fuel : forall s r, good s -> glob_loop fuel T P s = Some r ->
  match r with
  | None => ~ sem s
  | Some s' => good s' /\ gti s' = length T /\ (sem s <-> sem s')
  end.
Proof.
  induction fuel as [|f IH]; intros s r Hg H; cbn [glob_loop] in H.
  - destruct (Nat.ltb_spec (gti s) (length T)); [discriminate|]. inversion H; subst.
    pose proof Hg as (H1 & _). split; [exact Hg|]. split; [lia|reflexivity].
  - destruct (Nat.ltb_spec (gti s) (length T)) as [Hlt|Hge].
    + pose proof (step_sem s Hg Hlt) as Hs. destruct (glob_step T P s) as [s1|].
      * destruct Hs as [Hg1 Hiff]. specialize (IH s1 r Hg1 H). destruct r as [s'|].
        -- destruct IH as (A & B & C). split; [exact A|]. split; [exact B|]. rewrite Hiff. exact C.
        -- rewrite Hiff. exact IH.
      * inversion H; subst. exact Hs.
    + inversion H; subst. pose proof Hg as (H1 & _). split; [exact Hg|]. split; [lia|reflexivity].
Qed.

(* at the end of the target only stars may remain *)
Lemma skip_stars_spec : forall fuel mi, mi <= length P -> length P - mi <= fuel ->
  (skip_stars P mi fuel = length P <-> seg_match (skipn mi P) []).
Proof.
  induction fuel as [|f IH]; intros mi Hmi Hf; cbn [skip_stars].
  - assert (mi = length P) by lia. subst. rewrite skipn_all. split; [constructor|reflexivity].
  - destruct (nth_is P mi star) eqn:E.
    + apply nth_is_true in E. assert (mi < length P) by (apply nth_error_Some; congruence).
      rewrite (skipn_nth P mi star E). rewrite IH by lia. split.
      * intros H'. apply sm_star0. exact H'.
      * intros H'. apply seg_star_iff in H'. destruct H' as (k & Hk & Hm). cbn in Hk. assert (k = 0) by lia. subst. exact Hm.
    + split.
      * intros H'. subst mi. rewrite skipn_all. constructor.
      * intros H'. destruct (nth_error P mi) as [x|] eqn:Ex.
        -- rewrite (skipn_nth P mi x Ex) in H'. assert (x <> star). { intro; subst. apply nth_is_true in Ex. congruence. }
           apply seg_char_inv in H'; auto. destruct H' as (t' & E' & _). discriminate.
        -- apply nth_error_None in Ex. lia.
Qed.

Lemma alt_false_at_end s : good s -> gti s = length T -> ~ alt (gstar s).
Proof.
  intros (Hti & Hmi & Hso) Hend Ha. destruct (gstar s) as [[si st]|]; [|exact Ha].
  destruct Hso as (H1 & H2 & H3 & H4). destruct Ha as (t' & Ht1 & Ht2 & Hr). unfold rest in Hr.
  assert (Esplit : skipn (S si) P = sub P (S si) (gmi s) ++ skipn (gmi s) P).
  { unfold sub. rewrite <- (firstn_skipn (gmi s - S si) (skipn (S si) P)) at 1. f_equal.
    rewrite <- skipn_add. f_equal. lia. }
  rewrite Esplit in Hr. destruct (seg_lits_inv _ H4 _ _ Hr) as (y & Ey & _).
  apply (f_equal (@length N)) in Ey. rewrite skipn_length, app_length, sub_length in Ey by lia. lia.
Qed.

Theorem path_matches_iff b : path_matches T P = Some b -> (b = true <-> seg_match P T).
Proof.
  unfold path_matches.
  set (s0 := {| gti := 0; gmi := 0; gstar := None |}).
  assert (Hg0 : good s0) by (unfold good; cbn; repeat split; lia).
  assert (Hsem0 : sem s0 <-> seg_match P T) by (unfold sem, rest; cbn; tauto).
  destruct (glob_loop (glob_fuel T P) T P s0) as [r|] eqn:E; [|discriminate].
  pose proof (loop_sem _ s0 r Hg0 E) as H. destruct r as [s'|].
  - destruct H as (Hg & Hend & Hiff). intros Hb. inversion Hb; subst b. clear Hb.
    rewrite <- Hsem0, Hiff. unfold sem.
    pose proof Hg as (_ & Hmi & _).
    rewrite Nat.eqb_eq, (skip_stars_spec (length P) (gmi s') Hmi ltac:(lia)).
    unfold rest. rewrite Hend, skipn_all. split; [auto|]. intros [H|H]; [exact H|]. exfalso. eapply alt_false_at_end; eauto.
  - intros Hb. inversion Hb; subst. rewrite <- Hsem0. split; [discriminate|]. intros Hs. contradiction.
Qed.

(* ---- the loop never runs out of fuel ---- *)
Definition stv (s : gstate) : nat := match gstar s with Some (_, st) => st | None => 0 end.
Definition phi (s : gstate) : nat := (S (length T) - stv s) * (S (S (length P))) + (S (length P) - gmi s).

Lemma step_phi s s' : good s -> gti s < length T -> glob_step T P s = Some s' -> phi s' < phi s.
Proof.
  intros (Hti & Hmi & Hso) Hlt H. unfold glob_step in H.
  destruct (nth_is P (gmi s) star) eqn:E1.
  - apply nth_is_true in E1. assert (gmi s < length P) by (apply nth_error_Some; congruence).
    inversion H; subst. unfold phi, stv. cbn [gstar gmi].
    assert (Hst : match gstar s with Some (_, st) => st | None => 0 end <= gti s).
    { destruct (gstar s) as [[si st]|]; [destruct Hso as (_ & _ & E & _); lia|lia]. }
    nia.
  - destruct (nth_same P (gmi s) T (gti s)) eqn:E2.
    + unfold nth_same in E2. destruct (nth_error P (gmi s)) eqn:Ex; [|discriminate].
      assert (gmi s < length P) by (apply nth_error_Some; congruence).
      inversion H; subst. unfold phi, stv. cbn [gstar gmi]. lia.
    + destruct (gstar s) as [[si st]|] eqn:Es; [|discriminate]. inversion H; subst.
      destruct Hso as (_ & H2 & H3 & _). unfold phi, stv. rewrite Es. cbn [gstar gmi]. nia.
Qed.

Lemma loop_fuel fuel : forall s, good s -> phi s < fuel -> glob_loop fuel T P s <> None.
Proof.
  induction fuel as [|f IH]; intros s Hg Hphi; [lia|]. cbn [glob_loop].
  destruct (Nat.ltb_spec (gti s) (length T)) as [Hlt|]; [|discriminate].
  pose proof (step_sem s Hg Hlt) as Hs. destruct (glob_step T P s) as [s1|] eqn:E; [|discriminate].
  destruct Hs as [Hg1 _]. apply IH; [exact Hg1|]. pose proof (step_phi s s1 Hg Hlt E). lia.
Qed.

Theorem path_matches_total : path_matches T P <> None.
Proof.
  unfold path_matches.
  set (s0 := {| gti := 0; gmi := 0; gstar := None |}).
  assert (Hg0 : good s0) by (unfold good; cbn; repeat split; lia).
  assert (Hf : phi s0 < glob_fuel T P) by (unfold phi, stv, glob_fuel; cbn [gstar gmi]; nia).
  pose proof (loop_fuel _ s0 Hg0 Hf) as H.
  destruct (glob_loop (glob_fuel T P) T P s0) as [[s'|]|]; try discriminate. congruence.
Qed.

End Glob.

(* the boolean the file lister uses *)
Theorem pm_iff target pat : pm target pat = true <-> seg_match pat target.
Proof.
  unfold pm. destruct (path_matches target pat) as [b|] eqn:E.
  - rewrite <- (path_matches_iff target pat b E). reflexivity.
  - exfalso. eapply path_matches_total; eauto.
Qed.

(* ---------- GetFileList over a directory tree ---------- *)
Lemma has_star_false_lits seg : has_star seg = false -> lits seg.
Proof.
  unfold has_star, lits. induction seg as [|c seg IH]; cbn [existsb]; intros H; [constructor|].
  apply Bool.orb_false_elim in H. destruct H as [H1 H2]. constructor; [|apply IH; exact H2].
  intro E. subst c. rewrite N.eqb_refl in H1. discriminate.
Qed.

Lemma seg_lit_eq p : lits p -> forall t, seg_match p t <-> t = p.
Proof.
  induction 1 as [|c p Hc _ IH]; intros t; split; intros H.
  - apply seg_nil_inv. exact H.
  - subst. constructor.
  - destruct (seg_char_inv c p t Hc H) as (t' & E & Hm). subst t. f_equal. apply IH. exact Hm.
  - subst t. apply sm_char; [exact Hc|]. apply IH. reflexivity.
Qed.

(* names are unique inside every directory (as in a real file system) *)
Inductive wf_tree : list node -> Prop :=
| wf_intro cs : NoDup (map node_name cs) -> (forall d sub, In (NDir d sub) cs -> wf_tree sub) -> wf_tree cs.

Lemma find_child_spec cs name : NoDup (map node_name cs) ->
  forall e, (find_child cs name = Some e <-> In e cs /\ node_name e = name).
Proof.
  induction cs as [|c cs IH]; intros Hnd e; cbn [find_child].
  - split; [discriminate|intros [[] _]].
  - inversion Hnd as [|? ? Hnotin Hnd']; subst.
    destruct (bytes_eqb_spec (node_name c) name) as [E|E].
    + split.
      * intros H. inversion H; subst. split; [left; reflexivity|reflexivity].
      * intros [[H|H] Hn]; [subst; reflexivity|]. exfalso. apply Hnotin. rewrite E, <- Hn. apply in_map. exact H.
    + rewrite (IH Hnd' e). split.
      * intros [H1 H2]. split; [right; exact H1|exact H2].
      * intros [[H|H] Hn]; [subst; congruence|split; assumption].
Qed.

Lemma in_tree_file_children e ds name : is_dir e = false -> ~ in_tree (children_of e) ds name.
Proof. destruct e; cbn; [|discriminate]. intros _ H. inversion H; subst; contradiction. Qed.

Lemma gfl_cons seg s2 rest cur prefix :
  get_file_list (seg :: s2 :: rest) cur prefix =
  (if all_stars seg then get_file_list (s2 :: rest) cur prefix else []) ++
  (if has_star seg
   then flat_map (fun e => if pm (node_name e) seg then get_file_list (s2 :: rest) (children_of e) (prefix ++ [slash] ++ node_name e) else []) cur
   else match find_child cur seg with
        | Some e => get_file_list (s2 :: rest) (children_of e) (prefix ++ [slash] ++ seg)
        | None => []
        end).
Proof. reflexivity. Qed.

(* GetFileList returns exactly the regular files whose path matches the pattern segment by segment
   (directory segments made only of stars excluded, as the property says) *)
Theorem file_list_exact_lemma last : forall ds cs prefix p,
  wf_tree cs -> Forall (fun seg => all_stars seg = false) ds ->
  (In p (get_file_list (ds ++ [last]) cs prefix) <->
   exists dirs name, in_tree cs dirs name /\ Forall2 seg_match ds dirs /\ seg_match last name /\ p = join_path prefix dirs name).
Proof.
  induction ds as [|seg ds IH]; intros cs prefix p Hwf Hns.
  - cbn [app get_file_list]. rewrite in_flat_map. split.
    + intros (e & He & Hp). destruct e as [name|d sub]; cbn [is_dir negb andb node_name] in Hp; [|destruct Hp].
      destruct (pm name last) eqn:Epm; [|destruct Hp]. destruct Hp as [Hp|[]]. subst p.
      exists [], name. split; [constructor; exact He|]. split; [constructor|]. split; [apply pm_iff; exact Epm|reflexivity].
    + intros (dirs & name & Ht & Hf & Hm & Hp). inversion Hf; subst dirs. inversion Ht; subst.
      exists (NFile name). split; [assumption|]. cbn [is_dir negb andb node_name].
      apply pm_iff in Hm. rewrite Hm. left. reflexivity.
  - inversion Hns as [|? ? Hseg Hns']; subst.
    assert (Ecase : ds ++ [last] = hd last ds :: tl (ds ++ [last])) by (destruct ds; reflexivity).
    cbn [app]. rewrite Ecase, gfl_cons, <- Ecase. rewrite Hseg. cbn [app].
    inversion Hwf as [? Hnd Hsub]; subst.
    destruct (has_star seg) eqn:Ehs.
    + rewrite in_flat_map. split.
      * intros (e & He & Hp). destruct (pm (node_name e) seg) eqn:Epm; [|destruct Hp].
        destruct e as [name0|d sub].
        -- exfalso. cbn [children_of] in Hp. clear -Hp. revert Hp. generalize (prefix ++ [slash] ++ node_name (NFile name0)).
           intros pre Hp. assert (forall l pre, get_file_list l [] pre = []) as Hnil.
           { induction l as [|a [|b l'] IHl]; intros pre0; try reflexivity. rewrite gfl_cons. rewrite IHl. cbn.
             destruct (all_stars a); destruct (has_star a); reflexivity. }
           rewrite Hnil in Hp. exact Hp.
        -- cbn [children_of node_name] in *. apply (IH sub _ p (Hsub d sub He) Hns') in Hp.
           destruct Hp as (dirs & name & Ht & Hf & Hm & Hpp).
           exists (d :: dirs), name. split; [econstructor; eauto|]. split; [constructor; [apply pm_iff; exact Epm|exact Hf]|]. split; [exact Hm|exact Hpp].
      * intros (dirs & name & Ht & Hf & Hm & Hp). inversion Hf as [|? d ? dirs' Hsd Hf']; subst.
        inversion Ht as [|? ? sub ? ? Hin Ht']; subst.
        exists (NDir d sub). split; [exact Hin|]. cbn [node_name children_of].
        apply pm_iff in Hsd. rewrite Hsd. apply (IH sub _ _ (Hsub d sub Hin) Hns').
        exists dirs', name. auto.
    + pose proof (seg_lit_eq seg (has_star_false_lits seg Ehs)) as Hlit.
      split.
      * destruct (find_child cs seg) as [e|] eqn:Ef; [|intros []]. intros Hp.
        apply (find_child_spec cs seg Hnd) in Ef. destruct Ef as [Hin Hname].
        destruct e as [name0|d sub].
        -- exfalso. cbn [children_of] in Hp. assert (forall l pre, get_file_list l [] pre = []) as Hnil.
           { induction l as [|a [|b l'] IHl]; intros pre0; try reflexivity. rewrite gfl_cons. rewrite IHl. cbn.
             destruct (all_stars a); destruct (has_star a); reflexivity. }
           rewrite Hnil in Hp. exact Hp.
        -- cbn [children_of node_name] in *. subst d. apply (IH sub _ p (Hsub seg sub Hin) Hns') in Hp.
           destruct Hp as (dirs & name & Ht & Hf & Hm & Hpp).
           exists (seg :: dirs), name. split; [econstructor; eauto|]. split; [constructor; [apply Hlit; reflexivity|exact Hf]|]. auto.
      * intros (dirs & name & Ht & Hf & Hm & Hp). inversion Hf as [|? d ? dirs' Hsd Hf']; subst.
        inversion Ht as [|? ? sub ? ? Hin Ht']; subst. apply Hlit in Hsd. subst d.
        assert (Ef : find_child cs seg = Some (NDir seg sub)) by (apply (find_child_spec cs seg Hnd); split; [exact Hin|reflexivity]).
        rewrite Ef. cbn [children_of]. apply (IH sub _ _ (Hsub seg sub Hin) Hns'). exists dirs', name. auto.
Qed.
