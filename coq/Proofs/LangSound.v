(* The end positions of the specification's outcomes are exactly the words of the textbook language:
   for every pattern without back-references, predicates, named loops and zero-width atoms,
        (p', _) is among the outcomes of r from (p, _)   <->   p <= p' <= |text| and text[p:p'] in lang r.
   Left to right is soundness of the backtracking semantics, right to left its completeness: no way of
   splitting the text is lost by the priority order. *)
From Model Require Import VM.
From Spec Require Import Sem Lang.
From Proofs Require Import RefineBase RefineRange.
From Coq Require Import Lia.
Local Open Scope nat_scope.

Lemma app_eq_len {A} (a b c d : list A) : a ++ b = c ++ d -> length a = length c -> a = c /\ b = d.
Proof.
  revert c. induction a as [|x a IH]; intros [|y c] H Hl; try discriminate; cbn in *; [auto|].
  inversion H; subst. destruct (IH c H2 ltac:(lia)) as [-> ->]. auto.
Qed.

Lemma within_mono mx c k : within mx (c + k) = true -> within mx c = true.
Proof. unfold within. intros H. apply Bool.orb_true_iff in H. apply Bool.orb_true_iff. destruct H as [H|H]; [left; exact H|right]. apply Z.leb_le in H. apply Z.leb_le. lia. Qed.

Section LangSound.
Variable text : bytes.
Variable start : nat.
Variable defs : nat -> option (rx * pstmts).
Hypothesis Hdefs : forall t b p, defs t = Some (b, p) -> p = PNil /\ pure b.

Notation T := (length text).
Notation outs := (outs text start defs).
Notation lang := (lang defs).

Definition ends (l : list st) (p' : nat) : Prop := exists e, In (p', e) l.

Lemma ends_nil p' : ends [] p' <-> False.
Proof. split; [intros (e & H); destruct H|contradiction]. Qed.

Lemma ends_app l1 l2 p' : ends (l1 ++ l2) p' <-> ends l1 p' \/ ends l2 p'.
Proof.
  unfold ends. split.
  - intros (e & H). apply in_app_or in H. destruct H; [left|right]; eauto.
  - intros [(e & H)|(e & H)]; exists e; apply in_or_app; auto.
Qed.

Lemma ends_cons q l p' : ends (q :: l) p' <-> p' = fst q \/ ends l p'.
Proof.
  unfold ends. split.
  - intros (e & [H|H]); [left; subst; reflexivity|right; eauto].
  - intros [H|(e & H)]; [exists (snd q); left; subst; destruct q; reflexivity|exists e; right; exact H].
Qed.

Lemma ends_single q p' : ends [q] p' <-> p' = fst q.
Proof. rewrite ends_cons, ends_nil. tauto. Qed.

Lemma ends_in l p' : ends l p' <-> exists q, In q l /\ fst q = p'.
Proof.
  unfold ends. split.
  - intros (e & H). exists (p', e). auto.
  - intros ([p e] & H & E). cbn in E. subst. eauto.
Qed.

Lemma ends_map_bind n s l p' : ends (map (bind text n s) l) p' <-> ends l p'.
Proof.
  rewrite !ends_in. split.
  - intros (q & H & E). apply in_map_iff in H. destruct H as (q0 & <- & H0). exists q0. split; [exact H0|exact E].
  - intros (q & H & E). exists (bind text n s q). split; [apply in_map; exact H|exact E].
Qed.

(* ---- words of the text ---- *)
Lemma sub_nil_iff p p' : p <= p' -> p' <= T -> (sub text p p' = [] <-> p' = p).
Proof.
  intros H1 H2. split.
  - intros E. apply (f_equal (@length _)) in E. rewrite sub_length in E by lia. cbn in E. lia.
  - intros ->. apply sub_same.
Qed.

Lemma sub_split p p' u v : p <= p' -> p' <= T -> sub text p p' = u ++ v ->
  p + length u <= p' /\ u = sub text p (p + length u) /\ v = sub text (p + length u) p'.
Proof.
  intros H1 H2 E.
  assert (Hl : length u + length v = p' - p).
  { apply (f_equal (@length _)) in E. rewrite sub_length, app_length in E by lia. lia. }
  assert (Hm : p + length u <= p') by lia. split; [exact Hm|].
  rewrite <- (sub_app text p (p + length u) p') in E by lia.
  apply app_eq_len in E; [|rewrite sub_length by lia; lia]. destruct E as [E1 E2]. auto.
Qed.

Lemma sub_prefix p m p' : p <= m -> m <= p' -> is_prefix (sub text p m) (sub text p p').
Proof. intros H1 H2. exists (sub text m p'). symmetry. apply sub_app; lia. Qed.

(* ---- inversion of the language rules ---- *)
Lemma lang_eps_inv w : lang XEps w -> w = [].
Proof. inversion 1; reflexivity. Qed.
Lemma lang_atom_inv i w : lang (XAtom i) w -> atom_word i w.
Proof. inversion 1; assumption. Qed.
Lemma lang_seq_inv a b w : lang (XSeq a b) w -> exists u v, w = u ++ v /\ lang a u /\ lang b v.
Proof. inversion 1; subst; eauto. Qed.
Lemma lang_alt_inv a b w : lang (XAlt a b) w -> lang a w \/ lang b w.
Proof. inversion 1; subst; auto. Qed.
Lemma lang_in_inv items w : lang (XIn items) w -> exists i, In i items /\ atom_word i w.
Proof. inversion 1; subst; eauto. Qed.
Lemma lang_notin_inv items mx w : lang (XNotIn items mx) w ->
  length w = Z.to_nat mx /\ w <> [] /\ (forall i u, In i items -> atom_word i u -> ~ is_prefix u w).
Proof. inversion 1; subst; auto. Qed.
Lemma lang_loop_inv id mn mx fw b w : lang (XLoop id mn mx fw [] b) w ->
  exists ws, w = concat ws /\ mn <= length ws /\ within mx (length ws) = true /\ Forall (fun w => lang b w /\ w <> []) ws.
Proof. inversion 1; subst; eauto. Qed.
Lemma lang_dec_inv n b w : lang (XDec n b) w -> lang b w.
Proof. inversion 1; assumption. Qed.
Lemma lang_sub_inv n b w : lang (XSub n b PNil) w -> lang b w.
Proof. inversion 1; assumption. Qed.
Lemma lang_call_inv n t w : lang (XCall n t) w -> exists b, defs t = Some (b, PNil) /\ lang b w.
Proof. inversion 1; subst; eauto. Qed.

Lemma filter_pred_nil_inv l l' : filter_pred text start PNil l l' -> l' = l.
Proof. induction 1 as [|q l l' _ _ IH|q l l' Hp _ IH]; [reflexivity|rewrite IH; reflexivity|cbn in Hp; discriminate]. Qed.

(* the words of between-bounds iterations still to come when c are done *)
Definition loopw (b : rx) (c mn : nat) (mx : Z) (p p' : nat) : Prop :=
  exists ws, sub text p p' = concat ws /\ Forall (fun w => lang b w /\ w <> []) ws /\
             mn <= c + length ws /\ within mx (c + length ws) = true.

Definition charact (r : rx) (s : st) (l : list st) : Prop :=
  forall p', ends l p' <-> fst s <= p' /\ p' <= T /\ lang r (sub text (fst s) p').

(* one more iteration in front *)
Lemma loopw_step b c mn mx p m p' : p < m -> m <= p' -> p' <= T -> lang b (sub text p m) ->
  loopw b (S c) mn mx m p' -> loopw b c mn mx p p'.
Proof.
  intros H1 H2 H3 Hb (ws & E & Hall & Hmn & Hw). exists (sub text p m :: ws). cbn [concat length].
  split; [rewrite <- E; symmetry; apply sub_app; lia|]. split.
  - constructor; [|exact Hall]. split; [exact Hb|]. rewrite sub_nil_iff by lia. lia.
  - replace (c + S (length ws)) with (S c + length ws) by lia. auto.
Qed.

Lemma loopw_unstep b c mn mx p p' w ws : p <= p' -> p' <= T ->
  sub text p p' = concat (w :: ws) -> Forall (fun w => lang b w /\ w <> []) (w :: ws) ->
  mn <= c + length (w :: ws) -> within mx (c + length (w :: ws)) = true ->
  exists m, p < m /\ m <= p' /\ lang b (sub text p m) /\ loopw b (S c) mn mx m p'.
Proof.
  intros H1 H2 E Hall Hmn Hw. cbn [concat] in E. destruct (sub_split p p' w (concat ws) H1 H2 E) as (Hm & Ew & Ec).
  inversion Hall as [|? ? [Hb Hne] Hall']; subst.
  exists (p + length w). assert (0 < length w) by (destruct w; [congruence|cbn; lia]).
  split; [lia|]. split; [exact Hm|]. split; [rewrite <- Ew; exact Hb|].
  exists ws. split; [symmetry; exact Ec|]. split; [exact Hall'|]. cbn [length] in *.
  replace (S c + length ws) with (c + S (length ws)) by lia. auto.
Qed.

Theorem outs_lang_mut :
  (forall r s l, outs r s l -> pure r -> fst s <= T -> charact r s l) /\
  (forall b la lb, outs_list text start defs b la lb -> pure b -> Forall (fun q : st => fst q <= T) la ->
     forall p', ends lb p' <-> exists q, In q la /\ fst q <= p' /\ p' <= T /\ lang b (sub text (fst q) p')) /\
  (forall id mn mx fw b c s l, iter text start defs id mn mx fw b c s l -> pure b -> fst s <= T ->
     forall p', ends l p' <-> fst s <= p' /\ p' <= T /\ loopw b c mn mx (fst s) p') /\
  (forall id mn mx fw b c s la l, iters text start defs id mn mx fw b c s la l -> pure b -> fst s <= T ->
     Forall (fun q : st => fst s <= fst q /\ fst q <= T) la ->
     forall p', ends l p' <-> exists q, In q la /\ fst q <> fst s /\ fst q <= p' /\ p' <= T /\ loopw b (S c) mn mx (fst q) p').
Proof.
  apply outs_mut.
  - (* eps *)
    intros s _ Hs p'. rewrite ends_single. split.
    + intros ->. split; [lia|]. split; [exact Hs|]. rewrite sub_same. constructor.
    + intros (H1 & H2 & HL). apply lang_eps_inv in HL. apply sub_nil_iff in HL; auto.
  - (* atom *)
    intros i s Hp Hs p'. cbn [pure] in Hp. unfold atom_outs.
    destruct (atom_pos text i (fst s)) as [p1|] eqn:E.
    + rewrite ends_single. cbn [fst]. split.
      * intros ->. apply Hp in E; [|exact Hs]. destruct E as (H1 & H2 & H3). split; [lia|]. split; [exact H2|]. constructor. exact H3.
      * intros (H1 & H2 & HL). apply lang_atom_inv in HL.
        assert (fst s < p') by (destruct (Nat.eq_dec p' (fst s)) as [->|]; [rewrite sub_same in HL; destruct HL as [HL _]; congruence|lia]).
        assert (E' : atom_pos text i (fst s) = Some p') by (apply Hp; auto). congruence.
    + rewrite ends_nil. split; [contradiction|]. intros (H1 & H2 & HL). apply lang_atom_inv in HL.
      assert (fst s < p') by (destruct (Nat.eq_dec p' (fst s)) as [->|]; [rewrite sub_same in HL; destruct HL as [HL _]; congruence|lia]).
      assert (E' : atom_pos text i (fst s) = Some p') by (apply Hp; auto). congruence.
  - (* ref *) intros n s Hp. contradiction.
  - (* seq *)
    intros a b s la lb Ha IHa Hb IHb [Hpa Hpb] Hs p'.
    pose proof (outs_range text start defs _ _ _ (fst s) Ha (Nat.le_refl _) Hs) as Hr.
    assert (Hla : Forall (fun q : st => fst q <= T) la) by (eapply Forall_impl; [|exact Hr]; intros q [_ H]; exact H).
    rewrite (IHb Hpb Hla p'). split.
    + intros (q & Hq & H1 & H2 & HL).
      assert (Hq' : fst s <= fst q /\ fst q <= T) by (rewrite Forall_forall in Hr; apply Hr; exact Hq).
      split; [lia|]. split; [exact H2|]. rewrite <- (sub_app text (fst s) (fst q) p') by lia. constructor; [|exact HL].
      apply (IHa Hpa Hs (fst q)). apply ends_in. eauto.
    + intros (H1 & H2 & HL). apply lang_seq_inv in HL. destruct HL as (u & v & E & Hu & Hv).
      destruct (sub_split _ _ _ _ H1 H2 E) as (Hm & Eu & Ev).
      assert (Hin : ends la (fst s + length u)).
      { apply (IHa Hpa Hs). split; [lia|]. split; [lia|]. rewrite <- Eu. exact Hu. }
      apply ends_in in Hin. destruct Hin as (q & Hq & Eq). exists q. rewrite Eq. split; [exact Hq|]. split; [exact Hm|]. split; [exact H2|].
      rewrite <- Ev. exact Hv.
  - (* alt *)
    intros a b s la lb _ IHa _ IHb [Hpa Hpb] Hs p'. rewrite ends_app, (IHa Hpa Hs p'), (IHb Hpb Hs p'). split.
    + intros [(H1 & H2 & HL)|(H1 & H2 & HL)]; (split; [exact H1|]; split; [exact H2|]); [apply l_alt_l|apply l_alt_r]; exact HL.
    + intros (H1 & H2 & HL). apply lang_alt_inv in HL. destruct HL; [left|right]; auto.
  - (* in *)
    intros items s Hp Hs p'. cbn [pure] in Hp. rewrite ends_in. split.
    + intros (q & Hq & E). apply in_flat_map in Hq. destruct Hq as (i & Hi & Hq). unfold atom_outs in Hq.
      destruct (atom_pos text i (fst s)) as [p1|] eqn:Ep; [|destruct Hq]. destruct Hq as [<-|[]]. cbn [fst] in E. subst p1.
      rewrite Forall_forall in Hp. apply (Hp i Hi) in Ep; [|exact Hs]. destruct Ep as (H1 & H2 & H3).
      split; [lia|]. split; [exact H2|]. econstructor; eauto.
    + intros (H1 & H2 & HL). apply lang_in_inv in HL. destruct HL as (i & Hi & Hw).
      assert (fst s < p') by (destruct (Nat.eq_dec p' (fst s)) as [->|]; [rewrite sub_same in Hw; destruct Hw as [Hw _]; congruence|lia]).
      rewrite Forall_forall in Hp. assert (Ep : atom_pos text i (fst s) = Some p') by (apply (Hp i Hi); auto).
      exists (p', snd s). split; [|reflexivity]. apply in_flat_map. exists i. split; [exact Hi|]. unfold atom_outs. rewrite Ep. left. reflexivity.
  - (* not in *)
    intros items mx s Hmx (Hloc & Hpos & Hwid) Hs p'. unfold notin_outs. rewrite Forall_forall in Hloc.
    destruct (existsb (fun i => is_some (atom_pos text i (fst s))) items) eqn:Eex.
    + rewrite ends_nil. split; [contradiction|]. intros (H1 & H2 & HL). apply lang_notin_inv in HL. destruct HL as (Hlen & Hne & Hno).
      apply existsb_exists in Eex. destruct Eex as (i & Hi & Hsome). destruct (atom_pos text i (fst s)) as [p1|] eqn:Ep; [|discriminate].
      apply (Hloc i Hi) in Ep; [|exact Hs]. destruct Ep as (K1 & K2 & K3).
      pose proof (Hwid i _ Hi K3) as Hw. rewrite sub_length in Hw by lia. rewrite sub_length in Hlen by lia.
      apply (Hno i _ Hi K3). apply sub_prefix; lia.
    + destruct (consume_len_cases text (fst s) (Z.to_nat mx)) as [E0|(En & Hfit & _)].
      * rewrite E0. cbn [Nat.eqb]. rewrite ends_nil. split; [contradiction|]. intros (H1 & H2 & HL). apply lang_notin_inv in HL. destruct HL as (Hlen & Hne & _).
        rewrite sub_length in Hlen by lia. unfold consume_len, rd, read in E0.
        destruct (Nat.eqb_spec (Z.to_nat mx) 0); [lia|]. destruct (Nat.ltb_spec T (fst s + Z.to_nat mx)); [lia|].
        rewrite sub_length in E0 by lia. lia.
      * rewrite En. destruct (Nat.eqb_spec (Z.to_nat mx) 0) as [|Hnz]; [lia|]. rewrite ends_single. cbn [fst]. split.
        -- intros ->. split; [lia|]. split; [exact Hfit|]. constructor.
           ++ rewrite sub_length by lia. lia.
           ++ intros E. apply (f_equal (@length _)) in E. rewrite sub_length in E by lia. cbn in E. lia.
           ++ intros i u Hi Hu (v & Ev). destruct (sub_split (fst s) (fst s + Z.to_nat mx) u v ltac:(lia) Hfit Ev) as (Hm & Eu & _).
              assert (0 < length u) by (destruct Hu as [Hu _]; destruct u; [congruence|cbn; lia]).
              assert (Ep : atom_pos text i (fst s) = Some (fst s + length u)).
              { apply (Hloc i Hi); [exact Hs|]. split; [lia|]. split; [lia|]. rewrite <- Eu. exact Hu. }
              assert (Hn : is_some (atom_pos text i (fst s)) = true) by (rewrite Ep; reflexivity).
              assert (existsb (fun i => is_some (atom_pos text i (fst s))) items = true) by (apply existsb_exists; eauto). congruence.
        -- intros (H1 & H2 & HL). apply lang_notin_inv in HL. destruct HL as (Hlen & _). rewrite sub_length in Hlen by lia. lia.
  - (* loop *)
    intros id mn mx fw b s l _ IH [_ Hpb] Hs p'. rewrite (IH Hpb Hs p'). unfold loopw. cbn [Nat.add]. split.
    + intros (H1 & H2 & ws & E & Hall & Hmn & Hw). split; [exact H1|]. split; [exact H2|]. rewrite E. constructor; auto.
    + intros (H1 & H2 & HL). split; [exact H1|]. split; [exact H2|]. apply lang_loop_inv in HL. destruct HL as (ws & E & Hmn & Hw & Hall). exists ws. auto.
  - (* dec *)
    intros n b s la _ IH Hp Hs p'. cbn [pure] in Hp. rewrite ends_map_bind, (IH Hp Hs p'). split.
    + intros (H1 & H2 & HL). split; [exact H1|]. split; [exact H2|]. constructor. exact HL.
    + intros (H1 & H2 & HL). apply lang_dec_inv in HL. auto.
  - (* sub *)
    intros n b pred s l l' _ IH Hf [-> Hp] Hs p'. apply filter_pred_nil_inv in Hf. subst l'. rewrite (IH Hp Hs p'). split.
    + intros (H1 & H2 & HL). split; [exact H1|]. split; [exact H2|]. constructor. exact HL.
    + intros (H1 & H2 & HL). apply lang_sub_inv in HL. auto.
  - (* call *)
    intros n t b pred s l l' Hd _ IH Hf _ Hs p'. destruct (Hdefs t b pred Hd) as [-> Hp].
    apply filter_pred_nil_inv in Hf. subst l'. rewrite (IH Hp Hs p'). split.
    + intros (H1 & H2 & HL). split; [exact H1|]. split; [exact H2|]. econstructor; eauto.
    + intros (H1 & H2 & HL). apply lang_call_inv in HL. destruct HL as (b' & Hd' & HL). rewrite Hd in Hd'. inversion Hd'; subst. auto.
  - (* ol_nil *)
    intros b _ _ p'. rewrite ends_nil. split; [contradiction|]. intros (q & [] & _).
  - (* ol_cons *)
    intros b s ss l1 l2 _ IH1 _ IH2 Hp Hall p'. inversion Hall as [|? ? Hs Hss]; subst.
    rewrite ends_app, (IH1 Hp Hs p'), (IH2 Hp Hss p'). split.
    + intros [(H1 & H2 & HL)|(q & Hq & H)]; [exists s; split; [left; reflexivity|auto]|exists q; split; [right; exact Hq|exact H]].
    + intros (q & [<-|Hq] & H); [left; exact H|right; exists q; auto].
  - (* it_min *)
    intros id mn mx fw b c s la l Hlt Ha IHa _ IHs Hp Hs p'.
    pose proof (outs_range text start defs _ _ _ (fst s) Ha (Nat.le_refl _) Hs) as Hr.
    rewrite (IHs Hp Hs Hr p'). split.
    + intros (q & Hq & Hne & H1 & H2 & HW). assert (Hq' : fst s <= fst q /\ fst q <= T) by (rewrite Forall_forall in Hr; apply Hr; exact Hq).
      split; [lia|]. split; [exact H2|]. apply (loopw_step b c mn mx (fst s) (fst q) p'); try lia; [|exact HW].
      apply (IHa Hp Hs (fst q)). apply ends_in. eauto.
    + intros (H1 & H2 & ws & E & Hall & Hmn & Hw). destruct ws as [|w ws]; [cbn in Hmn; lia|].
      destruct (loopw_unstep b c mn mx (fst s) p' w ws H1 H2 E Hall Hmn Hw) as (m & K1 & K2 & K3 & K4).
      assert (Hin : ends la m) by (apply (IHa Hp Hs); repeat split; auto; lia).
      apply ends_in in Hin. destruct Hin as (q & Hq & Eq). exists q. rewrite Eq. repeat split; auto; lia.
  - (* it_greedy *)
    intros id mn mx b c s la l Hle Hw Ha IHa _ IHs Hp Hs p'.
    pose proof (outs_range text start defs _ _ _ (fst s) Ha (Nat.le_refl _) Hs) as Hr.
    rewrite ends_app, ends_single, (IHs Hp Hs Hr p'). split.
    + intros [(q & Hq & Hne & H1 & H2 & HW)| ->].
      * assert (Hq' : fst s <= fst q /\ fst q <= T) by (rewrite Forall_forall in Hr; apply Hr; exact Hq).
        split; [lia|]. split; [exact H2|]. apply (loopw_step b c mn mx (fst s) (fst q) p'); try lia; [|exact HW].
        apply (IHa Hp Hs (fst q)). apply ends_in. eauto.
      * split; [lia|]. split; [exact Hs|]. exists []. rewrite sub_same. cbn [concat length]. rewrite Nat.add_0_r. auto.
    + intros (H1 & H2 & ws & E & Hall & Hmn & Hw'). destruct ws as [|w ws].
      * right. cbn in E. apply sub_nil_iff in E; auto.
      * left. destruct (loopw_unstep b c mn mx (fst s) p' w ws H1 H2 E Hall Hmn Hw') as (m & K1 & K2 & K3 & K4).
        assert (Hin : ends la m) by (apply (IHa Hp Hs); repeat split; auto; lia).
        apply ends_in in Hin. destruct Hin as (q & Hq & Eq). exists q. rewrite Eq. repeat split; auto; lia.
  - (* it_lazy *)
    intros id mn mx b c s la l Hle Hw Ha IHa _ IHs Hp Hs p'.
    pose proof (outs_range text start defs _ _ _ (fst s) Ha (Nat.le_refl _) Hs) as Hr.
    rewrite ends_cons, (IHs Hp Hs Hr p'). split.
    + intros [->|(q & Hq & Hne & H1 & H2 & HW)].
      * split; [lia|]. split; [exact Hs|]. exists []. rewrite sub_same. cbn [concat length]. rewrite Nat.add_0_r. auto.
      * assert (Hq' : fst s <= fst q /\ fst q <= T) by (rewrite Forall_forall in Hr; apply Hr; exact Hq).
        split; [lia|]. split; [exact H2|]. apply (loopw_step b c mn mx (fst s) (fst q) p'); try lia; [|exact HW].
        apply (IHa Hp Hs (fst q)). apply ends_in. eauto.
    + intros (H1 & H2 & ws & E & Hall & Hmn & Hw'). destruct ws as [|w ws].
      * left. cbn in E. apply sub_nil_iff in E; auto.
      * right. destruct (loopw_unstep b c mn mx (fst s) p' w ws H1 H2 E Hall Hmn Hw') as (m & K1 & K2 & K3 & K4).
        assert (Hin : ends la m) by (apply (IHa Hp Hs); repeat split; auto; lia).
        apply ends_in in Hin. destruct Hin as (q & Hq & Eq). exists q. rewrite Eq. repeat split; auto; lia.
  - (* it_over *)
    intros id mn mx fw b c s Hle Hw _ Hs p'. rewrite ends_nil. split; [contradiction|].
    intros (_ & _ & ws & _ & _ & _ & Hw'). apply within_mono in Hw'. congruence.
  - (* is_nil *)
    intros id mn mx fw b c s _ _ _ p'. rewrite ends_nil. split; [contradiction|]. intros (q & [] & _).
  - (* is_zero *)
    intros id mn mx fw b c s q qs l Hz _ IH Hp Hs Hall p'. inversion Hall as [|? ? _ Hqs]; subst. rewrite (IH Hp Hs Hqs p'). split.
    + intros (q' & Hq' & H). exists q'. split; [right; exact Hq'|exact H].
    + intros (q' & [<-|Hq'] & Hne & H); [congruence|]. exists q'. auto.
  - (* is_cons *)
    intros id mn mx fw b c s q qs l1 l2 Hnz _ IH1 _ IH2 Hp Hs Hall p'. inversion Hall as [|? ? [Hq1 Hq2] Hqs]; subst.
    rewrite ends_app, (IH1 Hp Hq2 p'), (IH2 Hp Hs Hqs p'). split.
    + intros [(H1 & H2 & HW)|(q' & Hq' & H)]; [exists q; split; [left; reflexivity|auto]|exists q'; split; [right; exact Hq'|exact H]].
    + intros (q' & [<-|Hq'] & Hne & H1 & H2 & HW); [left; auto|right; exists q'; auto].
Qed.

Theorem outs_lang_lemma r s l : outs r s l -> pure r -> fst s <= T ->
  forall p', (exists e, In (p', e) l) <-> fst s <= p' /\ p' <= T /\ lang r (sub text (fst s) p').
Proof. intros H Hp Hs. exact (proj1 outs_lang_mut r s l H Hp Hs). Qed.

End LangSound.
