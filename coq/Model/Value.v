(* engine.Value: a captured string or a nested map (named loops) *)
From Model Require Export Bytes.

Inductive value :=
| VStr (s : bytes)
| VMap (m : list (bytes * value)).

Definition env := list (bytes * value).
