(* Model of engine.Run (libvore/engine/engine.go) over the in-memory reader, and canonical
   (sorted) rendering of variable maps for comparison with the implementation. *)
From Model Require Export Replace Gen.

Definition vm_fuel_default : nat := 5000.

Definition text_name : bytes := [116;101;120;116]%N.   (* Run passes the file name "text" *)

Inductive rres := ROk (ms : list mrec) | RCrash (why : crash) | RFuel.

Definition run_find (fuel : nat) (filename : bytes) (text : bytes) (c : bcommand) : rres :=
  match c with
  | BFind all sk tk la body =>
      match find_matches fuel body text all sk tk la with
      | SOk ms => ROk ms | SCrash w => RCrash w | SFuel => RFuel
      end
  | BReplace all sk tk la body replacer =>
      match find_matches fuel body text all sk tk la with
      | SOk ms => match replace_all filename (length ms) replacer ms with
                  | Ok ms' => ROk ms' | Crash w => RCrash w | OutOfFuel => RFuel
                  end
      | SCrash w => RCrash w | SFuel => RFuel
      end
  | _ => ROk []
  end.

Fixpoint run_commands (fuel : nat) (text : bytes) (cs : list bcommand) : rres :=
  match cs with
  | [] => ROk []
  | c :: r => match run_find fuel text_name text c with
              | ROk ms => match run_commands fuel text r with
                          | ROk ms' => ROk (ms ++ ms')
                          | x => x
                          end
              | x => x
              end
  end.

(* what a replace command writes (searchReplace's destination) *)
Definition replace_output (fuel : nat) (filename : bytes) (text : bytes) (c : bcommand) : option bytes :=
  match c with
  | BReplace _ _ _ _ _ _ =>
      match run_find fuel filename text c with
      | ROk ms => Some (splice text ms)
      | _ => None
      end
  | _ => None
  end.

(* ---- canonical form of variable maps: keys sorted ---- *)
Fixpoint insert_sorted {A} (k : bytes) (v : A) (l : list (bytes * A)) : list (bytes * A) :=
  match l with
  | [] => [(k, v)]
  | (k', v') :: r => if bytes_leb k k' then (k, v) :: l else (k', v') :: insert_sorted k v r
  end.

Fixpoint canon_value (v : value) : value :=
  match v with
  | VStr s => VStr s
  | VMap m =>
      VMap ((fix go (m : list (bytes * value)) : list (bytes * value) :=
               match m with
               | [] => []
               | (k, x) :: r => insert_sorted k (canon_value x) (go r)
               end) m)
  end.

Definition canon_env (e : env) : env :=
  match canon_value (VMap e) with VMap m => m | VStr _ => [] end.
