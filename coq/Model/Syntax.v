(* Syntax trees and bytecode of vore: mirrors libvore/ast/ast.go and libvore/bytecode/bytecode.go
   constructor for constructor. *)
From Model Require Export Bytes.

Definition name := bytes.

Inductive cls :=
| CAny | CWhitespace | CDigit | CUpper | CLower | CLetter
| CLineStart | CFileStart | CWordStart | CLineEnd | CFileEnd | CWordEnd
| CWholeLine | CWholeFile | CWholeWord.

(* ---- process language (transforms / predicates) ---- *)
Inductive binop := OAnd | OOr | OPlus | OMinus | OMult | ODiv | OMod
                 | OLess | OGreater | OLessEq | OGreaterEq | ODEqual | ONEqual.
Inductive unop := UNot | UHead | UTail.

Inductive pexpr :=
| PEBin (op : binop) (l r : pexpr)
| PEUn (op : unop) (e : pexpr)
| PEStr (v : bytes)
| PENum (v : Z)
| PEBool (v : bool)
| PEVar (n : name).

Inductive pstmt :=
| PSSet (n : name) (e : pexpr)
| PSReturn (e : pexpr)
| PSIf (c : pexpr) (t f : pstmts)
| PSDebug (e : pexpr)
| PSLoop (b : pstmts)
| PSContinue
| PSBreak
with pstmts :=
| PNil
| PCons (s : pstmt) (r : pstmts).

(* ---- search language ---- *)
Inductive listable :=
| LiStr (not : bool) (caseless : bool) (v : bytes)
| LiClass (not : bool) (c : cls)
| LiRange (from to : bytes).

Inductive lit :=
| LStr (not : bool) (caseless : bool) (v : bytes)
| LSubExpr (body : exprs)
| LVar (n : name)
| LClass (not : bool) (c : cls)
with expr :=
| ELoop (mn : nat) (mx : Z) (fewest : bool) (nm : name) (body : expr)
| EBranch (l : lit) (r : expr)
| EDec (n : name) (l : lit)
| ESub (n : name) (body : exprs)
| EList (not : bool) (items : list listable)
| EPrim (l : lit)
with exprs :=
| ENil
| ECons (e : expr) (r : exprs).

Inductive atom := AStr (not caseless : bool) (v : bytes) | AVar (n : name).

Inductive command :=
| CFind (all : bool) (skip take last : nat) (body : exprs)
| CReplace (all : bool) (skip take last : nat) (body : exprs) (result : list atom)
| CSetPattern (id : name) (pat : exprs) (pred : pstmts)
| CSetTransform (id : name) (body : pstmts)
| CSetMatches (id : name) (c : command).

(* ---- bytecode ---- *)
Inductive instr :=
| IMatchLit (not caseless : bool) (v : bytes)
| IMatchClass (not : bool) (c : cls)
| IMatchVar (n : name)
| IMatchRange (not : bool) (from to : bytes)
| ICall (n : name) (topc : nat)
| IBranch (bs : list nat)
| IStartNotIn (next : nat)
| IFailNotIn
| IEndNotIn (maxsize : Z)
| IStartLoop (id : nat) (mn : nat) (mx : Z) (fewest : bool) (exit : nat) (nm : name)
| IStopLoop (id : nat) (mn : nat) (mx : Z) (fewest : bool) (start : nat) (nm : name)
| IStartVar (n : name)
| IEndVar (n : name)
| IStartSub (id : nat) (n : name) (endoff : nat)
| IEndSub (n : name) (validate : pstmts)
| IJump (t : nat).

Inductive rinstr :=
| RString (v : bytes)
| RVariable (n : name)
| RProcess (p : pstmts).

Inductive bcommand :=
| BFind (all : bool) (skip take last : nat) (body : list instr)
| BReplace (all : bool) (skip take last : nat) (body : list instr) (replacer : list rinstr)
| BSetPattern (id : name) (code : list instr) (validate : pstmts)
| BSetTransform (id : name) (body : pstmts)
| BSetMatches (id : name) (c : bcommand).

Fixpoint exprs_to_list (es : exprs) : list expr :=
  match es with ENil => [] | ECons e r => e :: exprs_to_list r end.
Fixpoint pstmts_to_list (ss : pstmts) : list pstmt :=
  match ss with PNil => [] | PCons s r => s :: pstmts_to_list r end.
