(* Model of main.go's flag validation and output plan as a pure decision function. *)
From Coq Require Import List Bool.
Import ListNotations.

Inductive modearg := MUnset | MNew | MNothing | MOverwrite | MBogus.
Inductive rmode := RNew | RNothing | ROverwrite.

Record flags := {
  f_com : bool;          (* -com given (non-empty) *)
  f_src : bool;          (* -src given *)
  f_files : bool;        (* -files given *)
  f_json : bool;
  f_fjson : bool;
  f_jsonfile : bool;
  f_fjsonfile : bool;
  f_mode : modearg;
  f_nooutput : bool
}.

Inductive stdout_kind := OutNone | OutHuman | OutJson | OutFormattedJson.

Record plan := {
  p_mode : rmode;
  p_stdout : stdout_kind;          (* when there is at least one match *)
  p_jsonfile : bool;               (* the -json-file is (re)written with the compact document *)
  p_fjsonfile : bool
}.

Inductive decision := Reject | Go (p : plan).

Definition parse_mode (m : modearg) : option rmode :=
  match m with
  | MUnset | MNew => Some RNew
  | MNothing => Some RNothing
  | MOverwrite => Some ROverwrite
  | MBogus => None
  end.

(* main.go, in its order of checks: flag parsing (mode), files, com/src, json flags *)
Definition decide (f : flags) : decision :=
  match parse_mode (f_mode f) with
  | None => Reject
  | Some m =>
      if negb (f_files f) then Reject
      else if (f_com f && f_src f)%bool then Reject
      else if (negb (f_com f) && negb (f_src f))%bool then Reject
      else if (f_json f && f_fjson f)%bool then Reject
      else Go {| p_mode := m;
                 p_stdout := if f_nooutput f then OutNone
                             else if f_json f then OutJson
                             else if f_fjson f then OutFormattedJson else OutHuman;
                 p_jsonfile := (f_jsonfile f && negb (f_nooutput f))%bool;
                 p_fjsonfile := (f_fjsonfile f && negb (f_nooutput f))%bool |}
  end.

Definition bools := [true; false].
Definition modes := [MUnset; MNew; MNothing; MOverwrite; MBogus].

Definition all_flags : list flags :=
  flat_map (fun a => flat_map (fun b => flat_map (fun c => flat_map (fun d => flat_map (fun e =>
  flat_map (fun g => flat_map (fun h => flat_map (fun m => map (fun n =>
    {| f_com := a; f_src := b; f_files := c; f_json := d; f_fjson := e; f_jsonfile := g; f_fjsonfile := h; f_mode := m; f_nooutput := n |})
  bools) modes) bools) bools) bools) bools) bools) bools) bools.

(* the documented requirements, as a boolean on (flags, decision) *)
Definition documented_valid (f : flags) : bool :=
  (f_files f && xorb (f_com f) (f_src f) && negb (f_json f && f_fjson f) &&
   match f_mode f with MBogus => false | _ => true end)%bool.

Definition requirement (f : flags) : bool :=
  match decide f with
  | Reject => negb (documented_valid f)
  | Go p =>
      (documented_valid f &&
       (* default mode is NEW; a given mode is honoured *)
       match f_mode f, p_mode p with
       | MUnset, RNew | MNew, RNew | MNothing, RNothing | MOverwrite, ROverwrite => true
       | _, _ => false
       end &&
       (* at most one document on stdout, of the kind asked for; none under -no-output *)
       match p_stdout p with
       | OutJson => f_json f && negb (f_nooutput f)
       | OutFormattedJson => f_fjson f && negb (f_json f) && negb (f_nooutput f)
       | OutHuman => negb (f_json f) && negb (f_fjson f) && negb (f_nooutput f)
       | OutNone => f_nooutput f
       end &&
       (* files receive the documents exactly when named (and output is not suppressed) *)
       Bool.eqb (p_jsonfile p) (f_jsonfile f && negb (f_nooutput f)) &&
       Bool.eqb (p_fjsonfile p) (f_fjsonfile f && negb (f_nooutput f)))%bool
  end.
