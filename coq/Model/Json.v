(* Model of the JSON rendering of results: Match.MarshalJSON (libvore/engine/matches.go), the
   Value marshalers (values.go), ds.Range; encoding/json's compact and tab-indented writers with
   Go's string escaping (ASCII; bytes >= 0x80 pass through as in valid UTF-8). *)
From Model Require Export Scan.
Local Open Scope N_scope.

Inductive json :=
| JNum (z : Z)
| JStr (s : bytes)
| JObj (fields : list (bytes * json))
| JArr (items : list json).

Definition hexd (n : N) : N := if n <? 10 then 48 + n else 87 + n.

Definition esc_byte (b : N) : bytes :=
  if b =? 34 then [92; 34]
  else if b =? 92 then [92; 92]
  else if b =? 10 then [92; 110]
  else if b =? 13 then [92; 114]
  else if b =? 9 then [92; 116]
  else if (b <? 32) || (b =? 60) || (b =? 62) || (b =? 38) then [92; 117; 48; 48; hexd (b / 16); hexd (b mod 16)]
  else [b].

Definition esc_string (s : bytes) : bytes := 34 :: flat_map esc_byte s ++ [34].

Fixpoint sep_concat (sep : bytes) (parts : list bytes) : bytes :=
  match parts with
  | [] => []
  | [p] => p
  | p :: r => p ++ sep ++ sep_concat sep r
  end.

Fixpoint compact (j : json) : bytes :=
  match j with
  | JNum z => itoa_Z z
  | JStr s => esc_string s
  | JObj fs => 123 :: sep_concat [44] ((fix go (fs : list (bytes * json)) : list bytes :=
                  match fs with [] => [] | (k, v) :: r => (esc_string k ++ [58] ++ compact v) :: go r end) fs) ++ [125]
  | JArr xs => 91 :: sep_concat [44] ((fix go (xs : list json) : list bytes :=
                  match xs with [] => [] | v :: r => compact v :: go r end) xs) ++ [93]
  end.

Definition tabs (n : nat) : bytes := repeat 9 n.

Fixpoint indent (lvl : nat) (j : json) : bytes :=
  match j with
  | JNum z => itoa_Z z
  | JStr s => esc_string s
  | JObj [] => [123; 125]
  | JObj fs => [123; 10] ++ sep_concat [44; 10] ((fix go (fs : list (bytes * json)) : list bytes :=
                  match fs with [] => [] | (k, v) :: r => (tabs (S lvl) ++ esc_string k ++ [58; 32] ++ indent (S lvl) v) :: go r end) fs)
               ++ [10] ++ tabs lvl ++ [125]
  | JArr [] => [91; 93]
  | JArr xs => [91; 10] ++ sep_concat [44; 10] ((fix go (xs : list json) : list bytes :=
                  match xs with [] => [] | v :: r => (tabs (S lvl) ++ indent (S lvl) v) :: go r end) xs)
               ++ [10] ++ tabs lvl ++ [93]
  end.

(* keys, as byte strings *)
Definition k_column : bytes := [99;111;108;117;109;110].
Definition k_filename : bytes := [102;105;108;101;110;97;109;101].
Definition k_line : bytes := [108;105;110;101].
Definition k_matchNumber : bytes := [109;97;116;99;104;78;117;109;98;101;114].
Definition k_offset : bytes := [111;102;102;115;101;116].
Definition k_replacement : bytes := [114;101;112;108;97;99;101;109;101;110;116].
Definition k_value : bytes := [118;97;108;117;101].
Definition k_variables : bytes := [118;97;114;105;97;98;108;101;115].
Definition k_start : bytes := [115;116;97;114;116].
Definition k_end : bytes := [101;110;100].

(* ds.Range.MarshalJSON: a map, so keys in sorted order: end, start *)
Definition range_json (a b : nat) : json := JObj [(k_end, JNum (Z.of_nat b)); (k_start, JNum (Z.of_nat a))].

(* engine.Value marshalers: a string, or a map with sorted keys *)
Fixpoint insert_sorted_j (k : bytes) (v : json) (l : list (bytes * json)) : list (bytes * json) :=
  match l with
  | [] => [(k, v)]
  | (k', v') :: r => if bytes_leb k k' then (k, v) :: l else (k', v') :: insert_sorted_j k v r
  end.

Fixpoint value_json (v : value) : json :=
  match v with
  | VStr s => JStr s
  | VMap m => JObj ((fix go (m : list (bytes * value)) : list (bytes * json) :=
                       match m with [] => [] | (k, x) :: r => insert_sorted_j k (value_json x) (go r) end) m)
  end.

(* Match.MarshalJSON: a map[string]any, so keys sorted; replacement only when present *)
Definition match_json (filename : bytes) (m : mrec) : json :=
  JObj ([(k_column, range_json (mcstart m) (mcend m));
         (k_filename, JStr filename);
         (k_line, range_json (mlstart m) (mlend m));
         (k_matchNumber, JNum (Z.of_nat (mnum m)));
         (k_offset, range_json (mstart m) (mend m))] ++
        match mrepl m with Some r => [(k_replacement, JStr r)] | None => [] end ++
        [(k_value, JStr (mvalue m)); (k_variables, value_json (VMap (mvars m)))]).

Definition matches_json (filename : bytes) (ms : list mrec) : json := JArr (map (match_json filename) ms).

Fixpoint jlookup (fs : list (bytes * json)) (k : bytes) : option json :=
  match fs with [] => None | (k', v) :: r => if bytes_eqb k' k then Some v else jlookup r k end.
