(* Model of libvore/ast/parser.go and parser_regexp.go: the hand-written recursive-descent parser
   over the token slice (an explicit index; reading past the end = the Go panic = PCrash), the
   Pratt parser of transform expressions and the regex-literal sub-parser over the bytes of the
   lexeme.  Recursion is on fuel; Proofs/ParseTotal.v shows the fuel of [parse] always suffices. *)
From Model Require Export Lexer Syntax.
Local Open Scope N_scope.

Inductive pr (A : Type) := POk (a : A) | PErr | PCrash | PFuel.
Arguments POk {A} a. Arguments PErr {A}. Arguments PCrash {A}. Arguments PFuel {A}.

Definition pbind {A B} (m : pr A) (f : A -> pr B) : pr B :=
  match m with POk a => f a | PErr => PErr | PCrash => PCrash | PFuel => PFuel end.

Notation "'do' x <- e ; k" := (pbind e (fun x => k)) (at level 200, x pattern, e at level 100, k at level 200, right associativity).

Scheme Equality for ttype.
Notation teq := ttype_beq.

(* strconv.Atoi on a lexeme of ASCII digits: fails when the value exceeds the 64-bit int *)
Definition max_int : N := 9223372036854775807.
Fixpoint digits_val (ds : bytes) (acc : N) : option N :=
  match ds with
  | [] => Some acc
  | d :: r => if (48 <=? d) && (d <=? 57) then digits_val r (acc * 10 + (d - 48)) else None
  end.
Definition atoi_int (ds : bytes) : option nat :=
  match ds with
  | [] => None
  | _ => match digits_val ds 0 with Some v => if v <=? max_int then Some (N.to_nat v) else None | None => None end
  end.

(* ================= regex literals ================= *)
Section Regex.
Variable re : bytes.
Local Open Scope nat_scope.

Definition rc (i : nat) : option N := nth_error re i.
Definition rlen : nat := length re.
Definition rc_is (i : nat) (b : N) : bool := match rc i with Some c => N.eqb c b | None => false end.

Fixpoint rnum_digits (fuel i : nat) (acc : bytes) : bytes * nat :=
  match fuel with
  | O => (acc, i)
  | S f => match rc i with
           | Some c => if is_digit_r c && N.ltb c 128 then rnum_digits f (S i) (acc ++ [c]) else (acc, i)
           | None => (acc, i)
           end
  end.

Definition rnumber (i : nat) : pr (nat * nat) :=
  let '(ds, idx) := rnum_digits (S rlen) i [] in
  match ds with
  | [] => PErr
  | _ => match atoi_int ds with Some v => POk (v, idx) | None => PErr end
  end.

(* (min, max, fewest) of a quantifier at i, or none *)
Definition rquant (i : nat) : pr (option (nat * Z * bool) * nat) :=
  match rc i with
  | None => POk (None, i)
  | Some op =>
      let fin (mn : nat) (mx : Z) (e : nat) : pr (option (nat * Z * bool) * nat) :=
        let few := rc_is e 63 in POk (Some (mn, mx, few), if few then S e else e) in
      if N.eqb op 42 then fin 0 (-1)%Z (S i)
      else if N.eqb op 43 then fin 1 (-1)%Z (S i)
      else if N.eqb op 63 then fin 0 1%Z (S i)
      else if N.eqb op 123 then
        do (from, idx) <- rnumber (S i);
        match rc idx with
        | None => PErr
        | Some cb =>
            if N.eqb cb 44 then
              match rc (S idx) with
              | None => PErr
              | Some c2 =>
                  if N.eqb c2 125 then fin from (-1)%Z (S (S idx))
                  else do (to, idx2) <- rnumber (S idx);
                       match rc idx2 with
                       | None => PErr
                       | Some br => if N.eqb br 125 then fin from (Z.of_nat to) (S idx2) else PErr
                       end
              end
            else if N.eqb cb 125 then fin from (Z.of_nat from) (S idx)
            else PErr
        end
      else POk (None, i)
  end.

Definition with_quant (body : expr) (j g : nat) : pr (expr * nat * nat) :=
  do (q, k) <- rquant j;
  POk (match q with None => body | Some (mn, mx, few) => ELoop mn mx few [] body end, k, g).

(* unicode.IsDigit / IsLetter of a byte read as a Latin-1 code point *)
Definition is_letter_latin1 (c : N) : bool :=
  (is_letter_r c || N.eqb c 170 || N.eqb c 181 || N.eqb c 186 || (N.leb 192 c && N.leb c 214) || (N.leb 216 c && N.leb c 246) || (N.leb 248 c && N.leb c 255))%bool.

Fixpoint rident (fuel i : nat) (acc : bytes) : bytes * nat :=
  match fuel with
  | O => (acc, i)
  | S f => match rc i with
           | Some c => if (is_digit_r c || is_letter_latin1 c)%bool then rident f (S i) (acc ++ encode_rune c) else (acc, i)
           | None => (acc, i)
           end
  end.

Definition underscore : N := 95%N.

Definition resc (i : nat) : pr (lit * nat) :=
  match rc i with
  | None => PErr
  | Some c =>
      if (N.leb 49 c && N.leb c 57)%bool then
        match rc (S i) with
        | None => POk (LVar [underscore; c], S i)
        | Some d => if (N.leb 48 d && N.leb d 57)%bool then POk (LVar [underscore; c; d], S (S i)) else POk (LVar [underscore; c], S i)
        end
      else if N.eqb c 100 then POk (LClass false CDigit, S i)
      else if N.eqb c 68 then POk (LClass true CDigit, S i)
      else if N.eqb c 115 then POk (LClass false CWhitespace, S i)
      else if N.eqb c 83 then POk (LClass true CWhitespace, S i)
      else if N.eqb c 119 then POk (LClass false CLetter, S i)
      else if N.eqb c 87 then POk (LClass true CLetter, S i)
      else if N.eqb c 98 then POk (LSubExpr (ECons (EBranch (LClass false CWordStart) (EPrim (LClass false CWordEnd))) ENil), S i)
      else if N.eqb c 66 then POk (LSubExpr (ECons (EList true [LiClass false CWordStart; LiClass false CWordEnd]) ENil), S i)
      else if N.eqb c 107 then
        if negb (rc_is (S i) 60) then PErr
        else let '(id, j) := rident (S rlen) (S (S i)) [] in
             if rc_is j 62 then POk (LVar id, S j) else PErr
      else POk (LStr false false (encode_rune c), S i)
  end.

(* one element of a bracket class *)
Definition rclass_atom (i : nat) : pr (option bytes * nat) :=
  match rc i with
  | None => PErr
  | Some c => if N.eqb c 93 then POk (None, i) else POk (Some (encode_rune c), S i)
  end.

Definition rclass_range (i : nat) : pr (listable * nat) :=
  match rc i with
  | None => PCrash
  | Some c =>
      if N.eqb c 92 then PErr
      else
        do (st, j) <- rclass_atom i;
        match st with
        | None => PCrash     (* not reachable: the caller stops at ']' (Go would return a nil listable) *)
        | Some s =>
            match rc j with
            | None => POk (LiStr false false s, j)
            | Some d =>
                if N.eqb d 45 then
                  do (to, k) <- rclass_atom (S j);
                  match to with
                  | None => POk (LiStr false false s, j)
                  | Some t => POk (LiRange s t, k)
                  end
                else POk (LiStr false false s, j)
            end
        end
  end.

Fixpoint rclass_items (fuel i : nat) : pr (list listable * nat) :=
  match fuel with
  | O => PFuel
  | S f => match rc i with
           | None => POk ([], i)
           | Some c => if N.eqb c 93 then POk ([], i)
                       else do (l, j) <- rclass_range i; do (ls, k) <- rclass_items f j; POk (l :: ls, k)
           end
  end.

Definition rclass (i : nat) : pr (expr * nat) :=
  match rc i with
  | None => PErr
  | Some c0 =>
      let notin := N.eqb c0 94 in
      let i1 := if notin then S i else i in
      if rlen <=? i1 then PErr
      else
        do (items, j) <- rclass_items (S rlen) i1;
        if rlen <=? j then PErr
        else POk (EList notin (match items with [] => [LiClass true CAny] | _ => items end), S j)
  end.

Definition itoa_bytes (n : nat) : bytes := map (fun d => (48 + N.of_nat d)%N) (
  (fix digs (fuel m : nat) (acc : list nat) : list nat :=
     match fuel with
     | O => acc
     | S f => if m <? 10 then m :: acc else digs f (m / 10) ((m mod 10) :: acc)
     end) (S n) n []).

Fixpoint rdisj (fuel : nat) (i g : nat) : pr (exprs * nat * nat) :=
  match fuel with
  | O => PFuel
  | S f =>
      match rc i with
      | None => POk (ENil, i, g)
      | Some c =>
          if N.eqb c 41 then POk (ENil, i, g)
          else do (e, j, g1) <- rpattern f i g;
               do (es, k, g2) <- rdisj f j g1;
               POk (ECons e es, k, g2)
      end
  end
with rpattern (fuel : nat) (i g : nat) : pr (expr * nat * nat) :=
  match fuel with
  | O => PFuel
  | S f =>
      do (start, j, g1) <- rliteral f i g;
      if rc_is j 124
      then do (e, k, g2) <- rpattern f (S j) g1; POk (EBranch (LSubExpr (ECons start ENil)) e, k, g2)
      else POk (start, j, g1)
  end
with rliteral (fuel : nat) (i g : nat) : pr (expr * nat * nat) :=
  match fuel with
  | O => PFuel
  | S f =>
      match rc i with
      | None => PErr
      | Some c =>
          if N.eqb c 94 then POk (EPrim (LClass false CLineStart), S i, g)
          else if N.eqb c 36 then POk (EPrim (LClass false CLineEnd), S i, g)
          else if N.eqb c 92 then do (l, j) <- resc (S i); with_quant (EPrim l) j g
          else if N.eqb c 40 then do (l, j, g1) <- rgroup f (S i) g; with_quant (EPrim l) j g1
          else if N.eqb c 91 then do (e, j) <- rclass (S i); with_quant e j g
          else if N.eqb c 46 then with_quant (EPrim (LStr true false [10%N])) (S i) g
          else with_quant (EPrim (LStr false false (encode_rune c))) (S i) g
      end
  end
with rgroup (fuel : nat) (i g : nat) : pr (lit * nat * nat) :=
  match fuel with
  | O => PFuel
  | S f =>
      match rc i with
      | None => PErr
      | Some c =>
          if N.eqb c 63 then
            match rc (S i) with
            | None => PErr
            | Some marker =>
                if N.eqb marker 58 then
                  do (es, j, g1) <- rdisj f (S (S i)) g;
                  if rc_is j 41 then POk (LSubExpr es, S j, g1) else PErr
                else if N.eqb marker 61 then PErr
                else if N.eqb marker 33 then PErr
                else if N.eqb marker 60 then
                  match rc (S (S i)) with
                  | None => PErr
                  | Some a =>
                      if N.eqb a 61 then PErr else if N.eqb a 33 then PErr
                      else let '(id, j) := rident (S rlen) (S (S i)) [] in
                           if negb (rc_is j 62) then PErr
                           else do (es, k, g1) <- rdisj f (S j) g;
                                if rc_is k 41 then POk (LSubExpr (ECons (EDec id (LSubExpr es)) ENil), S k, g1) else PErr
                  end
                else PErr
            end
          else
            let gn := S g in
            do (es, j, g1) <- rdisj f i gn;
            if rc_is j 41 then POk (LSubExpr (ECons (EDec (underscore :: itoa_bytes gn) (LSubExpr es)) ENil), S j, g1) else PErr
      end
  end.

Definition regex_fuel : nat := 4 * rlen + 8.

Definition parse_regexp (g : nat) : pr (expr * nat) :=
  do (es, _, g1) <- rdisj regex_fuel 0 g;
  POk (EPrim (LSubExpr es), g1).

End Regex.

(* ================= the token parser ================= *)
Section Parse.
Variable toks : list token.
Local Open Scope nat_scope.

Definition ty (i : nat) : pr ttype := match nth_error toks i with Some t => POk (ttyp t) | None => PCrash end.
Definition lx (i : nat) : bytes := match nth_error toks i with Some t => lexeme t | None => [] end.

Definition expect (i : nat) (t : ttype) : pr unit := do t' <- ty i; if teq t' t then POk tt else PErr.
Definition number_at (i : nat) : pr nat :=
  do t <- ty i; if teq t NUMBER then match atoi_int (lx i) with Some v => POk v | None => PErr end else PErr.

Definition stop_cmd (t : ttype) : bool := teq t FIND || teq t REPLACE || teq t SET || teq t EOF.
Definition stop_paren (t : ttype) : bool := teq t CLOSEPAREN || stop_cmd t.
Definition stop_curly (t : ttype) : bool := teq t CLOSECURLY || stop_cmd t.
Definition stop_with (t : ttype) : bool := teq t WITH || stop_cmd t.
Definition stop_pattern (t : ttype) : bool := stop_cmd t || teq t BEGIN.

Definition class_after (i : nat) (start_c end_c : cls) : pr (cls * nat) :=
  do t <- ty (S i); if teq t START then POk (start_c, S (S i)) else if teq t END then POk (end_c, S (S i)) else PErr.

Definition pclass (i : nat) : pr (cls * nat) :=
  do t <- ty i;
  match t with
  | ANY => POk (CAny, S i) | WHITESPACE => POk (CWhitespace, S i) | DIGIT => POk (CDigit, S i)
  | UPPER => POk (CUpper, S i) | LOWER => POk (CLower, S i) | LETTER => POk (CLetter, S i)
  | LINE => class_after i CLineStart CLineEnd
  | FILE => class_after i CFileStart CFileEnd
  | WORD => class_after i CWordStart CWordEnd
  | WHOLE => do t1 <- ty (S i);
             if teq t1 LINE then POk (CWholeLine, S (S i)) else if teq t1 FILE then POk (CWholeFile, S (S i))
             else if teq t1 WORD then POk (CWholeWord, S (S i)) else PErr
  | _ => PErr
  end.

Definition is_class_tok (t : ttype) : bool :=
  match t with ANY | WHITESPACE | DIGIT | UPPER | LOWER | LETTER | LINE | FILE | WORD | WHOLE => true | _ => false end.
Definition is_listable_class (t : ttype) : bool :=
  match t with ANY | WHITESPACE | DIGIT | UPPER | LOWER | LETTER => true | _ => false end.

Definition plistable (i : nat) : pr (listable * nat) :=
  do t <- ty i;
  if teq t STRING then
    do t1 <- ty (S i);
    if negb (teq t1 TO) then POk (LiStr false false (lx i), S i)
    else do _ <- expect (S (S i)) STRING; POk (LiRange (lx i) (lx (S (S i))), S (S (S i)))
  else if teq t CASELESS then do _ <- expect (S i) STRING; POk (LiStr false true (lx (S i)), S (S i))
  else if is_listable_class t then do (c, j) <- pclass i; POk (LiClass false c, j)
  else PErr.

Fixpoint pin_rest (fuel j : nat) : pr (list listable * nat) :=
  match fuel with
  | O => PFuel
  | S f => do t <- ty j;
           if teq t COMMA then do (l, k) <- plistable (S j); do (ls, m) <- pin_rest f k; POk (l :: ls, m)
           else POk ([], j)
  end.

Definition pin (i : nat) (not : bool) : pr (expr * nat) :=
  do (l, j) <- plistable (S i);
  do (ls, k) <- pin_rest (S (length toks)) j;
  POk (EList not (l :: ls), k).

Definition pnamed (j : nat) : pr (name * nat) :=
  do t <- ty j;
  if teq t NAMED then
    do t1 <- ty (S j);
    if teq t1 IDENTIFIER || teq t1 STRING then POk (lx (S j), S (S j)) else PErr
  else POk ([], j).

Definition pfewest (j : nat) : pr (bool * nat) :=
  do t <- ty j; if teq t FEWEST then POk (true, S j) else POk (false, j).

Definition starts_primary (t : ttype) : bool :=
  match t with
  | STRING | IDENTIFIER | OPENPAREN | ANY | WHITESPACE | DIGIT | UPPER | LOWER | LETTER | LINE | FILE | WORD | WHOLE | CASELESS => true
  | _ => false
  end.

Fixpoint parse_expr (fuel : nat) (i g : nat) : pr (expr * nat * nat) :=
  match fuel with
  | O => PFuel
  | S f =>
      do t <- ty i;
      match t with
      | AT =>
          do t1 <- ty (S i);
          if negb (teq t1 LEAST || teq t1 MOST) then PErr
          else do v <- number_at (S (S i));
               do (e, j, g1) <- parse_expr f (S (S (S i))) g;
               do (few, j1) <- pfewest j;
               do (nm, j2) <- pnamed j1;
               POk (if teq t1 LEAST then ELoop v (-1)%Z few nm e else ELoop 0 (Z.of_nat v) few nm e, j2, g1)
      | BETWEEN =>
          do mn <- number_at (S i);
          do _ <- expect (S (S i)) AND;
          do mx <- number_at (S (S (S i)));
          do (e, j, g1) <- parse_expr f (S (S (S (S i)))) g;
          do (few, j1) <- pfewest j;
          do (nm, j2) <- pnamed j1;
          POk (ELoop mn (Z.of_nat mx) few nm e, j2, g1)
      | EXACTLY =>
          do v <- number_at (S i);
          do (e, j, g1) <- parse_expr f (S (S i)) g;
          do (nm, j2) <- pnamed j;
          POk (ELoop v (Z.of_nat v) false nm e, j2, g1)
      | MAYBE =>
          do (e, j, g1) <- parse_expr f (S i) g;
          do (few, j1) <- pfewest j;
          POk (ELoop 0 1%Z few [] e, j1, g1)
      | IN => do (e, j) <- pin i false; POk (e, j, g)
      | OPENCURLY =>
          do (es, j, g1) <- parse_exprs f stop_curly (S i) g;
          do _ <- expect j CLOSECURLY;
          do _ <- expect (S j) EQUAL;
          do _ <- expect (S (S j)) IDENTIFIER;
          POk (ESub (lx (S (S j))) es, S (S (S j)), g1)
      | NOT =>
          do t1 <- ty (S i);
          if teq t1 IN then do (e, j) <- pin (S i) true; POk (e, j, g)
          else pprim_or_dec f i g
      | REGEXP => do (e, g1) <- parse_regexp (lx i) g; POk (e, S i, g1)
      | _ => if starts_primary t then pprim_or_dec f i g else PErr
      end
  end
with pprim_or_dec (fuel : nat) (i g : nat) : pr (expr * nat * nat) :=
  match fuel with
  | O => PFuel
  | S f =>
      do (l, j, g1) <- plit f i g;
      do t <- ty j;
      if teq t EQUAL then do _ <- expect (S j) IDENTIFIER; POk (EDec (lx (S j)) l, S (S j), g1)
      else if teq t OR then do (r, k, g2) <- por_or f (S j) g1; POk (EBranch l r, k, g2)
      else POk (EPrim l, j, g1)
  end
with por_or (fuel : nat) (i g : nat) : pr (expr * nat * nat) :=
  match fuel with
  | O => PFuel
  | S f =>
      do (l, j, g1) <- plit f i g;
      do t <- ty j;
      if teq t OR then do (r, k, g2) <- por_or f (S j) g1; POk (EBranch l r, k, g2)
      else POk (EPrim l, j, g1)
  end
with plit (fuel : nat) (i g : nat) : pr (lit * nat * nat) :=
  match fuel with
  | O => PFuel
  | S f =>
      do t <- ty i;
      if teq t STRING then POk (LStr false false (lx i), S i, g)
      else if teq t CASELESS then do _ <- expect (S i) STRING; POk (LStr false true (lx (S i)), S (S i), g)
      else if teq t IDENTIFIER then POk (LVar (lx i), S i, g)
      else if teq t OPENPAREN then
        do (es, j, g1) <- parse_exprs f stop_paren (S i) g;
        do _ <- expect j CLOSEPAREN;
        POk (LSubExpr es, S j, g1)
      else if teq t NOT then
        do t1 <- ty (S i);
        if teq t1 STRING then POk (LStr true false (lx (S i)), S (S i), g)
        else if is_class_tok t1 then do (c, j) <- pclass (S i); POk (LClass true c, j, g)
        else PErr
      else if is_class_tok t then do (c, j) <- pclass i; POk (LClass false c, j, g)
      else PErr
  end
with parse_exprs (fuel : nat) (stop : ttype -> bool) (i g : nat) : pr (exprs * nat * nat) :=
  match fuel with
  | O => PFuel
  | S f =>
      do t <- ty i;
      if stop t then POk (ENil, i, g)
      else do (e, j, g1) <- parse_expr f i g;
           do (es, k, g2) <- parse_exprs f stop j g1;
           POk (ECons e es, k, g2)
  end.

(* ---- transform / predicate bodies ---- *)
Definition is_expr_end (t : ttype) : bool :=
  match t with SET | THEN | IF | ELSE | END | DEBUG | RETURN | LOOP | BREAK | CONTINUE => true | _ => false end.

Fixpoint expr_tokens (l : list token) (i : nat) : list token * nat :=
  match l with
  | [] => ([], i)
  | t :: r => if is_expr_end (ttyp t) then ([], i)
              else if teq (ttyp t) WS then expr_tokens r (S i)
              else let '(ts, j) := expr_tokens r (S i) in (t :: ts, j)
  end.

Definition unop_of (t : ttype) : option (unop * nat) :=
  match t with NOT => Some (UNot, 11) | HEAD => Some (UHead, 12) | TAIL => Some (UTail, 12) | _ => None end.

Definition binop_of (t : ttype) : option (binop * nat * nat) :=
  match t with
  | AND => Some (OAnd, 1, 2) | OR => Some (OOr, 1, 2)
  | DEQUAL => Some (ODEqual, 3, 4) | NEQUAL => Some (ONEqual, 3, 4)
  | LESS => Some (OLess, 5, 6) | GREATER => Some (OGreater, 5, 6) | LESSEQ => Some (OLessEq, 5, 6) | GREATEREQ => Some (OGreaterEq, 5, 6)
  | PLUS => Some (OPlus, 7, 8) | MINUS => Some (OMinus, 7, 8)
  | MULT => Some (OMult, 9, 10) | DIV => Some (ODiv, 9, 10) | MOD => Some (OMod, 9, 10)
  | _ => None
  end.

Section Pratt.
Variable et : list token.

Fixpoint pratt (fuel : nat) (idx minp : nat) : pr (pexpr * nat) :=
  match fuel with
  | O => PFuel
  | S f =>
      match nth_error et idx with
      | None => match et with [] => PCrash | _ => PErr end
      | Some tk =>
          let t := ttyp tk in
          do (lhs, ti) <-
             (if teq t STRING then POk (PEStr (lexeme tk), S idx)
              else if teq t TRUE then POk (PEBool true, S idx)
              else if teq t FALSE then POk (PEBool false, S idx)
              else if teq t NUMBER then POk (PENum (match atoi_int (lexeme tk) with Some v => Z.of_nat v | None => 0%Z end), S idx)
              else if teq t IDENTIFIER then POk (PEVar (lexeme tk), S idx)
              else if teq t OPENPAREN then
                do (sub, n) <- pratt f (S idx) 0;
                match nth_error et n with
                | None => PErr
                | Some c => if teq (ttyp c) CLOSEPAREN then POk (sub, S n) else PErr
                end
              else match unop_of t with
                   | Some (op, rp) => do (rhs, n) <- pratt f (S idx) rp; POk (PEUn op rhs, n)
                   | None => PErr
                   end);
          pratt_loop f lhs ti minp
      end
  end
with pratt_loop (fuel : nat) (lhs : pexpr) (ti minp : nat) : pr (pexpr * nat) :=
  match fuel with
  | O => PFuel
  | S f =>
      match nth_error et ti with
      | None => POk (lhs, ti)
      | Some tk =>
          if teq (ttyp tk) CLOSEPAREN then POk (lhs, ti)
          else match binop_of (ttyp tk) with
               | None => PErr
               | Some (op, lp, rp) =>
                   if lp <? minp then POk (lhs, ti)
                   else do (rhs, n) <- pratt f (S ti) rp; pratt_loop f (PEBin op lhs rhs) n minp
               end
      end
  end.
End Pratt.

Definition pprocexpr (i : nat) : pr (pexpr * nat) :=
  let '(et, next) := expr_tokens (skipn i toks) i in
  match et with
  | [] => do _ <- ty next; PErr
  | _ => do (e, fi) <- pratt et (2 * length et + 2) 0 0;
         if fi <? length et then PErr else POk (e, next)
  end.

Fixpoint parse_stmts (fuel : nat) (i : nat) : pr (pstmts * nat) :=
  match fuel with
  | O => PFuel
  | S f =>
      if S i <? length toks then
        do (os, j) <- parse_stmt f i;
        match os with
        | None => POk (PNil, j)
        | Some s => do (ss, k) <- parse_stmts f j; POk (PCons s ss, k)
        end
      else POk (PNil, i)
  end
with parse_stmt (fuel : nat) (i : nat) : pr (option pstmt * nat) :=
  match fuel with
  | O => PFuel
  | S f =>
      do t <- ty i;
      match t with
      | SET => do _ <- expect (S i) IDENTIFIER; do _ <- expect (S (S i)) TO;
               do (e, j) <- pprocexpr (S (S (S i))); POk (Some (PSSet (lx (S i)) e), j)
      | IF => do (c, j) <- pprocexpr (S i);
              do _ <- expect j THEN;
              do (tb, k) <- parse_stmts f (S j);
              do tk <- ty k;
              do (fb, k2) <- (if teq tk ELSE then parse_stmts f (S k) else POk (PNil, k));
              do _ <- expect k2 END;
              POk (Some (PSIf c tb fb), S k2)
      | RETURN => do (e, j) <- pprocexpr (S i); POk (Some (PSReturn e), j)
      | DEBUG => do (e, j) <- pprocexpr (S i); POk (Some (PSDebug e), j)
      | LOOP => do (b, j) <- parse_stmts f (S i); do _ <- expect j END; POk (Some (PSLoop b), S j)
      | BREAK => POk (Some PSBreak, S i)
      | CONTINUE => POk (Some PSContinue, S i)
      | END | ELSE => POk (None, i)
      | _ => PErr
      end
  end.

(* ---- commands ---- *)
Definition pamount (i : nat) : pr (bool * nat * nat * nat * nat) :=
  do t <- ty i;
  if teq t ALL then POk (true, 0, 0, 0, S i)
  else if teq t SKIP then
    do sv <- number_at (S i);
    do t2 <- ty (S (S i));
    if teq t2 TAKE then do tv <- number_at (S (S (S i))); POk (false, sv, tv, 0, S (S (S (S i))))
    else POk (true, sv, 0, 0, S (S i))
  else if teq t TAKE || teq t TOP then do tv <- number_at (S i); POk (false, 0, tv, 0, S (S i))
  else if teq t LAST then do lv <- number_at (S i); POk (true, 0, 0, lv, S (S i))
  else PErr.

Definition patom (i : nat) : pr (atom * nat) :=
  do t <- ty i;
  if teq t STRING then POk (AStr false false (lx i), S i)
  else if teq t CASELESS then do _ <- expect (S i) STRING; POk (AStr false true (lx (S i)), S (S i))
  else if teq t IDENTIFIER then POk (AVar (lx i), S i)
  else PErr.

Fixpoint patoms (fuel i : nat) : pr (list atom * nat) :=
  match fuel with
  | O => PFuel
  | S f => do (a, j) <- patom i;
           do t <- ty j;
           if stop_cmd t then POk ([a], j) else do (r, k) <- patoms f j; POk (a :: r, k)
  end.

Definition sub_fuel : nat := 4 * length toks + 8.

Fixpoint pcommand (fuel : nat) (i g : nat) : pr (option command * nat * nat) :=
  match fuel with
  | O => PFuel
  | S f =>
      do t <- ty i;
      match t with
      | FIND =>
          do (all, sk, tk, la, j) <- pamount (S i);
          do (es, k, g1) <- parse_exprs sub_fuel stop_cmd j g;
          POk (Some (CFind all sk tk la es), k, g1)
      | REPLACE =>
          do (all, sk, tk, la, j) <- pamount (S i);
          do (es, k, g1) <- parse_exprs sub_fuel stop_with j g;
          do _ <- expect k WITH;
          do (ats, m) <- patoms (S (length toks)) (S k);
          POk (Some (CReplace all sk tk la es ats), m, g1)
      | SET =>
          do _ <- expect (S i) IDENTIFIER;
          do _ <- expect (S (S i)) TO;
          do t3 <- ty (S (S (S i)));
          let nm := lx (S i) in
          if teq t3 PATTERN then
            do (es, j, g1) <- parse_exprs sub_fuel stop_pattern (S (S (S (S i)))) g;
            do tj <- ty j;
            if negb (teq tj BEGIN) then POk (Some (CSetPattern nm es PNil), j, g1)
            else do (ss, k) <- parse_stmts sub_fuel (S j); do _ <- expect k END; POk (Some (CSetPattern nm es ss), S k, g1)
          else if teq t3 MATCHES then
            do (oc, j, g1) <- pcommand f (S (S (S (S i)))) g;
            match oc with None => PErr | Some c => POk (Some (CSetMatches nm c), j, g1) end
          else if teq t3 TRANSFORM then
            do t4 <- ty (S (S (S (S i))));
            let s := if teq t4 BEGIN then S (S (S (S (S i)))) else S (S (S (S i))) in
            do (ss, j) <- parse_stmts sub_fuel s;
            do _ <- expect j END;
            POk (Some (CSetTransform nm ss), S j, g)
          else PErr
      | EOF => POk (None, i, g)
      | _ => PErr
      end
  end.

Fixpoint pcommands (fuel : nat) (i g : nat) : pr (list command) :=
  match fuel with
  | O => PFuel
  | S f =>
      if S i <? length toks then
        do (oc, j, g1) <- pcommand (S (length toks)) i g;
        do cs <- pcommands f j g1;
        POk (match oc with Some c => c :: cs | None => cs end)
      else POk []
  end.

End Parse.

Definition significant (t : token) : bool := negb (teq (ttyp t) WS || teq (ttyp t) COMMENT).

Definition parse (all_tokens : list token) : pr (list command) :=
  let toks := filter significant all_tokens in
  pcommands toks (S (length toks)) 0 0.

(* ast.ParseReader *)
Inductive front := FOk (p : list command) | FLexErr (e : lexerr) | FParseErr | FCrash | FHang.

Definition parse_source (src : list N) : front :=
  match lex src with
  | LexErr e => FLexErr e
  | LexHang => FHang
  | LexOk ts => match parse ts with
                | POk p => FOk p
                | PErr => FParseErr
                | PCrash => FCrash
                | PFuel => FHang
                end
  end.
