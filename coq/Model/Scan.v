(* Model of findMatches (libvore/engine/search.go): the scan loop over start offsets, the
   all/skip/take/last window, and MakeMatch. *)
From Model Require Export VM.

Record mrec := {
  mnum : nat;
  mstart : nat; mend : nat;
  mlstart : nat; mlend : nat;
  mcstart : nat; mcend : nat;
  mvalue : bytes;
  mrepl : option bytes;
  mvars : env
}.

Definition make_match (num start ln cl : nat) (c : core) : mrec :=
  {| mnum := num; mstart := start; mend := pos (cur c);
     mlstart := ln; mlend := line (cur c);
     mcstart := cl; mcend := col (cur c);
     mvalue := matched (cur c); mrepl := None; mvars := cenv c |}.

(* ds.Queue.Limit: drop from the front until at most n remain *)
Definition limit {A} (n : nat) (l : list A) : list A := skipn (length l - n) l.

Inductive sres := SOk (ms : list mrec) | SCrash (why : crash) | SFuel.

(* The scan loop, for an arbitrary attempt function (one engine run started at a given offset,
   line and column). *)
Section ScanLoop.
Variable attempt : nat -> nat -> nat -> outcome.
Variable text : bytes.
Variables (all : bool) (skip take last : nat).

(* a failed (or empty) attempt: advance one byte, keeping line/column in step *)
Definition fail_step (off ln cl : nat) : option (nat * nat * nat) :=
  match nth_error text off with
  | None => None                      (* "WOW THAT IS NOT GOOD" *)
  | Some b => Some (S off, if N.eqb b nl then S ln else ln, if N.eqb b nl then 1 else S cl)
  end.

(* what one iteration of the scan loop decides *)
Inductive iter_res :=
| IRStop (w : sres)
| IRNext (off ln cl num : nat) (acc : list mrec).

Definition push_match (num off ln cl : nat) (c : core) (acc : list mrec) : list mrec :=
  if Nat.leb skip num
  then (let a := acc ++ [make_match (S num) off ln cl c] in
        if Nat.eqb last 0 then a else limit last a)
  else acc.

Definition scan_iter (off ln cl num : nat) (acc : list mrec) : iter_res :=
  match attempt off ln cl with
  | Crash_ w => IRStop (SCrash w)
  | Fuel_ => IRStop SFuel
  | Matched c =>
      if negb (Nat.eqb (length (matched (cur c))) 0)
      then IRNext (pos (cur c)) (line (cur c)) (col (cur c)) (S num) (push_match num off ln cl c acc)
      else match fail_step off ln cl with
           | None => IRStop (SCrash CrBadInstr)
           | Some (o, l, k) => IRNext o l k num acc
           end
  | NoMatch =>
      match fail_step off ln cl with
      | None => IRStop (SCrash CrBadInstr)
      | Some (o, l, k) => IRNext o l k num acc
      end
  end.

(* [fuel] bounds the number of scan iterations: each advances the offset by at least one *)
Fixpoint scan (fuel : nat) (off ln cl : nat) (num : nat) (acc : list mrec) : sres :=
  match fuel with
  | O => SFuel
  | S f =>
      if (all || Nat.ltb num (skip + take))%bool then
        match scan_iter off ln cl num acc with
        | IRStop w => w
        | IRNext off' ln' cl' num' acc' =>
            if Nat.leb (length text) off' then SOk acc' else scan f off' ln' cl' num' acc'
        end
      else SOk acc
  end.

End ScanLoop.

Section Scan.
Variable vm_fuel : nat.
Variable prog : list instr.
Variable text : bytes.
Variables (all : bool) (skip take last : nat).

(* one attempt: the engine started at [off] *)
Definition attempt (off ln cl : nat) : outcome :=
  run prog text vm_fuel (Running (init_core off ln cl) []).

Definition find_matches : sres :=
  if Nat.eqb (length text) 0 then SOk []
  else if Nat.eqb (length prog) 0 then SOk []
  else scan attempt text all skip take last (S (length text)) 0 1 1 0 [].

End Scan.
