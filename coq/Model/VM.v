(* Model of the backtracking matching VM: libvore/engine/searchengine.go (state, micro-operations)
   and the per-instruction functions of libvore/engine/search.go. *)
From Model Require Export Atoms Process Value Rx.


Record loopst := {
  lid : nat;            (* loopId *)
  llevel : nat;         (* callLevel *)
  liter : nat;          (* iterationStep *)
  lname : name;
  lstart : nat;         (* loopMatchIndexStart = len(currentMatch) when the iteration began *)
  lvars : env           (* variables: iteration number (decimal) -> map *)
}.

(* the part of the state that CONSUME advances together *)
Record cursor := { pos : nat; matched : bytes; line : nat; col : nat }.

Record core := {
  pc : nat;
  cur : cursor;
  loops : list loopst;             (* head = top of stack *)
  vars : list (name * nat);        (* variableStack: name, len(currentMatch) at start *)
  calls : list (nat * nat);        (* callStack: id, returnOffset *)
  cenv : env
}.

Inductive state :=
| Running (c : core) (B : list core)
| Failed
| Crashed (why : crash)
| NoFuel.

Definition bt (B : list core) : state :=
  match B with [] => Failed | c :: B' => Running c B' end.

Definition set_pc (c : core) (p : nat) : core :=
  {| pc := p; cur := cur c; loops := loops c; vars := vars c; calls := calls c; cenv := cenv c |}.
Definition set_cur (c : core) (p : nat) (k : cursor) : core :=
  {| pc := p; cur := k; loops := loops c; vars := vars c; calls := calls c; cenv := cenv c |}.
Definition set_loops (c : core) (p : nat) (ls : list loopst) (e : env) : core :=
  {| pc := p; cur := cur c; loops := ls; vars := vars c; calls := calls c; cenv := e |}.

(* CONSUME's bookkeeping for one byte / a chunk (columns count bytes: ASCII, see DESIGN 5) *)
Definition consume_byte (k : cursor) (b : N) : cursor :=
  {| pos := S (pos k); matched := matched k ++ [b];
     line := if N.eqb b nl then S (line k) else line k;
     col := if N.eqb b nl then 1 else S (col k) |}.

Definition consume (k : cursor) (chunk : bytes) : cursor := fold_left consume_byte chunk k.

Section VM.
Variable prog : list instr.
Variable text : bytes.

(* advance the cursor of [c] to position [p'] >= pos by consuming text[pos..p') and go to the next pc *)
Definition advance (c : core) (p' : nat) : core :=
  set_cur c (S (pc c)) (consume (cur c) (sub text (pos (cur c)) p')).

Definition atom_result (c : core) (B : list core) (r : option nat) : state :=
  match r with Some p' => Running (advance c p') B | None => bt B end.

(* INSERTVARIABLE: into the innermost named loop's current-iteration map, else the environment *)
Definition insert_iter (l : loopst) (n : name) (v : value) : loopst :=
  let idx := itoa_nat (liter l) in
  let m := match alookup (lvars l) idx with Some (VMap m) => m | Some (VStr s) => [([118; 97; 108; 117; 101]%N, VStr s)] | None => [] end in
  {| lid := lid l; llevel := llevel l; liter := liter l; lname := lname l; lstart := lstart l;
     lvars := aset (lvars l) idx (VMap (aset m n v)) |}.

Fixpoint insert_variable (ls : list loopst) (e : env) (n : name) (v : value) : list loopst * env :=
  match ls with
  | [] => ([], aset e n v)
  | l :: r =>
      if Nat.eqb (length (lname l)) 0
      then let '(r', e') := insert_variable r e n v in (l :: r', e')
      else (insert_iter l n v :: r, e)
  end.

(* POPLOOPSTACK: pop, and publish a named loop's variables under its name *)
Definition pop_loop (ls : list loopst) (e : env) : option (loopst * list loopst * env) :=
  match ls with
  | [] => None
  | l :: r =>
      if Nat.eqb (length (lname l)) 0 then Some (l, r, e)
      else let '(r', e') := insert_variable r e (lname l) (VMap (lvars l)) in Some (l, r', e')
  end.

Definition fresh_loop (id : nat) (nm : name) (c : core) : loopst :=
  {| lid := id; llevel := length (calls c); liter := 0; lname := nm; lstart := length (matched (cur c));
     lvars := [([48%N], VMap [])] |}.

(* INITLOOPSTACK / CHECKZEROMATCHLOOP / INCLOOPSTACK: None = zero-width iteration rejected *)
Definition enter_loop (id : nat) (nm : name) (c : core) : option (list loopst) :=
  match loops c with
  | l :: rest =>
      if (Nat.eqb (lid l) id && Nat.eqb (llevel l) (length (calls c)))%bool then
        if Nat.eqb (lstart l) (length (matched (cur c))) then None
        else Some ({| lid := lid l; llevel := llevel l; liter := S (liter l); lname := lname l;
                      lstart := length (matched (cur c));
                      lvars := aset (lvars l) (itoa_nat (S (liter l))) (VMap []) |} :: rest)
      else Some (fresh_loop id nm c :: loops c)
  | [] => Some [fresh_loop id nm c]
  end.


Definition pred_env (c : core) : penv :=
  [(match_name, PVStr (matched (cur c))); (matchLength_name, PVNum (Z.of_nat (length (matched (cur c)))))].

Definition step (c : core) (B : list core) : state :=
  match nth_error prog (pc c) with
  | None => Crashed CrIndex
  | Some i =>
    match i with
    | IMatchLit nt cl v => atom_result c B (match_lit text v nt cl (pos (cur c)))
    | IMatchClass nt k => atom_result c B (match_class text k nt (pos (cur c)))
    | IMatchRange nt f t => atom_result c B (match_range text f t nt (pos (cur c)))
    | IMatchVar n =>
        match alookup (cenv c) n with
        | None => bt B
        | Some (VMap _) => bt B
        | Some (VStr []) => Running (set_pc c (S (pc c))) B
        | Some (VStr v) => atom_result c B (match_lit text v false false (pos (cur c)))
        end
    | ICall _ t =>
        Running {| pc := t; cur := cur c; loops := loops c; vars := vars c;
                   calls := (t, S (pc c)) :: calls c; cenv := cenv c |} B
    | IBranch bs =>
        match bs with
        | [] => Crashed CrIndex
        | b0 :: rest => Running (set_pc c b0) (map (set_pc c) rest ++ B)
        end
    | IStartNotIn nx => Running (set_pc c (S (pc c))) (set_pc c nx :: B)
    | IFailNotIn =>
        match B with
        | _ :: c2 :: B' => Running c2 B'
        | _ => Failed
        end
    | IEndNotIn mx =>
        match mx with
        | Zneg _ => Crashed CrIndex
        | _ => let n := consume_len text (pos (cur c)) (Z.to_nat mx) in
               if Nat.eqb n 0 then bt B else Running (advance c (pos (cur c) + n)) B
        end
    | IStartLoop id mn mx fw ex nm =>
        match enter_loop id nm c with
        | None => bt B
        | Some ls =>
            let cnt := match ls with l :: _ => liter l | [] => 0 end in
            if Nat.ltb cnt mn then Running (set_loops c (S (pc c)) ls (cenv c)) B
            else if within mx cnt then
              match pop_loop ls (cenv c) with
              | None => Crashed CrBadInstr
              | Some (l, rest, e') =>
                  if fw
                  then (* NEXT; CHECKPOINT; POPLOOPSTACK; JUMP exit+1 *)
                    Running (set_loops c (S ex) rest e') (set_loops c (S (pc c)) ls (cenv c) :: B)
                  else (* POP; JUMP exit+1; CHECKPOINT; PUSH; JUMP pc+1 *)
                    Running (set_loops c (S (pc c)) (l :: rest) e') (set_loops c (S ex) rest e' :: B)
              end
            else bt B
        end
    | IStopLoop _ _ _ _ st _ => Running (set_pc c st) B
    | IStartVar n =>
        Running {| pc := S (pc c); cur := cur c; loops := loops c;
                   vars := (n, length (matched (cur c))) :: vars c; calls := calls c; cenv := cenv c |} B
    | IEndVar n =>
        match vars c with
        | (m, st) :: vs =>
            if bytes_eqb m n
            then let '(ls', e') := insert_variable (loops c) (cenv c) n (VStr (skipn st (matched (cur c)))) in
                 Running {| pc := S (pc c); cur := cur c; loops := ls'; vars := vs; calls := calls c; cenv := e' |} B
            else Crashed CrBadInstr
        | [] => Crashed CrNil
        end
    | IStartSub id _ eo =>
        let push := {| pc := S (pc c); cur := cur c; loops := loops c; vars := vars c;
                       calls := (id, S eo) :: calls c; cenv := cenv c |} in
        match calls c with
        | (i0, _) :: _ => if Nat.eqb i0 id then Running (set_pc c (S (pc c))) B else Running push B
        | [] => Running push B
        end
    | IEndSub _ validate =>
        match calls c with
        | [] => Crashed CrNil
        | (_, r) :: K =>
            let ret := {| pc := r; cur := cur c; loops := loops c; vars := vars c; calls := K; cenv := cenv c |} in
            match validate with
            | PNil => Running ret B
            | _ =>
                match run_program proc_fuel validate (init_pstate (pred_env c)) with
                | Ok v => if get_boolean v then Running ret B else bt B
                | Crash w => Crashed w
                | OutOfFuel => NoFuel
                end
            end
        end
    | IJump t => Running (set_pc c t) B
    end
  end.

(* the inner loop of findMatches: run until the pc leaves the program (SUCCESS) or the backtrack
   stack is exhausted (FAILED) *)
Inductive outcome := Matched (c : core) | NoMatch | Crash_ (why : crash) | Fuel_.

Fixpoint run (fuel : nat) (s : state) : outcome :=
  match s with
  | Failed => NoMatch
  | Crashed w => Crash_ w
  | NoFuel => Fuel_
  | Running c B =>
      if Nat.leb (length prog) (pc c) then Matched c
      else match fuel with
           | O => Fuel_
           | S f => run f (step c B)
           end
  end.

End VM.

Definition init_core (start ln cl : nat) : core :=
  {| pc := 0; cur := {| pos := start; matched := []; line := ln; col := cl |};
     loops := []; vars := []; calls := []; cenv := [] |}.
