(* The matching micro-operations of libvore/engine/searchengine.go that look at the text:
   each is a function  text -> position -> option (new position)   (None = BACKTRACK).
   A position is a byte offset; all reads go through [read] (the Reader's bounds rule). *)
From Model Require Export Syntax.

Section Atoms.
Variable text : bytes.

Definition size : nat := length text.

Definition rd (pos n : nat) : bytes := read text pos n.

(* CONSUME(amount): advance by the number of bytes actually read *)
Definition consume_len (pos amount : nat) : nat := length (rd pos amount).

Definition xorb_not (cond nt : bool) (p : nat) : option nat :=
  if xorb cond nt then Some p else None.

(* MATCH *)
Definition match_lit (v : bytes) (nt caseless : bool) (pos : nat) : option nat :=
  let comp := rd pos (length v) in
  match comp with
  | [] => None
  | _ => if xorb (compare_bytes v comp caseless) nt then Some (pos + consume_len pos (length v)) else None
  end.

Definition match_any (nt : bool) (pos : nat) : option nat :=
  if nt then None else
  match rd pos 1 with [] => None | _ => Some (pos + consume_len pos 1) end.

Definition ws_options : list bytes := [[32%N]; [9%N]; [10%N]; [13%N]].

Definition match_options (opts : list bytes) (nt : bool) (pos : nat) : option nat :=
  let v := rd pos 1 in
  match v with
  | [] => None
  | _ => if xorb (existsb (bytes_eqb v) opts) nt then Some (pos + consume_len pos 1) else None
  end.

(* MATCHRANGE: tries lengths len(to) down to len(from) *)
Fixpoint match_range_from (from to : bytes) (nt : bool) (pos : nat) (i : nat) (k : nat) {struct k} : option nat :=
  (* i = current length, k = number of lengths still to try *)
  match k with
  | O => None
  | S k' =>
      let v := rd pos i in
      let inside := (bytes_leb from v && bytes_leb v to)%bool in
      match v with
      | [] => match i with O => None | S i' => match_range_from from to nt pos i' k' end
      | _ => if xorb inside nt then Some (pos + consume_len pos i)
             else match i with O => None | S i' => match_range_from from to nt pos i' k' end
      end
  end.

Definition match_range (from to : bytes) (nt : bool) (pos : nat) : option nat :=
  let mn := length from in
  let mx := length to in
  if Nat.ltb mx mn then None else match_range_from from to nt pos mx (S (mx - mn)).

Definition is_alpha (b : N) : bool :=
  ((N.leb 97 b && N.leb b 122) || (N.leb 65 b && N.leb b 90))%bool.

Definition match_letter (nt : bool) (pos : nat) : option nat :=
  match rd pos 1 with
  | [b] => if xorb (is_alpha b) nt then Some (pos + consume_len pos 1) else None
  | _ => None
  end.

(* engine.IsLetter on a read result: word characters are letters, digits and '_' *)
Definition is_word_byte (b : N) : bool :=
  (is_alpha b || (N.leb 48 b && N.leb b 57) || N.eqb b 95)%bool.
Definition is_word (v : bytes) : bool :=
  match v with [b] => is_word_byte b | _ => false end.

Definition match_filestart (nt : bool) (pos : nat) := xorb_not (Nat.eqb pos 0) nt pos.
Definition match_fileend (nt : bool) (pos : nat) := xorb_not (Nat.eqb pos size) nt pos.

Definition match_linestart (nt : bool) (pos : nat) :=
  if Nat.eqb pos 0 then xorb_not true nt pos
  else xorb_not (bytes_eqb (rd (pos - 1) 1) [nl]) nt pos.

Definition at_line_end (pos : nat) : bool :=
  (bytes_eqb (rd pos 1) [nl] || bytes_eqb (rd pos 2) [cr; nl] || Nat.eqb pos size)%bool.

Definition match_lineend (nt : bool) (pos : nat) := xorb_not (at_line_end pos) nt pos.

Definition match_wordstart (nt : bool) (pos : nat) :=
  if Nat.eqb pos size then xorb_not false nt pos
  else if Nat.eqb pos 0 then xorb_not (is_word (rd pos 1)) nt pos
  else xorb_not (is_word (rd pos 1) && negb (is_word (rd (pos - 1) 1)))%bool nt pos.

Definition match_wordend (nt : bool) (pos : nat) :=
  if Nat.eqb pos 0 then xorb_not false nt pos
  else if Nat.eqb pos size then xorb_not (is_word (rd (pos - 1) 1)) nt pos
  else xorb_not (negb (is_word (rd pos 1)) && is_word (rd (pos - 1) 1))%bool nt pos.

Definition match_wholefile (nt : bool) (pos : nat) : option nat :=
  if negb (Nat.eqb pos 0) then (if nt then Some pos else None)
  else if nt then None
  else Some (pos + consume_len pos size).

(* the consuming loops of MATCHWHOLELINE / MATCHWHOLEWORD: [fuel] = bytes left *)
Fixpoint wholeline_loop (fuel : nat) (pos : nat) : nat :=
  match fuel with
  | O => pos
  | S f =>
      let p1 := pos + consume_len pos 1 in
      if Nat.eqb p1 size then p1
      else if at_line_end p1 then p1
      else wholeline_loop f p1
  end.

Definition match_wholeline (nt : bool) (pos : nat) : option nat :=
  if ((negb (Nat.eqb pos 0) && negb (bytes_eqb (rd (pos - 1) 1) [nl])) || Nat.eqb pos size)%bool
  then (if nt then Some pos else None)
  else if nt then None
  else Some (wholeline_loop (size - pos) pos).

Fixpoint wholeword_loop (fuel : nat) (pos : nat) : nat :=
  match fuel with
  | O => pos
  | S f =>
      let p1 := pos + consume_len pos 1 in
      if Nat.eqb p1 size then p1
      else if (negb (is_word (rd p1 1)) && is_word (rd (p1 - 1) 1))%bool then p1
      else wholeword_loop f p1
  end.

Definition match_wholeword (nt : bool) (pos : nat) : option nat :=
  if ((negb (Nat.eqb pos 0) && (negb (is_word (rd pos 1)) || is_word (rd (pos - 1) 1))) || Nat.eqb pos size)%bool
  then (if nt then Some pos else None)
  else if nt then None
  else Some (wholeword_loop (size - pos) pos).

Definition match_class (c : cls) (nt : bool) (pos : nat) : option nat :=
  match c with
  | CAny => match_any nt pos
  | CWhitespace => match_options ws_options nt pos
  | CDigit => match_range [48%N] [57%N] nt pos
  | CUpper => match_range [65%N] [90%N] nt pos
  | CLower => match_range [97%N] [122%N] nt pos
  | CLetter => match_letter nt pos
  | CFileStart => match_filestart nt pos
  | CFileEnd => match_fileend nt pos
  | CLineStart => match_linestart nt pos
  | CLineEnd => match_lineend nt pos
  | CWordStart => match_wordstart nt pos
  | CWordEnd => match_wordend nt pos
  | CWholeFile => match_wholefile nt pos
  | CWholeLine => match_wholeline nt pos
  | CWholeWord => match_wholeword nt pos
  end.

End Atoms.
