(* Model of libvore/bytecode/generate.go (code generator with absolute program counters) and of the
   adjust() relocation methods of libvore/bytecode/bytecode.go. *)
From Model Require Export Check.

Inductive generr :=
| GNameClash (n : name)
| GUndefined (n : name)
| GCheck (msg : nat).

Inductive gres (A : Type) := GOk (a : A) | GErr (e : generr).
Arguments GOk {A} a.
Arguments GErr {A} e.

(* state.variables: -1 = capture variable, otherwise the pc of the subroutine *)
Inductive varkind := VKCapture | VKSub (pc : nat).

Record gstate := {
  gvars : list (name * varkind);
  gsubs : list (name * (list instr * pstmts));      (* globalSubroutines *)
  gtrans : list (name * pstmts);                      (* globalTransformations *)
  gnext : nat                                         (* supply of loop ids (math/rand in Go) *)
}.

Definition init_gstate : gstate := {| gvars := []; gsubs := []; gtrans := []; gnext := 0 |}.

Definition set_vars (g : gstate) (v : list (name * varkind)) : gstate :=
  {| gvars := v; gsubs := gsubs g; gtrans := gtrans g; gnext := gnext g |}.

Definition adjust (d : nat) (i : instr) : instr :=
  match i with
  | ICall n t => ICall n (t + d)
  | IBranch bs => IBranch (map (fun b => b + d) bs)
  | IStartNotIn n => IStartNotIn (n + d)
  | IStartLoop id mn mx fw ex nm => IStartLoop id mn mx fw (ex + d) nm
  | IStopLoop id mn mx fw st nm => IStopLoop id mn mx fw (st + d) nm
  | IStartSub id n eo => IStartSub (id + d) n (eo + d)
  | IJump t => IJump (t + d)
  | _ => i
  end.

Definition cls_maxsize (c : cls) : Z :=
  match c with
  | CAny | CWhitespace | CDigit | CUpper | CLower | CLetter => 1
  | CLineStart | CFileStart | CWordStart | CLineEnd | CFileEnd | CWordEnd => 0
  | CWholeFile | CWholeLine | CWholeWord => -1
  end%Z.

Definition listable_maxsize (l : listable) : Z :=
  match l with
  | LiStr _ _ v => Z.of_nat (length v)
  | LiClass _ c => cls_maxsize c
  | LiRange _ t => Z.of_nat (length t)
  end.

Definition list_maxsize (ls : list listable) : Z :=
  fold_left (fun m l => Z.max m (listable_maxsize l)) ls (-1)%Z.

Definition gen_listable (l : listable) : list instr :=
  match l with
  | LiStr nt cl v => [IMatchLit nt cl v]
  | LiClass nt c => [IMatchClass nt c]
  | LiRange f t => [IMatchRange false f t]
  end.

(* generate_not_not: Branch, then each item followed by a Jump to the common end *)
Definition gen_in (items : list listable) (offset : nat) : list instr :=
  let codes := map gen_listable items in
  let endpc := fold_left (fun e c => e + length c + 1) codes (offset + 1) in
  let fix starts (cs : list (list instr)) (pc : nat) : list nat :=
      match cs with [] => [] | c :: r => pc :: starts r (pc + length c + 1) end in
  IBranch (starts codes (offset + 1)) :: flat_map (fun c => c ++ [IJump endpc]) codes.

(* generate_not: StartNotIn item FailNotIn ... EndNotIn *)
Fixpoint gen_notin_items (items : list listable) (pc : nat) : list instr :=
  match items with
  | [] => []
  | it :: r =>
      let c := gen_listable it in
      IStartNotIn (pc + length c + 2) :: c ++ [IFailNotIn] ++ gen_notin_items r (pc + length c + 2)
  end.

Definition gen_notin (items : list listable) (offset : nat) : list instr :=
  gen_notin_items items offset ++ [IEndNotIn (list_maxsize items)].

Definition gbind {A B} (r : gres A) (f : A -> gres B) : gres B :=
  match r with GOk a => f a | GErr e => GErr e end.

(* generateSearchInstruction and friends.  Returns the code and the new generator state. *)
Fixpoint gen_expr (e : expr) (offset : nat) (g : gstate) {struct e} : gres (list instr * gstate) :=
  match e with
  | EPrim l => gen_lit l offset g
  | EList nt items => GOk (if nt then gen_notin items offset else gen_in items offset, g)
  | EBranch l r =>
      gbind (gen_lit l (offset + 1) g) (fun '(lc, g1) =>
      gbind (gen_expr r (offset + 2 + length lc) g1) (fun '(rc, g2) =>
        let endpc := offset + length lc + length rc + 3 in
        GOk (IBranch [offset + 1; offset + length lc + 2] :: lc ++ [IJump endpc] ++ rc ++ [IJump endpc], g2)))
  | EDec n l =>
      gbind (gen_lit l (offset + 1) g) (fun '(body, g1) =>
        match alookup (gvars g1) n with
        | Some _ => GErr (GNameClash n)
        | None => GOk (IStartVar n :: body ++ [IEndVar n], set_vars g1 (aset (gvars g1) n VKCapture))
        end)
  | ESub n body =>
      match alookup (gvars g) n with
      | Some _ => GErr (GNameClash n)
      | None =>
          let g0 := set_vars g (aset (gvars g) n (VKSub offset)) in
          gbind (gen_exprs body (offset + 1) g0) (fun '(code, g1) =>
            GOk (IStartSub offset n (offset + 1 + length code) :: code ++ [IEndSub n PNil], g1))
      end
  | ELoop mn mx fw nm body =>
      let unnamed := Nat.eqb (length nm) 0 in
      (* the first [mn] iterations of an unnamed loop are unrolled *)
      let fix unroll (k : nat) (cur : nat) (g : gstate) (acc : list instr) : gres (list instr * nat * gstate) :=
          match k with
          | O => GOk (acc, cur, g)
          | S k' => gbind (gen_expr body cur g) (fun '(c, g1) => unroll k' (cur + length c) g1 (acc ++ c))
          end in
      gbind (if unnamed then unroll mn offset g [] else GOk ([], offset, g)) (fun '(pre, cur, g1) =>
        if (unnamed && Z.eqb (Z.of_nat mn) mx)%bool then GOk (pre, g1)
        else
          gbind (gen_expr body (cur + 1) g1) (fun '(c, g2) =>
            let newmin := if (unnamed && Nat.ltb 0 mn)%bool then 0 else mn in
            let newmax := if (unnamed && Z.ltb 0 mx)%bool then (mx - Z.of_nat mn)%Z else mx in
            let id := gnext g2 in
            let g3 := {| gvars := gvars g2; gsubs := gsubs g2; gtrans := gtrans g2; gnext := S id |} in
            GOk (pre ++ IStartLoop id newmin newmax fw (cur + length c + 1) nm :: c
                     ++ [IStopLoop id newmin newmax fw cur nm], g3)))
  end
with gen_lit (l : lit) (offset : nat) (g : gstate) {struct l} : gres (list instr * gstate) :=
  match l with
  | LStr nt cl v => GOk ([IMatchLit nt cl v], g)
  | LClass nt c => GOk ([IMatchClass nt c], g)
  | LSubExpr body => gen_exprs body offset g
  | LVar n =>
      match alookup (gvars g) n with
      | Some VKCapture => GOk ([IMatchVar n], g)
      | Some (VKSub pc) => GOk ([ICall n pc], g)
      | None =>
          match alookup (gsubs g) n with
          | None => GErr (GUndefined n)
          | Some (code, validate) =>
              let g1 := set_vars g (aset (gvars g) n (VKSub offset)) in
              let body := map (adjust (offset + 1)) code in
              GOk (IStartSub offset n (offset + 1 + length code) :: body ++ [IEndSub n validate], g1)
          end
      end
  end
with gen_exprs (es : exprs) (offset : nat) (g : gstate) {struct es} : gres (list instr * gstate) :=
  match es with
  | ENil => GOk ([], g)
  | ECons e r =>
      gbind (gen_expr e offset g) (fun '(c1, g1) =>
      gbind (gen_exprs r (offset + length c1) g1) (fun '(c2, g2) => GOk (c1 ++ c2, g2)))
  end.

Definition gen_atom (a : atom) (g : gstate) : rinstr :=
  match a with
  | AStr _ _ v => RString v
  | AVar n => match alookup (gtrans g) n with Some p => RProcess p | None => RVariable n end
  end.

Definition fresh_vars (g : gstate) : gstate := set_vars g [].

Fixpoint gen_command (c : command) (g : gstate) : gres (bcommand * gstate) :=
  match c with
  | CFind all sk tk la body =>
      gbind (gen_exprs body 0 (fresh_vars g)) (fun '(code, g1) => GOk (BFind all sk tk la code, g1))
  | CReplace all sk tk la body result =>
      gbind (gen_exprs body 0 (fresh_vars g)) (fun '(code, g1) =>
        GOk (BReplace all sk tk la code (map (fun a => gen_atom a g1) result), g1))
  | CSetTransform id body =>
      let g1 := {| gvars := []; gsubs := gsubs g; gtrans := aset (gtrans g) id body; gnext := gnext g |} in
      match check_ok CtxTransform body with
      | Some m => GErr (GCheck m)
      | None => GOk (BSetTransform id body, g1)
      end
  | CSetPattern id pat pred =>
      gbind (gen_exprs pat 0 (fresh_vars g)) (fun '(code, g1) =>
        let g2 := {| gvars := gvars g1; gsubs := aset (gsubs g1) id (code, pred); gtrans := gtrans g1; gnext := gnext g1 |} in
        match check_ok CtxPredicate pred with
        | Some m => GErr (GCheck m)
        | None => GOk (BSetPattern id code pred, g2)
        end)
  | CSetMatches id c' =>
      gbind (gen_command c' (fresh_vars g)) (fun '(bc, g1) => GOk (BSetMatches id bc, g1))
  end.

Fixpoint gen_program (cs : list command) (g : gstate) : gres (list bcommand) :=
  match cs with
  | [] => GOk []
  | c :: r => gbind (gen_command c g) (fun '(bc, g1) =>
              gbind (gen_program r g1) (fun bcs => GOk (bc :: bcs)))
  end.

Definition compile_ast (cs : list command) : gres (list bcommand) := gen_program cs init_gstate.
