(* Model of libvore/bytecode/generate.go (code generator with absolute program counters) and of the
   adjust() relocation methods of libvore/bytecode/bytecode.go. *)
From Model Require Export Check Rx.

Inductive generr :=
| GNameClash (n : name)
| GUndefined (n : name)
| GCheck (msg : nat).

Inductive gres (A : Type) := GOk (a : A) | GErr (e : generr).
Arguments GOk {A} a.
Arguments GErr {A} e.

(* state.variables: -1 = capture variable, otherwise the pc of the subroutine *)
Inductive varkind := VKCapture | VKSub (pc : nat).

Record gstate := {
  gvars : list (name * varkind);
  gsubs : list (name * (rx * pstmts));                (* globalSubroutines: body resolved at offset 0 *)
  gtrans : list (name * pstmts);                      (* globalTransformations *)
  gnext : nat                                         (* supply of loop ids (math/rand in Go) *)
}.

Definition init_gstate : gstate := {| gvars := []; gsubs := []; gtrans := []; gnext := 0 |}.

Definition set_vars (g : gstate) (v : list (name * varkind)) : gstate :=
  {| gvars := v; gsubs := gsubs g; gtrans := gtrans g; gnext := gnext g |}.

(* the adjust() methods of bytecode.go *)
Definition adjust (d : nat) (i : instr) : instr :=
  match i with
  | ICall n t => ICall n (t + d)
  | IBranch bs => IBranch (map (fun b => b + d) bs)
  | IStartNotIn n => IStartNotIn (n + d)
  | IStartLoop id mn mx fw ex nm => IStartLoop id mn mx fw (ex + d) nm
  | IStopLoop id mn mx fw st nm => IStopLoop id mn mx fw (st + d) nm
  | IStartSub id n eo => IStartSub (id + d) n (eo + d)
  | IJump t => IJump (t + d)
  | _ => i
  end.

Definition cls_maxsize (c : cls) : Z :=
  match c with
  | CAny | CWhitespace | CDigit | CUpper | CLower | CLetter => 1
  | CLineStart | CFileStart | CWordStart | CLineEnd | CFileEnd | CWordEnd => 0
  | CWholeFile | CWholeLine | CWholeWord => -1
  end%Z.

Definition listable_maxsize (l : listable) : Z :=
  match l with
  | LiStr _ _ v => Z.of_nat (length v)
  | LiClass _ c => cls_maxsize c
  | LiRange _ t => Z.of_nat (length t)
  end.

Definition list_maxsize (ls : list listable) : Z :=
  fold_left (fun m l => Z.max m (listable_maxsize l)) ls (-1)%Z.

Definition listable_instr (l : listable) : instr :=
  match l with
  | LiStr nt cl v => IMatchLit nt cl v
  | LiClass nt c => IMatchClass nt c
  | LiRange f t => IMatchRange false f t
  end.

Definition gbind {A B} (r : gres A) (f : A -> gres B) : gres B :=
  match r with GOk a => f a | GErr e => GErr e end.

(* Name resolution and loop unrolling, following generateSearchInstruction and friends: the
   offset is threaded exactly as the generator does, because subroutines are identified by the
   program counter of their StartSubroutine. *)
Fixpoint resolve_expr (e : expr) (offset : nat) (g : gstate) {struct e} : gres (rx * gstate) :=
  match e with
  | EPrim l => resolve_lit l offset g
  | EList nt items =>
      GOk (if nt then XNotIn (map listable_instr items) (list_maxsize items)
           else XIn (map listable_instr items), g)
  | EBranch l r =>
      gbind (resolve_lit l (offset + 1) g) (fun '(a, g1) =>
      gbind (resolve_expr r (offset + 2 + rx_len a) g1) (fun '(b, g2) => GOk (XAlt a b, g2)))
  | EDec n l =>
      gbind (resolve_lit l (offset + 1) g) (fun '(b, g1) =>
        match alookup (gvars g1) n with
        | Some _ => GErr (GNameClash n)
        | None => GOk (XDec n b, set_vars g1 (aset (gvars g1) n VKCapture))
        end)
  | ESub n body =>
      match alookup (gvars g) n with
      | Some _ => GErr (GNameClash n)
      | None =>
          let g0 := set_vars g (aset (gvars g) n (VKSub offset)) in
          gbind (resolve_exprs body (offset + 1) g0) (fun '(b, g1) => GOk (XSub n b PNil, g1))
      end
  | ELoop mn mx fw nm body =>
      let unnamed := Nat.eqb (length nm) 0 in
      (* the first [mn] iterations of an unnamed loop are unrolled; [k] receives the rest *)
      (* every copy of the body starts from the names known at the loop's entry (generateLoop: entry_variables) *)
      let entry_vars := gvars g in
      let fix unroll (k : nat) (cur : nat) (g : gstate) (tail : nat -> gstate -> gres (rx * gstate))
          : gres (rx * gstate) :=
          match k with
          | O => tail cur g
          | S k' => gbind (resolve_expr body cur (set_vars g entry_vars)) (fun '(c, g1) =>
                    gbind (unroll k' (cur + rx_len c) g1 tail) (fun '(rest, g2) => GOk (XSeq c rest, g2)))
          end in
      let tail := fun (cur : nat) (g1 : gstate) =>
        if (unnamed && Z.eqb (Z.of_nat mn) mx)%bool then GOk (XEps, g1)
        else
          gbind (resolve_expr body (cur + 1) (set_vars g1 entry_vars)) (fun '(c, g2) =>
            let newmin := if (unnamed && Nat.ltb 0 mn)%bool then 0 else mn in
            let newmax := if (unnamed && Z.ltb 0 mx)%bool then (mx - Z.of_nat mn)%Z else mx in
            let id := gnext g2 in
            let g3 := {| gvars := gvars g2; gsubs := gsubs g2; gtrans := gtrans g2; gnext := S id |} in
            GOk (XLoop id newmin newmax fw nm c, g3)) in
      if unnamed then unroll mn offset g tail else tail offset g
  end
with resolve_lit (l : lit) (offset : nat) (g : gstate) {struct l} : gres (rx * gstate) :=
  match l with
  | LStr nt cl v => GOk (XAtom (IMatchLit nt cl v), g)
  | LClass nt c => GOk (XAtom (IMatchClass nt c), g)
  | LSubExpr body => resolve_exprs body offset g
  | LVar n =>
      match alookup (gvars g) n with
      | Some VKCapture => GOk (XRef n, g)
      | Some (VKSub pc) => GOk (XCall n pc, g)
      | None =>
          match alookup (gsubs g) n with
          | None => GErr (GUndefined n)
          | Some (b0, validate) =>
              GOk (XSub n (shift (offset + 1) b0) validate, set_vars g (aset (gvars g) n (VKSub offset)))
          end
      end
  end
with resolve_exprs (es : exprs) (offset : nat) (g : gstate) {struct es} : gres (rx * gstate) :=
  match es with
  | ENil => GOk (XEps, g)
  | ECons e r =>
      gbind (resolve_expr e offset g) (fun '(a, g1) =>
      gbind (resolve_exprs r (offset + rx_len a) g1) (fun '(b, g2) => GOk (XSeq a b, g2)))
  end.

(* the code generator: resolve, then lay the code out *)
Definition gen_exprs (es : exprs) (offset : nat) (g : gstate) : gres (list instr * gstate) :=
  gbind (resolve_exprs es offset g) (fun '(r, g1) => GOk (compile r offset, g1)).

Definition gen_atom (a : atom) (g : gstate) : rinstr :=
  match a with
  | AStr _ _ v => RString v
  | AVar n => match alookup (gtrans g) n with Some p => RProcess p | None => RVariable n end
  end.

Definition fresh_vars (g : gstate) : gstate := set_vars g [].

Fixpoint gen_command (c : command) (g : gstate) : gres (bcommand * gstate) :=
  match c with
  | CFind all sk tk la body =>
      gbind (gen_exprs body 0 (fresh_vars g)) (fun '(code, g1) => GOk (BFind all sk tk la code, g1))
  | CReplace all sk tk la body result =>
      gbind (gen_exprs body 0 (fresh_vars g)) (fun '(code, g1) =>
        GOk (BReplace all sk tk la code (map (fun a => gen_atom a g1) result), g1))
  | CSetTransform id body =>
      let g1 := {| gvars := []; gsubs := gsubs g; gtrans := aset (gtrans g) id body; gnext := gnext g |} in
      match check_ok CtxTransform body with
      | Some m => GErr (GCheck m)
      | None => GOk (BSetTransform id body, g1)
      end
  | CSetPattern id pat pred =>
      gbind (resolve_exprs pat 0 (fresh_vars g)) (fun '(r, g1) =>
        let g2 := {| gvars := gvars g1; gsubs := aset (gsubs g1) id (r, pred); gtrans := gtrans g1; gnext := gnext g1 |} in
        match check_ok CtxPredicate pred with
        | Some m => GErr (GCheck m)
        | None => GOk (BSetPattern id (compile r 0) pred, g2)
        end)
  | CSetMatches id c' =>
      gbind (gen_command c' (fresh_vars g)) (fun '(bc, g1) => GOk (BSetMatches id bc, g1))
  end.

Fixpoint gen_program (cs : list command) (g : gstate) : gres (list bcommand) :=
  match cs with
  | [] => GOk []
  | c :: r => gbind (gen_command c g) (fun '(bc, g1) =>
              gbind (gen_program r g1) (fun bcs => GOk (bc :: bcs)))
  end.

Definition compile_ast (cs : list command) : gres (list bcommand) := gen_program cs init_gstate.

(* the resolved body of every command, in order (None for set commands): what the specification
   interprets *)
Fixpoint resolve_command (c : command) (g : gstate) : gres (option rx * gstate) :=
  match c with
  | CFind _ _ _ _ body | CReplace _ _ _ _ body _ =>
      gbind (resolve_exprs body 0 (fresh_vars g)) (fun '(r, g1) => GOk (Some r, g1))
  | CSetTransform id body =>
      GOk (None, {| gvars := []; gsubs := gsubs g; gtrans := aset (gtrans g) id body; gnext := gnext g |})
  | CSetPattern id pat pred =>
      gbind (resolve_exprs pat 0 (fresh_vars g)) (fun '(r, g1) =>
        GOk (None, {| gvars := gvars g1; gsubs := aset (gsubs g1) id (r, pred); gtrans := gtrans g1; gnext := gnext g1 |}))
  | CSetMatches id c' =>
      gbind (resolve_command c' (fresh_vars g)) (fun '(_, g1) => GOk (None, g1))
  end.

Fixpoint resolve_program (cs : list command) (g : gstate) : gres (list (option rx)) :=
  match cs with
  | [] => GOk []
  | c :: r => gbind (resolve_command c g) (fun '(x, g1) =>
              gbind (resolve_program r g1) (fun xs => GOk (x :: xs)))
  end.
