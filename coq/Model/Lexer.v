(* Model of libvore/ast/lexer.go: the token state machine of getNextToken over a sequence of runes
   (code points, as delivered by bufio.ReadRune), with the single-rune push-back used by the Go code.
   Token positions (offset/line/column) are not modelled: they only appear in error messages. *)
From Model Require Export Bytes.
Local Open Scope N_scope.

Inductive ttype :=
| ERROR | EOF | WS | COMMENT
| IDENTIFIER | NUMBER | STRING | REGEXP
| EQUAL | COLONEQ | COMMA | OPENPAREN | CLOSEPAREN | OPENCURLY | CLOSECURLY
| PLUS | MINUS | MULT | DIV | LESS | GREATER | LESSEQ | GREATEREQ | DEQUAL | NEQUAL | MOD
| FIND | REPLACE | WITH | SET | TO | PATTERN | MATCHES | TRANSFORM
| ALL | SKIP | TAKE | TOP | LAST
| ANY | WHITESPACE | DIGIT | UPPER | LOWER | LETTER | WHOLE | LINE | FILE | WORD | START | END | BEGIN
| CASELESS | NOT | AT | LEAST | MOST | BETWEEN | AND | EXACTLY | MAYBE | FEWEST | NAMED | IN | OR
| IF | THEN | ELSE | DEBUG | RETURN | HEAD | TAIL | LOOP | BREAK | CONTINUE | TRUE | FALSE.

Record token := { ttyp : ttype; lexeme : bytes }.

Inductive lexerr := LEUnknownToken | LEUnendingString | LEUnendingBlockComment | LEUnendingRegexp.

Inductive lstate :=
| SSTART | SWHITESPACE | SSTRING_DOUBLE | SSTRING_SINGLE | SSTRING_END | SSTRING_D_ESCAPE | SSTRING_S_ESCAPE
| SNUMBER | SEQUAL_1 | SDEQUAL | SEXCL | SNEQUAL | SCOLON | SCOLONEQ | SIDENTIFIER | SCOMMA
| SOPENPAREN | SCLOSEPAREN | SOPENCURLY | SCLOSECURLY | SCOMMENT | SCOMMENTSTART | SBLOCKCOMMENT
| SBLOCKCOMMENTSTARTEND | SBLOCKCOMMENTENDEND | SBLOCKCOMMENTFINAL | SDASH | SOPERATOR | SOPERATORSTART
| SREGEXP | SREGEXP_BODY | SERROR | SEND.

Definition lstate_eqb (a b : lstate) : bool :=
  match a, b with
  | SSTART, SSTART | SWHITESPACE, SWHITESPACE | SSTRING_DOUBLE, SSTRING_DOUBLE | SSTRING_SINGLE, SSTRING_SINGLE
  | SSTRING_END, SSTRING_END | SSTRING_D_ESCAPE, SSTRING_D_ESCAPE | SSTRING_S_ESCAPE, SSTRING_S_ESCAPE
  | SNUMBER, SNUMBER | SEQUAL_1, SEQUAL_1 | SDEQUAL, SDEQUAL | SEXCL, SEXCL | SNEQUAL, SNEQUAL | SCOLON, SCOLON
  | SCOLONEQ, SCOLONEQ | SIDENTIFIER, SIDENTIFIER | SCOMMA, SCOMMA | SOPENPAREN, SOPENPAREN | SCLOSEPAREN, SCLOSEPAREN
  | SOPENCURLY, SOPENCURLY | SCLOSECURLY, SCLOSECURLY | SCOMMENT, SCOMMENT | SCOMMENTSTART, SCOMMENTSTART
  | SBLOCKCOMMENT, SBLOCKCOMMENT | SBLOCKCOMMENTSTARTEND, SBLOCKCOMMENTSTARTEND | SBLOCKCOMMENTENDEND, SBLOCKCOMMENTENDEND
  | SBLOCKCOMMENTFINAL, SBLOCKCOMMENTFINAL | SDASH, SDASH | SOPERATOR, SOPERATOR | SOPERATORSTART, SOPERATORSTART
  | SREGEXP, SREGEXP | SREGEXP_BODY, SREGEXP_BODY | SERROR, SERROR | SEND, SEND => true
  | _, _ => false
  end.

(* ---- rune classes (unicode.IsSpace / IsDigit / IsLetter on the ASCII and Latin-1 range) ---- *)
Definition is_space (c : N) : bool := ((9 <=? c) && (c <=? 13)) || (c =? 32) || (c =? 133) || (c =? 160).
Definition is_digit_r (c : N) : bool := (48 <=? c) && (c <=? 57).
Definition is_letter_r (c : N) : bool := ((65 <=? c) && (c <=? 90)) || ((97 <=? c) && (c <=? 122)).
Definition is_hex (c : N) : bool := ((48 <=? c) && (c <=? 57)) || ((65 <=? c) && (c <=? 70)) || ((97 <=? c) && (c <=? 102)).

Definition hexval (c : N) : N :=
  if (48 <=? c) && (c <=? 57) then c - 48 else if (65 <=? c) && (c <=? 70) then c - 55 else c - 87.

(* buf.WriteRune: UTF-8 encoding of a code point *)
Definition encode_rune (c : N) : bytes :=
  if c <? 128 then [c]
  else if c <? 2048 then [192 + c / 64; 128 + c mod 64]
  else if c <? 65536 then [224 + c / 4096; 128 + (c / 64) mod 64; 128 + c mod 64]
  else [240 + c / 262144; 128 + (c / 4096) mod 64; 128 + (c / 64) mod 64; 128 + c mod 64].

Definition escaped_rune (c : N) : N :=
  if c =? 110 then 10 else if c =? 116 then 9 else if c =? 114 then 13 else if c =? 97 then 7
  else if c =? 98 then 8 else if c =? 102 then 12 else if c =? 118 then 11 else c.

Definition lower_ascii (c : N) : N := if (65 <=? c) && (c <=? 90) then c + 32 else c.

(* ---- reading: the source is a list of runes; position = index.  read returns 0 at the end
   without advancing (bufio returns an error); a NUL rune is read (and advances) but is treated
   as the end of the input by the state machine ---- *)
Section Lex.
Variable src : list N.

Definition rd (p : nat) : N * nat :=
  match nth_error src p with Some c => (c, S p) | None => (0, p) end.

(* Peek(2): the next two BYTES; for the ASCII hex test only their values below 128 matter *)
Definition peek2_hex (p : nat) : bool :=
  match nth_error src p, nth_error src (S p) with
  | Some a, Some b => is_hex a && is_hex b
  | _, _ => false
  end.

Inductive outcome := Cont (st : lstate) (buf : bytes) (p : nat) | Stop (st : lstate) (buf : bytes) (p : nat).

Definition starts_token_char (ch : N) : bool :=
  is_digit_r ch || is_letter_r ch || is_space ch || (ch =? 40) || (ch =? 41) || (ch =? 123) || (ch =? 125) || (ch =? 44)
  || (ch =? 58) || (ch =? 61) || (ch =? 34) || (ch =? 39) || (ch =? 45) || (ch =? 43) || (ch =? 60) || (ch =? 62)
  || (ch =? 42) || (ch =? 47) || (ch =? 37) || (ch =? 64).

(* the regexp literal body: runes up to the closing '/' *)
Fixpoint regexp_body (fuel : nat) (buf : bytes) (p : nat) : lstate * bytes * nat :=
  match fuel with
  | O => (SREGEXP_BODY, buf, p)
  | S f => let '(c, p1) := rd p in
           if c =? 47 then (SREGEXP, buf, p1)
           else if c =? 0 then (SREGEXP_BODY, buf, p1)
           else regexp_body f (buf ++ encode_rune c) p1
  end.

(* (the state test is written first in every conjunction - the Go conditions are pure, the order of the BRANCHES is the Go order -
   so that a known state prunes the chain by computation)
   one iteration of the for-loop of getNextToken, after ch := s.read() gave (ch, p1) from position p;
   [p] is the position to return to on unread_last *)
Definition lex_step (st : lstate) (buf : bytes) (p : nat) : outcome :=
  let '(ch, p1) := rd p in
  let is st' := lstate_eqb st st' in
  let w := buf ++ encode_rune ch in
  if is SSTART && (ch =? 0) then Stop SEND buf p1
  else if ch =? 0 then Stop st buf p                        (* unread_last (no effect at the real end) *)
  else if is SCOMMENT then (if ch =? 10 then Stop st buf p else Cont st w p1)
  else if is SBLOCKCOMMENT then Cont (if ch =? 41 then SBLOCKCOMMENTSTARTEND else SBLOCKCOMMENT) w p1
  else if is SBLOCKCOMMENTSTARTEND && (ch =? 45) then Cont SBLOCKCOMMENTENDEND w p1
  else if is SBLOCKCOMMENTSTARTEND && (ch =? 41) then Cont SBLOCKCOMMENTSTARTEND w p1
  else if is SBLOCKCOMMENTENDEND && (ch =? 45) then Stop SBLOCKCOMMENTFINAL w p1
  else if is SBLOCKCOMMENTENDEND || is SBLOCKCOMMENTSTARTEND then Cont (if ch =? 41 then SBLOCKCOMMENTSTARTEND else SBLOCKCOMMENT) w p1
  else if is SSTRING_DOUBLE && (ch =? 92) then Cont SSTRING_D_ESCAPE buf p1
  else if is SSTRING_DOUBLE then (if ch =? 34 then Stop SSTRING_END buf p1 else Cont st w p1)
  else if is SSTRING_SINGLE && (ch =? 92) then Cont SSTRING_S_ESCAPE buf p1
  else if is SSTRING_SINGLE then (if ch =? 39 then Stop SSTRING_END buf p1 else Cont st w p1)
  else if is SCOMMENTSTART && (ch =? 40) then Cont SBLOCKCOMMENT w p1
  else if is SCOMMENTSTART then (if ch =? 10 then Stop st buf p else Cont SCOMMENT w p1)
  else if is SSTART && (ch =? 40) then Stop SOPENPAREN w p1
  else if is SSTART && (ch =? 41) then Stop SCLOSEPAREN w p1
  else if is SSTART && (ch =? 123) then Stop SOPENCURLY w p1
  else if is SSTART && (ch =? 125) then Stop SCLOSECURLY w p1
  else if is SSTART && (ch =? 44) then Stop SCOMMA w p1
  else if is SSTART && (ch =? 33) then Cont SEXCL w p1
  else if is SEXCL && (ch =? 61) then Stop SNEQUAL w p1
  else if is SSTART && (ch =? 61) then Cont SEQUAL_1 w p1
  else if is SEQUAL_1 && (ch =? 61) then Stop SDEQUAL w p1
  else if is SCOLON && (ch =? 61) then Stop SCOLONEQ w p1
  else if is SOPERATORSTART && (ch =? 61) then Stop SOPERATOR w p1
  else if is SSTART && (ch =? 58) then Cont SCOLON w p1
  else if (is SSTART || is SDASH || is SCOMMENTSTART) && (ch =? 45) then
    Cont (if is SSTART then SDASH else if is SDASH then SCOMMENTSTART else SCOMMENT) w p1
  else if is SSTART && ((ch =? 43) || (ch =? 37) || (ch =? 42) || (ch =? 47)) then Stop SOPERATOR w p1
  else if is SSTART && ((ch =? 62) || (ch =? 60)) then Cont SOPERATORSTART w p1
  else if negb (is SSTRING_D_ESCAPE || is SSTRING_S_ESCAPE) && is_space ch then (if is SSTART || is SWHITESPACE then Cont SWHITESPACE w p1 else Stop st buf p)
  else if (is SNUMBER || is SSTART) && is_digit_r ch then Cont SNUMBER w p1
  else if is SSTART && is_letter_r ch then Cont SIDENTIFIER w p1
  else if is SIDENTIFIER && (is_digit_r ch || is_letter_r ch) then Cont SIDENTIFIER w p1
  else if is SSTART && (ch =? 34) then Cont SSTRING_DOUBLE buf p1
  else if is SSTRING_D_ESCAPE || is SSTRING_S_ESCAPE then
    let back := if is SSTRING_D_ESCAPE then SSTRING_DOUBLE else SSTRING_SINGLE in
    if ch =? 120 then
      (if peek2_hex p1
       then let '(a, p2) := rd p1 in let '(b, p3) := rd p2 in Cont back (buf ++ encode_rune (hexval a * 16 + hexval b)) p3
       else Cont back (buf ++ [120]) p1)
    else Cont back (buf ++ encode_rune (escaped_rune ch)) p1
  else if is SSTART && (ch =? 39) then Cont SSTRING_SINGLE buf p1
  else if is SSTART && (ch =? 64) then
    let '(n, p2) := rd p1 in
    if negb (n =? 47) then Stop SERROR buf p1            (* unread_last: back to after '@' *)
    else let '(st', b', p') := regexp_body (S (length src)) buf p2 in Stop st' b' p'
  else if negb (is SSTART) || starts_token_char ch then Stop st buf p
  else Stop SERROR w p1.

Fixpoint lex_loop (fuel : nat) (st : lstate) (buf : bytes) (p : nat) : option (lstate * bytes * nat) :=
  match fuel with
  | O => None
  | S f => match lex_step st buf p with
           | Cont st' b' p' => lex_loop f st' b' p'
           | Stop st' b' p' => Some (st', b', p')
           end
  end.

Definition str (s : list N) : bytes := s.

Definition keywords : list (bytes * ttype) :=
  [ ([102;105;110;100], FIND); ([114;101;112;108;97;99;101], REPLACE); ([119;105;116;104], WITH); ([115;101;116], SET);
    ([116;111], TO); ([112;97;116;116;101;114;110], PATTERN); ([109;97;116;99;104;101;115], MATCHES);
    ([116;114;97;110;115;102;111;114;109], TRANSFORM); ([102;117;110;99;116;105;111;110], TRANSFORM);
    ([97;108;108], ALL); ([115;107;105;112], SKIP); ([116;97;107;101], TAKE); ([116;111;112], TOP); ([108;97;115;116], LAST);
    ([97;110;121], ANY); ([119;104;105;116;101;115;112;97;99;101], WHITESPACE); ([100;105;103;105;116], DIGIT);
    ([117;112;112;101;114], UPPER); ([108;111;119;101;114], LOWER); ([108;101;116;116;101;114], LETTER);
    ([108;105;110;101], LINE); ([102;105;108;101], FILE); ([119;111;114;100], WORD); ([115;116;97;114;116], START);
    ([101;110;100], END); ([98;101;103;105;110], BEGIN); ([110;111;116], NOT); ([97;116], AT); ([108;101;97;115;116], LEAST);
    ([109;111;115;116], MOST); ([98;101;116;119;101;101;110], BETWEEN); ([97;110;100], AND); ([101;120;97;99;116;108;121], EXACTLY);
    ([109;97;121;98;101], MAYBE); ([102;101;119;101;115;116], FEWEST); ([110;97;109;101;100], NAMED); ([105;110], IN); ([111;114], OR);
    ([105;102], IF); ([116;104;101;110], THEN); ([101;108;115;101], ELSE); ([100;101;98;117;103], DEBUG);
    ([114;101;116;117;114;110], RETURN); ([104;101;97;100], HEAD); ([116;97;105;108], TAIL); ([108;111;111;112], LOOP);
    ([99;111;110;116;105;110;117;101], CONTINUE); ([98;114;101;97;107], BREAK); ([116;114;117;101], TRUE); ([102;97;108;115;101], FALSE);
    ([119;104;111;108;101], WHOLE); ([99;97;115;101;108;101;115;115], CASELESS) ].

Definition operators : list (bytes * ttype) :=
  [ ([43], PLUS); ([42], MULT); ([47], DIV); ([37], MOD); ([60], LESS); ([62], GREATER); ([60;61], LESSEQ); ([62;61], GREATEREQ) ].

(* the final switch: token type, or the lex error *)
Definition finish (st : lstate) (buf : bytes) : token + lexerr :=
  let tok t := inl {| ttyp := t; lexeme := buf |} in
  match st with
  | SSTART | SEXCL | SERROR | SCOLON => inr LEUnknownToken
  | SSTRING_S_ESCAPE | SSTRING_D_ESCAPE | SSTRING_SINGLE | SSTRING_DOUBLE => inr LEUnendingString
  | SSTRING_END => tok STRING
  | SNUMBER => tok NUMBER
  | SREGEXP => tok REGEXP
  | SREGEXP_BODY => inr LEUnendingRegexp
  | SIDENTIFIER => match alookup keywords (map lower_ascii buf) with Some t => tok t | None => tok IDENTIFIER end
  | SWHITESPACE => tok WS
  | SOPENPAREN => tok OPENPAREN | SCLOSEPAREN => tok CLOSEPAREN | SOPENCURLY => tok OPENCURLY | SCLOSECURLY => tok CLOSECURLY
  | SCOMMA => tok COMMA | SEQUAL_1 => tok EQUAL | SDEQUAL => tok DEQUAL | SNEQUAL => tok NEQUAL
  | SBLOCKCOMMENT | SBLOCKCOMMENTSTARTEND | SBLOCKCOMMENTENDEND => inr LEUnendingBlockComment
  | SBLOCKCOMMENTFINAL | SCOMMENTSTART | SCOMMENT => tok COMMENT
  | SDASH => tok MINUS
  | SCOLONEQ => tok COLONEQ
  | SOPERATORSTART | SOPERATOR => match alookup operators buf with Some t => tok t | None => inr LEUnknownToken end
  | SEND => tok EOF
  end.

Inductive lexres := LexOk (ts : list token) | LexErr (e : lexerr) | LexHang.

(* getTokens: until EOF or the first error; [fuel] bounds the number of tokens *)
Fixpoint lex_tokens (fuel : nat) (p : nat) (acc : list token) : lexres :=
  match fuel with
  | O => LexHang
  | S f =>
      match lex_loop (S (S (length src))) SSTART [] p with
      | None => LexHang
      | Some (st, buf, p') =>
          match finish st buf with
          | inr e => LexErr e
          | inl t => match ttyp t with
                     | EOF => LexOk (acc ++ [t])
                     | _ => lex_tokens f p' (acc ++ [t])
                     end
          end
      end
  end.

Definition lex : lexres := lex_tokens (S (S (length src))) 0 [].

End Lex.
