(* Byte strings as used throughout vore (Go strings are byte sequences). *)
From Coq Require Export List Arith NArith ZArith Lia Bool.
Export ListNotations.

Definition byte := N.
Definition bytes := list N.

(* t[a:b] *)
Definition sub (t : bytes) (a b : nat) : bytes := firstn (b - a) (skipn a t).

Fixpoint bytes_eqb (a b : bytes) : bool :=
  match a, b with
  | [], [] => true
  | x :: a', y :: b' => N.eqb x y && bytes_eqb a' b'
  | _, _ => false
  end.

Lemma bytes_eqb_spec a b : reflect (a = b) (bytes_eqb a b).
Proof.
  revert b; induction a as [|x a IH]; intros [|y b]; simpl; try (constructor; congruence).
  destruct (N.eqb_spec x y); simpl.
  - destruct (IH b); constructor; congruence.
  - constructor; congruence.
Qed.

Lemma bytes_eqb_refl a : bytes_eqb a a = true.
Proof. destruct (bytes_eqb_spec a a); congruence. Qed.

(* Go's string comparison: bytewise lexicographic *)
Fixpoint bytes_cmp (a b : bytes) : comparison :=
  match a, b with
  | [], [] => Eq
  | [], _ :: _ => Lt
  | _ :: _, [] => Gt
  | x :: a', y :: b' => match N.compare x y with Eq => bytes_cmp a' b' | c => c end
  end.

Definition bytes_leb (a b : bytes) : bool := match bytes_cmp a b with Gt => false | _ => true end.
Definition bytes_ltb (a b : bytes) : bool := match bytes_cmp a b with Lt => true | _ => false end.

Fixpoint prefixb (v t : bytes) : bool :=
  match v, t with
  | [], _ => true
  | x :: v', y :: t' => N.eqb x y && prefixb v' t'
  | _ :: _, [] => false
  end.

(* ASCII case folding (strings.EqualFold restricted to ASCII literals, see DESIGN 5) *)
Definition lower (b : N) : N := if (N.leb 65 b && N.leb b 90)%bool then (b + 32)%N else b.

Fixpoint bytes_eqb_fold (a b : bytes) : bool :=
  match a, b with
  | [], [] => true
  | x :: a', y :: b' => N.eqb (lower x) (lower y) && bytes_eqb_fold a' b'
  | _, _ => false
  end.

Definition compare_bytes (a b : bytes) (caseless : bool) : bool :=
  if caseless then bytes_eqb_fold a b else bytes_eqb a b.

Definition nl : N := 10%N.
Definition cr : N := 13%N.

(* files.Reader.Read(length) at offset pos over a source of the given contents:
   refuses ("" result) zero-length reads and reads that do not fit *)
Definition read (t : bytes) (pos n : nat) : bytes :=
  if Nat.eqb n 0 then [] else if Nat.ltb (length t) (pos + n) then [] else sub t pos (pos + n).

(* association lists used as maps *)
Fixpoint alookup {A} (m : list (bytes * A)) (k : bytes) : option A :=
  match m with
  | [] => None
  | (k', v) :: r => if bytes_eqb k' k then Some v else alookup r k
  end.

Fixpoint aremove {A} (m : list (bytes * A)) (k : bytes) : list (bytes * A) :=
  match m with
  | [] => []
  | (k', v) :: r => if bytes_eqb k' k then aremove r k else (k', v) :: aremove r k
  end.

Definition aset {A} (m : list (bytes * A)) (k : bytes) (v : A) : list (bytes * A) :=
  (k, v) :: aremove m k.

(* decimal rendering of a natural number / integer (strconv.Itoa) *)
Fixpoint digits_fuel (fuel : nat) (n : N) (acc : bytes) : bytes :=
  match fuel with
  | O => acc
  | S f => let d := (48 + N.modulo n 10)%N in
           let q := N.div n 10 in
           if N.eqb q 0 then d :: acc else digits_fuel f q (d :: acc)
  end.

Definition itoa_N (n : N) : bytes := digits_fuel (S (N.to_nat (N.log2 n))) n [].
Definition itoa_nat (n : nat) : bytes := itoa_N (N.of_nat n).
Definition itoa_Z (z : Z) : bytes :=
  match z with
  | Z0 => [48%N]
  | Zpos p => itoa_N (Npos p)
  | Zneg p => 45%N :: itoa_N (Npos p)
  end.
