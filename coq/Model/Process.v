(* Model of libvore/engine/execute.go: values, coercions, expression and statement evaluation.
   Go's int is 64-bit two's complement: every arithmetic result is wrapped explicitly. *)
From Model Require Export Syntax.
Local Open Scope Z_scope.

Inductive pvalue := PVStr (s : bytes) | PVNum (n : Z) | PVBool (b : bool).
Inductive ptype := TString | TNumber | TBoolean.

Definition pv_type (v : pvalue) : ptype :=
  match v with PVStr _ => TString | PVNum _ => TNumber | PVBool _ => TBoolean end.

Definition two63 : Z := 9223372036854775808.
Definition two64 : Z := 18446744073709551616.
Definition wrap64 (z : Z) : Z := ((z + two63) mod two64) - two63.
Definition in_int64 (z : Z) : bool := (Z.leb (- two63) z && Z.ltb z two63)%bool.

(* strconv.Atoi: optional sign, one or more decimal digits, value within int64; otherwise an error *)
Definition is_digit (b : N) : bool := (N.leb 48 b && N.leb b 57)%bool.

Fixpoint parse_digits (s : bytes) (acc : Z) : option Z :=
  match s with
  | [] => Some acc
  | b :: r => if is_digit b then parse_digits r (acc * 10 + Z.of_N (b - 48)) else None
  end.

Definition atoi (s : bytes) : option Z :=
  let body sgn r :=
    match r with
    | [] => None
    | _ => match parse_digits r 0 with
           | Some v => let z := sgn * v in if in_int64 z then Some z else None
           | None => None
           end
    end in
  match s with
  | 43%N :: r => body 1 r        (* '+' *)
  | 45%N :: r => body (-1) r     (* '-' *)
  | _ => body 1 s
  end.

Definition str_true : bytes := [116; 114; 117; 101]%N.
Definition str_false : bytes := [102; 97; 108; 115; 101]%N.

Definition get_string (v : pvalue) : bytes :=
  match v with
  | PVStr s => s
  | PVNum n => itoa_Z n
  | PVBool b => if b then str_true else str_false
  end.

Definition get_number (v : pvalue) : Z :=
  match v with
  | PVStr s => match atoi s with Some z => z | None => 0 end
  | PVNum n => n
  | PVBool b => if b then 1 else 0
  end.

Definition get_boolean (v : pvalue) : bool :=
  match v with
  | PVStr s => negb (Nat.eqb (length s) 0)
  | PVNum n => negb (Z.eqb n 0)
  | PVBool b => b
  end.

(* outcome of an evaluation: a value, or a Go panic (with its class) *)
Inductive crash :=
| CrDivZero              (* integer divide by zero *)
| CrUndefinedOp          (* "SHOULDN'T GET HERE" *)
| CrIndex                (* index out of range / slice bounds *)
| CrNil                  (* nil dereference *)
| CrBadInstr             (* explicit VM panics on impossible states *)
| CrIO.                  (* reader panics *)

Inductive res (A : Type) := Ok (a : A) | Crash (c : crash) | OutOfFuel.
Arguments Ok {A} a.
Arguments Crash {A} c.
Arguments OutOfFuel {A}.

Definition b2z (b : bool) : Z := if b then 1 else 0.

Definition go_quot (a b : Z) : Z := wrap64 (Z.quot a b).
Definition go_rem (a b : Z) : Z := Z.rem a b.

Definition eval_binop (op : binop) (l r : pvalue) : res pvalue :=
  match l with
  | PVStr ls =>
      match op with
      | OPlus => Ok (PVStr (ls ++ get_string r))
      | ODEqual => Ok (PVBool (bytes_eqb ls (get_string r)))
      | ONEqual => Ok (PVBool (negb (bytes_eqb ls (get_string r))))
      | OLess => Ok (PVBool (bytes_ltb ls (get_string r)))
      | OGreater => Ok (PVBool (bytes_ltb (get_string r) ls))
      | OLessEq => Ok (PVBool (bytes_leb ls (get_string r)))
      | OGreaterEq => Ok (PVBool (bytes_leb (get_string r) ls))
      | OMinus => match r with PVNum rn => Ok (PVNum (wrap64 (get_number l - rn))) | _ => Crash CrUndefinedOp end
      | OMult => match r with PVNum rn => Ok (PVNum (wrap64 (get_number l * rn))) | _ => Crash CrUndefinedOp end
      | ODiv => match r with
                | PVNum rn => if Z.eqb rn 0 then Crash CrDivZero else Ok (PVNum (go_quot (get_number l) rn))
                | _ => Crash CrUndefinedOp end
      | OMod => match r with
                | PVNum rn => if Z.eqb rn 0 then Crash CrDivZero else Ok (PVNum (go_rem (get_number l) rn))
                | _ => Crash CrUndefinedOp end
      | OAnd | OOr => Crash CrUndefinedOp
      end
  | PVBool lb =>
      match op with
      | OAnd => Ok (PVBool (lb && get_boolean r))
      | OOr => Ok (PVBool (lb || get_boolean r))
      | ODEqual => Ok (PVBool (Bool.eqb lb (get_boolean r)))
      | ONEqual => Ok (PVBool (negb (Bool.eqb lb (get_boolean r))))
      | OLess => Ok (PVBool (Z.ltb (get_number l) (b2z (get_boolean r))))
      | OGreater => Ok (PVBool (Z.ltb (b2z (get_boolean r)) (get_number l)))
      | OLessEq => Ok (PVBool (Z.leb (get_number l) (b2z (get_boolean r))))
      | OGreaterEq => Ok (PVBool (Z.leb (b2z (get_boolean r)) (get_number l)))
      | _ => Crash CrUndefinedOp
      end
  | PVNum ln =>
      let rn := get_number r in
      match op with
      | ODEqual => Ok (PVBool (Z.eqb ln rn))
      | ONEqual => Ok (PVBool (negb (Z.eqb ln rn)))
      | OLess => Ok (PVBool (Z.ltb ln rn))
      | OGreater => Ok (PVBool (Z.ltb rn ln))
      | OLessEq => Ok (PVBool (Z.leb ln rn))
      | OGreaterEq => Ok (PVBool (Z.leb rn ln))
      | OPlus => Ok (PVNum (wrap64 (ln + rn)))
      | OMinus => Ok (PVNum (wrap64 (ln - rn)))
      | OMult => Ok (PVNum (wrap64 (ln * rn)))
      | ODiv => if Z.eqb rn 0 then Crash CrDivZero else Ok (PVNum (go_quot ln rn))
      | OMod => if Z.eqb rn 0 then Crash CrDivZero else Ok (PVNum (go_rem ln rn))
      | OAnd | OOr => Crash CrUndefinedOp
      end
  end.

Definition eval_unop (op : unop) (v : pvalue) : pvalue :=
  match op with
  | UNot => PVBool (negb (get_boolean v))
  | UHead => PVStr (firstn 1 (get_string v))
  | UTail => PVStr (skipn 1 (get_string v))
  end.

Definition penv := list (name * pvalue).

Fixpoint eval_expr (env : penv) (e : pexpr) : res pvalue :=
  match e with
  | PEBin op l r =>
      match eval_expr env l with
      | Ok lv => match eval_expr env r with
                 | Ok rv => eval_binop op lv rv
                 | x => x
                 end
      | x => x
      end
  | PEUn op a => match eval_expr env a with Ok v => Ok (eval_unop op v) | x => x end
  | PEStr s => Ok (PVStr s)
  | PENum n => Ok (PVNum n)
  | PEBool b => Ok (PVBool b)
  | PEVar n => match alookup env n with Some v => Ok v | None => Ok (PVStr []) end
  end.

Inductive pstatus := StNext | StBreak | StContinue | StReturning.

Record pstate := { pcur : pvalue; penvr : penv; pstat : pstatus }.

Definition is_next (s : pstatus) : bool := match s with StNext => true | _ => false end.

(* executeStatement / executeIf / executeLoop.  [fuel] bounds the iterations of process loops. *)
Fixpoint exec_stmt (fuel : nat) (s : pstmt) (st : pstate) {struct fuel} : res pstate :=
  match fuel with
  | O => OutOfFuel
  | S fuel' =>
    let fix exec_list (ss : pstmts) (st : pstate) {struct ss} : res pstate :=
        match ss with
        | PNil => Ok st
        | PCons s r =>
            match exec_stmt fuel' s st with
            | Ok st' => if is_next (pstat st') then exec_list r st' else Ok st'
            | x => x
            end
        end in
    match s with
    | PSSet n e =>
        match eval_expr (penvr st) e with
        | Ok v => Ok {| pcur := v; penvr := aset (penvr st) n v; pstat := pstat st |}
        | Crash c => Crash c | OutOfFuel => OutOfFuel
        end
    | PSReturn e =>
        match eval_expr (penvr st) e with
        | Ok v => Ok {| pcur := v; penvr := penvr st; pstat := StReturning |}
        | Crash c => Crash c | OutOfFuel => OutOfFuel
        end
    | PSDebug e =>
        match eval_expr (penvr st) e with
        | Ok v => Ok {| pcur := v; penvr := penvr st; pstat := pstat st |}
        | Crash c => Crash c | OutOfFuel => OutOfFuel
        end
    | PSIf c t f =>
        match eval_expr (penvr st) c with
        | Ok v =>
            let st1 := {| pcur := v; penvr := penvr st; pstat := pstat st |} in
            if get_boolean v then exec_list t st1 else exec_list f st1
        | Crash c => Crash c | OutOfFuel => OutOfFuel
        end
    | PSLoop b =>
        (* one pass over the body, then decide; iterating consumes fuel *)
        match exec_list b st with
        | Ok st' =>
            match pstat st' with
            | StReturning => Ok st'
            | StBreak => Ok {| pcur := pcur st'; penvr := penvr st'; pstat := StNext |}
            | StContinue => exec_stmt fuel' (PSLoop b) {| pcur := pcur st'; penvr := penvr st'; pstat := StNext |}
            | StNext => exec_stmt fuel' (PSLoop b) st'
            end
        | x => x
        end
    | PSContinue => Ok {| pcur := pcur st; penvr := penvr st; pstat := StContinue |}
    | PSBreak => Ok {| pcur := pcur st; penvr := penvr st; pstat := StBreak |}
    end
  end.

(* the top-level statement loop of executeReplaceProcess / matchEndSubroutine: run statements,
   stop at the first RETURNING; the result defaults to boolean true *)
Fixpoint run_program (fuel : nat) (ss : pstmts) (st : pstate) : res pvalue :=
  match ss with
  | PNil => Ok (PVBool true)
  | PCons s r =>
      match exec_stmt fuel s st with
      | Ok st' => match pstat st' with
                  | StReturning => Ok (pcur st')
                  | _ => run_program fuel r st'
                  end
      | Crash c => Crash c
      | OutOfFuel => OutOfFuel
      end
  end.

Definition init_pstate (env : penv) : pstate := {| pcur := PVStr []; penvr := env; pstat := StNext |}.

Definition proc_fuel : nat := 2000.

Definition match_name : name := [109; 97; 116; 99; 104]%N.                                 (* "match" *)
Definition matchLength_name : name := [109; 97; 116; 99; 104; 76; 101; 110; 103; 116; 104]%N. (* "matchLength" *)
Definition matchNumber_name : name := [109; 97; 116; 99; 104; 78; 117; 109; 98; 101; 114]%N. (* "matchNumber" *)
