(* Model of libvore/files/path.go: the segment matcher pathMatches (greedy, backtracking to the last
   star), ParsePath and GetFileList over a directory tree. *)
From Model Require Export Bytes.

Definition star : N := 42%N.
Definition slash : N := 47%N.

(* ---- pathMatches ---- *)
Record gstate := { gti : nat; gmi : nat; gstar : option (nat * nat) }.   (* targetIndex, matchIndex, (starIndex, starTarget) *)

Definition nth_is (l : bytes) (i : nat) (b : N) : bool :=
  match nth_error l i with Some x => N.eqb x b | None => false end.

Definition nth_same (a : bytes) (i : nat) (b : bytes) (j : nat) : bool :=
  match nth_error a i, nth_error b j with Some x, Some y => N.eqb x y | _, _ => false end.

(* one iteration of the main loop; None = return false *)
Definition glob_step (target pat : bytes) (s : gstate) : option gstate :=
  if nth_is pat (gmi s) star then Some {| gti := gti s; gmi := S (gmi s); gstar := Some (gmi s, gti s) |}
  else if nth_same pat (gmi s) target (gti s) then Some {| gti := S (gti s); gmi := S (gmi s); gstar := gstar s |}
  else match gstar s with
       | Some (si, st) => Some {| gti := S st; gmi := S si; gstar := Some (si, S st) |}
       | None => None
       end.

Fixpoint glob_loop (fuel : nat) (target pat : bytes) (s : gstate) : option (option gstate) :=
  (* outer None = out of fuel; inner None = return false; inner Some s = loop left with state s *)
  if Nat.ltb (gti s) (length target) then
    match fuel with
    | O => None
    | S f => match glob_step target pat s with
             | None => Some None
             | Some s' => glob_loop f target pat s'
             end
    end
  else Some (Some s).

Fixpoint skip_stars (pat : bytes) (mi : nat) (fuel : nat) : nat :=
  match fuel with
  | O => mi
  | S f => if nth_is pat mi star then skip_stars pat (S mi) f else mi
  end.

Definition glob_fuel (target pat : bytes) : nat := S ((S (S (length target))) * (S (S (length pat)))).

Definition path_matches (target pat : bytes) : option bool :=
  match glob_loop (glob_fuel target pat) target pat {| gti := 0; gmi := 0; gstar := None |} with
  | None => None
  | Some None => Some false
  | Some (Some s) => Some (Nat.eqb (skip_stars pat (gmi s) (length pat)) (length pat))
  end.

(* ---- directory trees and GetFileList ---- *)
Inductive node :=
| NFile (name : bytes)
| NDir (name : bytes) (children : list node).

Definition node_name (n : node) : bytes := match n with NFile x => x | NDir x _ => x end.
Definition is_dir (n : node) : bool := match n with NDir _ _ => true | NFile _ => false end.
Definition children_of (n : node) : list node := match n with NDir _ c => c | NFile _ => [] end.

Definition has_star (seg : bytes) : bool := existsb (N.eqb star) seg.
Definition all_stars (seg : bytes) : bool := forallb (N.eqb star) seg.   (* strings.Trim(seg, "*") == "" (incl. the empty segment) *)

Definition pm (target pat : bytes) : bool := match path_matches target pat with Some b => b | None => false end.

Fixpoint find_child (cs : list node) (name : bytes) : option node :=
  match cs with
  | [] => None
  | c :: r => if bytes_eqb (node_name c) name then Some c else find_child r name
  end.

(* segs = the path entries after an optional leading "/"; the last one is the file pattern *)
Fixpoint get_file_list (segs : list bytes) (cur : list node) (prefix : bytes) : list bytes :=
  match segs with
  | [] => []
  | [last] =>
      flat_map (fun e => if (negb (is_dir e) && pm (node_name e) last)%bool then [prefix ++ [slash] ++ node_name e] else []) cur
  | seg :: rest =>
      (if all_stars seg then get_file_list rest cur prefix else []) ++
      (if has_star seg
       then flat_map (fun e => if pm (node_name e) seg then get_file_list rest (children_of e) (prefix ++ [slash] ++ node_name e) else []) cur
       else match find_child cur seg with
            | Some e => get_file_list rest (children_of e) (prefix ++ [slash] ++ seg)
            | None => []
            end)
  end.

(* strings.Split(path, "/") *)
Fixpoint split_slash (p : bytes) (cur : bytes) : list bytes :=
  match p with
  | [] => [cur]
  | b :: r => if N.eqb b slash then cur :: split_slash r [] else split_slash r (cur ++ [b])
  end.
