(* Resolved patterns: the syntax tree after name resolution (which name is a back-reference, which
   a call and to which subroutine, which a first reference to a stored global pattern) and after the
   unrolling of the mandatory iterations of unnamed loops.  The code generator of the model is
   [compile] after [resolve] (Gen.v); relocation of a stored pattern is [shift] on this tree. *)
From Model Require Export Syntax.

Inductive rx :=
| XEps
| XAtom (i : instr)                         (* one text-matching instruction: literal, class or range *)
| XRef (n : name)                           (* back-reference to a capture *)
| XCall (n : name) (t : nat)                (* call of the subroutine whose StartSub sits at pc t *)
| XSeq (a b : rx)
| XAlt (a b : rx)                           (* a or b *)
| XIn (items : list instr)                  (* in i1, i2, ... *)
| XNotIn (items : list instr) (maxsize : Z) (* not in i1, i2, ... *)
| XLoop (id : nat) (mn : nat) (mx : Z) (fw : bool) (nm : name) (b : rx)
| XDec (n : name) (b : rx)                  (* b = n *)
| XSub (n : name) (b : rx) (pred : pstmts). (* {b} = n in place, or the first reference to a global *)

Fixpoint rx_len (r : rx) : nat :=
  match r with
  | XEps => 0
  | XAtom _ | XRef _ | XCall _ _ => 1
  | XSeq a b => rx_len a + rx_len b
  | XAlt a b => rx_len a + rx_len b + 3
  | XIn items => 1 + 2 * length items
  | XNotIn items _ => 3 * length items + 1
  | XLoop _ _ _ _ _ b => rx_len b + 2
  | XDec _ b => rx_len b + 2
  | XSub _ b _ => rx_len b + 2
  end.

Fixpoint in_starts (items : list instr) (pc : nat) : list nat :=
  match items with [] => [] | _ :: r => pc :: in_starts r (pc + 2) end.

Fixpoint notin_code (items : list instr) (pc : nat) : list instr :=
  match items with
  | [] => []
  | i :: r => IStartNotIn (pc + 3) :: i :: IFailNotIn :: notin_code r (pc + 3)
  end.

Fixpoint compile (r : rx) (o : nat) : list instr :=
  match r with
  | XEps => []
  | XAtom i => [i]
  | XRef n => [IMatchVar n]
  | XCall n t => [ICall n t]
  | XSeq a b => compile a o ++ compile b (o + rx_len a)
  | XAlt a b =>
      let e := o + rx_len a + rx_len b + 3 in
      IBranch [o + 1; o + rx_len a + 2] :: compile a (o + 1) ++ [IJump e] ++ compile b (o + 2 + rx_len a) ++ [IJump e]
  | XIn items =>
      let e := o + 1 + 2 * length items in
      IBranch (in_starts items (o + 1)) :: flat_map (fun i => [i; IJump e]) items
  | XNotIn items mx => notin_code items o ++ [IEndNotIn mx]
  | XLoop id mn mx fw nm b =>
      IStartLoop id mn mx fw (o + rx_len b + 1) nm :: compile b (o + 1) ++ [IStopLoop id mn mx fw o nm]
  | XDec n b => IStartVar n :: compile b (o + 1) ++ [IEndVar n]
  | XSub n b pred => IStartSub o n (o + 1 + rx_len b) :: compile b (o + 1) ++ [IEndSub n pred]
  end.

(* relocation of a resolved pattern by d program counters: only call targets are absolute *)
Fixpoint shift (d : nat) (r : rx) : rx :=
  match r with
  | XCall n t => XCall n (t + d)
  | XSeq a b => XSeq (shift d a) (shift d b)
  | XAlt a b => XAlt (shift d a) (shift d b)
  | XLoop id mn mx fw nm b => XLoop id mn mx fw nm (shift d b)
  | XDec n b => XDec n (shift d b)
  | XSub n b p => XSub n (shift d b) p
  | _ => r
  end.

(* loop bound test: MaxLoops = -1 means unbounded *)
Definition within (mx : Z) (cnt : nat) : bool := (Z.eqb mx (-1) || Z.leb (Z.of_nat cnt) mx)%bool.
