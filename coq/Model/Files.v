(* Model of RunFiles (libvore/engine/engine.go) and of the destination chosen by searchReplace,
   over a file system rendered as a finite map from file names to contents.  Opening a writer
   truncates (O_TRUNC); nothing else is touched. *)
From Model Require Export Engine.

Inductive rmode := MOverwrite | MNew | MNothing.

Definition fsys := list (bytes * bytes).

Definition vored_suffix : bytes := [46; 118; 111; 114; 101; 100]%N.   (* ".vored" *)

Definition dest (mode : rmode) (fname : bytes) : option bytes :=
  match mode with
  | MNothing => None
  | MNew => Some (fname ++ vored_suffix)
  | MOverwrite => Some fname
  end.

(* one command on one file: the matches and the file system afterwards *)
Definition run_file_cmd (fuel : nat) (mode : rmode) (fs : fsys) (fname : bytes) (c : bcommand) : rres * fsys :=
  match alookup fs fname with
  | None => (RCrash CrIO, fs)                         (* os.Open fails: panic *)
  | Some text =>
      let r := run_find fuel fname text c in
      match c, r with
      | BReplace _ _ _ _ _ _, ROk ms =>
          match dest mode fname with
          | Some d => (r, aset fs d (splice text ms))
          | None => (r, fs)
          end
      | _, _ => (r, fs)
      end
  end.

Fixpoint run_files_cmd (fuel : nat) (mode : rmode) (fs : fsys) (fnames : list bytes) (c : bcommand) : rres * fsys :=
  match fnames with
  | [] => (ROk [], fs)
  | f :: rest =>
      match run_file_cmd fuel mode fs f c with
      | (ROk ms, fs1) =>
          match run_files_cmd fuel mode fs1 rest c with
          | (ROk ms', fs2) => (ROk (ms ++ ms'), fs2)
          | x => x
          end
      | x => x
      end
  end.

Fixpoint run_files (fuel : nat) (mode : rmode) (fs : fsys) (fnames : list bytes) (cs : list bcommand) : rres * fsys :=
  match cs with
  | [] => (ROk [], fs)
  | c :: rest =>
      match run_files_cmd fuel mode fs fnames c with
      | (ROk ms, fs1) =>
          match run_files fuel mode fs1 fnames rest with
          | (ROk ms', fs2) => (ROk (ms ++ ms'), fs2)
          | x => x
          end
      | x => x
      end
  end.
