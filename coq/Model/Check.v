(* Model of libvore/bytecode/semanticcheck.go *)
From Model Require Export Process.

Inductive ctype := CTOk | CTError (msg : nat) | CTString | CTNumber | CTBoolean.
(* error message classes *)
Definition EOperator := 1%nat.      (* "Operator not defined for type." *)
Definition EUnary := 2%nat.         (* "This operator is not valid on this expression" *)
Definition EPredicateReturn := 3%nat.
Definition ETransformReturn := 4%nat.
Definition EIfCondition := 5%nat.
Definition EContinue := 6%nat.
Definition EBreak := 7%nat.

Inductive pcontext := CtxPredicate | CtxTransform.

Definition tenv := list (name * ctype).

Definition is_cmp (op : binop) : bool :=
  match op with ODEqual | ONEqual | OLess | OGreater | OLessEq | OGreaterEq => true | _ => false end.
Definition is_arith (op : binop) : bool :=
  match op with OPlus | OMinus | OMult | ODiv | OMod => true | _ => false end.
Definition is_logic (op : binop) : bool := match op with OAnd | OOr => true | _ => false end.

Definition is_error (t : ctype) : bool := match t with CTError _ => true | _ => false end.

Definition check_binop (op : binop) (l r : ctype) : ctype :=
  match l, r with
  | CTError m, _ => CTError m
  | _, CTError m => CTError m
  | _, _ =>
    match l with
    | CTString =>
        match op with
        | OPlus => CTString
        | _ => if is_cmp op then CTBoolean
               else match r with
                    | CTNumber => if is_arith op then CTNumber else CTError EOperator
                    | _ => CTError EOperator
                    end
        end
    | CTBoolean => if (is_logic op || is_cmp op)%bool then CTBoolean else CTError EOperator
    | CTNumber => if is_cmp op then CTBoolean else if is_arith op then CTNumber else CTError EOperator
    | _ => CTError EOperator
    end
  end.

Definition check_unop (op : unop) (t : ctype) : ctype :=
  match t, op with
  | CTBoolean, UNot => CTBoolean
  | CTString, UHead | CTString, UTail => CTString
  | CTError m, _ => CTError m
  | _, _ => CTError EUnary
  end.

Fixpoint check_expr (env : tenv) (e : pexpr) : ctype :=
  match e with
  | PEBin op l r => check_binop op (check_expr env l) (check_expr env r)
  | PEUn op a => check_unop op (check_expr env a)
  | PEStr _ => CTString
  | PENum _ => CTNumber
  | PEBool _ => CTBoolean
  | PEVar n => match alookup env n with Some t => t | None => CTString end
  end.

Record cinfo := { ctyp : ctype; cenvr : tenv; cinloop : bool }.

Fixpoint check_stmt (ctx : pcontext) (s : pstmt) (i : cinfo) {struct s} : cinfo :=
  let fix check_list (ss : pstmts) (i : cinfo) {struct ss} : cinfo :=
      match ss with
      | PNil => i
      | PCons s r => let i' := check_stmt ctx s i in
                     if is_error (ctyp i') then i' else check_list r i'
      end in
  match s with
  | PSSet n e =>
      let t := check_expr (cenvr i) e in
      if is_error t then {| ctyp := t; cenvr := cenvr i; cinloop := cinloop i |}
      else {| ctyp := CTOk; cenvr := aset (cenvr i) n t; cinloop := cinloop i |}
  | PSReturn e =>
      let t := check_expr (cenvr i) e in
      if is_error t then {| ctyp := t; cenvr := cenvr i; cinloop := cinloop i |}
      else
        let t' := match ctx, t with
                  | CtxPredicate, CTBoolean => CTOk
                  | CtxPredicate, _ => CTError EPredicateReturn
                  | CtxTransform, CTString | CtxTransform, CTNumber => CTOk
                  | CtxTransform, _ => CTError ETransformReturn
                  end in
        {| ctyp := t'; cenvr := cenvr i; cinloop := cinloop i |}
  | PSIf c t f =>
      let tc := check_expr (cenvr i) c in
      if is_error tc then {| ctyp := tc; cenvr := cenvr i; cinloop := cinloop i |}
      else match tc with
           | CTBoolean =>
               let i1 := check_list t {| ctyp := tc; cenvr := cenvr i; cinloop := cinloop i |} in
               if is_error (ctyp i1) then i1 else check_list f i1
           | _ => {| ctyp := CTError EIfCondition; cenvr := cenvr i; cinloop := cinloop i |}
           end
  | PSDebug e =>
      let t := check_expr (cenvr i) e in
      if is_error t then {| ctyp := t; cenvr := cenvr i; cinloop := cinloop i |}
      else {| ctyp := CTOk; cenvr := cenvr i; cinloop := cinloop i |}
  | PSLoop b =>
      let i1 := check_list b {| ctyp := ctyp i; cenvr := cenvr i; cinloop := true |} in
      if is_error (ctyp i1) then i1
      else {| ctyp := ctyp i1; cenvr := cenvr i1; cinloop := cinloop i |}
  | PSContinue =>
      if cinloop i then i else {| ctyp := CTError EContinue; cenvr := cenvr i; cinloop := cinloop i |}
  | PSBreak =>
      if cinloop i then i else {| ctyp := CTError EBreak; cenvr := cenvr i; cinloop := cinloop i |}
  end.


Definition init_cinfo : cinfo :=
  {| ctyp := CTOk; cenvr := [(match_name, CTString); (matchLength_name, CTNumber)]; cinloop := false |}.

(* generateSetTransform / generateSetPattern: check every statement, stop at the first error *)
Fixpoint check_program (ctx : pcontext) (ss : pstmts) (i : cinfo) : cinfo :=
  match ss with
  | PNil => i
  | PCons s r => let i' := check_stmt ctx s i in
                 if is_error (ctyp i') then i' else check_program ctx r i'
  end.

Definition check_ok (ctx : pcontext) (ss : pstmts) : option nat :=
  match ctyp (check_program ctx ss init_cinfo) with CTError m => Some m | _ => None end.
