(* Model of the replace side of libvore/engine/search.go: the replacer program run per match
   (InitReplacerState and the executeReplace functions), and the splice written by searchReplace. *)
From Model Require Export Scan.

Definition s_totalMatches : name := [116;111;116;97;108;77;97;116;99;104;101;115]%N.
Definition s_startOffset : name := [115;116;97;114;116;79;102;102;115;101;116]%N.
Definition s_endOffset : name := [101;110;100;79;102;102;115;101;116]%N.
Definition s_lineNumber : name := [108;105;110;101;78;117;109;98;101;114]%N.
Definition s_columnNumber : name := [99;111;108;117;109;110;78;117;109;98;101;114]%N.
Definition s_value : name := [118;97;108;117;101]%N.
Definition s_filename : name := [102;105;108;101;110;97;109;101]%N.

(* InitReplacerState: the match's variables plus the built-ins (which win on a name clash) *)
Definition replacer_vars (filename : bytes) (total : nat) (m : mrec) : env :=
  let v := mvars m in
  let v := aset v s_totalMatches (VStr (itoa_nat total)) in
  let v := aset v matchNumber_name (VStr (itoa_nat (mnum m))) in
  let v := aset v s_startOffset (VStr (itoa_nat (mstart m))) in
  let v := aset v s_endOffset (VStr (itoa_nat (mend m))) in
  let v := aset v s_lineNumber (VStr (itoa_nat (mlstart m))) in
  let v := aset v s_columnNumber (VStr (itoa_nat (mcstart m))) in
  let v := aset v s_value (VStr (mvalue m)) in
  aset v s_filename (VStr filename).

(* the environment a transform sees: the string-valued variables, then match / matchLength / matchNumber *)
Fixpoint string_vars (v : env) : penv :=
  match v with
  | [] => []
  | (k, VStr s) :: r => (k, PVStr s) :: string_vars r
  | (_, VMap _) :: r => string_vars r
  end.

Definition transform_env (vars : env) (m : mrec) : penv :=
  let e := string_vars vars in
  let e := aset e match_name (PVStr (mvalue m)) in
  let e := aset e matchLength_name (PVNum (Z.of_nat (length (mvalue m)))) in
  aset e matchNumber_name (PVNum (Z.of_nat (mnum m))).

Definition write_string (r : option bytes) (s : bytes) : option bytes :=
  Some (match r with Some p => p ++ s | None => s end).

(* one replacer instruction applied to the replacement built so far *)
Definition exec_rinstr (vars : env) (m : mrec) (r : option bytes) (i : rinstr) : res (option bytes) :=
  match i with
  | RString s => Ok (write_string r s)
  | RVariable n => match alookup vars n with
                   | Some (VStr s) => Ok (write_string r s)
                   | _ => Ok r
                   end
  | RProcess p =>
      match run_program proc_fuel p (init_pstate (transform_env vars m)) with
      | Ok v => Ok (write_string r (get_string v))
      | Crash c => Crash c
      | OutOfFuel => OutOfFuel
      end
  end.

Fixpoint exec_replacer (vars : env) (m : mrec) (r : option bytes) (is : list rinstr) : res (option bytes) :=
  match is with
  | [] => Ok r
  | i :: rest => match exec_rinstr vars m r i with
                 | Ok r' => exec_replacer vars m r' rest
                 | x => x
                 end
  end.

Definition replace_match (filename : bytes) (total : nat) (replacer : list rinstr) (m : mrec) : res mrec :=
  match exec_replacer (replacer_vars filename total m) m None replacer with
  | Ok r => Ok {| mnum := mnum m; mstart := mstart m; mend := mend m; mlstart := mlstart m; mlend := mlend m;
                  mcstart := mcstart m; mcend := mcend m; mvalue := mvalue m; mrepl := r; mvars := mvars m |}
  | Crash c => Crash c
  | OutOfFuel => OutOfFuel
  end.

Fixpoint replace_all (filename : bytes) (total : nat) (replacer : list rinstr) (ms : list mrec) : res (list mrec) :=
  match ms with
  | [] => Ok []
  | m :: r => match replace_match filename total replacer m with
              | Ok m' => match replace_all filename total replacer r with
                         | Ok r' => Ok (m' :: r')
                         | x => x
                         end
              | Crash c => Crash c
              | OutOfFuel => OutOfFuel
              end
  end.

(* ---- the writer: a growable byte array written at explicit offsets (files.Writer over a
   MemoryStream or an O_TRUNC file): gaps are zero-filled ---- *)
Definition write_at (w : bytes) (off : nat) (data : bytes) : bytes :=
  match data with
  | [] => w       (* a zero-length write does not extend the destination *)
  | _ => let w' := w ++ repeat 0%N (off - length w) in
         firstn off w' ++ data ++ skipn (off + length data) w'
  end.

Definition repl_text (m : mrec) : bytes := match mrepl m with Some r => r | None => [] end.

(* the copy loop of searchReplace: (lastReaderOffset, currentWriterOffset, writer) *)
Definition splice_step (text : bytes) (st : nat * nat * bytes) (m : mrec) : nat * nat * bytes :=
  let '(ro, wo, w) := st in
  let len := mstart m - ro in
  let orig := read text ro len in          (* ReadAt(len, ro) *)
  let w1 := write_at w wo orig in
  let wo1 := wo + len in
  let ro1 := ro + len in
  let w2 := write_at w1 wo1 (repl_text m) in
  (ro1 + length (mvalue m), wo1 + length (repl_text m), w2).

Definition splice (text : bytes) (ms : list mrec) : bytes :=
  let '(ro, wo, w) := fold_left (splice_step text) ms (0, 0, []) in
  if Nat.ltb ro (length text) then write_at w wo (read text ro (length text - ro)) else w.
