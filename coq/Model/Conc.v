(* Threads as deterministic programs over a shared store; interleavings of atomic actions.
   [Crit] is a critical section under one global mutex: its body runs atomically, after the
   synchronised locations have been reset (vore's parse() resets capture_group_number first). *)
From Coq Require Export List ZArith Bool Arith Lia.
Export ListNotations.

Definition loc := nat.
Definition store := loc -> Z.

Definition upd (s : store) (l : loc) (v : Z) : store := fun x => if Nat.eqb x l then v else s x.

Inductive prog :=
| Done (r : Z)
| Read (l : loc) (k : Z -> prog)
| Write (l : loc) (v : Z) (k : prog)
| Crit (body : prog) (k : Z -> prog).     (* run body atomically on reset synchronised locations; pass its result on *)

(* running a program alone *)
Section Sem.
Variable sync : loc -> bool.             (* locations protected by the mutex *)

Definition reset (s : store) : store := fun x => if sync x then 0%Z else s x.

Fixpoint solo (p : prog) (s : store) : Z * store :=
  match p with
  | Done r => (r, s)
  | Read l k => solo (k (s l)) s
  | Write l v k => solo k (upd s l v)
  | Crit body k => let '(r, s') := solo body (reset s) in solo (k r) s'
  end.

(* one atomic action of a thread *)
Definition act (p : prog) (s : store) : prog * store :=
  match p with
  | Done r => (Done r, s)
  | Read l k => (k (s l), s)
  | Write l v k => (k, upd s l v)
  | Crit body k => let '(r, s') := solo body (reset s) in (k r, s')
  end.

Fixpoint set_nth {A} (l : list A) (i : nat) (x : A) : list A :=
  match l, i with
  | [], _ => []
  | _ :: r, O => x :: r
  | y :: r, S j => y :: set_nth r j x
  end.

(* run a schedule: a list of thread indices *)
Fixpoint run_sched (sched : list nat) (ts : list prog) (s : store) : list prog * store :=
  match sched with
  | [] => (ts, s)
  | i :: rest =>
      match nth_error ts i with
      | Some p => let '(p', s') := act p s in run_sched rest (set_nth ts i p') s'
      | None => run_sched rest ts s
      end
  end.

(* footprint: p (outside critical sections) reads only locations in R and writes only in W, none of
   them synchronised; bodies of critical sections touch only synchronised locations and W/R too *)
Fixpoint within (R W : loc -> bool) (incrit : bool) (p : prog) : Prop :=
  match p with
  | Done _ => True
  | Read l k => (R l = true \/ W l = true \/ (incrit = true /\ sync l = true)) /\ (incrit = false -> sync l = false) /\ forall z, within R W incrit (k z)
  | Write l v k => (W l = true \/ (incrit = true /\ sync l = true)) /\ (incrit = false -> sync l = false) /\ within R W incrit k
  | Crit body k => incrit = false /\ within R W true body /\ forall z, within R W false (k z)
  end.

End Sem.
