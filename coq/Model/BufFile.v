(* Model of libvore/files/bufferedfile.go (a sliding window over a file) and of files.Reader on
   top of it.  The buffer size is a parameter (4096 in the Go code, passed by the driver), so that
   the theorems hold for every buffer size and no large numeral appears in the development. *)
From Model Require Export Bytes.

Record bfile := { bmin : nat; bmax : nat; bcur : nat; bbuf : bytes }.

Section BF.
Variable bsz : nat.          (* bufferSize *)
Variable f : bytes.          (* the contents of the file *)

Definition fsz : nat := length f.

(* os.File.ReadAt(buffer, start): as many bytes as the file has from start, at most len(buffer) *)
Definition file_read_at (start n : nat) : bytes := firstn n (skipn start f).

(* NewBufferedFile: the first Read fills the buffer from offset 0 *)
Definition bf_new : bfile :=
  {| bmin := 0; bmax := length (file_read_at 0 bsz); bcur := 0; bbuf := file_read_at 0 bsz |}.

(* where Seek puts the window for an offset outside it *)
Definition recentre (new : nat) : nat :=
  let ns := new - Nat.div bsz 2 in
  let bound := if Nat.ltb fsz bsz then fsz else fsz - bsz in
  if Nat.leb bound ns then fsz - bsz else ns.

Definition bf_seek (b : bfile) (new : nat) : bfile :=
  if (Nat.ltb new (bmin b) || Nat.leb (bmax b) new)%bool then
    let ns := recentre new in
    let data := file_read_at ns bsz in
    {| bmin := ns; bmax := ns + length data; bcur := new; bbuf := data |}
  else {| bmin := bmin b; bmax := bmax b; bcur := new; bbuf := bbuf b |}.

(* Read(p) with len(p) = n: copy out of the window, re-centre when it is exhausted.
   [fuel] bounds the refills; None = the loop would never end *)
Fixpoint bf_read (fuel : nat) (b : bfile) (n : nat) (acc : bytes) : option (bytes * bfile) :=
  let k := Nat.min (bmax b - bcur b) n in
  let chunk := sub (bbuf b) (bcur b - bmin b) (bcur b - bmin b + k) in
  let b1 := {| bmin := bmin b; bmax := bmax b; bcur := bcur b + k; bbuf := bbuf b |} in
  if Nat.eqb (n - k) 0 then Some (acc ++ chunk, b1)
  else match fuel with
       | O => None
       | S fuel' => bf_read fuel' (bf_seek b1 (bcur b1)) (n - k) (acc ++ chunk)
       end.

(* files.Reader: remembers the offset of the last Seek for its bounds check *)
Record reader := { rbf : bfile; roff : nat }.

Definition rd_new : reader := {| rbf := bf_new; roff := 0 |}.

Definition rd_seek (r : reader) (off : nat) : reader := {| rbf := bf_seek (rbf r) off; roff := off |}.

Definition rd_read (r : reader) (len : nat) : option (bytes * reader) :=
  if (Nat.eqb len 0 || Nat.ltb fsz (roff r + len))%bool then Some ([], r)
  else match bf_read (S len) (rbf r) len [] with
       | Some (s, b') => Some (s, {| rbf := b'; roff := roff r |})
       | None => None
       end.

(* the engine's READ / READAT: seek, then read *)
Definition rd_read_at (r : reader) (off len : nat) : option (bytes * reader) := rd_read (rd_seek r off) len.

Fixpoint rd_run (r : reader) (ops : list (nat * nat)) : option (list bytes) :=
  match ops with
  | [] => Some []
  | (off, len) :: rest =>
      match rd_read_at r off len with
      | Some (s, r') => match rd_run r' rest with Some l => Some (s :: l) | None => None end
      | None => None
      end
  end.

End BF.
