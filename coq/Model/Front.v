(* libvore.Compile: ParseReader (lexer, parser) followed by GenerateBytecode (semantic checks and
   code generation), over the runes of the source. *)
From Model Require Export Parser Gen.

Inductive compiled :=
| COk (bc : list bcommand)
| CLexError (e : lexerr)
| CParseError
| CGenError (e : generr)
| CPanic          (* an index past the end of the token slice or of a regex literal *)
| CNoReturn.      (* a loop of the front end that never ends (fuel exhausted) *)

Definition compile_source (src : list N) : compiled :=
  match parse_source src with
  | FLexErr e => CLexError e
  | FParseErr => CParseError
  | FCrash => CPanic
  | FHang => CNoReturn
  | FOk p => match compile_ast p with GOk bc => COk bc | GErr e => CGenError e end
  end.
